// State carried between calls on one receiver: BasisExtender (buffQ/buffP), rlwe.Evaluator (BuffInvNTT, BuffDecompQP,
// BuffQP, BuffBitDecomp) and their ShallowCopy. Every ordered pair of calls (different operation, different levels) is
// run on ONE receiver; the second call is judged by the property's oracle (BasisExtender) or must equal, residue for
// residue, the same call on a FRESH receiver (Evaluator: the single calls are judged in decomp.go / modup.go).
package main

import (
	"fmt"
	"math/big"

	"github.com/tuneinsight/lattigo/v6/core/rlwe"
	"github.com/tuneinsight/lattigo/v6/ring"
	"github.com/tuneinsight/lattigo/v6/ring/ringqp"

	"verif/engine"
	"verif/ref"
)

// beCall runs one BasisExtender operation on x at (lq,lp) over the first N values of its alphabet (rotated by rot) and
// applies the oracle of modup.go. Returns false after recording a failure.
func beCall(c *engine.Chooser, ch chain, x *beCtx, o beOp, lq, lp, alias, rot int, what string) bool {
	_, dst, S, D := x.shape(o, lq, lp)
	vals := beAlphabet(x, o, lq, lp)
	inQ := x.rQ.AtLevel(lq).NewPoly()
	inP := x.rP.AtLevel(lp).NewPoly()
	xs := make([]*big.Int, N)
	for j := 0; j < N; j++ {
		v := vals[(7*j+rot*N+rot)%len(vals)]
		xs[j] = v
		if o.down || o.toP {
			setCoeff(inQ.Coeffs, x.Q[:lq+1], j, v)
		}
		if o.down || !o.toP {
			setCoeff(inP.Coeffs, x.P[:lp+1], j, v)
		}
	}
	out := x.run(o, lq, lp, alias, inQ, inP)
	got := make([]uint64, len(dst))
	for j := 0; j < N; j++ {
		for i := range dst {
			got[i] = out[i][j]
		}
		if !o.down {
			xc := ref.Center(xs[j], S)
			e, ok := fitE(got, dst, xc, S)
			if !ok || (e != 0 && new(big.Int).Lsh(new(big.Int).Abs(xc), 2).Cmp(S) < 0) {
				fail(c, "C02/basisext/sequence/"+o.name+"/wrong-after-another-call-on-the-same-receiver", "%s %s: %s lq=%d lp=%d: x=%s lane %d: output %v mod %v", ch.name, what, o.name, lq, lp, xs[j], j, got, dst)
				return false
			}
		} else {
			rq := ref.RoundDivHalfUp(xs[j], D)
			if _, ok := fitE(got, dst, rq, bint(1)); !ok {
				fail(c, "C02/basisext/sequence/"+o.name+"/wrong-after-another-call-on-the-same-receiver", "%s %s: %s lq=%d lp=%d alias=%d: x=%s lane %d: output %v mod %v, round(x/D)=%s", ch.name, what, o.name, lq, lp, alias, xs[j], j, got, dst, rq)
				return false
			}
		}
	}
	return true
}

func beSequenceScenario(ch chain) engine.Scenario {
	name := fmt.Sprintf("basisext/sequences/%s", ch.name)
	return engine.Scenario{Name: name, Bound: -1, Fn: func(c *engine.Chooser) {
		LQ, LP := len(ch.Q)-1, len(ch.P)-1
		recv := c.Choose(2, "receiver") // 0: NewBasisExtender, 1: ShallowCopy of a used one
		o1 := beOps[c.Choose(len(beOps), "first-op")]
		lv := c.Choose(2, "first-levels") // the first call at the top levels or at the bottom ones
		lq1, lp1 := []int{LQ, 0}[lv], []int{LP, 0}[lv]
		o2 := beOps[c.Choose(len(beOps), "second-op")]
		lq2 := c.Choose(LQ+1, "second-levelQ")
		lp2 := c.Choose(LP+1, "second-levelP")
		alias := c.Choose(aliasModes(o2), "second-alias")
		x := newBE(ch.Q, ch.P)
		what := "NewBasisExtender"
		if recv == 1 {
			// use the original, then work on its shallow copy (shares the constants, must own its buffers)
			if !beCall(c, ch, x, o2, LQ, LP, 0, 3, "warm-up of the original") {
				return
			}
			x = &beCtx{Q: x.Q, P: x.P, rQ: x.rQ, rP: x.rP, be: x.be.ShallowCopy()}
			what = "ShallowCopy"
		}
		if !beCall(c, ch, x, o1, lq1, lp1, 0, 1, what+" first call") {
			return
		}
		if !beCall(c, ch, x, o2, lq2, lp2, alias, 2, what+" second call after "+o1.name) {
			return
		}
		c.Count(2 * N)
		c.Cover("be-sequence", o1.name+"->"+o2.name)
		c.Cover("be-sequence-receiver", what)
		c.Outcome(name, recv, o1.name, lq1, lp1, o2.name, lq2, lp2, alias)
	}}
}

// ---------------------------------------------------------------------------------------------
// rlwe.Evaluator: used receiver vs fresh receiver

type evalOp struct {
	name string
	run  func(ev *rlwe.Evaluator, params rlwe.Parameters, in ring.Poly) []uint64 // returns the reduced output words
}

func hashInput(r *ring.Ring, level int, seed uint64) ring.Poly {
	p := r.AtLevel(level).NewPoly()
	for i, q := range r.ModuliChain()[:level+1] {
		for j := 0; j < N; j++ {
			x := (seed+uint64(i)*1315423911+uint64(j))*0x9E3779B97F4A7C15 + 0x7F4A7C15
			x ^= x >> 29
			p.Coeffs[i][j] = (x * 0xBF58476D1CE4E5B9) % q
		}
	}
	return p
}

func flat(mods []uint64, rows [][]uint64, out []uint64) []uint64 {
	for i, q := range mods {
		for _, v := range rows[i] {
			out = append(out, v%q)
		}
	}
	return out
}

func evalOps(params rlwe.Parameters, gcts map[string]*rlwe.GadgetCiphertext) []evalOp {
	LQ, LP := params.MaxLevelQ(), params.MaxLevelP()
	Q, P := params.Q(), params.P()
	var ops []evalOp
	for _, lq := range []int{0, LQ} {
		lq := lq
		for lp := 0; lp <= LP; lp++ {
			lp := lp
			for _, isNTT := range []bool{true, false} {
				isNTT := isNTT
				ops = append(ops, evalOp{fmt.Sprintf("DecomposeNTT(lq=%d,lp=%d,ntt=%v)", lq, lp, isNTT), func(ev *rlwe.Evaluator, params rlwe.Parameters, in ring.Poly) []uint64 {
					n := params.BaseRNSDecompositionVectorSize(lq, lp)
					rqp := params.RingQP().AtLevel(lq, lp)
					dec := make([]ringqp.Poly, n)
					for i := range dec {
						dec[i] = rqp.NewPoly()
					}
					ev.DecomposeNTT(lq, lp, lp+1, in, isNTT, dec)
					var out []uint64
					for i := range dec {
						out = flat(Q[:lq+1], dec[i].Q.Coeffs, out)
						out = flat(P[:lp+1], dec[i].P.Coeffs, out)
					}
					return out
				}})
			}
		}
		for key := range gcts {
			key := key
			for _, isNTT := range []bool{true, false} {
				isNTT := isNTT
				ops = append(ops, evalOp{fmt.Sprintf("GadgetProductLazy(lq=%d,%s,ntt=%v)", lq, key, isNTT), func(ev *rlwe.Evaluator, params rlwe.Parameters, in ring.Poly) []uint64 {
					g := gcts[key]
					lp := g.LevelP()
					rqp := params.RingQP().AtLevel(lq, lp)
					ct := &rlwe.Element[ringqp.Poly]{MetaData: &rlwe.MetaData{}, Value: []ringqp.Poly{rqp.NewPoly(), rqp.NewPoly()}}
					ct.IsNTT = isNTT
					if err := ev.GadgetProductLazy(lq, in, g, ct); err != nil {
						panic(err)
					}
					var out []uint64
					for u := 0; u < 2; u++ {
						out = flat(Q[:lq+1], ct.Value[u].Q.Coeffs, out)
						out = flat(P[:lp+1], ct.Value[u].P.Coeffs, out)
					}
					return out
				}})
			}
		}
		for _, lp := range []int{0, LP} {
			lp := lp
			for flags := 0; flags < 4; flags++ {
				inNTT, outNTT := flags&1 == 1, flags&2 == 2
				ops = append(ops, evalOp{fmt.Sprintf("ModDown(lq=%d,lp=%d,in=%v,out=%v)", lq, lp, inNTT, outNTT), func(ev *rlwe.Evaluator, params rlwe.Parameters, in ring.Poly) []uint64 {
					rqp := params.RingQP().AtLevel(lq, lp)
					ctQP := &rlwe.Element[ringqp.Poly]{MetaData: &rlwe.MetaData{}, Value: []ringqp.Poly{rqp.NewPoly(), rqp.NewPoly()}}
					ctQP.IsNTT = inNTT
					for u := 0; u < 2; u++ {
						ctQP.Value[u].Q.CopyLvl(lq, in)
						ctQP.Value[u].P.CopyLvl(lp, hashInput(params.RingP(), lp, uint64(17+u)))
					}
					ct := rlwe.NewCiphertext(params, 1, lq)
					ct.IsNTT = outNTT
					ev.ModDown(lq, lp, ctQP, ct)
					var out []uint64
					for u := 0; u < 2; u++ {
						out = flat(Q[:lq+1], ct.Value[u].Coeffs, out)
					}
					return out
				}})
			}
		}
	}
	return ops
}

var gctCache = map[string]map[string]*rlwe.GadgetCiphertext{}

func evaluatorSequenceScenario(ch chain, nQ, nP, recv int) engine.Scenario {
	name := fmt.Sprintf("evaluator/sequences/%s/nQ=%d/nP=%d/%s", ch.name, nQ, nP, []string{"NewEvaluator", "ShallowCopy"}[recv])
	Q, P := ch.Q[:nQ], ch.P[:nP]
	return engine.Scenario{Name: name, Bound: -1, Fn: func(c *engine.Chooser) {
		params, err := rlweParams(Q, P)
		if err != nil {
			fail(c, "C02/decompose/rlwe-parameters-rejected", "rlwe parameters Q=%v P=%v rejected: %v", Q, P, err)
			return
		}
		// noise-free gadget ciphertexts (as in gadgetRecombineScenario); read-only, shared by the leaves of a worker
		ck := fmt.Sprint(N, CI, Q, P)
		gcts, ok := gctCache[ck]
		if !ok {
			gcts = map[string]*rlwe.GadgetCiphertext{}
			for _, v := range []struct{ lp, b2 int }{{nP - 1, 0}, {0, 0}, {0, 16}} {
				if v.lp < 0 {
					continue
				}
				key := fmt.Sprintf("gct(lp=%d,base2=%d)", v.lp, v.b2)
				if _, ok := gcts[key]; ok {
					continue
				}
				g := rlwe.NewGadgetCiphertext(params, 1, nQ-1, v.lp, v.b2)
				if err := rlwe.AddPolyTimesGadgetVectorToGadgetCiphertext(constNTTMont(params.RingQ(), 3), []rlwe.GadgetCiphertext{*g}, *params.RingQP(), params.RingQ().NewPoly()); err != nil {
					panic(err)
				}
				gcts[key] = g
			}
			gctCache[ck] = gcts
		}
		ops := evalOps(params, gcts)
		// deterministic op order (map iteration above only builds the table; sort by name)
		for i := 1; i < len(ops); i++ {
			for j := i; j > 0 && ops[j].name < ops[j-1].name; j-- {
				ops[j], ops[j-1] = ops[j-1], ops[j]
			}
		}
		i1 := c.Choose(len(ops), "first-op")
		i2 := c.Choose(len(ops), "second-op")
		in1 := hashInput(params.RingQ(), params.MaxLevelQ(), 1)
		in2 := hashInput(params.RingQ(), params.MaxLevelQ(), 2)
		used := rlwe.NewEvaluator(params, nil)
		what := "NewEvaluator"
		if recv == 1 {
			// warm up the original, then work on its shallow copy (shares read-only tables, must own its buffers)
			ops[i2].run(used, params, *in1.CopyNew())
			used = used.ShallowCopy()
			what = "ShallowCopy"
		}
		ops[i1].run(used, params, *in1.CopyNew())
		got := ops[i2].run(used, params, *in2.CopyNew())
		want := ops[i2].run(rlwe.NewEvaluator(params, nil), params, *in2.CopyNew())
		if len(got) != len(want) {
			fail(c, "C02/evaluator/sequence/output-shape", "%s: %s after %s: %d words vs %d on a fresh evaluator", what, ops[i2].name, ops[i1].name, len(got), len(want))
			return
		}
		for k := range got {
			if got[k] != want[k] {
				fail(c, "C02/evaluator/sequence/result-depends-on-the-previous-call", "%s Q=%v P=%v %s: %s after %s differs from the same call on a fresh evaluator (word %d: %d vs %d)", ch.name, Q, P, what, ops[i2].name, ops[i1].name, k, got[k], want[k])
				return
			}
		}
		c.Count(len(got))
		c.Cover("evaluator-sequence-receiver", what)
		c.Cover("evaluator-sequence", ops[i2].name[:7])
		c.Outcome(name, recv, i1, i2, engine.Hash(got))
	}}
}
