// C02 universe: moduli chains, integer boundary alphabets, packing of integers into RNS polynomials.
package main

import (
	"fmt"
	"math/big"
	"os"

	"github.com/tuneinsight/lattigo/v6/ring"

	"verif/engine"
	"verif/ref"
)

// The universe of a leaf: ring degree and ring type. Scenarios are built and run under setUniverse(n, ci) (see
// inUniverse in main.go); workers are single-threaded and leaves sequential, so package state is safe. N=16 is the
// smallest degree accepted by rlwe (two 8-lane blocks); N=32/64 exercise the unrolled loops over more blocks and the NTT
// stage loops; CI is the conjugate-invariant ring (X^2N+1 folded, primes ≡ 1 mod 4N, its own NTT).
var (
	N  = 16
	CI = false
)

func setUniverse(n int, ci bool) { N, CI, leafMaxPrime = n, ci, 0 }

// leafMaxPrime is the largest modulus of any ring built or fetched during the current leaf (reset by setUniverse).
var leafMaxPrime uint64

// sigCIOverflow is the single signature of one input class: conjugate-invariant ring with odd log2(N) and a modulus
// above 2^64/10. There SubRing.NTTLazy returns values up to 8q instead of the documented 6q-2 (known finding of C01,
// C01/ntt/ConjugateInvariant/NTTLazy/range-above-documented-6q-2(below-8q)); callers that add 2q to such a value
// (ModDownQPtoQNTT, the gadget product, ...) then wrap around 2^64. Every failure of a leaf in that class carries this
// signature (the class is isolated: the same operations are judged strictly on 60-bit-and-smaller chains in the same
// universe and on 61-bit chains in every other universe). See FINDINGS.md.
const sigCIOverflow = "C02/conjugate-invariant/odd-logN/modulus>2^64/10/NTTLazy-range-above-6q-wraps-around-in-callers"

// fail is c.Fail for the oracles proper. The signatures of the other isolated input classes (power-of-two digit count,
// ModDown without P, ...) are recorded with c.Fail directly and keep their own signature in every universe.
func fail(c *engine.Chooser, sig, format string, args ...interface{}) {
	if CI && logN()%2 == 1 && leafMaxPrime > (^uint64(0))/10 && os.Getenv("VERIF_C02_RAW_SIGS") == "" { // the variable shows the underlying call sites when triaging
		sig = sigCIOverflow
	}
	c.Fail(sig, format, args...)
}

func logN() int {
	l := 0
	for 1<<l < N {
		l++
	}
	return l
}

// nthRoot: primes of the universe are ≡ 1 mod 2N (standard ring) or 4N (conjugate-invariant ring).
func nthRoot() uint64 {
	if CI {
		return uint64(4 * N)
	}
	return uint64(2 * N)
}

// chain is one (Q,P) moduli configuration.
type chain struct {
	name string
	Q, P []uint64
}

func bi(x uint64) *big.Int     { return new(big.Int).SetUint64(x) }
func bint(x int64) *big.Int    { return big.NewInt(x) }
func prod(m []uint64) *big.Int { return ref.Prod(m) }

// nttPrimes: primes ≡ 1 mod 2N.
func below(bits int, k int) []uint64 { return ref.PrimesNear(uint64(1)<<bits, nthRoot(), k, true) }
func above(bits int, k int) []uint64 { return ref.PrimesNear(uint64(1)<<bits, nthRoot(), k, false) }
func tinyPrimes(k int) []uint64      { return ref.SmallestPrimes(nthRoot(), k) }

// chains returns the catalogue of maximal chains (5 Q primes, 3 P primes) per prime class. Sub-chains
// (#Q in 1..5, #P in 0..3) are obtained by levels or by slicing.
func chains() []chain {
	t := tinyPrimes(8) // 97 193 257 353 449 577 641 673
	m := below(30, 8)
	b60 := below(60, 4)
	b61 := below(61, 4)
	b55 := above(55, 2)
	b45 := below(45, 2)
	b36 := above(35, 3) // just above a power of two: round(log2 q) < bitlen(q)
	// size ratios just above 2x and 4x between the dropped / auxiliary prime and a remaining one (the reductions of
	// (q_l-1)/2 and of x mod q_l modulo a smaller q_i go through different branches there)
	r29, r31, r32, r33, r34 := below(29, 1), above(31, 1), above(32, 1), above(33, 1), above(34, 2)
	return []chain{
		{"ratios", []uint64{m[0], r31[0], r32[0], m[1], r33[0]}, []uint64{r34[0], r29[0], r34[1]}},
		{"tiny", t[:5], t[5:8]},
		{"mid30", m[:5], m[5:8]},
		// largest supported size: every 128-bit accumulation and the float correction at full width
		{"big61", []uint64{b61[0], b61[1], b60[0], b61[2], b60[1]}, []uint64{b61[3], b60[2], b60[3]}},
		// unequal sizes, small and large interleaved, last modulus larger / smaller than the others
		{"mixed", []uint64{b60[0], m[0], b45[0], m[1], b55[0]}, []uint64{b61[0], b36[0], b45[1]}},
		// tiny primes next to word-size primes (float correction with very different magnitudes)
		{"tinybig", []uint64{t[0], b61[0], t[1], m[0], b36[1]}, []uint64{t[2], b60[0], m[1]}},
	}
}

// ---------------------------------------------------------------------------------------------
// integer alphabets

type alphabet struct {
	vals []*big.Int
	seen map[string]bool
	S    *big.Int
}

func newAlphabet(S *big.Int) *alphabet { return &alphabet{seen: map[string]bool{}, S: S} }

// add inserts x mod S.
func (a *alphabet) add(x *big.Int) {
	v := new(big.Int).Mod(x, a.S)
	k := v.String()
	if !a.seen[k] {
		a.seen[k] = true
		a.vals = append(a.vals, v)
	}
}

func (a *alphabet) around(x *big.Int, w int64) {
	for d := -w; d <= w; d++ {
		a.add(new(big.Int).Add(x, bint(d)))
		a.add(new(big.Int).Sub(bint(d), x)) // the negative twin
	}
}

// base: 0,±1..3, ±S/2+δ, ±S/4+δ (DESIGN §5 integer alphabet).
func (a *alphabet) base() {
	a.around(new(big.Int), 3)
	a.around(new(big.Int).Rsh(a.S, 1), 3)
	a.around(new(big.Int).Rsh(a.S, 2), 3)
	a.around(new(big.Int).Quo(a.S, bint(3)), 1)
}

// divisor: k·D+δ and k·D+⌊D/2⌋+δ for |δ|<=3, k in {0,1,-1,⌊S/2D⌋,⌊S/D⌋-1, a generic k}.
func (a *alphabet) divisor(D *big.Int) {
	if D.Cmp(a.S) >= 0 {
		return
	}
	SD := new(big.Int).Quo(a.S, D)
	ks := []*big.Int{new(big.Int), bint(1), bint(2), new(big.Int).Rsh(SD, 1), new(big.Int).Sub(SD, bint(1)),
		new(big.Int).Quo(new(big.Int).Mul(SD, bint(5)), bint(13))}
	h := new(big.Int).Rsh(D, 1)
	for _, k := range ks {
		kd := new(big.Int).Mul(k, D)
		a.around(kd, 3)
		a.around(new(big.Int).Add(kd, h), 3)
	}
}

// corners: every combination of residues from {0,1,(q-1)/2,q-1} on up to 4 moduli (others: a ramp).
func (a *alphabet) corners(moduli []uint64) {
	k := len(moduli)
	if k > 4 {
		k = 4
	}
	res := make([]uint64, len(moduli))
	tot := 1
	for i := 0; i < k; i++ {
		tot *= 4
	}
	for c := 0; c < tot; c++ {
		t := c
		for i, q := range moduli {
			if i < k {
				res[i] = []uint64{0, 1, (q - 1) / 2, q - 1}[t%4]
				t /= 4
			} else {
				res[i] = (uint64(c)*0x9E3779B97F4A7C15 + uint64(i)) % q
			}
		}
		a.add(ref.CRT(res, moduli))
	}
}

// generic: a few deterministic "ordinary" values (background; never the only evidence).
func (a *alphabet) generic(n int) {
	x := new(big.Int).SetUint64(0x9E3779B97F4A7C15)
	mul := new(big.Int).SetUint64(0xC2B2AE3D27D4EB4F)
	for i := 0; i < n; i++ {
		x.Mul(x, mul)
		x.Add(x, bint(int64(12345+i)))
		x.Mod(x, new(big.Int).Lsh(a.S, 7))
		a.add(x)
	}
}

// ---------------------------------------------------------------------------------------------
// packing

// setCoeff writes x (any sign) into coefficient j of the RNS rows given by moduli.
func setCoeff(rows [][]uint64, moduli []uint64, j int, x *big.Int) {
	for i, q := range moduli {
		rows[i][j] = ref.ModU(x, q)
	}
}

// blocks packs the alphabet into polynomials of N coefficients: block b, rotation r holds value
// vals[b*N + ((j+r) mod N)] at coefficient j, so that over r=0..7 every value visits every lane class mod 8.
// The tail block is padded by wrapping around (values stay distinct per slot within a block when len>=N).
func blockValue(vals []*big.Int, b, r, j int) *big.Int {
	return vals[(b*N+((j+r)%N))%len(vals)]
}

func nBlocks(vals []*big.Int) int { return (len(vals) + N - 1) / N }

// mustRing builds a ring or panics (harness-side misuse: all catalogue primes are NTT friendly).
func mustRing(moduli []uint64) *ring.Ring {
	for _, q := range moduli {
		if q > leafMaxPrime {
			leafMaxPrime = q
		}
	}
	k := fmt.Sprint(N, CI, moduli)
	if r, ok := ringCache[k]; ok {
		return r
	}
	rt := ring.Standard
	if CI {
		rt = ring.ConjugateInvariant
	}
	r, err := ring.NewRingFromType(N, moduli, ring.Type(rt))
	if err != nil {
		panic("c02: NewRing: " + err.Error())
	}
	ringCache[k] = r
	return r
}

// rings are read-only once built (AtLevel returns shallow copies; all scratch lives in BasisExtender / Evaluator /
// polynomials, which are created per leaf), so they are shared between leaves of a worker.
var ringCache = map[string]*ring.Ring{}

// crtCentered reconstructs coefficient j from rows (residues may be lazy / unreduced) and centres it.
func crtCentered(rows [][]uint64, moduli []uint64, j int, M *big.Int) *big.Int {
	res := make([]uint64, len(moduli))
	for i := range moduli {
		res[i] = rows[i][j]
	}
	return ref.Center(ref.CRT(res, moduli), M)
}
