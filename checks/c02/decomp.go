// Gadget decomposition: ring.Decomposer.DecomposeAndSplit, rlwe.Evaluator.DecomposeNTT/DecomposeSingleNTT, the
// power-of-two masking (ring.MaskVec with rlwe.Parameters.BaseTwoDecompositionVectorSize) and the recombination of
// the digits against the gadget vector through rlwe.Evaluator.GadgetProductLazy on a NOISE-FREE gadget ciphertext.
//
// Statement: "The digits produced by the RNS / power-of-two decomposition of a polynomial recombine, against the
// gadget vector, to the original polynomial modulo Q and each digit is bounded by its digit modulus."
//
// RNS digit i (nbPi = levelP+1 primes per digit) has digit modulus D_i = prod q_j, j in [i·nbPi, min((i+1)·nbPi, levelQ+1)),
// and gadget element g_i = P · (Q/D_i) · ((Q/D_i)^-1 mod D_i), i.e. g_i ≡ P (mod q_j) for j in the group, 0 elsewhere
// (rlwe.AddPolyTimesGadgetVectorToGadgetCiphertext). A digit is returned in basis Q_levelQ ∪ P_levelP; it must be ONE
// integer d (CRT over all returned residues, centred) with |d| <= D_i, and Σ_i d_i·g_i ≡ P·x (mod Q_levelQ·P_levelP).
package main

import (
	"fmt"
	"math/big"
	"math/bits"

	"github.com/tuneinsight/lattigo/v6/core/rlwe"
	"github.com/tuneinsight/lattigo/v6/ring"
	"github.com/tuneinsight/lattigo/v6/ring/ringqp"

	"verif/engine"
	"verif/ref"
)

func ceilDiv(a, b int) int { return (a + b - 1) / b }

// sigNoPBase2Zero is the single signature of one input class observed at two sites (Decomposer called the way the
// evaluator calls it, and the evaluator's gadget product itself): RNS decomposition without P and without
// power-of-two decomposition at levelQ > 0. See FINDINGS.md.
const sigNoPBase2Zero = "C02/decompose/noP-base2=0-levelQ>0/DecomposeAndSplit(nbPi=levelP+1=0)-takes-every-digit-from-q0"

// digitSig builds the signature of a digit failure; the known input class keeps its single signature.
func digitSig(site, kind string) string {
	if site == siteNbPiZero {
		return sigNoPBase2Zero
	}
	return "C02/decompose/" + site + "/" + kind
}

const siteNbPiZero = "DecomposeAndSplit(levelP=-1,nbPi=levelP+1=0 as called by rlwe.Evaluator)"

// digitGroup returns the moduli indices [lo,hi) of RNS digit i.
func digitGroup(i, nbPi, levelQ int) (lo, hi int) {
	lo = i * nbPi
	hi = lo + nbPi
	if hi > levelQ+1 {
		hi = levelQ + 1
	}
	return
}

func decompAlphabet(Q []uint64, levelQ, nbPi int) []*big.Int {
	S := prod(Q[:levelQ+1])
	a := newAlphabet(S)
	a.base()
	for i := 0; i*nbPi <= levelQ; i++ {
		lo, hi := digitGroup(i, nbPi, levelQ)
		D := prod(Q[lo:hi])
		a.divisor(D)
		a.around(new(big.Int).Rsh(D, 2), 1)
	}
	a.corners(Q[:levelQ+1])
	a.generic(16)
	return a.vals
}

// digitOracle judges the digits of one coefficient. rows[i] = residues of digit i over moduli `all` (Q_levelQ then
// P_levelP). site names the call site for the signature.
func digitOracle(c *engine.Chooser, site string, ctx string, Q, P []uint64, levelQ, levelP, nbPi int, x *big.Int, digits [][]uint64) bool {
	all := append(append([]uint64{}, Q[:levelQ+1]...), P[:levelP+1]...)
	M := prod(all)
	QL := prod(Q[:levelQ+1])
	PL := prod(P[:levelP+1])
	sum := new(big.Int)
	for i, res := range digits {
		lo, hi := digitGroup(i, nbPi, levelQ)
		D := prod(Q[lo:hi])
		d := ref.Center(ref.CRT(res, all), M)
		// congruent to x modulo the digit modulus
		if new(big.Int).Mod(new(big.Int).Sub(d, x), D).Sign() != 0 {
			fail(c, digitSig(site, "digit-not-congruent"), "%s: x=%s digit %d (moduli %v): reconstructed digit %s is not ≡ x mod D=%s (residues %v over %v)", ctx, x, i, Q[lo:hi], d, D, res, all)
			return false
		}
		if new(big.Int).Abs(d).Cmp(D) > 0 {
			fail(c, digitSig(site, "digit-exceeds-modulus"), "%s: x=%s digit %d: |%s| > digit modulus %s (residues %v over %v: not one small integer)", ctx, x, i, d, D, res, all)
			return false
		}
		// gadget element g_i = P · (Q/D)·((Q/D)^-1 mod D)
		QD := new(big.Int).Quo(QL, D)
		g := new(big.Int).ModInverse(new(big.Int).Mod(QD, D), D)
		if D.Cmp(QL) == 0 {
			g = bint(1)
		}
		g.Mul(g, QD).Mul(g, PL)
		sum.Add(sum, g.Mul(g, d))
	}
	want := new(big.Int).Mul(PL, x)
	if new(big.Int).Mod(new(big.Int).Sub(sum, want), M).Sign() != 0 {
		fail(c, digitSig(site, "recombination"), "%s: x=%s: Σ d_i·g_i ≢ P·x (mod QP)", ctx, x)
		return false
	}
	return true
}

// ---------------------------------------------------------------------------------------------
// ring.Decomposer directly

// decomposerScenario: one chain shape (#Q,#P); leaves = (levelQ, levelP[, call convention]).
func decomposerScenario(ch chain, nQ, nP int) engine.Scenario {
	name := fmt.Sprintf("decompose/Decomposer/%s/nQ=%d/nP=%d", ch.name, nQ, nP)
	Q, P := ch.Q[:nQ], ch.P[:nP]
	return engine.Scenario{Name: name, Bound: -1, Fn: func(c *engine.Chooser) {
		levelQ := c.Choose(nQ, "levelQ")
		levelP, nbPi := -1, 1
		site := "DecomposeAndSplit"
		if nP > 0 {
			levelP = c.Choose(nP, "levelP")
			nbPi = levelP + 1
		}
		// (Until the "fix: ... nbPi" commit in /repo, rlwe.Evaluator.gadgetProductSinglePAndBitDecompLazy called the
		// decomposer with nbPi = levelP+1 = 0 for gadget ciphertexts without P and without power-of-two decomposition;
		// that call convention no longer exists in the library. The end-to-end gadget-product scenarios below keep the
		// regression covered under the same signature.)
		_ = siteNbPiZero
		rQ := mustRing(Q)
		var rP *ring.Ring
		if nP > 0 {
			rP = mustRing(P)
		}
		dec := ring.NewDecomposer(rQ, rP)
		groupN := nbPi
		if groupN == 0 {
			groupN = 1 // the mathematically intended digit size without P
		}
		nDigits := ceilDiv(levelQ+1, groupN)
		vals := decompAlphabet(Q, levelQ, groupN)
		in := rQ.AtLevel(levelQ).NewPoly()
		outQ := make([]ring.Poly, nDigits)
		outP := make([]ring.Poly, nDigits)
		evals := 0
		var h uint64
		ctx := fmt.Sprintf("%s Q=%v P=%v levelQ=%d levelP=%d nbPi=%d", ch.name, Q, P, levelQ, levelP, nbPi)
		for b := 0; b < nBlocks(vals); b++ {
			for rot := 0; rot < 8; rot++ {
				for j := 0; j < N; j++ {
					setCoeff(in.Coeffs, Q[:levelQ+1], j, blockValue(vals, b, rot, j))
				}
				for i := 0; i < nDigits; i++ {
					outQ[i] = rQ.AtLevel(levelQ).NewPoly()
					if rP != nil {
						outP[i] = rP.AtLevel(levelP).NewPoly()
					}
					dec.DecomposeAndSplit(levelQ, levelP, nbPi, i, in, outQ[i], outP[i])
				}
				for j := 0; j < N; j++ {
					digits := make([][]uint64, nDigits)
					for i := range digits {
						glo, ghi := digitGroup(i, groupN, levelQ)
						for k := 0; k <= levelQ; k++ {
							if ghi-glo >= 2 && glo <= k && k < ghi {
								// reconstruction branch: DecomposeAndSplit does not produce the rows of the digit's own
								// moduli (its caller DecomposeSingleNTT overwrites them with the input rows); do the same
								digits[i] = append(digits[i], in.Coeffs[k][j])
								continue
							}
							digits[i] = append(digits[i], outQ[i].Coeffs[k][j])
						}
						for k := 0; k <= levelP; k++ {
							digits[i] = append(digits[i], outP[i].Coeffs[k][j])
						}
					}
					if !digitOracle(c, site, ctx, Q, P, levelQ, levelP, groupN, blockValue(vals, b, rot, j), digits) {
						return
					}
				}
				evals += N * nDigits
				h = h*1099511628211 + outQ[nDigits-1].Coeffs[0][rot]
			}
		}
		c.Count(evals)
		c.Cover("decomposer-class", ch.name)
		c.Cover("decomposer-nP", fmt.Sprint(nP))
		branch := "reconstruct"
		if nbPi <= 1 || (levelQ%nbPi == 0 && ceilDiv(levelQ+1, nbPi) == levelQ/nbPi+1) {
			branch = "has-copy-only-digit"
		}
		c.Cover("decomposer-branch", branch)
		if (levelQ+1)%groupN != 0 {
			c.Cover("decomposer-tail", "partial-last-digit")
		}
		c.Outcome(name, levelQ, levelP, nbPi, h)
	}}
}

// decomposerTinyScenario: every integer of the tiny 3-prime chain, P = 2 tiny primes (digits {q0·q1},{q2}).
func decomposerTinyScenario(Q, P []uint64, shard, shards int) engine.Scenario {
	name := fmt.Sprintf("decompose/Decomposer/tiny-exhaustive/Q=%v/P=%v/shard=%d", Q, P, shard)
	const parts = 2
	return engine.Scenario{Name: name, Bound: -1, Fn: func(c *engine.Chooser) {
		part := c.Choose(parts, "part")*shards + shard
		levelQ, levelP := len(Q)-1, len(P)-1
		nbPi := levelP + 1
		rQ, rP := mustRing(Q), mustRing(P)
		dec := ring.NewDecomposer(rQ, rP)
		nDigits := ceilDiv(levelQ+1, nbPi)
		S := prod(Q).Int64()
		all := append(append([]uint64{}, Q...), P...)
		if prod(all).BitLen() > 50 {
			panic("tiny chain too large for the int64 reference") // basis·residue and the sum must stay below 2^63
		}
		M := prod(all).Int64()
		nPolys := (S + int64(N) - 1) / int64(N)
		lo := nPolys * int64(part) / int64(parts*shards)
		hi := nPolys * int64(part+1) / int64(parts*shards)
		in := rQ.NewPoly()
		outQ, outP := make([]ring.Poly, nDigits), make([]ring.Poly, nDigits)
		for i := range outQ {
			outQ[i], outP[i] = rQ.NewPoly(), rP.NewPoly()
		}
		// CRT basis elements over `all`, reduced modulo M (int64)
		basis := make([]int64, len(all))
		for k, m := range all {
			Mk := new(big.Int).Quo(prod(all), bi(m))
			inv := new(big.Int).ModInverse(new(big.Int).Mod(Mk, bi(m)), bi(m))
			basis[k] = Mk.Mul(Mk, inv).Mod(Mk, prod(all)).Int64()
		}
		var h uint64
		for p := lo; p < hi; p++ {
			for j := 0; j < N; j++ {
				x := uint64((p*int64(N) + int64(j)) % S)
				for i, q := range Q {
					in.Coeffs[i][j] = x % q
				}
			}
			for i := 0; i < nDigits; i++ {
				dec.DecomposeAndSplit(levelQ, levelP, nbPi, i, in, outQ[i], outP[i])
			}
			for j := 0; j < N; j++ {
				x := (p*int64(N) + int64(j)) % S
				for i := 0; i < nDigits; i++ {
					glo, ghi := digitGroup(i, nbPi, levelQ)
					D := int64(1)
					for _, q := range Q[glo:ghi] {
						D *= int64(q)
					}
					// reconstruct the digit over all moduli
					acc := int64(0)
					for k, m := range all {
						var r uint64
						if k <= levelQ && ghi-glo >= 2 && glo <= k && k < ghi {
							r = in.Coeffs[k][j] // rows of the digit's own moduli are the caller's (see decomposerScenario)
						} else if k <= levelQ {
							r = outQ[i].Coeffs[k][j] % m
						} else {
							r = outP[i].Coeffs[k-levelQ-1][j] % m
						}
						acc = (acc + basis[k]*int64(r)) % M
					}
					d := acc
					if d > M/2 {
						d -= M
					}
					if ((d-x)%D+D)%D != 0 {
						fail(c, "C02/decompose/DecomposeAndSplit/digit-not-congruent", "Q=%v P=%v x=%d digit %d: d=%d not ≡ x mod %d", Q, P, x, i, d, D)
						return
					}
					if d > D || d < -D {
						fail(c, "C02/decompose/DecomposeAndSplit/digit-exceeds-modulus", "Q=%v P=%v x=%d digit %d: |d|=|%d| > %d", Q, P, x, i, d, D)
						return
					}
				}
			}
			h = h*1099511628211 + outQ[0].Coeffs[0][int(p)%N]
		}
		c.Count(int(hi-lo) * N * nDigits)
		c.Cover("decomposer-tiny", "exhaustive")
		c.Outcome(name, part, h)
	}}
}

// ---------------------------------------------------------------------------------------------
// rlwe.Evaluator.DecomposeNTT / DecomposeSingleNTT

// rlweParams builds (and caches per worker: parameters are immutable) the rlwe parameters for a chain.
func rlweParams(Q, P []uint64) (rlwe.Parameters, error) {
	for _, q := range append(append([]uint64{}, Q...), P...) {
		if q > leafMaxPrime {
			leafMaxPrime = q
		}
	}
	k := fmt.Sprint(N, CI, Q, P)
	if p, ok := paramsCache[k]; ok {
		return p, nil
	}
	lit := rlwe.ParametersLiteral{LogN: logN(), Q: Q, NTTFlag: true}
	if CI {
		lit.RingType = ring.ConjugateInvariant
	}
	if len(P) > 0 {
		lit.P = P
	}
	p, err := rlwe.NewParametersFromLiteral(lit)
	if err == nil {
		paramsCache[k] = p
	}
	return p, err
}

var paramsCache = map[string]rlwe.Parameters{}

func evaluatorDecomposeScenario(ch chain, nQ, nP int) engine.Scenario {
	name := fmt.Sprintf("decompose/Evaluator.DecomposeNTT/%s/nQ=%d/nP=%d", ch.name, nQ, nP)
	Q, P := ch.Q[:nQ], ch.P[:nP]
	return engine.Scenario{Name: name, Bound: -1, Fn: func(c *engine.Chooser) {
		levelQ := c.Choose(nQ, "levelQ")
		levelP := c.Choose(nP, "levelP")
		isNTT := c.Choose(2, "c2IsNTT") == 0
		single := c.Choose(2, "entry") == 1 // DecomposeNTT or one DecomposeSingleNTT per digit
		params, err := rlweParams(Q, P)
		if err != nil {
			fail(c, "C02/decompose/rlwe-parameters-rejected", "rlwe parameters Q=%v P=%v rejected: %v", Q, P, err)
			return
		}
		eval := rlwe.NewEvaluator(params, nil)
		nbPi := levelP + 1
		nDigits := params.BaseRNSDecompositionVectorSize(levelQ, levelP)
		if nDigits != ceilDiv(levelQ+1, nbPi) {
			fail(c, "C02/decompose/BaseRNSDecompositionVectorSize", "BaseRNSDecompositionVectorSize(%d,%d)=%d, want ceil((levelQ+1)/(levelP+1))=%d", levelQ, levelP, nDigits, ceilDiv(levelQ+1, nbPi))
			return
		}
		rQ := params.RingQ().AtLevel(levelQ)
		rP := params.RingP().AtLevel(levelP)
		rQP := params.RingQP().AtLevel(levelQ, levelP)
		vals := decompAlphabet(Q, levelQ, nbPi)
		site := "Evaluator.DecomposeNTT"
		if single {
			site = "Evaluator.DecomposeSingleNTT"
		}
		ctx := fmt.Sprintf("%s Q=%v P=%v levelQ=%d levelP=%d c2IsNTT=%v", ch.name, Q, P, levelQ, levelP, isNTT)
		evals := 0
		var h uint64
		for b := 0; b < nBlocks(vals); b++ {
			for rot := 0; rot < 8; rot += 3 { // rotations 0,3,6: lane classes are covered by the Decomposer scenario
				coeff := rQ.NewPoly()
				for j := 0; j < N; j++ {
					setCoeff(coeff.Coeffs, Q[:levelQ+1], j, blockValue(vals, b, rot, j))
				}
				nttP := rQ.NewPoly()
				rQ.NTT(coeff, nttP)
				decomp := make([]ringqp.Poly, nDigits)
				for i := range decomp {
					decomp[i] = rQP.NewPoly()
				}
				if single {
					for i := 0; i < nDigits; i++ {
						eval.DecomposeSingleNTT(levelQ, levelP, nbPi, i, nttP, coeff, decomp[i].Q, decomp[i].P)
					}
				} else if isNTT {
					eval.DecomposeNTT(levelQ, levelP, nbPi, nttP, true, decomp)
				} else {
					eval.DecomposeNTT(levelQ, levelP, nbPi, coeff, false, decomp)
				}
				for i := range decomp {
					rQ.INTT(decomp[i].Q, decomp[i].Q)
					rP.INTT(decomp[i].P, decomp[i].P)
				}
				for j := 0; j < N; j++ {
					digits := make([][]uint64, nDigits)
					for i := range digits {
						for k := 0; k <= levelQ; k++ {
							digits[i] = append(digits[i], decomp[i].Q.Coeffs[k][j])
						}
						for k := 0; k <= levelP; k++ {
							digits[i] = append(digits[i], decomp[i].P.Coeffs[k][j])
						}
					}
					if !digitOracle(c, site, ctx, Q, P, levelQ, levelP, nbPi, blockValue(vals, b, rot, j), digits) {
						return
					}
				}
				evals += N * nDigits
				h = h*1099511628211 + decomp[nDigits-1].Q.Coeffs[0][rot]
			}
		}
		c.Count(evals)
		c.Cover("evaluator-decompose", site)
		c.Cover("evaluator-decompose-class", ch.name)
		c.Outcome(name, levelQ, levelP, isNTT, single, h)
	}}
}

// ---------------------------------------------------------------------------------------------
// recombination through the real gadget product on a noise-free gadget ciphertext

var base2Choices = []int{0, 1, 2, 7, 16, 30}

// constNTTMont returns the constant polynomial c in the NTT and Montgomery domains.
func constNTTMont(rQ *ring.Ring, cst uint64) ring.Poly {
	p := rQ.NewPoly()
	for i := range p.Coeffs {
		p.Coeffs[i][0] = cst
	}
	rQ.NTT(p, p)
	rQ.MForm(p, p)
	return p
}

// digitsCover reports whether ceil(round(log2 q)/pw2)·pw2 bits (the library's digit count) can hold q-1.
func digitsCover(nDigits, pw2 int, q uint64) bool { return nDigits*pw2 >= bits.Len64(q-1) }

func gadgetRecombineScenario(ch chain, nQ, nP int) engine.Scenario {
	name := fmt.Sprintf("gadget/GadgetProductLazy-noise-free/%s/nQ=%d/nP=%d", ch.name, nQ, nP)
	Q, P := ch.Q[:nQ], ch.P[:nP]
	return engine.Scenario{Name: name, Bound: -1, Fn: func(c *engine.Chooser) {
		levelQ := c.Choose(nQ, "levelQ")
		// gadget ciphertexts without P (levelP=-1) only for parameters without P: with P present the evaluator
		// panics in Parameters.PiOverflowMargin(-1) (slices.Max of an empty list); whether LevelP=-1 is admissible
		// there is not documented, so it is not generated (noted in FINDINGS.md as an observation)
		levelP := -1
		if nP > 0 {
			levelP = c.Choose(nP, "levelP")
		}
		base2 := 0
		if levelP <= 0 {
			base2 = base2Choices[c.Choose(len(base2Choices), "base2")]
		}
		isNTT := c.Choose(2, "IsNTT") == 0
		params, err := rlweParams(Q, P)
		if err != nil {
			fail(c, "C02/decompose/rlwe-parameters-rejected", "rlwe parameters Q=%v P=%v rejected: %v", Q, P, err)
			return
		}
		class := "rns"
		switch {
		case levelP == -1 && base2 == 0:
			class = "noP-base2=0"
		case base2 != 0:
			class = "base2"
		}
		eval := rlwe.NewEvaluator(params, nil)
		rQfull := params.RingQ()
		rQ := rQfull.AtLevel(levelQ)
		// gadget ciphertext at the maximum level of Q, "encrypting" c1 in component 0 and c2 in component 1 with
		// zero mask and zero noise: Value[i][j] = (c1·g_ij, c2·g_ij)
		const c1, c2 = 1, 3
		gct := rlwe.NewGadgetCiphertext(params, 1, nQ-1, levelP, base2)
		dummy := rlwe.NewGadgetCiphertext(params, 1, nQ-1, levelP, base2)
		buff := rQfull.NewPoly()
		if err := rlwe.AddPolyTimesGadgetVectorToGadgetCiphertext(constNTTMont(rQfull, c1), []rlwe.GadgetCiphertext{*gct}, *params.RingQP(), buff); err != nil {
			panic(err)
		}
		if err := rlwe.AddPolyTimesGadgetVectorToGadgetCiphertext(constNTTMont(rQfull, c2), []rlwe.GadgetCiphertext{*dummy, *gct}, *params.RingQP(), buff); err != nil {
			panic(err)
		}
		nDig := gct.BaseTwoDecompositionVectorSize()
		PL := bint(1)
		if levelP >= 0 {
			PL = prod(P[:levelP+1])
		}
		rQP := params.RingQP().AtLevel(levelQ, levelP)
		a := newAlphabet(prod(Q[:levelQ+1]))
		a.base()
		for _, q := range Q[:levelQ+1] {
			a.divisor(bi(q))
		}
		for _, k := range []uint{6, 7, 8, 9, 29, 30, 35, 36, 45, 55, 59, 60} { // power-of-two digit boundaries
			a.around(new(big.Int).Lsh(bint(1), k), 1)
		}
		a.corners(Q[:levelQ+1])
		a.generic(16)
		vals := a.vals
		evals := 0
		var h uint64
		uncovered := 0
		for b := 0; b < nBlocks(vals); b++ {
			for rot := 0; rot < 8; rot += 3 {
				cx := rQ.NewPoly()
				for j := 0; j < N; j++ {
					setCoeff(cx.Coeffs, Q[:levelQ+1], j, blockValue(vals, b, rot, j))
				}
				if isNTT {
					rQ.NTT(cx, cx)
				}
				ctQP := &rlwe.Element[ringqp.Poly]{MetaData: &rlwe.MetaData{}, Value: []ringqp.Poly{rQP.NewPoly(), rQP.NewPoly()}}
				ctQP.IsNTT = isNTT
				if err := eval.GadgetProductLazy(levelQ, cx, gct, ctQP); err != nil {
					fail(c, "C02/gadget/GadgetProductLazy/error", "levelQ=%d levelP=%d base2=%d: %v", levelQ, levelP, base2, err)
					return
				}
				if isNTT {
					rQP.INTT(ctQP.Value[0], ctQP.Value[0])
					rQP.INTT(ctQP.Value[1], ctQP.Value[1])
				}
				for j := 0; j < N; j++ {
					x := blockValue(vals, b, rot, j)
					// input class: a residue with bits above the library's digit range (only when base2 != 0)
					inUncovered := false
					if base2 != 0 {
						for i, q := range Q[:levelQ+1] {
							if !digitsCover(nDig[i], base2, q) && bits.Len64(ref.ModU(x, q)) > nDig[i]*base2 {
								inUncovered = true
							}
						}
					}
					for u, cst := range []int64{c1, c2} {
						want := new(big.Int).Mul(PL, x)
						want.Mul(want, bint(cst))
						bad := -1
						for i, q := range Q[:levelQ+1] {
							if ctQP.Value[u].Q.Coeffs[i][j]%q != ref.ModU(want, q) {
								bad = i
							}
						}
						badP := -1
						for i := 0; i <= levelP; i++ {
							if ctQP.Value[u].P.Coeffs[i][j]%P[i] != 0 {
								badP = i
							}
						}
						if bad < 0 && badP < 0 {
							continue
						}
						msg := fmt.Sprintf("%s Q=%v P=%v levelQ=%d gct.levelP=%d base2=%d IsNTT=%v: x=%s lane %d component %d: Σ digits·gadget ≢ %d·P·x (first bad: q index %d, p index %d)", ch.name, Q, P, levelQ, levelP, base2, isNTT, x, j, u, cst, bad, badP)
						switch {
						case class == "noP-base2=0" && levelQ > 0:
							// known input class: see FINDINGS.md (every leaf of this class fails; nothing else is checked in it)
							c.Fail(sigNoPBase2Zero, "%s", msg)
							return
						case inUncovered:
							// known input class; keep judging the other coefficients of this leaf
							c.Fail("C02/pow2/BaseTwoDecompositionVectorSize/digits-do-not-cover-modulus", "%s", msg)
							uncovered++
						default:
							fail(c, "C02/gadget/GadgetProductLazy/"+class+"/recombination", "%s", msg)
							return
						}
					}
				}
				evals += 2 * N
				h = h*1099511628211 + ctQP.Value[1].Q.Coeffs[0][rot]
			}
		}
		c.Count(evals)
		c.Cover("gadget-class", class)
		c.Cover("gadget-chain", ch.name)
		if levelP > 0 {
			c.Cover("gadget-path", "multipleP")
		} else {
			c.Cover("gadget-path", "singleP-or-pow2")
		}
		c.Outcome(name, levelQ, levelP, base2, isNTT, h)
	}}
}

// ---------------------------------------------------------------------------------------------
// power-of-two digits: ring.MaskVec + rlwe.Parameters.BaseTwoDecompositionVectorSize

func pow2Scenario(ch chain) engine.Scenario {
	name := fmt.Sprintf("pow2/MaskVec/%s", ch.name)
	return engine.Scenario{Name: name, Bound: -1, Fn: func(c *engine.Chooser) {
		pw2 := base2Choices[1+c.Choose(len(base2Choices)-1, "base2")]
		qi := c.Choose(len(ch.Q), "prime")
		q := ch.Q[qi]
		params, err := rlweParams(ch.Q, ch.P[:1])
		if err != nil {
			fail(c, "C02/decompose/rlwe-parameters-rejected", "rlwe parameters rejected: %v", err)
			return
		}
		nDig := params.BaseTwoDecompositionVectorSize(len(ch.Q)-1, 0, pw2)[qi]
		// residues: all of them for tiny primes, boundary alphabet otherwise
		var xs []uint64
		if q < 1<<12 {
			for x := uint64(0); x < q; x++ {
				xs = append(xs, x)
			}
		} else {
			xs = []uint64{0, 1, 2, q - 1, q - 2, q / 2, q/2 + 1}
			for k := uint(1); k < 62; k++ {
				for _, d := range []uint64{^uint64(0), 0, 1} { // 2^k-1, 2^k, 2^k+1
					if v := (uint64(1) << k) + d; v < q {
						xs = append(xs, v)
					}
				}
			}
		}
		for len(xs)%N != 0 {
			xs = append(xs, xs[len(xs)%7])
		}
		mask := uint64(1)<<pw2 - 1
		in := make([]uint64, N)
		out := make([]uint64, N)
		allDigits := ceilDiv(64, pw2)
		for b := 0; b < len(xs); b += N {
			copy(in, xs[b:b+N])
			acc := make([]uint64, N)
			for j := 0; j < allDigits; j++ {
				ring.MaskVec(in, j*pw2, mask, out)
				for l := 0; l < N; l++ {
					if out[l] > mask {
						fail(c, "C02/pow2/MaskVec/digit-exceeds-base", "MaskVec(x=%d, w=%d, mask=%#x) = %d > mask", in[l], j*pw2, mask, out[l])
						return
					}
					acc[l] += out[l] << uint(j*pw2)
				}
				if j == nDig-1 {
					// the digits the gadget product actually uses (j < BaseTwoDecompositionVectorSize) must already give x
					for l := 0; l < N; l++ {
						if acc[l] != in[l] {
							c.Fail("C02/pow2/BaseTwoDecompositionVectorSize/digits-do-not-cover-modulus", "q=%d (bit length %d) base2=%d: BaseTwoDecompositionVectorSize=%d digits recombine x=%d to %d", q, bits.Len64(q-1), pw2, nDig, in[l], acc[l])
							// the remaining digits are still checked below
							break
						}
					}
				}
			}
			for l := 0; l < N; l++ {
				if acc[l] != in[l] {
					fail(c, "C02/pow2/MaskVec/recombination", "Σ_j MaskVec(x,j·%d)·2^(j·%d) = %d for x=%d", pw2, pw2, acc[l], in[l])
					return
				}
			}
		}
		c.Count(len(xs) * allDigits)
		c.Cover("pow2-base", fmt.Sprint(pw2))
		if digitsCover(nDig, pw2, q) {
			c.Cover("pow2-cover", "covers")
		} else {
			c.Cover("pow2-cover", "short")
		}
		c.Outcome(name, pw2, q, nDig)
	}}
}
