package main

import (
	"fmt"
	"math/big"

	"github.com/tuneinsight/lattigo/v6/core/rlwe"
	"github.com/tuneinsight/lattigo/v6/schemes/bgv"

	"verif/engine"
	"verif/lib/bgvu"
	"verif/ref"
	"verif/uni"
)

// conf is one configuration of the register machine: a parameter set and an evaluator mode.
type conf struct {
	bgvu.Conf
	si    bool // scale-invariant (BFV-style) evaluator
	base2 int  // > 0: relinearization key with a base-2^base2 decomposition
	light bool // secondary configuration: short programs only (see scenarios)
}

func (cf conf) name() string {
	m := "bgv"
	if cf.si {
		m = "bfv"
	}
	return m + "/" + cf.Name
}

func tClass(cf bgvu.Conf) string {
	switch {
	case cf.T == 17 && cf.LogN == 5:
		return "17-gap4"
	case cf.T == 17 && cf.LogN == 6:
		return "17-gap8"
	case cf.T == 17:
		return "17-gap2"
	case cf.T == 97:
		return "97"
	case cf.T == 65537:
		return "65537"
	case cf.T < 1<<31:
		return "30bit"
	case cf.T < 1<<46:
		return "45bit-above-chain-primes"
	default:
		return "60bit"
	}
}

func configs(tier string) []conf {
	t30 := bgvu.PlainModulus(4, 30)
	t60 := bgvu.PlainModulusAt(4, 60, 7, 10) // 60 bits, below Q[0]/2 for the 61-bit chain at 0.9*2^61
	base := []bgvu.Conf{
		{Name: "t97-q30x4-p30x1", LogN: 4, QBits: 30, NQ: 4, PBits: 30, NP: 1, T: 97},
		{Name: "t17-q30x4-nop", LogN: 4, QBits: 30, NQ: 4, NP: 0, T: 17},
		{Name: "t65537-q55x4-p55x2", LogN: 4, QBits: 55, NQ: 4, PBits: 55, NP: 2, T: 65537},
		{Name: "t30b-q55x5-p55x2", LogN: 4, QBits: 55, NQ: 5, PBits: 55, NP: 2, T: t30},
		{Name: "t60b-q61x4-p61x1", LogN: 4, NQ: 4, NP: 1, T: t60, Q: bgvu.Q61(4, 4, 0), P: bgvu.Q61(4, 1, 4)},
	}
	if tier == "thorough" {
		base = append(base,
			bgvu.Conf{Name: "t97-q55x5-p55x3", LogN: 4, QBits: 55, NQ: 5, PBits: 55, NP: 3, T: 97},
			bgvu.Conf{Name: "t17-q55x4-p55x1", LogN: 4, QBits: 55, NQ: 4, PBits: 55, NP: 1, T: 17},
			bgvu.Conf{Name: "t193-logn5-q30x4-p30x2", LogN: 5, QBits: 30, NQ: 4, PBits: 30, NP: 2, T: 193},
		)
	}
	var r []conf
	// plaintext modulus LARGER than some primes of the chain (legal: only t <= Q[0]/2 is required): 45-bit t over
	// Q = 56 + 4 x 30 bits. Residues of centred scalars / plaintext coefficients then exceed the small primes, which
	// takes every "reduce a (negative) integer modulo each q_i" path through its multi-wrap case. BGV mode as a main
	// parameter set, BFV mode as a secondary one in quick (main in thorough).
	t45 := bgvu.Conf{Name: "t45b-q56+30x4-p56x1", LogN: 4, NQ: 5, NP: 1, T: bgvu.PlainModulus(4, 45),
		Q: append(uni.Primes(4, 56, 1), uni.Primes(4, 30, 4)...), P: uni.PrimesSkip(4, 56, 1, 1)}
	r = append(r, conf{Conf: t45}, conf{Conf: t45, si: true, light: tier != "thorough"})
	for _, b := range base {
		// quick: the two mid-size plaintext moduli with full plaintext ring share the work (65537 in BGV mode, the
		// 30-bit one in BFV mode); thorough runs every parameter set in both modes
		if tier != "thorough" && b.T == 65537 {
			r = append(r, conf{Conf: b})
			continue
		}
		if tier != "thorough" && b.T == t30 {
			r = append(r, conf{Conf: b, si: true})
			continue
		}
		r = append(r, conf{Conf: b}, conf{Conf: b, si: true})
	}
	// secondary ("light") configurations: plaintext rings smaller than the ciphertext ring by 4 and 8 (the encoder's
	// gap embedding, the decoder's strided CRT), gap 2 on a larger ring, and a P-less chain with a base-2^16 key.
	// Quick runs them on all one-instruction programs, mini x mini and the spine; thorough on core x wide as well.
	light := []conf{
		{Conf: bgvu.Conf{Name: "t17-logn5-gap4-q30x4-p30x1", LogN: 5, QBits: 30, NQ: 4, PBits: 30, NP: 1, T: 17}},
		{Conf: bgvu.Conf{Name: "t17-logn5-gap4-q30x4-p30x1", LogN: 5, QBits: 30, NQ: 4, PBits: 30, NP: 1, T: 17}, si: true},
		{Conf: bgvu.Conf{Name: "t17-logn6-gap8-q55x3-p55x2", LogN: 6, QBits: 55, NQ: 3, PBits: 55, NP: 2, T: 17}},
		{Conf: bgvu.Conf{Name: "t17-logn6-gap8-q55x3-p55x2", LogN: 6, QBits: 55, NQ: 3, PBits: 55, NP: 2, T: 17}, si: true},
		{Conf: bgvu.Conf{Name: "t97-logn5-gap2-q30x3-nop", LogN: 5, QBits: 30, NQ: 3, NP: 0, T: 97}, si: true},
		{Conf: bgvu.Conf{Name: "t17-q30x4-nop-base2", LogN: 4, QBits: 30, NQ: 4, NP: 0, T: 17}, base2: 16},
	}
	for _, l := range light {
		l.light = true
		r = append(r, l)
	}
	return r
}

// qmulConfigs: the family of scale-invariant (BFV) configurations around the steps of the evaluator's
// "how many auxiliary 61-bit primes does the integer tensor product need at this level" table
// (newEvaluatorPrecomp: levelQMul[l] = ceil((bitlen(Q_l) + LogN)/61) - 1).
//
// The table is a step function of bitlen(Q_l); the register-machine configurations above sit at 120-276 bits
// with 30/55-bit primes and never come near a step with a stressed basis. A table that provisions too few primes
// only shows when the tensor really exceeds Q_l*QMul/2, i.e. for the largest Q_l of a plateau, for a ring large
// enough that the sum of 2N products reaches the worst case the formula budgets for, and for primes that do not
// hug a power of two (otherwise QMul mod Q is tiny and the wrap-around hides in the noise budget). Hence:
//
//   - LogN = 10, every bit length 50..61 of a single-prime chain (primes at 0.75*2^b and at 0.94*2^b) and every
//     total bit length 110..122 of a two-prime chain (both primes at 0.75*2^b): all step positions of any
//     "bitlen + c" rule with 0 <= c <= 11, for one and for two auxiliary primes (k = 1, 2);
//   - LogN = 4, bitlen(Q_l) + LogN in {61k-1, .., 61k+2} for k = 1, 2 (the literal boundary of the formula);
//   - plaintext rings smaller than the ciphertext ring (t = 17: 8 slots; t = 97: 16 slots) and equal to it
//     (t = 12289 at LogN = 10, t = 97 at LogN = 4): LogMaxSlots != LogN is exactly where "N" and "slots" differ.
//
// Every ct x ct product instruction is run at every level of every chain (qmulScenario).
func qmulConfigs() []conf {
	var r []conf
	add := func(logN int, t uint64, tag string, q []uint64) {
		p := bgvu.PrimeBelow(logN, 61, 7, 10, 0) // 0.7 * 2^61: away from Q primes and from the QMul primes next to 2^61
		name := fmt.Sprintf("qmul-logn%d-t%d-%s", logN, t, tag)
		r = append(r, conf{Conf: bgvu.Conf{Name: name, LogN: logN, T: t, Q: q, P: []uint64{p}, NQ: len(q), NP: 1}, si: true})
	}
	two := func(logN, total int) []uint64 {
		b0 := (total + 1) / 2
		b1 := total - b0
		q0 := bgvu.PrimeBelow(logN, b0, 3, 4, 0)
		q1 := bgvu.PrimeBelow(logN, b1, 3, 4, 1) // skip 1: distinct from q0 when b0 == b1
		return []uint64{q0, q1}
	}
	for _, t := range []uint64{17, 97, 12289} {
		for b := 50; b <= 61; b++ {
			add(10, t, fmt.Sprintf("q%d@0.75", b), []uint64{bgvu.PrimeBelow(10, b, 3, 4, 0)})
			if b <= 60 {
				add(10, t, fmt.Sprintf("q%d@0.94", b), []uint64{bgvu.PrimeBelow(10, b, 15, 16, 0)})
			}
		}
		for total := 110; total <= 122; total++ {
			add(10, t, fmt.Sprintf("q%d=2primes", total), two(10, total))
		}
	}
	for _, t := range []uint64{17, 97} {
		for b := 56; b <= 59; b++ {
			add(4, t, fmt.Sprintf("q%d@0.75", b), []uint64{bgvu.PrimeBelow(4, b, 3, 4, 0)})
		}
		for total := 117; total <= 120; total++ {
			add(4, t, fmt.Sprintf("q%d=2primes", total), two(4, total))
		}
	}
	return r
}

// world is everything built once per scenario (parameters, keys, pristine registers). It is built lazily on
// the first leaf of the scenario, after seeding the PRNG seam with the scenario name only, so that a replay of
// a single leaf in a fresh process rebuilds exactly the same ciphertexts.
type world struct {
	cf     conf
	params bgv.Parameters
	t      uint64
	n      int // slots
	N      int // ring degree
	L      int // max level
	sk     *rlwe.SecretKey
	ecd    *bgv.Encoder
	enc    *rlwe.Encryptor
	dec    *rlwe.Decryptor
	evk    rlwe.EvaluationKeySet
	ev     *bgv.Evaluator // evaluator under test (mode of the configuration), with relinearization key
	evStd  *bgv.Evaluator // BGV-mode evaluator used only to prepare the degree-2 register
	qs     []uint64
	Q      []*big.Int // Q[l] = q_0...q_l
	relinE []*big.Int // relinE[l]: bound on the key-switching error added to the phase at level l
	vecs   [][]uint64 // distinct slot vectors: 0..4 registers (3a,3b for the degree-2 one), 5.. operands
	init   [nRegs]reg
	initOK string // non-empty: initial state could not be validated (reported by every leaf)
}

const nRegs = 4

// reg is one register: the real ciphertext and its model.
type reg struct {
	ct    *rlwe.Ciphertext
	vals  []uint64 // model slot vector over Z_t
	level int
	deg   int
	scale uint64   // model scale (mod t)
	bound *big.Int // upper bound on the infinity norm of w = [t * phase]_Q (see noise.go)
}

func (r reg) clone() reg {
	c := r
	c.ct = r.ct.CopyNew()
	c.vals = append([]uint64(nil), r.vals...)
	c.bound = new(big.Int).Set(r.bound)
	return c
}

var worlds = map[string]*world{}

func getWorld(c *engine.Chooser, cf conf, scen string) *world {
	if w, ok := worlds[scen]; ok {
		return w
	}
	uni.Seed(c, "C05", cf.name()) // same keys and ciphertexts for every scenario of a configuration
	w := &world{cf: cf}
	w.params = cf.Build()
	p := w.params
	w.t = p.PlaintextModulus()
	w.n = p.MaxSlots()
	w.N = p.N()
	w.L = p.MaxLevel()
	kgen := rlwe.NewKeyGenerator(p)
	w.sk = kgen.GenSecretKeyNew()
	// Default relinearization key, except for the configurations that ask for a base-2^k decomposition (the usual
	// way to keep key-switching noise small without auxiliary primes P).
	var rlk *rlwe.RelinearizationKey
	if cf.base2 > 0 {
		b2 := cf.base2
		rlk = kgen.GenRelinearizationKeyNew(w.sk, rlwe.EvaluationKeyParameters{BaseTwoDecomposition: &b2})
	} else {
		rlk = kgen.GenRelinearizationKeyNew(w.sk)
	}
	evk := rlwe.NewMemEvaluationKeySet(rlk)
	w.ecd = bgv.NewEncoder(p)
	w.enc = rlwe.NewEncryptor(p, w.sk)
	w.dec = rlwe.NewDecryptor(p, w.sk)
	w.evk = evk
	w.ev = bgv.NewEvaluator(p, evk, cf.si)
	w.evStd = bgv.NewEvaluator(p, evk, false)
	w.qs = p.Q()
	for l := range w.qs {
		w.Q = append(w.Q, ref.Prod(w.qs[:l+1]))
	}
	w.relinE = relinBounds(p)
	w.vecs = bgvu.DistinctVectors(8, w.n, w.t)

	fresh := freshBound(w)
	mk := func(v []uint64, level int, scale uint64) reg {
		pt := bgv.NewPlaintext(p, level)
		pt.Scale = p.NewScale(scale)
		if err := w.ecd.Encode(v, pt); err != nil {
			panic(fmt.Sprintf("init encode: %v", err))
		}
		ct, err := w.enc.EncryptNew(pt)
		if err != nil {
			panic(fmt.Sprintf("init encrypt: %v", err))
		}
		return reg{ct: ct, vals: append([]uint64(nil), v...), level: level, deg: 1, scale: scale, bound: new(big.Int).Set(fresh)}
	}
	w.init[0] = mk(w.vecs[0], w.L, 1)
	w.init[1] = mk(w.vecs[1], w.L, 1)
	w.init[2] = mk(w.vecs[2], maxInt(w.L-1, 0), 3%w.t)
	a, b := mk(w.vecs[3], w.L, 1), mk(w.vecs[4], w.L, 1)
	d2, err := w.evStd.MulNew(a.ct, b.ct)
	if err != nil {
		w.initOK = fmt.Sprintf("preparing the degree-2 register: MulNew: %v", err)
		d2 = a.ct
	}
	bd := new(big.Int).Mul(a.bound, b.bound)
	bd.Mul(bd, big.NewInt(int64(w.N)))
	w.init[3] = reg{ct: d2, vals: bgvu.VecMul(a.vals, b.vals, w.t), level: w.L, deg: 2, scale: 1, bound: bd}
	worlds[scen] = w
	return w
}

// decode decrypts and decodes with the scale recorded on the ciphertext.
func (w *world) decode(ct *rlwe.Ciphertext) []uint64 {
	pt := w.dec.DecryptNew(ct)
	out := make([]uint64, w.n)
	if err := w.ecd.Decode(pt, out); err != nil {
		panic(fmt.Sprintf("decode: %v", err))
	}
	return out
}
