package main

import (
	"fmt"
	"math"
)

// ---------------------------------------------------------------------------------------------
// instruction alphabet of the register machine

type opcode int

const (
	opAdd opcode = iota
	opSub
	opMul
	opMulRelin
	opMulSI      // MulScaleInvariant
	opMulRelinSI // MulRelinScaleInvariant
	opMulThenAdd
	opMulRelinThenAdd
	opRescale
	opDropLevel
	opRelinearize
	opMatchScales
)

var opNames = map[opcode]string{
	opAdd: "Add", opSub: "Sub", opMul: "Mul", opMulRelin: "MulRelin", opMulSI: "MulScaleInvariant",
	opMulRelinSI: "MulRelinScaleInvariant", opMulThenAdd: "MulThenAdd", opMulRelinThenAdd: "MulRelinThenAdd",
	opRescale: "Rescale", opDropLevel: "DropLevel", opRelinearize: "Relinearize", opMatchScales: "MatchScalesAndLevel",
}

func (o opcode) String() string { return opNames[o] }

func (o opcode) binary() bool  { return o <= opMulRelinThenAdd }
func (o opcode) thenAdd() bool { return o == opMulThenAdd || o == opMulRelinThenAdd }
func (o opcode) hasNew() bool {
	return o <= opMulRelinSI || o == opRelinearize
}

// operand kinds
type okind int

const (
	kCtOther okind = iota // the other fresh degree-1 register (same level, same scale at the start)
	kCtSelf               // op1 == op0 (squaring / doubling)
	kCtLow                // register 2: one level lower, different scale
	kCtDeg2               // register 3: degree 2
	kPtEq                 // plaintext at op0's level and scale
	kPtDiff               // plaintext at op0's level, different scale
	kPtLow                // plaintext one level below op0, op0's scale
	kPtHigh               // plaintext one level above op0 (op0 below the top level), op0's scale
	kBig                  // *big.Int
	kU64
	kI64
	kInt
	kVecU // []uint64
	kVecI // []int64
	kNone // unary instruction
)

var kindNames = map[okind]string{
	kCtOther: "ct-deg1", kCtSelf: "ct-self", kCtLow: "ct-lowlevel-diffscale", kCtDeg2: "ct-deg2",
	kPtEq: "pt-eqscale", kPtDiff: "pt-diffscale", kPtLow: "pt-lowlevel", kPtHigh: "pt-highlevel",
	kBig: "bigint", kU64: "uint64", kI64: "int64", kInt: "int", kVecU: "vec-uint64", kVecI: "vec-int64", kNone: "none",
}

func (k okind) String() string  { return kindNames[k] }
func (k okind) isCt() bool      { return k <= kCtDeg2 }
func (k okind) isPt() bool      { return k >= kPtEq && k <= kPtHigh }
func (k okind) isElement() bool { return k <= kPtHigh }
func (k okind) isScalar() bool  { return k >= kBig && k <= kInt }
func (k okind) isVec() bool     { return k == kVecU || k == kVecI }

// number of value variants per operand kind (index `arg` of the instruction)
//
//	bigint : 0, 1, -1, t-1, t, 2^70, (t+3)/2, -(t-1)/2      uint64 : 0, 1, t-1, 2^63, 2^64-1, (t+3)/2, t-t/8
//	int64  : -1, MinInt64, -t-1, -(t-1)/2, -t/3            int    : 5, -3, -t/3
//
// (t+3)/2, -(t-1)/2, t-t/8, -t/3 are the scalars whose centred representative mod t is negative with a magnitude
// of the order of t: the evaluator centres scalars before multiplying, and a magnitude above one of the chain's
// primes (parameter sets with t larger than some q_i) takes the reduction of a negative multi-residue scalar through
// its wrap-around case.
//
//	[]uint64 / []int64 : short (3 entries), full (all slots, distinct), extreme (values >= t / negative extremes)
func variants(k okind) int {
	switch k {
	case kBig:
		return 8
	case kU64:
		return 7
	case kI64:
		return 5
	case kInt:
		return 3
	case kVecU, kVecI:
		return 3
	}
	return 1
}

// destination forms
type dform int

const (
	dNew     dform = iota // XxxNew: result in a newly allocated ciphertext
	dFresh                // caller-allocated zero ciphertext of the documented degree/level
	dInPlace              // opOut == op0
	// for MulThenAdd / MulRelinThenAdd the destination is the accumulator:
	dAccA   // first register different from op0 and op1
	dAccB   // second register different from op0 and op1
	dAccOp0 // accumulator == op0: documented to be refused
	// for MatchScalesAndLevel: the partner register
	dPartner1
	dPartner2
	dPartner3 // register 3 (degree 2)
	// reused receiver: a distinct, already used ciphertext at the top level (>= the level of the result) holding
	// stale non-zero data and a foreign scale; its degree is 2 wherever the operation documents that it sets the
	// degree itself (products, scalar/vector operands, Relinearize) and the documented result degree otherwise
	// (Add/Sub of elements and Rescale keep a larger receiver degree: C09's known findings, not repeated here)
	dStale
)

var dformNames = map[dform]string{dNew: "new", dFresh: "fresh-out", dInPlace: "out=op0", dAccA: "acc-a", dAccB: "acc-b",
	dAccOp0: "acc=op0", dPartner1: "partner-a", dPartner2: "partner-b", dPartner3: "partner-deg2", dStale: "stale-receiver"}

func (d dform) String() string { return dformNames[d] }

type instr struct {
	op   opcode
	src  int // op0 register
	kind okind
	arg  int // value variant
	dst  dform
}

func (i instr) String() string {
	if i.kind == kNone {
		return fmt.Sprintf("%s(r%d)->%s", i.op, i.src, i.dst)
	}
	return fmt.Sprintf("%s(r%d,%s#%d)->%s", i.op, i.src, i.kind, i.arg, i.dst)
}

var allKinds = []okind{kCtOther, kCtSelf, kCtLow, kCtDeg2, kPtEq, kPtDiff, kPtLow, kPtHigh, kBig, kU64, kI64, kInt, kVecU, kVecI}

// kindsFor: operand kinds offered to op0 = register src. Register 2 (one level lower, other scale) as op0 gets
// the element operands that sit at a *higher* level than op0 (the other order of the level mismatch); scalars and
// vectors do not depend on the order and are enumerated with registers 0 and 3 only.
func kindsFor(src int) []okind {
	switch src {
	case 2:
		return []okind{kCtOther, kCtDeg2, kPtEq, kPtHigh}
	case 3:
		var r []okind
		for _, k := range allKinds {
			if k != kCtDeg2 { // "self" already is the degree-2 operand
				r = append(r, k)
			}
		}
		return r
	}
	return allKinds
}

// wideAlphabet: the full product opcode x operand kind x value variant x destination form, for op0 in `srcs`.
func wideAlphabet(srcs []int) []instr {
	var a []instr
	for _, src := range srcs {
		for op := opAdd; op <= opMulRelinSI; op++ {
			for _, k := range kindsFor(src) {
				for v := 0; v < variants(k); v++ {
					for _, d := range []dform{dNew, dFresh, dInPlace, dStale} {
						a = append(a, instr{op, src, k, v, d})
					}
				}
			}
		}
		for _, op := range []opcode{opMulThenAdd, opMulRelinThenAdd} {
			for _, k := range kindsFor(src) {
				for v := 0; v < variants(k); v++ {
					for _, d := range []dform{dAccA, dAccB, dAccOp0} {
						a = append(a, instr{op, src, k, v, d})
					}
				}
			}
		}
		a = append(a,
			instr{opRescale, src, kNone, 0, dFresh}, instr{opRescale, src, kNone, 0, dInPlace}, instr{opRescale, src, kNone, 0, dStale},
			instr{opDropLevel, src, kNone, 0, dInPlace},
			instr{opRelinearize, src, kNone, 0, dNew}, instr{opRelinearize, src, kNone, 0, dFresh}, instr{opRelinearize, src, kNone, 0, dInPlace}, instr{opRelinearize, src, kNone, 0, dStale},
			instr{opMatchScales, src, kNone, 0, dPartner1}, instr{opMatchScales, src, kNone, 0, dPartner2}, instr{opMatchScales, src, kNone, 0, dPartner3},
		)
	}
	return a
}

// miniAlphabet: one instruction per opcode x operand class (ciphertext same level, ciphertext lower level / other
// scale, degree-2 ciphertext, plaintext of another scale, hostile scalar, signed vector), destination forms
// round-robin including the stale receiver; used for the length-3 programs of the quick tier.
func miniAlphabet() []instr {
	rep := map[okind]int{kBig: 7 /*-(t-1)/2*/, kVecI: 2}
	var a []instr
	n := 0
	for op := opAdd; op <= opMulRelinSI; op++ {
		for _, k := range []okind{kCtOther, kCtLow, kCtDeg2, kPtDiff, kBig, kVecI} {
			d := []dform{dNew, dStale, dInPlace, dFresh}[n%4]
			n++
			a = append(a, instr{op, 0, k, rep[k], d})
		}
	}
	for _, op := range []opcode{opMulThenAdd, opMulRelinThenAdd} {
		for _, k := range []okind{kCtOther, kCtLow, kPtDiff, kBig, kVecI} {
			d := []dform{dAccA, dAccB}[n%2]
			n++
			a = append(a, instr{op, 0, k, rep[k], d})
		}
	}
	a = append(a,
		instr{opRescale, 0, kNone, 0, dInPlace}, instr{opRescale, 1, kNone, 0, dStale}, instr{opDropLevel, 1, kNone, 0, dInPlace},
		instr{opRelinearize, 0, kNone, 0, dStale}, instr{opRelinearize, 3, kNone, 0, dInPlace},
		instr{opMatchScales, 0, kNone, 0, dPartner2}, instr{opMatchScales, 2, kNone, 0, dPartner3},
		instr{opMul, 2, kCtOther, 0, dInPlace}, instr{opAdd, 2, kPtHigh, 0, dStale}, instr{opSub, 1, kCtDeg2, 0, dStale},
	)
	return a
}

// coreAlphabet: every opcode x operand kind with one representative value per kind (the most hostile one) and
// the destination forms distributed round-robin, op0 = r0; all unary instructions on r0, r1 and r3; the
// products that make the other registers evolve. Used for the inner steps of longer programs.
func coreAlphabet() []instr {
	rep := map[okind]int{kBig: 6 /*(t+3)/2: centred -(t-3)/2*/, kU64: 4 /*2^64-1*/, kI64: 1 /*MinInt64*/, kInt: 2 /*-t/3*/, kVecU: 2, kVecI: 2}
	var a []instr
	n := 0
	for op := opAdd; op <= opMulRelinSI; op++ {
		for _, k := range allKinds {
			d := []dform{dNew, dFresh, dInPlace}[n%3]
			n++
			a = append(a, instr{op, 0, k, rep[k], d})
		}
	}
	for _, op := range []opcode{opMulThenAdd, opMulRelinThenAdd} {
		for _, k := range allKinds {
			d := []dform{dAccA, dAccB}[n%2]
			n++
			a = append(a, instr{op, 0, k, rep[k], d})
		}
	}
	for _, src := range []int{0, 1, 3} {
		a = append(a, instr{opRescale, src, kNone, 0, dInPlace}, instr{opDropLevel, src, kNone, 0, dInPlace},
			instr{opRelinearize, src, kNone, 0, []dform{dNew, dFresh, dInPlace}[src%3]})
	}
	a = append(a, instr{opMatchScales, 0, kNone, 0, dPartner2}, instr{opMatchScales, 1, kNone, 0, dPartner2})
	// make r1 and r3 evolve
	a = append(a,
		instr{opMulRelin, 1, kCtSelf, 0, dInPlace}, instr{opMul, 1, kCtOther, 0, dNew}, instr{opAdd, 1, kCtLow, 0, dInPlace},
		instr{opAdd, 3, kCtOther, 0, dInPlace}, instr{opSub, 3, kPtDiff, 0, dNew}, instr{opMul, 3, kU64, 2, dInPlace},
		instr{opMulRelinSI, 1, kCtOther, 0, dFresh}, instr{opMulThenAdd, 1, kCtOther, 0, dAccB},
		// op0 at the lower level, receivers holding stale data
		instr{opAdd, 2, kCtOther, 0, dStale}, instr{opSub, 2, kCtDeg2, 0, dStale}, instr{opMulRelin, 2, kCtOther, 0, dStale},
		instr{opMulSI, 2, kCtOther, 0, dNew}, instr{opMul, 2, kPtHigh, 0, dInPlace}, instr{opMulThenAdd, 2, kCtOther, 0, dAccB},
		instr{opRescale, 1, kNone, 0, dStale}, instr{opRelinearize, 3, kNone, 0, dStale}, instr{opMatchScales, 2, kNone, 0, dPartner3},
		instr{opAdd, 0, kCtDeg2, 0, dStale}, instr{opSub, 0, kCtLow, 0, dStale}, instr{opMul, 0, kBig, 2, dStale},
		instr{opMul, 0, kBig, 5, dNew}, instr{opMulThenAdd, 0, kI64, 3, dAccA}, instr{opMulRelin, 0, kU64, 5, dInPlace},
	)
	return a
}

// scalar / vector values ------------------------------------------------------------------------

func u64Value(v int, t uint64) uint64 {
	return []uint64{0, 1, t - 1, 1 << 63, math.MaxUint64, (t + 3) / 2, t - t/8}[v]
}

func i64Value(v int, t uint64) int64 {
	return []int64{-1, math.MinInt64, -int64(t) - 1, -int64((t - 1) / 2), -int64(t / 3)}[v]
}

func intValue(v int, t uint64) int { return []int{5, -3, -int(t / 3)}[v] }
