// C05 — BGV/BFV evaluation is an exact ring homomorphism modulo the plaintext modulus.
//
// A register machine over real ciphertexts is explored as a state machine: four registers (two fresh degree-1
// ciphertexts, one a level lower with another scale, one of degree 2) hold encryptions of slot vectors that
// differ in every slot; every instruction (opcode x operand kind x value x destination form) is executed on the
// real bgv.Evaluator and on a model over Z_t; after EVERY instruction the written registers are decrypted and
// decoded with the recorded scale and must equal the model exactly, and level / degree / scale must be the
// documented ones. Documented failure conditions must come back as errors.
package main

import (
	"fmt"
	"math/big"
	"time"

	"github.com/tuneinsight/lattigo/v6/core/rlwe"
	"github.com/tuneinsight/lattigo/v6/schemes/bgv"

	"verif/engine"
	"verif/lib/bgvu"
	"verif/uni"
)

func chunkOf(a []instr, k, n int) []instr {
	var r []instr
	for i := k; i < len(a); i += n {
		r = append(r, a[i])
	}
	return r
}

// progScenario enumerates ALL programs i_0 i_1 ... with i_s drawn from alph[s] (the first alphabet restricted
// to one chunk, to spread the work over the workers).
func progScenario(cf conf, pat string, alph [][]instr, chunk, nchunks int) engine.Scenario {
	name := fmt.Sprintf("prog/%s/%s/%02d", cf.name(), pat, chunk)
	as := append([][]instr(nil), alph...)
	as[0] = chunkOf(alph[0], chunk, nchunks)
	st := newScenState(name)
	return engine.Scenario{Name: name, Bound: -1, Fn: func(c *engine.Chooser) {
		m := newMachine(c, cf, st)
		if m == nil {
			return
		}
		c.Cover("pattern", pat)
		for s := range as {
			idx := c.Choose(len(as[s]), fmt.Sprintf("instr%d", s))
			if !m.step(c, idx, as[s][idx], s == len(as)-1) {
				return
			}
		}
		c.Cover("length", fmt.Sprint(len(as)))
	}}
}

// spineScenario: the MulRelin+Rescale spine from the top level down to level 0 (BFV mode: MulRelin+DropLevel,
// Rescale being a nop there), with at most one step replaced by any instruction of the wide alphabet.
func spineScenario(cf conf, wide []instr, part, nparts int) engine.Scenario {
	name := fmt.Sprintf("spine/%s/%02d", cf.name(), part)
	st := newScenState(name)
	dev := chunkOf(wide, part, nparts)
	return engine.Scenario{Name: name, Bound: 1, Fn: func(c *engine.Chooser) {
		m := newMachine(c, cf, st)
		if m == nil {
			return
		}
		c.Cover("pattern", "spine")
		steps := 2 * m.w.L
		for s := 0; s < steps; s++ {
			var sp instr
			switch {
			case s%2 == 0:
				sp = instr{opMulRelin, 0, kCtOther, 0, dInPlace}
			case cf.si:
				sp = instr{opDropLevel, 0, kNone, 0, dInPlace}
			default:
				sp = instr{opRescale, 0, kNone, 0, dInPlace}
			}
			idx := c.Choose(1+len(dev), fmt.Sprintf("spine%d", s))
			ins := sp
			if idx > 0 {
				ins = dev[idx-1]
			}
			if !m.step(c, idx, ins, s == steps-1) {
				return
			}
			if m.regs[0].level == 0 {
				c.Cover("spine", "reached-level-0")
			}
		}
		c.Cover("length", "spine")
	}}
}

// qmulScenario: on one configuration of qmulConfigs, every ciphertext x ciphertext product instruction (Mul, MulRelin
// of the scale-invariant evaluator and the explicit Mul(Relin)ScaleInvariant entry points; other register, squaring;
// New form and in place) at every level of the chain, with the exact mod-t oracle of the register machine.
func qmulScenario(cf conf) engine.Scenario {
	name := "qmul-boundary/" + cf.Name
	st := newScenState(name)
	var prods []instr
	for _, op := range []opcode{opMul, opMulRelin, opMulSI, opMulRelinSI} {
		prods = append(prods, instr{op, 0, kCtOther, 0, dNew}, instr{op, 0, kCtSelf, 0, dInPlace})
	}
	return engine.Scenario{Name: name, Bound: -1, Fn: func(c *engine.Chooser) {
		m := newMachine(c, cf, st)
		if m == nil {
			return
		}
		c.Cover("pattern", "qmul-boundary")
		w := m.w
		level := w.L - c.Choose(w.L+1, "level")
		for l := w.L; l > level; l-- {
			// both operands go down: the tensoring then runs on ciphertexts that really live at that level
			if !m.step(c, 1000, instr{opDropLevel, 0, kNone, 0, dInPlace}, false) || !m.step(c, 1001, instr{opDropLevel, 1, kNone, 0, dInPlace}, false) {
				return
			}
		}
		bits := w.Q[level].BitLen()
		c.Cover("qmul-bitlen+logN", fmt.Sprintf("%d", bits+w.params.LogN()))
		c.Cover("qmul-ring", fmt.Sprintf("logN=%d slots=%d", w.params.LogN(), w.n))
		c.Note("level %d: bitlen(Q_l)=%d LogN=%d LogMaxSlots=%d", level, bits, w.params.LogN(), w.params.LogMaxSlots())
		i := c.Choose(len(prods), "product")
		if m.step(c, i, prods[i], true) {
			c.Cover("qmul-judged", fmt.Sprintf("logN=%d", w.params.LogN()))
		}
	}}
}

// obtainedScenario: the way the evaluator was OBTAINED, crossed with both modes (every configuration is one mode):
// NewEvaluator itself, ShallowCopy, WithKey (same keys), WithKey then ShallowCopy, ShallowCopy then WithKey. The
// obtained evaluator must behave as the original of its mode: all programs mini x mini (the first product already
// shows the recorded scale) and the MulRelin spine run on it with the oracles of the register machine.
func obtainedScenario(cf conf, mini []instr) engine.Scenario {
	name := "obtained/" + cf.name()
	st := newScenState(name)
	return engine.Scenario{Name: name, Bound: -1, Fn: func(c *engine.Chooser) {
		m := newMachine(c, cf, st)
		if m == nil {
			return
		}
		w := m.w
		how := c.Choose(5, "obtained")
		switch how {
		case 1:
			m.ev = w.ev.ShallowCopy()
		case 2:
			m.ev = w.ev.WithKey(w.evk)
		case 3:
			m.ev = w.ev.WithKey(w.evk).ShallowCopy()
		case 4:
			m.ev = w.ev.ShallowCopy().WithKey(w.evk)
		}
		c.Cover("pattern", "obtained")
		c.Cover("obtained", []string{"new", "shallowcopy", "withkey", "withkey-shallowcopy", "shallowcopy-withkey"}[how]+"/"+map[bool]string{false: "bgv", true: "bfv"}[cf.si])
		if m.ev.ScaleInvariant != cf.si {
			// reported, and the program still runs: the behavioural oracles (recorded scale, decoded value) judge it too
			m.softFail(c, "C05/obtained/mode", "evaluator obtained by %d reports ScaleInvariant=%v, the original was created with %v", how, m.ev.ScaleInvariant, cf.si)
		}
		m.path = fmt.Sprintf("how%d.", how)
		if c.Choose(2, "program") == 0 {
			for s := 0; s < 2; s++ {
				idx := c.Choose(len(mini), fmt.Sprintf("instr%d", s))
				if !m.step(c, idx, mini[idx], s == 1) {
					return
				}
			}
			return
		}
		// spine: MulRelin with the other register, then Rescale (BGV) / DropLevel (BFV), down to level 0
		for s := 0; s < 2*w.L; s++ {
			ins := instr{opMulRelin, 0, kCtOther, 0, dInPlace}
			if s%2 == 1 {
				ins = instr{opRescale, 0, kNone, 0, dInPlace}
				if cf.si {
					ins = instr{opDropLevel, 0, kNone, 0, dInPlace}
				}
			}
			if !m.step(c, 2000+s, ins, false) {
				return
			}
		}
	}}
}

func newMachine(c *engine.Chooser, cf conf, st *scenState) *machine {
	w := getWorld(c, cf, cf.name())
	c.Cover("mode", map[bool]string{false: "bgv", true: "bfv"}[cf.si])
	c.Cover("t", tClass(cf.Conf))
	if w.initOK != "" {
		c.Fail("C05/init", "initial state: %s", w.initOK)
		return nil
	}
	m := &machine{w: w, ev: w.ev, scen: st}
	for i := range m.regs {
		m.regs[i] = w.init[i].clone()
	}
	return m
}

// failScenario: documented failure conditions that need a special evaluator or operand (no relinearization key,
// plaintext-only operands, output too small, operand of an unsupported type). One leaf per case.
func failScenario(cf conf) engine.Scenario {
	name := "fail/" + cf.name()
	return engine.Scenario{Name: name, Bound: -1, Fn: func(c *engine.Chooser) {
		m := newMachine(c, cf, newScenState(name))
		if m == nil {
			return
		}
		w := m.w
		p := w.params
		evNil := bgv.NewEvaluator(p, nil, cf.si)
		evEmpty := bgv.NewEvaluator(p, rlwe.NewMemEvaluationKeySet(nil), cf.si)
		r0, r1, r3 := m.regs[0].ct, m.regs[1].ct, m.regs[3].ct
		// degree-0 "ciphertext" (a plaintext in ciphertext clothing) and a plaintext
		z := rlwe.NewCiphertext(p, 0, w.L)
		z.IsBatched, z.Scale, z.LogDimensions = true, p.DefaultScale(), p.LogMaxDimensions()
		pt := bgv.NewPlaintext(p, w.L)
		if err := w.ecd.Encode(w.vecs[5], pt); err != nil {
			panic(err)
		}
		z.Value[0].Copy(pt.Value)
		fresh := func(deg int) *rlwe.Ciphertext { return bgv.NewCiphertext(p, deg, w.L) }
		type fcase struct {
			name string
			f    func() error
		}
		// one defect, one signature: every relinearizing call that goes through the scale-invariant tensoring
		// shares one code path (tensorScaleInvariant); they are grouped under one signature per key-set variant.
		group := func(name string) string {
			for _, e := range []string{"evk=nil", "evk=empty"} {
				for _, o := range []string{"/MulRelinScaleInvariantNew", "/MulRelinScaleInvariant", "/MulRelinNew", "/MulRelin"} {
					if name == e+o && (cf.si || o == "/MulRelinScaleInvariantNew" || o == "/MulRelinScaleInvariant") {
						return e + "/relinearizing-scale-invariant-product"
					}
				}
			}
			return name
		}
		var cases []fcase
		for _, e := range []struct {
			n  string
			ev *bgv.Evaluator
		}{{"evk=nil", evNil}, {"evk=empty", evEmpty}} {
			ev := e.ev
			cases = append(cases,
				fcase{e.n + "/MulRelin", func() error { return ev.MulRelin(r0, r1, fresh(1)) }},
				fcase{e.n + "/MulRelinNew", func() error { _, err := ev.MulRelinNew(r0, r1); return err }},
				fcase{e.n + "/MulRelinScaleInvariant", func() error { return ev.MulRelinScaleInvariant(r0, r1, fresh(1)) }},
				fcase{e.n + "/MulRelinScaleInvariantNew", func() error { _, err := ev.MulRelinScaleInvariantNew(r0, r1); return err }},
				fcase{e.n + "/MulRelinThenAdd", func() error { return ev.MulRelinThenAdd(r0, r1, m.regs[2].ct) }},
				fcase{e.n + "/Relinearize", func() error { return ev.Relinearize(r3, fresh(1)) }},
				fcase{e.n + "/RelinearizeNew", func() error { _, err := ev.RelinearizeNew(r3); return err }},
			)
		}
		ev := w.ev
		cases = append(cases,
			fcase{"plaintext-only/Add", func() error { return ev.Add(z, pt, fresh(1)) }},
			fcase{"plaintext-only/AddNew", func() error { _, err := ev.AddNew(z, pt); return err }},
			fcase{"plaintext-only/Sub", func() error { return ev.Sub(z, pt, fresh(1)) }},
			fcase{"plaintext-only/Mul", func() error { return ev.Mul(z, pt, fresh(1)) }},
			fcase{"plaintext-only/MulNew", func() error { _, err := ev.MulNew(z, pt); return err }},
			fcase{"plaintext-only/MulRelin", func() error { return ev.MulRelin(z, pt, fresh(1)) }},
			fcase{"plaintext-only/MulScaleInvariant", func() error { return ev.MulScaleInvariant(z, pt, fresh(1)) }},
			fcase{"plaintext-only/MulRelinScaleInvariant", func() error { return ev.MulRelinScaleInvariant(z, pt, fresh(1)) }},
			fcase{"plaintext-only/MulThenAdd", func() error { return ev.MulThenAdd(z, pt, fresh(1)) }},
			fcase{"plaintext-only/MulRelinThenAdd", func() error { return ev.MulRelinThenAdd(z, pt, fresh(1)) }},
			fcase{"plaintext-only/Add(z,z)", func() error { return ev.Add(z, z, fresh(1)) }},
			fcase{"bad-operand-type/Add(float64)", func() error { return ev.Add(r0, 1.5, fresh(1)) }},
			fcase{"bad-operand-type/Sub(string)", func() error { return ev.Sub(r0, "x", fresh(1)) }},
			fcase{"bad-operand-type/Mul([]float64)", func() error { return ev.Mul(r0, []float64{1}, fresh(1)) }},
			fcase{"bad-operand-type/MulRelin(uint32)", func() error { return ev.MulRelin(r0, uint32(3), fresh(1)) }},
			fcase{"bad-operand-type/MulThenAdd(nil)", func() error { return ev.MulThenAdd(r0, nil, fresh(1)) }},
			fcase{"degree-too-high/Mul(deg2,deg1)New", func() error { _, err := ev.MulNew(r3, r0); return err }},
			fcase{"degree-too-high/MulRelin(deg1,deg2)", func() error { return ev.MulRelin(r0, r3, fresh(1)) }},
			fcase{"degree-too-high/MulThenAdd(deg2,deg2)", func() error { return ev.MulThenAdd(r3, r3, fresh(2)) }},
		)
		if !cf.si {
			cases = append(cases,
				fcase{"rescale/output-level-too-low", func() error { return ev.Rescale(r0, bgv.NewCiphertext(p, 1, w.L-2)) }},
				fcase{"rescale/level0", func() error {
					ct := r0.CopyNew()
					ct.Resize(1, 0)
					return ev.Rescale(ct, ct)
				}},
			)
		}
		i := c.Choose(len(cases)+1, "case")
		if i == len(cases) {
			noPRelin(c, m)
			return
		}
		cs := cases[i]
		c.Note("%s", cs.name)
		err, pan := uni.Try(cs.f)
		switch {
		case pan != nil:
			c.Fail("C05/fail/"+group(cs.name)+"/panic", "%s: documented failure condition panicked instead of returning an error: %v", cs.name, pan)
		case err == nil:
			c.Fail("C05/fail/"+group(cs.name)+"/no-error", "%s: documented failure condition was accepted (nil error)", cs.name)
		default:
			c.Cover("rejected", "fail/"+cs.name)
			c.Outcome("fail", cs.name, "error")
		}
		c.Count(1)
	}}
}

// noPRelin: relinearization with a key generated without auxiliary primes P and without base-2 decomposition
// (the defaults of GenRelinearizationKeyNew for a parameter set without P). One leaf, its own signature: the
// register machine of the P-less configurations uses a base-2^16 key instead so that this does not mask anything.
func noPRelin(c *engine.Chooser, m *machine) {
	w := m.w
	if w.cf.NP != 0 {
		c.Cover("relin", "with-P")
		return
	}
	c.Cover("relin", "no-P-no-base2")
	kgen := rlwe.NewKeyGenerator(w.params)
	rlk := kgen.GenRelinearizationKeyNew(w.sk)
	ev := bgv.NewEvaluator(w.params, rlwe.NewMemEvaluationKeySet(rlk), w.cf.si)
	var out *rlwe.Ciphertext
	err, pan := uni.Try(func() (e error) { out, e = ev.MulRelinNew(m.regs[0].ct, m.regs[1].ct); return })
	if pan != nil || err != nil {
		c.Fail("C05/relinearization/no-P-no-base2-decomposition/error", "MulRelinNew: err=%v panic=%v", err, pan)
		return
	}
	got := w.decode(out)
	want := bgvu.VecMul(m.regs[0].vals, m.regs[1].vals, w.t)
	if !bgvu.VecEq(got, want) {
		c.Fail("C05/relinearization/no-P-no-base2-decomposition/value",
			"MulRelinNew of two fresh ciphertexts with a relinearization key generated without P and without base-2 decomposition decrypts to %v, want %v (log Q = %d)", got, want, w.Q[w.L].BitLen())
	}
	c.Count(1)
}

// collisionScenario: a Q chain of 61-bit primes generated downstream from 2^61 (what
// ring.NewNTTFriendlyPrimesGenerator(61, .).NextDownstreamPrimes produces, and the library's own choice for its
// internal auxiliary basis QMul). bgv.NewParameters accepts it; the scale-invariant product must then still be
// exact. One leaf, its own signature.
func collisionScenario() engine.Scenario {
	return engine.Scenario{Name: "params/q61-downstream/bfv", Bound: -1, Fn: func(c *engine.Chooser) {
		cf := conf{Conf: bgvu.Conf{Name: "t97-q61x4-p61x1-downstream", LogN: 4, QBits: 61, NQ: 4, PBits: 61, NP: 1, T: 97}, si: true}
		m := newMachine(c, cf, newScenState("collision"))
		if m == nil {
			return
		}
		w := m.w
		c.Cover("params", "q61-downstream")
		for _, q := range w.params.RingQMul().ModuliChain() {
			for _, q2 := range append(append([]uint64(nil), w.params.Q()...), w.params.P()...) {
				if q == q2 {
					c.Note("prime %d is both in Q/P and in the internal basis QMul", q)
				}
			}
		}
		var out *rlwe.Ciphertext
		err, pan := uni.Try(func() (e error) { out, e = w.ev.MulNew(m.regs[0].ct, m.regs[1].ct); return })
		if pan != nil || err != nil {
			c.Fail("C05/params/Q-shares-primes-with-internal-QMul/error", "MulNew: err=%v panic=%v", err, pan)
			return
		}
		got, want := w.decode(out), bgvu.VecMul(m.regs[0].vals, m.regs[1].vals, w.t)
		if !bgvu.VecEq(got, want) {
			c.Fail("C05/params/Q-shares-primes-with-internal-QMul/value",
				"scale-invariant MulNew of two fresh ciphertexts under accepted parameters (Q = 61-bit primes downstream of 2^61) decrypts to %v, want %v", got, want)
		}
		c.Count(1)
	}}
}

func scenarios(tier string) []engine.Scenario {
	var scs []engine.Scenario
	scs = append(scs, collisionScenario())
	for _, cf := range qmulConfigs() {
		scs = append(scs, qmulScenario(cf))
	}
	wide := wideAlphabet([]int{0, 3, 2})
	core := coreAlphabet()
	mini := miniAlphabet()
	for _, cf := range configs(tier) {
		scs = append(scs, failScenario(cf), obtainedScenario(cf, mini))
		const nch = 8
		switch {
		case cf.light:
			scs = append(scs, progScenario(cf, "wide", [][]instr{wide}, 0, 1))
			scs = append(scs, progScenario(cf, "mini-mini", [][]instr{mini, mini}, 0, 1))
			if tier == "thorough" {
				for k := 0; k < nch; k++ {
					scs = append(scs, progScenario(cf, "core-wide", [][]instr{core, wide}, k, nch))
					scs = append(scs, progScenario(cf, "mini-mini-mini", [][]instr{mini, mini, mini}, k, nch))
				}
			}
		case tier == "thorough":
			for k := 0; k < nch; k++ {
				scs = append(scs, progScenario(cf, "wide-wide", [][]instr{wide, wide}, k, nch))
				scs = append(scs, progScenario(cf, "core-core-core", [][]instr{core, core, core}, k, nch))
			}
			if cf.Name == "t97-q30x4-p30x1" {
				// length 3 with a wide last step and length 4 on the reduced alphabet, one parameter set, both modes
				for k := 0; k < 4*nch; k++ {
					if !cf.si {
						scs = append(scs, progScenario(cf, "core-core-wide", [][]instr{core, core, wide}, k, 4*nch))
					}
					scs = append(scs, progScenario(cf, "mini^4", [][]instr{mini, mini, mini, mini}, k, 4*nch))
				}
			}
		default:
			for k := 0; k < nch; k++ {
				scs = append(scs, progScenario(cf, "core-wide", [][]instr{core, wide}, k, nch))
				scs = append(scs, progScenario(cf, "wide-core", [][]instr{wide, core}, k, nch))
				scs = append(scs, progScenario(cf, "mini-mini-mini", [][]instr{mini, mini, mini}, k, nch))
			}
		}
		for k := 0; k < 2; k++ {
			scs = append(scs, spineScenario(cf, wide, k, 2))
		}
	}
	return scs
}

func main() {
	_ = big.NewInt
	engine.Main(engine.Check{
		ID:    "C05",
		Level: "model_checking",
		Rule: "State machine = 4 ciphertext registers (model: slot vector over Z_t, level, degree, scale, noise bound). An instruction is (opcode, op0 register, operand kind, value variant, destination form); " +
			"quick enumerates ALL programs core x wide, wide x core (length 2) and mini^3 (length 3) plus the MulRelin+Rescale spine to level 0 with at most one deviating step, and on the secondary parameter sets (plaintext ring 4x / 8x smaller, P-less chains) all one-instruction programs and mini^2; " +
			"thorough ALL programs wide x wide and core^3 on every parameter set in both modes, core^2 x wide and mini^4 on one. Destination forms include a reused receiver (stale data, top level, degree 2 where the operation sets the degree itself); op0 ranges over registers at the top level, one level lower and of degree 2. " +
			"Plus the qmul-boundary family: scale-invariant ct x ct products at every level of chains whose bit lengths sweep the steps of the auxiliary-basis table (LogN 10: every bit length 50..61 and 110..122; LogN 4: bitlen+LogN in 61k-1..61k+2). " +
			"After every instruction: documented error / level / degree / scale, then decrypt+Decode with the recorded scale must equal the model in every slot. " +
			"A refused instruction is executed once and not extended. distinct_nontrivial counts distinct (opcode, operand kind, decoded vector, level, degree, scale) observations.",
		Assumptions: []string{
			"noise within budget: a leaf is judged only while a worst-case bound on |t*phase| stays below Q_level/4 (checks/c05/noise.go); otherwise it is out of scope",
			"registers are encrypted with the secret key under the default error distribution (sigma 3.2, bound 6 sigma)",
			"where the documentation leaves the resulting scale open (scale matching in Add/Sub/MulThenAdd/MatchScalesAndLevel) any unit of Z_t is accepted and decoding uses the recorded one",
			"a call the documentation announces as refused but for which a correct result exists (degree-2 op0 times plaintext/scalar, accumulator aliasing op0) may either return an error or the correct result",
			"caller-allocated outputs are zero ciphertexts of the documented degree and level; other aliasing / residue patterns belong to C09",
		},
		Scenarios:      scenarios,
		QuickBudget:    150 * time.Second,
		ThoroughBudget: 25 * time.Minute,
		Expect: func(tier string) []string {
			e := []string{"mode=bgv", "mode=bfv", "t=97", "t=17-gap2", "t=17-gap4", "t=17-gap8", "t=45bit-above-chain-primes", "relin=no-P-no-base2", "pattern=mini-mini-mini", "t=65537", "t=30bit", "t=60bit", "scales=mismatched", "scales=equal",
				"levels=different", "levels=equal", "budget=exceeded", "rescale=nop-bfv", "spine=reached-level-0", "pattern=spine", "pattern=qmul-boundary", "pattern=obtained", "obtained=withkey/bfv", "obtained=withkey/bgv", "obtained=shallowcopy/bfv", "obtained=withkey-shallowcopy/bfv", "obtained=shallowcopy-withkey/bfv",
				"qmul-judged=logN=10", "qmul-judged=logN=4", "qmul-ring=logN=10 slots=8", "qmul-ring=logN=10 slots=16", "qmul-ring=logN=10 slots=1024",
				"qmul-ring=logN=4 slots=8", "qmul-ring=logN=4 slots=16"}
			for _, k := range []int{1, 2} {
				for d := -1; d <= 2; d++ {
					e = append(e, fmt.Sprintf("qmul-bitlen+logN=%d", 61*k+d))
				}
			}
			for _, n := range opNames {
				e = append(e, "op="+n)
			}
			for k, n := range kindNames {
				e = append(e, "operand="+n)
				for v := 0; v < variants(k) && variants(k) > 1; v++ {
					e = append(e, fmt.Sprintf("value=%s#%d", n, v))
				}
			}
			for _, n := range dformNames {
				e = append(e, "dst="+n)
			}
			return e
		},
	})
}
