package main

import (
	"fmt"
	"math/big"
	"os"

	"github.com/tuneinsight/lattigo/v6/schemes/bgv"

	"verif/ref"
	"verif/uni"
)

// Noise budget guard.
//
// lattigo's BGV plaintexts are m * t^-1 mod Q ("MSB" encoding via the inverse of t), so for a ciphertext at
// level l with phase phi = c0 + c1 s + c2 s^2 mod Q_l the decoder computes w = [t * phi]_{Q_l} (centred) and
// reduces it mod t. Decryption is exact as long as the *integer* polynomial w = m' + t*e (m' the encoded
// message with coefficients in [0,t), e the accumulated error) has not wrapped around Q_l, i.e. |w|_inf < Q_l/2.
//
// The model keeps, per register, a provable upper bound B >= |w|_inf, updated per instruction with worst-case
// formulas (N = ring degree, |s|_inf <= 1, error coefficients bounded by 6*sigma < 20):
//
//	fresh (secret-key encryption)      t + t*20
//	a +- b, equal scales               Ba + Bb                   (plaintext / vector / scalar operand: Bb = t)
//	a +- b, scales matched             t*(Ba + Bb)               (both sides multiplied by r0, r1 in [0,t))
//	a * scalar                         Ba * (t/2+1)              (scalar centred mod t)
//	a * b (tensor, w_out = w_a * w_b)  N*Ba*Bb                   (negacyclic product of N terms; plaintext: Bb = t)
//	relinearization                    + t*E_relin(level)
//	rescale by q                       B/q + 1 + t*(1+N+N^2)     (each component is rounded by at most q/2; doubled)
//	scale-invariant tensor             see siBound
//
// A leaf whose bound reaches Q_l/4 after an instruction is outside the property ("whose noise stays within the
// budget") and is skipped; below that the true w cannot have wrapped and exact equality is demanded. The
// bounds are deliberately generous (factor >= 2 everywhere): they only decide scope, never a verdict.

const errBound = 20 // > 6*sigma = 19.2, the truncation bound of the default error distribution

func freshBound(w *world) *big.Int {
	t := new(big.Int).SetUint64(w.t)
	b := new(big.Int).Mul(t, big.NewInt(errBound))
	return b.Add(b, t)
}

// relinBounds returns, per level, a bound on the infinity norm of the error the gadget product with the
// relinearization key adds to the phase: sum over beta digits of <digit_i, e_i> divided by P, plus the rounding
// of the division by P. Digits are residues modulo a group of alpha = #P primes (|digit| <= (alpha+2)*Qgroup
// allowing for the approximate basis extension), e_i has coefficients below errBound.
func relinBounds(p bgv.Parameters) []*big.Int {
	qs := p.Q()
	ps := p.P()
	alpha := len(ps)
	P := big.NewInt(1)
	if alpha > 0 {
		P = ref.Prod(ps)
	} else {
		alpha = 1
	}
	// product of the alpha largest Q primes
	sorted := append([]uint64(nil), qs...)
	for i := range sorted {
		for j := i + 1; j < len(sorted); j++ {
			if sorted[j] > sorted[i] {
				sorted[i], sorted[j] = sorted[j], sorted[i]
			}
		}
	}
	k := alpha
	if k > len(sorted) {
		k = len(sorted)
	}
	Qg := ref.Prod(sorted[:k])
	out := make([]*big.Int, len(qs))
	N := int64(p.N())
	for l := range qs {
		beta := int64((l + 1 + alpha - 1) / alpha)
		e := new(big.Int).Mul(Qg, big.NewInt(beta*N*errBound*int64(alpha+2)))
		e.Div(e, P)
		e.Add(e, big.NewInt(N+2))
		e.Lsh(e, 1) // safety factor 2
		out[l] = e
	}
	return out
}

func (w *world) tBig() *big.Int { return new(big.Int).SetUint64(w.t) }

func bAdd(a, b *big.Int) *big.Int        { return new(big.Int).Add(a, b) }
func bMul(a, b *big.Int) *big.Int        { return new(big.Int).Mul(a, b) }
func bMulI(a *big.Int, k int64) *big.Int { return new(big.Int).Mul(a, big.NewInt(k)) }

// tensorBound: N*Ba*Bb.
func (w *world) tensorBound(a, b *big.Int) *big.Int {
	return bMulI(bMul(a, b), int64(w.N))
}

// relinTerm: t * E_relin(level).
func (w *world) relinTerm(level int) *big.Int {
	return bMul(w.tBig(), w.relinE[level])
}

// rescaleBound: B/q + 1 + t*(1+N+N^2).
func (w *world) rescaleBound(b *big.Int, q uint64) *big.Int {
	r := new(big.Int).Div(b, new(big.Int).SetUint64(q))
	r.Add(r, big.NewInt(1))
	n := int64(w.N)
	return r.Add(r, bMulI(w.tBig(), 1+n+n*n))
}

// siBound bounds |w_out| after the scale-invariant tensoring at `level` (before relinearization).
//
// The evaluator lifts the four polynomials a0,a1,b0,b1 to centred integers, tensors them over Z (in an
// auxiliary basis large enough to hold the products), and replaces every d_i by t*round(d_i/Q). With
// a0 + a1 s = phi_a + Q k_a over Z (|k_a| <= K := (N+1)*U + 1, U bounding |lift|/Q) and t*phi = w + Q j
// (|j| <= t/2+1), multiplying out t * sum_i t*(d_i/Q + rho_i) s^i modulo Q gives
//
//	w_out = w_a w_b / Q + (w_a j_b + w_b j_a) + t (w_a k_b + w_b k_a) + t^2 rho(s),  |rho(s)| <= 1+N+N^2
//
// hence |w_out| <= N Ba Bb / Q + N (Ba+Bb) (t/2+1) + t N (Ba+Bb) K + t^2 (1+N+N^2); we take U = level+3 and
// double the result.
func (w *world) siBound(a, b *big.Int, level int) *big.Int {
	n := int64(w.N)
	t := w.tBig()
	sum := bAdd(a, b)
	K := (n+1)*int64(level+3) + 1
	r := new(big.Int).Div(w.tensorBound(a, b), w.Q[level])
	r.Add(r, big.NewInt(1))
	r.Add(r, bMulI(bMul(sum, bAdd(t, big.NewInt(2))), n))
	r.Add(r, bMulI(bMul(sum, t), n*K))
	r.Add(r, bMulI(bMul(t, t), 1+n+n*n))
	return r.Lsh(r, 1)
}

// inBudget reports whether a bound leaves a factor-2 margin below Q_level/2.
func (w *world) inBudget(b *big.Int, level int) bool {
	lim := new(big.Int).Rsh(w.Q[level], 2)
	return b.Cmp(lim) < 0
}

// verifyNoise (env VERIF_C05_NOISE=1, development aid): additionally measure the true |w| with the independent
// phase oracle and check it against the model's bound. A failure is a defect of this harness' bound formulas
// (or an implementation that adds much more noise than any analysis allows), never a C05 verdict.
var verifyNoise = os.Getenv("VERIF_C05_NOISE") != ""

func (w *world) checkBound(r *reg) string {
	ph := uni.Phase(w.params.Parameters, r.ct.El(), w.sk)
	Q := w.Q[r.ct.Level()]
	t := w.tBig()
	max := new(big.Int)
	for _, x := range ph {
		v := ref.Center(new(big.Int).Mul(x, t), Q)
		v.Abs(v)
		if v.Cmp(max) > 0 {
			max = v
		}
	}
	if max.Cmp(r.bound) > 0 {
		return fmt.Sprintf("measured |t*phase| = 2^%d exceeds the model bound 2^%d (level %d, log Q = %d)", max.BitLen(), r.bound.BitLen(), r.level, Q.BitLen())
	}
	return ""
}
