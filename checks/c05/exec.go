package main

import (
	"fmt"
	"math"
	"math/big"

	"github.com/tuneinsight/lattigo/v6/core/rlwe"
	"github.com/tuneinsight/lattigo/v6/schemes/bgv"

	"verif/engine"
	"verif/lib/bgvu"
	"verif/ref"
	"verif/uni"
)

// machine is the state of one leaf: the registers (real + model) of a world.
type machine struct {
	w    *world
	ev   *bgv.Evaluator // evaluator under test (the world's, or one obtained from it: obtainedScenario)
	regs [nRegs]reg
	scen *scenState
	path string // instruction indices executed so far (memo key)
}

// scenState is per-scenario bookkeeping shared by the leaves of one scenario in one process.
type scenState struct {
	name     string
	okPrefix map[string]struct{} // prefixes whose value check already passed (not re-decrypted)
}

func newScenState(name string) *scenState {
	return &scenState{name: name, okPrefix: map[string]struct{}{}}
}

// reportedBySig: per worker process, signature -> set of leaves (scenario|path) that reported it.
var reportedBySig = map[string]map[string]int{}

const maxLeavesPerSig = 2

// fail reports a violation, but lets at most maxLeavesPerSig distinct leaves of a scenario report the same
// signature (per worker process; further leaves with the same first failure are duplicates of an already reported finding; they
// are counted as out of scope with an explicit reason instead of flooding the violation list, which would
// otherwise hit the engine's per-worker cap and could hide a *different* violation).
func (m *machine) fail(c *engine.Chooser, sig, format string, args ...interface{}) {
	set := reportedBySig[sig]
	if set == nil {
		set = map[string]int{}
		reportedBySig[sig] = set
	}
	key := m.scen.name + "|" + m.path
	if _, seen := set[key]; !seen && len(set) >= maxLeavesPerSig {
		c.Skip("duplicate of already reported finding " + sig)
		return
	}
	set[key]++
	c.Fail(sig, format, args...)
}

// softFail reports like fail but never ends or skips the leaf: duplicates beyond the cap are only counted.
func (m *machine) softFail(c *engine.Chooser, sig, format string, args ...interface{}) {
	set := reportedBySig[sig]
	if set == nil {
		set = map[string]int{}
		reportedBySig[sig] = set
	}
	key := m.scen.name + "|" + m.path
	if _, seen := set[key]; !seen && len(set) >= maxLeavesPerSig {
		c.Cover("soft-finding-duplicates", sig)
		return
	}
	set[key]++
	c.Fail(sig, format, args...)
}

// operand is the second operand of a binary instruction: the real value handed to the evaluator and its model.
type operand struct {
	real  rlwe.Operand
	isEl  bool
	deg   int
	level int
	scale uint64
	vals  []uint64
	bound *big.Int
	reg   int // register index for ciphertext operands, -1 otherwise
}

func (m *machine) otherReg(src int) int {
	if src == 0 {
		return 1
	}
	return 0
}

// buildOperand returns nil when the operand kind does not exist in the current state (plaintext below level 0).
func (m *machine) buildOperand(ins instr) *operand {
	w := m.w
	t := w.t
	op0 := &m.regs[ins.src]
	fromReg := func(i int) *operand {
		r := &m.regs[i]
		return &operand{real: r.ct, isEl: true, deg: r.deg, level: r.level, scale: r.scale, vals: r.vals, bound: r.bound, reg: i}
	}
	mkPt := func(level int, scale uint64) *operand {
		pt := bgv.NewPlaintext(w.params, level)
		pt.Scale = w.params.NewScale(scale)
		if err := w.ecd.Encode(w.vecs[5], pt); err != nil {
			panic(fmt.Sprintf("encode plaintext operand: %v", err))
		}
		return &operand{real: pt, isEl: true, deg: 0, level: level, scale: scale, vals: w.vecs[5], bound: w.tBig(), reg: -1}
	}
	scalar := func(real rlwe.Operand, x *big.Int) *operand {
		return &operand{real: real, vals: bgvu.VecConst(bgvu.BigToT(x, t), w.n), reg: -1, level: op0.level}
	}
	switch ins.kind {
	case kCtOther:
		return fromReg(m.otherReg(ins.src))
	case kCtSelf:
		return fromReg(ins.src)
	case kCtLow:
		return fromReg(2)
	case kCtDeg2:
		return fromReg(3)
	case kPtEq:
		return mkPt(op0.level, op0.scale)
	case kPtDiff:
		d := (2*(op0.scale%t) + 1) % t
		for d == 0 || d == op0.scale {
			d = (d + 1) % t
		}
		return mkPt(op0.level, d)
	case kPtLow:
		if op0.level == 0 {
			return nil
		}
		return mkPt(op0.level-1, op0.scale)
	case kPtHigh:
		if op0.level >= w.L {
			return nil
		}
		return mkPt(op0.level+1, op0.scale)
	case kBig:
		// a fresh *big.Int every time: the evaluator is known to normalise the caller's value in place
		// (DESIGN §10; that is C09's property), the model must not be corrupted by it.
		tB := new(big.Int).SetUint64(t)
		x := []*big.Int{big.NewInt(0), big.NewInt(1), big.NewInt(-1), new(big.Int).Sub(tB, big.NewInt(1)), tB, new(big.Int).Lsh(big.NewInt(1), 70),
			new(big.Int).SetUint64((t + 3) / 2), new(big.Int).Neg(new(big.Int).SetUint64((t - 1) / 2))}[ins.arg]
		return scalar(new(big.Int).Set(x), x)
	case kU64:
		v := u64Value(ins.arg, t)
		return scalar(v, new(big.Int).SetUint64(v))
	case kI64:
		v := i64Value(ins.arg, t)
		return scalar(v, big.NewInt(v))
	case kInt:
		v := intValue(ins.arg, t)
		return scalar(v, big.NewInt(int64(v)))
	case kVecU:
		var v []uint64
		switch ins.arg {
		case 0:
			v = []uint64{2, 3, 5}
		case 1:
			v = append([]uint64(nil), w.vecs[6]...)
		default:
			v = []uint64{t, t + 1, 1 << 63, math.MaxUint64, t - 1}
		}
		return &operand{real: v, vals: bgvu.PadModU(v, w.n, t), reg: -1, level: op0.level, scale: 1}
	case kVecI:
		var v []int64
		switch ins.arg {
		case 0:
			v = []int64{-2, 3, -5}
		case 1:
			v = make([]int64, w.n)
			for i, x := range w.vecs[7] {
				v[i] = bgvu.Centered(x, t)
			}
		default:
			v = []int64{-1, math.MinInt64, math.MaxInt64, -int64(t) - 1, -int64((t - 1) / 2)}
		}
		return &operand{real: v, vals: bgvu.PadModI(v, w.n, t), reg: -1, level: op0.level, scale: 1}
	}
	panic("unknown operand kind")
}

// expectation is what the documentation promises for one instruction in the current model state.
type expectation struct {
	mustErr   bool // no result is defined (documented failure condition): the call must be refused
	mayErr    bool // the documentation announces an error but a correct result is defined: both are accepted
	deg       int
	level     int
	scale     uint64
	scaleFree bool // the resulting scale is not documented (scale matching): any unit of Z_t is accepted
	vals      []uint64
	bound     *big.Int
	why       string
}

func minInt(a ...int) int {
	r := a[0]
	for _, x := range a[1:] {
		if x < r {
			r = x
		}
	}
	return r
}

func maxInt(a, b int) int {
	if a > b {
		return a
	}
	return b
}

// negQInv returns (-Q_level mod t)^-1 mod t.
func (w *world) negQInv(level int) uint64 {
	q := ref.ModU(w.Q[level], w.t)
	return ref.InvMod(ref.NegMod(q, w.t), w.t)
}

// expectBinary: Add, Sub, Mul*, Mul*ThenAdd with operand o; acc is the accumulator for the ThenAdd forms.
func (m *machine) expectBinary(ins instr, o *operand, acc *reg) expectation {
	w := m.w
	t := w.t
	a := &m.regs[ins.src]
	tB := w.tBig()
	var e expectation
	switch ins.op {
	case opAdd, opSub:
		f := bgvu.VecAdd
		if ins.op == opSub {
			f = bgvu.VecSub
		}
		e.vals = f(a.vals, o.vals, t)
		if o.isEl {
			e.deg, e.level = maxInt(a.deg, o.deg), minInt(a.level, o.level)
			if a.scale == o.scale {
				e.scale, e.bound = a.scale, bAdd(a.bound, o.bound)
			} else {
				e.scaleFree, e.bound = true, bMul(tB, bAdd(a.bound, o.bound))
			}
		} else {
			e.deg, e.level, e.scale, e.bound = a.deg, a.level, a.scale, bAdd(a.bound, tB)
		}
		return e
	}

	// products ------------------------------------------------------------------------------
	relin := ins.op == opMulRelin || ins.op == opMulRelinSI || ins.op == opMulRelinThenAdd
	si := ins.op == opMulSI || ins.op == opMulRelinSI || (w.cf.si && (ins.op == opMul || ins.op == opMulRelin))
	var pv []uint64 = bgvu.VecMul(a.vals, o.vals, t)
	var pdeg, plevel int
	var pscale uint64
	var pbound *big.Int
	switch {
	case o.isEl && o.deg >= 1:
		if a.deg+o.deg > 2 {
			return expectation{mustErr: true, why: "total operand degree > 2"}
		}
		plevel = minInt(a.level, o.level)
		if ins.op.thenAdd() {
			plevel = minInt(plevel, acc.level)
		}
		pdeg = 2
		pscale = ref.MulMod(a.scale, o.scale, t)
		if si {
			pscale = ref.MulMod(pscale, w.negQInv(plevel), t)
			pbound = w.siBound(a.bound, o.bound, plevel)
		} else {
			pbound = w.tensorBound(a.bound, o.bound)
		}
		if relin {
			pdeg = 1
			pbound = bAdd(pbound, w.relinTerm(plevel))
		}
	case o.isEl: // plaintext
		plevel, pdeg = minInt(a.level, o.level), a.deg
		pscale = ref.MulMod(a.scale, o.scale, t)
		pbound = w.tensorBound(a.bound, o.bound)
		e.mayErr = a.deg > 1
	case ins.kind.isVec():
		plevel, pdeg, pscale = a.level, a.deg, a.scale
		pbound = w.tensorBound(a.bound, tB)
		e.mayErr = a.deg > 1
	default: // scalar
		plevel, pdeg, pscale = a.level, a.deg, a.scale
		pbound = bMul(a.bound, bAdd(new(big.Int).Rsh(tB, 1), big.NewInt(1)))
		e.mayErr = a.deg > 1
	}
	if e.mayErr {
		e.why = "op0 of degree 2 (the doc comment announces an error for degrees above 1)"
	}
	if !ins.op.thenAdd() {
		e.vals, e.deg, e.level, e.scale, e.bound = pv, pdeg, plevel, pscale, pbound
		return e
	}
	// accumulate on acc -----------------------------------------------------------------------
	if ins.dst == dAccOp0 {
		e.mayErr = true
		e.why = "opOut == op0 (documented to be refused)"
	}
	e.vals = bgvu.VecAdd(acc.vals, pv, t)
	e.deg = maxInt(acc.deg, pdeg)
	e.level = minInt(plevel, acc.level)
	if o.isEl {
		if acc.scale == pscale {
			e.scale, e.bound = acc.scale, bAdd(acc.bound, pbound)
		} else {
			e.scaleFree = true
			e.bound = bAdd(bMul(tB, bAdd(acc.bound, pbound)), w.relinTerm(e.level))
		}
	} else {
		// scalar / vector operands are re-scaled by opOut.Scale/op0.Scale: the accumulator's scale is kept
		e.scale, e.bound = acc.scale, bAdd(acc.bound, pbound)
	}
	return e
}

// accRegs returns the registers that can serve as accumulator (different from op0 and op1), ascending.
func accRegs(src, opReg int) []int {
	var r []int
	for i := 0; i < nRegs; i++ {
		if i != src && i != opReg {
			r = append(r, i)
		}
	}
	return r
}

type callResult struct {
	out *rlwe.Ciphertext
	err error
}

// step executes one instruction on the real evaluator and on the model and compares. It returns false when
// the leaf ends here (refused instruction, violation, out of scope).
func (m *machine) step(c *engine.Chooser, idx int, ins instr, last bool) bool {
	w := m.w
	t := w.t
	ev := m.ev
	m.path += fmt.Sprintf("%d.", idx)
	a := &m.regs[ins.src]
	class := ins.kind.String()
	sigBase := sigBaseOf(ins)
	c.Cover("op", ins.op.String())
	c.Cover("operand", class)
	c.Cover("dst", ins.dst.String())
	if ins.kind != kNone && variants(ins.kind) > 1 {
		c.Cover("value", fmt.Sprintf("%s#%d", class, ins.arg))
	}
	c.Note("%s  [op0: deg=%d level=%d scale=%d]", ins, a.deg, a.level, a.scale)

	var exp expectation
	var dstRegs []int // registers written by the instruction
	var call func() callResult

	switch {
	case ins.op.binary():
		o := m.buildOperand(ins)
		if o == nil {
			c.Skip("instruction not applicable in this state (plaintext below level 0 / above the top level)")
			return false
		}
		var acc *reg
		accIdx := -1
		if ins.op.thenAdd() {
			switch ins.dst {
			case dAccOp0:
				accIdx = ins.src
			default:
				cands := accRegs(ins.src, o.reg)
				accIdx = cands[0]
				if ins.dst == dAccB && len(cands) > 1 {
					accIdx = cands[1]
				}
			}
			acc = &m.regs[accIdx]
			dstRegs = []int{accIdx}
			c.Note("   accumulator r%d: deg=%d level=%d scale=%d", accIdx, acc.deg, acc.level, acc.scale)
		} else {
			dstRegs = []int{ins.src}
		}
		exp = m.expectBinary(ins, o, acc)
		if ins.op == opSub && o.isEl && o.deg > a.deg {
			sigBase = "C05/Sub/op1-degree-higher"
		}
		if o.isEl {
			c.Note("   operand: deg=%d level=%d scale=%d", o.deg, o.level, o.scale)
			if o.scale != a.scale {
				c.Cover("scales", "mismatched")
			} else {
				c.Cover("scales", "equal")
			}
			if o.level != a.level {
				c.Cover("levels", "different")
			} else {
				c.Cover("levels", "equal")
			}
		}
		call = func() callResult {
			switch ins.dst {
			case dNew:
				var out *rlwe.Ciphertext
				var err error
				switch ins.op {
				case opAdd:
					out, err = ev.AddNew(a.ct, o.real)
				case opSub:
					out, err = ev.SubNew(a.ct, o.real)
				case opMul:
					out, err = ev.MulNew(a.ct, o.real)
				case opMulRelin:
					out, err = ev.MulRelinNew(a.ct, o.real)
				case opMulSI:
					out, err = ev.MulScaleInvariantNew(a.ct, o.real)
				case opMulRelinSI:
					out, err = ev.MulRelinScaleInvariantNew(a.ct, o.real)
				}
				return callResult{out, err}
			default:
				var out *rlwe.Ciphertext
				switch ins.dst {
				case dFresh:
					// zero ciphertext of the documented shape; when nothing is defined (mustErr) any shape will do
					d, l := exp.deg, exp.level
					if exp.mustErr {
						d, l = 1, a.level
					}
					out = bgv.NewCiphertext(w.params, d, l)
				case dInPlace:
					out = a.ct
				case dStale:
					d := 2
					if (ins.op == opAdd || ins.op == opSub) && o.isEl && !exp.mustErr {
						d = exp.deg
					}
					out = m.staleReceiver(d)
				default:
					out = acc.ct
				}
				var err error
				switch ins.op {
				case opAdd:
					err = ev.Add(a.ct, o.real, out)
				case opSub:
					err = ev.Sub(a.ct, o.real, out)
				case opMul:
					err = ev.Mul(a.ct, o.real, out)
				case opMulRelin:
					err = ev.MulRelin(a.ct, o.real, out)
				case opMulSI:
					err = ev.MulScaleInvariant(a.ct, o.real, out)
				case opMulRelinSI:
					err = ev.MulRelinScaleInvariant(a.ct, o.real, out)
				case opMulThenAdd:
					err = ev.MulThenAdd(a.ct, o.real, out)
				case opMulRelinThenAdd:
					err = ev.MulRelinThenAdd(a.ct, o.real, out)
				}
				return callResult{out, err}
			}
		}

	case ins.op == opRescale:
		dstRegs = []int{ins.src}
		if w.cf.si {
			// documented: "if the evaluator has been instantiated as scale-invariant (BFV-style), then Rescale is a nop"
			out := a.ct
			if ins.dst == dFresh || ins.dst == dStale {
				out = bgv.NewCiphertext(w.params, a.deg, a.level)
			}
			var err error
			_, pan := uni.Try(func() error { err = ev.Rescale(a.ct, out); return nil })
			if pan != nil {
				m.fail(c, sigBase+"/panic", "Rescale (scale-invariant evaluator) panicked: %v", pan)
				return false
			}
			if err != nil {
				m.fail(c, sigBase+"/unexpected-error", "Rescale on a scale-invariant evaluator is documented as a nop but returned: %v", err)
				return false
			}
			if ins.dst == dFresh || ins.dst == dStale {
				for _, p := range out.Value {
					for _, row := range p.Coeffs {
						for _, x := range row {
							if x != 0 {
								m.fail(c, sigBase+"/nop-wrote-output", "Rescale on a scale-invariant evaluator wrote to opOut")
								return false
							}
						}
					}
				}
			}
			c.Cover("rescale", "nop-bfv")
			exp = expectation{deg: a.deg, level: a.level, scale: a.scale, vals: a.vals, bound: a.bound}
			call = func() callResult { return callResult{a.ct, nil} }
			break
		}
		if a.level == 0 {
			exp = expectation{mustErr: true, why: "rescale at level 0"}
		} else {
			q := w.qs[a.level]
			exp = expectation{deg: a.deg, level: a.level - 1, scale: ref.MulMod(a.scale, ref.InvMod(q%t, t), t), vals: a.vals,
				bound: w.rescaleBound(a.bound, q)}
		}
		call = func() callResult {
			out := a.ct
			if ins.dst == dFresh {
				out = bgv.NewCiphertext(w.params, a.deg, maxInt(a.level-1, 0))
			} else if ins.dst == dStale {
				out = m.staleReceiver(a.deg)
			}
			return callResult{out, ev.Rescale(a.ct, out)}
		}

	case ins.op == opDropLevel:
		if a.level == 0 {
			c.Skip("instruction not applicable in this state (DropLevel at level 0)")
			return false
		}
		dstRegs = []int{ins.src}
		exp = expectation{deg: a.deg, level: a.level - 1, scale: a.scale, vals: a.vals, bound: a.bound}
		call = func() callResult { ev.DropLevel(a.ct, 1); return callResult{a.ct, nil} }

	case ins.op == opRelinearize:
		dstRegs = []int{ins.src}
		if a.deg != 2 {
			exp = expectation{mustErr: true, why: "relinearize a ciphertext of degree != 2"}
		} else {
			exp = expectation{deg: 1, level: a.level, scale: a.scale, vals: a.vals, bound: bAdd(a.bound, w.relinTerm(a.level))}
		}
		call = func() callResult {
			switch ins.dst {
			case dNew:
				out, err := ev.RelinearizeNew(a.ct)
				return callResult{out, err}
			case dFresh:
				out := bgv.NewCiphertext(w.params, 1, a.level)
				return callResult{out, ev.Relinearize(a.ct, out)}
			case dStale:
				out := m.staleReceiver(2)
				return callResult{out, ev.Relinearize(a.ct, out)}
			}
			return callResult{a.ct, ev.Relinearize(a.ct, a.ct)}
		}

	case ins.op == opMatchScales:
		return m.stepMatchScales(c, ins, sigBase, last)
	}

	// ---- run ------------------------------------------------------------------------------------
	var res callResult
	_, pan := uni.Try(func() error { res = call(); return nil })
	if pan != nil {
		m.fail(c, sigBase+"/panic", "%s panicked: %v", ins, pan)
		return false
	}
	if res.err != nil {
		if exp.mustErr || exp.mayErr {
			c.Cover("rejected", ins.op.String()+": "+exp.why)
			c.Outcome("rejected", ins.op.String(), exp.why)
			return false // executed once, not extended
		}
		m.fail(c, sigBase+"/unexpected-error", "%s returned an error on admissible operands: %v", ins, res.err)
		return false
	}
	if exp.mustErr {
		m.fail(c, sigBase+"/no-error", "%s: %s must be reported as an error, the call returned nil", ins, exp.why)
		return false
	}
	if exp.mayErr {
		c.Cover("accepted-despite-doc", ins.op.String()+": "+exp.why)
	}
	out := res.out
	if out == nil {
		m.fail(c, sigBase+"/nil-result", "%s returned a nil ciphertext without error", ins)
		return false
	}
	// ---- metadata ---------------------------------------------------------------------------------
	if out.Degree() != exp.deg {
		m.fail(c, sigBase+"/degree", "%s: output degree %d, documented %d", ins, out.Degree(), exp.deg)
		return false
	}
	if out.Level() != exp.level {
		m.fail(c, sigBase+"/level", "%s: output level %d, documented %d", ins, out.Level(), exp.level)
		return false
	}
	for i := range out.Value {
		if out.Value[i].Level() != exp.level {
			m.fail(c, sigBase+"/level", "%s: component %d of the output has level %d, ciphertext level %d", ins, i, out.Value[i].Level(), exp.level)
			return false
		}
	}
	gotScale := out.Scale.Uint64()
	if out.Scale.Value.IsInt() == false || gotScale >= t || gotScale == 0 {
		m.fail(c, sigBase+"/scale", "%s: recorded scale %s is not a unit of Z_t", ins, out.Scale.Value.String())
		return false
	}
	if !exp.scaleFree && gotScale != exp.scale {
		// A wrong recorded scale can be repaired by the harness (the ciphertext itself may still be right), so
		// this failure is "soft": it is reported (at most maxLeavesPerSig leaves per worker), the documented
		// scale is written on the output and the leaf goes on checking the value and the rest of the program.
		// That way a scale-bookkeeping finding does not mask value defects of the same instructions.
		m.softFail(c, sigBase+"/scale", "%s: recorded scale %d, documented %d (op0 scale %d)", ins, gotScale, exp.scale, a.scale)
		out.Scale = w.params.NewScale(exp.scale)
		gotScale = exp.scale
	}
	if !out.IsNTT || !out.IsBatched {
		m.fail(c, sigBase+"/flags", "%s: output IsNTT=%v IsBatched=%v", ins, out.IsNTT, out.IsBatched)
		return false
	}
	// ---- noise budget -----------------------------------------------------------------------------
	if !w.inBudget(exp.bound, exp.level) {
		c.Skip("noise budget")
		c.Cover("budget", "exceeded")
		return false
	}
	// ---- commit to the model, value oracle --------------------------------------------------------
	r := &m.regs[dstRegs[0]]
	r.ct, r.vals, r.level, r.deg, r.scale, r.bound = out, exp.vals, exp.level, exp.deg, gotScale, exp.bound
	return m.verify(c, ins, sigBase, dstRegs, last)
}

// verify decrypts the written registers, decodes with the recorded scale and compares with the model.
func (m *machine) verify(c *engine.Chooser, ins instr, sigBase string, dstRegs []int, last bool) bool {
	w := m.w
	if _, done := m.scen.okPrefix[m.path]; !done {
		for _, ri := range dstRegs {
			r := &m.regs[ri]
			got := w.decode(r.ct)
			if !bgvu.VecEq(got, r.vals) {
				k := 0
				for k < len(got) && got[k] == r.vals[k] {
					k++
				}
				c.Note("   decoded %v", got)
				c.Note("   model   %v", r.vals)
				m.fail(c, sigBase+"/value", "%s: decrypt+decode (scale %d, level %d, degree %d) differs from the model in slot %d: got %d want %d",
					ins, r.scale, r.level, r.deg, k, got[k], r.vals[k])
				return false
			}
			if verifyNoise {
				if msg := w.checkBound(r); msg != "" {
					c.Fail("HARNESS/C05/noise-bound", "%s: %s", ins, msg)
					return false
				}
			}
			c.Outcome(ins.op.String(), ins.kind.String(), got, r.level, r.deg, r.scale)
		}
		m.scen.okPrefix[m.path] = struct{}{}
	}
	st := []interface{}{w.cf.name()}
	for i := range m.regs {
		st = append(st, m.regs[i].vals, m.regs[i].level, m.regs[i].deg, m.regs[i].scale)
	}
	c.State(st...)
	c.Count(1)
	return true
}

func (m *machine) stepMatchScales(c *engine.Chooser, ins instr, sigBase string, last bool) bool {
	w := m.w
	t := w.t
	a := &m.regs[ins.src]
	pi := m.otherReg(ins.src)
	if ins.dst == dPartner2 {
		pi = 2
	}
	if ins.dst == dPartner3 {
		pi = 3
	}
	if pi == ins.src {
		pi = m.otherReg(ins.src)
	}
	b := &m.regs[pi]
	c.Note("   partner r%d: deg=%d level=%d scale=%d", pi, b.deg, b.level, b.scale)
	_, pan := uni.Try(func() error { m.ev.MatchScalesAndLevel(a.ct, b.ct); return nil })
	if pan != nil {
		m.fail(c, sigBase+"/panic", "%s panicked: %v", ins, pan)
		return false
	}
	lvl := minInt(a.level, b.level)
	for _, r := range []*reg{a, b} {
		if r.ct.Level() != lvl {
			m.fail(c, sigBase+"/level", "%s: level %d after matching, documented min(%d,%d)", ins, r.ct.Level(), a.level, b.level)
			return false
		}
		if r.ct.Degree() != r.deg {
			m.fail(c, sigBase+"/degree", "%s: degree changed from %d to %d", ins, r.deg, r.ct.Degree())
			return false
		}
	}
	sa, sb := a.ct.Scale.Uint64(), b.ct.Scale.Uint64()
	if sa != sb || sa == 0 || sa >= t {
		m.fail(c, sigBase+"/scale", "%s: scales after matching are %d and %d (before: %d and %d)", ins, sa, sb, a.scale, b.scale)
		return false
	}
	tB := w.tBig()
	for _, r := range []*reg{a, b} {
		r.level, r.scale, r.bound = lvl, sa, bMul(r.bound, tB)
	}
	if !w.inBudget(a.bound, lvl) || !w.inBudget(b.bound, lvl) {
		c.Skip("noise budget")
		c.Cover("budget", "exceeded")
		return false
	}
	return m.verify(c, ins, sigBase, []int{ins.src, pi}, last)
}

// staleReceiver returns a distinct ciphertext of the given degree at the top level, filled with deterministic
// non-zero residues and carrying a foreign scale: a receiver that has been used for something else before.
func (m *machine) staleReceiver(deg int) *rlwe.Ciphertext {
	w := m.w
	ct := bgv.NewCiphertext(w.params, deg, w.L)
	for k := range ct.Value {
		for i, row := range ct.Value[k].Coeffs {
			q := w.qs[i]
			for j := range row {
				row[j] = (0x9E3779B97F4A7C15*uint64(1+j+1000*i+77777*k) + 12345) % q
			}
		}
	}
	ct.Scale = w.params.NewScale(5 % w.t)
	return ct
}

// sigBaseOf maps an instruction to the stable part of a violation signature: opcode group / operand class.
// Groups follow the code paths announced by the doc comments (scalars of every integer type are one operand
// class; Sub with a scalar is Add of the negation; MulRelin* with a non-ciphertext operand is Mul*; the
// *ThenAdd forms share one implementation for non-element operands), so that one defect yields one signature.
func sigBaseOf(ins instr) string {
	class := ""
	switch {
	case ins.kind.isCt():
		class = "ct"
	case ins.kind.isPt():
		class = "pt"
	case ins.kind.isScalar():
		class = "scalar"
	case ins.kind.isVec():
		class = "vector"
	default:
		return "C05/" + ins.op.String()
	}
	op := ins.op.String()
	if class == "scalar" || class == "vector" {
		switch ins.op {
		case opAdd, opSub:
			if class == "scalar" {
				op = "Add|Sub"
			}
		case opMul, opMulRelin, opMulSI, opMulRelinSI:
			op = "Mul*"
		case opMulThenAdd, opMulRelinThenAdd:
			op = "Mul*ThenAdd"
		}
	}
	return "C05/" + op + "/" + class
}
