// C17 environment seam: the harness's own sampling.PRNG (an io.Reader) whose bytes are decided by the harness,
// plus decoding helpers shared by the sampler oracles.
package main

import (
	"encoding/binary"
	"fmt"
	"math/big"

	"github.com/tuneinsight/lattigo/v6/ring"

	"verif/ref"
)

// stream is a deterministic, random-access byte stream: an explicit prefix (enumerated answers) followed by a
// background that is a fixed function of the offset (so two readers of the same stream see the same bytes).
type stream struct {
	prefix []byte
	bgSeed uint64
	// slot, when non-nil, defines the background 8 bytes of slot g = offset/8 instead of the hash background.
	slot func(g uint64) uint64
}

func splitmix(x uint64) uint64 {
	x += 0x9E3779B97F4A7C15
	x = (x ^ (x >> 30)) * 0xBF58476D1CE4E5B9
	x = (x ^ (x >> 27)) * 0x94D049BB133111EB
	return x ^ (x >> 31)
}

func (s *stream) at(off int64) byte {
	if off < int64(len(s.prefix)) {
		return s.prefix[off]
	}
	g := uint64(off) / 8
	var w uint64
	if s.slot != nil {
		w = s.slot(g)
	} else {
		w = splitmix(g ^ s.bgSeed*0xD6E8FEB86659FD93)
	}
	return byte(w >> (8 * (uint64(off) % 8))) // little-endian within the slot
}

// scriptPRNG reads a stream sequentially and keeps accounts of what the sampler asked for.
type scriptPRNG struct {
	s     *stream
	off   int64
	calls []int // size of every Read call
}

func newPRNG(s *stream) *scriptPRNG { return &scriptPRNG{s: s} }

func (p *scriptPRNG) Read(b []byte) (int, error) {
	for i := range b {
		b[i] = p.s.at(p.off + int64(i))
	}
	p.off += int64(len(b))
	p.calls = append(p.calls, len(b))
	return len(b), nil
}

// le64 / be64 build 8-byte slots.
func le64(w uint64) []byte { b := make([]byte, 8); binary.LittleEndian.PutUint64(b, w); return b }
func be64(w uint64) []byte { b := make([]byte, 8); binary.BigEndian.PutUint64(b, w); return b }
func be32(w uint32) []byte { b := make([]byte, 4); binary.BigEndian.PutUint32(b, w); return b }

// ---------------------------------------------------------------------------------------------
// rings

const N = 16

type chainT struct {
	name string
	mod  []uint64
}

// ringOf returns the (read-only, cached) ring of degree N over mod. Samplers never write to the ring.
func ringOf(mod []uint64) *ring.Ring {
	k := fmt.Sprint(mod)
	if r, ok := ringCache[k]; ok {
		return r
	}
	r, err := ring.NewRing(N, mod)
	if err != nil {
		panic("c17: NewRing: " + err.Error())
	}
	ringCache[k] = r
	return r
}

var ringCache = map[string]*ring.Ring{}

func tinyChain() chainT { return chainT{"tiny", ref.SmallestPrimes(2*N, 3)} } // 97 193 257
func mixedChain() chainT {
	return chainT{"mixed", []uint64{ref.PrimesNear(1<<60, 2*N, 1, true)[0], ref.PrimesNear(1<<30, 2*N, 1, true)[0], ref.PrimesNear(1<<45, 2*N, 1, true)[0]}}
}
func bigChain() chainT { return chainT{"big61", ref.PrimesNear(1<<61, 2*N, 3, true)} }
func pChain() []uint64 { return ref.PrimesNear(1<<36, 2*N, 2, false) }

// ---------------------------------------------------------------------------------------------
// decoding

// decode returns the integer represented by coefficient j of rows (levels 0..level), or ok=false if the residues
// are not those of ONE integer of absolute value <= maxAbs. Residues are reduced first (the Gaussian sampler emits
// q_i for -0; ReadAndAdd may leave unreduced words: the property is about the represented value). mont: rows are in
// Montgomery form.
func decode(r *ring.Ring, rows [][]uint64, level, j int, mont bool, maxAbs *big.Int) (v *big.Int, ok bool) {
	mod := r.ModuliChain()[:level+1]
	res := make([]uint64, level+1)
	for i, q := range mod {
		x := rows[i][j] % q
		if mont {
			x = ref.MulMod(x, ref.InvMod(ref.Pow2Mod(64, q), q), q)
		}
		res[i] = x
	}
	// candidate from the first modulus that is large enough to hold maxAbs, else from CRT
	Q := ref.Prod(mod)
	v = ref.Center(ref.CRT(res, mod), Q)
	if new(big.Int).Abs(v).Cmp(maxAbs) > 0 {
		return v, false
	}
	return v, true
}

// decodeSmall decodes with the candidate taken from each single modulus (for tiny moduli where |v| < q_i/2 for all i):
// all moduli must agree on the same centred value.
func decodeSmall(r *ring.Ring, rows [][]uint64, level, j int, mont bool) (v int64, ok bool) {
	mod := r.ModuliChain()[:level+1]
	for i, q := range mod {
		x := rows[i][j] % q
		if mont {
			x = ref.MulMod(x, ref.InvMod(ref.Pow2Mod(64, q), q), q)
		}
		c := int64(x)
		if x > q/2 {
			c = int64(x) - int64(q)
		}
		if i == 0 {
			v = c
		} else if c != v {
			return v, false
		}
	}
	return v, true
}

func rampPoly(r *ring.Ring, level int, mont bool) ring.Poly {
	p := r.AtLevel(level).NewPoly()
	for i, q := range r.ModuliChain()[:level+1] {
		for j := 0; j < N; j++ {
			p.Coeffs[i][j] = (uint64(7*j+3) * 0x9E3779B97F4A7C15) % q
		}
	}
	_ = mont
	return p
}

func polyEq(a, b ring.Poly, level int) bool {
	for i := 0; i <= level; i++ {
		for j := range a.Coeffs[i] {
			if a.Coeffs[i][j] != b.Coeffs[i][j] {
				return false
			}
		}
	}
	return true
}

// polyCongruentSum reports whether got ≡ base + add (mod q_i) on levels 0..level.
func polyCongruentSum(r *ring.Ring, got, base, add ring.Poly, level int) (bool, string) {
	for i, q := range r.ModuliChain()[:level+1] {
		for j := 0; j < N; j++ {
			if got.Coeffs[i][j]%q != ref.AddMod(base.Coeffs[i][j], add.Coeffs[i][j], q) {
				return false, fmt.Sprintf("level %d coefficient %d: got %d, base %d + sample %d mod %d", i, j, got.Coeffs[i][j]%q, base.Coeffs[i][j]%q, add.Coeffs[i][j]%q, q)
			}
		}
	}
	return true, ""
}

func hashPoly(p ring.Poly, level int) uint64 {
	h := uint64(1469598103934665603)
	for i := 0; i <= level && i < len(p.Coeffs); i++ {
		for _, x := range p.Coeffs[i] {
			h = (h ^ x) * 1099511628211
		}
	}
	return h
}

// mformPoly returns x·2^64 mod q_i of every (reduced) coefficient: the Montgomery form of a plain polynomial, computed
// with division-based arithmetic. Used to compare a Montgomery-output sampler with a plain-output sampler fed the same bytes.
func mformPoly(r *ring.Ring, p ring.Poly, level int) ring.Poly {
	out := r.AtLevel(level).NewPoly()
	for i, q := range r.ModuliChain()[:level+1] {
		R := ref.Pow2Mod(64, q)
		for j := 0; j < N; j++ {
			out.Coeffs[i][j] = ref.MulMod(p.Coeffs[i][j]%q, R, q)
		}
	}
	return out
}

// polyCongruent reports whether a ≡ b (mod q_i) on levels 0..level.
func polyCongruent(r *ring.Ring, a, b ring.Poly, level int) (bool, string) {
	for i, q := range r.ModuliChain()[:level+1] {
		for j := 0; j < N; j++ {
			if a.Coeffs[i][j]%q != b.Coeffs[i][j]%q {
				return false, fmt.Sprintf("level %d coefficient %d: %d vs %d (mod %d)", i, j, a.Coeffs[i][j]%q, b.Coeffs[i][j]%q, q)
			}
		}
	}
	return true, ""
}
