// Uniform samplers (ring.UniformSampler, ringqp.UniformSampler, multiparty SampleCRP) against a bit-exact
// specification sampler stepped on the same byte stream.
//
// Specification (refUniform): the random source is consumed through a 1024-byte buffer, 8 bytes (big endian) per
// candidate; a candidate is masked to the bit length of q_i-1 and accepted iff < q_i (rejection sampling => uniform
// on [0,q_i)); moduli in order, coefficients in order; all level views of one sampler share buffer and position.
// This is where the property talks about bit-reproducibility ("same key + same sequence of calls => bit-identical"),
// so a bit-exact model is appropriate (DESIGN §2 refsampler).
package main

import (
	"encoding/binary"
	"fmt"
	"io"
	"math/bits"

	"github.com/tuneinsight/lattigo/v6/ring"
	"github.com/tuneinsight/lattigo/v6/ring/ringqp"

	"verif/engine"
	"verif/ref"
)

type refUniform struct {
	src  io.Reader
	buf  [1024]byte
	ptr  int
	used bool
}

// sample returns the next polynomial at `level` over moduli mod (ring degree N).
func (u *refUniform) sample(mod []uint64, level int) [][]uint64 { return u.sampleN(mod, level, N) }

// sampleN is sample for a ring of degree n: the refill buffer stays 1024 bytes whatever the ring degree.
func (u *refUniform) sampleN(mod []uint64, level int, N int) [][]uint64 {
	if !u.used || u.ptr == len(u.buf) {
		u.src.Read(u.buf[:])
		u.ptr = 0
		u.used = true
	}
	out := make([][]uint64, level+1)
	for j := 0; j <= level; j++ {
		q := mod[j]
		mask := uint64(1)<<uint(bits.Len64(q-1)) - 1
		out[j] = make([]uint64, N)
		for i := 0; i < N; i++ {
			for {
				if u.ptr == len(u.buf) {
					u.src.Read(u.buf[:])
					u.ptr = 0
				}
				w := binary.BigEndian.Uint64(u.buf[u.ptr:]) & mask
				u.ptr += 8
				if w < q {
					out[j][i] = w
					break
				}
			}
		}
	}
	return out
}

func rowsEqual(got [][]uint64, want [][]uint64, level int) (bool, string) {
	for i := 0; i <= level; i++ {
		for j := 0; j < N; j++ {
			if got[i][j] != want[i][j] {
				return false, fmt.Sprintf("level %d coefficient %d: %d, specification sampler %d", i, j, got[i][j], want[i][j])
			}
		}
	}
	return true, ""
}

// ---------------------------------------------------------------------------------------------
// boundary answers of the environment

// uniformAnswersScenario: one window of the byte stream is an enumerated answer: k rejected candidates of a given
// kind, then an accepted candidate of a given kind, placed at a chosen candidate index (incl. the last candidate of
// the first 1024-byte buffer, so that the retry crosses the refill).
func uniformAnswersScenario(ch chainT) engine.Scenario {
	name := "uniform/answers/" + ch.name
	return engine.Scenario{Name: name, Bound: -1, Fn: func(c *engine.Chooser) {
		mod := ch.mod
		L := len(mod) - 1
		level := c.Choose(L+1, "level")
		// the window starts at candidate index pos of the stream; row/coeff it lands on follows from the background
		pos := []int{0, 1, N, 127, 128, (level+1)*N - 1}[c.Choose(6, "window-at-candidate")]
		k := c.Choose(4, "rejections")
		rejKind := c.Choose(3, "reject-kind")
		accKind := c.Choose(5, "accept-kind")
		// which modulus governs candidate `pos` depends on earlier rejections; the answers are expressed for the
		// modulus of the row the window most likely lands on and remain valid answers whatever row it is
		row := pos / N
		if row > level {
			row = level
		}
		q := mod[row]
		mask := uint64(1)<<uint(bits.Len64(q-1)) - 1
		rej := []uint64{q, mask, q + (mask-q)/2}[rejKind] // all in [q, mask]
		acc := []uint64{0, q - 1, q / 2, 1, (q - 1) | ^mask}[accKind]
		hi := ^mask // bits above the mask must be ignored
		pre := make([]byte, 0, 8*(pos+k+1))
		bg := &stream{bgSeed: 17}
		for i := 0; i < 8*pos; i++ {
			pre = append(pre, bg.at(int64(i)))
		}
		for i := 0; i < k; i++ {
			pre = append(pre, be64(rej|hi)...)
		}
		pre = append(pre, be64(acc|hi)...)
		st := &stream{prefix: pre, bgSeed: 17}

		r := ringOf(mod)
		envA, envM := newPRNG(st), newPRNG(st)
		s := ring.NewUniformSampler(envA, r)
		var smp ring.Sampler = s
		if level != L {
			smp = s.AtLevel(level)
		}
		model := &refUniform{src: envM}
		// enough consecutive reads to walk past the window and past the first refill of the 1024-byte buffer
		reads := 1 + (pos+k+140)/((level+1)*N)
		var pol ring.Poly
		for rd := 0; rd < reads; rd++ {
			pol = r.AtLevel(level).NewPoly()
			smp.Read(pol)
			want := model.sample(mod, level)
			for i, q := range mod[:level+1] {
				for j := 0; j < N; j++ {
					if pol.Coeffs[i][j] >= q {
						c.Fail("C17/uniform/Read/out-of-range", "%s level %d coefficient %d = %d >= q=%d", ch.name, i, j, pol.Coeffs[i][j], q)
						return
					}
				}
			}
			if ok, why := rowsEqual(pol.Coeffs, want, level); !ok {
				c.Fail("C17/uniform/Read/differs-from-specification-sampler", "%s level=%d window@%d k=%d read %d: %s", ch.name, level, pos, k, rd, why)
				return
			}
			if envA.off != envM.off {
				c.Fail("C17/uniform/Read/bytes-consumed", "sampler consumed %d bytes of the source, specification %d", envA.off, envM.off)
				return
			}
			c.State("uniform", envA.off, model.ptr)
		}
		c.Count(reads)
		c.Cover("uniform-answers", ch.name)
		c.Cover("uniform-rejections", fmt.Sprint(k))
		if envA.off > 1024 {
			c.Cover("uniform-refill", "second-buffer")
		}
		c.Outcome(name, hashPoly(pol, level))
	}}
}

// ---------------------------------------------------------------------------------------------
// operation sequences over level views sharing one source

var uniOps = []string{"Read", "ReadNew", "ReadAndAdd(ramp)", "AtLevel(0).Read", "AtLevel(1).ReadAndAdd(ramp)", "AtLevel(1).ReadNew", "new AtLevel(0) view.Read", "AtLevel(0).AtLevel(2).Read"}

func uniformSequenceScenario(ch chainT, depth int, first int) engine.Scenario {
	name := fmt.Sprintf("uniform/sequences/%s/first=%s", ch.name, uniOps[first])
	return engine.Scenario{Name: name, Bound: -1, Fn: func(c *engine.Chooser) {
		mod := ch.mod
		L := len(mod) - 1
		r := ringOf(mod)
		st := &stream{bgSeed: 99}
		envA, envM := newPRNG(st), newPRNG(st)
		base := ring.NewUniformSampler(envA, r)
		v0 := base.AtLevel(0)
		v1 := base.AtLevel(1)
		model := &refUniform{src: envM}
		n := 1 + c.Choose(depth, "length")
		for step := 0; step < n; step++ {
			op := first
			if step > 0 {
				op = c.Choose(len(uniOps), "op")
			}
			var got ring.Poly
			var level int
			add := false
			switch op {
			case 0:
				level, got = L, r.NewPoly()
				base.Read(got)
			case 1:
				level, got = L, base.ReadNew()
			case 2:
				level, got, add = L, rampPoly(r, L, false), true
				base.ReadAndAdd(got)
			case 3:
				level, got = 0, r.AtLevel(0).NewPoly()
				v0.Read(got)
			case 4:
				level, got, add = 1, rampPoly(r, 1, false), true
				v1.ReadAndAdd(got)
			case 5:
				level, got = 1, v1.ReadNew()
			case 6:
				level, got = 0, r.AtLevel(0).NewPoly()
				base.AtLevel(0).Read(got)
			case 7:
				level, got = L, r.NewPoly()
				v0.AtLevel(L).Read(got)
			}
			if got.Level() != level {
				c.Fail("C17/uniform/"+uniOps[op]+"/level", "returned polynomial has level %d, want %d", got.Level(), level)
				return
			}
			want := model.sample(mod, level)
			if add {
				ramp := rampPoly(r, level, false)
				for i, q := range mod[:level+1] {
					for j := 0; j < N; j++ {
						want[i][j] = ref.AddMod(ramp.Coeffs[i][j], want[i][j], q)
						got.Coeffs[i][j] %= q // ReadAndAdd documents no output range
					}
				}
			}
			if ok, why := rowsEqual(got.Coeffs, want, level); !ok {
				c.Fail("C17/uniform/sequence/differs-from-specification-sampler", "%s step %d op %s: %s", ch.name, step, uniOps[op], why)
				return
			}
			if envA.off != envM.off {
				c.Fail("C17/uniform/sequence/bytes-consumed", "step %d op %s: sampler consumed %d bytes, specification %d", step, uniOps[op], envA.off, envM.off)
				return
			}
			c.State("uniform", envA.off, model.ptr)
			c.Cover("uniform-op", uniOps[op])
		}
		c.Outcome(name, envA.off, model.ptr)
	}}
}

// ---------------------------------------------------------------------------------------------
// ringqp.UniformSampler: two buffered samplers (Q then P) on one source

// ringqp operations: Read / ReadNew on the base sampler, on the view at EVERY (levelQ, levelP) incl. -1 (that part
// absent), and on a WithPRNG copy.
type qpOp struct {
	name   string
	lq, lp int  // view levels; base: (2,1)
	view   bool // through AtLevel(lq,lp)
	newp   bool // ReadNew instead of Read
	with   bool // on the WithPRNG(second source) copy
}

var qpOpTable = func() []qpOp {
	ops := []qpOp{{"Read", 2, 1, false, false, false}, {"ReadNew", 2, 1, false, true, false}}
	for lq := -1; lq <= 2; lq++ {
		for lp := -1; lp <= 1; lp++ {
			if lq == -1 && lp == -1 {
				continue
			}
			ops = append(ops, qpOp{fmt.Sprintf("AtLevel(%d,%d).Read", lq, lp), lq, lp, true, false, false})
			ops = append(ops, qpOp{fmt.Sprintf("AtLevel(%d,%d).ReadNew", lq, lp), lq, lp, true, true, false})
		}
	}
	return append(ops, qpOp{"WithPRNG(second source).Read", 2, 1, false, false, true})
}()

var qpOps = func() []string {
	var n []string
	for _, o := range qpOpTable {
		n = append(n, o.name)
	}
	return n
}()

func ringqpSequenceScenario(depth int, first int) engine.Scenario {
	name := fmt.Sprintf("uniform/ringqp-sequences/first=%s", qpOps[first])
	return engine.Scenario{Name: name, Bound: -1, Fn: func(c *engine.Chooser) {
		modQ, modP := mixedChain().mod, pChain()
		rQ, rP := ringOf(modQ), ringOf(modP)
		qp := ringqp.Ring{RingQ: rQ, RingP: rP}
		st, st2 := &stream{bgSeed: 5}, &stream{bgSeed: 6}
		envA, envM := newPRNG(st), newPRNG(st)
		envA2, envM2 := newPRNG(st2), newPRNG(st2)
		s := ringqp.NewUniformSampler(envA, qp)
		mQ, mP := &refUniform{src: envM}, &refUniform{src: envM}
		var s2 *ringqp.UniformSampler
		var m2Q, m2P *refUniform
		n := 1 + c.Choose(depth, "length")
		for step := 0; step < n; step++ {
			op := first
			if step > 0 {
				op = c.Choose(len(qpOps), "op")
			}
			o := qpOpTable[op]
			lq, lp := o.lq, o.lp
			var got ringqp.Poly
			uq, up := mQ, mP
			smp := s
			if o.with {
				if s2 == nil {
					w := s.WithPRNG(envA2)
					s2 = &w
					m2Q, m2P = &refUniform{src: envM2}, &refUniform{src: envM2}
				}
				smp, uq, up = *s2, m2Q, m2P
			}
			if o.view {
				smp = smp.AtLevel(lq, lp)
			}
			if o.newp {
				got = smp.ReadNew()
			} else {
				if lq >= 0 {
					got.Q = rQ.AtLevel(lq).NewPoly()
				}
				if lp >= 0 {
					got.P = rP.AtLevel(lp).NewPoly()
				}
				smp.Read(got)
			}
			if lq >= 0 {
				if got.Q.Level() != lq {
					c.Fail("C17/ringqp/"+qpOps[op]+"/level", "Q part has level %d, want %d", got.Q.Level(), lq)
					return
				}
				if ok, why := rowsEqual(got.Q.Coeffs, uq.sample(modQ, lq), lq); !ok {
					c.Fail("C17/ringqp/sequence/differs-from-specification-sampler", "step %d op %s Q part: %s", step, qpOps[op], why)
					return
				}
			}
			if lp >= 0 {
				if got.P.Level() != lp {
					c.Fail("C17/ringqp/"+qpOps[op]+"/level", "P part has level %d, want %d", got.P.Level(), lp)
					return
				}
				if ok, why := rowsEqual(got.P.Coeffs, up.sample(modP, lp), lp); !ok {
					c.Fail("C17/ringqp/sequence/differs-from-specification-sampler", "step %d op %s P part: %s", step, qpOps[op], why)
					return
				}
			}
			if envA.off != envM.off || envA2.off != envM2.off {
				c.Fail("C17/ringqp/sequence/bytes-consumed", "step %d op %s: sampler consumed %d/%d bytes, specification %d/%d", step, qpOps[op], envA.off, envA2.off, envM.off, envM2.off)
				return
			}
			c.State("ringqp", envA.off, envA2.off, mQ.ptr, mP.ptr)
			c.Cover("ringqp-op", qpOps[op])
		}
		c.Outcome(name, envA.off, envA2.off, mQ.ptr, mP.ptr)
	}}
}
