// What a refused call leaves behind (red-team round 9: history of long-lived objects).
//
// "Two samplers (or key expanders, ...) fed by keyed generators with the same key and performing the same sequence of
// calls produce bit-identical outputs, the generator can be reset to replay its stream": a call that is REFUSED (an error
// is returned, or the call panics on an illegal argument) must not break that for the calls that follow.
//
//	expandRefusedScenario   EvaluationKey.Expand with a user-supplied buffer in {nil, exact shape, same shape under another
//	                        base, degree 1, LevelQ-1, LevelQ+1, other LevelP, row sizes wrong in row 0, row sizes wrong ONLY
//	                        in a later row} or on a key in a refusing state {already expanded, seed missing}, followed by a
//	                        second, legal Expand (nil / exact buffer) on the SAME key object. Oracle: a refused Expand returns
//	                        an error (no panic) and leaves the key bit-identical (deep snapshot: components per element, every
//	                        word, seed, IsCompressed; no storage shared with the rejected buffer); the following legal Expand
//	                        succeeds and equals the expansion of a copy taken before.
//	samplerRefusedScenario  every sampler kind on the scripted source: after 0 / 1 legal reads, one illegal call (receiver
//	                        with fewer rows than the sampler's level, zero-value receiver, receiver with short rows, level
//	                        view above the maximum / below zero), then a legal ReadNew. Oracle: two samplers on the same
//	                        bytes performing the same sequence incl. the refused call stay bit-identical (outputs and bytes
//	                        consumed); the next legal output is inside the distribution's support; and a refused call that
//	                        neither consumed bytes of the source nor wrote a word of its receiver leaves no trace (the next
//	                        output is the one of a sampler that never saw it).
//
// Refused calls of the secret-key encryptor (unsupported / nil target) are two letters of the encryptor/mask-stream
// alphabet (encryptor.go).
package main

import (
	"fmt"
	"unsafe"

	"github.com/tuneinsight/lattigo/v6/core/rlwe"
	"github.com/tuneinsight/lattigo/v6/ring"
	"github.com/tuneinsight/lattigo/v6/ring/ringqp"

	"verif/engine"
	"verif/uni"
)

var expandBufKinds = []string{"nil", "exact-shape", "same-shape-under-another-base", "degree-1", "LevelQ-1", "LevelQ+1", "other-LevelP",
	"rows-wrong-in-row-0", "rows-wrong-only-in-a-later-row", "key-already-expanded", "seed-missing"}

// evkSnapshot is a deep copy of everything an EvaluationKey holds.
type evkSnapshot struct {
	shape      string
	words      []uint64
	seed       string
	compressed bool
	base2      int
}

func polyWords(p ringqp.Poly, out []uint64) []uint64 {
	for _, row := range p.Q.Coeffs {
		out = append(out, row...)
	}
	for _, row := range p.P.Coeffs {
		out = append(out, row...)
	}
	return out
}

func snapEvk(evk *rlwe.EvaluationKey) (s evkSnapshot) {
	for i := range evk.Value {
		s.shape += "["
		for j := range evk.Value[i] {
			s.shape += fmt.Sprintf("%d(", len(evk.Value[i][j]))
			for _, p := range evk.Value[i][j] {
				s.shape += fmt.Sprintf("%d/%d,", len(p.Q.Coeffs), len(p.P.Coeffs))
				s.words = polyWords(p, s.words)
			}
			s.shape += ")"
		}
		s.shape += "]"
	}
	if evk.Seed != nil {
		s.seed = fmt.Sprintf("%x", *evk.Seed)
	}
	s.compressed = evk.IsCompressed()
	s.base2 = evk.BaseTwoDecomposition
	return
}

func (s evkSnapshot) diff(t evkSnapshot) string {
	switch {
	case s.shape != t.shape:
		return fmt.Sprintf("components per element / rows per component were %s, are %s", s.shape, t.shape)
	case s.compressed != t.compressed:
		return fmt.Sprintf("IsCompressed() was %v, is %v", s.compressed, t.compressed)
	case s.seed != t.seed:
		return fmt.Sprintf("seed was %q, is %q", s.seed, t.seed)
	case s.base2 != t.base2:
		return fmt.Sprintf("BaseTwoDecomposition was %d, is %d", s.base2, t.base2)
	}
	for k := range s.words {
		if s.words[k] != t.words[k] {
			return fmt.Sprintf("word %d was %d, is %d", k, s.words[k], t.words[k])
		}
	}
	return ""
}

// sharesStorage reports whether any coefficient row of the key is a row of the buffer.
func sharesStorage(evk *rlwe.EvaluationKey, buf *rlwe.GadgetCiphertext) bool {
	if buf == nil {
		return false
	}
	rows := map[unsafe.Pointer]bool{}
	add := func(p ringqp.Poly, into bool) bool {
		for _, rr := range [][][]uint64{p.Q.Coeffs, p.P.Coeffs} {
			for _, row := range rr {
				if len(row) == 0 {
					continue
				}
				k := unsafe.Pointer(&row[0])
				if into {
					rows[k] = true
				} else if rows[k] {
					return true
				}
			}
		}
		return false
	}
	for i := range buf.Value {
		for j := range buf.Value[i] {
			for _, p := range buf.Value[i][j] {
				add(p, true)
			}
		}
	}
	for i := range evk.Value {
		for j := range evk.Value[i] {
			for _, p := range evk.Value[i][j] {
				if add(p, false) {
					return true
				}
			}
		}
	}
	return false
}

func expandRefusedScenario() engine.Scenario {
	name := "repro/EvaluationKey.Expand/after-a-refused-call"
	return engine.Scenario{Name: name, Bound: -1, Fn: func(c *engine.Chooser) {
		params := expandParams(0) // Q of 60, 30 and 45 bits (rows of different sizes under a base 2^w), P of 2 x 36 bits
		lq := 1 + c.Choose(params.MaxLevelQ(), "levelQ")
		lp := c.Choose(params.MaxLevelP()+2, "levelP+1") - 1
		b2 := []int{0, 7, 20, 30}[c.Choose(4, "base2")]
		kind := c.Choose(len(expandBufKinds), "first-call")
		secondWithBuffer := c.Choose(2, "second-call-buffer") == 1
		if lp > 0 && b2 != 0 {
			c.Skip("power-of-two decomposition only with at most one auxiliary prime")
			return
		}
		uni.Seed(c, name, lq, lp, b2)
		kgen := rlwe.NewKeyGenerator(params)
		skIn, skOut := kgen.GenSecretKeyNew(), kgen.GenSecretKeyNew()
		evk := kgen.GenEvaluationKeyNew(skIn, skOut, rlwe.EvaluationKeyParameters{LevelQ: &lq, LevelP: &lp, BaseTwoDecomposition: &b2, Compressed: true})
		if !evk.IsCompressed() || evk.Seed == nil {
			c.Fail("C17/expand/not-compressed", "GenEvaluationKeyNew(Compressed) returned degree %d seed=%v", evk.Degree(), evk.Seed != nil)
			return
		}
		fresh := evk.CopyNew()
		if fresh.Seed == nil {
			seed := *evk.Seed
			fresh.Seed = &seed
		}
		if err := fresh.Expand(params, nil); err != nil {
			c.Fail("C17/expand/error", "Expand of a copy: %v", err)
			return
		}
		rowsOf := func(b int) []int { return params.BaseTwoDecompositionVectorSize(lq, lp, b)[:len(evk.Value)] }
		want := evk.BaseTwoDecompositionVectorSize()
		// a base whose row sizes relate to the key's as asked: 0 all equal, 1 row 0 differs, 2 row 0 equal and a later row differs
		findBase := func(rel int) (int, bool) {
			for b := 1; b < 64; b++ {
				if b == b2 {
					continue
				}
				r := rowsOf(b)
				later := false
				for i := 1; i < len(r); i++ {
					later = later || r[i] != want[i]
				}
				switch {
				case rel == 0 && r[0] == want[0] && !later,
					rel == 1 && r[0] != want[0],
					rel == 2 && r[0] == want[0] && later:
					return b, true
				}
			}
			return 0, false
		}
		ctx := fmt.Sprintf("key(LevelQ=%d,LevelP=%d,base2=%d,rows=%v) first call: %s", lq, lp, b2, want, expandBufKinds[kind])
		var buf *rlwe.GadgetCiphertext
		legal := false
		target := evk // the object the first call is made on
		switch kind {
		case 0:
			legal = true
		case 1:
			legal, buf = true, rlwe.NewGadgetCiphertext(params, 0, lq, lp, b2)
		case 2:
			b, ok := findBase(0)
			if !ok || lp > 0 {
				c.Skip("no other base gives the same row sizes")
				return
			}
			legal, buf = true, rlwe.NewGadgetCiphertext(params, 0, lq, lp, b)
		case 3:
			buf = rlwe.NewGadgetCiphertext(params, 1, lq, lp, b2)
		case 4:
			buf = rlwe.NewGadgetCiphertext(params, 0, lq-1, lp, b2)
		case 5:
			if lq == params.MaxLevelQ() {
				c.Skip("the key is at the maximum LevelQ")
				return
			}
			buf = rlwe.NewGadgetCiphertext(params, 0, lq+1, lp, b2)
		case 6:
			olp := lp + 1
			if olp > params.MaxLevelP() {
				olp = lp - 1
			}
			if olp > 0 && b2 != 0 {
				olp = -1 - lp // 0 <-> -1
			}
			buf = rlwe.NewGadgetCiphertext(params, 0, lq, olp, b2)
		case 7, 8:
			b, ok := findBase(kind - 6)
			if !ok || lp > 0 {
				c.Skip("no base gives such row sizes for this key")
				return
			}
			buf = rlwe.NewGadgetCiphertext(params, 0, lq, lp, b)
			ctx += fmt.Sprintf(" (buffer base2=%d rows=%v)", b, buf.BaseTwoDecompositionVectorSize())
		case 9:
			if err := evk.Expand(params, nil); err != nil {
				c.Fail("C17/expand/error", "%s: preliminary Expand: %v", ctx, err)
				return
			}
		case 10:
			noSeed := *evk
			noSeed.Seed = nil
			target = &noSeed // shares the matrix with evk, as every copy of the struct does
		}
		before := snapEvk(evk)
		err, pan := uni.Try(func() error { return target.Expand(params, buf) })
		if pan != nil {
			c.Fail("C17/expand/"+expandBufKinds[kind]+"/panic", "%s: panics: %v", ctx, pan)
			return
		}
		if legal {
			if err != nil {
				c.Fail("C17/expand/error", "%s: %v", ctx, err)
				return
			}
		} else {
			if err == nil {
				c.Fail("C17/expand/refused/no-error", "%s: no error", ctx)
				return
			}
			if d := before.diff(snapEvk(evk)); d != "" {
				c.Fail("C17/expand/refused/key-modified-by-a-refused-call", "%s: Expand returned %q but the key changed: %s", ctx, err, d)
				return
			}
			if sharesStorage(evk, buf) {
				c.Fail("C17/expand/refused/key-shares-storage-with-the-rejected-buffer", "%s: Expand returned %q but the key now points into the rejected buffer", ctx, err)
				return
			}
		}
		// the calls that follow
		if legal || kind == 9 {
			// the key is expanded: it must equal the expansion of the copy, and a further Expand is refused without a trace
			if !evk.GadgetCiphertext.Equal(&fresh.GadgetCiphertext) {
				c.Fail("C17/expand/two-expansions-differ", "%s: differs from the expansion of a copy", ctx)
				return
			}
			b4 := snapEvk(evk)
			var buf2 *rlwe.GadgetCiphertext
			if secondWithBuffer {
				buf2 = rlwe.NewGadgetCiphertext(params, 0, lq, lp, b2)
			}
			err, pan := uni.Try(func() error { return evk.Expand(params, buf2) })
			if pan != nil || err == nil {
				c.Fail("C17/expand/refused/no-error", "%s: a second Expand of an expanded key: error %v, panic %v", ctx, err, pan)
				return
			}
			if d := b4.diff(snapEvk(evk)); d != "" || sharesStorage(evk, buf2) {
				c.Fail("C17/expand/refused/key-modified-by-a-refused-call", "%s: the refused second Expand changed the expanded key: %s", ctx, d)
				return
			}
		} else {
			var buf2 *rlwe.GadgetCiphertext
			if secondWithBuffer {
				buf2 = rlwe.NewGadgetCiphertext(params, 0, lq, lp, b2)
			}
			err, pan := uni.Try(func() error { return evk.Expand(params, buf2) })
			if pan != nil || err != nil {
				c.Fail("C17/expand/after-a-refused-call/legal-Expand-fails", "%s: the following legal Expand on the same key: error %v, panic %v (the seeded stream can no longer be replayed on this key)", ctx, err, pan)
				return
			}
			if !evk.GadgetCiphertext.Equal(&fresh.GadgetCiphertext) {
				c.Fail("C17/expand/after-a-refused-call/differs-from-a-fresh-copy", "%s: the following legal Expand differs from the expansion of a copy taken before the refused call", ctx)
				return
			}
			if sharesStorage(evk, buf) {
				c.Fail("C17/expand/refused/key-shares-storage-with-the-rejected-buffer", "%s: after the legal Expand the key points into the buffer rejected earlier", ctx)
				return
			}
		}
		c.Cover("expand-first-call", expandBufKinds[kind])
		c.State("expand-refused", lq, lp, b2, kind, secondWithBuffer)
		c.Outcome(name, lq, lp, b2, kind, secondWithBuffer, engine.Hash(snapEvk(evk).words))
	}}
}

// ---------------------------------------------------------------------------------------------
// samplers

var refusedSamplerKinds = []string{"uniform", "ternary-P=0.5", "ternary-P=0.6667", "ternary-H=5", "gaussian-sigma=3.2", "ringqp-uniform"}
var refusedCalls = []string{"Read(fewer rows than the level)", "Read(zero-value polynomial)", "ReadAndAdd(fewer rows than the level)",
	"Read(rows of N/2 coefficients)", "AtLevel(max+1).ReadNew", "AtLevel(-1).ReadNew"}

// refSampler is the common surface of ring.Sampler and ringqp.UniformSampler for this scenario.
type refSampler struct {
	legal  func() [][]uint64                            // ReadNew at the maximum level: rows
	refuse func(kind int) (wrote bool, pan interface{}) // the illegal call; wrote: a word of the receiver changed
}

func samplerRefusedScenario() engine.Scenario {
	name := "repro/samplers/after-a-refused-call"
	return engine.Scenario{Name: name, Bound: -1, Fn: func(c *engine.Chooser) {
		ki := c.Choose(len(refusedSamplerKinds), "sampler")
		call := c.Choose(len(refusedCalls), "refused-call")
		prior := c.Choose(2, "legal-reads-before")
		mont := c.Choose(2, "montgomery") == 1
		if mont && (ki == 0 || ki == 5) {
			c.Skip("uniform samplers have no output-domain flag")
			return
		}
		ch := mixedChain()
		r := ringOf(ch.mod)
		L := r.MaxLevel()
		rP := ringOf(pChain())
		st := &stream{bgSeed: 4711}
		mk := func(env *scriptPRNG) refSampler {
			short := func(level int) ring.Poly { // a receiver of the sampler's ring with fewer rows / shorter rows
				switch call {
				case 0, 2:
					return rampPoly(r, level-1, false)
				case 1:
					return ring.Poly{}
				default:
					p := rampPoly(r, level, false)
					for i := range p.Coeffs {
						p.Coeffs[i] = p.Coeffs[i][:N/2]
					}
					return p
				}
			}
			changed := func(p ring.Poly, level int) bool {
				ref := rampPoly(r, level, false)
				for i := range p.Coeffs {
					for j := range p.Coeffs[i] {
						if p.Coeffs[i][j] != ref.Coeffs[i][j] {
							return true
						}
					}
				}
				return false
			}
			if ki == 5 {
				s := ringqp.NewUniformSampler(env, ringqp.Ring{RingQ: r, RingP: rP})
				return refSampler{
					legal: func() [][]uint64 {
						p := s.ReadNew()
						return append(append([][]uint64{}, p.Q.Coeffs...), p.P.Coeffs...)
					},
					refuse: func(kind int) (bool, interface{}) {
						wrote := false
						_, pan := uni.Try(func() error {
							switch kind {
							case 4:
								s.AtLevel(L+1, 0).ReadNew()
							case 5:
								s.AtLevel(L, -2).ReadNew()
							default:
								// the Q half is legal, the P half is the illegal receiver
								p := ringqp.Poly{Q: rampPoly(r, L, false), P: short(1)}
								defer func() { wrote = changed(p.Q, L) }()
								s.Read(p)
							}
							return nil
						})
						return wrote, pan
					},
				}
			}
			var X ring.DistributionParameters
			switch ki {
			case 0:
				X = ring.Uniform{}
			case 1:
				X = ring.Ternary{P: 0.5}
			case 2:
				X = ring.Ternary{P: 2.0 / 3}
			case 3:
				X = ring.Ternary{H: 5}
			case 4:
				X = ring.DiscreteGaussian{Sigma: 3.2, Bound: 19.2}
			}
			s, err := ring.NewSampler(env, r, X, mont)
			if err != nil {
				panic(err)
			}
			return refSampler{
				legal: func() [][]uint64 { return s.ReadNew().Coeffs },
				refuse: func(kind int) (bool, interface{}) {
					wrote := false
					_, pan := uni.Try(func() error {
						switch kind {
						case 4:
							s.AtLevel(L + 1).ReadNew()
						case 5:
							s.AtLevel(-1).ReadNew()
						case 2:
							p := short(L)
							defer func() { wrote = changed(p, L-1) }()
							s.ReadAndAdd(p)
						default:
							p := short(L)
							lvl := L
							if kind == 0 {
								lvl = L - 1
							}
							defer func() { wrote = kind != 1 && changed(p, lvl) }()
							s.Read(p)
						}
						return nil
					})
					return wrote, pan
				},
			}
		}
		envA, envB, envC := newPRNG(st), newPRNG(st), newPRNG(st)
		a, b, cc := mk(envA), mk(envB), mk(envC) // b never sees the refused call; cc repeats everything a does
		for k := 0; k < prior; k++ {
			a.legal()
			b.legal()
			cc.legal()
		}
		off := envA.off
		wrote, pan := a.refuse(call)
		_, panC := cc.refuse(call)
		consumed := envA.off - off
		if (pan == nil) != (panC == nil) {
			c.Fail("C17/refused-call/not-reproducible", "%s %s: one of two samplers on the same bytes panics (%v), the other does not (%v)", refusedSamplerKinds[ki], refusedCalls[call], pan, panC)
			return
		}
		ga, gb, gc := a.legal(), b.legal(), cc.legal()
		same := func(x, y [][]uint64) bool {
			if len(x) != len(y) {
				return false
			}
			for i := range x {
				if len(x[i]) != len(y[i]) {
					return false
				}
				for j := range x[i] {
					if x[i][j] != y[i][j] {
						return false
					}
				}
			}
			return true
		}
		ctx := fmt.Sprintf("%s montgomery=%v after %d legal reads, %s (panic: %v; %d bytes of the source consumed, receiver written: %v)", refusedSamplerKinds[ki], mont, prior, refusedCalls[call], pan != nil, consumed, wrote)
		if !same(ga, gc) || envA.off != envC.off {
			c.Fail("C17/refused-call/not-reproducible", "%s: two samplers on the same bytes performing the same calls differ in the next legal ReadNew (bytes consumed %d vs %d)", ctx, envA.off, envC.off)
			return
		}
		if pan != nil && consumed == 0 && !wrote && (!same(ga, gb) || envA.off != envB.off) {
			c.Fail("C17/refused-call/leaves-a-trace", "%s: the call took no randomness and wrote nothing, yet the next legal ReadNew differs from the one of a sampler that never saw it (bytes consumed %d vs %d)", ctx, envA.off, envB.off)
			return
		}
		// the sampler survives: the next output is inside the support
		rows := len(ga)
		if want := L + 1; (ki != 5 && rows != want) || (ki == 5 && rows != want+2) {
			c.Fail("C17/refused-call/next-output-shape", "%s: next ReadNew has %d rows", ctx, rows)
			return
		}
		pol := ring.Poly{Coeffs: ga[:L+1]}
		switch ki {
		case 0, 5:
			for i, q := range ch.mod {
				for j := 0; j < N; j++ {
					if ga[i][j] >= q {
						c.Fail("C17/refused-call/next-output-out-of-range", "%s: level %d coefficient %d = %d >= q", ctx, i, j, ga[i][j])
						return
					}
				}
			}
		case 1, 2, 3:
			v, ok := ternaryValues(c, "after-a-refused-call", r, L, mont, pol)
			if !ok {
				return
			}
			nz := 0
			for _, x := range v {
				if x != 0 {
					nz++
				}
			}
			if ki == 3 && nz != 5 {
				c.Fail("C17/ternary/after-a-refused-call/hamming-weight", "%s: %d non-zero coefficients, want H=5", ctx, nz)
				return
			}
		case 4:
			if _, ok := gaussValues(c, "after-a-refused-call", gaussCfg{"sigma=3.2", 3.2, 19.2, ch}, r, L, mont, pol); !ok {
				return
			}
		}
		c.Cover("refused-call", refusedCalls[call])
		c.Cover("refused-call-sampler", refusedSamplerKinds[ki])
		if pan != nil {
			c.Cover("refused-call-outcome", "panic")
		} else {
			c.Cover("refused-call-outcome", "accepted")
		}
		if pan != nil && consumed == 0 && !wrote {
			c.Cover("refused-call-outcome", "panic-without-trace")
		}
		c.State("refused-call", ki, call, prior, mont, envA.off, pan != nil)
		c.Outcome(name, ki, call, prior, mont, envA.off, engine.Hash(ga[0]))
	}}
}
