// Encryptor mask stream: a secret-key rlwe.Encryptor whose uniform element comes from a caller-provided generator
// (Encryptor.WithPRNG: "prng as its source of randomness for the uniform element c1"). Reproducibility clause: a party
// holding only the key of that generator and the SEQUENCE OF LEVELS must be able to re-derive every mask, i.e. the k-th
// mask is what the specification uniform sampler (uniform.go) draws from the same bytes at that point of the stream —
// level+1 rows per draw, whatever the degree of the target (degree 0 = seed-compressed ciphertext: the mask stays in the
// encryptor), its domain flags, and the interleaving with ringqp targets (key-generation style, Q rows then P rows).
//
// Oracles per step: (degree >= 1) the returned mask equals the specification draw; (every degree) c0 + mask·s is the
// error term, |e| <= round(bound of Xe), with the mask taken from the SPECIFICATION sampler (so a compressed ciphertext
// is expandable from the key alone); bytes consumed equal the specification's; a twin encryptor on the same bytes that
// uses degree-1 targets wherever this one uses degree-0 (and vice versa) stays in lock-step.
package main

import (
	"fmt"
	"math/big"

	"github.com/tuneinsight/lattigo/v6/core/rlwe"
	"github.com/tuneinsight/lattigo/v6/ring"
	"github.com/tuneinsight/lattigo/v6/ring/ringqp"

	"verif/engine"
	"verif/ref"
	"verif/uni"
)

type encOp struct {
	name   string
	qp     bool // target is an Element[ringqp.Poly] (NTT + Montgomery, as the key generator uses it)
	degree int
	lq, lp int
	ntt    bool
	refuse int // 1, 2: a call the encryptor must refuse with an error (unsupported target type / nil target) without drawing a mask
}

var encOps = func() []encOp {
	var ops []encOp
	for _, deg := range []int{0, 1} {
		for lq := 0; lq <= 2; lq++ {
			for _, ntt := range []bool{true, false} {
				ops = append(ops, encOp{fmt.Sprintf("Ciphertext(degree=%d,level=%d,IsNTT=%v)", deg, lq, ntt), false, deg, lq, -1, ntt, 0})
			}
		}
	}
	for _, o := range []encOp{{"", true, 1, 2, 1, true, 0}, {"", true, 0, 1, 0, true, 0}, {"", true, 1, 0, -1, true, 0}, {"", true, 0, 2, -1, true, 0}} {
		o.name = fmt.Sprintf("ElementQP(degree=%d,levelQ=%d,levelP=%d)", o.degree, o.lq, o.lp)
		ops = append(ops, o)
	}
	// refused calls: the mask stream must continue as if they had not happened
	ops = append(ops, encOp{name: "refused-EncryptZero(unsupported-target-type)", refuse: 1}, encOp{name: "refused-EncryptZero(nil)", refuse: 2})
	return ops
}()

func encryptorMaskStreamScenario(first, depth int) engine.Scenario {
	name := "encryptor/mask-stream/first=" + encOps[first].name
	return engine.Scenario{Name: name, Bound: -1, Fn: func(c *engine.Chooser) {
		params := crpParams()
		uni.Seed(c, "encryptor/mask-stream") // secret key and error terms (not the masks)
		sk := rlwe.NewKeyGenerator(params).GenSecretKeyNew()
		xe, ok := params.Xe().(ring.DiscreteGaussian)
		if !ok {
			panic("unexpected error distribution")
		}
		maxE := roundBound(xe.Bound)
		st := &stream{bgSeed: 5150}
		envA, envB, envM := newPRNG(st), newPRNG(st), newPRNG(st)
		encA := rlwe.NewEncryptor(params, sk).WithPRNG(envA)
		encB := rlwe.NewEncryptor(params, sk).WithPRNG(envB) // twin: swaps degree 0 <-> 1
		mQ, mP := &refUniform{src: envM}, &refUniform{src: envM}
		Q, P := params.Q(), params.P()
		n := 1 + c.Choose(depth, "length")
		for step := 0; step < n; step++ {
			oi := first
			if step > 0 {
				oi = c.Choose(len(encOps), "op")
			}
			o := encOps[oi]
			if o.refuse != 0 {
				for who, enc := range []*rlwe.Encryptor{encA, encB} {
					var target interface{}
					if o.refuse == 1 {
						target = rlwe.NewPlaintext(params, 1)
					}
					err, pan := uni.Try(func() error { return enc.EncryptZero(target) })
					if pan != nil {
						c.Fail("C17/encryptor/refused-call/panic", "step %d %s: panics instead of returning the documented error: %v", step, o.name, pan)
						return
					}
					if err == nil {
						c.Fail("C17/encryptor/refused-call/no-error", "step %d %s (encryptor %d): no error", step, o.name, who)
						return
					}
				}
				if envA.off != envM.off || envB.off != envM.off {
					c.Fail("C17/encryptor/refused-call/consumed-the-mask-generator", "step %d %s: %d / %d bytes of the mask generator consumed, the key holder's replay stands at %d", step, o.name, envA.off, envB.off, envM.off)
					return
				}
				c.State("encryptor", envA.off, mQ.ptr, mP.ptr, "refused")
				c.Cover("encryptor-op", o.name)
				continue
			}
			rqp := params.RingQP().AtLevel(o.lq, o.lp)
			run := func(enc *rlwe.Encryptor, degree int) (c0, c1 ringqp.Poly, err error) {
				if o.qp {
					el := rlwe.Element[ringqp.Poly]{MetaData: &rlwe.MetaData{CiphertextMetaData: rlwe.CiphertextMetaData{IsNTT: true, IsMontgomery: true}}}
					for k := 0; k <= degree; k++ {
						el.Value = append(el.Value, rqp.NewPoly())
					}
					err = enc.EncryptZero(el)
					c0 = el.Value[0]
					if degree == 1 {
						c1 = el.Value[1]
					}
					return
				}
				ct := rlwe.NewCiphertext(params, degree, o.lq)
				ct.IsNTT = o.ntt
				err = enc.EncryptZero(ct)
				c0 = ringqp.Poly{Q: ct.Value[0]}
				if degree == 1 {
					c1 = ringqp.Poly{Q: ct.Value[1]}
				}
				return
			}
			c0, c1, err := run(encA, o.degree)
			if err != nil {
				c.Fail("C17/encryptor/EncryptZero/error", "%s: %v", o.name, err)
				return
			}
			_, c1B, err := run(encB, 1-o.degree)
			if err != nil {
				c.Fail("C17/encryptor/EncryptZero/error", "%s (twin, degree %d): %v", o.name, 1-o.degree, err)
				return
			}
			// the mask the holder of the key derives for this draw: level+1 rows of Q (then levelP+1 rows of P)
			mask := rqp.NewPoly()
			copyRows(mask.Q.Coeffs, mQ.sample(Q, o.lq))
			if o.lp >= 0 {
				copyRows(mask.P.Coeffs, mP.sample(P, o.lp))
			}
			for who, got := range []ringqp.Poly{c1, c1B} {
				if (who == 0 && o.degree == 0) || (who == 1 && o.degree == 1) {
					continue // this one kept its mask
				}
				if ok, why := rowsEqualMod(got.Q.Coeffs, mask.Q.Coeffs, Q, o.lq); !ok {
					c.Fail("C17/encryptor/mask-stream/mask-differs-from-specification-sampler", "step %d %s (%s): returned mask, Q part: %s", step, o.name, []string{"encryptor", "twin with swapped degree"}[who], why)
					return
				}
				if o.lp >= 0 {
					if ok, why := rowsEqualMod(got.P.Coeffs, mask.P.Coeffs, P, o.lp); !ok {
						c.Fail("C17/encryptor/mask-stream/mask-differs-from-specification-sampler", "step %d %s (%s): returned mask, P part: %s", step, o.name, []string{"encryptor", "twin with swapped degree"}[who], why)
						return
					}
				}
			}
			if envA.off != envM.off || envB.off != envM.off {
				c.Fail("C17/encryptor/mask-stream/bytes-consumed", "step %d %s: encryptor consumed %d bytes of the mask generator, its twin (degree %d) %d, the specification (level+1 rows) %d", step, o.name, envA.off, 1-o.degree, envB.off, envM.off)
				return
			}
			// expand with the specification mask: c0 + mask·s must be the error term
			a := *mask.CopyNew()
			b := *c0.CopyNew()
			if !o.qp && !o.ntt {
				rqp.NTT(a, a) // a coefficient-domain target takes the sampled polynomial as the coefficient-domain mask
				rqp.NTT(b, b)
			}
			rqp.MulCoeffsMontgomeryThenAdd(a, sk.Value, b) // s is stored in NTT + Montgomery form: a·s
			if o.qp {
				rqp.IMForm(b, b)
			}
			rqp.INTT(b, b)
			var mods []uint64
			mods = append(mods, Q[:o.lq+1]...)
			rows := append([][]uint64{}, b.Q.Coeffs[:o.lq+1]...)
			if o.lp >= 0 {
				mods = append(mods, P[:o.lp+1]...)
				rows = append(rows, b.P.Coeffs[:o.lp+1]...)
			}
			M := ref.Prod(mods)
			for k := 0; k < N; k++ {
				res := make([]uint64, len(mods))
				for t := range mods {
					res[t] = rows[t][k]
				}
				if e := ref.Center(ref.CRT(res, mods), M); new(big.Int).Abs(e).Cmp(maxE) > 0 {
					c.Fail("C17/encryptor/mask-stream/not-expandable-from-the-key", "step %d %s: c0 + (mask re-derived from the key and the sequence of levels)·s has coefficient %s, error bound %s: the encryptor used another mask", step, o.name, e, maxE)
					return
				}
			}
			c.State("encryptor", envA.off, mQ.ptr, mP.ptr)
			c.Cover("encryptor-op", o.name)
		}
		c.Outcome(name, envA.off, mQ.ptr, mP.ptr)
	}}
}

func copyRows(dst, src [][]uint64) {
	for i := range src {
		copy(dst[i], src[i])
	}
}

func rowsEqualMod(got, want [][]uint64, mod []uint64, level int) (bool, string) {
	if len(got) < level+1 {
		return false, fmt.Sprintf("only %d rows", len(got))
	}
	for i := 0; i <= level; i++ {
		for j := 0; j < N; j++ {
			if got[i][j]%mod[i] != want[i][j]%mod[i] {
				return false, fmt.Sprintf("level %d coefficient %d: %d, specification sampler %d", i, j, got[i][j]%mod[i], want[i][j])
			}
		}
	}
	return true, ""
}
