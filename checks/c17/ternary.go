// Ternary samplers (ring.TernarySampler): exact counting over enumerated environment bits.
//
// Statement: "ternary values in {-1,0,1} with exactly H non-zeros when a Hamming weight is given and density p
// otherwise, signs balanced ... at every level, for Montgomery and plain output, for read and read-and-add variants,
// whatever the interleaving of calls on level views sharing one source."
package main

import (
	"fmt"

	"github.com/tuneinsight/lattigo/v6/ring"

	"verif/engine"
	"verif/uni"
)

// readTernary runs one Read on a fresh sampler over the given stream and decodes the N values.
func ternaryValues(c *engine.Chooser, site string, r *ring.Ring, level int, mont bool, pol ring.Poly) ([]int64, bool) {
	v := make([]int64, N)
	for j := 0; j < N; j++ {
		x, ok := decodeSmall(r, pol.Coeffs, level, j, mont)
		if !ok {
			c.Fail("C17/ternary/"+site+"/inconsistent-across-moduli", "coefficient %d does not represent one integer on levels 0..%d (montgomery=%v)", j, level, mont)
			return nil, false
		}
		if x < -1 || x > 1 {
			c.Fail("C17/ternary/"+site+"/out-of-support", "coefficient %d = %d not in {-1,0,1}", j, x)
			return nil, false
		}
		v[j] = x
	}
	return v, true
}

func newTernary(c *engine.Chooser, env *scriptPRNG, r *ring.Ring, X ring.Ternary, mont bool) *ring.TernarySampler {
	ts, err := ring.NewTernarySampler(env, r, X, mont)
	if err != nil {
		panic(fmt.Sprintf("NewTernarySampler(%+v): %v", X, err))
	}
	return ts
}

// ---------------------------------------------------------------------------------------------
// P = 1/2: all four (coefficient bit, sign bit) pairs at every position

func ternaryHalfScenario(ch chainT) engine.Scenario {
	name := "ternary/P=0.5/all-bit-pairs/" + ch.name
	return engine.Scenario{Name: name, Bound: -1, Fn: func(c *engine.Chooser) {
		pos := c.Choose(N, "position")
		bgKind := c.Choose(3, "background")
		mont := c.Choose(2, "montgomery") == 1
		level := c.Choose(len(ch.mod), "level")
		r := ringOf(ch.mod).AtLevel(level)
		bg := []byte{0x00, 0xFF, 0xA5}[bgKind]
		// the sampler draws N/8 bytes of coefficient bits and N/8 bytes of sign bits; whichever bit feeds position
		// `pos`, enumerating both bits of index pos in both halves covers the four answers for that position
		count := map[int64]int{}
		var others [4][]int64
		for pair := 0; pair < 4; pair++ {
			pre := make([]byte, 2*N/8)
			for i := range pre {
				pre[i] = bg
			}
			setBit := func(half, bit int) {
				idx := half*(N/8) + pos/8
				pre[idx] &^= 1 << uint(pos%8)
				pre[idx] |= byte(bit) << uint(pos%8)
			}
			setBit(0, pair&1)
			setBit(1, pair>>1)
			env := newPRNG(&stream{prefix: pre, bgSeed: 3})
			ts := newTernary(c, env, r, ring.Ternary{P: 0.5}, mont)
			pol := r.NewPoly()
			ts.Read(pol)
			v, ok := ternaryValues(c, "P=0.5/Read", r, level, mont, pol)
			if !ok {
				return
			}
			count[v[pos]]++
			others[pair] = v
			if env.off != int64(2*N/8) {
				c.Fail("C17/ternary/P=0.5/bytes-consumed", "Read consumed %d bytes, the two bit vectors are %d bytes", env.off, 2*N/8)
				return
			}
		}
		// density 1/2 with balanced signs, exactly: the four equiprobable answers give {0,0,+1,-1}
		if count[0] != 2 || count[1] != 1 || count[-1] != 1 {
			c.Fail("C17/ternary/P=0.5/exact-distribution", "position %d: the four (bit,sign) answers give %v, want two 0, one +1, one -1", pos, count)
			return
		}
		// a position depends on its own bit pair only
		for pair := 1; pair < 4; pair++ {
			for j := 0; j < N; j++ {
				if j != pos && others[pair][j] != others[0][j] {
					c.Fail("C17/ternary/P=0.5/cross-talk", "changing the bits of position %d changed position %d", pos, j)
					return
				}
			}
		}
		c.Count(4)
		c.Cover("ternary-half", ch.name)
		c.Outcome(name, pos, bgKind, fmt.Sprint(others[3]))
	}}
}

// ---------------------------------------------------------------------------------------------
// general P: Knuth-Yao walk, exact masses over all 16-bit prefixes

// The DDG tree of a 2-outcome distribution has at most 2 internal nodes per level, so after 15 bits (+1 sign bit) the
// outcome of all but 2·2^-15 of the probability mass is decided; tolerance 2^-12 is 8 times that, a hard bound and
// not a statistical threshold. A prefix counts as decided when two different continuations give the same first value.
func ternaryKYScenario(P float64) engine.Scenario {
	name := fmt.Sprintf("ternary/P=%.4f/knuth-yao-exact-mass", P)
	return engine.Scenario{Name: name, Bound: -1, Fn: func(c *engine.Chooser) {
		mont := c.Choose(2, "montgomery") == 1
		r := ringOf(tinyChain().mod)
		L := r.MaxLevel()
		mass := map[int64]int{}
		undecided := 0
		run := func(b0, b1, fill byte) (int64, bool) {
			pre := make([]byte, N)
			pre[0], pre[1] = b0, b1
			for i := 2; i < N; i++ {
				pre[i] = fill
			}
			env := newPRNG(&stream{prefix: pre, bgSeed: uint64(fill)})
			ts := newTernary(c, env, r, ring.Ternary{P: P}, mont)
			pol := r.NewPoly()
			ts.Read(pol)
			v, ok := ternaryValues(c, "P/Read", r, L, mont, pol)
			if !ok {
				return 0, false
			}
			return v[0], true
		}
		for w := 0; w < 1<<16; w++ {
			a, ok := run(byte(w), byte(w>>8), 0x00)
			if !ok {
				return
			}
			b, ok := run(byte(w), byte(w>>8), 0xFF)
			if !ok {
				return
			}
			if a == b {
				mass[a]++
			} else {
				undecided++
			}
		}
		const total = 1 << 16
		tol := total >> 12 // 2^-12 in units of 2^-16
		want := map[int64]float64{0: (1 - P) * total, 1: P / 2 * total, -1: P / 2 * total}
		c.Note("P=%v montgomery=%v: of 65536 prefixes 0:%d +1:%d -1:%d undecided:%d (contract %.1f / %.1f / %.1f)", P, mont, mass[0], mass[1], mass[-1], undecided, want[0], want[1], want[-1])
		if undecided > total>>10 {
			c.Fail("C17/ternary/P/knuth-yao-undecided-mass", "P=%v: %d of 65536 16-bit prefixes do not decide the first coefficient (at most 2^-14 of the mass can be undecided)", P, undecided)
			return
		}
		for _, o := range []int64{0, 1, -1} {
			lo, hi := float64(mass[o]-tol), float64(mass[o]+undecided+tol)
			if want[o] < lo || want[o] > hi {
				c.Fail("C17/ternary/P/exact-distribution", "P=%v montgomery=%v: mass of value %d is in [%d,%d]/65536, contract %.1f/65536 (0:%d +1:%d -1:%d undecided:%d)", P, mont, o, mass[o], mass[o]+undecided, want[o], mass[0], mass[1], mass[-1], undecided)
				return
			}
		}
		if d := mass[1] - mass[-1]; d > tol || d < -tol {
			c.Fail("C17/ternary/P/signs-not-balanced", "P=%v: mass(+1)=%d mass(-1)=%d of 65536", P, mass[1], mass[-1])
			return
		}
		c.Count(2 << 16)
		c.Cover("ternary-ky", fmt.Sprintf("%.4f", P))
		c.Outcome(name, mont, mass[0], mass[1], mass[-1], undecided)
	}}
}

// ternaryKYJointScenario: the doc comment of ring.Ternary says "each coefficient in the polynomial is sampled in
// [-1, 0, 1] with probabilities [0.5*P, 1-P, 0.5*P]": coefficients are drawn one by one from that law, so the law of
// coefficient 1 must not depend on the value of coefficient 0. Exact masses of (c0,c1) over all 16-bit prefixes;
// oracle: P(c1=0 | c0=+1) = P(c1=0 | c0=-1) (both = 1-P) up to the undecided mass. Own scenario, own signature.
const sigKYDependent = "C17/ternary/P/consecutive-coefficients-dependent(sign-of-c[k]-vs-c[k+1])"

func ternaryKYJointScenario(P float64) engine.Scenario {
	name := fmt.Sprintf("ternary/P=%.4f/knuth-yao-joint-law", P)
	return engine.Scenario{Name: name, Bound: -1, Fn: func(c *engine.Chooser) {
		r := ringOf(tinyChain().mod)
		L := r.MaxLevel()
		run := func(b0, b1, fill byte) ([]int64, bool) {
			pre := make([]byte, N)
			pre[0], pre[1] = b0, b1
			for i := 2; i < N; i++ {
				pre[i] = fill
			}
			ts := newTernary(c, newPRNG(&stream{prefix: pre, bgSeed: uint64(fill)}), r, ring.Ternary{P: P}, false)
			pol := r.NewPoly()
			ts.Read(pol)
			return ternaryValues(c, "P/Read", r, L, false, pol)
		}
		joint := map[[2]int64]int{}
		undecided := 0
		for w := 0; w < 1<<16; w++ {
			a, ok := run(byte(w), byte(w>>8), 0x00)
			if !ok {
				return
			}
			b, ok := run(byte(w), byte(w>>8), 0xFF)
			if !ok {
				return
			}
			if a[0] == b[0] && a[1] == b[1] {
				joint[[2]int64{a[0], a[1]}]++
			} else {
				undecided++
			}
		}
		row := func(v0 int64) (zero, tot float64) {
			for _, v1 := range []int64{-1, 0, 1} {
				tot += float64(joint[[2]int64{v0, v1}])
			}
			return float64(joint[[2]int64{v0, 0}]), tot
		}
		zp, tp := row(1)
		zm, tm := row(-1)
		c.Note("P=%v: joint masses of (c0,c1) over 65536 prefixes: %v undecided %d; P(c1=0|c0=+1)=%.4f P(c1=0|c0=-1)=%.4f contract %.4f", P, joint, undecided, zp/tp, zm/tm, 1-P)
		if tp == 0 || tm == 0 || float64(undecided) > 0.05*tp {
			c.Skip("not enough decided mass to compare the conditional laws")
			return
		}
		tol := 0.02 + float64(undecided)/tp + float64(undecided)/tm
		if d := zp/tp - zm/tm; d > tol || d < -tol {
			c.Fail(sigKYDependent, "P=%v: P(c1=0 | c0=+1) = %.4f but P(c1=0 | c0=-1) = %.4f (contract: both %.4f); exact masses over all 16-bit prefixes, %d undecided", P, zp/tp, zm/tm, 1-P, undecided)
			return
		}
		c.Count(2 << 16)
		c.Cover("ternary-ky-joint", fmt.Sprintf("%.4f", P))
		c.Outcome(name, zp, tp, zm, tm)
	}}
}

// ternaryKYSupportScenario: whole polynomials under structured bit patterns (support, consistency, density sanity).
func ternaryKYSupportScenario(P float64, ch chainT) engine.Scenario {
	name := fmt.Sprintf("ternary/P=%.4f/patterns/%s", P, ch.name)
	return engine.Scenario{Name: name, Bound: -1, Fn: func(c *engine.Chooser) {
		mont := c.Choose(2, "montgomery") == 1
		level := c.Choose(len(ch.mod), "level")
		pat := c.Choose(8, "byte-pattern")
		r := ringOf(ch.mod).AtLevel(level)
		fill := []byte{0x00, 0xFF, 0xAA, 0x55, 0x0F, 0xF0, 0x01, 0x80}[pat]
		pre := make([]byte, 4*N)
		for i := range pre {
			pre[i] = fill
		}
		env := newPRNG(&stream{prefix: pre, bgSeed: 21})
		ts := newTernary(c, env, r, ring.Ternary{P: P}, mont)
		pol := r.NewPoly()
		ts.Read(pol)
		v, ok := ternaryValues(c, "P/Read", r, level, mont, pol)
		if !ok {
			return
		}
		c.Cover("ternary-ky-patterns", ch.name)
		c.Outcome(name, fmt.Sprint(v))
	}}
}

// ---------------------------------------------------------------------------------------------
// fixed Hamming weight: every H in 1..N, enumerated index answers and sign bits

func sparseStream(H int, signFill byte, idxKind int) *stream {
	pre := make([]byte, 0, 64)
	for i := 0; i < (H+7)/8; i++ {
		pre = append(pre, signFill)
	}
	for i := 0; i < H; i++ {
		n := uint32(N - i) // number of remaining candidates
		mask := uint32(1)<<uint(32-leadingZeros32(n)) - 1
		switch idxKind {
		case 0: // always the first remaining candidate
			pre = append(pre, be32(0|^mask)...)
		case 1: // always the last remaining candidate
			pre = append(pre, be32(n-1)...)
		case 2: // one rejected answer (= n, just above the range), then a valid one
			pre = append(pre, be32(n)...)
			pre = append(pre, be32(n/2)...)
		case 3: // the mask itself (rejected whenever n is not a power of two... n <= mask), twice, then 0
			if mask >= n {
				pre = append(pre, be32(mask)...)
				pre = append(pre, be32(mask)...)
			}
			pre = append(pre, be32(uint32(i)%n)...)
		case 4: // background decides
			return &stream{prefix: pre, bgSeed: uint64(H)*131 + uint64(signFill)}
		}
	}
	return &stream{prefix: pre, bgSeed: 77}
}

func leadingZeros32(x uint32) int {
	n := 0
	for b := uint32(1) << 31; b != 0 && x&b == 0; b >>= 1 {
		n++
	}
	return n
}

func ternarySparseScenario(ch chainT) engine.Scenario {
	name := "ternary/H/every-weight/" + ch.name
	return engine.Scenario{Name: name, Bound: -1, Fn: func(c *engine.Chooser) {
		H := 1 + c.Choose(N, "H")
		idxKind := c.Choose(5, "index-answers")
		mont := c.Choose(2, "montgomery") == 1
		level := c.Choose(len(ch.mod), "level")
		r := ringOf(ch.mod).AtLevel(level)
		read := func(signFill byte) ([]int64, bool) {
			env := newPRNG(sparseStream(H, signFill, idxKind))
			ts := newTernary(c, env, r, ring.Ternary{H: H}, mont)
			// Read must overwrite whatever the polynomial held
			pol := rampPoly(ringOf(ch.mod), level, false)
			ts.Read(pol)
			return ternaryValues(c, "H/Read", r, level, mont, pol)
		}
		var res [4][]int64
		for k, f := range []byte{0x00, 0xFF, 0xAA, 0x55} {
			v, ok := read(f)
			if !ok {
				return
			}
			nz := 0
			for _, x := range v {
				if x != 0 {
					nz++
				}
			}
			if nz != H {
				c.Fail("C17/ternary/H/hamming-weight", "H=%d index-answers=%d sign bits %#x: %d non-zero coefficients", H, idxKind, f, nz)
				return
			}
			res[k] = v
		}
		if idxKind != 4 {
			// same index answers, complemented sign bits: every sign flips (each sign bit decides one sign, balanced)
			for _, pr := range [][2]int{{0, 1}, {2, 3}} {
				for j := 0; j < N; j++ {
					if res[pr[0]][j] != -res[pr[1]][j] {
						c.Fail("C17/ternary/H/signs-not-balanced", "H=%d: complementing all sign bits does not negate coefficient %d (%d vs %d)", H, j, res[pr[0]][j], res[pr[1]][j])
						return
					}
				}
			}
			plus := 0
			for _, x := range res[2] {
				if x == 1 {
					plus++
				}
			}
			if d := 2*plus - H; d > 1 || d < -1 {
				c.Fail("C17/ternary/H/signs-not-balanced", "H=%d alternating sign bits: %d positive of %d", H, plus, H)
				return
			}
		}
		c.Count(4)
		c.Cover("ternary-H", fmt.Sprint(H))
		c.Cover("ternary-H-answers", fmt.Sprint(idxKind))
		c.Outcome(name, H, idxKind, fmt.Sprint(res[2]))
	}}
}

// ---------------------------------------------------------------------------------------------
// known-defect input classes, one leaf each (they must not mask the sequence search below)

const sigTernaryAtLevel = "C17/ternary/AtLevel(l<max)/samples-at-the-parent-level"
const sigSparseReadAndAdd = "C17/ternary/H/ReadAndAdd-zeroes-unselected-coefficients"

var ternaryKinds = []ring.Ternary{{P: 0.5}, {P: 2.0 / 3}, {H: 4}}

// ternaryAtLevelScenario: a level view must behave like a sampler constructed on the ring at that level, on the same
// byte stream (bit-identical), and return/populate polynomials of that level.
func ternaryAtLevelScenario(ch chainT) engine.Scenario {
	name := "ternary/AtLevel-views/" + ch.name
	return engine.Scenario{Name: name, Bound: -1, Fn: func(c *engine.Chooser) {
		X := ternaryKinds[c.Choose(len(ternaryKinds), "kind")]
		L := len(ch.mod) - 1
		level := c.Choose(L+1, "level")
		op := c.Choose(3, "op")
		mont := c.Choose(2, "montgomery") == 1
		r := ringOf(ch.mod)
		st := &stream{bgSeed: 1234}
		envA, envB := newPRNG(st), newPRNG(st)
		view := newTernary(c, envA, r, X, mont).AtLevel(level)
		direct := newTernary(c, envB, r.AtLevel(level), X, mont)
		var got ring.Poly
		_, pan := uni.Try(func() error {
			switch op {
			case 0:
				got = view.ReadNew()
			case 1:
				got = r.AtLevel(level).NewPoly()
				view.Read(got)
			case 2:
				got = r.AtLevel(level).NewPoly() // zero: ReadAndAdd on zero = Read (keeps the H defect out of this leaf)
				view.ReadAndAdd(got)
			}
			return nil
		})
		c.Cover("ternary-atlevel", fmt.Sprintf("level=%d/max=%d", level, L))
		if pan != nil {
			if level < L {
				c.Fail(sigTernaryAtLevel, "%+v AtLevel(%d).%s panics: %v", X, level, []string{"ReadNew", "Read", "ReadAndAdd"}[op], pan)
			} else {
				c.Fail("C17/ternary/AtLevel(max)/panic", "%+v AtLevel(%d): %v", X, level, pan)
			}
			return
		}
		want := direct.ReadNew()
		sig := sigTernaryAtLevel
		if level == L {
			sig = "C17/ternary/AtLevel(max)/differs-from-direct-sampler"
		}
		if got.Level() != level {
			c.Fail(sig, "%+v AtLevel(%d): polynomial of level %d", X, level, got.Level())
			return
		}
		if !polyEq(got, want, level) || envA.off != envB.off {
			c.Fail(sig, "%+v AtLevel(%d): output / bytes consumed (%d vs %d) differ from a sampler built on ring.AtLevel(%d) fed the same bytes", X, level, envA.off, envB.off, level)
			return
		}
		if _, ok := ternaryValues(c, "AtLevel", r, level, mont, got); !ok {
			return
		}
		c.Outcome(name, X.P, X.H, level, op, hashPoly(got, level))
	}}
}

// ternarySparseReadAndAddScenario: ReadAndAdd(p) must be p + (what Read returns on the same bytes).
func ternaryReadAndAddScenario(ch chainT) engine.Scenario {
	name := "ternary/ReadAndAdd/" + ch.name
	return engine.Scenario{Name: name, Bound: -1, Fn: func(c *engine.Chooser) {
		kinds := []ring.Ternary{{P: 0.5}, {P: 2.0 / 3}, {H: 1}, {H: 4}, {H: N - 1}, {H: N}}
		X := kinds[c.Choose(len(kinds), "kind")]
		level := c.Choose(len(ch.mod), "level")
		mont := c.Choose(2, "montgomery") == 1
		r := ringOf(ch.mod).AtLevel(level)
		st := &stream{bgSeed: 4321}
		envA, envB := newPRNG(st), newPRNG(st)
		a := newTernary(c, envA, r, X, mont)
		b := newTernary(c, envB, r, X, mont)
		base := rampPoly(ringOf(ch.mod), level, false)
		got := rampPoly(ringOf(ch.mod), level, false)
		a.ReadAndAdd(got)
		smp := b.ReadNew()
		if ok, why := polyCongruentSum(r, got, base, smp, level); !ok {
			if X.H != 0 && X.H < N {
				c.Fail(sigSparseReadAndAdd, "H=%d level=%d: ReadAndAdd(p) != p + Read on the same bytes: %s", X.H, level, why)
			} else {
				c.Fail("C17/ternary/ReadAndAdd/not-p-plus-sample", "%+v level=%d: %s", X, level, why)
			}
			return
		}
		c.Cover("ternary-readandadd", fmt.Sprintf("P=%.2f/H=%d", X.P, X.H))
		c.Outcome(name, X.P, X.H, level, mont, hashPoly(got, level))
	}}
}

// ---------------------------------------------------------------------------------------------
// operation sequences on one source: base sampler, a max-level view, a second sampler built at a lower level on the
// same source (the lower-level *views* are judged in ternaryAtLevelScenario)

var terOps = []string{"Read", "ReadNew", "ReadAndAdd(ramp)", "AtLevel(max).Read", "AtLevel(max).ReadNew", "sampler@level0.Read", "sampler@level1.ReadAndAdd(ramp)"}

// With mont=true sampler A (and its views) is a Montgomery-output sampler while the twin stays plain: every output of A
// must be the Montgomery form of what the plain twin draws from the same bytes (the output-domain flag crossed with
// the views and the call interleavings).
func ternarySequenceScenario(kind int, depth int, mont bool) engine.Scenario {
	X := ternaryKinds[kind]
	name := fmt.Sprintf("ternary/sequences/P=%.2f,H=%d/montgomery=%v", X.P, X.H, mont)
	return engine.Scenario{Name: name, Bound: -1, Fn: func(c *engine.Chooser) {
		ch := tinyChain()
		L := len(ch.mod) - 1
		r := ringOf(ch.mod)
		st := &stream{bgSeed: 808}
		envA, envB := newPRNG(st), newPRNG(st)
		mk := func(env *scriptPRNG, m bool) (base *ring.TernarySampler, view ring.Sampler, l0, l1 *ring.TernarySampler) {
			// the base sampler goes through the generic constructor ring.NewSampler (which forwards the output-domain flag)
			s, err := ring.NewSampler(env, r, X, m)
			if err != nil {
				panic(err)
			}
			base = s.(*ring.TernarySampler)
			return base, base.AtLevel(L), newTernary(c, env, r.AtLevel(0), X, m), newTernary(c, env, r.AtLevel(1), X, m)
		}
		aBase, aView, a0, a1 := mk(envA, mont)
		bBase, bView, b0, b1 := mk(envB, false) // twin: same stream, plain output, ReadAndAdd replaced by Read
		n := 1 + c.Choose(depth, "length")
		prev := int64(0)
		for step := 0; step < n; step++ {
			// ReadAndAdd of the fixed-weight sampler is judged in ternary/ReadAndAdd (known input class), not here
			allowed := []int{0, 1, 2, 3, 4, 5, 6}
			if X.H != 0 {
				allowed = []int{0, 1, 3, 4, 5}
			}
			op := allowed[c.Choose(len(allowed), "op")]
			var got, twin ring.Poly
			level, add := L, false
			switch op {
			case 0:
				got, twin = r.NewPoly(), r.NewPoly()
				aBase.Read(got)
				bBase.Read(twin)
			case 1:
				got, twin = aBase.ReadNew(), bBase.ReadNew()
			case 2:
				got, twin, add = rampPoly(r, L, false), r.NewPoly(), true
				aBase.ReadAndAdd(got)
				bBase.Read(twin)
			case 3:
				got, twin = r.NewPoly(), r.NewPoly()
				aView.Read(got)
				bView.Read(twin)
			case 4:
				got, twin = aView.ReadNew(), bView.ReadNew()
			case 5:
				level = 0
				got, twin = r.AtLevel(0).NewPoly(), r.AtLevel(0).NewPoly()
				a0.Read(got)
				b0.Read(twin)
			case 6:
				level, add = 1, true
				got, twin = rampPoly(r, 1, false), r.AtLevel(1).NewPoly()
				a1.ReadAndAdd(got)
				b1.Read(twin)
			}
			if got.Level() != level {
				c.Fail("C17/ternary/sequence/level", "op %s returned level %d", terOps[op], got.Level())
				return
			}
			if _, ok := ternaryValues(c, "sequence", r, level, false, twin); !ok {
				return
			}
			if mont {
				twin = mformPoly(r, twin, level) // what a Montgomery-output sampler must return for these bytes
			}
			if add {
				if ok, why := polyCongruentSum(r, got, rampPoly(r, level, false), twin, level); !ok {
					c.Fail("C17/ternary/ReadAndAdd/not-p-plus-sample", "step %d %s: %s", step, terOps[op], why)
					return
				}
			} else if !polyEq(got, twin, level) {
				c.Fail("C17/ternary/sequence/not-reproducible", "step %d %s (montgomery=%v): output differs from (the Montgomery form of) what a plain sampler draws from the same bytes and call sequence", step, terOps[op], mont)
				return
			}
			if envA.off != envB.off {
				c.Fail("C17/ternary/sequence/bytes-consumed", "step %d %s: %d vs %d bytes (ReadAndAdd and Read must consume alike)", step, terOps[op], envA.off, envB.off)
				return
			}
			if envA.off <= prev {
				c.Fail("C17/ternary/sequence/no-fresh-randomness", "step %d %s consumed no bytes of the source", step, terOps[op])
				return
			}
			prev = envA.off
			c.State("ternary", kind, mont, envA.off, hashPoly(twin, level))
			c.Cover("ternary-op", terOps[op])
			c.Cover("ternary-seq-montgomery", fmt.Sprint(mont))
		}
		c.Outcome(name, envA.off)
	}}
}
