// Large rings: every sampler kind on rings of degree 2^10 .. 2^17 (the rest of C17 runs at N = 16).
//
// Faults that depend on the ring degree (a refill buffer sized by N, an index table too narrow for N >= 2^17, a byte
// count computed in a narrow type) are invisible at N = 16. This family draws a few polynomials per leaf on two moduli
// (60 and 31 bits, both = 1 mod 2^18) at N in {2^10, 2^11, 2^16, 2^17} (thorough: every power of two in between) for
// {uniform, ringqp uniform, ternary P in {1/2, 2/3}, ternary H in {1, 192, N/2, N}, Gaussian} x {Read, ReadNew,
// ReadAndAdd} x {plain, Montgomery}. The random source is the harness' scripted stream. Oracles:
//
//	uniform   bit-exact specification sampler (1024-byte refills whatever N) + bytes consumed + a WithPRNG copy of a
//	          sampler built on another source, fed the same bytes, must return the same polynomials
//	ternary   support {-1,0,1}, one integer across the moduli, exactly H non-zeros, non-zeros in both halves of the
//	          polynomial (H >= 64), density / sign balance within 6 standard deviations (P), injectivity of the index
//	          answer -> position map (H = 1: answers 0, 1, 2, N/2-1, N/2, N/2+1, N-2, N-1 select 8 different positions)
//	Gaussian  |v| <= round(bound), one integer across the moduli, mean / standard deviation within 6 standard errors
//	all       Read / ReadNew / ReadAndAdd(ramp) / Montgomery output against a plain twin sampler on the same bytes,
//	          equal byte consumption, then a Read through an AtLevel(0) view of both
package main

import (
	"fmt"
	"math"

	"github.com/tuneinsight/lattigo/v6/ring"
	"github.com/tuneinsight/lattigo/v6/ring/ringqp"

	"verif/engine"
	"verif/ref"
)

var lrQ = []uint64{ref.PrimesNear(1<<60, 1<<18, 1, true)[0], ref.PrimesNear(1<<31, 1<<18, 1, true)[0]}
var lrP = ref.PrimesNear(1<<45, 1<<18, 1, false)

var lrRingCache = map[string]*ring.Ring{}

func lrRing(n int, mod []uint64) *ring.Ring {
	k := fmt.Sprint(n, mod)
	if r, ok := lrRingCache[k]; ok {
		return r
	}
	r, err := ring.NewRing(n, mod)
	if err != nil {
		panic("c17: NewRing(large): " + err.Error())
	}
	lrRingCache[k] = r
	return r
}

func lrLogNs(thorough bool) []int {
	if thorough {
		return []int{10, 11, 12, 13, 14, 15, 16, 17}
	}
	return []int{10, 11, 16, 17}
}

type lrDist struct {
	name string
	kind int // 0 uniform, 1 ringqp uniform, 2 ternary, 3 Gaussian, 4 fixed weight 1 under enumerated index answers
	P    float64
	H    func(n int) int
}

var lrDists = []lrDist{
	{"uniform", 0, 0, nil},
	{"ringqp-uniform", 1, 0, nil},
	{"ternary-P=0.5", 2, 0.5, nil},
	{"ternary-P=0.6667", 2, 2.0 / 3, nil},
	{"ternary-H=1", 2, 0, func(n int) int { return 1 }},
	{"ternary-H=192", 2, 0, func(n int) int { return 192 }},
	{"ternary-H=N/2", 2, 0, func(n int) int { return n / 2 }},
	{"ternary-H=N", 2, 0, func(n int) int { return n }},
	{"gaussian-sigma=3.2", 3, 0, nil},
	{"ternary-H=1/index-answers", 4, 0, nil},
}

var lrOps = []string{"Read", "ReadNew", "ReadAndAdd(ramp)"}

const lrSigma, lrBound = 3.2, 19.2

func lrRamp(r *ring.Ring, level int) ring.Poly {
	p := r.AtLevel(level).NewPoly()
	for i, q := range r.ModuliChain()[:level+1] {
		row := p.Coeffs[i]
		for j := range row {
			row[j] = (uint64(7*j+3) * 0x9E3779B97F4A7C15) % q
		}
	}
	return p
}

// lrApply runs one operation of s at `level` (s must be a sampler of that level).
func lrApply(s ring.Sampler, r *ring.Ring, op, level int) ring.Poly {
	switch op {
	case 0:
		p := lrRamp(r, level) // Read must overwrite whatever the polynomial held
		s.Read(p)
		return p
	case 1:
		return s.ReadNew()
	default:
		p := lrRamp(r, level)
		s.ReadAndAdd(p)
		return p
	}
}

// lrSmall decodes rows (levels 0..level) into one small centred integer per coefficient; ok=false with the first
// coefficient whose residues are not those of one integer. mont: rows are in Montgomery form.
func lrSmall(r *ring.Ring, rows [][]uint64, level int, mont bool) (v []int64, bad int) {
	mod := r.ModuliChain()[:level+1]
	n := len(rows[0])
	v = make([]int64, n)
	for i, q := range mod {
		invR := uint64(1)
		if mont {
			invR = ref.InvMod(ref.Pow2Mod(64, q), q)
		}
		for j := 0; j < n; j++ {
			x := rows[i][j] % q
			if mont {
				x = ref.MulMod(x, invR, q)
			}
			c := int64(x)
			if x > q/2 {
				c = int64(x) - int64(q)
			}
			if i == 0 {
				v[j] = c
			} else if c != v[j] {
				return v, j
			}
		}
	}
	return v, -1
}

// lrExpect returns what the sampler under test must have produced: the plain twin sample, in Montgomery form when
// mont, added to the ramp when add; reduced mod q_i.
func lrExpect(r *ring.Ring, smp ring.Poly, level int, mont, add bool) [][]uint64 {
	mod := r.ModuliChain()[:level+1]
	out := make([][]uint64, level+1)
	var ramp ring.Poly
	if add {
		ramp = lrRamp(r, level)
	}
	for i, q := range mod {
		R := ref.Pow2Mod(64, q)
		row := make([]uint64, len(smp.Coeffs[i]))
		for j := range row {
			x := smp.Coeffs[i][j] % q
			if mont {
				x = ref.MulMod(x, R, q)
			}
			if add {
				x = ref.AddMod(ramp.Coeffs[i][j], x, q)
			}
			row[j] = x
		}
		out[i] = row
	}
	return out
}

// lrSame compares got with want on levels 0..level; reduce: got may hold unreduced words (ReadAndAdd documents no range).
func lrSame(r *ring.Ring, got [][]uint64, want [][]uint64, level int, reduce bool) (bool, string) {
	for i, q := range r.ModuliChain()[:level+1] {
		if len(got[i]) != len(want[i]) {
			return false, fmt.Sprintf("level %d has %d coefficients, want %d", i, len(got[i]), len(want[i]))
		}
		for j := range want[i] {
			g := got[i][j]
			if reduce {
				g %= q
			}
			if g != want[i][j] {
				return false, fmt.Sprintf("level %d coefficient %d: %d, want %d (mod %d)", i, j, g, want[i][j], q)
			}
		}
	}
	return true, ""
}

func largeRingScenario(logN int, d lrDist) engine.Scenario {
	name := fmt.Sprintf("large-ring/N=2^%d/%s", logN, d.name)
	n := 1 << logN
	tag := fmt.Sprintf("2^%d/%s", logN, d.name)
	return engine.Scenario{Name: name, Bound: -1, Fn: func(c *engine.Chooser) {
		switch d.kind {
		case 0:
			lrUniform(c, name, logN)
		case 1:
			lrRingQP(c, name, logN)
		case 2:
			X := ring.Ternary{P: d.P}
			if d.H != nil {
				X = ring.Ternary{H: d.H(n)}
			}
			lrSmallSampler(c, name, logN, X, d.name)
		case 3:
			lrSmallSampler(c, name, logN, ring.DiscreteGaussian{Sigma: lrSigma, Bound: lrBound}, d.name)
		case 4:
			lrIndexAnswers(c, name, logN)
		}
		if !c.Failed() {
			c.Cover("large-ring", tag)
		}
	}}
}

// ---------------------------------------------------------------------------------------------
// uniform

func lrUniform(c *engine.Chooser, name string, logN int) {
	n := 1 << logN
	op := c.Choose(len(lrOps), "op")
	r := lrRing(n, lrQ)
	L := r.MaxLevel()
	st := &stream{bgSeed: 2024 + uint64(logN)}
	envA, envB, envM := newPRNG(st), newPRNG(st), newPRNG(st)
	a := ring.NewUniformSampler(envA, r)
	b := ring.NewUniformSampler(newPRNG(&stream{bgSeed: 1}), r).WithPRNG(envB)
	model := &refUniform{src: envM}
	type stepT struct {
		op, level int
		view      bool
	}
	var h uint64
	for k, s := range []stepT{{op, L, false}, {0, 0, true}, {op, L, false}} {
		var sa, sb ring.Sampler = a, b
		if s.view {
			sa, sb = a.AtLevel(s.level), b.AtLevel(s.level)
		}
		rl := r.AtLevel(s.level)
		gotA, gotB := lrApply(sa, rl, s.op, s.level), lrApply(sb, rl, s.op, s.level)
		if gotA.Level() != s.level || len(gotA.Coeffs[0]) != n {
			c.Fail("C17/large-ring/uniform/shape", "N=2^%d step %d %s: level %d with %d coefficients", logN, k, lrOps[s.op], gotA.Level(), len(gotA.Coeffs[0]))
			return
		}
		want := model.sampleN(lrQ, s.level, n)
		add := s.op == 2
		if add {
			ramp := lrRamp(rl, s.level)
			for i, q := range lrQ[:s.level+1] {
				for j := range want[i] {
					want[i][j] = ref.AddMod(ramp.Coeffs[i][j], want[i][j], q)
				}
			}
		}
		if ok, why := lrSame(rl, gotA.Coeffs, want, s.level, add); !ok {
			c.Fail("C17/large-ring/uniform/differs-from-specification-sampler", "N=2^%d step %d %s: %s", logN, k, lrOps[s.op], why)
			return
		}
		if envA.off != envM.off {
			c.Fail("C17/large-ring/uniform/bytes-consumed", "N=2^%d step %d %s: sampler consumed %d bytes of the source, specification %d", logN, k, lrOps[s.op], envA.off, envM.off)
			return
		}
		if ok, why := lrSame(rl, gotB.Coeffs, gotA.Coeffs, s.level, false); !ok || envB.off != envA.off {
			c.Fail("C17/large-ring/uniform/WithPRNG-copy-differs", "N=2^%d step %d %s: a WithPRNG copy fed the same bytes differs from a sampler constructed on them (bytes consumed %d vs %d) %s", logN, k, lrOps[s.op], envB.off, envA.off, why)
			return
		}
		h = hashPoly(gotA, s.level)
		c.State("large-ring/uniform", logN, envA.off, model.ptr)
	}
	c.Count(6)
	c.Outcome(name, op, envA.off, h)
}

var lrQPOps = []string{"Read", "ReadNew", "AtLevel(0,0).ReadNew", "AtLevel(1,-1).Read"}

func lrRingQP(c *engine.Chooser, name string, logN int) {
	n := 1 << logN
	op := c.Choose(len(lrQPOps), "op")
	rQ, rP := lrRing(n, lrQ), lrRing(n, lrP)
	qp := ringqp.Ring{RingQ: rQ, RingP: rP}
	st := &stream{bgSeed: 4048 + uint64(logN)}
	envA, envB, envM := newPRNG(st), newPRNG(st), newPRNG(st)
	a := ringqp.NewUniformSampler(envA, qp)
	b := ringqp.NewUniformSampler(newPRNG(&stream{bgSeed: 2}), qp).WithPRNG(envB)
	mQ, mP := &refUniform{src: envM}, &refUniform{src: envM}
	run := func(s ringqp.UniformSampler, o int) (p ringqp.Poly, lq, lp int) {
		switch o {
		case 0:
			p = ringqp.Poly{Q: lrRamp(rQ, 1), P: lrRamp(rP, 0)}
			s.Read(p)
			return p, 1, 0
		case 1:
			return s.ReadNew(), 1, 0
		case 2:
			return s.AtLevel(0, 0).ReadNew(), 0, 0
		default:
			p = ringqp.Poly{Q: lrRamp(rQ, 1)}
			s.AtLevel(1, -1).Read(p)
			return p, 1, -1
		}
	}
	var h uint64
	for k, o := range []int{op, 0, op} {
		gotA, lq, lp := run(a, o)
		gotB, _, _ := run(b, o)
		if gotA.Q.Level() != lq || gotA.P.Level() != lp {
			c.Fail("C17/large-ring/ringqp/shape", "N=2^%d step %d %s: levels (%d,%d), want (%d,%d)", logN, k, lrQPOps[o], gotA.Q.Level(), gotA.P.Level(), lq, lp)
			return
		}
		if ok, why := lrSame(rQ, gotA.Q.Coeffs, mQ.sampleN(lrQ, lq, n), lq, false); !ok {
			c.Fail("C17/large-ring/ringqp/differs-from-specification-sampler", "N=2^%d step %d %s Q part: %s", logN, k, lrQPOps[o], why)
			return
		}
		if lp >= 0 {
			if ok, why := lrSame(rP, gotA.P.Coeffs, mP.sampleN(lrP, lp, n), lp, false); !ok {
				c.Fail("C17/large-ring/ringqp/differs-from-specification-sampler", "N=2^%d step %d %s P part: %s", logN, k, lrQPOps[o], why)
				return
			}
		}
		if envA.off != envM.off {
			c.Fail("C17/large-ring/ringqp/bytes-consumed", "N=2^%d step %d %s: sampler consumed %d bytes of the source, specification %d", logN, k, lrQPOps[o], envA.off, envM.off)
			return
		}
		okQ, whyQ := lrSame(rQ, gotB.Q.Coeffs, gotA.Q.Coeffs, lq, false)
		okP, whyP := true, ""
		if lp >= 0 {
			okP, whyP = lrSame(rP, gotB.P.Coeffs, gotA.P.Coeffs, lp, false)
		}
		if !okQ || !okP || envB.off != envA.off {
			c.Fail("C17/large-ring/ringqp/WithPRNG-copy-differs", "N=2^%d step %d %s: a WithPRNG copy fed the same bytes differs from a sampler constructed on them (bytes consumed %d vs %d) Q: %s P: %s", logN, k, lrQPOps[o], envB.off, envA.off, whyQ, whyP)
			return
		}
		h = hashPoly(gotA.Q, lq)
		c.State("large-ring/ringqp", logN, envA.off, mQ.ptr, mP.ptr)
	}
	c.Count(6)
	c.Outcome(name, op, envA.off, h)
}

// ---------------------------------------------------------------------------------------------
// ternary and Gaussian: small integer vectors

func lrSmallSampler(c *engine.Chooser, name string, logN int, X ring.DistributionParameters, dname string) {
	n := 1 << logN
	op := c.Choose(len(lrOps), "op")
	mont := c.Choose(2, "montgomery") == 1
	r := lrRing(n, lrQ)
	L := r.MaxLevel()
	st := &stream{bgSeed: 7000 + uint64(logN)}
	envA, envB := newPRNG(st), newPRNG(st)
	a, err := ring.NewSampler(envA, r, X, mont)
	if err != nil {
		panic(err)
	}
	b, err := ring.NewSampler(envB, r, X, false)
	if err != nil {
		panic(err)
	}
	site := "ternary"
	if _, ok := X.(ring.DiscreteGaussian); ok {
		site = "gaussian"
	}
	var h uint64
	type stepT struct {
		op, level int
		view      bool
	}
	for k, s := range []stepT{{op, L, false}, {0, 0, true}} {
		var sa, sb ring.Sampler = a, b
		if s.view {
			sa, sb = a.AtLevel(s.level), b.AtLevel(s.level)
		}
		rl := r.AtLevel(s.level)
		got := lrApply(sa, rl, s.op, s.level)
		smp := sb.ReadNew() // plain twin on the same bytes
		if got.Level() != s.level || smp.Level() != s.level || len(got.Coeffs[0]) != n {
			c.Fail("C17/large-ring/"+site+"/shape", "N=2^%d %s step %d %s: levels %d / %d, %d coefficients", logN, dname, k, lrOps[s.op], got.Level(), smp.Level(), len(got.Coeffs[0]))
			return
		}
		v, bad := lrSmall(rl, smp.Coeffs, s.level, false)
		if bad >= 0 {
			c.Fail("C17/large-ring/"+site+"/inconsistent-across-moduli", "N=2^%d %s step %d: coefficient %d does not represent one integer on levels 0..%d", logN, dname, k, bad, s.level)
			return
		}
		if !lrJudge(c, site, logN, dname, X, v) {
			return
		}
		add := s.op == 2
		if ok, why := lrSame(rl, got.Coeffs, lrExpect(rl, smp, s.level, mont, add), s.level, true); !ok { // judged by the integer represented (the Gaussian sampler emits q_i for -0)
			sig := "C17/large-ring/" + site + "/" + lrOps[s.op] + "/differs-from-plain-twin-on-the-same-bytes"
			c.Fail(sig, "N=2^%d %s montgomery=%v step %d %s: %s", logN, dname, mont, k, lrOps[s.op], why)
			return
		}
		if envA.off != envB.off {
			c.Fail("C17/large-ring/"+site+"/bytes-consumed", "N=2^%d %s step %d %s: %d vs %d bytes (every read variant must consume alike)", logN, dname, k, lrOps[s.op], envA.off, envB.off)
			return
		}
		h = hashPoly(smp, s.level)
		c.State("large-ring/"+site, logN, dname, envA.off, h)
	}
	c.Count(4)
	c.Outcome(name, op, mont, envA.off, h)
}

// lrJudge applies the distribution contract to one integer vector.
func lrJudge(c *engine.Chooser, site string, logN int, dname string, X ring.DistributionParameters, v []int64) bool {
	n := len(v)
	switch X := X.(type) {
	case ring.Ternary:
		nz, plus, lower := 0, 0, 0
		for j, x := range v {
			if x < -1 || x > 1 {
				c.Fail("C17/large-ring/ternary/out-of-support", "N=2^%d %s: coefficient %d = %d not in {-1,0,1}", logN, dname, j, x)
				return false
			}
			if x != 0 {
				nz++
				if j < n/2 {
					lower++
				}
			}
			if x == 1 {
				plus++
			}
		}
		if X.H != 0 {
			H := X.H
			if H > n {
				H = n
			}
			if nz != H {
				c.Fail("C17/large-ring/ternary/H/hamming-weight", "N=2^%d %s: %d non-zero coefficients (%d in the lower half), want exactly H=%d", logN, dname, nz, lower, H)
				return false
			}
			if H >= 64 && (lower == 0 || lower == nz) {
				c.Fail("C17/large-ring/ternary/H/positions-confined-to-one-half", "N=2^%d %s: %d of the %d non-zero coefficients are in the lower half (a uniform choice of positions does that with probability < 2^-63)", logN, dname, lower, nz)
				return false
			}
		} else {
			mean, sd := float64(n)*X.P, math.Sqrt(float64(n)*X.P*(1-X.P))
			if d := float64(nz) - mean; math.Abs(d) > 6*sd {
				c.Fail("C17/large-ring/ternary/P/density", "N=2^%d %s: %d non-zero coefficients, contract %.0f +- %.1f (6 standard deviations)", logN, dname, nz, mean, 6*sd)
				return false
			}
		}
		if nz >= 64 {
			if d := float64(2*plus - nz); math.Abs(d) > 6*math.Sqrt(float64(nz)) {
				c.Fail("C17/large-ring/ternary/signs-not-balanced", "N=2^%d %s: %d positive of %d non-zero coefficients", logN, dname, plus, nz)
				return false
			}
		}
	case ring.DiscreteGaussian:
		maxAbs := int64(math.Floor(X.Bound + 0.5))
		var s1, s2 float64
		for j, x := range v {
			if x < -maxAbs || x > maxAbs {
				c.Fail("C17/large-ring/gaussian/out-of-bound", "N=2^%d %s: coefficient %d = %d, |.| > round(bound) = %d", logN, dname, j, x, maxAbs)
				return false
			}
			s1 += float64(x)
			s2 += float64(x) * float64(x)
		}
		mean := s1 / float64(n)
		sd := math.Sqrt(s2/float64(n) - mean*mean)
		lo, hi := 0.97*X.Sigma, 1.03*math.Sqrt(X.Sigma*X.Sigma+1.0/12)
		tol := 6 / math.Sqrt(2*float64(n))
		if sd < lo*(1-tol) || sd > hi*(1+tol) || math.Abs(mean) > 0.03*X.Sigma+6*X.Sigma/math.Sqrt(float64(n)) {
			c.Fail("C17/large-ring/gaussian/moments", "N=2^%d %s: mean %.4f standard deviation %.4f over %d coefficients, parameter sigma=%v", logN, dname, mean, sd, n, X.Sigma)
			return false
		}
	}
	return true
}

// ---------------------------------------------------------------------------------------------
// fixed weight 1: the N equiprobable index answers must select N different positions

func lrIndexAnswers(c *engine.Chooser, name string, logN int) {
	n := 1 << logN
	op := c.Choose(len(lrOps), "op")
	mont := c.Choose(2, "montgomery") == 1
	sign := byte(c.Choose(2, "sign-bit"))
	r := lrRing(n, lrQ)
	L := r.MaxLevel()
	mask := uint32(2*n - 1) // candidates are masked to the bit length of N
	answers := []uint32{0, 1, 2, uint32(n/2 - 1), uint32(n / 2), uint32(n/2 + 1), uint32(n - 2), uint32(n - 1)}
	seen := map[int]uint32{}
	for _, ans := range answers {
		// one byte of sign bits, one rejected candidate (= N), then the answer with the ignored high bits set
		pre := []byte{sign}
		pre = append(pre, be32(uint32(n))...)
		pre = append(pre, be32(ans|^mask)...)
		env := newPRNG(&stream{prefix: pre, bgSeed: 9})
		ts, err := ring.NewSampler(env, r, ring.Ternary{H: 1}, mont)
		if err != nil {
			panic(err)
		}
		var got ring.Poly
		switch op {
		case 0:
			got = lrRamp(r, L)
			ts.Read(got)
		case 1:
			got = ts.ReadNew()
		default:
			got = r.NewPoly()
			ts.ReadAndAdd(got)
		}
		v, bad := lrSmall(r, got.Coeffs, L, mont)
		if bad >= 0 {
			c.Fail("C17/large-ring/ternary/inconsistent-across-moduli", "N=2^%d H=1 index answer %d: coefficient %d does not represent one integer", logN, ans, bad)
			return
		}
		pos, nz := -1, 0
		want := int64(1) - 2*int64(sign)
		for j, x := range v {
			if x != 0 {
				nz++
				pos = j
				if x != want {
					c.Fail("C17/large-ring/ternary/out-of-support", "N=2^%d H=1 index answer %d sign bit %d: coefficient %d = %d, want %d", logN, ans, sign, j, x, want)
					return
				}
			}
		}
		if nz != 1 {
			c.Fail("C17/large-ring/ternary/H/hamming-weight", "N=2^%d H=1 index answer %d: %d non-zero coefficients", logN, ans, nz)
			return
		}
		if prev, dup := seen[pos]; dup {
			c.Fail("C17/large-ring/ternary/H/index-answers-collide", "N=2^%d H=1: index answers %d and %d both select position %d (N equiprobable answers must select N different positions)", logN, prev, ans, pos)
			return
		}
		seen[pos] = ans
		if env.off != int64(len(pre)) {
			c.Fail("C17/large-ring/ternary/bytes-consumed", "N=2^%d H=1: consumed %d bytes, want %d (sign byte, one rejected and one accepted 4-byte candidate)", logN, env.off, len(pre))
			return
		}
	}
	c.Count(len(answers))
	c.Outcome(name, op, mont, sign, fmt.Sprint(seen))
}
