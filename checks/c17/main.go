// C17 — samplers respect their distribution contract and are reproducible from a seed.
//
// The environment seam is the harness's own sampling.PRNG whose bytes are enumerated answers (env.go). Samplers are the
// real ring / ringqp / multiparty / rlwe code:
//
//	uniform.go   bit-exact specification sampler; boundary answers; all operation sequences over level views (depth<=4)
//	ternary.go   P=1/2: all four bit pairs per position; Knuth-Yao: exact masses over all 16-bit prefixes; every H in 1..N
//	             with enumerated index answers; level views; ReadAndAdd law; operation sequences
//	gaussian.go  support/consistency under enumerated ziggurat answers (all 128 strips, slow paths, refill); stratified
//	             quadrature of mean/sd; big-number path; ReadAndAdd law; operation sequences over level views
//	largering.go every sampler kind at N = 2^10 .. 2^17 on two moduli (specification sampler, twin sampler, support, exact H,
//	             moments): faults that depend on the ring degree
//	refused.go   what a refused call leaves behind: Expand with every kind of illegal buffer then a legal Expand on the same
//	             key; every sampler after an illegal receiver / level; (encryptor.go: refused EncryptZero in the mask stream)
//	repro.go     KeyedPRNG equal keys / Reset / every one-bit key flip; samplers on keyed generators; SampleCRP;
//	             EvaluationKey.Expand
package main

import (
	"fmt"
	"time"

	"verif/engine"
)

func scenarios(tier string) []engine.Scenario {
	thorough := tier == "thorough"
	var scs []engine.Scenario
	chains := []chainT{tinyChain(), mixedChain(), bigChain()}
	seqDepth, qpDepth, terDepth, gauDepth, crpDepth := 5, 3, 4, 4, 3
	momentsReads, lvlDepth, encDepth := 4096, 3, 3
	if thorough {
		seqDepth, qpDepth, terDepth, gauDepth, crpDepth = 7, 4, 7, 6, 5
		momentsReads, lvlDepth, encDepth = 1<<16, 4, 4
	}
	for _, ch := range chains {
		scs = append(scs, uniformAnswersScenario(ch))
	}
	for _, ch := range []chainT{tinyChain(), mixedChain()} {
		for first := range uniOps {
			scs = append(scs, uniformSequenceScenario(ch, seqDepth, first))
		}
		scs = append(scs, ternaryHalfScenario(ch), ternarySparseScenario(ch), ternaryAtLevelScenario(ch), ternaryReadAndAddScenario(ch))
	}
	for first := range qpOps {
		scs = append(scs, ringqpSequenceScenario(qpDepth, first))
	}
	ps := []float64{2.0 / 3, 0.25, 1.0 / 3, 0.9}
	if thorough {
		ps = append(ps, 0.03125, 0.999, 0.75, 0.1)
	}
	for _, P := range ps {
		scs = append(scs, ternaryKYScenario(P), ternaryKYJointScenario(P))
		for _, ch := range []chainT{tinyChain(), mixedChain()} {
			scs = append(scs, ternaryKYSupportScenario(P, ch))
		}
	}
	for kind := range ternaryKinds {
		scs = append(scs, ternarySequenceScenario(kind, terDepth, false), ternarySequenceScenario(kind, terDepth, true))
	}
	for _, cfg := range gaussSmallCfgs() {
		scs = append(scs, gaussianAnswersScenario(cfg))
		scs = append(scs, gaussianMomentsScenario(cfg, momentsReads))
		scs = append(scs, gaussianMontgomeryViewsScenario(cfg, gauDepth))
	}
	for _, cfg := range []gaussCfg{gaussSmallCfgs()[2], gaussSmallCfgs()[4]} {
		for first := range gauOps {
			scs = append(scs, gaussianSequenceScenario(cfg, gauDepth, first))
		}
	}
	scs = append(scs, gaussianBigScenario(), gaussianReadAndAddScenario(), gaussianWideScenario())
	scs = append(scs, prngScenario(), prngKeyBufferScenario(), prngReusedBufferScenario(), samplerReproScenario(), crpScenario(), crpSequenceScenario(crpDepth), expandScenario())
	for _, ch := range []chainT{tinyChain(), mixedChain()} {
		scs = append(scs, constructionLevelScenario(ch, lvlDepth))
	}
	scs = append(scs, ringqpConstructionLevelScenario(2))
	for first := range encOps {
		scs = append(scs, encryptorMaskStreamScenario(first, encDepth))
	}
	scs = append(scs, expandRefusedScenario(), samplerRefusedScenario())
	for _, logN := range lrLogNs(thorough) {
		for _, d := range lrDists {
			scs = append(scs, largeRingScenario(logN, d))
		}
	}
	return scs
}

func main() {
	engine.Main(engine.Check{
		ID:    "C17",
		Level: "model_checking",
		Rule: "The random source is the harness: every leaf fixes the bytes the sampler will read (enumerated boundary answers in a window, a fixed background elsewhere). " +
			"Leaves = (sampler kind, parameters, level, Montgomery flag, enumerated answer) or one operation sequence (Read/ReadNew/ReadAndAdd on the base sampler and its level views, depth<=4 quick) " +
			"on one shared source; uniform samplers are compared bit for bit with a specification sampler stepped on the same bytes, ternary/Gaussian ones with a twin sampler on the same bytes plus " +
			"support / cross-modulus consistency / exact counting (all 4 bit pairs per position, all 65536 16-bit Knuth-Yao prefixes, every H in 1..N). states = (sampler kind, bytes consumed, buffer position or output hash).",
		Assumptions: []string{
			"coefficients are judged by the integer they represent (residues reduced mod q_i; the Gaussian sampler emits q_i for -0 and ReadAndAdd documents no range)",
			"Gaussian float path: bound < min q_i / 2 except in the dedicated scenario gaussian/value-wider-than-a-modulus",
			"'standard deviation matching the parameter' accepts [0.97·sigma, 1.03·sqrt(sigma^2+1/12)] (rounded continuous Gaussian) over a fixed stratified enumeration of 65536 draws; |mean| <= 0.03·sigma",
			"Knuth-Yao exact masses: tolerance 2^-12 derived from the DDG tree (at most 2 undecided nodes per level after 15 bits), not a statistical threshold",
			"level views of ternary samplers with level < max are isolated in ternary/AtLevel-views; fixed-weight ReadAndAdd in ternary/ReadAndAdd; Montgomery Gaussian ReadAndAdd in gaussian/ReadAndAdd",
			"'unrelated streams' for keys differing in one bit: Hamming distance of the first 4096 bits within [40%,60%]",
		},
		Scenarios:      scenarios,
		QuickBudget:    150 * time.Second,
		ThoroughBudget: 25 * time.Minute,
		Expect: func(tier string) []string {
			e := []string{"uniform-refill=second-buffer", "gaussian-refill=second-buffer", "prng=reset", "prng-bitflips=32", "prng-bitflips=64",
				"crp=0", "crp=1", "crp=2", "crp=3", "expand=levelP=-1", "expand=levelP=0", "expand=levelP=1", "expand=levelP=2", "expand-params=0", "expand-params=1", "expand-params=2", "expand-relin=true", "expand-relin=false",
				"gaussian-readandadd=montgomery=false", "gaussian-wide=sign=1", "gaussian-big=kind=0", "gaussian-big=kind=1",
				"ternary-atlevel=level=2/max=2", "ternary-readandadd=P=0.50/H=0", "ternary-readandadd=P=0.67/H=0", "ternary-readandadd=P=0.00/H=16"}
			for _, o := range uniOps {
				e = append(e, "uniform-op="+o)
			}
			for _, o := range qpOps {
				e = append(e, "ringqp-op="+o)
			}
			for _, o := range gauOps {
				e = append(e, "gaussian-op="+o)
			}
			for _, o := range terOps {
				e = append(e, "ternary-op="+o)
			}
			for _, o := range encOps {
				e = append(e, "encryptor-op="+o.name)
			}
			for _, o := range crpKinds {
				e = append(e, "crp-sequence="+o)
			}
			for _, o := range gauViewOps {
				e = append(e, "gaussian-montgomery-view-op="+o)
			}
			e = append(e, "ternary-seq-montgomery=true", "ternary-seq-montgomery=false", "construction-level=raised", "construction-level-ringqp=raised", "construction-level-ringqp=not-raised", "construction-level=lowered", "construction-level=same",
				"prng-reused-buffer=2", "prng-reused-buffer=4")
			for _, k := range levelKinds(tinyChain()) {
				e = append(e, "construction-level-kind="+k.name)
			}
			for _, mu := range keyMutations {
				for _, w := range keyMutationTimes {
					e = append(e, "prng-key-buffer="+mu+"/"+w)
				}
			}
			for k := 0; k < 4; k++ {
				e = append(e, fmt.Sprintf("uniform-rejections=%d", k))
			}
			for H := 1; H <= N; H++ {
				e = append(e, fmt.Sprintf("ternary-H=%d", H))
			}
			for _, cfg := range gaussSmallCfgs() {
				e = append(e, "gaussian-answers="+cfg.name, "gaussian-moments="+cfg.name)
			}
			for _, k := range samplerKinds() {
				e = append(e, "repro-sampler="+k.name)
			}
			for _, logN := range lrLogNs(tier == "thorough") {
				for _, d := range lrDists {
					e = append(e, fmt.Sprintf("large-ring=2^%d/%s", logN, d.name))
				}
			}
			for _, k := range expandBufKinds {
				e = append(e, "expand-first-call="+k)
			}
			for _, k := range refusedCalls {
				e = append(e, "refused-call="+k)
			}
			for _, k := range refusedSamplerKinds {
				e = append(e, "refused-call-sampler="+k)
			}
			e = append(e, "refused-call-outcome=panic")
			e = append(e, "ternary-ky=0.6667", "ternary-ky=0.2500", "ternary-half=tiny", "ternary-half=mixed")
			return e
		},
	})
}
