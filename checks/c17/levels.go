// Construction level as an axis: every sampler kind is built on a LOWERED view of the ring (r.AtLevel(l0), every l0)
// and then read through AtLevel(l) for every l — lowered further (l<l0), unchanged, or RAISED above the level it was
// constructed on (l>l0; the ring view still carries the full moduli chain, so this is admissible and is what a caller
// holding params.RingQ().AtLevel(k) gets). "This holds at every level ... whatever the interleaving of calls on level
// views sharing one source": the result must not depend on the level of the ring the sampler happened to be built on.
//
// Oracles per step: support + one-integer-across-moduli at the view's level, and bit-identity with a twin sampler of
// the same kind built on the FULL ring, fed the same bytes and driven through the same views (ReadAndAdd(p) ≡ p + twin.Read).
package main

import (
	"fmt"

	"github.com/tuneinsight/lattigo/v6/ring"
	"github.com/tuneinsight/lattigo/v6/ring/ringqp"
	"github.com/tuneinsight/lattigo/v6/utils/sampling"

	"verif/engine"
)

type levelKind struct {
	name  string
	mont  bool
	mk    func(p sampling.PRNG, r *ring.Ring) ring.Sampler
	judge func(c *engine.Chooser, r *ring.Ring, level int, pol ring.Poly) bool
	noAdd bool // ReadAndAdd is a known input class for this kind (judged elsewhere)
}

func levelKinds(ch chainT) []levelKind {
	var ks []levelKind
	for _, mont := range []bool{false, true} {
		mont := mont
		for _, X := range ternaryKinds {
			X := X
			ks = append(ks, levelKind{
				name: fmt.Sprintf("ternary(P=%.2f,H=%d,montgomery=%v)", X.P, X.H, mont), mont: mont,
				mk: func(p sampling.PRNG, r *ring.Ring) ring.Sampler {
					s, err := ring.NewTernarySampler(p, r, X, mont)
					if err != nil {
						panic(err)
					}
					return s
				},
				judge: func(c *engine.Chooser, r *ring.Ring, level int, pol ring.Poly) bool {
					_, ok := ternaryValues(c, "construction-level", r, level, mont, pol)
					return ok
				},
			})
		}
		cfg := gaussCfg{"sigma=3.2", 3.2, 19.2, ch}
		ks = append(ks, levelKind{
			name: fmt.Sprintf("gaussian(3.2,montgomery=%v)", mont), mont: mont, noAdd: mont,
			mk: func(p sampling.PRNG, r *ring.Ring) ring.Sampler {
				return ring.NewGaussianSampler(p, r, ring.DiscreteGaussian{Sigma: cfg.sigma, Bound: cfg.bound}, mont)
			},
			judge: func(c *engine.Chooser, r *ring.Ring, level int, pol ring.Poly) bool {
				_, ok := gaussValues(c, "construction-level", cfg, r, level, mont, pol)
				return ok
			},
		})
	}
	ks = append(ks, levelKind{
		name: "uniform",
		mk:   func(p sampling.PRNG, r *ring.Ring) ring.Sampler { return ring.NewUniformSampler(p, r) },
		judge: func(c *engine.Chooser, r *ring.Ring, level int, pol ring.Poly) bool {
			for i, q := range r.ModuliChain()[:level+1] {
				for j := 0; j < N; j++ {
					if pol.Coeffs[i][j] >= q {
						c.Fail("C17/uniform/construction-level/out-of-range", "level %d coefficient %d = %d >= q=%d", i, j, pol.Coeffs[i][j], q)
						return false
					}
				}
			}
			return true
		},
	})
	return ks
}

var levelOps = []string{"ReadNew", "Read", "ReadAndAdd(ramp)"}

func constructionLevelScenario(ch chainT, depth int) engine.Scenario {
	name := "construction-level/" + ch.name
	return engine.Scenario{Name: name, Bound: -1, Fn: func(c *engine.Chooser) {
		kinds := levelKinds(ch)
		k := kinds[c.Choose(len(kinds), "sampler")]
		L := len(ch.mod) - 1
		l0 := c.Choose(L+1, "construction-level")
		r := ringOf(ch.mod)
		st := &stream{bgSeed: 1717}
		envA, envB := newPRNG(st), newPRNG(st)
		a := k.mk(envA, r.AtLevel(l0)) // built on the lowered ring view
		b := k.mk(envB, r)             // twin built on the full ring
		n := 1 + c.Choose(depth, "length")
		for step := 0; step < n; step++ {
			l := c.Choose(L+1, "level")
			nOps := len(levelOps)
			if k.noAdd {
				nOps = 2
			}
			op := c.Choose(nOps, "op")
			direct := l == l0 && c.Choose(2, "through-view") == 0 // at the construction level also without any view
			va := a
			if !direct {
				va = a.AtLevel(l)
			}
			vb := b.AtLevel(l)
			rl := r.AtLevel(l)
			var got ring.Poly
			twin := rl.NewPoly()
			add := false
			switch op {
			case 0:
				got = va.ReadNew()
			case 1:
				got = rl.NewPoly()
				va.Read(got)
			case 2:
				got, add = rampPoly(r, l, false), true
				va.ReadAndAdd(got)
			}
			vb.Read(twin)
			rel := "lowered"
			if l > l0 {
				rel = "raised"
			} else if l == l0 {
				rel = "same"
			}
			ctx := fmt.Sprintf("%s built on ring.AtLevel(%d), read at level %d (%s) with %s, step %d", k.name, l0, l, rel, levelOps[op], step)
			if got.Level() != l {
				c.Fail("C17/construction-level/"+rel+"/polynomial-level", "%s: polynomial of level %d", ctx, got.Level())
				return
			}
			if !k.judge(c, r, l, twin) {
				return
			}
			if add {
				if ok, why := polyCongruentSum(r, got, rampPoly(r, l, false), twin, l); !ok {
					c.Fail("C17/construction-level/"+rel+"/differs-from-sampler-built-on-full-ring", "%s: ReadAndAdd(p) != p + (what the sampler built on the full ring reads from the same bytes): %s", ctx, why)
					return
				}
			} else {
				if !k.judge(c, r, l, got) {
					c.Note("%s", ctx)
					return
				}
				if !polyEq(got, twin, l) {
					c.Fail("C17/construction-level/"+rel+"/differs-from-sampler-built-on-full-ring", "%s: output differs from the same kind of sampler built on the full ring and fed the same bytes", ctx)
					return
				}
			}
			if envA.off != envB.off {
				c.Fail("C17/construction-level/"+rel+"/bytes-consumed", "%s: %d vs %d bytes", ctx, envA.off, envB.off)
				return
			}
			c.State("construction-level", k.name, l0, l, envA.off)
			c.Cover("construction-level", rel)
			c.Cover("construction-level-kind", k.name)
		}
		c.Outcome(name, k.name, l0, envA.off)
	}}
}

// ringqpConstructionLevelScenario: ringqp.UniformSampler built on a lowered ringqp view (every (lq0, lp0)), read through
// AtLevel at every (lq, lp) incl. -1 and incl. raised levels; bit-exact against the specification sampler.
func ringqpConstructionLevelScenario(depth int) engine.Scenario {
	name := "construction-level/ringqp"
	return engine.Scenario{Name: name, Bound: -1, Fn: func(c *engine.Chooser) {
		modQ, modP := mixedChain().mod, pChain()
		rQ, rP := ringOf(modQ), ringOf(modP)
		lq0 := c.Choose(len(modQ), "construction-levelQ")
		lp0 := c.Choose(len(modP), "construction-levelP")
		qp := ringqp.Ring{RingQ: rQ, RingP: rP}
		st := &stream{bgSeed: 9090}
		envA, envM := newPRNG(st), newPRNG(st)
		s := ringqp.NewUniformSampler(envA, qp.AtLevel(lq0, lp0))
		mQ, mP := &refUniform{src: envM}, &refUniform{src: envM}
		n := 1 + c.Choose(depth, "length")
		for step := 0; step < n; step++ {
			lq := c.Choose(len(modQ)+1, "levelQ+1") - 1
			lp := c.Choose(len(modP)+1, "levelP+1") - 1
			if lq < 0 && lp < 0 {
				c.Skip("no part requested")
				return
			}
			view := !(lq == lq0 && lp == lp0) || c.Choose(2, "through-view") == 1
			newp := c.Choose(2, "ReadNew") == 1
			smp := s
			if view {
				smp = s.AtLevel(lq, lp)
			}
			var got ringqp.Poly
			if newp {
				got = smp.ReadNew()
			} else {
				if lq >= 0 {
					got.Q = rQ.AtLevel(lq).NewPoly()
				}
				if lp >= 0 {
					got.P = rP.AtLevel(lp).NewPoly()
				}
				smp.Read(got)
			}
			ctx := fmt.Sprintf("ringqp sampler built at (%d,%d), read at (%d,%d) step %d", lq0, lp0, lq, lp, step)
			if lq >= 0 {
				if got.Q.Level() != lq {
					c.Fail("C17/construction-level/ringqp/polynomial-level", "%s: Q part of level %d", ctx, got.Q.Level())
					return
				}
				if ok, why := rowsEqual(got.Q.Coeffs, mQ.sample(modQ, lq), lq); !ok {
					c.Fail("C17/construction-level/ringqp/differs-from-specification-sampler", "%s Q part: %s", ctx, why)
					return
				}
			}
			if lp >= 0 {
				if got.P.Level() != lp {
					c.Fail("C17/construction-level/ringqp/polynomial-level", "%s: P part of level %d", ctx, got.P.Level())
					return
				}
				if ok, why := rowsEqual(got.P.Coeffs, mP.sample(modP, lp), lp); !ok {
					c.Fail("C17/construction-level/ringqp/differs-from-specification-sampler", "%s P part: %s", ctx, why)
					return
				}
			}
			if envA.off != envM.off {
				c.Fail("C17/construction-level/ringqp/bytes-consumed", "%s: %d vs %d bytes", ctx, envA.off, envM.off)
				return
			}
			c.State("construction-level-ringqp", lq0, lp0, envA.off, mQ.ptr, mP.ptr)
			if lq > lq0 || lp > lp0 {
				c.Cover("construction-level-ringqp", "raised")
			} else {
				c.Cover("construction-level-ringqp", "not-raised")
			}
		}
		c.Outcome(name, lq0, lp0, envA.off)
	}}
}
