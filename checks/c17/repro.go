// Reproducibility: sampling.KeyedPRNG (equal keys => equal streams, Reset replays, one-bit-different keys =>
// unrelated streams), samplers / key expansion / protocol CRPs driven by keyed generators.
//
// Statement: "Two samplers (or key expanders, or protocol parties) fed by keyed generators with the same key and
// performing the same sequence of calls produce bit-identical outputs, the generator can be reset to replay its
// stream, and distinct keys give unrelated streams."
package main

import (
	"bytes"
	"fmt"
	"math/big"
	"math/bits"

	"github.com/tuneinsight/lattigo/v6/core/rlwe"
	"github.com/tuneinsight/lattigo/v6/multiparty"
	"github.com/tuneinsight/lattigo/v6/ring"
	"github.com/tuneinsight/lattigo/v6/ring/ringqp"
	"github.com/tuneinsight/lattigo/v6/utils/sampling"

	"verif/engine"
	"verif/ref"
	"verif/uni"
)

func baseKeys() [][]byte {
	k32 := make([]byte, 32)
	k64 := make([]byte, 64)
	for i := range k64 {
		k64[i] = byte(37*i + 11)
	}
	return [][]byte{k32, k64, {0x80}, {}}
}

var callPatterns = [][]int{
	{1024, 1024, 1024, 1024},
	{1, 7, 8, 1024, 3, 64, 2, 4, 16},
	{32, 32, 32},
	{0, 5, 0, 1024, 0},
}

func drain(p *sampling.KeyedPRNG, pattern []int) []byte {
	var out []byte
	for _, n := range pattern {
		b := make([]byte, n)
		if _, err := p.Read(b); err != nil {
			panic(err)
		}
		out = append(out, b...)
	}
	return out
}

func mustKeyed(key []byte) *sampling.KeyedPRNG {
	p, err := sampling.NewKeyedPRNG(key)
	if err != nil {
		panic(err)
	}
	return p
}

func prngScenario() engine.Scenario {
	name := "prng/KeyedPRNG"
	return engine.Scenario{Name: name, Bound: -1, Fn: func(c *engine.Chooser) {
		ki := c.Choose(len(baseKeys()), "key")
		pi := c.Choose(len(callPatterns), "call-sizes")
		resetAfter := c.Choose(len(callPatterns[pi])+1, "reset-after-calls")
		key := baseKeys()[ki]
		pat := callPatterns[pi]
		a, b := mustKeyed(key), mustKeyed(append([]byte{}, key...))
		sa, sb := drain(a, pat), drain(b, pat)
		if !bytes.Equal(sa, sb) {
			c.Fail("C17/prng/equal-keys-different-streams", "key #%d call sizes %v: two generators with the same key differ", ki, pat)
			return
		}
		// Reset after some calls replays the stream from the start
		d := mustKeyed(key)
		drain(d, pat[:resetAfter])
		d.Reset()
		if sd := drain(d, pat); !bytes.Equal(sd, sa) {
			c.Fail("C17/prng/Reset-does-not-replay", "key #%d call sizes %v: stream after Reset (after %d calls) differs from the initial stream", ki, pat, resetAfter)
			return
		}
		// every key that differs in exactly one bit gives an unrelated stream: Hamming distance of the first 4096
		// bits within [40%,60%] (a related stream — equal, complemented, shifted copy — is far outside; the expected
		// distance of independent streams is 2048 ± 32·k, 40% is 25 standard deviations away)
		if pi == 0 && resetAfter == 0 {
			ref512 := drain(mustKeyed(key), []int{512})
			keyLen := len(key)
			for bit := 0; bit < 8*keyLen; bit++ {
				k2 := append([]byte{}, key...)
				k2[bit/8] ^= 1 << uint(bit%8)
				s2 := drain(mustKeyed(k2), []int{512})
				dist := 0
				for i := range s2 {
					dist += bits.OnesCount8(s2[i] ^ ref512[i])
				}
				if dist < 4096*40/100 || dist > 4096*60/100 {
					c.Fail("C17/prng/one-bit-different-key-related-stream", "key #%d bit %d flipped: streams differ in %d of 4096 bits", ki, bit, dist)
					return
				}
			}
			c.Count(8*keyLen + 1)
			c.Cover("prng-bitflips", fmt.Sprint(keyLen))
		}
		c.Cover("prng", "reset")
		c.State("prng", ki, pi, resetAfter)
		c.Outcome(name, ki, pi, engine.Hash(sa))
	}}
}

// ---------------------------------------------------------------------------------------------
// samplers on keyed generators

type samplerKind struct {
	name string
	mk   func(p sampling.PRNG, r *ring.Ring) ring.Sampler
	ch   chainT
}

func samplerKinds() []samplerKind {
	ter := func(X ring.Ternary, mont bool) func(p sampling.PRNG, r *ring.Ring) ring.Sampler {
		return func(p sampling.PRNG, r *ring.Ring) ring.Sampler {
			s, err := ring.NewTernarySampler(p, r, X, mont)
			if err != nil {
				panic(err)
			}
			return s
		}
	}
	gau := func(sigma, bound float64) func(p sampling.PRNG, r *ring.Ring) ring.Sampler {
		return func(p sampling.PRNG, r *ring.Ring) ring.Sampler {
			return ring.NewGaussianSampler(p, r, ring.DiscreteGaussian{Sigma: sigma, Bound: bound}, false)
		}
	}
	big2 := float64(1 << 62)
	return []samplerKind{
		{"uniform", func(p sampling.PRNG, r *ring.Ring) ring.Sampler { return ring.NewUniformSampler(p, r) }, mixedChain()},
		{"ternary-P=0.5", ter(ring.Ternary{P: 0.5}, true), mixedChain()},
		{"ternary-P=2/3", ter(ring.Ternary{P: 2.0 / 3}, false), tinyChain()},
		{"ternary-H=5", ter(ring.Ternary{H: 5}, true), mixedChain()},
		{"gaussian-3.2", gau(3.2, 19.2), mixedChain()},
		{"gaussian-2^70", gau(big2*256, big2*256*6), bigChain()},
		{"via-NewSampler-uniform", func(p sampling.PRNG, r *ring.Ring) ring.Sampler {
			s, err := ring.NewSampler(p, r, ring.Uniform{}, false)
			if err != nil {
				panic(err)
			}
			return s
		}, tinyChain()},
	}
}

// callSeqs: op codes 0 Read, 1 ReadNew, 2 ReadAndAdd(ramp); on the base sampler only (level views are exercised by
// the scripted-source scenarios).
var callSeqs = [][]int{{0}, {1, 1}, {0, 2, 1}, {2, 2, 0, 1}}

func runCalls(s ring.Sampler, r *ring.Ring, seq []int) []ring.Poly {
	var out []ring.Poly
	L := r.MaxLevel()
	for _, op := range seq {
		switch op {
		case 0:
			p := r.NewPoly()
			s.Read(p)
			out = append(out, p)
		case 1:
			out = append(out, s.ReadNew())
		case 2:
			p := rampPoly(r, L, false)
			s.ReadAndAdd(p)
			out = append(out, p)
		}
	}
	return out
}

func samplerReproScenario() engine.Scenario {
	name := "repro/samplers-on-keyed-prng"
	return engine.Scenario{Name: name, Bound: -1, Fn: func(c *engine.Chooser) {
		kinds := samplerKinds()
		k := kinds[c.Choose(len(kinds), "sampler")]
		seq := callSeqs[c.Choose(len(callSeqs), "calls")]
		ki := c.Choose(2, "key")
		key := baseKeys()[ki]
		r := ringOf(k.ch.mod)
		L := r.MaxLevel()
		a := runCalls(k.mk(mustKeyed(key), r), r, seq)
		b := runCalls(k.mk(mustKeyed(append([]byte{}, key...)), r), r, seq)
		for i := range a {
			if !polyEq(a[i], b[i], L) {
				c.Fail("C17/repro/"+k.name+"/equal-keys-different-output", "call %d of %v: two samplers keyed alike differ", i, seq)
				return
			}
		}
		// replay through Reset on the shared generator
		p := mustKeyed(key)
		first := runCalls(k.mk(p, r), r, seq)
		p.Reset()
		again := runCalls(k.mk(p, r), r, seq)
		for i := range first {
			if !polyEq(first[i], again[i], L) || !polyEq(first[i], a[i], L) {
				c.Fail("C17/repro/"+k.name+"/Reset-does-not-replay", "call %d of %v differs after KeyedPRNG.Reset with a fresh sampler", i, seq)
				return
			}
		}
		// one bit of the key flipped: the first polynomial must differ
		k2 := append([]byte{}, key...)
		k2[len(k2)-1] ^= 1
		d := runCalls(k.mk(mustKeyed(k2), r), r, seq)
		if polyEq(a[0], d[0], L) {
			c.Fail("C17/repro/"+k.name+"/different-keys-same-output", "first polynomial identical under keys differing in one bit")
			return
		}
		c.Cover("repro-sampler", k.name)
		c.State("repro", k.name, len(seq), ki)
		c.Outcome(name, k.name, ki, hashPoly(a[len(a)-1], L))
	}}
}

// ---------------------------------------------------------------------------------------------
// multiparty CRPs: equal CRS keys => equal CRPs, and the CRP is what the specification sampler draws from the CRS bytes

func crpParams() rlwe.Parameters {
	if p, ok := rlweCache["crp"]; ok {
		return p // parameters are immutable
	}
	p, err := rlwe.NewParametersFromLiteral(rlwe.ParametersLiteral{LogN: 4, Q: mixedChain().mod, P: pChain(), NTTFlag: true})
	if err != nil {
		panic(err)
	}
	rlweCache["crp"] = p
	return p
}

func flatten(m [][]ringqp.Poly) []ringqp.Poly {
	var r []ringqp.Poly
	for _, v := range m {
		r = append(r, v...)
	}
	return r
}

func crpScenario() engine.Scenario {
	name := "repro/multiparty-SampleCRP"
	return engine.Scenario{Name: name, Bound: -1, Fn: func(c *engine.Chooser) {
		proto := c.Choose(4, "protocol")
		lq := c.Choose(3, "levelQ")
		lp := c.Choose(2, "levelP")
		b2 := []int{0, 16}[c.Choose(2, "base2")]
		params := crpParams()
		if proto == 0 {
			lq, lp, b2 = 2, 1, 0
		}
		if lp != 0 {
			b2 = 0
		}
		evkp := rlwe.EvaluationKeyParameters{LevelQ: &lq, LevelP: &lp, BaseTwoDecomposition: &b2}
		sample := func(crs multiparty.CRS) []ringqp.Poly {
			switch proto {
			case 0:
				return []ringqp.Poly{multiparty.NewPublicKeyGenProtocol(params).SampleCRP(crs).Value}
			case 1:
				return flatten(multiparty.NewEvaluationKeyGenProtocol(params).SampleCRP(crs, evkp).Value)
			case 2:
				return flatten(multiparty.NewGaloisKeyGenProtocol(params).SampleCRP(crs, evkp).Value)
			default:
				return flatten(multiparty.NewRelinearizationKeyGenProtocol(params).SampleCRP(crs, evkp).Value)
			}
		}
		key := baseKeys()[1]
		a, b := sample(mustKeyed(key)), sample(mustKeyed(key))
		// specification: a ringqp uniform sampler = Q sampler then P sampler, each with its own 1024-byte buffer
		src := mustKeyed(key)
		mQ, mP := &refUniform{src: src}, &refUniform{src: src}
		if len(a) != len(b) || len(a) == 0 {
			c.Fail("C17/repro/SampleCRP/shape", "protocol %d: %d vs %d polynomials", proto, len(a), len(b))
			return
		}
		for i := range a {
			if !polyEq(a[i].Q, b[i].Q, lq) || !polyEq(a[i].P, b[i].P, lp) {
				c.Fail("C17/repro/SampleCRP/equal-keys-different-crp", "protocol %d polynomial %d differs between two parties with the same CRS key", proto, i)
				return
			}
			wq := mQ.sample(params.Q(), lq)
			wp := mP.sample(params.P(), lp)
			if ok, why := rowsEqual(a[i].Q.Coeffs, wq, lq); !ok {
				c.Fail("C17/repro/SampleCRP/differs-from-specification-sampler", "protocol %d polynomial %d Q part: %s", proto, i, why)
				return
			}
			if ok, why := rowsEqual(a[i].P.Coeffs, wp, lp); !ok {
				c.Fail("C17/repro/SampleCRP/differs-from-specification-sampler", "protocol %d polynomial %d P part: %s", proto, i, why)
				return
			}
		}
		c.Cover("crp", fmt.Sprint(proto))
		c.State("crp", proto, lq, lp, b2)
		c.Outcome(name, proto, lq, lp, b2, hashPoly(a[0].Q, lq))
	}}
}

// ---------------------------------------------------------------------------------------------
// EvaluationKey.Expand: the expanded mask is the one the key generator used, for every key parameterisation
// (levelQ, levelP incl. -1 and every intermediate level, power-of-two base, with / without caller buffer, evaluation and
// relinearization keys, parameters with 2 / 3 / no auxiliary primes)

func expandParams(k int) rlwe.Parameters {
	lit := rlwe.ParametersLiteral{LogN: 4, Q: mixedChain().mod, P: pChain(), NTTFlag: true}
	switch k {
	case 1:
		m := ref.PrimesNear(1<<40, 2*N, 7, true)
		lit.Q, lit.P = m[:4], m[4:7]
	case 2:
		lit.P = nil
	}
	key := fmt.Sprint("expand", k)
	if p, ok := rlweCache[key]; ok {
		return p
	}
	p, err := rlwe.NewParametersFromLiteral(lit)
	if err != nil {
		panic(err)
	}
	rlweCache[key] = p
	return p
}

var rlweCache = map[string]rlwe.Parameters{}

func expandScenario() engine.Scenario {
	name := "repro/EvaluationKey.Expand"
	return engine.Scenario{Name: name, Bound: -1, Fn: func(c *engine.Chooser) {
		pk := c.Choose(3, "parameters") // 0: 3 Q + 2 P; 1: 4 Q + 3 P (three intermediate levelP); 2: no P
		params := expandParams(pk)
		lq := c.Choose(params.MaxLevelQ()+1, "levelQ")
		lp := c.Choose(params.MaxLevelP()+2, "levelP+1") - 1
		b2 := []int{0, 1, 2, 7, 16, 30}[c.Choose(6, "base2")]
		withBuffer := c.Choose(2, "buffer") == 1
		relin := c.Choose(2, "key-type") == 1 // EvaluationKey (s' -> s) or RelinearizationKey (s^2 -> s)
		if lp > 0 && b2 != 0 {
			c.Skip("power-of-two decomposition only with at most one auxiliary prime")
			return
		}
		uni.Seed(c, name, pk, lq, lp, b2, relin)
		kgen := rlwe.NewKeyGenerator(params)
		skIn, skOut := kgen.GenSecretKeyNew(), kgen.GenSecretKeyNew()
		evkp := rlwe.EvaluationKeyParameters{LevelQ: &lq, LevelP: &lp, BaseTwoDecomposition: &b2, Compressed: true}
		var evk *rlwe.EvaluationKey
		if relin {
			skIn = skOut.CopyNew()
			params.RingQ().MulCoeffsMontgomery(skOut.Value.Q, skOut.Value.Q, skIn.Value.Q) // s^2 in NTT + Montgomery form
			evk = &kgen.GenRelinearizationKeyNew(skOut, evkp).EvaluationKey
		} else {
			evk = kgen.GenEvaluationKeyNew(skIn, skOut, evkp)
		}
		if !evk.IsCompressed() || evk.Seed == nil {
			c.Fail("C17/expand/not-compressed", "GenEvaluationKeyNew(Compressed) returned degree %d seed=%v", evk.Degree(), evk.Seed != nil)
			return
		}
		twin := evk.CopyNew()
		var buf *rlwe.GadgetCiphertext
		if withBuffer {
			buf = rlwe.NewGadgetCiphertext(params, 0, lq, lp, b2)
		}
		if err := evk.Expand(params, buf); err != nil {
			c.Fail("C17/expand/error", "Expand: %v", err)
			return
		}
		if twin.Seed == nil {
			c.Skip("EvaluationKey.CopyNew dropped the seed (C10)")
			return
		}
		if err := twin.Expand(params, nil); err != nil {
			c.Fail("C17/expand/error", "Expand of a copy: %v", err)
			return
		}
		if !evk.GadgetCiphertext.Equal(&twin.GadgetCiphertext) {
			c.Fail("C17/expand/two-expansions-differ", "two expansions of the same compressed key differ (levelQ=%d levelP=%d base2=%d)", lq, lp, b2)
			return
		}
		// b + a·skOut - (gadget · skIn) must be the key's error term: |e| <= round(bound) of the error distribution
		xe, ok := params.Xe().(ring.DiscreteGaussian)
		if !ok {
			panic("unexpected error distribution")
		}
		maxE := roundBound(xe.Bound)
		rqp := params.RingQP().AtLevel(lq, lp)
		pt := rlwe.NewGadgetCiphertext(params, 0, lq, lp, b2)
		if err := rlwe.AddPolyTimesGadgetVectorToGadgetCiphertext(skIn.Value.Q, []rlwe.GadgetCiphertext{*pt}, *params.RingQP(), params.RingQ().NewPoly()); err != nil {
			panic(err)
		}
		var mod []uint64
		mod = append(mod, params.Q()[:lq+1]...)
		if lp >= 0 {
			mod = append(mod, params.P()[:lp+1]...)
		}
		M := ref.Prod(mod)
		for i := range evk.Value {
			for j := range evk.Value[i] {
				if len(evk.Value[i][j]) != 2 {
					c.Fail("C17/expand/degree", "expanded key element [%d][%d] has %d components", i, j, len(evk.Value[i][j]))
					return
				}
				e := rqp.NewPoly()
				e.Copy(evk.Value[i][j][0])
				rqp.MulCoeffsMontgomeryThenAdd(evk.Value[i][j][1], skOut.Value, e)
				rqp.Sub(e, pt.Value[i][j][0], e)
				rqp.INTT(e, e)
				rqp.IMForm(e, e)
				rows := append([][]uint64{}, e.Q.Coeffs[:lq+1]...)
				if lp >= 0 {
					rows = append(rows, e.P.Coeffs[:lp+1]...)
				}
				for k := 0; k < N; k++ {
					res := make([]uint64, len(mod))
					for t := range mod {
						res[t] = rows[t][k]
					}
					v := ref.Center(ref.CRT(res, mod), M)
					if new(big.Int).Abs(v).Cmp(maxE) > 0 {
						c.Fail("C17/expand/mask-is-not-the-generators", "levelQ=%d levelP=%d base2=%d element [%d][%d]: b + a·s - P·w·s' has coefficient %s, error bound %s: the expanded mask is not the one used at generation", lq, lp, b2, i, j, v, maxE)
						return
					}
				}
			}
		}
		c.Cover("expand", fmt.Sprintf("levelP=%d", lp))
		c.Cover("expand-params", fmt.Sprint(pk))
		c.Cover("expand-relin", fmt.Sprint(relin))
		c.State("expand", pk, lq, lp, b2, withBuffer, relin)
		c.Outcome(name, pk, lq, lp, b2, withBuffer, relin)
	}}
}

// ---------------------------------------------------------------------------------------------
// the key buffer as an environment: the caller may overwrite / zeroize / reuse the slice it passed to NewKeyedPRNG

var keyMutations = []string{"leave", "overwrite-with-another-key", "zeroize", "flip-one-bit"}
var keyMutationTimes = []string{"before-first-read", "after-first-read", "after-first-Reset"}

func mutateKey(buf []byte, kind int) {
	switch kind {
	case 1:
		for i := range buf {
			buf[i] = byte(201*i + 77) // "the next party's key" written into the same buffer
		}
	case 2:
		for i := range buf {
			buf[i] = 0
		}
	case 3:
		buf[len(buf)/2] ^= 0x10
	}
}

// prngKeyBufferScenario: every (mutation, moment) x (read, Reset, read, [Reset, read]) sequence. The generator's stream
// is defined by the key at construction time: its first stream must be that of an independent generator keyed with a
// private copy of the construction-time key, and every replay after Reset must equal its first stream.
func prngKeyBufferScenario() engine.Scenario {
	name := "prng/key-buffer-is-callers"
	return engine.Scenario{Name: name, Bound: -1, Fn: func(c *engine.Chooser) {
		ki := c.Choose(2, "key")
		mut := c.Choose(len(keyMutations), "mutation")
		when := c.Choose(len(keyMutationTimes), "when")
		pi := c.Choose(len(callPatterns), "call-sizes")
		resets := 1 + c.Choose(2, "resets")
		pat := callPatterns[pi]
		orig := append([]byte{}, baseKeys()[ki]...)
		if ki == 0 {
			orig[3] = 9 // not all-zero, so that zeroizing is a change
		}
		buf := append([]byte{}, orig...) // the caller's buffer, handed to the constructor
		want := drain(mustKeyed(append([]byte{}, orig...)), pat)
		p := mustKeyed(buf)
		if when == 0 {
			mutateKey(buf, mut)
		}
		first := drain(p, pat)
		if !bytes.Equal(first, want) {
			c.Fail("C17/prng/key-buffer/first-stream-depends-on-later-buffer-content", "key #%d %s %s: the first stream is not the stream of the construction-time key", ki, keyMutations[mut], keyMutationTimes[when])
			return
		}
		if when == 1 {
			mutateKey(buf, mut)
		}
		for k := 0; k < resets; k++ {
			p.Reset()
			if when == 2 && k == 0 {
				mutateKey(buf, mut)
			}
			if again := drain(p, pat); !bytes.Equal(again, first) {
				c.Fail("C17/prng/key-buffer/Reset-does-not-replay-after-caller-changed-its-key-buffer", "key #%d, caller's key slice %s %s: stream after Reset #%d differs from the generator's first stream", ki, keyMutations[mut], keyMutationTimes[when], k+1)
				return
			}
		}
		// Key(): documented as "a copy of the key used to seed the PRNG ... can be used with NewKeyedPRNG to instantiate a
		// new PRNG that will produce the same stream". Upstream returns an empty key for generators made by NewKeyedPRNG
		// (noted in FINDINGS.md, not judged); when a key IS returned it must be the construction-time key.
		if key := p.Key(); len(key) > 0 {
			if !bytes.Equal(drain(mustKeyed(key), pat), first) {
				c.Fail("C17/prng/key-buffer/Key-is-not-the-construction-time-key", "key #%d %s %s: NewKeyedPRNG(p.Key()) does not reproduce p's stream", ki, keyMutations[mut], keyMutationTimes[when])
				return
			}
			c.Cover("prng-key", "returned")
		} else {
			c.Cover("prng-key", "empty")
		}
		c.Cover("prng-key-buffer", keyMutations[mut]+"/"+keyMutationTimes[when])
		c.State("prng-key-buffer", ki, mut, when, pi, resets)
		c.Outcome(name, ki, mut, when, pi, engine.Hash(first))
	}}
}

// prngReusedBufferScenario: several parties' generators constructed one after the other from ONE reused scratch
// buffer holding distinct keys; interleaved reads and Resets. Each generator must keep replaying its own stream and
// the streams must stay pairwise unrelated (Hamming distance of 4096 bits within [40%,60%]); samplers re-created on the
// reset generators must reproduce their polynomials.
func prngReusedBufferScenario() engine.Scenario {
	name := "prng/generators-from-one-reused-key-buffer"
	return engine.Scenario{Name: name, Bound: -1, Fn: func(c *engine.Chooser) {
		parties := 2 + c.Choose(3, "parties")
		keyLen := []int{32, 64, 16}[c.Choose(3, "key-length")]
		final := c.Choose(3, "buffer-afterwards") // leave the last key / zeroize / garbage
		order := c.Choose(2, "reset-order")
		buf := make([]byte, keyLen)
		gens := make([]*sampling.KeyedPRNG, parties)
		keys := make([][]byte, parties)
		for i := range gens {
			for j := range buf {
				buf[j] = byte(splitmix(uint64(i)*1000 + uint64(j)))
			}
			keys[i] = append([]byte{}, buf...)
			gens[i] = mustKeyed(buf)
		}
		switch final {
		case 1:
			for j := range buf {
				buf[j] = 0
			}
		case 2:
			for j := range buf {
				buf[j] = 0xEE
			}
		}
		r := ringOf(mixedChain().mod)
		L := r.MaxLevel()
		first := make([][]byte, parties)
		pol := make([]ring.Poly, parties)
		for i, g := range gens {
			first[i] = drain(g, []int{512})
			pol[i] = ring.NewUniformSampler(g, r).ReadNew()
		}
		idx := make([]int, parties)
		for i := range idx {
			idx[i] = i
			if order == 1 {
				idx[i] = parties - 1 - i
			}
		}
		for _, i := range idx {
			gens[i].Reset()
		}
		for _, i := range idx {
			if !bytes.Equal(drain(gens[i], []int{512}), first[i]) {
				c.Fail("C17/prng/key-buffer/Reset-does-not-replay-after-caller-changed-its-key-buffer", "party %d of %d (keys derived one after the other in one reused %d-byte buffer): stream after Reset differs from its first stream", i, parties, keyLen)
				return
			}
			if again := ring.NewUniformSampler(gens[i], r).ReadNew(); !polyEq(again, pol[i], L) {
				c.Fail("C17/prng/key-buffer/sampler-on-reset-generator-not-reproducible", "party %d: a sampler re-created on the reset generator draws a different polynomial", i)
				return
			}
			if !bytes.Equal(first[i], drain(mustKeyed(keys[i]), []int{512})) {
				c.Fail("C17/prng/key-buffer/first-stream-depends-on-later-buffer-content", "party %d: stream is not the stream of its construction-time key", i)
				return
			}
		}
		for i := 0; i < parties; i++ {
			for j := i + 1; j < parties; j++ {
				gens[i].Reset()
				gens[j].Reset()
				a, b := drain(gens[i], []int{512}), drain(gens[j], []int{512})
				dist := 0
				for k := range a {
					dist += bits.OnesCount8(a[k] ^ b[k])
				}
				if dist < 4096*40/100 || dist > 4096*60/100 {
					c.Fail("C17/prng/key-buffer/distinct-keys-related-streams-after-Reset", "parties %d and %d have distinct keys but their streams after Reset differ in %d of 4096 bits", i, j, dist)
					return
				}
			}
		}
		c.Cover("prng-reused-buffer", fmt.Sprint(parties))
		c.State("prng-reused-buffer", parties, keyLen, final, order)
		c.Outcome(name, parties, keyLen, final, order, engine.Hash(first[0]))
	}}
}

// ---------------------------------------------------------------------------------------------
// sequences of SampleCRP calls of different protocol types on ONE common reference string: two parties performing the
// same sequence obtain the same CRPs, and each CRP is what a fresh specification sampler draws from the CRS at that point
// (each SampleCRP builds a new sampler with fresh buffers on the shared CRS).

var crpKinds = []string{"PublicKeyGen", "EvaluationKeyGen(lq=1,lp=0,base2=16)", "GaloisKeyGen(lq=2,lp=1)", "RelinearizationKeyGen(lq=0,lp=-1,base2=7)", "KeySwitch(level=1)"}

func crpSequenceScenario(depth int) engine.Scenario {
	name := "repro/multiparty-SampleCRP-sequences"
	return engine.Scenario{Name: name, Bound: -1, Fn: func(c *engine.Chooser) {
		params := crpParams()
		n := 2 + c.Choose(depth-1, "length")
		seq := make([]int, n)
		for i := range seq {
			seq[i] = c.Choose(len(crpKinds), "protocol")
		}
		ip := func(v int) *int { return &v }
		run := func(crs multiparty.CRS, kind int) ([]ringqp.Poly, int, int) {
			switch kind {
			case 0:
				return []ringqp.Poly{multiparty.NewPublicKeyGenProtocol(params).SampleCRP(crs).Value}, 2, 1
			case 1:
				return flatten(multiparty.NewEvaluationKeyGenProtocol(params).SampleCRP(crs, rlwe.EvaluationKeyParameters{LevelQ: ip(1), LevelP: ip(0), BaseTwoDecomposition: ip(16)}).Value), 1, 0
			case 2:
				return flatten(multiparty.NewGaloisKeyGenProtocol(params).SampleCRP(crs, rlwe.EvaluationKeyParameters{LevelQ: ip(2), LevelP: ip(1)}).Value), 2, 1
			case 3:
				return flatten(multiparty.NewRelinearizationKeyGenProtocol(params).SampleCRP(crs, rlwe.EvaluationKeyParameters{LevelQ: ip(0), LevelP: ip(-1), BaseTwoDecomposition: ip(7)}).Value), 0, -1
			default:
				ks, err := multiparty.NewKeySwitchProtocol(params, ring.DiscreteGaussian{Sigma: 3.2, Bound: 19.2})
				if err != nil {
					panic(err)
				}
				return []ringqp.Poly{{Q: ks.SampleCRP(1, crs).Value}}, 1, -1
			}
		}
		key := baseKeys()[1]
		crsA, crsB, src := mustKeyed(key), mustKeyed(key), mustKeyed(key)
		for step, kind := range seq {
			a, lq, lp := run(crsA, kind)
			b, _, _ := run(crsB, kind)
			if len(a) != len(b) || len(a) == 0 {
				c.Fail("C17/repro/SampleCRP/shape", "step %d %s: %d vs %d polynomials", step, crpKinds[kind], len(a), len(b))
				return
			}
			mQ, mP := &refUniform{src: src}, &refUniform{src: src} // a new sampler per SampleCRP call
			for i := range a {
				if !polyEq(a[i].Q, b[i].Q, lq) || (lp >= 0 && !polyEq(a[i].P, b[i].P, lp)) {
					c.Fail("C17/repro/SampleCRP/equal-keys-different-crp", "step %d %s polynomial %d differs between two parties performing the same call sequence on the same CRS key", step, crpKinds[kind], i)
					return
				}
				if ok, why := rowsEqual(a[i].Q.Coeffs, mQ.sample(params.Q(), lq), lq); !ok {
					c.Fail("C17/repro/SampleCRP/differs-from-specification-sampler", "sequence %v step %d %s polynomial %d Q part: %s", seq, step, crpKinds[kind], i, why)
					return
				}
				if lp >= 0 {
					if ok, why := rowsEqual(a[i].P.Coeffs, mP.sample(params.P(), lp), lp); !ok {
						c.Fail("C17/repro/SampleCRP/differs-from-specification-sampler", "sequence %v step %d %s polynomial %d P part: %s", seq, step, crpKinds[kind], i, why)
						return
					}
				}
			}
			c.State("crp-sequence", step, kind, hashPoly(a[0].Q, lq))
			c.Cover("crp-sequence", crpKinds[kind])
		}
		c.Outcome(name, fmt.Sprint(seq))
	}}
}
