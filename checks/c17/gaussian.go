// Gaussian sampler (ring.GaussianSampler): support / cross-modulus consistency under enumerated environment answers,
// a deterministic stratified quadrature of mean and standard deviation, the big-number path, operation sequences.
//
// Statement: "Gaussian values of absolute value at most the bound rounded to the nearest integer (with empirical mean
// and standard deviation matching the parameter) ... one integer vector consistently across all RNS moduli".
//
// The ziggurat consumes 8-byte slots: a 32-bit little-endian word (7 bits strip, 24 bits magnitude, 1 bit sign) on the
// fast path, 53-bit uniforms on the two slow paths. The harness does not re-model the ziggurat (tables are private):
// outputs are judged by support, consistency, the ReadAndAdd law against a twin sampler on the same bytes, and by a
// quadrature over a stratified enumeration of slots.
package main

import (
	"fmt"
	"math"
	"math/big"

	"github.com/tuneinsight/lattigo/v6/ring"

	"verif/engine"
)

type gaussCfg struct {
	name  string
	sigma float64
	bound float64
	ch    chainT
}

// small path configurations: bound < every q_i/2 (so every modulus alone determines the value)
func gaussSmallCfgs() []gaussCfg {
	return []gaussCfg{
		{"sigma=0.5", 0.5, 3, tinyChain()},
		{"sigma=1", 1, 6, tinyChain()},
		{"sigma=3.2", 3.2, 19.2, tinyChain()},
		{"sigma=3.2,bound=19.5", 3.2, 19.5, mixedChain()},
		{"sigma=2^20", 1 << 20, 6 * (1 << 20), mixedChain()},
		{"sigma=2^40", 1 << 40, 6 * (1 << 40), bigChain()},
	}
}

func roundBound(b float64) *big.Int {
	f := new(big.Float).SetFloat64(math.Floor(b + 0.5))
	i, _ := f.Int(nil)
	return i
}

// gaussValues decodes and judges support + consistency of one polynomial.
func gaussValues(c *engine.Chooser, site string, cfg gaussCfg, r *ring.Ring, level int, mont bool, pol ring.Poly) ([]*big.Int, bool) {
	maxAbs := roundBound(cfg.bound)
	out := make([]*big.Int, N)
	for j := 0; j < N; j++ {
		v, ok := decode(r, pol.Coeffs, level, j, mont, maxAbs)
		if !ok {
			// distinguish "one integer, too large" from "not one integer": re-decode from modulus 0 alone when it is big enough
			c.Fail("C17/gaussian/"+site+"/bound-or-consistency", "%s level=%d montgomery=%v: coefficient %d decodes (CRT over levels 0..%d) to %s, |.| > round(bound)=%s: out of support or residues of different integers", cfg.name, level, mont, j, level, v, maxAbs)
			return nil, false
		}
		out[j] = v
	}
	return out, true
}

// slot builds a ziggurat fast-path word: strip (7 bits), magnitude (24 bits), sign bit; upper 4 bytes arbitrary.
func zigSlot(strip, mag uint32, sign uint32, hi uint32) []byte {
	w := uint32(strip&0x7F) | (mag&0xFFFFFF)<<7 | sign<<31
	return le64(uint64(w) | uint64(hi)<<32)
}

// ---------------------------------------------------------------------------------------------
// boundary answers

const rnZig = 3.442619855899 // start of the ziggurat tail (public constant of the Marsaglia-Tsang tables)

var floatAnswers = []uint64{0, 1, 0x1fffffffffffff, 0x10000000000000, 0x1ffffffffffffe, 0xfffffffffffff}

func gaussianAnswersScenario(cfg gaussCfg) engine.Scenario {
	name := "gaussian/answers/" + cfg.name
	return engine.Scenario{Name: name, Bound: -1, Fn: func(c *engine.Chooser) {
		strip := uint32(c.Choose(128, "strip"))
		mag := []uint32{0, 1, 0x800000, 0xFFFFFE, 0xFFFFFF}[c.Choose(5, "magnitude")]
		sign := uint32(c.Choose(2, "sign"))
		// answers of the first uniform: fixed extremes, plus (tail of the base strip: norm = rn - ln(u)/rn) the uniforms that
		// put norm·sigma just below / just above the bound
		fa := append([]uint64{}, floatAnswers...)
		for _, d := range []float64{-0.75, -0.25, 0.25, 0.75, 0.99} {
			u := math.Exp(-((cfg.bound+d)/cfg.sigma - rnZig) * rnZig)
			fa = append(fa, uint64(u*float64(0x1fffffffffffff)))
		}
		f1 := fa[c.Choose(len(fa), "uniform-1")]
		f2 := floatAnswers[(int(strip)+int(mag))%len(floatAnswers)]
		if strip == 0 {
			f2 = 0 // second uniform 0: y = +Inf, the tail candidate is accepted by the ziggurat whatever x
		}
		late := int(strip)%3 == 2 // window near the end of the 1024-byte buffer: the slow paths then cross the refill
		L := len(cfg.ch.mod) - 1
		level := int(strip) % (L + 1)
		mont := (strip/4)%2 == 1
		bg := &stream{bgSeed: 31}
		word := zigSlot(strip, mag, sign, 0xdeadbeef)
		var pre []byte
		reads := 1
		if !late {
			at := []int{0, 5}[int(strip)%3]
			for i := 0; i < 8*at; i++ {
				pre = append(pre, bg.at(int64(i)))
			}
			pre = append(pre, word...)
			pre = append(pre, le64(f1)...)
			pre = append(pre, le64(f2)...)
		} else {
			// the sampler refills its buffer at every Read and keeps its position: after 7 reads of N=16 coefficients
			// it stands at about slot 112 of chunk 7; slots 112..127 of that chunk hold the enumerated word, the chunk
			// fetched by the refill in the middle of read 7 starts with the two enumerated uniforms
			reads = 9
			for i := 0; i < 8*(7*128+112); i++ {
				pre = append(pre, bg.at(int64(i)))
			}
			for s := 112; s < 128; s++ {
				pre = append(pre, word...)
			}
			pre = append(pre, le64(f1)...)
			pre = append(pre, le64(f2)...)
		}
		env := newPRNG(&stream{prefix: pre, bgSeed: 31})
		r := ringOf(cfg.ch.mod).AtLevel(level)
		g := ring.NewGaussianSampler(env, r, ring.DiscreteGaussian{Sigma: cfg.sigma, Bound: cfg.bound}, mont)
		var v []*big.Int
		for rd := 0; rd < reads; rd++ {
			pol := r.NewPoly()
			g.Read(pol)
			var ok bool
			if v, ok = gaussValues(c, "Read", cfg, r, level, mont, pol); !ok {
				return
			}
			c.State("gaussian", env.off)
		}
		c.Count(reads)
		if len(env.calls) > reads {
			c.Cover("gaussian-refill", "second-buffer") // a refill in the middle of a Read
		}
		c.Cover("gaussian-answers", cfg.name)
		c.Outcome(name, fmt.Sprint(v))
	}}
}

// ---------------------------------------------------------------------------------------------
// mean / standard deviation by deterministic stratified quadrature

// quadSlot: slot g of the environment. The 32-bit word is a Weyl sequence (g·odd mod 2^32): every 128 consecutive
// slots visit every strip once, magnitudes and signs are equidistributed; the upper bytes (which dominate the 53-bit
// uniforms of the slow paths) are a second Weyl sequence. Nothing is random: the run is one fixed enumeration.
func quadSlot(g uint64) uint64 {
	lo := uint32(g*0x9E3779B1 + 0x7F4A7C15)
	hi := uint32(g*0x85EBCA77 + 0x165667B1)
	return uint64(lo) | uint64(hi)<<32
}

func gaussianMomentsScenario(cfg gaussCfg, reads int) engine.Scenario {
	name := "gaussian/moments/" + cfg.name
	return engine.Scenario{Name: name, Bound: -1, Fn: func(c *engine.Chooser) {
		mont := c.Choose(2, "montgomery") == 1
		r := ringOf(cfg.ch.mod)
		L := r.MaxLevel()
		env := newPRNG(&stream{slot: quadSlot})
		g := ring.NewGaussianSampler(env, r, ring.DiscreteGaussian{Sigma: cfg.sigma, Bound: cfg.bound}, mont)
		var n, sum, sumsq float64
		pos, neg := 0, 0
		pol := r.NewPoly()
		for k := 0; k < reads; k++ {
			g.Read(pol)
			v, ok := gaussValues(c, "Read", cfg, r, L, mont, pol)
			if !ok {
				return
			}
			for _, x := range v {
				f, _ := new(big.Float).SetInt(x).Float64()
				sum += f
				sumsq += f * f
				n++
				if x.Sign() > 0 {
					pos++
				} else if x.Sign() < 0 {
					neg++
				}
			}
		}
		mean := sum / n
		sd := math.Sqrt(sumsq/n - mean*mean)
		// The sampler rounds a continuous Gaussian: its standard deviation is sqrt(sigma^2+1/12) (Sheppard) up to the
		// negligible truncation at the bound. Both readings of "matching the parameter" are accepted: sd within 3% of
		// [sigma, sqrt(sigma^2+1/12)], |mean| <= 3% of sigma. (Observed on the unchanged tree: within 0.5%.)
		lo, hi := 0.97*cfg.sigma, 1.03*math.Sqrt(cfg.sigma*cfg.sigma+1.0/12)
		c.Note("%s montgomery=%v: n=%.0f mean=%.5g sd=%.6g (sigma=%g) +:%d -:%d", cfg.name, mont, n, mean, sd, cfg.sigma, pos, neg)
		if sd < lo || sd > hi {
			c.Fail("C17/gaussian/moments/standard-deviation", "%s: standard deviation %.6g over %d enumerated draws, contract [%.6g, %.6g]", cfg.name, sd, int(n), lo, hi)
			return
		}
		if math.Abs(mean) > 0.03*cfg.sigma {
			c.Fail("C17/gaussian/moments/mean", "%s: mean %.6g over %d enumerated draws (sigma %g)", cfg.name, mean, int(n), cfg.sigma)
			return
		}
		if d := float64(pos-neg) / float64(pos+neg+1); math.Abs(d) > 0.03 {
			c.Fail("C17/gaussian/moments/signs-not-balanced", "%s: %d positive, %d negative", cfg.name, pos, neg)
			return
		}
		c.Count(int(n))
		c.Cover("gaussian-moments", cfg.name)
		c.Outcome(name, mont, math.Round(sd/cfg.sigma*1000), pos, neg)
	}}
}

// ---------------------------------------------------------------------------------------------
// big-number path: sigma > 2^53 and bound > 2^64-1

const sigBigNegative = "C17/gaussian/bignum-path/negative-value-exceeds-bound"

func gaussianBigScenario() engine.Scenario {
	name := "gaussian/bignum-path"
	return engine.Scenario{Name: name, Bound: -1, Fn: func(c *engine.Chooser) {
		// sigma just above the 2^53 switch of the big-number path, and up to 2^100
		sigmas := []float64{math.Exp2(54), math.Exp2(64), math.Exp2(100), math.Exp2(53) * (1 + math.Exp2(-20)), math.Exp2(59) * 1.37, math.Exp2(80)}
		sigma := sigmas[c.Choose(len(sigmas), "sigma")]
		bk := c.Choose(6, "bound")
		// bounds: multiples of sigma and absolute bounds just above the 2^64-1 switch
		bound := []float64{6 * sigma, 2 * sigma, math.Exp2(65), math.Exp2(64) * (1 + math.Exp2(-40)), 12 * sigma, 3.4426 * sigma}[bk]
		if bound <= math.MaxUint64 || bound < sigma {
			c.Skip("bound not above 2^64 (small path) or below sigma")
			return
		}
		// first draw: enumerated; norm≈3.4 on the top of strip 1.. / tail of strip 0 (uniform tiny => norm≈14) / small
		kind := c.Choose(6, "first-draw")
		sign := uint32(c.Choose(2, "sign")) // 1: positive, 0: negative
		mont := c.Choose(2, "montgomery") == 1
		ch := bigChain()
		r := ringOf(ch.mod)
		L := r.MaxLevel()
		var pre []byte
		overBound := false // does the enumerated first draw exceed the bound in absolute value?
		switch kind {
		case 0: // tiny magnitude
			pre = append(pre, zigSlot(5, 1, sign, 0)...)
		case 1: // large fast-path magnitude in strip 127 (norm about 0.27·(mag/2^24)... stays below every bound)
			pre = append(pre, zigSlot(127, 0x700000, sign, 0)...)
		case 2: // base strip, slow path, smallest non-zero uniform: norm = rn + ln(2^53)/rn ≈ 14.1 > 6
			pre = append(pre, zigSlot(0, 0xFFFFFF, sign, 0)...)
			pre = append(pre, le64(1)...) // x = ln(2^53-1)/rn
			pre = append(pre, le64(0)...) // y = +Inf: accepted
			overBound = true
		case 3: // base strip, slow path, uniform = 1: norm = rn ≈ 3.44 (> 2 sigma, < 6 sigma)
			pre = append(pre, zigSlot(0, 0xFFFFFF, sign, 0)...)
			pre = append(pre, le64(0x1fffffffffffff)...)
			pre = append(pre, le64(0x1fffffffffffff)...)
			overBound = bound < 3.4*sigma
		case 4: // tail of the base strip with the uniform that puts norm·sigma just above the bound (if bound/sigma > rn)
			target := bound/sigma + 0.01
			if target <= rnZig {
				c.Skip("bound below the start of the tail")
				return
			}
			u := math.Exp(-(target - rnZig) * rnZig)
			pre = append(pre, zigSlot(0, 0xFFFFFF, sign, 0)...)
			pre = append(pre, le64(uint64(u*float64(0x1fffffffffffff)))...)
			pre = append(pre, le64(0)...)
			overBound = true
		case 5: // a wedge (slow path of an inner strip): top magnitude of strip 64, then a uniform deciding acceptance
			pre = append(pre, zigSlot(64, 0xFFFFFF, sign, 0)...)
			pre = append(pre, le64(1)...)
		}
		env := newPRNG(&stream{prefix: pre, bgSeed: 57})
		cfg := gaussCfg{fmt.Sprintf("sigma=2^%.0f,bound=%.3g", math.Log2(sigma), bound), sigma, bound, ch}
		g := ring.NewGaussianSampler(env, r, ring.DiscreteGaussian{Sigma: sigma, Bound: bound}, mont)
		pol := r.NewPoly()
		g.Read(pol)
		// consistency: CRT over three 61-bit moduli (2^183) holds every |v| < 2^110 we can provoke; support: bound
		half := new(big.Int).Lsh(big.NewInt(1), 120)
		maxAbs := roundBound(bound)
		for j := 0; j < N; j++ {
			v, ok := decode(r, pol.Coeffs, L, j, mont, half)
			if !ok {
				c.Fail("C17/gaussian/bignum-path/inconsistent-across-moduli", "%s: coefficient %d is not one integer below 2^120 (decoded %s)", cfg.name, j, v)
				return
			}
			if new(big.Int).Abs(v).Cmp(maxAbs) > 0 {
				if v.Sign() < 0 {
					// known class: on this path a draw is compared with the bound after the sign is applied, so negative
					// draws are never redrawn (positive ones are); keep judging the other coefficients
					c.Fail(sigBigNegative, "%s: negative draw beyond the bound is returned: coefficient %d = %s, |.| > bound %s (enumerated first draw over the bound: %v)", cfg.name, j, v, maxAbs, overBound && sign == 0)
					continue
				}
				c.Fail("C17/gaussian/bignum-path/out-of-support", "%s: coefficient %d = %s, |.| > bound %s", cfg.name, j, v, maxAbs)
				return
			}
		}
		c.Cover("gaussian-big", fmt.Sprintf("kind=%d", kind))
		c.State("gaussian-big", env.off)
		c.Outcome(name, sigma, bk, kind, sign, hashPoly(pol, L))
	}}
}

// ---------------------------------------------------------------------------------------------
// known-defect input classes on the float path, one leaf each

const sigGaussMontAdd = "C17/gaussian/montgomery/ReadAndAdd-converts-the-accumulator"
const sigGaussWide = "C17/gaussian/value>=q_i/negative-coefficient-not-reduced"

// gaussianReadAndAddScenario: ReadAndAdd(p) ≡ p + Read on the same bytes, plain and Montgomery.
func gaussianReadAndAddScenario() engine.Scenario {
	name := "gaussian/ReadAndAdd"
	return engine.Scenario{Name: name, Bound: -1, Fn: func(c *engine.Chooser) {
		cfgs := gaussSmallCfgs()
		cfg := cfgs[c.Choose(len(cfgs), "config")]
		mont := c.Choose(2, "montgomery") == 1
		level := c.Choose(len(cfg.ch.mod), "level")
		full := ringOf(cfg.ch.mod)
		r := full.AtLevel(level)
		st := &stream{bgSeed: 2024}
		envA, envB := newPRNG(st), newPRNG(st)
		X := ring.DiscreteGaussian{Sigma: cfg.sigma, Bound: cfg.bound}
		a, b := ring.NewGaussianSampler(envA, r, X, mont), ring.NewGaussianSampler(envB, r, X, mont)
		base, got := rampPoly(full, level, false), rampPoly(full, level, false)
		a.ReadAndAdd(got)
		smp := b.ReadNew()
		if _, ok := gaussValues(c, "Read", cfg, r, level, mont, smp); !ok {
			return
		}
		if ok, why := polyCongruentSum(r, got, base, smp, level); !ok {
			if mont {
				c.Fail(sigGaussMontAdd, "%s level=%d montgomery: ReadAndAdd(p) != p + Read on the same bytes: %s", cfg.name, level, why)
			} else {
				c.Fail("C17/gaussian/ReadAndAdd/not-p-plus-sample", "%s level=%d: %s", cfg.name, level, why)
			}
			return
		}
		c.Cover("gaussian-readandadd", fmt.Sprintf("montgomery=%v", mont))
		c.Outcome(name, cfg.name, mont, level, hashPoly(got, level))
	}}
}

// gaussianWideScenario: float path with values that exceed a small modulus of the chain (sigma 2^35 next to a 30-bit prime).
func gaussianWideScenario() engine.Scenario {
	name := "gaussian/value-wider-than-a-modulus"
	return engine.Scenario{Name: name, Bound: -1, Fn: func(c *engine.Chooser) {
		sign := uint32(c.Choose(2, "sign"))
		mag := []uint32{0x400000, 0x700000, 0xC00000}[c.Choose(3, "magnitude")]
		ch := mixedChain() // 60, 30, 45 bits
		r := ringOf(ch.mod)
		L := r.MaxLevel()
		sigma := math.Exp2(35)
		cfg := gaussCfg{"sigma=2^35", sigma, 6 * sigma, ch}
		// every slot: the same fast-path word with the chosen sign (strip 64: norm ≈ 0.6·mag/2^24·… > 2^-5), so that all
		// N coefficients are of the chosen sign and far larger than the 30-bit modulus
		st := &stream{slot: func(g uint64) uint64 {
			return uint64(uint32(64) | (mag+uint32(g%7))<<7 | sign<<31)
		}}
		env := newPRNG(st)
		g := ring.NewGaussianSampler(env, r, ring.DiscreteGaussian{Sigma: sigma, Bound: 6 * sigma}, false)
		pol := r.NewPoly()
		g.Read(pol)
		maxAbs := roundBound(cfg.bound)
		for j := 0; j < N; j++ {
			// the 60-bit modulus alone determines the value; the others must agree
			v0, _ := decode(r, pol.Coeffs, 0, j, false, maxAbs)
			for i, q := range ch.mod {
				want := new(big.Int).Mod(v0, new(big.Int).SetUint64(q)).Uint64()
				if pol.Coeffs[i][j]%q != want {
					if sign == 0 {
						c.Fail(sigGaussWide, "sigma=2^35: coefficient %d = %s (from the 60-bit modulus) but the residue mod %d is %d, want %d", j, v0, q, pol.Coeffs[i][j]%q, want)
					} else {
						c.Fail("C17/gaussian/value>=q_i/inconsistent-across-moduli", "sigma=2^35: coefficient %d = %s but residue mod %d is %d, want %d", j, v0, q, pol.Coeffs[i][j]%q, want)
					}
					return
				}
			}
			if new(big.Int).Abs(v0).Cmp(maxAbs) > 0 {
				c.Fail("C17/gaussian/value>=q_i/out-of-support", "coefficient %d = %s beyond bound", j, v0)
				return
			}
			if j == 0 && new(big.Int).Abs(v0).BitLen() <= 31 {
				c.Skip("enumerated magnitude did not exceed the 30-bit modulus")
				return
			}
		}
		c.Cover("gaussian-wide", fmt.Sprintf("sign=%d", sign))
		c.Outcome(name, sign, mag, hashPoly(pol, L))
	}}
}

// ---------------------------------------------------------------------------------------------
// operation sequences over level views sharing one buffer (plain output; Montgomery ReadAndAdd is a known class)

var gauOps = []string{"Read", "ReadNew", "ReadAndAdd(ramp)", "AtLevel(0).Read", "AtLevel(1).ReadAndAdd(ramp)", "AtLevel(1).ReadNew", "new AtLevel(0) view.ReadNew", "AtLevel(0).AtLevel(2).Read"}

func gaussianSequenceScenario(cfg gaussCfg, depth int, first int) engine.Scenario {
	name := fmt.Sprintf("gaussian/sequences/%s/first=%s", cfg.name, gauOps[first])
	return engine.Scenario{Name: name, Bound: -1, Fn: func(c *engine.Chooser) {
		mod := cfg.ch.mod
		L := len(mod) - 1
		r := ringOf(mod)
		st := &stream{bgSeed: 4242}
		envA, envB := newPRNG(st), newPRNG(st)
		X := ring.DiscreteGaussian{Sigma: cfg.sigma, Bound: cfg.bound}
		a, b := ring.NewGaussianSampler(envA, r, X, false), ring.NewGaussianSampler(envB, r, X, false)
		a0, a1 := a.AtLevel(0), a.AtLevel(1)
		b0, b1 := b.AtLevel(0), b.AtLevel(1)
		n := 1 + c.Choose(depth, "length")
		prev := int64(0)
		var prevHash uint64
		for step := 0; step < n; step++ {
			op := first
			if step > 0 {
				op = c.Choose(len(gauOps), "op")
			}
			var got, twin ring.Poly
			level, add := L, false
			switch op {
			case 0:
				got, twin = r.NewPoly(), r.NewPoly()
				a.Read(got)
				b.Read(twin)
			case 1:
				got, twin = a.ReadNew(), b.ReadNew()
			case 2:
				got, twin, add = rampPoly(r, L, false), r.NewPoly(), true
				a.ReadAndAdd(got)
				b.Read(twin)
			case 3:
				level = 0
				got, twin = r.AtLevel(0).NewPoly(), r.AtLevel(0).NewPoly()
				a0.Read(got)
				b0.Read(twin)
			case 4:
				level, add = 1, true
				got, twin = rampPoly(r, 1, false), r.AtLevel(1).NewPoly()
				a1.ReadAndAdd(got)
				b1.Read(twin)
			case 5:
				level = 1
				got, twin = a1.ReadNew(), b1.ReadNew()
			case 6:
				level = 0
				got, twin = a.AtLevel(0).ReadNew(), b.AtLevel(0).ReadNew()
			case 7:
				got, twin = r.NewPoly(), r.NewPoly()
				a0.AtLevel(L).Read(got)
				b0.AtLevel(L).Read(twin)
			}
			if got.Level() != level {
				c.Fail("C17/gaussian/"+gauOps[op]+"/level", "returned polynomial has level %d, want %d", got.Level(), level)
				return
			}
			if _, ok := gaussValues(c, "sequence", cfg, r, level, false, twin); !ok {
				return
			}
			if add {
				if ok, why := polyCongruentSum(r, got, rampPoly(r, level, false), twin, level); !ok {
					c.Fail("C17/gaussian/ReadAndAdd/not-p-plus-sample", "step %d %s: %s", step, gauOps[op], why)
					return
				}
			} else if !polyEq(got, twin, level) {
				c.Fail("C17/gaussian/sequence/not-reproducible", "step %d %s: two samplers on the same bytes and call sequence differ", step, gauOps[op])
				return
			}
			if envA.off != envB.off {
				c.Fail("C17/gaussian/sequence/bytes-consumed", "step %d %s: %d vs %d bytes", step, gauOps[op], envA.off, envB.off)
				return
			}
			if envA.off <= prev {
				c.Fail("C17/gaussian/sequence/no-fresh-randomness", "step %d %s consumed no bytes of the source", step, gauOps[op])
				return
			}
			// consecutive polynomials are drawn from different bytes of a non-repeating stream: equal outputs at the
			// same level mean the buffer position was not advanced (sigma >= 3.2: 16 equal coefficients cannot repeat)
			h := hashPoly(twin, 0)
			if step > 0 && h == prevHash && cfg.sigma >= 3 {
				c.Fail("C17/gaussian/sequence/stale-buffer-position", "step %d %s returned the same level-0 row as the previous call", step, gauOps[op])
				return
			}
			prev, prevHash = envA.off, h
			c.State("gaussian", cfg.name, envA.off, h)
			c.Cover("gaussian-op", gauOps[op])
		}
		c.Outcome(name, envA.off, prevHash)
	}}
}

// ---------------------------------------------------------------------------------------------
// output-domain flag x level views x interleavings: a Montgomery-output sampler and all its views (views of views, fresh
// views, the max-level view) must return the Montgomery form of what a plain-output sampler and the same views draw
// from the same bytes. Read / ReadNew only: Montgomery ReadAndAdd is the known input class of gaussian/ReadAndAdd.

var gauViewOps = []string{"Read", "ReadNew", "AtLevel(0).Read", "AtLevel(1).ReadNew", "AtLevel(max).Read", "new AtLevel(0) view.ReadNew", "AtLevel(0).AtLevel(max).Read", "AtLevel(1).Read"}

func gaussianMontgomeryViewsScenario(cfg gaussCfg, depth int) engine.Scenario {
	name := "gaussian/montgomery-views/" + cfg.name
	return engine.Scenario{Name: name, Bound: -1, Fn: func(c *engine.Chooser) {
		mod := cfg.ch.mod
		L := len(mod) - 1
		r := ringOf(mod)
		viaNewSampler := c.Choose(2, "constructor") == 1
		st := &stream{bgSeed: 777}
		envA, envB := newPRNG(st), newPRNG(st)
		X := ring.DiscreteGaussian{Sigma: cfg.sigma, Bound: cfg.bound}
		mk := func(env *scriptPRNG, mont bool) ring.Sampler {
			if viaNewSampler {
				s, err := ring.NewSampler(env, r, X, mont)
				if err != nil {
					panic(err)
				}
				return s
			}
			return ring.NewGaussianSampler(env, r, X, mont)
		}
		a, b := mk(envA, true), mk(envB, false) // a: Montgomery output; b: plain twin on the same bytes
		a0, a1, aL := a.AtLevel(0), a.AtLevel(1), a.AtLevel(L)
		b0, b1, bL := b.AtLevel(0), b.AtLevel(1), b.AtLevel(L)
		n := 1 + c.Choose(depth, "length")
		for step := 0; step < n; step++ {
			op := c.Choose(len(gauViewOps), "op")
			var got, twin ring.Poly
			level := L
			switch op {
			case 0:
				got, twin = r.NewPoly(), r.NewPoly()
				a.Read(got)
				b.Read(twin)
			case 1:
				got, twin = a.ReadNew(), b.ReadNew()
			case 2:
				level = 0
				got, twin = r.AtLevel(0).NewPoly(), r.AtLevel(0).NewPoly()
				a0.Read(got)
				b0.Read(twin)
			case 3:
				level = 1
				got, twin = a1.ReadNew(), b1.ReadNew()
			case 4:
				got, twin = r.NewPoly(), r.NewPoly()
				aL.Read(got)
				bL.Read(twin)
			case 5:
				level = 0
				got, twin = a.AtLevel(0).ReadNew(), b.AtLevel(0).ReadNew()
			case 6:
				got, twin = r.NewPoly(), r.NewPoly()
				a0.AtLevel(L).Read(got)
				b0.AtLevel(L).Read(twin)
			case 7:
				level = 1
				got, twin = r.AtLevel(1).NewPoly(), r.AtLevel(1).NewPoly()
				a1.Read(got)
				b1.Read(twin)
			}
			if got.Level() != level {
				c.Fail("C17/gaussian/montgomery-views/level", "%s returned level %d, want %d", gauViewOps[op], got.Level(), level)
				return
			}
			// the plain twin is a valid sample ...
			if _, ok := gaussValues(c, "montgomery-views/plain-twin", cfg, r, level, false, twin); !ok {
				return
			}
			// ... and the Montgomery sampler's output is its Montgomery form (hence, after IMForm, in the support and one
			// integer across the moduli)
			if ok, why := polyCongruent(r, got, mformPoly(r, twin, level), level); !ok {
				c.Fail("C17/gaussian/montgomery-views/"+gauViewOps[op]+"/not-the-montgomery-form-of-the-plain-sample", "%s step %d: a montgomery=true sampler does not return MForm(what the plain sampler draws from the same bytes): %s", cfg.name, step, why)
				return
			}
			if envA.off != envB.off {
				c.Fail("C17/gaussian/montgomery-views/bytes-consumed", "step %d %s: %d vs %d bytes", step, gauViewOps[op], envA.off, envB.off)
				return
			}
			c.State("gaussian-montgomery", cfg.name, envA.off, hashPoly(twin, 0))
			c.Cover("gaussian-montgomery-view-op", gauViewOps[op])
		}
		c.Outcome(name, viaNewSampler, envA.off)
	}}
}
