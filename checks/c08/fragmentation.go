package main

// Family 4: fragmentation. The transport (an io.Reader delivering chunks) sits beneath a bufio.Reader of a
// given size, or is handed to ReadFrom directly. Executed in the helper process (remote.go): valid input
// behind an oddly sized buffer can end in a fatal error.

import (
	"bufio"
	"fmt"
	"io"
	"reflect"
	"sort"
	"strings"
)

var bufSizes = []int{0, 16, 17, 100, 4096} // 0: the chunk reader is handed to ReadFrom directly (a plain io.Reader)

var chunkClasses = []string{"short-reads", "eof-with-data", "zero-nil-read", "two-chunks"}

// chunkings of one class for an encoding of n bytes.
func chunkings(class string, n int, tier string, heavy bool) []chunking {
	switch class {
	case "short-reads":
		return []chunking{
			{name: "1", size: 1, zeroAt: -1},
			{name: "2", size: 2, zeroAt: -1},
			{name: "7", size: 7, zeroAt: -1},
			{name: "9", size: 9, zeroAt: -1},
			{name: "1000", size: 1000, zeroAt: -1},
			{name: "halves", halves: true, zeroAt: -1},
			{name: "random-a", rnd: 0x9e3779b97f4a7c15, zeroAt: -1},
			{name: "random-b", rnd: 0xc2b2ae3d27d4eb4f, zeroAt: -1},
			{name: "random-c", rnd: 0x165667b19e3779f9, zeroAt: -1},
		}
	case "two-chunks":
		// the transport breaks the stream at ONE byte: every position for small objects (each fixed-size field is
		// split at each of its bytes), else the first 256, every 61st and the last 64 (trailing seeds, counts)
		var cs []chunking
		for k := 1; k < n; k++ {
			if heavy && tier == "quick" && !(k <= 8 || k%16 == 0 || k >= n-8) {
				continue // parameter sets: a decode costs milliseconds
			}
			if n <= 1024 || tier == "thorough" && n <= 65536 || k <= 256 || k%61 == 0 || k >= n-64 {
				cs = append(cs, chunking{name: "split", splitAt: k, zeroAt: -1})
			}
		}
		return cs
	case "eof-with-data":
		return []chunking{
			{name: "full+EOF", eofWithData: true, zeroAt: -1},
			{name: "1+EOF", size: 1, eofWithData: true, zeroAt: -1},
			{name: "7+EOF", size: 7, eofWithData: true, zeroAt: -1},
		}
	default: // one (0,nil) read injected at a position: every position for small objects
		var zs []int
		if n <= 256 || tier == "thorough" && n <= 16384 {
			for i := 0; i < n; i++ {
				zs = append(zs, i)
			}
		} else {
			zs = []int{0, 1, 8, 9, n / 2, n - 1}
		}
		var cs []chunking
		for _, z := range zs {
			cs = append(cs, chunking{name: "zero-nil", zeroAt: z})
		}
		return cs
	}
}

var fullChunk = chunking{name: "full", zeroAt: -1}

func bufName(b int) string {
	if b == 0 {
		return "direct"
	}
	return fmt.Sprintf("bufio=%d", b)
}

// fragRunObj: ReadFrom of obj's WriteTo bytes through the environment into a zero value of its type.
func fragRunObj(e *entry, obj any, wbin []byte, bufSize int, ch chunking) (verdict, outcome) {
	cr := newChunkReader(wbin, ch)
	var r io.Reader = cr
	if bufSize > 0 {
		r = bufio.NewReaderSize(cr, bufSize)
	}
	recv := freshLike(obj)
	var n int64
	o := guard(func() (err error) { n, err = recv.(io.ReaderFrom).ReadFrom(r); return })
	if o.panicked != nil || o.err != nil {
		return verdict{kind: "error"}, o
	}
	return judgeAgainst(e, obj, wbin, decoders[1], recv, n, nil), o
}

// ---- components (for attributing an environment failure to the component that cannot cope with it)

type comp struct {
	name string
	ptr  any
}

// components: the nearest descendants of *ptr that are serializable on their own (WriteTo + ReadFrom), in a
// deterministic order. Rows of a structs.Matrix[T] are presented as structs.Vector[T] where the catalogue
// knows that type (that is how Matrix itself reads them).
func components(ptr any) []comp {
	var out []comp
	var walk func(v reflect.Value, name string, top bool)
	walk = func(v reflect.Value, name string, top bool) {
		v = rw(v)
		if !top && v.CanAddr() && v.Kind() != reflect.Ptr && v.Kind() != reflect.Interface {
			pt := reflect.PtrTo(v.Type())
			if pt.Implements(readerFromT) && pt.Implements(writerToT) {
				out = append(out, comp{name, v.Addr().Interface()})
				return
			}
		}
		switch v.Kind() {
		case reflect.Ptr, reflect.Interface:
			if !v.IsNil() {
				walk(addressable(v.Elem()), name, false)
			}
		case reflect.Struct:
			for i := 0; i < v.NumField(); i++ {
				walk(v.Field(i), name+"."+v.Type().Field(i).Name, false)
			}
		case reflect.Slice, reflect.Array:
			if v.Kind() == reflect.Slice && v.Type().Elem().Kind() == reflect.Slice && strings.Contains(v.Type().String(), "structs.Matrix[") {
				if vt, ok := vectorTypeOf(v.Type().Elem()); ok {
					for i := 0; i < v.Len(); i++ {
						row := rw(v.Index(i))
						out = append(out, comp{fmt.Sprintf("%s[%d]", name, i), reflect.NewAt(vt, row.Addr().UnsafePointer()).Interface()})
					}
					return
				}
			}
			for i := 0; i < v.Len(); i++ {
				walk(v.Index(i), fmt.Sprintf("%s[%d]", name, i), false)
			}
		case reflect.Map:
			keys := v.MapKeys()
			sort.Slice(keys, func(i, j int) bool { return fmt.Sprint(keys[i]) < fmt.Sprint(keys[j]) })
			for _, k := range keys {
				walk(addressable(v.MapIndex(k)), fmt.Sprintf("%s[%v]", name, k), false)
			}
		}
	}
	walk(reflect.ValueOf(ptr).Elem(), "", true)
	return out
}

// vectorTypeOf: the structs.Vector[T] type whose underlying type is the given []T, if the catalogue has it.
func vectorTypeOf(sliceT reflect.Type) (reflect.Type, bool) {
	for _, e := range catalogue() {
		if strings.HasPrefix(e.name, "structs.Vector[") {
			t := reflect.TypeOf(e.zero()).Elem()
			if t.Kind() == reflect.Slice && t.Elem() == sliceT.Elem() {
				return t, true
			}
		}
	}
	return nil, false
}

func resolvePath(root any, path []int) any {
	obj := root
	for _, i := range path {
		obj = components(obj)[i].ptr
	}
	return obj
}

// ---- the family

// fullDelivery caches, per (object, buffer size), what happens when the whole encoding is available at once.
var fullDelivery = map[string]result{}

// Leaf layout (one scenario per type): leaf 0 tries every buffer size with the whole data available at once, for
// every value, and reports the sizes that fail on their own; leaves 1..3 are the chunking classes, each over every
// value and every buffer size that did not already fail in leaf 0.
func famFragmentation(t *lc) {
	k := t.c.Choose(1+len(chunkClasses), "environment")
	n := 0
	for _, x := range t.faultValues() {
		if x.o.a.rf == nil || !x.o.wbinOK {
			continue
		}
		n++
		if !x.baseline(decoders[1]) {
			continue
		}
		fragValue(x, k)
	}
	if n == 0 {
		t.c.Skip("type has no ReadFrom")
	}
}

func fragValue(x *lc, k int) {
	hdr := x.header(nil)
	run := func(path []int, bs int, ch chunking) result { return runJob(hdr, fragJob(path, bs, ch)) }
	bad := func(r result) bool { return !r.ok() || r.VKind != "" }
	describe := func(r result) string {
		switch {
		case r.Fatal != "":
			x.c.Cover("frag-result", "fatal")
			return fmt.Sprintf("THE PROCESS WAS KILLED: fatal error: %s in %s", r.Fatal, r.FatalSite)
		case r.Panic != "": // a panic here is a symptom of the environment (mis-framed stream), classified like an error
			return fmt.Sprintf("panic in %s: %s", r.Site, r.Panic)
		case r.Err != "":
			return "error: " + r.Err
		}
		return r.VMsg
	}
	// culprit: the deepest component that fails in the same environment on its own (its ReadFrom is the one
	// that cannot cope with the environment); the object itself if none of its components does.
	culprit := func(bs int, ch chunking) string {
		var path []int
		name := declName(x.o.obj, "ReadFrom")
		for depth := 0; depth < 24; depth++ {
			names := runJob(hdr, job{Op: "comps", Path: path}).Names
			found := false
			for i, n := range names {
				if bad(run(append(append([]int(nil), path...), i), bs, ch)) {
					path, name, found = append(path, i), n, true
					break
				}
			}
			if !found {
				break
			}
		}
		return name
	}
	full := func(bs int) result {
		key := fmt.Sprintf("%s\x00%d\x00%d", x.e.name, x.vi, bs)
		r0, ok := fullDelivery[key]
		if !ok {
			r0 = run(nil, bs, fullChunk)
			fullDelivery[key] = r0
		}
		return r0
	}
	if k == 0 {
		x.c.Cover("frag-chunks", "full")
		nbad := 0
		for _, bs := range bufSizes {
			x.c.Cover("frag-buffer", bufName(bs))
			if r0 := full(bs); bad(r0) {
				nbad++
				x.c.Fail(sig("fragmentation", culprit(bs, fullChunk), bufName(bs)), "%s [%s] (%d valid bytes) read through %s with the whole data available: %s",
					x.e.name, x.label(), len(x.o.wbin), bufName(bs), describe(r0))
			}
		}
		x.c.Count(len(bufSizes))
		x.c.Outcome(x.name, x.label(), "full", nbad)
		return
	}
	class := chunkClasses[k-1]
	x.c.Cover("frag-chunks", class)
	chs := chunkings(class, len(x.o.wbin), x.c.Tier, x.e.heavy)
	for _, bs := range bufSizes {
		if bad(full(bs)) {
			continue // this buffer size fails with the whole data available: reported by leaf 0
		}
		var jobs []job
		for _, ch := range chs {
			jobs = append(jobs, fragJob(nil, bs, ch))
		}
		nbad := 0
		for i, r := range runJobs(hdr, jobs) {
			if r.NotRun || !bad(r) {
				continue
			}
			if nbad++; nbad > 1 {
				continue // same class, same signature: one diagnosis is enough
			}
			ch := chs[i]
			// the chunking alone (default-size buffer) or only the combination?
			env := class
			if bs != 0 && bs != 4096 && !bad(run(nil, 4096, ch)) {
				env = "bufio<4096+" + class
			}
			x.c.Fail(sig("fragmentation", culprit(bs, ch), env), "%s [%s] (%d valid bytes) read through %s with chunking %s (zero-read at %d, split at %d): %s",
				x.e.name, x.label(), len(x.o.wbin), bufName(bs), ch.name, ch.zeroAt, ch.splitAt, describe(r))
		}
		x.c.Count(len(jobs))
		x.c.Outcome(x.name, x.label(), bs, class, nbad)
	}
}
