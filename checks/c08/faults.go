package main

// Oracle families 5 (truncation), 6 (corruption of header fields), 7 (failing writers).

import (
	"bufio"
	"bytes"
	"encoding/binary"
	"encoding/json"
	"fmt"
	"math/bits"
	"sync"

	"github.com/tuneinsight/lattigo/v6/utils/buffer"
)

// allocLimit: a decoder fed len bytes has no business allocating more than this (DESIGN §6 C08 item 6).
// (80 rather than 64 MiB: the sizes a corrupted length can ask for are powers of two times an element size, 64 MiB
// among them; a threshold sitting exactly on such a size would make the verdict depend on a few KiB of
// measurement noise. The nearest reachable sizes, 64 and 96 MiB, are both 16 MiB away.)
func allocLimit(n int) uint64 { return 80<<20 + 16*uint64(n) }

// offsets at which a stream of n bytes is cut / a writer fails: all of them for objects up to 4 KiB
// (thorough: always all), otherwise the first 256, every 64th and the last 8.
func faultOffsets(n int, tier string) []int {
	var r []int
	if n <= 4096 || tier == "thorough" {
		for i := 0; i < n; i++ {
			r = append(r, i)
		}
		return r
	}
	for i := 0; i < n; i++ {
		if i < 256 || i%64 == 0 || i >= n-8 {
			r = append(r, i)
		}
	}
	return r
}

// faultDecoders: the reading entry points that are driven with damaged input. ReadFrom(io.Reader) is the
// same code as ReadFrom(bufio.Reader) behind a wrapper and ReadFrom(buffer.Buffer) the same as
// UnmarshalBinary wherever the latter exists; JSON only where it is a different encoding.
func faultDecoders(o *cached) []decoder {
	var r []decoder
	for _, d := range availDecoders(o) {
		switch d.name {
		case "UnmarshalBinary":
			// MarshalBinary output that is WriteTo's plus padding (a wrong BinarySize, reported by family 1):
			// cutting inside the padding is not a truncated object
			if o.binOK && o.wbinOK && len(o.bin) != len(o.wbin) && (bytes.HasPrefix(o.bin, o.wbin) || bytes.HasPrefix(o.wbin, o.bin)) {
				continue
			}
		case "ReadFrom(io.Reader)":
			continue
		case "ReadFrom(buffer.Buffer)":
			if o.a.bu != nil && o.a.bm != nil {
				continue
			}
		case "json.Unmarshal":
			if o.binOK && o.jsOK && bytes.Equal(o.bin, o.js) {
				continue
			}
		}
		if _, ok := o.ref(d); ok {
			r = append(r, d)
		}
	}
	return r
}

// ---------------------------------------------------------------------------------------------
// family 5: truncation

func famTruncation(t *lc) {
	n := 0
	for _, x := range t.faultValues() {
		for _, d := range faultDecoders(x.o) {
			n++
			truncationValue(x, d)
		}
	}
	if n == 0 {
		t.c.Skip("no decoder / no reference encoding")
	}
}

func truncationValue(x *lc, d decoder) {
	ref, _ := x.o.ref(d)
	offs := faultOffsets(len(ref), x.c.Tier)
	x.c.Cover("trunc-decoder", d.name)
	var jobs []job
	for _, L := range offs {
		jobs = append(jobs, job{Op: "decode", Decoder: d.name, Cut: L})
	}
	errs := 0
	for i, r := range runJobs(x.header(&d), jobs) {
		what := fmt.Sprintf("%s of the first %d of %d bytes", d.name, offs[i], len(ref))
		switch {
		case r.NotRun:
			x.c.Cover("helper", "rest-of-batch-not-executed-after-3-fatal-or-giant-allocation-events")
		case r.Fatal == "out-of-memory" || r.Alloc > allocLimit(len(ref)):
			x.failAlloc("truncation", declName(x.o.obj, d.method), r, what, len(ref))
		case r.Fatal != "" || r.Panic != "":
			x.failResult("truncation", r, what)
		case r.Err == "":
			x.c.Fail(sig("truncation", declName(x.o.obj, d.method), "silent-success"), "%s [%s]: %s returned no error", x.e.name, x.label(), what)
		default:
			errs++
		}
	}
	x.c.Count(len(jobs))
	x.c.Outcome(x.name, x.label(), d.name, errs)
}

// ---------------------------------------------------------------------------------------------
// family 6: corruption

type field struct {
	off, width int // width 8/4/1: little-endian integer field; width 0: one byte of a JSON text
}

// isJSONText: the whole encoding is one JSON text (metadata, scales, parameter sets and literals).
func isJSONText(b []byte) bool {
	return len(b) > 0 && (b[0] == '{' || b[0] == '[' || b[0] == '"') && json.Valid(b)
}

// headerFields locates candidate length/flag/presence fields structurally: every byte of the first 64,
// every position holding a small little-endian 64-bit or 32-bit integer (lengths, counts, decomposition
// parameters, Galois elements look like that; uniformly random coefficient words do not). JSON texts:
// every byte. The list is capped (quick 320 / thorough 12000 per object), keeping the earliest fields and an
// even sample of the rest.
func headerFields(ref []byte, tier string) []field {
	var fs []field
	n := len(ref)
	if isJSONText(ref) {
		for i := 0; i < n; i++ {
			fs = append(fs, field{i, 0})
		}
	} else {
		for o := 0; o < n; o++ {
			if o < 64 {
				fs = append(fs, field{o, 1})
			}
			if o+8 <= n && binary.LittleEndian.Uint64(ref[o:]) <= 1<<16 {
				fs = append(fs, field{o, 8})
			}
			if o+4 <= n {
				if v := binary.LittleEndian.Uint32(ref[o:]); (v >= 1 && v <= 1<<16) || o < 64 {
					fs = append(fs, field{o, 4})
				}
			}
		}
	}
	limit, head := 320, 200
	if tier == "thorough" {
		limit, head = 12000, 2000
	}
	if len(fs) <= limit {
		return fs
	}
	out := append([]field(nil), fs[:head]...)
	rest := fs[head:]
	k := limit - head
	for i := 0; i < k; i++ {
		out = append(out, rest[i*len(rest)/k])
	}
	return out
}

// corruptions of one field.
func corruptValues(ref []byte, f field) (vals [][]byte) {
	put := func(v uint64) []byte {
		b := make([]byte, f.width)
		switch f.width {
		case 8:
			binary.LittleEndian.PutUint64(b, v)
		case 4:
			binary.LittleEndian.PutUint32(b, uint32(v))
		case 1:
			b[0] = byte(v)
		}
		return b
	}
	switch f.width {
	case 0:
		orig := ref[f.off]
		for bit := 0; bit < 8; bit++ {
			vals = append(vals, []byte{orig ^ 1<<bit})
		}
		for _, v := range []byte{'9', '"', 0x00} {
			if v != orig {
				vals = append(vals, []byte{v})
			}
		}
	case 1:
		orig := uint64(ref[f.off])
		for _, v := range []uint64{0, 1, 2, 0xff, (orig + 1) & 0xff, (orig - 1) & 0xff} {
			if v != orig {
				vals = append(vals, put(v))
			}
		}
	case 4:
		orig := uint64(binary.LittleEndian.Uint32(ref[f.off:]))
		for _, v := range []uint64{0, 1, 2, 0xff, (orig + 1) & 0xffffffff, (orig - 1) & 0xffffffff, 1 << 20, 1 << 31, 1<<32 - 1} {
			if v != orig {
				vals = append(vals, put(v))
			}
		}
	default:
		orig := binary.LittleEndian.Uint64(ref[f.off:])
		for _, v := range []uint64{0, 1, 2, 0xff, orig + 1, orig - 1, 1 << 63, 1<<64 - 1, 1 << 20, 1 << 31, 1<<32 - 1} {
			if v != orig {
				vals = append(vals, put(v))
			}
		}
	}
	return
}

// ---- allocation-driving length fields
//
// Writing 2^31 into a length that the decoder passes to make() unchecked asks the runtime for tens of
// gigabytes: with a memory limit that is "fatal error: out of memory" (the worker and every scenario queued
// behind it are gone), without one it is a multi-GiB allocation per attempt. The fields are therefore probed
// first with the value 2^19 (harmless: at most a couple of dozen MiB). A field whose probe allocates >= 1 byte per
// claimed element - for an input that cannot contain a fraction of them - is an unchecked length: it is
// reported (slope and extrapolation in the message, confirmed by ONE real allocation above the limit per
// object and decoder) and every corruption that would set it to >= 2^19 is skipped, not executed.
const (
	probeLen   = 1 << 19
	probeSmall = 1 << 14
)

type danger struct {
	field
	alloc     uint64 // bytes allocated by the harmless probe
	probed    uint64 // the length the probe wrote (2^14 or 2^19)
	confirmed string // result of the real over-the-limit allocation that confirmed this decoder function
	site      string // decoder function that reads (hence trusts) the field, "" if the trace does not name one
}

type confirmation struct {
	ok  bool
	msg string
}

var (
	dangerMu     sync.Mutex
	dangerCache  = map[string][]danger{}
	confirmCache = map[string]map[string]confirmation{}
)

func putField(data []byte, f field, v uint64) {
	switch f.width {
	case 8:
		binary.LittleEndian.PutUint64(data[f.off:], v)
	case 4:
		binary.LittleEndian.PutUint32(data[f.off:], uint32(v))
	}
}

func getField(data []byte, f field) uint64 {
	if f.width == 8 {
		return binary.LittleEndian.Uint64(data[f.off:])
	}
	return uint64(binary.LittleEndian.Uint32(data[f.off:]))
}

func (x *lc) corruptJob(d decoder, off int, patch []byte, check bool) job {
	return job{Op: "decode", Decoder: d.name, Cut: -1, Off: off, Patch: patch, Check: check}
}

func (x *lc) dangers(d decoder, ref []byte) []danger {
	key := fmt.Sprintf("%s\x00%d\x00%s", x.e.name, x.vi, d.name)
	dangerMu.Lock()
	defer dangerMu.Unlock()
	if r, ok := dangerCache[key]; ok {
		return r
	}
	var r []danger
	hdr := x.header(&d)
	// confirmations are a property of the decoder function, not of the value: one per (type, decoder, function)
	gk := x.e.name + "\x00" + d.name
	groups := confirmCache[gk]
	if groups == nil {
		groups = map[string]confirmation{}
		confirmCache[gk] = groups
	}
	if !isJSONText(ref) {
		// which decoder function reads which bytes of the valid encoding: the function that reads a length is the
		// one that trusts it. Established from the call stacks of the reader calls of one traced decode, i.e. a
		// deterministic function of the encoding.
		owners := runJob(hdr, job{Op: "owners", Decoder: d.name}).Owners
		owner := func(o int) string {
			for _, sg := range owners {
				if sg.Lo <= o && o < sg.Hi {
					return sg.Fn
				}
			}
			return ""
		}
		// With a trace, only byte ranges the decoder consumed as ONE 8- or 4-byte unit are integer fields; windows
		// that straddle two fields are not probed (a probe there mis-frames the rest of the stream and says
		// nothing about a length). Without a trace every small-valued window is a candidate.
		isField := map[[2]int]bool{}
		for _, sg := range owners {
			isField[[2]int{sg.Lo, sg.Hi}] = true
		}
		enc := func(f field, v uint64) []byte {
			b := make([]byte, f.width)
			putField(b, field{0, f.width}, v)
			return b
		}
		for o := 0; o < len(ref); o++ {
			for _, w := range []int{8, 4} {
				if o+w > len(ref) || (len(owners) > 0 && !isField[[2]int{o, o + w}]) {
					continue
				}
				f := field{o, w}
				if orig := getField(ref, f); orig > 1<<16 || (w == 4 && orig == 0 && o >= 64) {
					continue
				}
				data := append([]byte(nil), ref...)
				putField(data, f, probeSmall)
				if tooDangerous(r, data, o, o+w) {
					continue // overlaps a length already found: this write would set that one to >= 2^14
				}
				// Two probes, so that the harmless probe stays cheap for fat elements: 2^14 first (a length of
				// 8-byte-or-larger elements shows as >= 128 KiB), 2^19 only if that showed nothing (1..7-byte
				// elements: >= 512 KiB). A false positive of a probe costs one confirmation job and is dropped there.
				probed := uint64(probeSmall)
				out := runJob(hdr, x.corruptJob(d, o, enc(f, probeSmall), false))
				if out.Fatal == "" && out.Alloc < 8*probeSmall {
					probed = probeLen
					out = runJob(hdr, x.corruptJob(d, o, enc(f, probeLen), false))
					if out.Fatal == "" && (out.Alloc < probeLen || out.Alloc <= 16*uint64(len(ref))+1<<16) {
						continue
					}
				}
				// (a helper that dies on a harmless-sized length in a genuine integer field is a candidate whatever
				// the runtime reported; the confirmation below decides)
				if out.Alloc < probed {
					out.Alloc = probed
				}
				dz := danger{field: f, alloc: out.Alloc, probed: probed, site: owner(o)}
				// Confirmation by one real allocation above the limit, once per decoder function that trusts the
				// length (fields nobody owns are confirmed individually). A decoder that caps the length fails the
				// confirmation: its fields are not findings, and their large values are executed like any other.
				grp := dz.site
				if grp == "" {
					grp = fmt.Sprintf("field@%d/%d", o, w)
				}
				c, seen := groups[grp]
				if !seen {
					// Lengths 2^20, 2^21, ... until the decoder allocates more than the limit (or dies), as long as
					// the allocation keeps growing with the length; a decoder that caps or validates the length
					// stops growing and is not a finding. (No extrapolation from the small probe: its measurement
					// includes whatever else the decode allocates.)
					prev := uint64(0)
					for v := uint64(1 << 20); v <= 1<<31; v <<= 1 {
						o3 := runJob(hdr, x.corruptJob(d, o, enc(f, v), false))
						if o3.Fatal != "" {
							c.ok = true
							c.msg = fmt.Sprintf("confirmed: with the field at offset %d set to 2^%d the process was killed (fatal error: %s)", o, bits.Len64(v)-1, o3.Fatal)
							break
						}
						if o3.Alloc > allocLimit(len(ref)) {
							c.ok = true
							c.msg = fmt.Sprintf("confirmed: with the field at offset %d set to 2^%d the decoder allocated %d MiB before returning err=%q", o, bits.Len64(v)-1, o3.Alloc>>20, o3.Err)
							break
						}
						if v >= 1<<22 && o3.Alloc < prev+prev/2 {
							break // not growing with the length any more: bounded
						}
						prev = o3.Alloc
					}
					groups[grp] = c
				}
				if !c.ok {
					continue
				}
				dz.confirmed = c.msg
				r = append(r, dz)
			}
		}
	}
	dangerCache[key] = r
	return r
}

// tooDangerous: the corrupted data would set a known allocation-driving length to >= 2^14 (the field is already
// reported; larger values would only spend time zeroing megabytes).
func tooDangerous(dz []danger, data []byte, lo, hi int) bool {
	for _, z := range dz {
		if z.off < hi && lo < z.off+z.width {
			v := getField(data, z.field)
			if v >= probeSmall && (z.width == 4 || v < 1<<63) {
				return true
			}
		}
	}
	return false
}

func famCorruption(t *lc) {
	n := 0
	for _, x := range t.faultValues() {
		for _, d := range faultDecoders(x.o) {
			if corruptionValue(x, d) {
				n++
			}
		}
	}
	if n == 0 {
		t.c.Skip("no decoder / no reference encoding / empty encoding")
	}
}

func corruptionValue(x *lc, d decoder) bool {
	ref, _ := x.o.ref(d)
	fs := headerFields(ref, x.c.Tier)
	if x.c.Tier == "quick" && len(fs) > 128 && !x.e.heavy && d.method == "ReadFrom" && x.o.a.bu != nil {
		fs = fs[:128]
	}
	if x.c.Tier == "quick" && len(fs) > 96 && x.e.heavy {
		// quick tier: the second binary decoder of a type (same decoding code behind a bufio.Reader instead of a
		// buffer.Buffer) gets the first 128 fields, parameter sets (decoding builds rings: milliseconds per accepted
		// variant) the first 96
		fs = fs[:96]
	}
	if len(fs) == 0 {
		return false
	}
	x.c.Cover("corrupt-decoder", d.name)
	// JSON texts: a damaged byte may rename or drop a key, which encoding/json accepts by design; only panics and
	// allocations are judged there, not the validity of what was accepted
	jsonText := isJSONText(ref)
	dz := x.dangers(d, ref)
	subj := baseDecl(x.o.obj, d.method)
	rejected, accepted, skipped := 0, 0, 0
	var jobs []job
	var whats []string
	for _, f := range fs {
		x.c.Cover("corrupt-width", fmt.Sprint(f.width))
		w := f.width
		if w == 0 {
			w = 1
		}
		for _, z := range dz {
			if z.field == f {
				s, k := z.site, "unchecked-length" // same signature as the panics the same field causes in that decoder
				if s == "" {
					s, k = subj, "unbounded-alloc"
				}
				x.c.Fail(sig("corruption", s, k), "%s [%s] via %s: the %d-byte field at offset %d is an unchecked length: set to 2^%d the decoder allocated %d KiB for a %d-byte input (%.1f bytes per claimed element, i.e. %.0f GiB at 2^31); values >= 2^14 are not executed; %s",
					x.e.name, x.label(), d.name, w, f.off, bits.Len64(z.probed)-1, z.alloc>>10, len(ref), float64(z.alloc)/float64(z.probed), float64(z.alloc)/float64(z.probed)*2, z.confirmed)
			}
		}
		for _, val := range corruptValues(ref, f) {
			data := append([]byte(nil), ref...)
			copy(data[f.off:f.off+w], val)
			if tooDangerous(dz, data, f.off, f.off+w) {
				skipped++
				continue
			}
			jobs = append(jobs, x.corruptJob(d, f.off, val, !jsonText))
			whats = append(whats, fmt.Sprintf("%s with the %d-byte field at offset %d set to %x", d.name, w, f.off, val))
		}
	}
	for i, r := range runJobs(x.header(&d), jobs) {
		what := whats[i]
		switch {
		case r.NotRun:
			x.c.Cover("helper", "rest-of-batch-not-executed-after-3-fatal-or-giant-allocation-events")
			continue
		case r.Fatal == "out-of-memory" || r.Alloc > allocLimit(len(ref)):
			// an allocation request far beyond the input size: the same event whether the runtime could satisfy it
			// (then decoding went on, which is not looked at) or killed the process
			x.failAlloc("corruption", subj, r, what, len(ref))
			continue
		case r.Fatal != "" || r.Panic != "":
			x.failResult("corruption", r, what)
			continue
		case r.Err != "":
			rejected++
			continue
		}
		accepted++
		if d.hasN && r.N > int64(len(ref)) {
			x.c.Fail(sig("corruption", subj, "count-beyond-input"), "%s: returned n=%d for %d bytes", what, r.N, len(ref))
		}
		if r.Invalid != "" {
			x.c.Fail(sig("corruption", subj, "accepted-invalid:"+r.Invalid), "%s [%s]: %s was accepted without error, but %s", x.e.name, x.label(), what, r.InvalidMsg)
		}
	}
	x.c.Count(len(jobs))
	if rejected > 0 {
		x.c.Cover("corrupt-result", "rejected-with-error")
	}
	if accepted > 0 {
		x.c.Cover("corrupt-result", "accepted-valid-object")
	}
	if skipped > 0 {
		x.c.Cover("corrupt-result", "not-executed-beyond-reported-unchecked-length")
	}
	x.c.Outcome(x.name, x.label(), d.name, rejected, accepted, skipped)
	return true
}

// failAlloc reports an allocation request above the limit, under the decoder function that made it: the innermost
// library frame of the fatal traceback when the request killed the process, else the function named by a traced
// repetition of the decode (the one that consumed the stream right before the allocation) - for the decoders of
// this library these are the same function, so the signature does not depend on whether the runtime happened to
// satisfy the request. Without either, the decoder under test.
func (x *lc) failAlloc(family, subj string, r result, what string, n int) {
	site, fate := r.AllocSite, fmt.Sprintf("the decoder allocated %d MiB (err=%q)", r.Alloc>>20, r.Err)
	if r.Fatal != "" {
		site, fate = r.FatalSite, fmt.Sprintf("THE PROCESS WAS KILLED (fatal error: out of memory, request of %d MiB)", r.Alloc>>20)
	}
	if site == "" || site == "unknown" {
		x.c.Fail(sig(family, subj, "unbounded-alloc"), "%s [%s]: %s, a %d-byte input: %s", x.e.name, x.label(), what, n, fate)
		return
	}
	x.c.Fail(sig(family, site, "unchecked-length"), "%s [%s]: %s, a %d-byte input: %s in %s", x.e.name, x.label(), what, n, fate, site)
}

// ---------------------------------------------------------------------------------------------
// family 7: failing writers

var failingWriters = []string{"io.Writer", "bufio.Writer(64)", "buffer.Buffer(too small)"}

func famWriterFailure(t *lc) {
	wk := t.c.Choose(len(failingWriters), "failing-writer")
	t.c.Cover("failing-writer", failingWriters[wk])
	n := 0
	for _, x := range t.faultValues() {
		if x.o.a.wt == nil || !x.o.wbinOK {
			continue
		}
		n++
		writerFailureValue(x, wk)
	}
	if n == 0 {
		t.c.Skip("type has no WriteTo")
	}
}

func writerFailureValue(x *lc, wk int) {
	n := len(x.o.wbin)
	offs := faultOffsets(n, x.c.Tier)
	errs := 0
	for _, k := range offs {
		var o outcome
		switch wk {
		case 0: // the library wraps the writer itself: the error has to come out of WriteTo
			w := &plainWriter{failAt: k}
			o = guard(func() (err error) { _, err = x.o.a.wt.WriteTo(w); return })
		case 1: // the caller's bufio.Writer: the error may surface at the caller's Flush at the latest
			w := &plainWriter{failAt: k}
			bw := bufio.NewWriterSize(w, 64)
			o = guard(func() (err error) {
				if _, err = x.o.a.wt.WriteTo(bw); err != nil {
					return
				}
				return bw.Flush()
			})
		case 2: // fixed-capacity buffer that is too small ("writes beyond capacity will result in an error")
			w := buffer.NewBufferSize(k)
			o = guard(func() (err error) { _, err = x.o.a.wt.WriteTo(w); return })
		}
		what := fmt.Sprintf("WriteTo(%s) failing after %d of %d bytes", failingWriters[wk], k, n)
		switch {
		case o.panicked != nil:
			x.failPanic("writer-failure", o, what)
		case o.err == nil:
			x.c.Fail(sig("writer-failure", declName(x.o.obj, "WriteTo"), "silent-success:"+failingWriters[wk]), "%s [%s]: %s returned no error", x.e.name, x.label(), what)
		default:
			errs++
		}
	}
	x.c.Count(len(offs))
	x.c.Outcome(x.name, x.label(), wk, errs)
}
