package main

// Generic "every exported scalar field takes two values" axis.
//
// A hand-written copy list (MarshalJSON / UnmarshalJSON of a struct, a ReadFrom that assigns field by field) that
// forgets one field is invisible as long as every catalogue value holds the same content in that field - typically
// the zero value of a field no constructor sets (bootstrapping.Parameters.CircuitOrder). For every catalogued struct
// type, every exported field of basic kind (bool, integers, floats, strings, pointers to those; reached through
// exported struct fields that are not catalogue types themselves) must take at least two different contents over
// the values of the type; where the hand-written values do not provide that, one value is DERIVED by reflection
// from the first value in which the field is reachable, with only that field changed (zero -> 1 / true / 1.5 / "x",
// otherwise the next value). The receiver family then also decodes the old content over the new one and vice versa.
// The codecs under test carry plain data (JSON structs, headers), so any content is legal for the codec.

import (
	"fmt"
	"reflect"
	"strings"
	"sync"
)

type fieldPath struct {
	idx  [][]int // chain of FieldByIndex hops, a pointer dereference between two hops
	name string
}

func basicKind(k reflect.Kind) bool {
	switch k {
	case reflect.Bool, reflect.Int, reflect.Int8, reflect.Int16, reflect.Int32, reflect.Int64, reflect.Uint, reflect.Uint8, reflect.Uint16,
		reflect.Uint32, reflect.Uint64, reflect.Float32, reflect.Float64, reflect.String:
		return true
	}
	return false
}

var (
	catTypesOnce sync.Once
	catTypes     map[reflect.Type]bool
)

func isCatalogueType(t reflect.Type) bool {
	catTypesOnce.Do(func() {
		catTypes = map[reflect.Type]bool{}
		for _, e := range catalogue() {
			catTypes[reflect.TypeOf(e.zero()).Elem()] = true
		}
	})
	return catTypes[t]
}

// scalarFieldPaths lists the exported scalar fields of struct type t.
func scalarFieldPaths(t reflect.Type, depth int) (out []fieldPath) {
	if t.Kind() != reflect.Struct || t == bigFloatT || t == bigIntT {
		return nil
	}
	for i := 0; i < t.NumField(); i++ {
		f := t.Field(i)
		if !f.IsExported() {
			continue
		}
		ft, ptr := f.Type, false
		if ft.Kind() == reflect.Ptr {
			ft, ptr = ft.Elem(), true
		}
		switch {
		case basicKind(ft.Kind()):
			hops := [][]int{{i}}
			if ptr {
				hops = append(hops, nil) // a trailing nil hop: the scalar is behind the pointer
			}
			out = append(out, fieldPath{idx: hops, name: f.Name})
		case ft.Kind() == reflect.Struct && depth < 3 && isLibraryType(ft) && (f.Anonymous || !isCatalogueType(ft)):
			for _, sub := range scalarFieldPaths(ft, depth+1) {
				hops := [][]int{{i}}
				if ptr {
					hops = append(hops, sub.idx...)
				} else {
					hops[0] = append(hops[0], sub.idx[0]...)
					hops = append(hops, sub.idx[1:]...)
				}
				out = append(out, fieldPath{idx: hops, name: f.Name + "." + sub.name})
			}
		}
	}
	return out
}

// reach returns the scalar (settable) at path p of *obj; ok=false when a pointer on the way is nil. With alloc, a
// nil pointer to a SCALAR is allocated (pointers to structs are never invented).
func reach(obj any, p fieldPath, alloc bool) (v reflect.Value, ok bool) {
	v = reflect.ValueOf(obj).Elem()
	for h, hop := range p.idx {
		if h > 0 {
			if v.Kind() != reflect.Ptr {
				return v, false
			}
			if v.IsNil() {
				if !alloc || !basicKind(v.Type().Elem().Kind()) {
					return v, false
				}
				v.Set(reflect.New(v.Type().Elem()))
			}
			v = v.Elem()
		}
		for _, i := range hop {
			v = v.Field(i)
		}
	}
	return v, true
}

func fieldContent(obj any, p fieldPath) string {
	v, ok := reach(obj, p, false)
	if !ok {
		return "<nil>"
	}
	return fmt.Sprint(v.Interface())
}

// bump changes a scalar to another content and describes it.
func bump(v reflect.Value) string {
	switch v.Kind() {
	case reflect.Bool:
		v.SetBool(!v.Bool())
	case reflect.Int, reflect.Int8, reflect.Int16, reflect.Int32, reflect.Int64:
		v.SetInt(v.Int() + 1)
	case reflect.Uint, reflect.Uint8, reflect.Uint16, reflect.Uint32, reflect.Uint64:
		v.SetUint(v.Uint() + 1)
	case reflect.Float32, reflect.Float64:
		v.SetFloat(v.Float() + 1.5)
	case reflect.String:
		v.SetString(v.String() + "x")
	}
	return fmt.Sprint(v.Interface())
}

type expansion struct {
	once         sync.Once
	all          []value
	equalIgnores []string // exported scalar fields the type's own Equal does not look at
	derived      []string
}

var (
	expMu sync.Mutex
	exps  = map[*entry]*expansion{}
)

func (e *entry) expansion(seed uint64) *expansion {
	expMu.Lock()
	x := exps[e]
	if x == nil {
		x = &expansion{}
		exps[e] = x
	}
	expMu.Unlock()
	x.once.Do(func() {
		x.all = e.vals
		t := reflect.TypeOf(e.zero()).Elem()
		paths := scalarFieldPaths(t, 0)
		if len(paths) == 0 {
			return
		}
		objs := make([]any, len(e.vals))
		for vi := range e.vals {
			objs[vi] = buildValue(seed, e, e.vals[vi])
		}
		for _, p := range paths {
			p := p
			base, contents := -1, map[string]bool{}
			for vi, o := range objs {
				c := fieldContent(o, p)
				contents[c] = true
				if _, ok := reach(o, p, false); ok && base < 0 {
					base = vi
				}
			}
			if base < 0 { // only behind nil pointers: a scalar pointer can be allocated in the first value that reaches it
				for vi, o := range objs {
					cp := reflect.New(t)
					cp.Elem().Set(deepCopy(reflect.ValueOf(o).Elem()))
					if _, ok := reach(cp.Interface(), p, true); ok {
						base = vi
						break
					}
				}
			}
			if base < 0 {
				continue
			}
			// does the type's own Equal look at the field? (coverage note; the oracle compares fields itself)
			a, b := reflect.New(t), reflect.New(t)
			a.Elem().Set(deepCopy(reflect.ValueOf(objs[base]).Elem()))
			b.Elem().Set(deepCopy(reflect.ValueOf(objs[base]).Elem()))
			if v, ok := reach(b.Interface(), p, true); ok {
				bump(v)
				if has, eq, pan := ownEqual(a.Interface(), b.Interface()); has && pan == nil && eq {
					x.equalIgnores = append(x.equalIgnores, e.name+"."+p.name)
				}
			}
			if len(contents) >= 2 {
				continue
			}
			bv := e.vals[base]
			probe := reflect.New(t)
			probe.Elem().Set(deepCopy(reflect.ValueOf(objs[base]).Elem()))
			pv, _ := reach(probe.Interface(), p, true)
			to := bump(pv)
			label := fmt.Sprintf("field:%s=%s(in %s)", p.name, to, bv.label)
			x.derived = append(x.derived, e.name+"."+p.name)
			x.all = append(x.all[:len(x.all):len(x.all)], value{label: label, mk: func(w *world, g *gen) any {
				o := bv.mk(w, g)
				if v, ok := reach(o, p, true); ok {
					bump(v)
				}
				return o
			}})
		}
	})
	return x
}

// values of the entry: the hand-written ones followed by the derived ones (same list in every process for a seed).
func (e *entry) values(seed uint64) []value { return e.expansion(seed).all }

func shortList(l []string) string { return strings.Join(l, ",") }
