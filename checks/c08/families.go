package main

// Oracle families 1 (entry points), 2 (receiver history), 3 (stream composition), 4 (fragmentation).
// Families 5-7 (truncation, corruption, writer failure) are in faults.go.

import (
	"bufio"
	"bytes"
	"encoding/json"
	"fmt"
	"io"
	"reflect"
	"strings"

	"github.com/tuneinsight/lattigo/v6/utils/buffer"

	"verif/engine"
)

// lc is what a leaf knows.
type lc struct {
	c    *engine.Chooser
	cat  []*entry
	e    *entry
	vi   int
	o    *cached // original object + reference encodings
	name string  // scenario name (for Outcome)
	seed uint64
}

// failResult reports a fatal error or panic observed by the helper process.
func (x *lc) failResult(family string, r result, what string) {
	switch {
	case r.Fatal != "":
		x.c.Fail(sig(family, r.FatalSite, "fatal:"+r.Fatal), "%s %s: the process was killed by an unrecoverable runtime error (%s) in %s", x.e.name, what, r.Fatal, r.FatalSite)
	case r.Panic != "":
		k := "panic:" + r.PanicKind
		if r.PanicKind == "unchecked-length" {
			k = "unchecked-length"
		}
		x.c.Fail(sig(family, r.Site, k), "%s %s: panic in %s: %s", x.e.name, what, r.Site, r.Panic)
	}
}

func sig(family, subject, kind string) string { return "C08/" + family + "/" + subject + "/" + kind }

// panicKind classifies a recovered panic value into a short stable word.
func panicKind(o outcome) string {
	s := o.panicMsg()
	if _, ok := o.panicked.(noProgress); ok {
		return "unbounded-recursion-on-exhausted-input"
	}
	switch {
	case strings.Contains(s, "makeslice") || strings.Contains(s, "makemap") || strings.Contains(s, "out of memory") || strings.Contains(s, "slice bounds out of range"):
		// make([]T, n) / s[:n] with an n taken from the input: one defect class together with "unbounded-alloc"
		return "unchecked-length"
	case strings.Contains(s, "index out of range"):
		return "index-out-of-range"
	case strings.Contains(s, "nil pointer dereference") || strings.Contains(s, "nil map"):
		return "nil-dereference"
	default:
		return "other"
	}
}

// failPanic reports a panic; the signature names the function that panicked (one defect, one signature,
// whatever container was being decoded).
func (x *lc) failPanic(family string, o outcome, what string) {
	k := "panic:" + panicKind(o)
	if panicKind(o) == "unchecked-length" {
		k = "unchecked-length"
	}
	x.c.Fail(sig(family, o.site, k), "%s %s: panic in %s: %s", x.e.name, what, o.site, o.panicMsg())
}

// firstDiffAt describes where two byte strings differ.
func firstDiffAt(a, b []byte) string {
	n := len(a)
	if len(b) < n {
		n = len(b)
	}
	for i := 0; i < n; i++ {
		if a[i] != b[i] {
			return fmt.Sprintf("first difference at byte %d (0x%02x vs 0x%02x), lengths %d vs %d", i, a[i], b[i], len(a), len(b))
		}
	}
	return fmt.Sprintf("common prefix of %d bytes, lengths %d vs %d", n, len(a), len(b))
}

// judgement of a receiver after a decode that returned no error
type verdict struct {
	kind    string // "" = fine
	msg     string
	subject string // blamed type (deepest serializable component on the path to the difference), "" = the type under test
}

func pathString(p []step) string {
	s := ""
	for i, st := range p {
		if i > 0 && !strings.HasPrefix(st.name, "[") {
			s += "."
		}
		s += st.name
	}
	if s == "" {
		s = "(value)"
	}
	return s
}

var (
	readerFromT  = reflect.TypeOf((*io.ReaderFrom)(nil)).Elem()
	jsonUnmarshT = reflect.TypeOf((*json.Unmarshaler)(nil)).Elem()
)

// blame finds the deepest component on the path that has its own decoder: the stale/mis-decoded field is
// then reported against that component type, so that a defect of rlwe.MetaData is one signature and not one
// per container.
func blame(top reflect.Type, p []step) (subject string, rel string) {
	last := -1
	for i, st := range p {
		pt := reflect.PtrTo(st.t)
		if st.t.Kind() == reflect.Ptr {
			pt = st.t
		}
		if pt.Implements(readerFromT) || pt.Implements(jsonUnmarshT) {
			last = i
		}
	}
	if last < 0 {
		return baseName(top), pathString(p)
	}
	t := p[last].t
	if t.Kind() == reflect.Ptr {
		t = t.Elem()
	}
	return baseName(t), pathString(p[last+1:])
}

// judge compares the decoded receiver with the original: equal (own Equal or structural), re-marshals to
// the reference bytes, announces the same size, and (where a count is returned) consumed exactly the encoding.
func (x *lc) judge(d decoder, recv any, n int64) verdict {
	ref, _ := x.o.ref(d)
	top := reflect.TypeOf(recv).Elem()
	if d.hasN && n != int64(len(ref)) {
		return verdict{kind: "wrong-count", msg: fmt.Sprintf("returned n=%d for an encoding of %d bytes", n, len(ref))}
	}
	seq, path := diff(reflect.ValueOf(x.o.obj).Elem(), reflect.ValueOf(recv).Elem(), nil)
	var eq bool
	var how string
	if x.e.eq != nil {
		eq, how = x.e.eq(x.o.obj, recv), "catalogue equality"
	} else {
		eq, how = objEqual(x.o.obj, recv)
	}
	if !eq {
		v := verdict{kind: "not-equal", msg: "decoded object differs from the original (" + how + ")"}
		if !seq {
			sub, rel := blame(top, path)
			v.subject, v.kind = sub, "differs:"+rel
			v.msg += " at " + pathString(path)
		}
		return v
	}
	ra := apiOf(recv)
	var b []byte
	var o outcome
	var ok bool
	b, o, ok = encodeFor(d, ra)
	if !ok {
		if o.panicked != nil {
			return verdict{kind: "remarshal-panics", msg: fmt.Sprintf("re-marshalling the decoded object panicked in %s: %s", o.site, o.panicMsg())}
		}
		return verdict{kind: "remarshal-fails", msg: fmt.Sprintf("re-marshalling the decoded object failed: %v", o.err)}
	}
	if !bytes.Equal(b, ref) {
		v := verdict{kind: "remarshal-differs", msg: "decoded object is Equal to the original but encodes differently: " + firstDiffAt(ref, b)}
		if !seq {
			sub, rel := blame(top, path)
			v.subject, v.kind = sub, "differs:"+rel
			v.msg += "; structural difference at " + pathString(path)
		}
		return v
	}
	if !d.json && ra.sizer != nil {
		var sz int
		if o := guard(func() error { sz = ra.sizer.BinarySize(); return nil }); o.panicked != nil || sz != len(ref) {
			return verdict{kind: "binarysize-differs", msg: fmt.Sprintf("BinarySize of the decoded object = %d, encoding has %d bytes", sz, len(ref))}
		}
	}
	return verdict{}
}

// decodeFresh decodes data into a new zero value with d.
func (x *lc) decodeInto(d decoder, recv any, data []byte) (n int64, o outcome) {
	a := apiOf(recv)
	o = guard(func() (err error) { n, err = d.run(a, data); return })
	return
}

// decodeFault is decodeInto for damaged input. UnmarshalBinary hands the bytes to a buffer.Buffer it creates
// itself; the same bytes are first decoded through ReadFrom on a watchReader (identical reader behaviour,
// identical library code path) and the real UnmarshalBinary is only called when that terminated: a decoder
// that never terminates would take the whole process down with a stack overflow.
func (x *lc) decodeFault(d decoder, recv any, data []byte) (n int64, o outcome) {
	a := apiOf(recv)
	// (only where UnmarshalBinary and ReadFrom speak the same format, i.e. MarshalBinary == WriteTo bytes)
	if d.name == "UnmarshalBinary" && a.rf != nil && x.o.binOK && x.o.wbinOK && bytes.Equal(x.o.bin, x.o.wbin) {
		probe := freshLike(recv)
		o = guard(func() (err error) {
			_, err = probe.(io.ReaderFrom).ReadFrom(&watchReader{b: buffer.NewBuffer(data)})
			return
		})
		if _, tripped := o.panicked.(noProgress); tripped {
			return 0, o
		}
	}
	return x.decodeInto(d, recv, data)
}

// roundtrip: reference bytes into a fresh zero value. Returns "" when fine; otherwise the failure has been
// reported under family "roundtrip" (the same signature from whatever family noticed it).
func (x *lc) roundtrip(d decoder) bool { return x.roundtripR(d, true) }

// baseline is roundtrip for leaves whose subject is something else: a broken plain round trip is reported
// once, by the fresh-receiver leaf of the receiver family; here the leaf is only marked out of scope.
func (x *lc) baseline(d decoder) bool {
	if x.roundtripR(d, false) {
		return true
	}
	x.c.Skip("plain round trip already fails (reported by the receiver family, fresh receiver)")
	return false
}

func (x *lc) roundtripR(d decoder, report bool) bool {
	ref, ok := x.o.ref(d)
	if !ok {
		return false // reported by the entry-point family
	}
	if !report {
		recv := freshLike(x.o.obj)
		n, o := x.decodeInto(d, recv, ref)
		return o.panicked == nil && o.err == nil && x.judge(d, recv, n).kind == ""
	}
	recv := freshLike(x.o.obj)
	n, o := x.decodeInto(d, recv, ref)
	subj := x.e.name + "." + d.method
	switch {
	case o.panicked != nil:
		x.failPanic("roundtrip", o, d.name+" of its own encoding")
	case o.err != nil:
		x.c.Fail(sig("roundtrip", subj, "error"), "%s: %s of the object's own encoding into a fresh value failed: %v", x.e.name, d.name, o.err)
	default:
		v := x.judge(d, recv, n)
		if v.kind == "" {
			return true
		}
		if v.subject != "" {
			subj = v.subject
		}
		x.c.Fail(sig("roundtrip", subj, v.kind), "%s [%s] via %s into a fresh value: %s", x.e.name, x.e.vals[x.vi].label, d.name, v.msg)
	}
	return false
}

// encodeFor re-marshals with the writer that pairs with the decoder: WriteTo for ReadFrom, MarshalBinary for
// UnmarshalBinary, json.Marshal for JSON.
func encodeFor(d decoder, a api) (b []byte, o outcome, ok bool) {
	switch {
	case d.json:
		return encodeJSON(a)
	case d.method == "ReadFrom" && a.wt != nil:
		var buf bytes.Buffer
		o = guard(func() (err error) { _, err = a.wt.WriteTo(&buf); return })
		return buf.Bytes(), o, o.err == nil && o.panicked == nil
	}
	return encodeBinary(a)
}

func availDecoders(a api) []decoder {
	var r []decoder
	for _, d := range decoders {
		if d.avail(a) {
			r = append(r, d)
		}
	}
	return r
}

// ---------------------------------------------------------------------------------------------
// family 1: entry points

type writerKind struct {
	name string
	run  func(x *lc) (got []byte, n int64, hasN bool, o outcome)
}

func writeVia(mk func(n int) (w io.Writer, done func() ([]byte, error))) func(x *lc) ([]byte, int64, bool, outcome) {
	return func(x *lc) (got []byte, n int64, hasN bool, o outcome) {
		w, done := mk(len(x.o.bin))
		o = guard(func() (err error) {
			if n, err = x.o.a.wt.WriteTo(w); err != nil {
				return
			}
			got, err = done()
			return
		})
		return got, n, true, o
	}
}

func bufioWriter(size int) func(n int) (io.Writer, func() ([]byte, error)) {
	return func(n int) (io.Writer, func() ([]byte, error)) {
		pw := &plainWriter{failAt: -1}
		bw := bufio.NewWriterSize(pw, size)
		// the bufio.Writer is the caller's: the caller flushes it when it is done with the stream
		return bw, func() ([]byte, error) { err := bw.Flush(); return pw.buf, err }
	}
}

var writerKinds = []writerKind{
	{"MarshalBinary", func(x *lc) (got []byte, n int64, hasN bool, o outcome) {
		o = guard(func() (err error) { got, err = x.o.a.bm.MarshalBinary(); return })
		return
	}},
	{"WriteTo(bytes.Buffer)", writeVia(func(n int) (io.Writer, func() ([]byte, error)) {
		b := &bytes.Buffer{}
		return b, func() ([]byte, error) { return b.Bytes(), nil }
	})},
	{"WriteTo(io.Writer)", writeVia(func(n int) (io.Writer, func() ([]byte, error)) {
		pw := &plainWriter{failAt: -1}
		return pw, func() ([]byte, error) { return pw.buf, nil }
	})},
	{"WriteTo(bufio.Writer,16)", writeVia(bufioWriter(16))},
	{"WriteTo(bufio.Writer,17)", writeVia(bufioWriter(17))},
	{"WriteTo(bufio.Writer,100)", writeVia(bufioWriter(100))},
	{"WriteTo(bufio.Writer,4096)", writeVia(bufioWriter(4096))},
	{"WriteTo(buffer.Buffer,exact)", writeVia(func(n int) (io.Writer, func() ([]byte, error)) {
		b := buffer.NewBufferSize(n)
		return b, func() ([]byte, error) { return b.Bytes(), nil }
	})},
	{"WriteTo(buffer.Buffer,larger)", writeVia(func(n int) (io.Writer, func() ([]byte, error)) {
		b := buffer.NewBufferSize(n + 37)
		return b, func() ([]byte, error) { return b.Bytes()[:n+37-b.Available()], nil }
	})},
}

func famEntryPoints(x *lc) {
	a := x.o.a
	subjBase := x.e.name
	// the reference encoding itself
	if x.o.hasBin && !x.o.binOK {
		if x.o.binOut.panicked != nil {
			x.failPanic("entrypoints", x.o.binOut, "MarshalBinary")
		} else {
			x.c.Fail(sig("entrypoints", subjBase+".MarshalBinary", "error"), "%s [%s]: marshalling a valid object failed: %v", x.e.name, x.e.vals[x.vi].label, x.o.binOut.err)
		}
		return
	}
	if x.o.hasJSON && !x.o.jsOK {
		if x.o.jsOut.panicked != nil {
			x.failPanic("entrypoints", x.o.jsOut, "json.Marshal")
		} else {
			x.c.Fail(sig("entrypoints", subjBase+".MarshalJSON", "error"), "%s [%s]: json.Marshal of a valid object failed: %v", x.e.name, x.e.vals[x.vi].label, x.o.jsOut.err)
		}
		return
	}
	nk := len(writerKinds) + 2
	k := x.c.Choose(nk, "entry-point")
	switch {
	case k == len(writerKinds): // BinarySize
		x.c.Cover("writer", "BinarySize")
		if a.sizer == nil || !x.o.hasBin {
			x.c.Skip("no BinarySize")
			return
		}
		var sz int
		o := guard(func() error { sz = a.sizer.BinarySize(); return nil })
		if o.panicked != nil {
			x.failPanic("entrypoints", o, "BinarySize")
		} else if sz != len(x.o.bin) {
			x.c.Fail(sig("entrypoints", subjBase+".BinarySize", "wrong-size"), "%s [%s]: BinarySize()=%d but the encoding has %d bytes", x.e.name, x.e.vals[x.vi].label, sz, len(x.o.bin))
		}
		x.c.Outcome(x.name, "BinarySize", sz == len(x.o.bin))
		return
	case k == len(writerKinds)+1: // JSON determinism + MarshalJSON agrees with json.Marshal
		x.c.Cover("writer", "json")
		if !x.o.hasJSON {
			x.c.Skip("no JSON")
			return
		}
		b2, o, ok := encodeJSON(a)
		if !ok || !bytes.Equal(b2, x.o.js) {
			x.c.Fail(sig("entrypoints", subjBase+".MarshalJSON", "not-deterministic"), "%s: two json.Marshal calls differ (%v): %s", x.e.name, o.err, firstDiffAt(x.o.js, b2))
		}
		x.c.Outcome(x.name, "json", len(x.o.js))
		return
	}
	wk := writerKinds[k]
	x.c.Cover("writer", wk.name)
	if (k == 0 && a.bm == nil) || (k > 0 && a.wt == nil) || !x.o.hasBin {
		x.c.Skip("entry point not offered by the type")
		return
	}
	got, n, hasN, o := wk.run(x)
	subj := subjBase + ".WriteTo"
	if k == 0 {
		subj = subjBase + ".MarshalBinary"
	}
	switch {
	case o.panicked != nil:
		x.failPanic("entrypoints", o, wk.name)
	case o.err != nil:
		x.c.Fail(sig("entrypoints", subj, "error:"+wk.name), "%s [%s]: %s failed on a healthy writer: %v", x.e.name, x.e.vals[x.vi].label, wk.name, o.err)
	case !bytes.Equal(got, x.o.bin):
		x.c.Fail(sig("entrypoints", subj, "bytes-differ:"+wk.name), "%s [%s]: bytes through %s differ from MarshalBinary: %s", x.e.name, x.e.vals[x.vi].label, wk.name, firstDiffAt(x.o.bin, got))
	case hasN && n != int64(len(x.o.bin)):
		x.c.Fail(sig("entrypoints", subj, "wrong-count"), "%s [%s]: %s returned n=%d, wrote %d bytes", x.e.name, x.e.vals[x.vi].label, wk.name, n, len(got))
	}
	x.c.Outcome(x.name, wk.name, len(got), o.err == nil)
}

// ---------------------------------------------------------------------------------------------
// family 2: receiver history

func famReceiver(x *lc) {
	ds := availDecoders(x.o.a)
	if len(ds) == 0 {
		x.c.Skip("no decoder")
		return
	}
	d := ds[x.c.Choose(len(ds), "decoder")]
	nv := len(x.e.vals)
	h := x.c.Choose(1+2*nv, "receiver-history") // 0 fresh; 1+2j constructed as value j; 2+2j zero value that decoded value j
	x.c.Cover("decoder", d.name)
	ref, ok := x.o.ref(d)
	if !ok {
		x.c.Skip("no reference encoding (reported by entrypoints)")
		return
	}
	if h == 0 {
		x.c.Cover("history", "fresh")
		x.c.Outcome(x.name, d.name, "fresh", x.roundtrip(d))
		return
	}
	if !x.baseline(d) {
		return // a dirty receiver cannot be judged separately from a broken plain round trip
	}
	j := (h - 1) / 2
	var recv any
	how := "constructed as"
	if (h-1)%2 == 0 {
		x.c.Cover("history", "constructed-other")
		recv = build(x.c.Seed, x.e, j)
	} else {
		x.c.Cover("history", "decoded-other")
		how = "decoded"
		oj := original(x.c.Seed, x.e, j)
		refj, okj := oj.ref(d)
		if !okj {
			x.c.Skip("previous value has no encoding")
			return
		}
		recv = freshLike(x.o.obj)
		if _, o := x.decodeInto(d, recv, refj); o.err != nil || o.panicked != nil {
			x.c.Skip("previous value does not decode (reported by its own scenario)")
			return
		}
	}
	if j == x.vi {
		x.c.Cover("history", "same-value")
	}
	n, o := x.decodeInto(d, recv, ref)
	subj := x.e.name + "." + d.method
	prev := fmt.Sprintf("receiver previously %s [%s]", how, x.e.vals[j].label)
	switch {
	case o.panicked != nil:
		x.failPanic("receiver", o, d.name+" into a used receiver")
	case o.err != nil:
		x.c.Fail(sig("receiver", subj, "error"), "%s [%s] via %s, %s: %v", x.e.name, x.e.vals[x.vi].label, d.name, prev, o.err)
	default:
		if v := x.judge(d, recv, n); v.kind != "" {
			if v.subject != "" {
				subj = v.subject
			}
			x.c.Fail(sig("receiver", subj, v.kind), "%s [%s] via %s, %s: %s", x.e.name, x.e.vals[x.vi].label, d.name, prev, v.msg)
		}
	}
	x.c.Outcome(x.name, d.name, h, o.err == nil)
}

// ---------------------------------------------------------------------------------------------
// family 3: stream composition

type streamReader struct {
	name string
	mk   func(data []byte) (r io.Reader, consumed func() int)
}

var streamReaders = []streamReader{
	{"buffer.Buffer", func(data []byte) (io.Reader, func() int) {
		b := buffer.NewBuffer(data)
		return b, func() int { return len(data) - b.Size() }
	}},
	{"bufio.Reader(4096)", func(data []byte) (io.Reader, func() int) {
		cr := newChunkReader(data, chunking{zeroAt: -1})
		br := bufio.NewReaderSize(cr, 4096)
		return br, func() int { return cr.off - br.Buffered() }
	}},
	{"bufio.Reader(64Ki)", func(data []byte) (io.Reader, func() int) {
		cr := newChunkReader(data, chunking{zeroAt: -1})
		br := bufio.NewReaderSize(cr, 1<<16)
		return br, func() int { return cr.off - br.Buffered() }
	}},
}

// streamPartners: the objects that may follow A on a stream.
func streamPartners(cat []*entry, tier string, self *entry) (r [][2]int) {
	for ei, e := range cat {
		for vi := range e.vals {
			if tier == "thorough" || e == self || vi == representative(e) {
				r = append(r, [2]int{ei, vi})
			}
		}
	}
	return
}

// representative value of a type for cross-type streams: the first one that is not an empty/zero value.
func representative(e *entry) int {
	for vi, v := range e.vals {
		if !strings.Contains(v.label, "empty") && !strings.Contains(v.label, "zero-value") {
			return vi
		}
	}
	return 0
}

func famStream(x *lc) {
	if x.o.a.rf == nil || x.o.a.wt == nil || !x.o.binOK {
		x.c.Skip("type has no WriteTo/ReadFrom pair")
		return
	}
	if !x.o.wbinOK || !bytes.Equal(x.o.bin, x.o.wbin) {
		x.c.Skip("WriteTo and MarshalBinary disagree (reported by entrypoints)")
		return
	}
	partners := streamPartners(x.cat, x.c.Tier, x.e)
	pi := x.c.Choose(len(partners), "second-object")
	sr := streamReaders[x.c.Choose(len(streamReaders), "shared-reader")]
	be := x.cat[partners[pi][0]]
	bo := original(x.c.Seed, be, partners[pi][1])
	if bo.a.rf == nil || bo.a.wt == nil || !bo.binOK || !bo.wbinOK || !bytes.Equal(bo.bin, bo.wbin) {
		x.c.Skip("second object has no consistent WriteTo/ReadFrom pair")
		return
	}
	x.c.Cover("stream-reader", sr.name)
	x.c.Cover("stream-second", be.name)
	// A, B, A written back-to-back through one writer
	var stream bytes.Buffer
	bw := bufio.NewWriter(&stream)
	seq := []*cached{x.o, bo, x.o}
	ents := []*entry{x.e, be, x.e}
	for i, o := range seq {
		var n int64
		out := guard(func() (err error) { n, err = o.a.wt.WriteTo(bw); return })
		if out.err != nil || out.panicked != nil || n != int64(len(o.bin)) {
			x.c.Fail(sig("stream", ents[i].name+".WriteTo", "shared-writer"), "writing object %d (%s) to a shared bufio.Writer: n=%d err=%v panic=%v", i, ents[i].name, n, out.err, out.panicked)
			return
		}
	}
	_ = bw.Flush()
	want := append(append(append([]byte(nil), x.o.bin...), bo.bin...), x.o.bin...)
	if !bytes.Equal(stream.Bytes(), want) {
		x.c.Fail(sig("stream", x.e.name+".WriteTo", "shared-writer-bytes"), "A|B|A written through one bufio.Writer differs from the concatenated encodings: %s", firstDiffAt(want, stream.Bytes()))
		return
	}
	r, consumed := sr.mk(want)
	pos := 0
	for i, o := range seq {
		recv := freshLike(o.obj)
		var n int64
		out := guard(func() (err error) { n, err = recv.(io.ReaderFrom).ReadFrom(r); return })
		subj := ents[i].name + ".ReadFrom"
		where := fmt.Sprintf("object %d of stream %s|%s|%s at offset %d through one %s", i, x.e.name, be.name, x.e.name, pos, sr.name)
		if out.panicked != nil {
			x.failPanic("stream", out, where)
			return
		}
		if out.err != nil {
			x.c.Fail(sig("stream", subj, "error"), "%s: %v", where, out.err)
			return
		}
		if n != int64(len(o.bin)) {
			x.c.Fail(sig("stream", subj, "wrong-count"), "%s: returned n=%d, encoding has %d bytes", where, n, len(o.bin))
			return
		}
		pos += len(o.bin)
		if got := consumed(); got != pos {
			x.c.Fail(sig("stream", subj, "cursor"), "%s: reader cursor at %d, expected %d", where, got, pos)
			return
		}
		y := &lc{c: x.c, cat: x.cat, e: ents[i], o: o}
		if v := y.judge(decoders[1], recv, n); v.kind != "" {
			if v.subject != "" {
				subj = v.subject
			}
			x.c.Fail(sig("stream", subj, v.kind), "%s: %s", where, v.msg)
			return
		}
	}
	// plain io.Reader: the library reads ahead through its own bufio.Reader, only the returned count is checked
	recv := freshLike(x.o.obj)
	var n int64
	out := guard(func() (err error) {
		n, err = recv.(io.ReaderFrom).ReadFrom(newChunkReader(want, chunking{zeroAt: -1}))
		return
	})
	if out.panicked != nil {
		x.failPanic("stream", out, "first object from a plain io.Reader")
	} else if out.err != nil || n != int64(len(x.o.bin)) {
		x.c.Fail(sig("stream", x.e.name+".ReadFrom", "plain-reader-count"), "first object of %s|%s from a plain io.Reader: n=%d (want %d) err=%v", x.e.name, be.name, n, len(x.o.bin), out.err)
	}
	x.c.Count(4)
	x.c.Outcome(x.name, be.name, partners[pi][1], sr.name, len(want))
}

// ---------------------------------------------------------------------------------------------
// family 4: fragmentation

var bufSizes = []int{0, 16, 17, 100, 4096} // 0: the chunk reader is handed to ReadFrom directly (a plain io.Reader)

func chunkings(n int, tier string) []chunking {
	cs := []chunking{
		{name: "full", zeroAt: -1},
		{name: "1", size: 1, zeroAt: -1},
		{name: "2", size: 2, zeroAt: -1},
		{name: "7", size: 7, zeroAt: -1},
		{name: "halves", halves: true, zeroAt: -1},
		{name: "full+EOF", eofWithData: true, zeroAt: -1},
		{name: "1+EOF", size: 1, eofWithData: true, zeroAt: -1},
		{name: "7+EOF", size: 7, eofWithData: true, zeroAt: -1},
	}
	var zs []int
	if n <= 256 || tier == "thorough" && n <= 2048 {
		for i := 0; i < n; i++ {
			zs = append(zs, i)
		}
	} else {
		zs = []int{0, 1, 8, 9, n / 2, n - 1}
	}
	for _, z := range zs {
		cs = append(cs, chunking{name: "zero-nil", zeroAt: z})
	}
	return cs
}

func (x *lc) fragRun(bufSize int, ch chunking) (verdict, outcome) {
	cr := newChunkReader(x.o.wbin, ch)
	var r io.Reader = cr
	if bufSize > 0 {
		r = bufio.NewReaderSize(cr, bufSize)
	}
	recv := freshLike(x.o.obj)
	var n int64
	o := guard(func() (err error) { n, err = recv.(io.ReaderFrom).ReadFrom(r); return })
	if o.panicked != nil || o.err != nil {
		return verdict{kind: "error"}, o
	}
	return x.judge(decoders[1], recv, n), o
}

func bufName(b int) string {
	if b == 0 {
		return "direct"
	}
	return fmt.Sprintf("bufio=%d", b)
}

func famFragmentation(x *lc) {
	if x.o.a.rf == nil || !x.o.wbinOK {
		x.c.Skip("type has no ReadFrom")
		return
	}
	chs := chunkings(len(x.o.wbin), x.c.Tier)
	bs := bufSizes[x.c.Choose(len(bufSizes), "reader-buffer")]
	ch := chs[x.c.Choose(len(chs), "chunking")]
	x.c.Cover("frag-buffer", bufName(bs))
	x.c.Cover("frag-chunks", ch.class())
	if !x.baseline(decoders[1]) {
		return
	}
	run := func(bs int, ch chunking) result {
		return runJob(fragJob(x, bs, ch))
	}
	bad := func(r result) bool { return !r.ok() || r.VKind != "" }
	r := run(bs, ch)
	x.c.Outcome(x.name, bs, ch.name, ch.zeroAt, r.VKind, r.Err != "", r.Panic != "", r.Fatal)
	if !bad(r) {
		return
	}
	// Diagnose which part of the environment matters, so that one defect has one signature:
	// the buffer size alone (whole data available at once), the chunking alone (default-size buffer), or both.
	env := ""
	full := chunking{name: "full", zeroAt: -1}
	switch {
	case ch.class() == "full":
		env = bufName(bs)
	case bs == 0 || bs == 4096:
		env = ch.class()
	default:
		if bad(run(bs, full)) {
			env = bufName(bs)
		} else if bad(run(4096, ch)) {
			env = ch.class()
		} else {
			env = bufName(bs) + "+" + ch.class()
		}
	}
	what := r.VMsg
	switch {
	case r.Fatal != "":
		what = fmt.Sprintf("PROCESS KILLED: fatal error: %s in %s", r.Fatal, r.FatalSite)
		x.c.Cover("frag-result", "fatal")
	case r.Panic != "": // a panic here is a symptom of the environment (mis-framed stream), classified like an error
		what = fmt.Sprintf("panic in %s: %s", r.Site, r.Panic)
	case r.Err != "":
		what = "error: " + r.Err
	}
	x.c.Fail(sig("fragmentation", declName(x.o.obj, "ReadFrom"), env), "%s [%s] (%d valid bytes) read through %s with chunking %s (zero-read at %d): %s",
		x.e.name, x.e.vals[x.vi].label, len(x.o.wbin), bufName(bs), ch.name, ch.zeroAt, what)
}
