package main

// Oracle families 1 (entry points), 2 (receiver history), 3 (stream composition).
// Family 4 is in fragmentation.go, families 5-7 in faults.go.

import (
	"bufio"
	"bytes"
	"encoding/json"
	"fmt"
	"io"
	"reflect"
	"strings"

	"github.com/tuneinsight/lattigo/v6/utils/buffer"
)

// ---------------------------------------------------------------------------------------------
// family 1: entry points

type writerKind struct {
	name string
	run  func(x *lc) (got []byte, n int64, hasN bool, o outcome)
}

func writeVia(mk func(n int) (w io.Writer, done func() ([]byte, error))) func(x *lc) ([]byte, int64, bool, outcome) {
	return func(x *lc) (got []byte, n int64, hasN bool, o outcome) {
		w, done := mk(len(x.o.wbin))
		o = guard(func() (err error) {
			if n, err = x.o.a.wt.WriteTo(w); err != nil {
				return
			}
			got, err = done()
			return
		})
		return got, n, true, o
	}
}

func bufioWriter(size int) func(n int) (io.Writer, func() ([]byte, error)) {
	return func(n int) (io.Writer, func() ([]byte, error)) {
		pw := &plainWriter{failAt: -1}
		bw := bufio.NewWriterSize(pw, size)
		// the bufio.Writer is the caller's: the caller flushes it when it is done with the stream
		return bw, func() ([]byte, error) { err := bw.Flush(); return pw.buf, err }
	}
}

var writerKinds = []writerKind{
	{"MarshalBinary", func(x *lc) (got []byte, n int64, hasN bool, o outcome) {
		o = guard(func() (err error) { got, err = x.o.a.bm.MarshalBinary(); return })
		return
	}},
	{"WriteTo(bytes.Buffer)", writeVia(func(n int) (io.Writer, func() ([]byte, error)) {
		b := &bytes.Buffer{}
		return b, func() ([]byte, error) { return b.Bytes(), nil }
	})},
	{"WriteTo(io.Writer)", writeVia(func(n int) (io.Writer, func() ([]byte, error)) {
		pw := &plainWriter{failAt: -1}
		return pw, func() ([]byte, error) { return pw.buf, nil }
	})},
	{"WriteTo(bufio.Writer,16)", writeVia(bufioWriter(16))},
	{"WriteTo(bufio.Writer,17)", writeVia(bufioWriter(17))},
	{"WriteTo(bufio.Writer,100)", writeVia(bufioWriter(100))},
	{"WriteTo(bufio.Writer,4096)", writeVia(bufioWriter(4096))},
	{"WriteTo(buffer.Buffer,exact)", writeVia(func(n int) (io.Writer, func() ([]byte, error)) {
		b := buffer.NewBufferSize(n)
		return b, func() ([]byte, error) { return b.Bytes(), nil }
	})},
	{"WriteTo(buffer.Buffer,larger)", writeVia(func(n int) (io.Writer, func() ([]byte, error)) {
		b := buffer.NewBufferSize(n + 37)
		return b, func() ([]byte, error) { return b.Bytes()[:n+37-b.Available()], nil }
	})},
}

// writerClass: plain writers must have received everything when WriteTo returns (the library wraps and
// flushes them); the others are buffer.Writers handed in by the caller.
func writerClass(name string) string {
	switch {
	case strings.Contains(name, "bytes.Buffer") || strings.Contains(name, "io.Writer"):
		return "plain-writer"
	case strings.Contains(name, "bufio"):
		return "bufio.Writer"
	case strings.Contains(name, "buffer.Buffer"):
		return "buffer.Buffer"
	}
	return name
}

func famEntryPoints(t *lc) {
	k := t.c.Choose(len(writerKinds)+2, "entry-point")
	offered := 0
	for _, x := range t.values() {
		if entryPoint(x, k) {
			offered++
		}
	}
	if offered == 0 {
		t.c.Skip("entry point not offered by the type")
	}
}

// entryPoint checks writing entry point k for one value; false: the type does not offer it.
func entryPoint(x *lc, k int) bool {
	a := x.o.a
	tn := x.e.name
	// the reference encoding itself (reported once, by the MarshalBinary leaf)
	if x.o.hasBin && !x.o.binOK {
		if k == 0 {
			if x.o.binOut.panicked != nil {
				x.failPanic("entrypoints", x.o.binOut, "MarshalBinary")
			} else {
				x.c.Fail(sig("entrypoints", tn+".MarshalBinary", "error"), "%s [%s]: marshalling a valid object failed: %v", tn, x.label(), x.o.binOut.err)
			}
		}
		return true
	}
	if x.o.hasJSON && !x.o.jsOK {
		if k == len(writerKinds)+1 {
			if x.o.jsOut.panicked != nil {
				x.failPanic("entrypoints", x.o.jsOut, "json.Marshal")
			} else {
				x.c.Fail(sig("entrypoints", tn+".MarshalJSON", "error"), "%s [%s]: json.Marshal of a valid object failed: %v", tn, x.label(), x.o.jsOut.err)
			}
		}
		return true
	}
	switch {
	case k == len(writerKinds): // BinarySize
		x.c.Cover("writer", "BinarySize")
		if a.sizer == nil || !x.o.hasBin {
			return false
		}
		var sz int
		o := guard(func() error { sz = a.sizer.BinarySize(); return nil })
		if o.panicked != nil {
			x.failPanic("entrypoints", o, "BinarySize")
		} else if sz != len(x.o.wbin) {
			// measured against what WriteTo writes ("will write exactly object.BinarySize() bytes")
			x.c.Fail(sig("entrypoints", declName(x.o.obj, "BinarySize"), "wrong-size"), "%s [%s]: BinarySize()=%d but WriteTo writes %d bytes (MarshalBinary returns %d)", tn, x.label(), sz, len(x.o.wbin), len(x.o.bin))
		}
		x.c.Outcome(x.name, x.label(), "BinarySize", sz == len(x.o.wbin))
		return true
	case k == len(writerKinds)+1: // JSON
		x.c.Cover("writer", "json")
		return famEntryJSON(x)
	}
	wk := writerKinds[k]
	x.c.Cover("writer", wk.name)
	if (k == 0 && a.bm == nil) || (k > 0 && a.wt == nil) || !x.o.hasBin {
		return false
	}
	// Reference: what WriteTo hands to a caller-flushed bufio.Writer (x.o.wbin). MarshalBinary is compared with it
	// once (leaf 0); every other writer must deliver the same bytes and report their number.
	ref := x.o.wbin
	got, n, hasN, o := wk.run(x)
	subj := declName(x.o.obj, "WriteTo")
	if k == 0 {
		subj = tn + ".MarshalBinary"
	}
	switch {
	case o.panicked != nil:
		x.failPanic("entrypoints", o, wk.name)
	case o.err != nil:
		x.c.Fail(sig("entrypoints", subj, "error:"+writerClass(wk.name)), "%s [%s]: %s failed on a healthy writer: %v", tn, x.label(), wk.name, o.err)
	case !bytes.Equal(got, ref) && k == 0:
		x.c.Fail(sig("entrypoints", subj, "differs-from-WriteTo"), "%s [%s]: MarshalBinary and WriteTo produce different bytes: %s", tn, x.label(), firstDiffAt(ref, got))
	case !bytes.Equal(got, ref):
		x.c.Fail(sig("entrypoints", subj, "bytes-differ:"+writerClass(wk.name)), "%s [%s]: bytes through %s differ from those through a caller-flushed bufio.Writer: %s", tn, x.label(), wk.name, firstDiffAt(ref, got))
	case hasN && n != int64(len(ref)):
		x.c.Fail(sig("entrypoints", subj, "wrong-count"), "%s [%s]: %s returned n=%d, wrote %d bytes", tn, x.label(), wk.name, n, len(got))
	}
	x.c.Outcome(x.name, x.label(), wk.name, len(got), o.err == nil)
	return true
}

// famEntryJSON: JSON entry point. Types that declare JSON methods: json.Marshal is deterministic (the round
// trips are family 2's). Types that only inherit them from an embedded field (rlwe.Element and everything
// embedding it inherit *MetaData's): json.Marshal/json.Unmarshal compile and run for them, so the round trip
// is judged here, once, under the name of the embedding type.
func famEntryJSON(x *lc) bool {
	a := x.o.a
	tn := x.e.name
	if x.o.hasJSON {
		b2, o, ok := encodeJSON(a)
		if !ok || !bytes.Equal(b2, x.o.js) {
			x.c.Fail(sig("entrypoints", tn+".MarshalJSON", "not-deterministic"), "%s: two json.Marshal calls differ (%v): %s", tn, o.err, firstDiffAt(x.o.js, b2))
		}
		x.c.Outcome(x.name, x.label(), "json", len(x.o.js))
		return true
	}
	if a.jm == nil && a.ju == nil {
		return false
	}
	x.c.Cover("writer", "json-promoted")
	subj := embedderName(x.o.obj, "MarshalJSON") + ".MarshalJSON"
	var js []byte
	o := guard(func() (err error) { js, err = json.Marshal(x.o.obj); return })
	recv := freshLike(x.o.obj)
	if o.err == nil && o.panicked == nil {
		o = guard(func() error { return json.Unmarshal(js, recv) })
	}
	what := ""
	switch {
	case o.panicked != nil:
		what = fmt.Sprintf("panic in %s: %s", o.site, o.panicMsg())
	case o.err != nil:
		what = "error: " + o.err.Error()
	default:
		if eq, how := x.equalObjects(x.o.obj, recv); !eq {
			what = "the decoded object differs from the original (" + how + "); JSON was " + string(js[:min(len(js), 120)])
		}
	}
	if what != "" {
		x.c.Fail(sig("entrypoints", subj, "json-promoted-from-embedded-field"), "%s [%s] satisfies json.Marshaler/json.Unmarshaler only through an embedded field, and json.Marshal + json.Unmarshal into a new object do not round-trip: %s", tn, x.label(), what)
	}
	x.c.Outcome(x.name, x.label(), "json-promoted", what == "")
	return true
}

// ---------------------------------------------------------------------------------------------
// family 2: receiver history

// "grown-receiver": value j with one more element in every container (one more row, polynomial, digit, key ...)
// than any encoding of j has, so that the receiver is larger than the incoming object at every nesting level.
// "decoded-two": a zero value that decoded value j, then value k, for all ordered pairs
var historyKinds = []string{"fresh", "constructed-other", "decoded-other", "grown-receiver", "decoded-two"}

func famReceiver(t *lc) {
	nh := 5
	if t.c.Tier == "quick" && t.e.heavy {
		nh = 4 // (two-step histories of parameter sets cost seconds: thorough only)
	}
	h := t.c.Choose(nh, "receiver-history")
	t.c.Cover("history", historyKinds[h])
	if h == 0 {
		ex := t.e.expansion(t.seed)
		for _, f := range ex.derived {
			t.c.Cover("derived-field-value", f)
		}
		for _, f := range ex.equalIgnores {
			t.c.Cover("own-Equal-ignores-exported-field", f)
		}
	}
	evals, bad := 0, 0
	for _, x := range t.values() {
		e, b := receiverValue(x, h)
		evals, bad = evals+e, bad+b
	}
	if evals == 0 {
		t.c.Skip("no decoder")
		return
	}
	t.c.Count(evals)
	t.c.Outcome(t.name, h, evals, bad)
}

func receiverValue(x *lc, h int) (evals, bad int) {
	if h == 0 {
		for _, nc := range numberClasses(x.o.obj) {
			x.c.Cover("number", nc)
		}
	}
	for _, d := range availDecoders(x.o) {
		x.c.Cover("decoder", d.name)
		ref, ok := x.o.ref(d)
		if !ok {
			continue // no reference encoding (reported by entrypoints)
		}
		if h == 0 {
			evals++
			if !x.roundtrip(d, true) {
				bad++
			}
			continue
		}
		if !x.roundtrip(d, false) {
			continue // a dirty receiver cannot be judged separately from a broken plain round trip (reported by the fresh leaf)
		}
		// every catalogue value of the type (the same one included) as the receiver's previous content
		nprev := len(x.e.values(x.seed))
		if h == 4 {
			nprev *= nprev
		}
		for jk := 0; jk < nprev; jk++ {
			j := jk % len(x.e.values(x.seed))
			how := "constructed as"
			// mk builds the receiver in the state it has before the decode under test (nil: not possible); it is
			// called again when a difference has to be attributed to a component
			mk := func() any { return build(x.seed, x.e, j) }
			switch h {
			case 3:
				how = "grown from"
				mk = func() any {
					// (a private deep copy: catalogue values may share rings with the parameter sets of the world,
					// and grow appends in place)
					cp := reflect.New(reflect.TypeOf(x.o.obj).Elem())
					cp.Elem().Set(deepCopy(reflect.ValueOf(build(x.seed, x.e, j)).Elem()))
					grow(cp.Interface())
					return cp.Interface()
				}
			case 4:
				k := jk / len(x.e.values(x.seed))
				how = fmt.Sprintf("having decoded [%s] and then", x.e.values(x.seed)[k].label)
				mk = func() any {
					refk, okk := original(x.seed, x.e, k).ref(d)
					refj, okj := original(x.seed, x.e, j).ref(d)
					if !okk || !okj {
						return nil
					}
					r := freshLike(x.o.obj)
					if _, o := x.decodeInto(d, r, refk); o.err != nil || o.panicked != nil {
						return nil
					}
					if _, o := x.decodeInto(d, r, refj); o.err != nil || o.panicked != nil {
						return nil
					}
					return r
				}
			case 2:
				how = "having decoded"
				mk = func() any {
					refj, okj := original(x.seed, x.e, j).ref(d)
					if !okj {
						return nil
					}
					r := freshLike(x.o.obj)
					if _, o := x.decodeInto(d, r, refj); o.err != nil || o.panicked != nil {
						return nil // value j does not decode: reported by its own leaf
					}
					return r
				}
			}
			recv := mk()
			if recv == nil {
				continue
			}
			if j == x.vi {
				x.c.Cover("history", "same-value")
			}
			evals++
			n, o := x.decodeInto(d, recv, ref)
			prev := fmt.Sprintf("receiver previously %s [%s]", how, x.e.values(x.seed)[j].label)
			switch {
			case o.panicked != nil:
				bad++
				x.failPanic("receiver", o, d.name+" into a used receiver ("+prev+")")
			case o.err != nil:
				bad++
				x.c.Fail(sig("receiver", x.e.name+"."+d.method, "error"), "%s [%s] via %s, %s: %v", x.e.name, x.label(), d.name, prev, o.err)
			default:
				if v := x.judgePre(d, recv, n, mk); v.kind != "" {
					bad++
					x.c.Fail(sig("receiver", x.subjectFor(d, v), v.kind), "%s [%s] via %s, %s: %s", x.e.name, x.label(), d.name, prev, v.msg)
				}
			}
		}
	}
	return
}

// ---------------------------------------------------------------------------------------------
// family 3: stream composition

type streamReader struct {
	name string
	mk   func(data []byte) (r io.Reader, consumed func() int)
}

var streamReaders = []streamReader{
	{"buffer.Buffer", func(data []byte) (io.Reader, func() int) {
		b := buffer.NewBuffer(data)
		return b, func() int { return len(data) - b.Size() }
	}},
	{"bufio.Reader(4096)", func(data []byte) (io.Reader, func() int) {
		cr := newChunkReader(data, chunking{zeroAt: -1})
		br := bufio.NewReaderSize(cr, 4096)
		return br, func() int { return cr.off - br.Buffered() }
	}},
	{"bufio.Reader(64Ki)", func(data []byte) (io.Reader, func() int) {
		cr := newChunkReader(data, chunking{zeroAt: -1})
		br := bufio.NewReaderSize(cr, 1<<16)
		return br, func() int { return cr.off - br.Buffered() }
	}},
}

// streamPartners: the objects that may follow A on a stream.
func streamPartners(cat []*entry, tier string, self *entry) (r [][2]int) {
	for ei, e := range cat {
		for vi := range e.vals {
			switch {
			case tier == "thorough" || e == self:
				r = append(r, [2]int{ei, vi})
			case vi == representative(e) && !(self.heavy && tier == "quick" && ei%8 != 0):
				// (decoding a parameter set costs 10+ ms: in the quick tier it is followed by every 8th type only)
				r = append(r, [2]int{ei, vi})
			}
		}
	}
	return
}

// representative value of a type for cross-type streams: the first one that is not an empty/zero value.
func representative(e *entry) int {
	for vi, v := range e.vals {
		if !strings.Contains(v.label, "empty") && !strings.Contains(v.label, "zero-value") {
			return vi
		}
	}
	return 0
}

// streamable: consistent WriteTo/ReadFrom pair whose plain round trip works (anything else is reported by the
// entry-point and receiver families of that object).
var streamableCache = map[*cached]bool{}

func streamable(e *entry, o *cached) bool {
	if v, ok := streamableCache[o]; ok {
		return v
	}
	v := o.a.rf != nil && o.a.wt != nil && o.binOK && o.wbinOK && bytes.Equal(o.bin, o.wbin)
	if v {
		recv := freshLike(o.obj)
		var n int64
		out := guard(func() (err error) { n, err = recv.(io.ReaderFrom).ReadFrom(buffer.NewBuffer(o.wbin)); return })
		v = out.err == nil && out.panicked == nil && judgeAgainst(e, o.obj, o.wbin, decoders[1], recv, n, nil).kind == ""
	}
	streamableCache[o] = v
	return v
}

func famStream(t *lc) {
	partners := streamPartners(t.cat, t.c.Tier, t.e)
	pi := t.c.Choose(len(partners), "second-object")
	sr := streamReaders[t.c.Choose(len(streamReaders), "shared-reader")]
	be := t.cat[partners[pi][0]]
	bo := original(t.seed, be, partners[pi][1])
	if !streamable(be, bo) {
		t.c.Skip("second object has no consistent, round-tripping WriteTo/ReadFrom pair (reported by entrypoints / receiver)")
		return
	}
	n := 0
	for _, x := range t.values() {
		if !streamable(x.e, x.o) {
			continue // reported by entrypoints / receiver
		}
		n++
		streamABA(x, be, bo, partners[pi][1], sr)
	}
	if n == 0 {
		t.c.Skip("type has no consistent, round-tripping WriteTo/ReadFrom pair (reported by entrypoints / receiver)")
		return
	}
	t.c.Cover("stream-reader", sr.name)
	t.c.Cover("stream-second", be.name)
	t.c.Count(4 * n)
}

// streamABA: A, B, A written back-to-back through one writer and read back through one shared reader.
func streamABA(x *lc, be *entry, bo *cached, bvi int, sr streamReader) {
	var stream bytes.Buffer
	bw := bufio.NewWriter(&stream)
	seq := []*cached{x.o, bo, x.o}
	ents := []*entry{x.e, be, x.e}
	for i, o := range seq {
		var n int64
		out := guard(func() (err error) { n, err = o.a.wt.WriteTo(bw); return })
		if out.err != nil || out.panicked != nil || n != int64(len(o.bin)) {
			x.c.Fail(sig("stream", declName(o.obj, "WriteTo"), "shared-writer"), "writing object %d (%s) to a shared bufio.Writer: n=%d err=%v panic=%v", i, ents[i].name, n, out.err, out.panicked)
			return
		}
	}
	_ = bw.Flush()
	want := append(append(append([]byte(nil), x.o.bin...), bo.bin...), x.o.bin...)
	if !bytes.Equal(stream.Bytes(), want) {
		x.c.Fail(sig("stream", declName(x.o.obj, "WriteTo"), "shared-writer-bytes"), "A|B|A written through one bufio.Writer differs from the concatenated encodings: %s", firstDiffAt(want, stream.Bytes()))
		return
	}
	r, consumed := sr.mk(want)
	pos := 0
	for i, o := range seq {
		recv := freshLike(o.obj)
		var n int64
		out := guard(func() (err error) { n, err = recv.(io.ReaderFrom).ReadFrom(r); return })
		subj := declName(o.obj, "ReadFrom")
		where := fmt.Sprintf("object %d of stream %s[%s]|%s|%s (object bytes %d..%d) through one %s", i, x.e.name, x.label(), be.name, x.e.name, pos, pos+len(o.bin), sr.name)
		if out.panicked != nil {
			x.failPanic("stream", out, where)
			return
		}
		if out.err != nil {
			x.c.Fail(sig("stream", streamCulprit(o.obj, o.wbin, want, pos, sr, subj), "error"), "%s: %v", where, out.err)
			return
		}
		if n != int64(len(o.bin)) {
			x.c.Fail(sig("stream", subj, "wrong-count"), "%s: returned n=%d, encoding has %d bytes", where, n, len(o.bin))
			return
		}
		pos += len(o.bin)
		if got := consumed(); got != pos {
			x.c.Fail(sig("stream", subj, "cursor"), "%s: reader cursor at %d, expected %d", where, got, pos)
			return
		}
		if v := judgeAgainst(ents[i], o.obj, o.wbin, decoders[1], recv, n, nil); v.kind != "" {
			if v.subject != "" {
				subj = v.subject
			}
			x.c.Fail(sig("stream", subj, v.kind), "%s: %s", where, v.msg)
			return
		}
	}
	// plain io.Reader: the library reads ahead through its own bufio.Reader, only the returned count is checked
	recv := freshLike(x.o.obj)
	var n int64
	out := guard(func() (err error) {
		n, err = recv.(io.ReaderFrom).ReadFrom(newChunkReader(want, chunking{zeroAt: -1}))
		return
	})
	if out.panicked != nil {
		x.failPanic("stream", out, "first object from a plain io.Reader")
	} else if out.err != nil || n != int64(len(x.o.bin)) {
		x.c.Fail(sig("stream", declName(x.o.obj, "ReadFrom"), "plain-reader-count"), "first object of %s|%s from a plain io.Reader: n=%d (want %d) err=%v", x.e.name, be.name, n, len(x.o.bin), out.err)
	}
	x.c.Outcome(x.name, x.label(), be.name, bvi, sr.name, len(want))
}

// streamCulprit: the deepest component of obj (encoded at stream[pos:]) whose own ReadFrom fails at its position
// in the stream, through a reader in the state it has there (same reader kind, everything before discarded).
func streamCulprit(obj any, objBytes, stream []byte, pos int, sr streamReader, name string) string {
	for depth := 0; depth < 24; depth++ {
		found := false
		for _, c := range components(obj) {
			var buf bytes.Buffer
			if o := guard(func() (err error) { _, err = c.ptr.(io.WriterTo).WriteTo(&buf); return }); o.err != nil || o.panicked != nil || buf.Len() == 0 {
				continue
			}
			off := bytes.Index(objBytes, buf.Bytes())
			if off < 0 {
				continue
			}
			r, _ := sr.mk(stream)
			if n, err := r.(buffer.Reader).Discard(pos + off); err != nil || n != pos+off {
				continue
			}
			recv := freshLike(c.ptr)
			var n int64
			o := guard(func() (err error) { n, err = recv.(io.ReaderFrom).ReadFrom(r); return })
			if o.err == nil && o.panicked == nil && n == int64(buf.Len()) {
				continue
			}
			obj, objBytes, pos, name, found = c.ptr, buf.Bytes(), pos+off, declName(c.ptr, "ReadFrom"), true
			break
		}
		if !found {
			break
		}
	}
	return name
}

var _ = reflect.TypeOf
