package main

// Process isolation for decodes of damaged input / hostile environments.
//
// Several decoders of the library answer damaged input (and even valid input behind an oddly sized
// bufio.Reader) with errors Go cannot recover from: "fatal error: stack overflow" (unbounded recursion on an
// exhausted buffer) and "fatal error: out of memory" (make() with a length taken from the stream). Inside an
// engine worker such an event would take down the worker and silently drop every scenario queued behind it.
// All fault-point executions (families 4-6) are therefore expressed as `job`s that a helper process - the same
// binary started with C08_CHILD=1, one per worker, restarted when it dies - executes and answers. A helper that
// dies is an observation: the job in flight gets result.Fatal, the rest of the batch is resent.
// C08_INPROC=1 executes jobs in-process (debugging).

import (
	"bufio"
	"bytes"
	"encoding/json"
	"fmt"
	"io"
	"os"
	"os/exec"
	"runtime/debug"
	"strings"
	"sync"
	"syscall"
	"time"
)

type job struct {
	Seed  uint64
	Entry string
	Vi    int
	Op    string // "decode": Decoder on the reference bytes cut to Cut (if >=0) with Patch applied at Off; "frag": ReadFrom through Buf/Chunk
	// decode
	Decoder string
	Cut     int    // -1: whole encoding
	Off     int    // patch offset
	Patch   []byte // bytes written at Off (nil: none)
	Check   bool   // when the decode succeeds, check that the result is a valid object (marshals, stable)
	// frag
	Buf              int
	ChName           string
	ChSize, ChZeroAt int
	ChHalves, ChEOF  bool
}

func (j job) chunk() chunking {
	return chunking{name: j.ChName, size: j.ChSize, halves: j.ChHalves, eofWithData: j.ChEOF, zeroAt: j.ChZeroAt}
}

func fragJob(x *lc, bs int, ch chunking) job {
	return job{Seed: x.seed, Entry: x.e.name, Vi: x.vi, Op: "frag", Buf: bs, ChName: ch.name, ChSize: ch.size, ChZeroAt: ch.zeroAt, ChHalves: ch.halves, ChEOF: ch.eofWithData}
}

type result struct {
	Fatal     string // helper process died: "stack-overflow" | "out-of-memory" | "hang" | "other"
	FatalSite string // innermost library frame of the fatal traceback
	Err       string // "" = nil error
	Panic     string // "" = no panic
	PanicKind string
	Site      string
	Tripped   bool // the no-progress tripwire fired (would be a stack overflow with a real buffer.Buffer)
	AllocPan  bool
	Alloc     uint64
	N         int64
	// verdict of judge() for "frag"
	VKind, VMsg string
	// validity of an accepted corrupted object
	Invalid, InvalidMsg string // "" = valid (or not checked)
}

func (r result) ok() bool { return r.Fatal == "" && r.Err == "" && r.Panic == "" }

func fillOutcome(r *result, o outcome) {
	if o.err != nil {
		r.Err = o.err.Error()
	}
	if o.panicked != nil {
		r.Panic = o.panicMsg()
		r.PanicKind = panicKind(o)
		r.Site = o.site
		_, r.Tripped = o.panicked.(noProgress)
		r.AllocPan = o.isAllocPanic()
	}
	r.Alloc = o.alloc
}

var (
	jobCatOnce sync.Once
	jobCat     map[string]*entry
)

func entryByName(name string) *entry {
	jobCatOnce.Do(func() {
		jobCat = map[string]*entry{}
		for _, e := range catalogue() {
			jobCat[e.name] = e
		}
	})
	return jobCat[name]
}

func decoderByName(name string) decoder {
	for _, d := range decoders {
		if d.name == name {
			return d
		}
	}
	panic("c08: unknown decoder " + name)
}

// execJob runs one job in this process.
func execJob(j job) (r result) {
	e := entryByName(j.Entry)
	o := original(j.Seed, e, j.Vi)
	x := &lc{e: e, vi: j.Vi, o: o, seed: j.Seed}
	switch j.Op {
	case "frag":
		v, out := x.fragRun(j.Buf, j.chunk())
		fillOutcome(&r, out)
		r.VKind, r.VMsg = v.kind, v.msg
	case "decode":
		d := decoderByName(j.Decoder)
		ref, _ := o.ref(d)
		data := append([]byte(nil), ref...)
		if j.Patch != nil {
			copy(data[j.Off:], j.Patch)
		}
		if j.Cut >= 0 {
			data = data[:j.Cut:j.Cut]
		}
		recv := freshLike(o.obj)
		n, out := x.decodeFault(d, recv, data)
		fillOutcome(&r, out)
		r.N = n
		if j.Check && r.ok() {
			r.Invalid, r.InvalidMsg = x.validity(d, recv)
		}
	default:
		panic("c08: unknown job op " + j.Op)
	}
	return
}

// validity of an object obtained from corrupted input that was accepted without error: it must marshal, and
// its encoding must decode and marshal to the same bytes again.
func (x *lc) validity(d decoder, recv any) (kind, msg string) {
	b1, o1, ok := encodeFor(d, apiOf(recv))
	if !ok {
		if o1.panicked != nil {
			return "remarshal-panics@" + o1.site, fmt.Sprintf("marshalling the resulting object panics in %s: %s", o1.site, o1.panicMsg())
		}
		return "remarshal-fails", fmt.Sprintf("the resulting object cannot be marshalled: %v", o1.err)
	}
	recv2 := freshLike(x.o.obj)
	_, o2 := x.decodeFault(d, recv2, b1)
	if o2.err != nil || o2.panicked != nil {
		return "unstable", fmt.Sprintf("the re-marshalled object does not decode (err=%v panic=%v)", o2.err, o2.panicked)
	}
	if b2, _, ok := encodeFor(d, apiOf(recv2)); !ok || !bytes.Equal(b1, b2) {
		return "unstable", "the resulting object does not re-marshal consistently: " + firstDiffAt(b1, b2)
	}
	return "", ""
}

// ---------------------------------------------------------------------------------------------
// helper process side

func childMain() {
	debug.SetMaxStack(32 << 20) // a runaway recursion ends in milliseconds
	// A mis-framed stream makes decoders allocate whatever a garbage length says. Below the limit that is a
	// slow page-faulting multi-GiB allocation, above it an immediate "fatal error: out of memory": keep the
	// limit low so that the outcome is quick either way (the helper itself needs a few dozen MiB).
	lim := uint64(1536) << 20
	if v := os.Getenv("C08_CHILD_MEM_MB"); v != "" {
		var mb uint64
		fmt.Sscan(v, &mb)
		lim = mb << 20
	}
	_ = syscall.Setrlimit(syscall.RLIMIT_AS, &syscall.Rlimit{Cur: lim, Max: lim})
	in := bufio.NewReaderSize(os.Stdin, 1<<20)
	out := bufio.NewWriter(os.Stdout)
	dec := json.NewDecoder(in)
	enc := json.NewEncoder(out)
	for {
		var batch []job
		if err := dec.Decode(&batch); err != nil {
			return
		}
		for i, j := range batch {
			fmt.Fprintf(os.Stderr, "@job %d\n", i)
			r := execJob(j)
			if err := enc.Encode(&r); err != nil {
				return
			}
			out.Flush()
		}
	}
}

// ---------------------------------------------------------------------------------------------
// worker side

type helper struct {
	cmd    *exec.Cmd
	stdin  io.WriteCloser
	stdout *bufio.Reader
	stderr *tailBuffer
	done   chan struct{}
}

// tailBuffer keeps the beginning of what the helper wrote to stderr since the last reset (a fatal traceback
// starts with the reason and the innermost frames).
type tailBuffer struct {
	mu  sync.Mutex
	buf []byte
}

func (t *tailBuffer) Write(p []byte) (int, error) {
	t.mu.Lock()
	if len(t.buf) < 1<<16 {
		t.buf = append(t.buf, p...)
	}
	t.mu.Unlock()
	return len(p), nil
}

func (t *tailBuffer) take() string {
	t.mu.Lock()
	defer t.mu.Unlock()
	s := string(t.buf)
	t.buf = t.buf[:0]
	return s
}

var theHelper *helper

func startHelper() *helper {
	self, err := os.Executable()
	if err != nil {
		panic(err)
	}
	cmd := exec.Command(self)
	cmd.Env = append(os.Environ(), "C08_CHILD=1", "GOMAXPROCS=1", "GOTRACEBACK=single")
	h := &helper{cmd: cmd, stderr: &tailBuffer{}, done: make(chan struct{})}
	if h.stdin, err = cmd.StdinPipe(); err != nil {
		panic(err)
	}
	so, err := cmd.StdoutPipe()
	if err != nil {
		panic(err)
	}
	h.stdout = bufio.NewReaderSize(so, 1<<20)
	cmd.Stderr = h.stderr
	if err := cmd.Start(); err != nil {
		panic(err)
	}
	return h
}

func (h *helper) kill() {
	_ = h.stdin.Close()
	_ = h.cmd.Process.Kill()
	_ = h.cmd.Wait()
}

func classifyFatal(stderr string) (kind, site string) {
	switch {
	case strings.Contains(stderr, "stack overflow") || strings.Contains(stderr, "stack exceeds"):
		kind = "stack-overflow"
	case strings.Contains(stderr, "out of memory") || strings.Contains(stderr, "cannot allocate"):
		kind = "out-of-memory"
	default:
		kind = "other"
	}
	for _, l := range strings.Split(stderr, "\n") {
		if strings.HasPrefix(l, "github.com/tuneinsight/lattigo/") {
			if i := strings.Index(l, "({"); i >= 0 {
				l = l[:i]
			} else if i := strings.LastIndex(l, "("); i >= 0 {
				l = l[:i]
			}
			site = normFunc(strings.TrimSpace(l))
			break
		}
	}
	if site == "" {
		site = "unknown"
	}
	return
}

// runJobs executes the jobs in order in the helper process and returns one result per job.
func runJobs(jobs []job) []result {
	res := make([]result, 0, len(jobs))
	if os.Getenv("C08_INPROC") == "1" {
		for _, j := range jobs {
			res = append(res, execJob(j))
		}
		return res
	}
	for len(res) < len(jobs) {
		if theHelper == nil {
			theHelper = startHelper()
		}
		h := theHelper
		h.stderr.take()
		pending := jobs[len(res):]
		b, err := json.Marshal(pending)
		if err != nil {
			panic(err)
		}
		go func() { _, _ = h.stdin.Write(append(b, '\n')) }()
		got := 0
		for got < len(pending) {
			type lineRes struct {
				b   []byte
				err error
			}
			ch := make(chan lineRes, 1)
			go func() { l, err := h.stdout.ReadBytes('\n'); ch <- lineRes{l, err} }()
			var lr lineRes
			hang := false
			select {
			case lr = <-ch:
			case <-time.After(60 * time.Second):
				hang = true
			}
			var r result
			if !hang && lr.err == nil && json.Unmarshal(lr.b, &r) == nil {
				res = append(res, r)
				got++
				continue
			}
			// the helper died (or hangs) while executing pending[got]
			h.kill()
			theHelper = nil
			if hang {
				r = result{Fatal: "hang", FatalSite: "unknown"}
			} else {
				k, s := classifyFatal(h.stderr.take())
				r = result{Fatal: k, FatalSite: s}
			}
			res = append(res, r)
			break
		}
	}
	return res
}

func runJob(j job) result { return runJobs([]job{j})[0] }
