package main

// Process isolation for decodes of damaged input / hostile environments.
//
// Several decoders of the library answer damaged input (and even valid input behind an oddly sized
// bufio.Reader) with errors Go cannot recover from: "fatal error: stack overflow" (unbounded recursion on an
// exhausted buffer) and "fatal error: out of memory" (make() with a length taken from the stream). Inside an
// engine worker such an event would take down the worker and silently drop every scenario queued behind it.
// All fault-point executions (families 4-6) are therefore expressed as `job`s that a helper process - the same
// binary started with C08_CHILD=1, one per worker, restarted when it dies - executes and answers. A helper that
// dies is an observation: the job in flight gets result.Fatal, the rest of the batch is resent.
// C08_INPROC=1 executes jobs in-process (debugging).

import (
	"bufio"
	"bytes"
	"encoding/json"
	"fmt"
	"io"
	"os"
	"os/exec"
	"runtime"
	"runtime/debug"
	"strings"
	"sync"
	"syscall"

	"github.com/tuneinsight/lattigo/v6/utils/buffer"
)

// batch: jobs about one object. Ref (the reference encoding the decode jobs cut and patch) travels with the
// batch so that a freshly (re)started helper does not have to rebuild the object: for "decode" jobs it only
// needs the type's zero value.
type batch struct {
	Seed     uint64
	Entry    string
	Vi       int
	Ref      []byte
	Tripwire bool // UnmarshalBinary and ReadFrom speak the same format: probe through the watchReader first
	Careful  bool // answer (flush) after every job instead of once per batch: used to find the job that kills the helper
	Jobs     []job
}

type job struct {
	Op string // "decode": Decoder on the reference bytes cut to Cut (if >=0) with Patch applied at Off; "frag": ReadFrom through Buf/Chunk
	// decode
	Decoder string
	Cut     int    // -1: whole encoding
	Off     int    // patch offset
	Patch   []byte // bytes written at Off (nil: none)
	Check   bool   // when the decode succeeds, check that the result is a valid object (marshals, stable)
	// frag / comps: Path selects a component of the object (indices into successive components() lists)
	Path             []int
	Buf              int
	ChName           string
	ChSize, ChZeroAt int
	ChSplit          int
	ChRnd            uint64
	ChHalves, ChEOF  bool
}

func (j job) chunk() chunking {
	return chunking{name: j.ChName, size: j.ChSize, halves: j.ChHalves, eofWithData: j.ChEOF, zeroAt: j.ChZeroAt, splitAt: j.ChSplit, rnd: j.ChRnd}
}

func fragJob(path []int, bs int, ch chunking) job {
	return job{Op: "frag", Path: path, Buf: bs, ChName: ch.name, ChSize: ch.size, ChZeroAt: ch.zeroAt, ChHalves: ch.halves, ChEOF: ch.eofWithData, ChSplit: ch.splitAt, ChRnd: ch.rnd}
}

type result struct {
	NotRun    bool   // not executed / not looked at: beyond the cut-off of runJobs
	Fatal     string // helper process died: "stack-overflow" | "out-of-memory" | "hang" | "other"
	FatalSite string // innermost library frame of the fatal traceback
	Err       string // "" = nil error
	Panic     string // "" = no panic
	PanicKind string
	Site      string
	Tripped   bool // the no-progress tripwire fired (would be a stack overflow with a real buffer.Buffer)
	AllocPan  bool
	Alloc     uint64 // bytes allocated (for an out-of-memory death: the size of the refused request)
	AllocSite string // decoder function that made an over-the-limit allocation (from a traced repetition of the decode)
	N         int64
	// verdict of judge() for "frag"
	VKind, VMsg string
	// validity of an accepted corrupted object
	Invalid, InvalidMsg string // "" = valid (or not checked)
	// "comps": signature subjects of the components
	Names []string
	// "owners": which decoder function consumed which bytes of the valid encoding
	Owners []ownerSeg
}

func (r result) ok() bool { return !r.NotRun && r.Fatal == "" && r.Err == "" && r.Panic == "" }

const maxEvents = 3 // see runJobs

func fillOutcome(r *result, o outcome) {
	if o.err != nil {
		r.Err = o.err.Error()
	}
	if o.panicked != nil {
		r.Panic = o.panicMsg()
		r.PanicKind = panicKind(o)
		r.Site = o.site
		_, r.Tripped = o.panicked.(noProgress)
		r.AllocPan = o.isAllocPanic()
	}
	r.Alloc = o.alloc
}

var (
	jobCatOnce sync.Once
	jobCat     map[string]*entry
)

func entryByName(name string) *entry {
	jobCatOnce.Do(func() {
		jobCat = map[string]*entry{}
		for _, e := range catalogue() {
			jobCat[e.name] = e
		}
	})
	return jobCat[name]
}

func decoderByName(name string) decoder {
	for _, d := range decoders {
		if d.name == name {
			return d
		}
	}
	panic("c08: unknown decoder " + name)
}

// execJob runs one job in this process.
func execJob(b *batch, j job) (r result) {
	e := entryByName(b.Entry)
	switch j.Op {
	case "frag":
		o := original(b.Seed, e, b.Vi)
		obj, wbin, ee := o.obj, o.wbin, e
		if len(j.Path) > 0 {
			obj, ee = resolvePath(o.obj, j.Path), nil
			var buf bytes.Buffer
			if out := guard(func() (err error) { _, err = obj.(io.WriterTo).WriteTo(&buf); return }); out.err != nil || out.panicked != nil {
				fillOutcome(&r, out)
				return
			}
			wbin = buf.Bytes()
		}
		v, out := fragRunObj(ee, obj, wbin, j.Buf, j.chunk())
		fillOutcome(&r, out)
		r.VKind, r.VMsg = v.kind, v.msg
	case "owners":
		d := decoderByName(j.Decoder)
		if b.Tripwire || d.method == "ReadFrom" {
			_, r.Owners = traceDecode(d, e.zero(), b.Ref, 0, true)
		}
	case "comps":
		for _, c := range components(resolvePath(original(b.Seed, e, b.Vi).obj, j.Path)) {
			r.Names = append(r.Names, declName(c.ptr, "ReadFrom"))
		}
	case "decode":
		d := decoderByName(j.Decoder)
		data := append([]byte(nil), b.Ref...)
		if j.Patch != nil {
			copy(data[j.Off:], j.Patch)
		}
		if j.Cut >= 0 {
			data = data[:j.Cut:j.Cut]
		}
		recv := e.zero()
		n, out := decodeFault(d, recv, data, b.Tripwire)
		fillOutcome(&r, out)
		r.N = n
		if r.Alloc > allocLimit(len(b.Ref)) && (b.Tripwire || d.method == "ReadFrom") {
			// which decoder made the giant allocation: repeat the decode under a tracing reader (deterministic)
			runtime.GC()
			debug.FreeOSMemory()
			r.AllocSite, _ = traceDecode(d, e.zero(), data, allocLimit(len(b.Ref)), false)
		}
		if j.Check && r.ok() {
			r.Invalid, r.InvalidMsg = validity(e, d, recv, b.Tripwire)
		}
		if r.Alloc > 32<<20 {
			// leave no garbage behind a job that allocated tens of megabytes: whether a later allocation fits under
			// the helper's address-space limit must not depend on when the collector last ran
			recv = nil
			runtime.GC()
			debug.FreeOSMemory()
		}
	default:
		panic("c08: unknown job op " + j.Op)
	}
	return
}

// validity of an object obtained from corrupted input that was accepted without error: it must marshal, and
// its encoding must decode and marshal to the same bytes again.
func validity(e *entry, d decoder, recv any, tripwire bool) (kind, msg string) {
	b1, o1, ok := encodeFor(d, apiOf(recv))
	if !ok {
		if o1.panicked != nil {
			return "remarshal-panics@" + o1.site, fmt.Sprintf("marshalling the resulting object panics in %s: %s", o1.site, o1.panicMsg())
		}
		return "remarshal-fails", fmt.Sprintf("the resulting object cannot be marshalled: %v", o1.err)
	}
	recv2 := e.zero()
	_, o2 := decodeFault(d, recv2, b1, tripwire)
	if o2.err != nil || o2.panicked != nil {
		return "unstable", fmt.Sprintf("the re-marshalled object does not decode (err=%v panic=%v)", o2.err, o2.panicked)
	}
	if b2, _, ok := encodeFor(d, apiOf(recv2)); !ok || !bytes.Equal(b1, b2) {
		return "unstable", "the resulting object does not re-marshal consistently: " + firstDiffAt(b1, b2)
	}
	return "", ""
}

// traceDecode repeats a decode of `data` through a traceReader (same library code path as the decoder: ReadFrom;
// UnmarshalBinary is ReadFrom on a buffer.Buffer) and returns what the trace establishes: the function that made
// an over-the-limit allocation (limit>0), and/or which function consumed which bytes (record).
func traceDecode(d decoder, recv any, data []byte, limit uint64, record bool) (site string, segs []ownerSeg) {
	rf, ok := recv.(io.ReaderFrom)
	if !ok || d.json {
		return "", nil
	}
	var under buffer.Reader = buffer.NewBuffer(data)
	if d.name == "ReadFrom(bufio.Reader)" || d.name == "ReadFrom(io.Reader)" {
		under = bufio.NewReader(bytes.NewReader(data))
	}
	t := newTraceReader(under, limit, record)
	o := guard(func() (err error) { _, err = rf.ReadFrom(t); return })
	if ev, ok := o.panicked.(allocEvent); ok {
		site = ev.site
	}
	return site, t.segs
}

// ---------------------------------------------------------------------------------------------
// helper process side

// vmSize: current virtual size of this process in bytes (2 GiB if /proc is unreadable).
func vmSize() uint64 {
	b, err := os.ReadFile("/proc/self/statm")
	var pages uint64
	if err != nil {
		return 2 << 30
	}
	if _, err := fmt.Sscan(string(b), &pages); err != nil || pages == 0 {
		return 2 << 30
	}
	return pages * uint64(os.Getpagesize())
}

func childMain() {
	debug.SetMaxStack(8 << 20) // a runaway recursion ends in milliseconds
	// A mis-framed stream makes decoders allocate whatever a garbage length says. Below the address-space limit
	// that is a slow allocation (zeroing and faulting in hundreds of MiB), above it an immediate "fatal error: out
	// of memory"; both are the same event for the oracle (an allocation request far beyond the input size), so the
	// limit is set just above what the largest deliberate allocation needs: current size (a go1.23 process reserves
	// ~1.3 GiB of address space before it has allocated anything; RLIMIT_AS counts that) + 256 MiB.
	lim := vmSize() + 256<<20
	if v := os.Getenv("C08_CHILD_MEM_MB"); v != "" {
		var mb uint64
		fmt.Sscan(v, &mb)
		lim = mb << 20
	}
	_ = syscall.Setrlimit(syscall.RLIMIT_AS, &syscall.Rlimit{Cur: lim, Max: lim})
	in := bufio.NewReaderSize(os.Stdin, 1<<20)
	out := bufio.NewWriter(os.Stdout)
	dec := json.NewDecoder(in)
	enc := json.NewEncoder(out)
	for {
		var b batch
		if err := dec.Decode(&b); err != nil {
			return
		}
		for _, j := range b.Jobs {
			r := execJob(&b, j)
			if err := enc.Encode(&r); err != nil {
				return
			}
			if b.Careful {
				out.Flush()
			}
		}
		out.Flush()
	}
}

// ---------------------------------------------------------------------------------------------
// worker side

type helper struct {
	cmd    *exec.Cmd
	stdin  io.WriteCloser
	stdout *bufio.Reader
	stderr *tailBuffer
	done   chan struct{}
}

// tailBuffer keeps the beginning of what the helper wrote to stderr since the last reset (a fatal traceback
// starts with the reason and the innermost frames).
type tailBuffer struct {
	mu  sync.Mutex
	buf []byte
}

func (t *tailBuffer) Write(p []byte) (int, error) {
	t.mu.Lock()
	if len(t.buf) < 1<<16 {
		t.buf = append(t.buf, p...)
	}
	t.mu.Unlock()
	return len(p), nil
}

func (t *tailBuffer) take() string {
	t.mu.Lock()
	defer t.mu.Unlock()
	s := string(t.buf)
	t.buf = t.buf[:0]
	return s
}

var theHelper *helper

func startHelper() *helper {
	// /proc/self/exe rather than os.Executable(): the binary on disk may have been replaced or removed (rebuilds,
	// mutation-testing clean-ups) while this worker runs
	var err error
	cmd := exec.Command("/proc/self/exe")
	cmd.Env = append(os.Environ(), "C08_CHILD=1", "GOMAXPROCS=1", "GOTRACEBACK=single")
	h := &helper{cmd: cmd, stderr: &tailBuffer{}, done: make(chan struct{})}
	if h.stdin, err = cmd.StdinPipe(); err != nil {
		panic(err)
	}
	so, err := cmd.StdoutPipe()
	if err != nil {
		panic(err)
	}
	h.stdout = bufio.NewReaderSize(so, 1<<20)
	cmd.Stderr = h.stderr
	if err := cmd.Start(); err != nil {
		panic(err)
	}
	return h
}

func (h *helper) kill() {
	_ = h.stdin.Close()
	_ = h.cmd.Process.Kill()
	_ = h.cmd.Wait()
}

// classifyFatal turns the helper's dying words into a result. An out-of-memory death carries the size of the
// refused request ("runtime: out of memory: cannot allocate N-byte block").
func classifyFatal(stderr string) (r result) {
	switch {
	case strings.Contains(stderr, "stack overflow") || strings.Contains(stderr, "stack exceeds"):
		r.Fatal = "stack-overflow"
	case strings.Contains(stderr, "out of memory") || strings.Contains(stderr, "cannot allocate"):
		r.Fatal = "out-of-memory"
		if i := strings.Index(stderr, "cannot allocate "); i >= 0 {
			fmt.Sscanf(stderr[i:], "cannot allocate %d-byte", &r.Alloc)
		}
	default:
		r.Fatal = "other"
	}
	for _, l := range strings.Split(stderr, "\n") {
		if strings.HasPrefix(l, "github.com/tuneinsight/lattigo/") {
			if i := strings.Index(l, "({"); i >= 0 {
				l = l[:i]
			} else if i := strings.LastIndex(l, "("); i >= 0 {
				l = l[:i]
			}
			r.FatalSite = normFunc(strings.TrimSpace(l))
			break
		}
	}
	if r.FatalSite == "" {
		r.FatalSite = "unknown"
	}
	return
}

// runJobs executes the jobs in order in the helper process and returns one result per job.
func runJobs(hdr batch, jobs []job) []result {
	res := make([]result, 0, len(jobs))
	// Cut-off (bounds what one leaf spends on dying helpers and giant allocations): after maxEvents results that
	// are fatal or an over-the-limit allocation, the rest of the batch is not executed. Both kinds of event are
	// deterministic properties of a job (an allocation request above the limit is an event whether the runtime
	// happened to satisfy it or not), so the cut-off position is too. Jobs travel in chunks of 64 so that the
	// helper does not run far past the cut-off.
	events := 0
	limit := allocLimit(len(hdr.Ref))
	note := func(r result) {
		if r.Fatal != "" || r.Alloc > limit {
			events++
		}
	}
	if os.Getenv("C08_INPROC") == "1" {
		for _, j := range jobs {
			if events >= maxEvents {
				res = append(res, result{NotRun: true})
				continue
			}
			r := execJob(&hdr, j)
			note(r)
			res = append(res, r)
		}
		return res
	}
	// Answers normally arrive once per chunk (one write, one read: the worker and its helper do not ping-pong per
	// job). When the helper dies inside a chunk the answers it had not flushed are lost; the chunk is then
	// repeated in careful mode (one flushed answer per job), which pins the death on the job that causes it. Jobs
	// are idempotent, so repeating them is harmless.
	careful := false
	for len(res) < len(jobs) {
		if events >= maxEvents {
			res = append(res, result{NotRun: true})
			continue
		}
		if theHelper == nil {
			theHelper = startHelper()
		}
		h := theHelper
		h.stderr.take()
		pending := jobs[len(res):]
		if len(pending) > 64 {
			pending = pending[:64]
		}
		hdr.Jobs, hdr.Careful = pending, careful
		b, err := json.Marshal(&hdr)
		if err != nil {
			panic(err)
		}
		go func() { _, _ = h.stdin.Write(append(b, '\n')) }()
		got := 0
		for ; got < len(pending); got++ {
			// No timeout here: a wall-clock limit would turn machine load into a verdict. A helper that really hangs
			// blocks this worker until the engine's own budget watchdog reports the worker (with this scenario).
			line, rerr := h.stdout.ReadBytes('\n')
			var r result
			if rerr != nil || json.Unmarshal(line, &r) != nil {
				break
			}
			if events >= maxEvents {
				r = result{NotRun: true} // executed by the helper, but beyond the cut-off: not looked at
			}
			note(r)
			res = append(res, r)
		}
		if got == len(pending) {
			careful = false
			continue
		}
		// the helper died somewhere in pending[got:]
		h.kill()
		theHelper = nil
		dying := h.stderr.take()
		if !careful {
			careful = true // repeat from the first unanswered job, one answer per job
			continue
		}
		r := classifyFatal(dying) // careful mode: pending[got] is the job that kills it
		if events >= maxEvents {
			r = result{NotRun: true}
		}
		note(r)
		res = append(res, r)
	}
	return res
}

func runJob(hdr batch, j job) result { return runJobs(hdr, []job{j})[0] }

// header of the batches about this leaf's object and decoder.
func (x *lc) header(d *decoder) batch {
	h := batch{Seed: x.seed, Entry: x.e.name, Vi: x.vi}
	if d != nil {
		h.Ref, _ = x.o.ref(*d)
		h.Tripwire = x.o.binOK && x.o.wbinOK && (bytes.HasPrefix(x.o.bin, x.o.wbin) || bytes.HasPrefix(x.o.wbin, x.o.bin))
	}
	return h
}
