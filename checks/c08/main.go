// C08 — serialization is faithful, size-exact, stream-composable and fails cleanly.
//
// E4 fault-environment enumerator + receiver-history search (DESIGN §6 C08): a table-driven catalogue of
// every serializable type (2-6 values each, built at LogN 4/5 so that every byte offset can be a fault
// point), whose method set is discovered dynamically, is pushed through seven oracle families:
// entry points, receiver history, stream composition, fragmentation, truncation, header corruption,
// failing writers. One scenario per (type, family); leaves loop over the catalogue values of the type.
package main

import (
	"fmt"
	"os"
	"reflect"
	"runtime/debug"
	"time"

	"verif/engine"
)

type family struct {
	name string
	run  func(x *lc)
}

var families = []family{
	{"entrypoints", famEntryPoints},
	{"receiver", famReceiver},
	{"stream", famStream},
	{"fragmentation", famFragmentation},
	{"truncation", famTruncation},
	{"corruption", famCorruption},
	{"writer-failure", famWriterFailure},
	{"concurrent-writers", famInterleave},
}

func scenarios(tier string) []engine.Scenario {
	cat := catalogue()
	var scs []engine.Scenario
	// One scenario per (type, family); a leaf loops over the catalogue values of the type, so that a defect of a
	// type is one violating leaf per family and not one per value (the engine keeps a bounded number of violating
	// leaves per worker, whatever the number of workers). Family-major order: the engine deals scenarios round-robin,
	// so the types of each family (and with them the dear families) are spread over all workers.
	for _, f := range families {
		for _, e := range cat {
			e, f := e, f
			name := fmt.Sprintf("c08/%s/%s", f.name, e.name)
			scs = append(scs, engine.Scenario{Name: name, Bound: -1, Fn: func(c *engine.Chooser) {
				if timingFile != nil {
					t0 := time.Now()
					defer func() { timing(name, time.Since(t0)) }()
				}
				o := original(c.Seed, e, 0)
				if got := typeName(o.obj); got != e.name {
					panic(fmt.Sprintf("catalogue row %q builds a %s (%s)", e.name, got, reflect.TypeOf(o.obj)))
				}
				c.Cover("type", e.name)
				c.Cover("family", f.name)
				f.run(&lc{c: c, cat: cat, e: e, vi: -1, name: name, seed: c.Seed})
			}})
		}
	}
	return scs
}

// C08_TIMING=<file>: per-scenario wall time (development aid for balancing the quick tier).
var (
	timingFile *os.File
	timingLast string
	timingAcc  time.Duration
	timingN    int
)

func timing(name string, d time.Duration) {
	if name != timingLast {
		if timingLast != "" {
			fmt.Fprintf(timingFile, "%8.0f ms %6d leaves %s\n", timingAcc.Seconds()*1000, timingN, timingLast)
		}
		timingLast, timingAcc, timingN = name, 0, 0
	}
	timingAcc += d
	timingN++
}

func expect(tier string) []string {
	var ex []string
	for _, e := range catalogue() {
		ex = append(ex, "type="+e.name)
	}
	for _, f := range families {
		ex = append(ex, "family="+f.name)
	}
	for _, w := range writerKinds {
		ex = append(ex, "writer="+w.name)
	}
	ex = append(ex, "writer=BinarySize", "writer=json")
	for _, d := range decoders {
		ex = append(ex, "decoder="+d.name)
	}
	ex = append(ex, "history=fresh", "history=constructed-other", "history=decoded-other", "history=same-value", "history=grown-receiver")
	for _, p := range interleavePool {
		ex = append(ex, "interleave-other="+p[0])
	}
	for _, s := range streamReaders {
		ex = append(ex, "stream-reader="+s.name)
	}
	for _, b := range bufSizes {
		ex = append(ex, "frag-buffer="+bufName(b))
	}
	ex = append(ex, "frag-chunks=full", "frag-chunks=short-reads", "frag-chunks=eof-with-data", "frag-chunks=zero-nil-read", "frag-chunks=two-chunks")
	ex = append(ex, "trunc-decoder=UnmarshalBinary", "trunc-decoder=ReadFrom(bufio.Reader)", "trunc-decoder=json.Unmarshal")
	ex = append(ex, "corrupt-decoder=UnmarshalBinary", "corrupt-decoder=ReadFrom(bufio.Reader)", "corrupt-decoder=json.Unmarshal",
		"corrupt-width=0", "corrupt-width=1", "corrupt-width=4", "corrupt-width=8", "corrupt-result=rejected-with-error", "corrupt-result=accepted-valid-object")
	for _, w := range failingWriters {
		ex = append(ex, "failing-writer="+w)
	}
	for _, n := range numberClassNames {
		ex = append(ex, "number="+n)
	}
	return ex
}

func main() {
	// a decoder recursing forever should end the worker in milliseconds, not after growing a 1 GB stack
	debug.SetMaxStack(64 << 20)
	if f := os.Getenv("C08_TIMING"); f != "" && os.Getenv("C08_CHILD") != "1" {
		timingFile, _ = os.OpenFile(f, os.O_APPEND|os.O_CREATE|os.O_WRONLY, 0o644)
	}
	if os.Getenv("C08_FIELDS") != "" { // development aid: which field values are derived, which fields Equal ignores
		t0 := time.Now()
		for _, e := range catalogue() {
			x := e.expansion(1)
			if len(x.derived)+len(x.equalIgnores) > 0 {
				fmt.Printf("%s: +%d values derived=%s equal-ignores=%s\n", e.name, len(x.all)-len(e.vals), shortList(x.derived), shortList(x.equalIgnores))
			}
		}
		fmt.Println("expansion of all types:", time.Since(t0))
		return
	}
	if os.Getenv("C08_CHILD") == "1" {
		childMain()
		return
	}
	engine.Main(engine.Check{
		ID:    "C08",
		Level: "fault_enumeration",
		Rule: "One scenario per (serializable type, oracle family), every leaf looping over all catalogue values of the type; the method set (BinarySize/WriteTo/ReadFrom/MarshalBinary/UnmarshalBinary/JSON) is discovered per type. " +
			"Leaves (choice points) and what each batches: entrypoints = one leaf per writing entry point (MarshalBinary, 8 writers, BinarySize, JSON); " +
			"receiver = one leaf per history kind (fresh / constructed as / having decoded [/ two decodes, thorough]) looping over every decoder and every catalogue value of the type as previous content; " +
			"stream = one leaf per (partner object B, shared buffer.Reader kind) for the stream A|B|A; " +
			"fragmentation = leaf 0: all reader buffer sizes direct/16/17/100/4096 with the whole data available, then one leaf per chunking class over all buffer sizes ( short reads 1/2/7/9/1000/halves, io.EOF together with data, one (0,nil) read at each position, two chunks split at each byte); " +
			"truncation = one leaf over every decoder and every cut offset (all offsets up to 4 KiB, else first 256 + every 64th + last 8; thorough: all); " +
			"corruption = one leaf over every decoder and every located header field (each of the first 64 bytes, every small LE u32/u64, every byte of JSON texts) x {0,1,2,0xff,orig+-1,2^63,2^64-1,2^20,2^31,2^32-1} (JSON: 8 bit flips + 3 bytes), allocation-driving lengths probed at 2^19, attributed to the decoder function that reads the field (traced reader calls) and confirmed once per such function above 80 MiB; " +
			"writer-failure = one leaf per failing writer kind over every failure offset; concurrent-writers = one leaf per interleaving of the Write calls of two objects serialized by two goroutines to two gating writers (every interleaving up to 800 / 50000 per pair). Fault-point executions run in a helper process so that fatal errors are observations. " +
			"Catalogue values carry, besides the shapes, every class of number a codec can round: scales with a full 128-bit mantissa (2^90/q, 1/3, 2^127+1, 2^128-1, results of Scale.Mul/Div and of a ckks Mul+Rescale) alone and inside every object that carries a scale, big.Float constants that are not dyadic at 53/64/128/256 bits, float64 parameters that are neither float32 nor short decimals; equality is exact (big.Float.Cmp, and the re-marshalled bytes). " +
			"Every exported scalar field of every catalogued struct type takes at least two contents over the values of the type (values derived by reflection where the hand-written ones leave a field constant, e.g. fields no constructor sets); where a type's own Equal ignores an exported scalar field, the field comparison decides. " +
			"distinct_nontrivial counts distinct (scenario, environment, observed result) classes.",
		Assumptions: []string{
			"back-to-back reads from one stream go through ONE shared reader implementing lattigo's buffer.Reader (bufio.Reader or buffer.Buffer); for a plain io.Reader the library documents a read-ahead bufio wrapper, so only the returned count is checked there",
			"a bufio.Writer handed to WriteTo belongs to the caller, who flushes it at the end of the stream; a plain io.Writer must have received all bytes when WriteTo returns",
			"readers follow the io.Reader contract (short reads, n>0 with io.EOF, and single (0,nil) reads are allowed); writers that accept fewer bytes than offered return an error",
			"a corrupted field may also yield a valid different object (one that marshals, and whose encoding decodes and re-marshals identically); only errors, panics, allocations above 80 MiB + 16*len and unmarshallable results are judged",
			"equality is the type's own Equal when it takes the type itself, else structural (nil == empty slice/map, big numbers by value), and in every case the re-marshalled bytes must be identical",
		},
		Scenarios:      scenarios,
		QuickBudget:    150 * time.Second,
		ThoroughBudget: 25 * time.Minute,
		Expect:         expect,
		MemLimitMB:     4096,
	})
}
