package main

// Family 8: two writers used at the same time. Two different objects are serialized by two goroutines to two
// different writers; a gating buffer.Writer parks each goroutine at the entry of every Write call and the leaf's
// choices decide who proceeds, so that EVERY interleaving of the two sequences of Write calls is executed (one
// leaf each). Each stream must be byte-identical to what the object produces alone. State shared between
// serializations behind the API (package-level scratch buffers, caches) is invisible to every sequential
// enumeration and shows here. Only one goroutine runs at any time and every hand-over is a channel operation, so
// the executions are deterministic and free of Go-level data races.

import (
	"bytes"
	"fmt"
	"io"
	"math/big"
)

// gateWriter is a buffer.Writer whose Write parks until the scheduler lets it through. The bytes are consumed
// AFTER the gate: whatever the caller's slice aliases can change while the call is parked.
type gateWriter struct {
	id      int
	s       *gateSched
	buf     []byte
	scratch []byte
	writes  int
}

func (g *gateWriter) Write(p []byte) (int, error) {
	g.writes++
	if g.s != nil {
		g.s.req <- g.id
		<-g.s.grant[g.id]
	}
	g.buf = append(g.buf, p...)
	return len(p), nil
}
func (g *gateWriter) Flush() error            { return nil }
func (g *gateWriter) Available() int          { return cap(g.scratch) }
func (g *gateWriter) AvailableBuffer() []byte { return g.scratch[:0] }

type gateSched struct {
	req   chan int
	done  chan int
	grant [2]chan struct{}
}

// interleavePool: small objects whose one-byte tags / flags differ from those of most objects (no metadata, no
// keys, zero counts), to be serialized next to the object under test.
var interleavePool = [][2]string{
	{"rlwe.MemEvaluationKeySet", "zero-value"},
	{"rlwe.Ciphertext", "A-deg1-level0-nil-metadata"},
	{"rlwe.Ciphertext", "A-deg0-level0-md0"},
	{"polynomial.PowerBasis", "zero-value"},
	{"bootstrapping.EvaluationKeys", "zero-value"},
	{"structs.Vector[uint8]", "len5"},
}

func poolObject(x *lc, i int) (*entry, *cached) {
	for _, e := range x.cat {
		if e.name != interleavePool[i][0] {
			continue
		}
		for vi, v := range e.vals {
			if v.label == interleavePool[i][1] {
				return e, original(x.seed, e, vi)
			}
		}
	}
	panic("c08: interleave pool object not in the catalogue: " + interleavePool[i][0] + " " + interleavePool[i][1])
}

// writeCalls: number of Write calls obj.WriteTo makes on a buffer.Writer with a 4 KiB scratch (sequential dry run).
func writeCalls(o *cached) int {
	g := &gateWriter{scratch: make([]byte, 0, 4096)}
	if out := guard(func() (err error) { _, err = o.a.wt.WriteTo(g); return }); out.err != nil || out.panicked != nil || !bytes.Equal(g.buf, o.wbin) {
		return -1
	}
	return g.writes
}

func binomialAtMost(n, k int, lim int64) bool {
	return new(big.Int).Binomial(int64(n), int64(k)).Cmp(big.NewInt(lim)) <= 0
}

func famInterleave(t *lc) {
	ai := t.c.Choose(len(t.e.values(t.seed)), "value")
	bi := t.c.Choose(len(interleavePool), "other-object")
	x := t.at(ai)
	be, bo := poolObject(x, bi)
	if x.o.a.wt == nil || !x.o.wbinOK {
		t.c.Skip("type has no WriteTo")
		return
	}
	m, n := writeCalls(x.o), writeCalls(bo)
	if m <= 0 || n <= 0 {
		t.c.Skip("object does not serialize to a buffer.Writer on its own (reported by entrypoints)")
		return
	}
	lim := int64(800)
	if t.c.Tier == "thorough" {
		lim = 50000
	}
	if !binomialAtMost(m+n, n, lim) {
		t.c.Skip("more interleavings than the tier enumerates")
		return
	}
	t.c.Cover("interleave-other", be.name)
	s := &gateSched{req: make(chan int), done: make(chan int)}
	s.grant[0], s.grant[1] = make(chan struct{}), make(chan struct{})
	objs := [2]*cached{x.o, bo}
	names := [2]string{x.e.name + " [" + x.label() + "]", be.name + " [" + interleavePool[bi][1] + "]"}
	var gw [2]*gateWriter
	var outs [2]outcome
	var ns [2]int64
	parked := [2]bool{}
	finished := [2]bool{}
	wait := func() { // until the running goroutine parks at a Write or finishes
		select {
		case id := <-s.req:
			parked[id] = true
		case id := <-s.done:
			finished[id] = true
		}
	}
	for i := 0; i < 2; i++ {
		i := i
		gw[i] = &gateWriter{id: i, s: s, scratch: make([]byte, 0, 4096)}
		go func() {
			outs[i] = guard(func() (err error) { ns[i], err = objs[i].a.wt.(io.WriterTo).WriteTo(gw[i]); return })
			s.done <- i
		}()
		wait()
	}
	order := make([]byte, 0, m+n)
	for !(finished[0] && finished[1]) {
		next := 0
		switch {
		case parked[0] && parked[1]:
			next = t.c.Choose(2, "next-writer")
		case parked[1]:
			next = 1
		}
		order = append(order, byte('A'+next))
		parked[next] = false
		s.grant[next] <- struct{}{}
		wait()
	}
	for i := 0; i < 2; i++ {
		subj := declName(objs[i].obj, "WriteTo")
		what := fmt.Sprintf("%s serialized while %s is being serialized to another writer (order of Write calls %s)", names[i], names[1-i], order)
		switch {
		case outs[i].panicked != nil:
			x.failPanic("concurrent-writers", outs[i], what)
		case outs[i].err != nil:
			t.c.Fail(sig("concurrent-writers", subj, "error"), "%s: %v", what, outs[i].err)
		case !bytes.Equal(gw[i].buf, objs[i].wbin):
			t.c.Fail(sig("concurrent-writers", subj, "bytes-differ"), "%s: the stream differs from the object's own encoding: %s", what, firstDiffAt(objs[i].wbin, gw[i].buf))
		case ns[i] != int64(len(objs[i].wbin)):
			t.c.Fail(sig("concurrent-writers", subj, "wrong-count"), "%s: returned n=%d for %d bytes", what, ns[i], len(objs[i].wbin))
		}
	}
	t.c.Outcome(t.name, ai, bi, string(order))
}
