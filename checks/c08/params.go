package main

// Catalogue rows for parameter sets, literals and other JSON-encoded objects.

import (
	"math"
	"math/big"

	"github.com/tuneinsight/lattigo/v6/circuits/ckks/bootstrapping"
	"github.com/tuneinsight/lattigo/v6/circuits/ckks/dft"
	"github.com/tuneinsight/lattigo/v6/circuits/ckks/mod1"
	"github.com/tuneinsight/lattigo/v6/core/rlwe"
	"github.com/tuneinsight/lattigo/v6/ring"
	"github.com/tuneinsight/lattigo/v6/schemes/bgv"
	"github.com/tuneinsight/lattigo/v6/schemes/ckks"

	"verif/uni"
)

func paramEntries() []*entry {
	V := func(label string, mk func(w *world, g *gen) any) value { return value{label, mk} }
	qa := func() []uint64 { return uni.Primes(4, 30, 5) }
	return []*entry{
		{name: "rlwe.Parameters", zero: Z[rlwe.Parameters](), heavy: true, vals: []value{
			V("A", func(w *world, g *gen) any { p := w.pA; return &p }),
			V("C-noP", func(w *world, g *gen) any { p := w.pC; return &p }),
			V("B-N32", func(w *world, g *gen) any { p := w.pB; return &p }),
			V("custom-dist-CI-scale", func(w *world, g *gen) any {
				q := uni.Primes(5, 40, 3) // = 1 mod 4N for N=16 too
				p := uni.RLWE(rlwe.ParametersLiteral{LogN: 4, Q: q[:2], P: q[2:], Xs: ring.Ternary{H: 4}, Xe: ring.DiscreteGaussian{Sigma: 2.5, Bound: 15},
					RingType: ring.ConjugateInvariant, DefaultScale: rlwe.NewScaleModT(7, 97), NTTFlag: false})
				return &p
			}),
			V("full-mantissa-default-scale", func(w *world, g *gen) any {
				p := uni.RLWE(rlwe.ParametersLiteral{LogN: 4, Q: qa()[:2], P: qa()[3:4], DefaultScale: fullScale(0), NTTFlag: true,
					Xs: ring.Ternary{P: 1.0 / 3}, Xe: ring.DiscreteGaussian{Sigma: 3.2, Bound: 19.2}})
				return &p
			}),
			// values DERIVED from other parameter sets without going through the constructor or a decoder
			V("derived:standard-of-CI", func(w *world, g *gen) any {
				p := must(ciRLWE().StandardParameters())
				return &p
			}),
			V("derived:GetRLWEParameters-of-bgv", func(w *world, g *gen) any { p := *w.getBgvA().GetRLWEParameters(); return &p }),
			V("derived:embedded-in-ckks-standard-of-CI", func(w *world, g *gen) any {
				p := must(ciCKKS().StandardParameters()).Parameters
				return &p
			}),
		}},
		{name: "rlwe.ParametersLiteral", zero: Z[rlwe.ParametersLiteral](), heavy: true, vals: []value{
			V("primes", func(w *world, g *gen) any {
				return &rlwe.ParametersLiteral{LogN: 4, Q: qa()[:3], P: qa()[3:], NTTFlag: true}
			}),
			V("logs+everything", func(w *world, g *gen) any {
				return &rlwe.ParametersLiteral{LogN: 4, LogQ: []int{30, 31}, LogP: []int{32}, Xs: ring.Ternary{P: 0.5}, Xe: ring.DiscreteGaussian{Sigma: 2.5, Bound: 15},
					RingType: ring.ConjugateInvariant, DefaultScale: rlwe.NewScale(1 << 20)}
			}),
			V("logNthRoot", func(w *world, g *gen) any {
				return &rlwe.ParametersLiteral{LogN: 4, LogNthRoot: 7, LogQ: []int{30}, NTTFlag: true}
			}),
			// numbers with no short binary or decimal form: 128-bit scale, float64 parameters that are not decimal fractions
			V("full-mantissa-scale+irrational-dist", func(w *world, g *gen) any {
				return &rlwe.ParametersLiteral{LogN: 4, Q: qa()[:2], P: qa()[3:4], DefaultScale: fullScale(1),
					Xs: ring.Ternary{P: 1.0 / 3}, Xe: ring.DiscreteGaussian{Sigma: math.Pi, Bound: 6 * math.Pi}}
			}),
			V("scale-2^127+1+tiny-and-huge-dist", func(w *world, g *gen) any {
				return &rlwe.ParametersLiteral{LogN: 4, LogQ: []int{30}, DefaultScale: fullScale(3),
					Xs: ring.Ternary{P: math.Nextafter(0.5, 1)}, Xe: ring.DiscreteGaussian{Sigma: math.Nextafter(3.2, 4), Bound: 1e21 / 3}}
			}),
			V("minimal", func(w *world, g *gen) any { return &rlwe.ParametersLiteral{LogN: 5, Q: uni.Primes(5, 45, 1)} }),
		}},
		{name: "bgv.Parameters", zero: Z[bgv.Parameters](), heavy: true, vals: []value{
			V("A-t97", func(w *world, g *gen) any { p := w.getBgvA(); return &p }),
			V("noP-t193-custom-dist", func(w *world, g *gen) any {
				p := must(bgv.NewParametersFromLiteral(bgv.ParametersLiteral{LogN: 4, Q: uni.Primes(4, 55, 2), PlaintextModulus: 193, Xs: ring.Ternary{H: 4}}))
				return &p
			}),
			V("t17-logNthRoot", func(w *world, g *gen) any {
				p := must(bgv.NewParametersFromLiteral(bgv.ParametersLiteral{LogN: 5, Q: uni.Primes(5, 45, 2), P: uni.PrimesSkip(5, 45, 1, 2), PlaintextModulus: 17}))
				return &p
			}),
		}},
		{name: "bgv.ParametersLiteral", zero: Z[bgv.ParametersLiteral](), heavy: true, vals: []value{
			V("primes", func(w *world, g *gen) any {
				return &bgv.ParametersLiteral{LogN: 4, Q: qa()[:3], P: qa()[3:], PlaintextModulus: 97}
			}),
			V("logs+dist", func(w *world, g *gen) any {
				return &bgv.ParametersLiteral{LogN: 4, LogNthRoot: 6, LogQ: []int{30, 31}, LogP: []int{32}, Xs: ring.Ternary{H: 4}, Xe: ring.DiscreteGaussian{Sigma: 2.5, Bound: 15}, PlaintextModulus: 65537}
			}),
			V("minimal", func(w *world, g *gen) any {
				return &bgv.ParametersLiteral{LogN: 5, Q: uni.Primes(5, 45, 1), PlaintextModulus: 193}
			}),
		}},
		{name: "ckks.Parameters", zero: Z[ckks.Parameters](), heavy: true, vals: []value{
			V("A-scale20", func(w *world, g *gen) any { p := w.getCkksA(); return &p }),
			V("CI-noP", func(w *world, g *gen) any {
				p := must(ckks.NewParametersFromLiteral(ckks.ParametersLiteral{LogN: 4, Q: uni.Primes(5, 40, 2), RingType: ring.ConjugateInvariant, LogDefaultScale: 30, Xs: ring.Ternary{H: 4}}))
				return &p
			}),
			V("N32", func(w *world, g *gen) any {
				p := must(ckks.NewParametersFromLiteral(ckks.ParametersLiteral{LogN: 5, Q: uni.Primes(5, 45, 2), P: uni.PrimesSkip(5, 45, 1, 2), LogDefaultScale: 45}))
				return &p
			}),
			V("derived:standard-of-CI", func(w *world, g *gen) any { p := must(ciCKKS().StandardParameters()); return &p }),
		}},
		{name: "ckks.ParametersLiteral", zero: Z[ckks.ParametersLiteral](), heavy: true, vals: []value{
			V("primes", func(w *world, g *gen) any {
				return &ckks.ParametersLiteral{LogN: 4, Q: qa()[:3], P: qa()[3:], LogDefaultScale: 20}
			}),
			V("logs+dist+CI", func(w *world, g *gen) any {
				return &ckks.ParametersLiteral{LogN: 4, LogNthRoot: 7, LogQ: []int{30, 31}, LogP: []int{32}, Xs: ring.Ternary{P: 0.5}, Xe: ring.DiscreteGaussian{Sigma: 2.5, Bound: 15},
					RingType: ring.ConjugateInvariant, LogDefaultScale: 25}
			}),
			V("minimal", func(w *world, g *gen) any {
				return &ckks.ParametersLiteral{LogN: 5, Q: uni.Primes(5, 45, 1), LogDefaultScale: 30}
			}),
		}},
		{name: "ring.Ring", zero: Z[ring.Ring](), heavy: true, vals: []value{
			V("N16-3primes", func(w *world, g *gen) any { return must(ring.NewRing(16, qa()[:3])) }),
			V("N8-1prime", func(w *world, g *gen) any { return must(ring.NewRing(8, uni.Primes(3, 20, 1))) }),
			V("N16-CI-2primes", func(w *world, g *gen) any { return must(ring.NewRingConjugateInvariant(16, uni.Primes(5, 40, 2))) }),
		}},
		{name: "ring.Type", zero: Z[ring.Type](), vals: []value{
			V("standard", func(w *world, g *gen) any { t := ring.Standard; return &t }),
			V("conjugate-invariant", func(w *world, g *gen) any { t := ring.ConjugateInvariant; return &t }),
		}},
		{name: "dft.MatrixLiteral", zero: Z[dft.MatrixLiteral](), vals: []value{
			V("encode", func(w *world, g *gen) any {
				return &dft.MatrixLiteral{Type: dft.HomomorphicEncode, LogSlots: 3, LevelQ: 2, LevelP: 1, Levels: []int{1, 1}, Format: dft.RepackImagAsReal,
					Scaling: new(big.Float).SetPrec(128).SetFloat64(0.125), BitReversed: true, LogBSGSRatio: 1}
			}),
			V("decode-nil-scaling", func(w *world, g *gen) any {
				return &dft.MatrixLiteral{Type: dft.HomomorphicDecode, LogSlots: 2, LevelQ: 1, LevelP: 0, Levels: []int{2}}
			}),
			V("zero-value", func(w *world, g *gen) any { return &dft.MatrixLiteral{} }),
			// scaling constants that are not dyadic: every bit of the mantissa is significant, at the precisions a caller
			// obtains from SetFloat64 (53), from the zero value (64) and from the 128/256 bits the circuits work with
			V("encode-scaling-one-third-prec128", func(w *world, g *gen) any {
				return &dft.MatrixLiteral{Type: dft.HomomorphicEncode, LogSlots: 3, LevelQ: 2, LevelP: 1, Levels: []int{1, 1},
					Scaling: new(big.Float).SetPrec(128).Quo(big.NewFloat(1), big.NewFloat(3))}
			}),
			V("decode-scaling-0.1-prec53", func(w *world, g *gen) any {
				return &dft.MatrixLiteral{Type: dft.HomomorphicDecode, LogSlots: 2, LevelQ: 1, Levels: []int{2}, Scaling: new(big.Float).SetFloat64(0.1)}
			}),
			V("decode-scaling-one-seventh-prec64", func(w *world, g *gen) any {
				return &dft.MatrixLiteral{Type: dft.HomomorphicDecode, LogSlots: 2, LevelQ: 1, Levels: []int{1, 1}, Scaling: new(big.Float).SetPrec(64).Quo(big.NewFloat(1), big.NewFloat(7))}
			}),
			V("encode-scaling-2^255+1-prec256", func(w *world, g *gen) any {
				v := new(big.Int).Add(new(big.Int).Lsh(big.NewInt(1), 255), big.NewInt(1))
				return &dft.MatrixLiteral{Type: dft.HomomorphicEncode, LogSlots: 1, LevelQ: 1, Levels: []int{1}, Scaling: new(big.Float).SetPrec(256).SetInt(v)}
			}),
		}},
		{name: "mod1.ParametersLiteral", zero: Z[mod1.ParametersLiteral](), vals: []value{
			V("cos", func(w *world, g *gen) any {
				return &mod1.ParametersLiteral{LevelQ: 5, LogScale: 40, Mod1Type: mod1.CosDiscrete, Scaling: 0.25, LogMessageRatio: 8, K: 12, Mod1Degree: 30, DoubleAngle: 3, Mod1InvDegree: 7}
			}),
			V("sin", func(w *world, g *gen) any {
				return &mod1.ParametersLiteral{LevelQ: 2, LogScale: 30, Mod1Type: mod1.SinContinuous, LogMessageRatio: 4, K: 3, Mod1Degree: 15}
			}),
			V("zero-value", func(w *world, g *gen) any { return &mod1.ParametersLiteral{} }),
			V("cos-scaling-one-third", func(w *world, g *gen) any {
				return &mod1.ParametersLiteral{LevelQ: 3, LogScale: 45, Mod1Type: mod1.CosContinuous, Scaling: 1.0 / 3, LogMessageRatio: 6, K: 16, Mod1Degree: 20, DoubleAngle: 1}
			}),
			V("sin-scaling-next-after-1", func(w *world, g *gen) any {
				return &mod1.ParametersLiteral{LevelQ: 1, LogScale: 20, Mod1Type: mod1.SinContinuous, Scaling: math.Nextafter(1, 2), K: 1, Mod1Degree: 3}
			}),
		}},
		{name: "bootstrapping.ParametersLiteral", zero: Z[bootstrapping.ParametersLiteral](), vals: []value{
			V("zero-value", func(w *world, g *gen) any { return &bootstrapping.ParametersLiteral{} }),
			V("all-but-dist", func(w *world, g *gen) any {
				return &bootstrapping.ParametersLiteral{LogN: ip(8), LogP: []int{61, 61}, LogSlots: ip(6),
					CoeffsToSlotsFactorizationDepthAndLogScales: [][]int{{56}, {56, 56}}, SlotsToCoeffsFactorizationDepthAndLogScales: [][]int{{39}},
					EvalModLogScale: ip(55), EphemeralSecretWeight: ip(16), IterationsParameters: &bootstrapping.IterationsParameters{BootstrappingPrecision: []float64{25.5}, ReservedPrimeBitSize: 28},
					Mod1Type: mod1.SinContinuous, LogMessageRatio: ip(10), K: ip(12), Mod1Degree: ip(31), DoubleAngle: ip(2), Mod1InvDegree: ip(7)}
			}),
			V("with-Xs-Xe", func(w *world, g *gen) any {
				return &bootstrapping.ParametersLiteral{LogN: ip(8), Xs: ring.Ternary{H: 32}, Xe: ring.DiscreteGaussian{Sigma: 3.2, Bound: 19}}
			}),
			V("few", func(w *world, g *gen) any { return &bootstrapping.ParametersLiteral{LogSlots: ip(3), K: ip(4)} }),
			V("non-decimal-floats", func(w *world, g *gen) any {
				return &bootstrapping.ParametersLiteral{LogN: ip(8), Xs: ring.Ternary{P: 1.0 / 3}, Xe: ring.DiscreteGaussian{Sigma: math.Pi, Bound: 6 * math.Pi},
					IterationsParameters: &bootstrapping.IterationsParameters{BootstrappingPrecision: []float64{25.3, 100.0 / 3, math.Nextafter(16, 17)}, ReservedPrimeBitSize: 20}}
			}),
		}},
		{name: "bootstrapping.Parameters", zero: Z[bootstrapping.Parameters](), heavy: true, vals: []value{
			V("LogN8-default", func(w *world, g *gen) any { p := btpParams(8, bootstrapping.ParametersLiteral{}); return &p }),
			V("LogN8-iterations-sparse", func(w *world, g *gen) any {
				p := btpParams(8, bootstrapping.ParametersLiteral{LogSlots: ip(5), EphemeralSecretWeight: ip(0),
					IterationsParameters: &bootstrapping.IterationsParameters{BootstrappingPrecision: []float64{20}, ReservedPrimeBitSize: 20}})
				return &p
			}),
			V("LogN8-caller-set-scalings", func(w *world, g *gen) any { // documented: a non-nil Scaling of either matrix is multiplied into the circuit's own constant
				p := btpParams(8, bootstrapping.ParametersLiteral{LogSlots: ip(4),
					IterationsParameters: &bootstrapping.IterationsParameters{BootstrappingPrecision: []float64{100.0 / 3}, ReservedPrimeBitSize: 20}})
				p.CoeffsToSlotsParameters.Scaling = new(big.Float).SetPrec(128).Quo(big.NewFloat(1), big.NewFloat(3))
				p.SlotsToCoeffsParameters.Scaling = new(big.Float).SetFloat64(0.1)
				return &p
			}),
		}},
	}
}

// conjugate-invariant sets from which standard ones are derived (StandardParameters copies the struct and changes
// ring degree and type)
func ciRLWE() rlwe.Parameters {
	q := uni.Primes(5, 40, 3) // = 1 mod 4N for N=16, = 1 mod 2N' for the derived N'=32
	return uni.RLWE(rlwe.ParametersLiteral{LogN: 4, Q: q[:2], P: q[2:], RingType: ring.ConjugateInvariant, DefaultScale: rlwe.NewScale(1 << 20), NTTFlag: true})
}

func ciCKKS() ckks.Parameters {
	return must(ckks.NewParametersFromLiteral(ckks.ParametersLiteral{LogN: 4, Q: uni.Primes(5, 40, 2), RingType: ring.ConjugateInvariant, LogDefaultScale: 30}))
}

// btpParams follows the recipe of the repository's bootstrapping tests on a small ring.
func btpParams(logN int, lit bootstrapping.ParametersLiteral) bootstrapping.Parameters {
	res := must(ckks.NewParametersFromLiteral(ckks.ParametersLiteral{LogN: logN, LogQ: []int{60, 40}, LogP: []int{61}, LogDefaultScale: 40}))
	lit.LogN = ip(logN)
	return must(bootstrapping.NewParametersFromLiteral(res, lit))
}
