package main

// Object catalogue (DESIGN §6 C08): one table row per serializable type, 2-6 values each. A value is a
// constructor returning a pointer to a freshly built object; it is a deterministic function of
// (VERIF_SEED, type name, label) so that any process (worker, replay) builds the identical object.

import (
	"fmt"
	"math/big"
	"reflect"
	"sync"

	"github.com/tuneinsight/lattigo/v6/circuits/ckks/bootstrapping"
	"github.com/tuneinsight/lattigo/v6/circuits/common/polynomial"
	"github.com/tuneinsight/lattigo/v6/core/rgsw"
	"github.com/tuneinsight/lattigo/v6/core/rlwe"
	"github.com/tuneinsight/lattigo/v6/multiparty"
	"github.com/tuneinsight/lattigo/v6/ring"
	"github.com/tuneinsight/lattigo/v6/ring/ringqp"
	"github.com/tuneinsight/lattigo/v6/schemes/bgv"
	"github.com/tuneinsight/lattigo/v6/schemes/ckks"
	"github.com/tuneinsight/lattigo/v6/utils/bignum"
	"github.com/tuneinsight/lattigo/v6/utils/sampling"
	"github.com/tuneinsight/lattigo/v6/utils/structs"

	"verif/engine"
	"verif/uni"
)

type value struct {
	label string
	mk    func(w *world, g *gen) any
}

// Z returns the zero-value factory of T (what a caller allocates before ReadFrom / UnmarshalBinary).
func Z[T any]() func() any { return func() any { return new(T) } }

type entry struct {
	name string // as it appears in signatures; checked against the reflected type name at start-up
	zero func() any
	vals []value
	// eq overrides the generic equality (only for types whose unexported state cannot be compared structurally)
	eq func(a, b any) bool
	// heavy: decoding costs milliseconds (parameter sets): fewer fault points in the quick tier
	heavy bool
	// refill: the constructor runs the real key generator (which sets seeds, Galois elements, shapes); the
	// coefficient words are then replaced by gen.fill's (see there for why)
	refill bool
}

// world: parameter sets and secret keys shared by all constructors (read-only after construction).
type world struct {
	pA, pB, pC        rlwe.Parameters // A: N=16, 3Q+2P (30 bit); B: N=32, 2Q+1P (45 bit); C: N=16, 2Q, no P (55 bit)
	pD                rlwe.Parameters // D: N=1024, 2Q+1P (50 bit): one row of coefficients (8 KiB) exceeds a default bufio buffer
	skA, skA2         *rlwe.SecretKey
	skB, skC          *rlwe.SecretKey
	bgvOnce, ckksOnce sync.Once
	bgvA              bgv.Parameters // built on first use (10 ms each; a restarted helper rarely needs them)
	ckksA             ckks.Parameters
}

func (w *world) getBgvA() bgv.Parameters {
	w.bgvOnce.Do(func() {
		qa := uni.Primes(4, 30, 5)
		w.bgvA = must(bgv.NewParametersFromLiteral(bgv.ParametersLiteral{LogN: 4, Q: qa[:3], P: qa[3:], PlaintextModulus: 97}))
	})
	return w.bgvA
}

func (w *world) getCkksA() ckks.Parameters {
	w.ckksOnce.Do(func() {
		qa := uni.Primes(4, 30, 5)
		w.ckksA = must(ckks.NewParametersFromLiteral(ckks.ParametersLiteral{LogN: 4, Q: qa[:3], P: qa[3:], LogDefaultScale: 20}))
	})
	return w.ckksA
}

// gen is the per-value deterministic randomness.
type gen struct {
	prng *sampling.KeyedPRNG
}

func (g *gen) u64() uint64 {
	var b [8]byte
	if _, err := g.prng.Read(b[:]); err != nil {
		panic(err)
	}
	var x uint64
	for i := 0; i < 8; i++ {
		x |= uint64(b[i]) << (8 * i)
	}
	return x
}

// fill overwrites every []uint64 reachable from ptr with pseudo-random words in [2^59, 2^60). What is
// serialized does not have to be a meaningful cryptographic object, it has to have the shape of one and
// distinct words everywhere so that a misplaced or dropped word is visible. The magnitude is deliberate: when
// a damaged header shifts the framing by whole words, a coefficient read as a length is >= 2^59 and make()
// refuses it with a recoverable panic instead of attempting a multi-GiB allocation.
func (g *gen) fill(ptr any) {
	var walk func(v reflect.Value)
	walk = func(v reflect.Value) {
		v = rw(v)
		switch v.Kind() {
		case reflect.Ptr, reflect.Interface:
			if !v.IsNil() {
				walk(v.Elem())
			}
		case reflect.Struct:
			for i := 0; i < v.NumField(); i++ {
				walk(v.Field(i))
			}
		case reflect.Slice, reflect.Array:
			if v.Type().Elem().Kind() == reflect.Uint64 {
				for i := 0; i < v.Len(); i++ {
					v.Index(i).SetUint(g.u64()>>5 | 1<<59)
				}
				return
			}
			for i := 0; i < v.Len(); i++ {
				walk(v.Index(i))
			}
		case reflect.Map:
			it := v.MapRange()
			for it.Next() {
				walk(it.Value())
			}
		}
	}
	walk(reflect.ValueOf(ptr))
}

var (
	worldOnce sync.Once
	theWorld  *world
)

func getWorld(seed uint64) *world {
	worldOnce.Do(func() {
		sampling.VerifSeed(engine.Hash(seed, "c08/world"))
		w := &world{}
		qa := uni.Primes(4, 30, 5)
		w.pA = uni.RLWE(rlwe.ParametersLiteral{LogN: 4, Q: qa[:3], P: qa[3:], NTTFlag: true})
		qb := uni.Primes(5, 45, 3)
		w.pB = uni.RLWE(rlwe.ParametersLiteral{LogN: 5, Q: qb[:2], P: qb[2:], NTTFlag: true})
		qc := uni.Primes(4, 55, 2)
		w.pC = uni.RLWE(rlwe.ParametersLiteral{LogN: 4, Q: qc, NTTFlag: true})
		qd := uni.Primes(10, 50, 3)
		w.pD = uni.RLWE(rlwe.ParametersLiteral{LogN: 10, Q: qd[:2], P: qd[2:], NTTFlag: true})
		w.skA = rlwe.NewKeyGenerator(w.pA).GenSecretKeyNew()
		w.skA2 = rlwe.NewKeyGenerator(w.pA).GenSecretKeyNew()
		w.skB = rlwe.NewKeyGenerator(w.pB).GenSecretKeyNew()
		w.skC = rlwe.NewKeyGenerator(w.pC).GenSecretKeyNew()
		theWorld = w
	})
	return theWorld
}

// build constructs value vi of entry e (never cached objects are handed out twice: every call builds anew,
// so a caller may use the result as a receiver and overwrite it).
func build(seed uint64, e *entry, vi int) any { return buildValue(seed, e, e.values(seed)[vi]) }

func buildValue(seed uint64, e *entry, v value) any {
	w := getWorld(seed)
	sampling.VerifSeed(engine.Hash(seed, "c08/value", e.name, v.label))
	g := &gen{prng: uni.KeyedPRNG(seed, "c08/gen", e.name, v.label)}
	obj := v.mk(w, g)
	if e.refill {
		g.fill(obj)
	}
	return obj
}

// ---------------------------------------------------------------------------------------------
// small constructors

func ip(i int) *int { return &i }

func rndPoly(g *gen, p rlwe.Parameters, level int) ring.Poly {
	pol := p.RingQ().AtLevel(level).NewPoly()
	g.fill(&pol)
	return pol
}

func rndPolyQP(g *gen, p rlwe.Parameters, levelQ, levelP int) ringqp.Poly {
	pol := p.RingQP().AtLevel(levelQ, levelP).NewPoly()
	g.fill(&pol)
	return pol
}

// fullScale returns scales whose 128-bit mantissa is fully used (none of them is representable with 64 bits, so
// a codec that goes through a float64, a default-precision big.Float or a shortened decimal text loses them),
// with two-digit decimal exponents. They are what CKKS produces in ordinary use: after a multiplication and a
// rescaling the scale of a ciphertext is S*S'/q for a prime q.
var fullScaleLabels = []string{"2^90-over-q", "2^45-squared-over-q-by-Mul-Div", "one-third", "2^127+1", "1+2^-127", "2^128-1", "2^-200-times-(2^128-3)"}

func fullScale(k int) rlwe.Scale {
	one := func(sh uint) *big.Int { return new(big.Int).Lsh(big.NewInt(1), sh) }
	switch k {
	case 0: // 2^90 / q for a real 30-bit NTT prime
		return rlwe.NewScale(one(90)).Div(rlwe.NewScale(uni.Primes(4, 30, 5)[1]))
	case 1: // (2^45)^2 / q for a real 45-bit NTT prime, by the library's own arithmetic
		s := rlwe.NewScale(one(45))
		return s.Mul(s).Div(rlwe.NewScale(uni.Primes(5, 45, 1)[0]))
	case 2:
		return rlwe.NewScale(1).Div(rlwe.NewScale(3))
	case 3: // highest and lowest mantissa bit only, an integer
		return rlwe.NewScale(new(big.Int).Add(one(127), big.NewInt(1)))
	case 4: // the same mantissa below the binary point
		return rlwe.NewScale(new(big.Float).SetPrec(128).SetMantExp(new(big.Float).SetPrec(128).SetInt(new(big.Int).Add(one(127), big.NewInt(1))), -127))
	case 5: // all mantissa bits set
		return rlwe.NewScale(new(big.Int).Sub(one(128), big.NewInt(1)))
	default: // small magnitude (negative two-digit decimal exponent), low bits 01
		return rlwe.NewScale(new(big.Float).SetPrec(128).SetMantExp(new(big.Float).SetPrec(128).SetInt(new(big.Int).Sub(one(128), big.NewInt(3))), -328))
	}
}

func metaData(k int) rlwe.MetaData {
	switch k {
	case 5: // scale of a CKKS ciphertext after multiplication and rescaling: 128 significant bits
		return rlwe.MetaData{
			PlaintextMetaData:  rlwe.PlaintextMetaData{Scale: fullScale(0), LogDimensions: ring.Dimensions{Rows: 0, Cols: 3}, IsBatched: true},
			CiphertextMetaData: rlwe.CiphertextMetaData{IsNTT: true}}
	case 6:
		return rlwe.MetaData{
			PlaintextMetaData:  rlwe.PlaintextMetaData{Scale: fullScale(3), LogDimensions: ring.Dimensions{Rows: 1, Cols: 2}, IsBitReversed: true},
			CiphertextMetaData: rlwe.CiphertextMetaData{IsNTT: true, IsMontgomery: true}}
	case 7:
		return rlwe.MetaData{
			PlaintextMetaData:  rlwe.PlaintextMetaData{Scale: fullScale(2), LogDimensions: ring.Dimensions{Rows: 0, Cols: 2}, IsBatched: true, IsBitReversed: true},
			CiphertextMetaData: rlwe.CiphertextMetaData{IsMontgomery: true}}
	case 0:
		return rlwe.MetaData{}
	case 1:
		return rlwe.MetaData{
			PlaintextMetaData:  rlwe.PlaintextMetaData{Scale: rlwe.NewScale(new(big.Int).Lsh(big.NewInt(1), 40)), LogDimensions: ring.Dimensions{Rows: 0, Cols: 3}, IsBatched: true, IsBitReversed: true},
			CiphertextMetaData: rlwe.CiphertextMetaData{IsNTT: true, IsMontgomery: true}}
	case 2:
		return rlwe.MetaData{
			PlaintextMetaData:  rlwe.PlaintextMetaData{Scale: rlwe.NewScaleModT(5, 97), LogDimensions: ring.Dimensions{Rows: 1, Cols: 2}, IsBatched: true},
			CiphertextMetaData: rlwe.CiphertextMetaData{IsNTT: true}}
	case 3:
		return rlwe.MetaData{
			PlaintextMetaData:  rlwe.PlaintextMetaData{Scale: rlwe.NewScale(1572864.75), LogDimensions: ring.Dimensions{Rows: 2, Cols: 1}, IsBitReversed: true},
			CiphertextMetaData: rlwe.CiphertextMetaData{IsMontgomery: true}}
	default: // scale whose decimal exponent has three digits (2^400 ~ 2.6e120); reachable e.g. as a product of unrescaled CKKS scales
		return rlwe.MetaData{
			PlaintextMetaData:  rlwe.PlaintextMetaData{Scale: rlwe.NewScale(new(big.Int).Lsh(big.NewInt(1), 400)), LogDimensions: ring.Dimensions{Rows: 0, Cols: 3}, IsBatched: true},
			CiphertextMetaData: rlwe.CiphertextMetaData{IsNTT: true}}
	}
}

func rndCt(g *gen, p rlwe.Parameters, degree, level, md int) *rlwe.Ciphertext {
	ct := rlwe.NewCiphertext(p, degree, level)
	g.fill(ct)
	if md < 0 {
		ct.MetaData = nil
	} else {
		m := metaData(md)
		ct.MetaData = &m
	}
	return ct
}

const dflt = -2 // "use the default level"

func evkParams(levelQ, levelP, base2 int, compressed bool) rlwe.EvaluationKeyParameters {
	e := rlwe.EvaluationKeyParameters{Compressed: compressed}
	if levelQ != dflt {
		e.LevelQ = ip(levelQ)
	}
	if levelP != dflt {
		e.LevelP = ip(levelP)
	}
	if base2 > 0 {
		e.BaseTwoDecomposition = ip(base2)
	}
	return e
}

func must[T any](v T, err error) T {
	if err != nil {
		panic(fmt.Sprintf("c08 catalogue: %v", err))
	}
	return v
}

// ---------------------------------------------------------------------------------------------
// the table

func catalogue() []*entry {
	V := func(label string, mk func(w *world, g *gen) any) value { return value{label, mk} }
	es := []*entry{
		// ---- utils/structs on primitive words (reaches every buffer.Read/Write*Slice width)
		{name: "structs.Vector[uint64]", zero: Z[structs.Vector[uint64]](), vals: []value{
			V("empty", func(w *world, g *gen) any { v := structs.Vector[uint64]{}; return &v }),
			V("len1", func(w *world, g *gen) any { v := structs.Vector[uint64]{1<<63 + 5}; return &v }),
			V("len16", func(w *world, g *gen) any { v := make(structs.Vector[uint64], 16); g.fill(&v); return &v }),
			V("len37", func(w *world, g *gen) any { v := make(structs.Vector[uint64], 37); g.fill(&v); return &v }),
		}},
		{name: "structs.Vector[uint32]", zero: Z[structs.Vector[uint32]](), vals: []value{
			V("empty", func(w *world, g *gen) any { v := structs.Vector[uint32]{}; return &v }),
			V("len3", func(w *world, g *gen) any { v := structs.Vector[uint32]{1, 0xfffffffe, 7}; return &v }),
			V("len41", func(w *world, g *gen) any {
				v := make(structs.Vector[uint32], 41)
				for i := range v {
					v[i] = uint32(g.u64())
				}
				return &v
			}),
		}},
		{name: "structs.Vector[uint16]", zero: Z[structs.Vector[uint16]](), vals: []value{
			V("len1", func(w *world, g *gen) any { v := structs.Vector[uint16]{0xfffe}; return &v }),
			V("len43", func(w *world, g *gen) any {
				v := make(structs.Vector[uint16], 43)
				for i := range v {
					v[i] = uint16(g.u64())
				}
				return &v
			}),
		}},
		{name: "structs.Vector[uint8]", zero: Z[structs.Vector[uint8]](), vals: []value{
			V("empty", func(w *world, g *gen) any { v := structs.Vector[uint8]{}; return &v }),
			V("len5", func(w *world, g *gen) any { v := structs.Vector[uint8]{1, 2, 3, 0xff, 0}; return &v }),
			V("len47", func(w *world, g *gen) any {
				v := make(structs.Vector[uint8], 47)
				for i := range v {
					v[i] = uint8(g.u64())
				}
				return &v
			}),
		}},
		{name: "structs.Vector[float64]", zero: Z[structs.Vector[float64]](), vals: []value{
			V("len2", func(w *world, g *gen) any { v := structs.Vector[float64]{-0.5, 3e300}; return &v }),
			V("len19", func(w *world, g *gen) any {
				v := make(structs.Vector[float64], 19)
				for i := range v {
					v[i] = float64(int64(g.u64()>>20)) / 1024
				}
				return &v
			}),
		}},
		{name: "structs.Vector[int]", zero: Z[structs.Vector[int]](), vals: []value{
			V("len3", func(w *world, g *gen) any { v := structs.Vector[int]{-1, 0, 1 << 40}; return &v }),
			V("len18", func(w *world, g *gen) any {
				v := make(structs.Vector[int], 18)
				for i := range v {
					v[i] = int(g.u64())
				}
				return &v
			}),
		}},
		{name: "structs.Matrix[uint64]", zero: Z[structs.Matrix[uint64]](), vals: []value{
			V("empty", func(w *world, g *gen) any { v := structs.Matrix[uint64]{}; return &v }),
			V("3x16", func(w *world, g *gen) any {
				v := structs.Matrix[uint64]{make([]uint64, 16), make([]uint64, 16), make([]uint64, 16)}
				g.fill(&v)
				return &v
			}),
			V("ragged", func(w *world, g *gen) any {
				v := structs.Matrix[uint64]{make([]uint64, 5), {}, make([]uint64, 33)}
				g.fill(&v)
				return &v
			}),
			V("1x1", func(w *world, g *gen) any { v := structs.Matrix[uint64]{{42}}; return &v }),
		}},
		// ---- polynomials
		{name: "ring.Poly", zero: Z[ring.Poly](), vals: []value{
			V("A-level2", func(w *world, g *gen) any { p := rndPoly(g, w.pA, 2); return &p }),
			V("A-level0", func(w *world, g *gen) any { p := rndPoly(g, w.pA, 0); return &p }),
			V("B-level1-N32", func(w *world, g *gen) any { p := rndPoly(g, w.pB, 1); return &p }),
			V("zero-value", func(w *world, g *gen) any { return &ring.Poly{} }),
			V("D-level1-N1024", func(w *world, g *gen) any { p := rndPoly(g, w.pD, 1); return &p }),
		}},
		{name: "ringqp.Poly", zero: Z[ringqp.Poly](), vals: []value{
			V("A-2-1", func(w *world, g *gen) any { p := rndPolyQP(g, w.pA, 2, 1); return &p }),
			V("A-0-0", func(w *world, g *gen) any { p := rndPolyQP(g, w.pA, 0, 0); return &p }),
			V("C-noP", func(w *world, g *gen) any { p := rndPolyQP(g, w.pC, 1, -1); return &p }),
			V("B-1-0-N32", func(w *world, g *gen) any { p := rndPolyQP(g, w.pB, 1, 0); return &p }),
			V("D-0-0-N1024", func(w *world, g *gen) any { p := rndPolyQP(g, w.pD, 0, 0); return &p }),
		}},
		{name: "structs.Vector[ring.Poly]", zero: Z[structs.Vector[ring.Poly]](), vals: []value{
			V("empty", func(w *world, g *gen) any { v := structs.Vector[ring.Poly]{}; return &v }),
			V("3polys", func(w *world, g *gen) any {
				v := structs.Vector[ring.Poly]{rndPoly(g, w.pA, 2), rndPoly(g, w.pA, 2), rndPoly(g, w.pA, 2)}
				return &v
			}),
			V("1poly-level0", func(w *world, g *gen) any { v := structs.Vector[ring.Poly]{rndPoly(g, w.pA, 0)}; return &v }),
		}},
		{name: "structs.Vector[ringqp.Poly]", zero: Z[structs.Vector[ringqp.Poly]](), vals: []value{
			V("empty", func(w *world, g *gen) any { v := structs.Vector[ringqp.Poly]{}; return &v }),
			V("2polys", func(w *world, g *gen) any {
				v := structs.Vector[ringqp.Poly]{rndPolyQP(g, w.pA, 2, 1), rndPolyQP(g, w.pA, 2, 1)}
				return &v
			}),
			V("3polys-noP", func(w *world, g *gen) any {
				v := structs.Vector[ringqp.Poly]{rndPolyQP(g, w.pC, 1, -1), rndPolyQP(g, w.pC, 1, -1), rndPolyQP(g, w.pC, 1, -1)}
				return &v
			}),
		}},
		{name: "structs.Matrix[ringqp.Poly]", zero: Z[structs.Matrix[ringqp.Poly]](), vals: []value{ // value type of the multiparty CRPs
			V("empty", func(w *world, g *gen) any { v := structs.Matrix[ringqp.Poly]{}; return &v }),
			V("2x1", func(w *world, g *gen) any {
				v := structs.Matrix[ringqp.Poly]{{rndPolyQP(g, w.pA, 2, 1)}, {rndPolyQP(g, w.pA, 2, 1)}}
				return &v
			}),
			V("ragged", func(w *world, g *gen) any {
				v := structs.Matrix[ringqp.Poly]{{rndPolyQP(g, w.pA, 0, 0), rndPolyQP(g, w.pA, 0, 0)}, {}, {rndPolyQP(g, w.pA, 0, 0)}}
				return &v
			}),
		}},
		// ---- metadata and scale
		{name: "rlwe.Scale", zero: Z[rlwe.Scale](), vals: []value{
			V("zero-value", func(w *world, g *gen) any { return &rlwe.Scale{} }),
			V("2^40", func(w *world, g *gen) any { s := rlwe.NewScale(new(big.Int).Lsh(big.NewInt(1), 40)); return &s }),
			V("3-mod-65537", func(w *world, g *gen) any { s := rlwe.NewScaleModT(3, 65537); return &s }),
			V("1.2345e-5", func(w *world, g *gen) any { s := rlwe.NewScale(1.2345e-5); return &s }),
			V("2^400", func(w *world, g *gen) any { s := rlwe.NewScale(new(big.Int).Lsh(big.NewInt(1), 400)); return &s }),
			// full 128-bit mantissas
			V("full:"+fullScaleLabels[0], func(w *world, g *gen) any { s := fullScale(0); return &s }),
			V("full:"+fullScaleLabels[1], func(w *world, g *gen) any { s := fullScale(1); return &s }),
			V("full:"+fullScaleLabels[2], func(w *world, g *gen) any { s := fullScale(2); return &s }),
			V("full:"+fullScaleLabels[3], func(w *world, g *gen) any { s := fullScale(3); return &s }),
			V("full:"+fullScaleLabels[4], func(w *world, g *gen) any { s := fullScale(4); return &s }),
			V("full:"+fullScaleLabels[5], func(w *world, g *gen) any { s := fullScale(5); return &s }),
			V("full:"+fullScaleLabels[6], func(w *world, g *gen) any { s := fullScale(6); return &s }),
		}},
		{name: "rlwe.CiphertextMetaData", zero: Z[rlwe.CiphertextMetaData](), vals: []value{
			V("FF", func(w *world, g *gen) any { return &rlwe.CiphertextMetaData{} }),
			V("TF", func(w *world, g *gen) any { return &rlwe.CiphertextMetaData{IsNTT: true} }),
			V("FT", func(w *world, g *gen) any { return &rlwe.CiphertextMetaData{IsMontgomery: true} }),
			V("TT", func(w *world, g *gen) any { return &rlwe.CiphertextMetaData{IsNTT: true, IsMontgomery: true} }),
		}},
		{name: "rlwe.PlaintextMetaData", zero: Z[rlwe.PlaintextMetaData](), vals: []value{
			V("md0", func(w *world, g *gen) any { m := metaData(0).PlaintextMetaData; return &m }),
			V("md1", func(w *world, g *gen) any { m := metaData(1).PlaintextMetaData; return &m }),
			V("md2-modT", func(w *world, g *gen) any { m := metaData(2).PlaintextMetaData; return &m }),
			V("md3", func(w *world, g *gen) any { m := metaData(3).PlaintextMetaData; return &m }),
			V("md4-scale-2^400", func(w *world, g *gen) any { m := metaData(4).PlaintextMetaData; return &m }),
			V("md5-scale-2^90-over-q", func(w *world, g *gen) any { m := metaData(5).PlaintextMetaData; return &m }),
			V("md6-scale-2^127+1", func(w *world, g *gen) any { m := metaData(6).PlaintextMetaData; return &m }),
			V("md7-scale-one-third", func(w *world, g *gen) any { m := metaData(7).PlaintextMetaData; return &m }),
		}},
		{name: "rlwe.MetaData", zero: Z[rlwe.MetaData](), vals: []value{
			V("md0", func(w *world, g *gen) any { m := metaData(0); return &m }),
			V("md1", func(w *world, g *gen) any { m := metaData(1); return &m }),
			V("md2-modT", func(w *world, g *gen) any { m := metaData(2); return &m }),
			V("md3", func(w *world, g *gen) any { m := metaData(3); return &m }),
			V("md4-scale-2^400", func(w *world, g *gen) any { m := metaData(4); return &m }),
			V("md5-scale-2^90-over-q", func(w *world, g *gen) any { m := metaData(5); return &m }),
			V("md6-scale-2^127+1", func(w *world, g *gen) any { m := metaData(6); return &m }),
			V("md7-scale-one-third", func(w *world, g *gen) any { m := metaData(7); return &m }),
		}},
		// ---- plaintexts / ciphertexts
		{name: "rlwe.Plaintext", zero: Z[rlwe.Plaintext](), vals: []value{
			V("A-level2-md1", func(w *world, g *gen) any {
				pt := rlwe.NewPlaintext(w.pA, 2)
				g.fill(pt)
				*pt.MetaData = metaData(1)
				return pt
			}),
			V("A-level0-md3", func(w *world, g *gen) any {
				pt := rlwe.NewPlaintext(w.pA, 0)
				g.fill(pt)
				*pt.MetaData = metaData(3)
				return pt
			}),
			V("A-level1-nil-metadata", func(w *world, g *gen) any {
				pt := rlwe.NewPlaintext(w.pA, 1)
				g.fill(pt)
				pt.MetaData = nil
				return pt
			}),
			V("B-level1-md2-N32", func(w *world, g *gen) any {
				pt := rlwe.NewPlaintext(w.pB, 1)
				g.fill(pt)
				*pt.MetaData = metaData(2)
				return pt
			}),
			V("A-level1-md5-full-scale", func(w *world, g *gen) any {
				pt := rlwe.NewPlaintext(w.pA, 1)
				g.fill(pt)
				*pt.MetaData = metaData(5)
				return pt
			}),
			V("derived:Plaintext-of-ciphertext", func(w *world, g *gen) any { return rndCt(g, w.pA, 0, 1, 1).Plaintext() }),
			V("derived:CopyNew", func(w *world, g *gen) any {
				pt := rlwe.NewPlaintext(w.pA, 2)
				g.fill(pt)
				*pt.MetaData = metaData(3)
				return pt.CopyNew()
			}),
			V("derived:resized-down", func(w *world, g *gen) any {
				pt := rlwe.NewPlaintext(w.pA, 2)
				g.fill(pt)
				*pt.MetaData = metaData(1)
				pt.Resize(0, 0)
				pt.Value = pt.Element.Value[0]
				return pt
			}),
		}},
		{name: "rlwe.Ciphertext", zero: Z[rlwe.Ciphertext](), vals: []value{
			V("A-deg1-level2-md1", func(w *world, g *gen) any { return rndCt(g, w.pA, 1, 2, 1) }),
			V("A-deg2-level1-md2", func(w *world, g *gen) any { return rndCt(g, w.pA, 2, 1, 2) }),
			V("A-deg0-level0-md0", func(w *world, g *gen) any { return rndCt(g, w.pA, 0, 0, 0) }),
			V("A-deg1-level0-nil-metadata", func(w *world, g *gen) any { return rndCt(g, w.pA, 1, 0, -1) }),
			V("B-deg1-level1-md3-N32", func(w *world, g *gen) any { return rndCt(g, w.pB, 1, 1, 3) }),
			V("D-deg1-level0-md1-N1024", func(w *world, g *gen) any { return rndCt(g, w.pD, 1, 0, 1) }),
			V("A-deg1-level1-md5-full-scale", func(w *world, g *gen) any { return rndCt(g, w.pA, 1, 1, 5) }),
			// derived from other ciphertexts by the library's own operations
			V("derived:ckks-mul-rescale", func(w *world, g *gen) any {
				p := w.getCkksA()
				ct := ckks.NewCiphertext(p, 1, 2)
				g.fill(ct)
				eval := ckks.NewEvaluator(p, nil)
				sq := must(eval.MulNew(ct, ct)) // degree 2, scale 2^40
				if err := eval.Rescale(sq, sq); err != nil {
					panic(err)
				} // scale 2^40/q2: 128 significant bits
				return sq
			}),
			V("derived:resized-down", func(w *world, g *gen) any { ct := rndCt(g, w.pA, 2, 2, 1); ct.Resize(1, 1); return ct }),
			V("derived:resized-up", func(w *world, g *gen) any { ct := rndCt(g, w.pA, 0, 0, 2); ct.Resize(2, 2); return ct }),
			V("derived:CopyNew", func(w *world, g *gen) any { return rndCt(g, w.pA, 1, 1, 3).CopyNew() }),
			V("derived:El-of-plaintext", func(w *world, g *gen) any {
				pt := rlwe.NewPlaintext(w.pA, 1)
				g.fill(pt)
				*pt.MetaData = metaData(2)
				return &rlwe.Ciphertext{Element: *pt.El()}
			}),
		}},
		{name: "rlwe.Element[ringqp.Poly]", zero: Z[rlwe.Element[ringqp.Poly]](), vals: []value{
			V("A-deg1-2-1", func(w *world, g *gen) any {
				e := rlwe.NewElementExtended(w.pA, 1, 2, 1)
				g.fill(e)
				*e.MetaData = metaData(1)
				return e
			}),
			V("A-deg1-1-0-md7-full-scale", func(w *world, g *gen) any {
				e := rlwe.NewElementExtended(w.pA, 1, 1, 0)
				g.fill(e)
				*e.MetaData = metaData(7)
				return e
			}),
			V("A-deg0-0-0-nil-metadata", func(w *world, g *gen) any {
				e := rlwe.NewElementExtended(w.pA, 0, 0, 0)
				g.fill(e)
				e.MetaData = nil
				return e
			}),
		}},
		// ---- keys
		{name: "rlwe.SecretKey", zero: Z[rlwe.SecretKey](), refill: true, vals: []value{
			V("A", func(w *world, g *gen) any { return rlwe.NewKeyGenerator(w.pA).GenSecretKeyNew() }),
			V("C-noP", func(w *world, g *gen) any { return rlwe.NewKeyGenerator(w.pC).GenSecretKeyNew() }),
			V("B-N32", func(w *world, g *gen) any { return rlwe.NewKeyGenerator(w.pB).GenSecretKeyNew() }),
		}},
		{name: "rlwe.PublicKey", zero: Z[rlwe.PublicKey](), refill: true, vals: []value{
			V("A", func(w *world, g *gen) any { return rlwe.NewKeyGenerator(w.pA).GenPublicKeyNew(w.skA) }),
			V("C-noP", func(w *world, g *gen) any { return rlwe.NewKeyGenerator(w.pC).GenPublicKeyNew(w.skC) }),
			V("B-N32", func(w *world, g *gen) any { return rlwe.NewKeyGenerator(w.pB).GenPublicKeyNew(w.skB) }),
		}},
		{name: "rlwe.VectorQP", zero: Z[rlwe.VectorQP](), vals: []value{
			V("empty", func(w *world, g *gen) any { v := rlwe.VectorQP{}; return &v }),
			V("size1", func(w *world, g *gen) any { v := rlwe.NewVectorQP(w.pA, 1, 2, 1); g.fill(&v); return &v }),
			V("size3-level0", func(w *world, g *gen) any { v := rlwe.NewVectorQP(w.pA, 3, 0, 0); g.fill(&v); return &v }),
		}},
		{name: "rlwe.GadgetCiphertext", zero: Z[rlwe.GadgetCiphertext](), vals: []value{
			V("A-deg1", func(w *world, g *gen) any { c := rlwe.NewGadgetCiphertext(w.pA, 1, 2, 1, 0); g.fill(c); return c }),
			V("A-deg0-level1-0", func(w *world, g *gen) any { c := rlwe.NewGadgetCiphertext(w.pA, 0, 1, 0, 0); g.fill(c); return c }),
			V("A-deg1-base2^10", func(w *world, g *gen) any { c := rlwe.NewGadgetCiphertext(w.pA, 1, 1, 0, 10); g.fill(c); return c }),
			V("C-noP", func(w *world, g *gen) any { c := rlwe.NewGadgetCiphertext(w.pC, 1, 1, -1, 0); g.fill(c); return c }),
		}},
		{name: "rlwe.EvaluationKey", zero: Z[rlwe.EvaluationKey](), refill: true, vals: []value{
			V("A", func(w *world, g *gen) any { return rlwe.NewKeyGenerator(w.pA).GenEvaluationKeyNew(w.skA, w.skA2) }),
			V("A-compressed", func(w *world, g *gen) any {
				return rlwe.NewKeyGenerator(w.pA).GenEvaluationKeyNew(w.skA, w.skA2, evkParams(dflt, dflt, 0, true))
			}),
			V("A-level1-0", func(w *world, g *gen) any {
				return rlwe.NewKeyGenerator(w.pA).GenEvaluationKeyNew(w.skA, w.skA2, evkParams(1, 0, 0, false))
			}),
			V("A-compressed-then-expanded", func(w *world, g *gen) any {
				k := rlwe.NewKeyGenerator(w.pA).GenEvaluationKeyNew(w.skA, w.skA2, evkParams(dflt, dflt, 0, true))
				if err := k.Expand(w.pA, nil); err != nil {
					panic(err)
				}
				return k
			}),
			V("C-noP-base2^20", func(w *world, g *gen) any {
				return rlwe.NewKeyGenerator(w.pC).GenEvaluationKeyNew(w.skC, w.skC, evkParams(dflt, dflt, 20, false))
			}),
		}},
		{name: "rlwe.RelinearizationKey", zero: Z[rlwe.RelinearizationKey](), refill: true, vals: []value{
			V("A", func(w *world, g *gen) any { return rlwe.NewKeyGenerator(w.pA).GenRelinearizationKeyNew(w.skA) }),
			V("A-compressed", func(w *world, g *gen) any {
				return rlwe.NewKeyGenerator(w.pA).GenRelinearizationKeyNew(w.skA, evkParams(dflt, dflt, 0, true))
			}),
			V("A-level0-0", func(w *world, g *gen) any {
				return rlwe.NewKeyGenerator(w.pA).GenRelinearizationKeyNew(w.skA, evkParams(0, 0, 0, false))
			}),
			V("derived:compressed-then-expanded", func(w *world, g *gen) any {
				k := rlwe.NewKeyGenerator(w.pA).GenRelinearizationKeyNew(w.skA, evkParams(1, 0, 0, true))
				if err := k.Expand(w.pA, nil); err != nil {
					panic(err)
				}
				return k
			}),
		}},
		{name: "rlwe.GaloisKey", zero: Z[rlwe.GaloisKey](), refill: true, vals: []value{
			V("A-gal5", func(w *world, g *gen) any { return rlwe.NewKeyGenerator(w.pA).GenGaloisKeyNew(5, w.skA) }),
			V("A-conjugate", func(w *world, g *gen) any {
				return rlwe.NewKeyGenerator(w.pA).GenGaloisKeyNew(w.pA.GaloisElementOrderTwoOrthogonalSubgroup(), w.skA)
			}),
			V("A-gal25-compressed", func(w *world, g *gen) any {
				return rlwe.NewKeyGenerator(w.pA).GenGaloisKeyNew(25, w.skA, evkParams(dflt, dflt, 0, true))
			}),
			V("A-gal5-level1-0", func(w *world, g *gen) any {
				return rlwe.NewKeyGenerator(w.pA).GenGaloisKeyNew(5, w.skA, evkParams(1, 0, 0, false))
			}),
			V("derived:compressed-then-expanded", func(w *world, g *gen) any {
				k := rlwe.NewKeyGenerator(w.pA).GenGaloisKeyNew(5, w.skA, evkParams(1, 0, 0, true))
				if err := k.Expand(w.pA, nil); err != nil {
					panic(err)
				}
				return k
			}),
		}},
		{name: "structs.Map[uint64,rlwe.GaloisKey]", zero: Z[structs.Map[uint64, rlwe.GaloisKey]](), refill: true, vals: []value{
			V("empty", func(w *world, g *gen) any { m := structs.Map[uint64, rlwe.GaloisKey]{}; return &m }),
			V("gal5+gal25", func(w *world, g *gen) any {
				kg := rlwe.NewKeyGenerator(w.pA)
				m := structs.Map[uint64, rlwe.GaloisKey]{5: kg.GenGaloisKeyNew(5, w.skA, evkParams(0, 0, 0, false)), 25: kg.GenGaloisKeyNew(25, w.skA, evkParams(0, 0, 0, false))}
				return &m
			}),
			V("gal3", func(w *world, g *gen) any {
				kg := rlwe.NewKeyGenerator(w.pA)
				m := structs.Map[uint64, rlwe.GaloisKey]{3: kg.GenGaloisKeyNew(3, w.skA, evkParams(0, 0, 0, false))}
				return &m
			}),
		}},
		{name: "rlwe.MemEvaluationKeySet", zero: Z[rlwe.MemEvaluationKeySet](), refill: true, vals: []value{
			V("zero-value", func(w *world, g *gen) any { return &rlwe.MemEvaluationKeySet{} }),
			V("rlk+gal5+gal25", func(w *world, g *gen) any {
				kg := rlwe.NewKeyGenerator(w.pA)
				e := evkParams(1, 0, 0, false)
				return rlwe.NewMemEvaluationKeySet(kg.GenRelinearizationKeyNew(w.skA, e), kg.GenGaloisKeyNew(5, w.skA, e), kg.GenGaloisKeyNew(25, w.skA, e))
			}),
			V("no-rlk+gal3", func(w *world, g *gen) any {
				kg := rlwe.NewKeyGenerator(w.pA)
				return rlwe.NewMemEvaluationKeySet(nil, kg.GenGaloisKeyNew(3, w.skA, evkParams(0, 0, 0, false)))
			}),
			V("rlk-only-empty-map", func(w *world, g *gen) any {
				kg := rlwe.NewKeyGenerator(w.pA)
				return rlwe.NewMemEvaluationKeySet(kg.GenRelinearizationKeyNew(w.skA, evkParams(0, 0, 0, false)))
			}),
			V("compressed-rlk+gal5", func(w *world, g *gen) any {
				kg := rlwe.NewKeyGenerator(w.pA)
				e := evkParams(1, 0, 0, true)
				return rlwe.NewMemEvaluationKeySet(kg.GenRelinearizationKeyNew(w.skA, e), kg.GenGaloisKeyNew(5, w.skA, e))
			}),
		}},
		{name: "rgsw.Ciphertext", zero: Z[rgsw.Ciphertext](), vals: []value{
			V("A-1-0", func(w *world, g *gen) any { c := rgsw.NewCiphertext(w.pA, 1, 0, 0); g.fill(c); return c }),
			V("A-2-1-base2^12", func(w *world, g *gen) any { c := rgsw.NewCiphertext(w.pA, 2, 1, 12); g.fill(c); return c }),
			V("C-noP", func(w *world, g *gen) any { c := rgsw.NewCiphertext(w.pC, 1, -1, 0); g.fill(c); return c }),
		}},
		// ---- circuits
		{name: "structs.Map[int,rlwe.Ciphertext]", zero: Z[structs.Map[int, rlwe.Ciphertext]](), vals: []value{
			V("empty", func(w *world, g *gen) any { m := structs.Map[int, rlwe.Ciphertext]{}; return &m }),
			V("1,2,4", func(w *world, g *gen) any {
				m := structs.Map[int, rlwe.Ciphertext]{1: rndCt(g, w.pA, 1, 2, 1), 2: rndCt(g, w.pA, 1, 1, 1), 4: rndCt(g, w.pA, 1, 0, 1)}
				return &m
			}),
			V("7", func(w *world, g *gen) any {
				m := structs.Map[int, rlwe.Ciphertext]{7: rndCt(g, w.pA, 1, 0, 2)}
				return &m
			}),
			V("3,5-full-scales", func(w *world, g *gen) any {
				m := structs.Map[int, rlwe.Ciphertext]{3: rndCt(g, w.pA, 1, 0, 5), 5: rndCt(g, w.pA, 0, 1, 7)}
				return &m
			}),
		}},
		{name: "polynomial.PowerBasis", zero: Z[polynomial.PowerBasis](), vals: []value{
			V("chebyshev-1", func(w *world, g *gen) any {
				p := polynomial.NewPowerBasis(rndCt(g, w.pA, 1, 2, 1), bignum.Chebyshev)
				return &p
			}),
			V("monomial-1,2,4", func(w *world, g *gen) any {
				p := polynomial.NewPowerBasis(rndCt(g, w.pA, 1, 2, 1), bignum.Monomial)
				p.Value[2] = rndCt(g, w.pA, 1, 1, 1)
				p.Value[4] = rndCt(g, w.pA, 1, 0, 1)
				return &p
			}),
			V("chebyshev-1,2-full-scales", func(w *world, g *gen) any { // what a polynomial evaluation leaves behind: x, then x^2 rescaled
				p := polynomial.NewPowerBasis(rndCt(g, w.pA, 1, 1, 1), bignum.Chebyshev)
				p.Value[2] = rndCt(g, w.pA, 1, 0, 5)
				return &p
			}),
			V("monomial-3", func(w *world, g *gen) any {
				p := polynomial.PowerBasis{Basis: bignum.Monomial, Value: map[int]*rlwe.Ciphertext{3: rndCt(g, w.pA, 1, 0, 2)}}
				return &p
			}),
			V("zero-value", func(w *world, g *gen) any { return &polynomial.PowerBasis{} }),
		}},
		{name: "bootstrapping.EvaluationKeys", zero: Z[bootstrapping.EvaluationKeys](), refill: true, vals: []value{
			V("zero-value", func(w *world, g *gen) any { return &bootstrapping.EvaluationKeys{} }),
			V("all-set", func(w *world, g *gen) any {
				kg := rlwe.NewKeyGenerator(w.pA)
				e := evkParams(0, 0, 0, false)
				k := func() *rlwe.EvaluationKey { return kg.GenEvaluationKeyNew(w.skA, w.skA2, e) }
				return &bootstrapping.EvaluationKeys{EvkN1ToN2: k(), EvkN2ToN1: k(), EvkRealToCmplx: k(), EvkCmplxToReal: k(), EvkDenseToSparse: k(), EvkSparseToDense: k(),
					MemEvaluationKeySet: rlwe.NewMemEvaluationKeySet(kg.GenRelinearizationKeyNew(w.skA, e), kg.GenGaloisKeyNew(5, w.skA, e))}
			}),
			V("dense-sparse+keyset", func(w *world, g *gen) any {
				kg := rlwe.NewKeyGenerator(w.pA)
				e := evkParams(0, 0, 0, false)
				return &bootstrapping.EvaluationKeys{EvkDenseToSparse: kg.GenEvaluationKeyNew(w.skA, w.skA2, e), EvkSparseToDense: kg.GenEvaluationKeyNew(w.skA2, w.skA, e),
					MemEvaluationKeySet: rlwe.NewMemEvaluationKeySet(nil, kg.GenGaloisKeyNew(3, w.skA, e))}
			}),
			V("ring-switch-only", func(w *world, g *gen) any {
				kg := rlwe.NewKeyGenerator(w.pA)
				e := evkParams(1, 0, 0, false)
				return &bootstrapping.EvaluationKeys{EvkN1ToN2: kg.GenEvaluationKeyNew(w.skA, w.skA2, e), EvkN2ToN1: kg.GenEvaluationKeyNew(w.skA2, w.skA, e)}
			}),
			// same-typed fields pairwise different in content AND shape, so that a decoder that puts a key into the
			// wrong field cannot go unnoticed
			V("all-set-different-shapes", func(w *world, g *gen) any {
				kg := rlwe.NewKeyGenerator(w.pA)
				k := func(lq, lp, b2 int) *rlwe.EvaluationKey {
					return kg.GenEvaluationKeyNew(w.skA, w.skA2, evkParams(lq, lp, b2, false))
				}
				return &bootstrapping.EvaluationKeys{EvkN1ToN2: k(0, 0, 0), EvkN2ToN1: k(1, 0, 0), EvkRealToCmplx: k(0, 0, 20), EvkCmplxToReal: k(1, 1, 0),
					EvkDenseToSparse: k(1, 0, 20), EvkSparseToDense: k(2, 0, 0)}
			}),
			V("only-EvkN1ToN2", func(w *world, g *gen) any {
				return &bootstrapping.EvaluationKeys{EvkN1ToN2: rlwe.NewKeyGenerator(w.pA).GenEvaluationKeyNew(w.skA, w.skA2, evkParams(0, 0, 0, false))}
			}),
			V("only-EvkN2ToN1", func(w *world, g *gen) any {
				return &bootstrapping.EvaluationKeys{EvkN2ToN1: rlwe.NewKeyGenerator(w.pA).GenEvaluationKeyNew(w.skA, w.skA2, evkParams(0, 0, 0, false))}
			}),
			V("only-EvkRealToCmplx", func(w *world, g *gen) any {
				return &bootstrapping.EvaluationKeys{EvkRealToCmplx: rlwe.NewKeyGenerator(w.pA).GenEvaluationKeyNew(w.skA, w.skA2, evkParams(0, 0, 0, false))}
			}),
			V("only-EvkCmplxToReal", func(w *world, g *gen) any {
				return &bootstrapping.EvaluationKeys{EvkCmplxToReal: rlwe.NewKeyGenerator(w.pA).GenEvaluationKeyNew(w.skA, w.skA2, evkParams(0, 0, 0, false))}
			}),
			V("only-EvkDenseToSparse", func(w *world, g *gen) any {
				return &bootstrapping.EvaluationKeys{EvkDenseToSparse: rlwe.NewKeyGenerator(w.pA).GenEvaluationKeyNew(w.skA, w.skA2, evkParams(0, 0, 0, false))}
			}),
			V("only-EvkSparseToDense", func(w *world, g *gen) any {
				return &bootstrapping.EvaluationKeys{EvkSparseToDense: rlwe.NewKeyGenerator(w.pA).GenEvaluationKeyNew(w.skA, w.skA2, evkParams(0, 0, 0, false))}
			}),
		}},
		// ---- multiparty shares
		{name: "multiparty.PublicKeyGenShare", zero: Z[multiparty.PublicKeyGenShare](), vals: []value{
			V("A", func(w *world, g *gen) any {
				s := multiparty.NewPublicKeyGenProtocol(w.pA).AllocateShare()
				g.fill(&s)
				return &s
			}),
			V("C-noP", func(w *world, g *gen) any {
				s := multiparty.NewPublicKeyGenProtocol(w.pC).AllocateShare()
				g.fill(&s)
				return &s
			}),
			V("derived:aggregated", func(w *world, g *gen) any {
				p := multiparty.NewPublicKeyGenProtocol(w.pA)
				a, b, out := p.AllocateShare(), p.AllocateShare(), p.AllocateShare()
				g.fill(&a)
				g.fill(&b)
				p.AggregateShares(a, b, &out)
				return &out
			}),
		}},
		{name: "multiparty.RelinearizationKeyGenShare", zero: Z[multiparty.RelinearizationKeyGenShare](), vals: []value{
			V("A", func(w *world, g *gen) any {
				_, s, _ := multiparty.NewRelinearizationKeyGenProtocol(w.pA).AllocateShare()
				g.fill(&s)
				return &s
			}),
			V("A-level1-0-base2^10", func(w *world, g *gen) any {
				_, _, s := multiparty.NewRelinearizationKeyGenProtocol(w.pA).AllocateShare(evkParams(1, 0, 10, false))
				g.fill(&s)
				return &s
			}),
			V("derived:aggregated", func(w *world, g *gen) any {
				p := multiparty.NewRelinearizationKeyGenProtocol(w.pA)
				_, a, _ := p.AllocateShare(evkParams(1, 0, 0, false)) // three round-one shares
				_, b, _ := p.AllocateShare(evkParams(1, 0, 0, false))
				_, out, _ := p.AllocateShare(evkParams(1, 0, 0, false))
				g.fill(&a)
				g.fill(&b)
				p.AggregateShares(a, b, &out)
				return &out
			}),
		}},
		{name: "multiparty.EvaluationKeyGenShare", zero: Z[multiparty.EvaluationKeyGenShare](), vals: []value{
			V("A", func(w *world, g *gen) any {
				s := multiparty.NewEvaluationKeyGenProtocol(w.pA).AllocateShare()
				g.fill(&s)
				return &s
			}),
			V("A-level0-0", func(w *world, g *gen) any {
				s := multiparty.NewEvaluationKeyGenProtocol(w.pA).AllocateShare(evkParams(0, 0, 0, false))
				g.fill(&s)
				return &s
			}),
			V("derived:aggregated", func(w *world, g *gen) any {
				p := multiparty.NewEvaluationKeyGenProtocol(w.pA)
				e := evkParams(1, 0, 0, false)
				a, b, out := p.AllocateShare(e), p.AllocateShare(e), p.AllocateShare(e)
				g.fill(&a)
				g.fill(&b)
				if err := p.AggregateShares(a, b, &out); err != nil {
					panic(err)
				}
				return &out
			}),
		}},
		{name: "multiparty.GaloisKeyGenShare", zero: Z[multiparty.GaloisKeyGenShare](), vals: []value{
			V("A-gal5", func(w *world, g *gen) any {
				s := multiparty.NewGaloisKeyGenProtocol(w.pA).AllocateShare()
				g.fill(&s)
				s.GaloisElement = 5
				return &s
			}),
			V("A-gal25-level0-0", func(w *world, g *gen) any {
				s := multiparty.NewGaloisKeyGenProtocol(w.pA).AllocateShare(evkParams(0, 0, 0, false))
				g.fill(&s)
				s.GaloisElement = 25
				return &s
			}),
			V("derived:aggregated", func(w *world, g *gen) any {
				p := multiparty.NewGaloisKeyGenProtocol(w.pA)
				e := evkParams(1, 0, 0, false)
				a, b, out := p.AllocateShare(e), p.AllocateShare(e), p.AllocateShare(e)
				g.fill(&a)
				g.fill(&b)
				a.GaloisElement, b.GaloisElement = 5, 5
				if err := p.AggregateShares(a, b, &out); err != nil {
					panic(err)
				}
				return &out
			}),
		}},
		{name: "multiparty.KeySwitchShare", zero: Z[multiparty.KeySwitchShare](), vals: []value{
			V("A-level2", func(w *world, g *gen) any {
				s := must(multiparty.NewKeySwitchProtocol(w.pA, ring.DiscreteGaussian{Sigma: 3.2, Bound: 19})).AllocateShare(2)
				g.fill(&s)
				return &s
			}),
			V("A-level0", func(w *world, g *gen) any {
				s := must(multiparty.NewKeySwitchProtocol(w.pA, ring.DiscreteGaussian{Sigma: 3.2, Bound: 19})).AllocateShare(0)
				g.fill(&s)
				return &s
			}),
			V("derived:aggregated", func(w *world, g *gen) any {
				p := must(multiparty.NewKeySwitchProtocol(w.pA, ring.DiscreteGaussian{Sigma: 3.2, Bound: 19}))
				a, b, out := p.AllocateShare(1), p.AllocateShare(1), p.AllocateShare(1)
				g.fill(&a)
				g.fill(&b)
				if err := p.AggregateShares(a, b, &out); err != nil {
					panic(err)
				}
				return &out
			}),
		}},
		{name: "multiparty.PublicKeySwitchShare", zero: Z[multiparty.PublicKeySwitchShare](), vals: []value{
			V("A-level2", func(w *world, g *gen) any {
				s := must(multiparty.NewPublicKeySwitchProtocol(w.pA, ring.DiscreteGaussian{Sigma: 3.2, Bound: 19})).AllocateShare(2)
				g.fill(&s)
				return &s
			}),
			V("A-level0", func(w *world, g *gen) any {
				s := must(multiparty.NewPublicKeySwitchProtocol(w.pA, ring.DiscreteGaussian{Sigma: 3.2, Bound: 19})).AllocateShare(0)
				g.fill(&s)
				return &s
			}),
			V("derived:aggregated", func(w *world, g *gen) any {
				p := must(multiparty.NewPublicKeySwitchProtocol(w.pA, ring.DiscreteGaussian{Sigma: 3.2, Bound: 19}))
				a, b, out := p.AllocateShare(1), p.AllocateShare(1), p.AllocateShare(1)
				g.fill(&a)
				g.fill(&b)
				if err := p.AggregateShares(a, b, &out); err != nil {
					panic(err)
				}
				return &out
			}),
		}},
		{name: "multiparty.RefreshShare", zero: Z[multiparty.RefreshShare](), vals: []value{
			V("A-2-2-md1", func(w *world, g *gen) any {
				ks := must(multiparty.NewKeySwitchProtocol(w.pA, ring.DiscreteGaussian{Sigma: 3.2, Bound: 19}))
				s := multiparty.RefreshShare{EncToShareShare: ks.AllocateShare(2), ShareToEncShare: ks.AllocateShare(2)}
				g.fill(&s)
				s.MetaData = metaData(1)
				return &s
			}),
			V("A-0-2-md2", func(w *world, g *gen) any {
				ks := must(multiparty.NewKeySwitchProtocol(w.pA, ring.DiscreteGaussian{Sigma: 3.2, Bound: 19}))
				s := multiparty.RefreshShare{EncToShareShare: ks.AllocateShare(0), ShareToEncShare: ks.AllocateShare(2)}
				g.fill(&s)
				s.MetaData = metaData(2)
				return &s
			}),
			V("A-1-1-md5-full-scale", func(w *world, g *gen) any {
				ks := must(multiparty.NewKeySwitchProtocol(w.pA, ring.DiscreteGaussian{Sigma: 3.2, Bound: 19}))
				s := multiparty.RefreshShare{EncToShareShare: ks.AllocateShare(1), ShareToEncShare: ks.AllocateShare(1)}
				g.fill(&s)
				s.MetaData = metaData(5)
				return &s
			}),
			V("A-1-0-md0", func(w *world, g *gen) any {
				ks := must(multiparty.NewKeySwitchProtocol(w.pA, ring.DiscreteGaussian{Sigma: 3.2, Bound: 19}))
				s := multiparty.RefreshShare{EncToShareShare: ks.AllocateShare(1), ShareToEncShare: ks.AllocateShare(0)}
				g.fill(&s)
				s.MetaData = metaData(0)
				return &s
			}),
		}},
		{name: "multiparty.ShamirSecretShare", zero: Z[multiparty.ShamirSecretShare](), vals: []value{
			V("A", func(w *world, g *gen) any {
				s := multiparty.NewThresholdizer(w.pA).AllocateThresholdSecretShare()
				g.fill(&s)
				return &s
			}),
			V("C-noP", func(w *world, g *gen) any {
				s := multiparty.NewThresholdizer(w.pC).AllocateThresholdSecretShare()
				g.fill(&s)
				return &s
			}),
			V("derived:aggregated", func(w *world, g *gen) any {
				p := multiparty.NewThresholdizer(w.pA)
				a, b, out := p.AllocateThresholdSecretShare(), p.AllocateThresholdSecretShare(), p.AllocateThresholdSecretShare()
				g.fill(&a)
				g.fill(&b)
				if err := p.AggregateShares(a, b, &out); err != nil {
					panic(err)
				}
				return &out
			}),
		}},
	}
	es = append(es, paramEntries()...)
	return es
}
