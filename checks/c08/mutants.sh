#!/bin/sh
# usage: checks/c08/mutants.sh <baseline-run-output> mutants/C08-x.json...
# Applies each mutant to a scratch copy of the repository, runs C08 quick against it and prints the signatures
# that are NOT in the baseline run (the unchanged tree has genuine findings of its own, so "exit 1" alone would
# not show that the mutant was seen).
base=$1; shift
scratch=/tmp/repo-c08
rm -rf $scratch; rsync -a --exclude .git /repo/ $scratch/
grep -o 'sig=[^ ,]*' "$base" | sort -u > /tmp/c08-base-sigs.txt
for m in "$@"; do
  id=$(basename "$m" .json)
  rsync -a --exclude .git /repo/ $scratch/
  python3 - "$m" $scratch <<'PY' || { echo "$id: PATCH-FAILED"; continue; }
import json,sys,os
m=json.load(open(sys.argv[1])); d=sys.argv[2]
for e in m["edits"]:
    p=os.path.join(d,e["file"]); s=open(p).read()
    assert s.count(e["old"])>=1, "pattern not found in "+e["file"]
    open(p,"w").write(s.replace(e["old"],e["new"],1))
PY
  (cd $scratch && GOFLAGS=-mod=mod GOPROXY=off GOSUMDB=off GOTOOLCHAIN=local go build ./... ) || { echo "$id: DOES-NOT-COMPILE"; continue; }
  (cd /verif && VERIF_REPO=$scratch ./run C08 quick > /tmp/c08-mut-$id.out 2>&1); rc=$?
  new=$(grep -o 'sig=[^ ,]*' /tmp/c08-mut-$id.out | sort -u | comm -13 /tmp/c08-base-sigs.txt - | tr '\n' ' ')
  if [ -n "$new" ]; then echo "$id: DETECTED (exit $rc) new: $new"; else echo "$id: MISSED (exit $rc)"; fi
  if [ -n "$TESTS" ]; then
    pk=$(python3 -c "import json,sys,os; print(' '.join(sorted({'./'+os.path.dirname(e['file'])+'/...' for e in json.load(open(sys.argv[1]))['edits']})))" "$m")
    (cd $scratch && GOFLAGS=-mod=mod GOPROXY=off GOSUMDB=off GOTOOLCHAIN=local go test -count=1 -vet=off $pk >/tmp/c08-mut-$id.tests 2>&1) && echo "   repository tests $pk: pass" || echo "   repository tests $pk: FAIL"
  fi
done
rm -rf $scratch /verif/bin/c08.[0-9]* /verif/.work/go.*.mod /verif/.work/go.*.sum
