package main

// Method-set discovery and the generic notions of "call without dying" and "equal".

import (
	"encoding"
	"encoding/json"
	"fmt"
	"io"
	"math/big"
	"reflect"
	"runtime"
	"runtime/metrics"
	"sort"
	"strconv"
	"strings"
	"unsafe"
)

// api is the serialization surface of one object (always held by pointer, so value- and
// pointer-receiver methods are both in the method set). Absent methods are nil.
type api struct {
	ptr   any
	sizer interface{ BinarySize() int }
	wt    io.WriterTo
	rf    io.ReaderFrom
	bm    encoding.BinaryMarshaler
	bu    encoding.BinaryUnmarshaler
	jm    json.Marshaler
	ju    json.Unmarshaler
}

func apiOf(ptr any) api {
	a := api{ptr: ptr}
	a.sizer, _ = ptr.(interface{ BinarySize() int })
	a.wt, _ = ptr.(io.WriterTo)
	a.rf, _ = ptr.(io.ReaderFrom)
	a.bm, _ = ptr.(encoding.BinaryMarshaler)
	a.bu, _ = ptr.(encoding.BinaryUnmarshaler)
	a.jm, _ = ptr.(json.Marshaler)
	a.ju, _ = ptr.(json.Unmarshaler)
	return a
}

// freshLike returns a pointer to a new zero value of the type ptr points to.
func freshLike(ptr any) any { return reflect.New(reflect.TypeOf(ptr).Elem()).Interface() }

// ---------------------------------------------------------------------------------------------
// guarded calls

// result of one guarded call into the library
type outcome struct {
	err      error
	panicked any    // recovered value, nil if none
	site     string // innermost lattigo (else innermost non-runtime) frame of the panic, normalised
	alloc    uint64 // bytes allocated during the call (heap, cumulative counter delta)
}

var allocSample = []metrics.Sample{{Name: "/gc/heap/allocs:bytes"}}

func heapAllocs() uint64 {
	metrics.Read(allocSample)
	return allocSample[0].Value.Uint64()
}

// guard runs f, converting a panic into data and measuring the bytes it allocated.
func guard(f func() error) (o outcome) {
	a0 := heapAllocs()
	defer func() {
		if r := recover(); r != nil {
			o.panicked = r
			o.site = panicSite()
		}
		o.alloc = heapAllocs() - a0
	}()
	o.err = f()
	return
}

func (o outcome) panicMsg() string { return fmt.Sprintf("%v", o.panicked) }

// isAllocPanic: the runtime refused an absurd allocation request (recoverable form of "unbounded allocation").
func (o outcome) isAllocPanic() bool {
	if o.panicked == nil {
		return false
	}
	s := o.panicMsg()
	return strings.Contains(s, "makeslice") || strings.Contains(s, "out of memory") || strings.Contains(s, "makemap") ||
		strings.Contains(s, "len out of range") || strings.Contains(s, "cap out of range")
}

// panicSite: innermost frame inside the library under test (falls back to innermost non-runtime frame),
// e.g. "structs.Vector.ReadFrom". Generic instantiation brackets and pointer-receiver decoration are
// removed so that the name is stable.
func panicSite() string {
	pcs := make([]uintptr, 96)
	n := runtime.Callers(3, pcs)
	frames := runtime.CallersFrames(pcs[:n])
	first := ""
	for {
		f, more := frames.Next()
		fn := f.Function
		if fn != "" && !strings.HasPrefix(fn, "runtime.") && !strings.HasPrefix(fn, "reflect.") {
			if first == "" {
				first = fn
			}
			if strings.Contains(fn, "tuneinsight/lattigo") {
				return normFunc(fn)
			}
		}
		if !more {
			break
		}
	}
	if first == "" {
		return "unknown"
	}
	return normFunc(first)
}

func normFunc(fn string) string {
	if i := strings.LastIndex(fn, "/"); i >= 0 {
		fn = fn[i+1:]
	}
	// drop generic instantiation "[...]" / "[go.shape....]"
	for {
		i := strings.Index(fn, "[")
		if i < 0 {
			break
		}
		depth, j := 0, i
		for ; j < len(fn); j++ {
			if fn[j] == '[' {
				depth++
			} else if fn[j] == ']' {
				depth--
				if depth == 0 {
					break
				}
			}
		}
		if j >= len(fn) {
			break
		}
		fn = fn[:i] + fn[j+1:]
	}
	fn = strings.ReplaceAll(fn, "(*", "")
	fn = strings.ReplaceAll(fn, ")", "")
	fn = strings.ReplaceAll(fn, "(", "")
	return fn
}

// ---------------------------------------------------------------------------------------------
// equality

// objEqual: "an object equal to the original". The type's own Equal is used when it has one that takes the
// type itself (promoted Equal methods of embedded fields compare only a part and are not trusted); otherwise
// a structural comparison (nil and empty slices/maps are the same value, big numbers by value).
// When the type's Equal panics (several index or dereference the other operand unchecked) the structural
// comparison decides.
func objEqual(a, b any) (eq bool, how string) {
	if has, e, pan := ownEqual(a, b); has && pan == nil {
		return e, "own Equal"
	} else if pan != nil {
		// e.g. rlwe.Element.Equal dereferences a nil MetaData: a defect of Equal, not of serialization
		return deepEq(reflect.ValueOf(a).Elem(), reflect.ValueOf(b).Elem()), fmt.Sprintf("structural; own Equal panicked: %v", pan)
	}
	return deepEq(reflect.ValueOf(a).Elem(), reflect.ValueOf(b).Elem()), "structural"
}

func ownEqual(a, b any) (has, eq bool, panicked any) {
	va, vb := reflect.ValueOf(a), reflect.ValueOf(b)
	m := va.MethodByName("Equal")
	if !m.IsValid() {
		return
	}
	t := m.Type()
	if t.NumIn() != 1 || t.NumOut() != 1 || t.Out(0).Kind() != reflect.Bool {
		return
	}
	var arg reflect.Value
	switch t.In(0) {
	case va.Type():
		arg = vb
	case va.Type().Elem():
		arg = vb.Elem()
	default:
		return
	}
	has = true
	defer func() {
		if r := recover(); r != nil {
			panicked = r
		}
	}()
	eq = m.Call([]reflect.Value{arg})[0].Bool()
	return
}

var (
	bigIntT   = reflect.TypeOf(big.Int{})
	bigFloatT = reflect.TypeOf(big.Float{})
)

// rw strips the read-only flag reflect puts on values reached through unexported fields.
func rw(v reflect.Value) reflect.Value {
	if v.CanAddr() {
		return reflect.NewAt(v.Type(), unsafe.Pointer(v.UnsafeAddr())).Elem()
	}
	return v
}

func addressable(v reflect.Value) reflect.Value {
	if v.CanAddr() {
		return rw(v)
	}
	c := reflect.New(v.Type()).Elem()
	c.Set(v)
	return c
}

// step is one element of the path to the first difference between two values.
type step struct {
	name string
	t    reflect.Type // type of the value reached by this step
	// how to get there from the previous value (after dereferencing pointers / interfaces)
	kind byte // 'f' struct field idx, 'i' slice/array index idx, 'k' map key
	idx  int
	key  reflect.Value
}

// navigate follows a path of steps from root (a pointer); ok=false when the path does not exist in this object
// (shorter slice, missing key, nil pointer). The result is a pointer to the value reached (a copy for map entries).
func navigate(root any, path []step) (ptr any, ok bool) {
	v := reflect.ValueOf(root)
	for _, st := range path {
		for v.Kind() == reflect.Ptr || v.Kind() == reflect.Interface {
			if v.IsNil() {
				return nil, false
			}
			v = v.Elem()
		}
		v = rw(v)
		switch st.kind {
		case 'f':
			if v.Kind() != reflect.Struct || st.idx >= v.NumField() {
				return nil, false
			}
			v = v.Field(st.idx)
		case 'i':
			if (v.Kind() != reflect.Slice && v.Kind() != reflect.Array) || st.idx >= v.Len() {
				return nil, false
			}
			v = v.Index(st.idx)
		case 'k':
			if v.Kind() != reflect.Map {
				return nil, false
			}
			e := v.MapIndex(st.key)
			if !e.IsValid() {
				return nil, false
			}
			v = addressable(e)
		default:
			return nil, false
		}
	}
	v = rw(v)
	if v.Kind() == reflect.Ptr {
		if v.IsNil() {
			return nil, false
		}
		return v.Interface(), true
	}
	return addressable(v).Addr().Interface(), true
}

func deepEq(a, b reflect.Value) bool {
	eq, _ := diff(a, b, nil)
	return eq
}

// diff is a structural comparison returning the path to the first difference.
func diff(a, b reflect.Value, path []step) (bool, []step) {
	if a.IsValid() != b.IsValid() {
		return false, path
	}
	if !a.IsValid() {
		return true, nil
	}
	if a.Type() != b.Type() {
		return false, path
	}
	a, b = rw(a), rw(b)
	leaf := func(eq bool) (bool, []step) {
		if eq {
			return true, nil
		}
		return false, path
	}
	switch a.Type() {
	case bigIntT:
		a, b = addressable(a), addressable(b)
		return leaf(a.Addr().Interface().(*big.Int).Cmp(b.Addr().Interface().(*big.Int)) == 0)
	case bigFloatT:
		a, b = addressable(a), addressable(b)
		return leaf(a.Addr().Interface().(*big.Float).Cmp(b.Addr().Interface().(*big.Float)) == 0)
	}
	sub := func(st step, x, y reflect.Value) (bool, []step) {
		st.t = x.Type()
		p := append(append([]step(nil), path...), st)
		return diff(x, y, p)
	}
	switch a.Kind() {
	case reflect.Ptr:
		if a.IsNil() || b.IsNil() {
			return leaf(a.IsNil() == b.IsNil())
		}
		return diff(a.Elem(), b.Elem(), path)
	case reflect.Interface:
		if a.IsNil() || b.IsNil() {
			return leaf(a.IsNil() == b.IsNil())
		}
		return diff(addressable(a.Elem()), addressable(b.Elem()), path)
	case reflect.Struct:
		for i := 0; i < a.NumField(); i++ {
			if eq, p := sub(step{name: a.Type().Field(i).Name, kind: 'f', idx: i}, a.Field(i), b.Field(i)); !eq {
				return false, p
			}
		}
		return true, nil
	case reflect.Slice:
		if a.Len() != b.Len() {
			return leaf(false)
		}
		for i := 0; i < a.Len(); i++ {
			if eq, p := sub(step{name: "[i]", kind: 'i', idx: i}, a.Index(i), b.Index(i)); !eq {
				return false, p
			}
		}
		return true, nil
	case reflect.Array:
		for i := 0; i < a.Len(); i++ {
			if eq, p := sub(step{name: "[i]", kind: 'i', idx: i}, a.Index(i), b.Index(i)); !eq {
				return false, p
			}
		}
		return true, nil
	case reflect.Map:
		if a.Len() != b.Len() {
			return leaf(false)
		}
		keys := a.MapKeys()
		sort.Slice(keys, func(i, j int) bool { return fmt.Sprint(keys[i]) < fmt.Sprint(keys[j]) })
		for _, k := range keys {
			bv := b.MapIndex(k)
			if !bv.IsValid() {
				return leaf(false)
			}
			if eq, p := sub(step{name: "[k]", kind: 'k', key: k}, addressable(a.MapIndex(k)), addressable(bv)); !eq {
				return false, p
			}
		}
		return true, nil
	case reflect.Bool:
		return leaf(a.Bool() == b.Bool())
	case reflect.Int, reflect.Int8, reflect.Int16, reflect.Int32, reflect.Int64:
		return leaf(a.Int() == b.Int())
	case reflect.Uint, reflect.Uint8, reflect.Uint16, reflect.Uint32, reflect.Uint64, reflect.Uintptr:
		return leaf(a.Uint() == b.Uint())
	case reflect.Float32, reflect.Float64:
		return leaf(a.Float() == b.Float())
	case reflect.Complex64, reflect.Complex128:
		return leaf(a.Complex() == b.Complex())
	case reflect.String:
		return leaf(a.String() == b.String())
	default: // func, chan, unsafe pointer: not part of a value
		return true, nil
	}
}

// typeName: "rlwe.Ciphertext", "structs.Vector[uint64]" (import paths removed).
func typeName(ptr any) string { return tname(reflect.TypeOf(ptr).Elem()) }

// baseName is tname without type arguments ("structs.Map").
func baseName(t reflect.Type) string {
	s := tname(t)
	if i := strings.Index(s, "["); i >= 0 {
		s = s[:i]
	}
	return s
}

func tname(t reflect.Type) string {
	s := t.String()
	s = strings.ReplaceAll(s, "github.com/tuneinsight/lattigo/v6/", "")
	// keep only the last path element of each qualified identifier
	var out strings.Builder
	tok := ""
	flush := func() {
		if i := strings.LastIndex(tok, "/"); i >= 0 {
			tok = tok[i+1:]
		}
		out.WriteString(tok)
		tok = ""
	}
	for _, r := range s {
		switch r {
		case '[', ']', ',', ' ', '*':
			flush()
			out.WriteRune(r)
		default:
			tok += string(r)
		}
	}
	flush()
	return out.String()
}

// declName names the type that actually declares `method` in the method set of ptr: a method promoted from an
// embedded field is the embedded type's code (rlwe.RelinearizationKey.ReadFrom is rlwe.EvaluationKey.ReadFrom),
// and a defect in it is one defect, not one per embedding type.
func declName(ptr any, method string) string {
	t := reflect.TypeOf(ptr).Elem()
	for {
		if t.Kind() != reflect.Struct {
			break
		}
		next := reflect.Type(nil)
		for i := 0; i < t.NumField(); i++ {
			f := t.Field(i)
			if !f.Anonymous {
				continue
			}
			ft := f.Type
			if ft.Kind() == reflect.Ptr {
				ft = ft.Elem()
			}
			if _, ok := reflect.PtrTo(ft).MethodByName(method); ok {
				next = ft
				break
			}
		}
		if next == nil {
			break
		}
		if declaresOwn(t, method) {
			break // declared (possibly as a wrapper) by the outer type itself: the embedded one is shadowed
		}
		t = next
	}
	return tname(t) + "." + method
}

// declaresOwn: the method is written in t's own source (compiler-generated promotion and pointer wrappers live
// in "<autogenerated>").
func declaresOwn(t reflect.Type, method string) bool {
	real := func(m reflect.Method, ok bool) bool {
		if !ok {
			return false
		}
		f := runtime.FuncForPC(m.Func.Pointer())
		if f == nil {
			return false
		}
		file, _ := f.FileLine(m.Func.Pointer())
		return file != "<autogenerated>"
	}
	return real(t.MethodByName(method)) || real(reflect.PtrTo(t).MethodByName(method))
}

// jsonDeclared: the type itself declares MarshalJSON or UnmarshalJSON (rather than inheriting them from an
// embedded field).
func jsonDeclared(ptr any) bool {
	t := reflect.TypeOf(ptr).Elem()
	return declaresOwn(t, "MarshalJSON") || declaresOwn(t, "UnmarshalJSON")
}

// embedderName: the outermost-to-innermost chain of embeddings that promotes `method` ends in the type that
// declares it; the type just before it is the one whose embedding creates the promotion.
func embedderName(ptr any, method string) string {
	t := reflect.TypeOf(ptr).Elem()
	for {
		if t.Kind() != reflect.Struct || declaresOwn(t, method) {
			return baseName(t)
		}
		var next reflect.Type
		for i := 0; i < t.NumField(); i++ {
			f := t.Field(i)
			if !f.Anonymous {
				continue
			}
			ft := f.Type
			if ft.Kind() == reflect.Ptr {
				ft = ft.Elem()
			}
			if _, ok := reflect.PtrTo(ft).MethodByName(method); ok {
				next = ft
				break
			}
		}
		if next == nil || declaresOwn(next, method) {
			return baseName(t)
		}
		t = next
	}
}

// baseDecl is declName without type arguments ("structs.Map.ReadFrom"): for defects of a generic container's
// own logic, which do not depend on the instantiation.
func baseDecl(ptr any, method string) string {
	s := declName(ptr, method)
	i, j := strings.Index(s, "["), strings.LastIndex(s, "]")
	if i >= 0 && j > i {
		s = s[:i] + s[j+1:]
	}
	return s
}

// grow appends one element (a deep copy of the last one) to every non-empty slice of slices / structs / pointers
// reachable from ptr and adds one entry (a deep copy of an existing one, under a fresh key) to every non-empty map:
// a receiver with one more row, polynomial, digit, key ... than the value it was built as. Slices of scalars
// (coefficient rows, byte strings) keep their length.
func grow(ptr any) {
	var walk func(v reflect.Value)
	walk = func(v reflect.Value) {
		v = rw(v)
		switch v.Kind() {
		case reflect.Ptr, reflect.Interface:
			if !v.IsNil() && v.Kind() == reflect.Ptr {
				walk(v.Elem())
			}
		case reflect.Struct:
			for i := 0; i < v.NumField(); i++ {
				walk(v.Field(i))
			}
		case reflect.Array:
			for i := 0; i < v.Len(); i++ {
				walk(v.Index(i))
			}
		case reflect.Slice:
			for i := 0; i < v.Len(); i++ {
				walk(v.Index(i))
			}
			switch v.Type().Elem().Kind() {
			case reflect.Slice, reflect.Struct, reflect.Ptr:
				if v.Len() > 0 && v.CanSet() {
					v.Set(reflect.Append(v, deepCopy(v.Index(v.Len()-1))))
				}
			}
		case reflect.Map:
			if v.Len() == 0 {
				return
			}
			keys := v.MapKeys()
			sort.Slice(keys, func(i, j int) bool { return fmt.Sprint(keys[i]) < fmt.Sprint(keys[j]) })
			for _, k := range keys {
				if e := v.MapIndex(k); e.Kind() == reflect.Ptr && !e.IsNil() {
					walk(e.Elem())
				}
			}
			last := keys[len(keys)-1]
			nk := reflect.New(last.Type()).Elem()
			switch last.Kind() {
			case reflect.Int, reflect.Int64, reflect.Int32:
				nk.SetInt(last.Int() + 1000003)
			case reflect.Uint, reflect.Uint64, reflect.Uint32:
				nk.SetUint(last.Uint() + 1000003)
			default:
				return
			}
			v.SetMapIndex(nk, deepCopy(v.MapIndex(last)))
		}
	}
	walk(reflect.ValueOf(ptr).Elem())
}

// deepCopy of a value (pointers, slices, maps, structs incl. unexported fields followed; everything else shared).
func deepCopy(v reflect.Value) reflect.Value {
	out := reflect.New(v.Type()).Elem()
	var cp func(dst, src reflect.Value)
	cp = func(dst, src reflect.Value) {
		dst, src = rw(dst), rw(src)
		switch src.Kind() {
		case reflect.Ptr:
			if !src.IsNil() {
				dst.Set(reflect.New(src.Type().Elem()))
				cp(dst.Elem(), src.Elem())
			}
		case reflect.Slice:
			if !src.IsNil() {
				dst.Set(reflect.MakeSlice(src.Type(), src.Len(), src.Len()))
				for i := 0; i < src.Len(); i++ {
					cp(dst.Index(i), src.Index(i))
				}
			}
		case reflect.Array:
			for i := 0; i < src.Len(); i++ {
				cp(dst.Index(i), src.Index(i))
			}
		case reflect.Struct:
			for i := 0; i < src.NumField(); i++ {
				cp(dst.Field(i), src.Field(i))
			}
		case reflect.Map:
			if !src.IsNil() {
				dst.Set(reflect.MakeMap(src.Type()))
				it := src.MapRange()
				for it.Next() {
					dst.SetMapIndex(it.Key(), deepCopy(it.Value()))
				}
			}
		default:
			dst.Set(src)
		}
	}
	cp(out, addressable(v))
	return out
}

// numberClasses names the kinds of arbitrary-precision and floating-point numbers an object carries, for the
// coverage report: a codec that rounds to 64 bits, to a float32/float64 or to a shortened decimal text is visible only
// on values that need more. (big.Int words are filled with 60-bit random words by the generator and are not classified.)
var numberClassNames = []string{"big.Float:mantissa>64bits", "big.Float:mantissa<=64bits", "big.Float:non-dyadic-at-prec-53", "big.Float:non-dyadic-at-prec-64",
	"big.Float:non-dyadic-at-prec-128", "big.Float:non-dyadic-at-prec-256", "float64:needs-more-than-float32", "float64:not-a-short-decimal"}

func numberClasses(obj any) []string {
	seen := map[string]bool{}
	var walk func(v reflect.Value, depth int)
	walk = func(v reflect.Value, depth int) {
		if depth > 12 || !v.IsValid() {
			return
		}
		switch v.Kind() {
		case reflect.Ptr, reflect.Interface:
			if !v.IsNil() {
				walk(v.Elem(), depth+1)
			}
		case reflect.Struct:
			if v.Type() == bigFloatT {
				if !v.CanAddr() {
					c := reflect.New(v.Type()).Elem()
					c.Set(v)
					v = c
				}
				f := (*big.Float)(v.Addr().UnsafePointer())
				if f.Sign() == 0 || f.IsInf() {
					return
				}
				if f.MinPrec() > 64 {
					seen["big.Float:mantissa>64bits"] = true
				} else {
					seen["big.Float:mantissa<=64bits"] = true
				}
				if f.MinPrec()+8 > f.Prec() { // (nearly) all bits of its precision significant
					seen[fmt.Sprintf("big.Float:non-dyadic-at-prec-%d", f.Prec())] = true
				}
				return
			}
			if v.Type() == bigIntT {
				return
			}
			for i := 0; i < v.NumField(); i++ {
				walk(v.Field(i), depth+1)
			}
		case reflect.Slice, reflect.Array:
			if k := v.Type().Elem().Kind(); k == reflect.Uint64 || k == reflect.Uint8 || k == reflect.Uint32 || k == reflect.Uint16 || k == reflect.Int {
				return
			}
			for i := 0; i < v.Len(); i++ {
				walk(v.Index(i), depth+1)
			}
		case reflect.Map:
			for _, k := range v.MapKeys() {
				walk(v.MapIndex(k), depth+1)
			}
		case reflect.Float64:
			x := v.Float()
			if x != float64(float32(x)) {
				seen["float64:needs-more-than-float32"] = true
			}
			if len(strconv.FormatFloat(x, 'g', -1, 64)) >= 15 {
				seen["float64:not-a-short-decimal"] = true
			}
		}
	}
	func() {
		defer func() { _ = recover() }() // (classification only; an object reflect cannot walk is simply not classified)
		walk(reflect.ValueOf(obj), 0)
	}()
	var r []string
	for _, n := range numberClassNames {
		if seen[n] {
			r = append(r, n)
		}
	}
	return r
}
