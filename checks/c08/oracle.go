package main

// Shared oracle machinery: signatures, classification of panics, the judgement of a decoded receiver
// ("equal to the original, re-marshals to the same bytes, same announced size, exact count") and the
// attribution of a difference to the component type that owns the mis-decoded field.

import (
	"bufio"
	"bytes"
	"encoding/json"
	"fmt"
	"io"
	"reflect"
	"strings"

	"github.com/tuneinsight/lattigo/v6/utils/buffer"

	"verif/engine"
)

// lc is what a leaf knows.
type lc struct {
	c    *engine.Chooser
	cat  []*entry
	e    *entry
	vi   int
	o    *cached // original object + reference encodings
	name string  // scenario name (for Outcome)
	seed uint64
}

func (x *lc) label() string { return x.e.values(x.seed)[x.vi].label }

// at: the leaf context focused on catalogue value vi of the type (a scenario is one type; leaves loop over its
// values, so that a defect of the type is one violating leaf and not one per value).
func (x *lc) at(vi int) *lc {
	y := *x
	y.vi, y.o = vi, original(x.seed, x.e, vi)
	return &y
}

// faultValues: the hand-written values only. A value derived by changing one scalar field has the byte layout of
// its base value, so cutting, corrupting or fragmenting it again adds nothing (and decoding parameter sets is dear).
func (x *lc) faultValues() []*lc {
	r := make([]*lc, len(x.e.vals))
	for vi := range x.e.vals {
		r[vi] = x.at(vi)
	}
	return r
}

func (x *lc) values() []*lc {
	vs := x.e.values(x.seed)
	r := make([]*lc, len(vs))
	for vi := range vs {
		r[vi] = x.at(vi)
	}
	return r
}

// Signature scheme: C08/<family>/<subject>/<kind>. <subject> is the function that panicked, else
// <DeclaringType>.<method> of the code under test (a promoted method is named after the embedded type that
// declares it), else - for a mis-decoded field - the component type that owns the field.
func sig(family, subject, kind string) string { return "C08/" + family + "/" + subject + "/" + kind }

// panicKind classifies a recovered panic value into a short stable word.
func panicKind(o outcome) string {
	s := o.panicMsg()
	if _, ok := o.panicked.(noProgress); ok {
		return "unbounded-recursion-on-exhausted-input"
	}
	switch {
	case strings.Contains(s, "makeslice") || strings.Contains(s, "makemap") || strings.Contains(s, "out of memory") || strings.Contains(s, "slice bounds out of range"):
		// make([]T, n) / s[:n] with an n taken from the input: one defect class together with "unbounded-alloc"
		return "unchecked-length"
	case strings.Contains(s, "index out of range"):
		return "index-out-of-range"
	case strings.Contains(s, "nil pointer dereference") || strings.Contains(s, "nil map"):
		return "nil-dereference"
	default:
		return "other"
	}
}

func panicSigKind(kind string) string {
	if kind == "unchecked-length" {
		return kind
	}
	return "panic:" + kind
}

// failPanic reports a panic; the signature names the function that panicked (one defect, one signature,
// whatever container was being decoded).
func (x *lc) failPanic(family string, o outcome, what string) {
	x.c.Fail(sig(family, o.site, panicSigKind(panicKind(o))), "%s [%s] %s: panic in %s: %s", x.e.name, x.label(), what, o.site, o.panicMsg())
}

// failResult reports a fatal error or panic observed by the helper process.
func (x *lc) failResult(family string, r result, what string) {
	switch {
	case r.Fatal != "":
		x.c.Fail(sig(family, r.FatalSite, "fatal:"+r.Fatal), "%s [%s] %s: THE PROCESS WAS KILLED by an unrecoverable runtime error (%s) in %s", x.e.name, x.label(), what, r.Fatal, r.FatalSite)
	case r.Panic != "":
		x.c.Fail(sig(family, r.Site, panicSigKind(r.PanicKind)), "%s [%s] %s: panic in %s: %s", x.e.name, x.label(), what, r.Site, r.Panic)
	}
}

// firstDiffAt describes where two byte strings differ.
func firstDiffAt(a, b []byte) string {
	n := len(a)
	if len(b) < n {
		n = len(b)
	}
	for i := 0; i < n; i++ {
		if a[i] != b[i] {
			return fmt.Sprintf("first difference at byte %d (0x%02x vs 0x%02x), lengths %d vs %d", i, a[i], b[i], len(a), len(b))
		}
	}
	return fmt.Sprintf("common prefix of %d bytes, lengths %d vs %d", n, len(a), len(b))
}

// judgement of a receiver after a decode that returned no error
type verdict struct {
	kind    string // "" = fine
	msg     string
	subject string // blamed component type, "" = the type under test
}

func pathString(p []step) string {
	s := ""
	for i, st := range p {
		if i > 0 && !strings.HasPrefix(st.name, "[") {
			s += "."
		}
		s += st.name
	}
	if s == "" {
		s = "(value)"
	}
	return s
}

var (
	readerFromT  = reflect.TypeOf((*io.ReaderFrom)(nil)).Elem()
	writerToT    = reflect.TypeOf((*io.WriterTo)(nil)).Elem()
	jsonUnmarshT = reflect.TypeOf((*json.Unmarshaler)(nil)).Elem()
)

func isLibraryType(t reflect.Type) bool {
	return strings.Contains(t.PkgPath(), "tuneinsight/lattigo")
}

// serializableStep: the step lands on a library type that has its own decoder.
func serializableStep(st step) bool {
	t := st.t
	if t.Kind() == reflect.Ptr {
		t = t.Elem()
	}
	if !isLibraryType(t) {
		return false
	}
	pt := reflect.PtrTo(t)
	return pt.Implements(readerFromT) || pt.Implements(jsonUnmarshT)
}

// blame attributes a difference found at `path` to the component that mis-decodes it, so that a defect of
// rlwe.CiphertextMetaData is one signature and not one per container - and so that a container that puts correct
// sub-objects into the wrong place is not blamed on its innocent components. Candidates are the serializable
// library components on the path that strictly contain the difference, deepest first; a candidate is blamed only if
// it fails ON ITS OWN: its sub-object of the original is encoded and decoded into the corresponding sub-object of
// the receiver as it was before the decode (pre(), rebuilt; a zero value when the receiver has no such sub-object)
// and does not come out equal. If none fails on its own, the object under test is to blame. The reported field
// path is relative to the blamed component and stops at the first serializable sub-component.
func blame(orig any, pre func() any, p []step) (subject string, rel string) {
	relOf := func(from int) string {
		for i := from; i < len(p); i++ {
			if serializableStep(p[i]) {
				return pathString(p[from : i+1])
			}
		}
		return pathString(p[from:])
	}
	for i := len(p) - 2; i >= 0; i-- { // (a difference AT a component - presence, length - is its container's business)
		if !serializableStep(p[i]) {
			continue
		}
		co, ok := navigate(orig, p[:i+1])
		if !ok {
			continue
		}
		var sub any
		if pre != nil {
			if r := pre(); r != nil {
				sub, _ = navigate(r, p[:i+1])
			}
		}
		if sub == nil {
			sub = freshLike(co)
		}
		if !componentRoundTrips(co, sub) {
			t := p[i].t
			if t.Kind() == reflect.Ptr {
				t = t.Elem()
			}
			return baseName(t), relOf(i + 1)
		}
	}
	return "", relOf(0)
}

// componentRoundTrips: co's own encoding decoded into sub gives an object structurally equal to co.
func componentRoundTrips(co, sub any) bool {
	a := apiOf(co)
	var o outcome
	switch {
	case a.wt != nil && a.rf != nil:
		var buf bytes.Buffer
		if o = guard(func() (err error) { _, err = a.wt.WriteTo(&buf); return }); o.err != nil || o.panicked != nil {
			return true // cannot be judged on its own
		}
		o = guard(func() (err error) { _, err = sub.(io.ReaderFrom).ReadFrom(buffer.NewBuffer(buf.Bytes())); return })
	case a.jm != nil || a.ju != nil:
		var js []byte
		if o = guard(func() (err error) { js, err = json.Marshal(co); return }); o.err != nil || o.panicked != nil {
			return true
		}
		o = guard(func() error { return json.Unmarshal(js, sub) })
	default:
		return true
	}
	if o.err != nil || o.panicked != nil {
		return false
	}
	return deepEq(reflect.ValueOf(co).Elem(), reflect.ValueOf(sub).Elem())
}

// equalObjects: the catalogue's override, else the type's own Equal, else structural.
func (x *lc) equalObjects(a, b any) (bool, string) {
	if x.e.eq != nil {
		return x.e.eq(a, b), "catalogue equality"
	}
	return objEqual(a, b)
}

// judge compares the decoded receiver with the original: equal (own Equal or structural), re-marshals to
// the reference bytes, announces the same size, and (where a count is returned) consumed exactly the encoding.
func (x *lc) judge(d decoder, recv any, n int64) verdict { return x.judgePre(d, recv, n, nil) }

// judgePre: pre rebuilds the receiver as it was before the decode (nil: it was a zero value); used for attribution.
func (x *lc) judgePre(d decoder, recv any, n int64, pre func() any) verdict {
	ref, _ := x.o.ref(d)
	v := judgeAgainst(x.e, x.o.obj, ref, d, recv, n, pre)
	if v.kind == "binarysize-differs" && d.method != "ReadFrom" && x.o.binOK && x.o.wbinOK && !bytes.Equal(x.o.bin, x.o.wbin) {
		// BinarySize documents WriteTo; where MarshalBinary and WriteTo of this very object disagree (reported by
		// family 1) it cannot also match MarshalBinary's length
		return verdict{}
	}
	return v
}

func judgeAgainst(e *entry, orig any, ref []byte, d decoder, recv any, n int64, pre func() any) verdict {
	if d.hasN && n != int64(len(ref)) {
		return verdict{kind: "wrong-count", msg: fmt.Sprintf("returned n=%d for an encoding of %d bytes", n, len(ref))}
	}
	seq, path := diff(reflect.ValueOf(orig).Elem(), reflect.ValueOf(recv).Elem(), nil)
	var eq bool
	var how string
	if e != nil && e.eq != nil {
		eq, how = e.eq(orig, recv), "catalogue equality"
	} else {
		eq, how = objEqual(orig, recv)
	}
	differs := func(v verdict) verdict {
		if !seq {
			sub, rel := blame(orig, pre, path)
			v.subject, v.kind = sub, "differs:"+rel
			v.msg += "; structural difference at " + pathString(path)
		}
		return v
	}
	if eq && !seq && exportedScalarPath(path) {
		// the type's own Equal does not look at this exported field; a reader of the decoded object does
		eq, how = false, how+" says equal, but it ignores an exported field that differs"
	}
	if !eq {
		return differs(verdict{kind: "not-equal", msg: "decoded object differs from the original (" + how + ")"})
	}
	b, o, ok := encodeFor(d, apiOf(recv))
	if !ok {
		if o.panicked != nil {
			return verdict{kind: "remarshal-panics", msg: fmt.Sprintf("re-marshalling the decoded object panicked in %s: %s", o.site, o.panicMsg())}
		}
		return verdict{kind: "remarshal-fails", msg: fmt.Sprintf("re-marshalling the decoded object failed: %v", o.err)}
	}
	if !bytes.Equal(b, ref) {
		return differs(verdict{kind: "remarshal-differs", msg: "decoded object is Equal to the original (" + how + ") but encodes differently: " + firstDiffAt(ref, b)})
	}
	if ra := apiOf(recv); !d.json && ra.sizer != nil {
		var sz int
		if o := guard(func() error { sz = ra.sizer.BinarySize(); return nil }); o.panicked != nil || sz != len(ref) {
			return verdict{kind: "binarysize-differs", msg: fmt.Sprintf("BinarySize of the decoded object = %d, encoding has %d bytes", sz, len(ref))}
		}
	}
	return verdict{}
}

func (x *lc) decodeInto(d decoder, recv any, data []byte) (n int64, o outcome) {
	a := apiOf(recv)
	o = guard(func() (err error) { n, err = d.run(a, data); return })
	return
}

// decodeFault decodes damaged input. UnmarshalBinary hands the bytes to a buffer.Buffer it creates itself;
// when `tripwire` (UnmarshalBinary and ReadFrom speak the same format: MarshalBinary and WriteTo bytes agree
// up to trailing padding; bgv/ckks.Parameters pair a JSON MarshalBinary with rlwe's length-prefixed ReadFrom)
// the same bytes are first decoded through ReadFrom on a watchReader (identical reader behaviour, identical
// library code path) and the real UnmarshalBinary is only called when that terminated: a decoder that never
// terminates takes the whole process down with a stack overflow.
func decodeFault(d decoder, recv any, data []byte, tripwire bool) (n int64, o outcome) {
	a := apiOf(recv)
	if d.name == "UnmarshalBinary" && a.rf != nil && tripwire {
		probe := freshLike(recv)
		o = guard(func() (err error) {
			_, err = probe.(io.ReaderFrom).ReadFrom(&watchReader{b: buffer.NewBuffer(data)})
			return
		})
		if _, tripped := o.panicked.(noProgress); tripped {
			return 0, o
		}
	}
	o = guard(func() (err error) { n, err = d.run(a, data); return })
	return
}

// subjectFor: signature subject of a verdict about decoder d of the type under test.
func (x *lc) subjectFor(d decoder, v verdict) string {
	if v.subject != "" {
		return v.subject
	}
	if strings.HasPrefix(v.kind, "differs:") {
		// a mis-decoded / stale field of the type itself: the decoders share the code, one signature
		return baseName(reflect.TypeOf(x.o.obj).Elem())
	}
	return x.e.name + "." + d.method
}

// roundtrip: the reference bytes into a fresh zero value. report=false only says whether it works.
func (x *lc) roundtrip(d decoder, report bool) bool {
	ref, ok := x.o.ref(d)
	if !ok {
		return false // reported by the entry-point family
	}
	recv := freshLike(x.o.obj)
	n, o := x.decodeInto(d, recv, ref)
	switch {
	case o.panicked != nil:
		if report {
			x.failPanic("roundtrip", o, d.name+" of its own encoding")
		}
	case o.err != nil:
		if report {
			x.c.Fail(sig("roundtrip", x.e.name+"."+d.method, "error"), "%s [%s]: %s of the object's own encoding into a fresh value failed: %v", x.e.name, x.label(), d.name, o.err)
		}
	default:
		v := x.judge(d, recv, n)
		if v.kind == "" {
			return true
		}
		if report {
			x.c.Fail(sig("roundtrip", x.subjectFor(d, v), v.kind), "%s [%s] via %s into a fresh value: %s", x.e.name, x.label(), d.name, v.msg)
		}
	}
	return false
}

// baseline: for leaves whose subject is something else, a broken plain round trip is reported once, by the
// fresh-receiver leaf of the receiver family; here the leaf is only marked out of scope.
func (x *lc) baseline(d decoder) bool {
	if x.roundtrip(d, false) {
		return true
	}
	x.c.Cover("not-judged", "plain round trip already fails (reported by the receiver family, fresh receiver)")
	return false
}

// encodeFor re-marshals with the writer that pairs with the decoder: WriteTo for ReadFrom, MarshalBinary for
// UnmarshalBinary, json.Marshal for JSON.
func encodeFor(d decoder, a api) (b []byte, o outcome, ok bool) {
	switch {
	case d.json:
		return encodeJSON(a)
	case d.method == "ReadFrom" && a.wt != nil:
		var buf bytes.Buffer
		bw := bufio.NewWriterSize(&buf, 4096)
		o = guard(func() (err error) {
			if _, err = a.wt.WriteTo(bw); err != nil {
				return
			}
			return bw.Flush()
		})
		return buf.Bytes(), o, o.err == nil && o.panicked == nil
	}
	return encodeBinary(a)
}

func availDecoders(o *cached) []decoder {
	var r []decoder
	for _, d := range decoders {
		if d.json && !o.hasJSON {
			continue
		}
		if d.avail(o.a) {
			r = append(r, d)
		}
	}
	return r
}

// exportedScalarPath: the first structural difference is a scalar reached through exported struct fields only
// (no slices, maps or unexported state on the way): plain data a user of the object reads directly.
func exportedScalarPath(p []step) bool {
	if len(p) == 0 {
		return false
	}
	for _, st := range p {
		if st.kind != 'f' || st.name == "" || st.name[0] < 'A' || st.name[0] > 'Z' {
			return false
		}
	}
	t := p[len(p)-1].t
	if t.Kind() == reflect.Ptr {
		t = t.Elem()
	}
	return basicKind(t.Kind())
}
