package main

// Encoders / decoders of one object: every reading entry point is a `decoder`, so the families can be
// written once. Reference bytes and originals are cached per process (they are never written to: every
// receiver is a fresh or rebuilt object).

import (
	"bufio"
	"bytes"
	"encoding/json"
	"fmt"
	"sync"

	"github.com/tuneinsight/lattigo/v6/utils/buffer"
)

type decoder struct {
	name   string // "UnmarshalBinary", "ReadFrom(buffer.Buffer)", ...
	method string // method under test as it appears in signatures
	hasN   bool   // reports a byte count
	json   bool
	avail  func(a api) bool
	run    func(a api, data []byte) (n int64, err error)
}

var decoders = []decoder{
	{name: "UnmarshalBinary", method: "UnmarshalBinary",
		avail: func(a api) bool { return a.bu != nil && a.bm != nil },
		run:   func(a api, d []byte) (int64, error) { return 0, a.bu.UnmarshalBinary(d) }},
	{name: "ReadFrom(buffer.Buffer)", method: "ReadFrom", hasN: true,
		avail: func(a api) bool { return a.rf != nil },
		run:   func(a api, d []byte) (int64, error) { return a.rf.ReadFrom(buffer.NewBuffer(d)) }},
	{name: "ReadFrom(bufio.Reader)", method: "ReadFrom", hasN: true,
		avail: func(a api) bool { return a.rf != nil },
		run:   func(a api, d []byte) (int64, error) { return a.rf.ReadFrom(bufio.NewReader(bytes.NewReader(d))) }},
	{name: "ReadFrom(io.Reader)", method: "ReadFrom", hasN: true,
		avail: func(a api) bool { return a.rf != nil },
		run:   func(a api, d []byte) (int64, error) { return a.rf.ReadFrom(newChunkReader(d, chunking{zeroAt: -1})) }},
	{name: "json.Unmarshal", method: "UnmarshalJSON", json: true,
		avail: func(a api) bool { return (a.ju != nil || a.jm != nil) && jsonDeclared(a.ptr) },
		run:   func(a api, d []byte) (int64, error) { return 0, json.Unmarshal(d, a.ptr) }},
}

// encodeBinary: MarshalBinary when offered, else WriteTo into a bytes.Buffer.
func encodeBinary(a api) (b []byte, o outcome, ok bool) {
	switch {
	case a.bm != nil:
		o = guard(func() (err error) { b, err = a.bm.MarshalBinary(); return })
	case a.wt != nil:
		var buf bytes.Buffer
		o = guard(func() (err error) { _, err = a.wt.WriteTo(&buf); return })
		b = buf.Bytes()
	default:
		return nil, o, false
	}
	return b, o, o.err == nil && o.panicked == nil
}

func encodeJSON(a api) (b []byte, o outcome, ok bool) {
	if a.ju == nil && a.jm == nil {
		return nil, o, false
	}
	o = guard(func() (err error) { b, err = json.Marshal(a.ptr); return })
	return b, o, o.err == nil && o.panicked == nil
}

// ---------------------------------------------------------------------------------------------
// per-process cache of originals and reference encodings

type cached struct {
	obj     any
	a       api
	bin     []byte
	binOK   bool
	binOut  outcome
	js      []byte
	jsOK    bool
	jsOut   outcome
	hasBin  bool
	hasJSON bool
	// wbin: what WriteTo produces (identical to bin unless the entry points disagree, which family 1 reports);
	// it is the reference for the ReadFrom decoders, bin (MarshalBinary) for UnmarshalBinary.
	wbin   []byte
	wbinOK bool
}

var (
	cacheMu sync.Mutex
	cache   = map[string]*cached{}
)

func original(seed uint64, e *entry, vi int) *cached {
	key := fmt.Sprintf("%s\x00%d", e.name, vi)
	cacheMu.Lock()
	defer cacheMu.Unlock()
	if c, ok := cache[key]; ok {
		return c
	}
	obj := build(seed, e, vi)
	c := &cached{obj: obj, a: apiOf(obj)}
	c.hasBin = c.a.bm != nil || c.a.wt != nil
	c.hasJSON = (c.a.ju != nil || c.a.jm != nil) && jsonDeclared(obj)
	if c.hasBin {
		c.bin, c.binOut, c.binOK = encodeBinary(c.a)
		c.bin = append([]byte(nil), c.bin...)
	}
	if c.hasJSON {
		c.js, c.jsOut, c.jsOK = encodeJSON(c.a)
	}
	c.wbin, c.wbinOK = c.bin, c.binOK
	if c.a.wt != nil {
		// through a buffer.Writer the caller owns and flushes: nothing depends on the library's own flushing
		var buf bytes.Buffer
		bw := bufio.NewWriterSize(&buf, 4096)
		o := guard(func() (err error) {
			if _, err = c.a.wt.WriteTo(bw); err != nil {
				return
			}
			return bw.Flush()
		})
		c.wbin, c.wbinOK = append([]byte(nil), buf.Bytes()...), o.err == nil && o.panicked == nil
	}
	cache[key] = c
	return c
}

func (c *cached) ref(d decoder) ([]byte, bool) {
	switch {
	case d.json:
		return c.js, c.jsOK
	case d.method == "ReadFrom":
		return c.wbin, c.wbinOK
	}
	return c.bin, c.binOK
}
