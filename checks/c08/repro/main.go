//go:build ignore

// Standalone reproductions of the C08 findings against the public API (see ../FINDINGS.md).
// Run from a scratch module that requires github.com/tuneinsight/lattigo/v6 (replace => /repo):
//
//	go run main.go          all recoverable cases
//	go run main.go D1       fatal error: stack overflow
//	go run main.go D6       fatal error: out of memory (run under ulimit -v)
package main

import (
	"bufio"
	"bytes"
	"encoding/json"
	"fmt"
	"math/big"
	"os"

	"github.com/tuneinsight/lattigo/v6/circuits/ckks/bootstrapping"
	"github.com/tuneinsight/lattigo/v6/core/rlwe"
	"github.com/tuneinsight/lattigo/v6/ring"
	"github.com/tuneinsight/lattigo/v6/schemes/bgv"
	"github.com/tuneinsight/lattigo/v6/utils/structs"
)

type oneByte struct{ r *bytes.Reader }

func (o oneByte) Read(p []byte) (int, error) {
	if len(p) > 1 {
		p = p[:1]
	}
	return o.r.Read(p)
}

func params() rlwe.Parameters {
	p, err := rlwe.NewParametersFromLiteral(rlwe.ParametersLiteral{LogN: 4, Q: []uint64{0x3ffffe81, 0x3ffffb41}, P: []uint64{0x3ffff781}, NTTFlag: true})
	if err != nil {
		panic(err)
	}
	return p
}

func try(name string, f func()) {
	defer func() {
		if r := recover(); r != nil {
			fmt.Printf("%-4s PANIC: %v\n", name, r)
		}
	}()
	f()
}

func main() {
	which := ""
	if len(os.Args) > 1 {
		which = os.Args[1]
	}
	p := params()
	poly := p.RingQ().NewPoly()
	pb, _ := poly.MarshalBinary()
	switch which {
	case "D1": // fatal: stack overflow
		var q ring.Poly
		fmt.Println(q.UnmarshalBinary(pb[:len(pb)-5]))
		return
	case "D6": // fatal: out of memory (or a 16+ GiB allocation)
		b := append([]byte(nil), pb...)
		b[11] = 0x80 // inner length 16 -> 16 + 2^31
		var q ring.Poly
		fmt.Println(q.UnmarshalBinary(b))
		return
	}
	try("D2", func() {
		var q ring.Poly
		_, err := q.ReadFrom(bufio.NewReaderSize(bytes.NewReader(pb), 100))
		fmt.Println("D2   ring.Poly through bufio.NewReaderSize(r,100):", err, "equal:", err == nil && q.Equal(&poly))
	})
	try("D3", func() {
		v := make(structs.Vector[uint8], 47)
		for i := range v {
			v[i] = uint8(i + 1)
		}
		b, _ := v.MarshalBinary()
		var w structs.Vector[uint8]
		n, err := w.ReadFrom(oneByte{bytes.NewReader(b)})
		fmt.Println("D3   Vector[uint8] 1-byte chunks: n =", n, "of", len(b), "err =", err, "equal:", w.Equal(v))
		var w2 structs.Vector[uint8]
		n, err = w2.ReadFrom(bufio.NewReader(bytes.NewReader(b[:9])))
		fmt.Println("D3   Vector[uint8] truncated to 9 of 55 bytes: n =", n, "err =", err)
	})
	try("D4", func() {
		ct := rlwe.NewCiphertext(p, 1, 1)
		b, _ := ct.MarshalBinary()
		ct2 := new(rlwe.Ciphertext)
		_, err := ct2.ReadFrom(oneByte{bytes.NewReader(b)})
		fmt.Println("D4   Ciphertext 1-byte chunks:", err)
		ct3 := new(rlwe.Ciphertext)
		_, err = ct3.ReadFrom(bufio.NewReaderSize(bytes.NewReader(b), 16))
		fmt.Println("D4   Ciphertext through bufio.NewReaderSize(r,16):", err)
		// three ciphertexts back to back through one default bufio.Reader
		for deg := 0; deg < 4; deg++ {
			big := rlwe.NewCiphertext(params(), deg, 1)
			var s bytes.Buffer
			w := bufio.NewWriter(&s)
			for i := 0; i < 12; i++ {
				big.WriteTo(w)
			}
			w.Flush()
			r := bufio.NewReader(&s)
			for i := 0; i < 12; i++ {
				if _, err := new(rlwe.Ciphertext).ReadFrom(r); err != nil {
					fmt.Printf("D4   12 degree-%d ciphertexts (%d bytes each) back to back through one bufio.NewReader: object %d fails: %v\n", deg, big.BinarySize(), i, err)
					break
				}
			}
		}
	})
	try("D5", func() {
		b, _ := p.MarshalBinary()
		var q rlwe.Parameters
		_, err := q.ReadFrom(oneByte{bytes.NewReader(b)})
		fmt.Println("D5   rlwe.Parameters 1-byte chunks:", err)
	})
	try("D7a", func() {
		pt := rlwe.NewPlaintext(p, 0)
		b, _ := pt.MarshalBinary()
		b[278] = 0 // 1 flag byte + 277 bytes of metadata, then the polynomial count (1 -> 0)
		fmt.Println(new(rlwe.Plaintext).UnmarshalBinary(b))
	})
	try("D7b", func() {
		evk := rlwe.NewEvaluationKey(p)
		b, _ := evk.MarshalBinary()
		copy(b[8:16], make([]byte, 8)) // outer matrix length -> 0
		fmt.Println(new(rlwe.EvaluationKey).UnmarshalBinary(b))
	})
	try("D8", func() {
		var s rlwe.Scale
		fmt.Println(json.Unmarshal([]byte(`{"Value":"1","Mod":"x"}`), &s))
	})
	try("D9", func() {
		r, _ := ring.NewRing(16, []uint64{0x3ffffe81})
		b, _ := r.MarshalJSON()
		b = bytes.Replace(b, []byte("1073741441"), []byte("0"), 1)
		fmt.Println("D9   ", string(b[:60]))
		fmt.Println(new(ring.Ring).UnmarshalJSON(b))
	})
	try("D10", func() {
		s := rlwe.NewScale(1234)
		b, _ := s.MarshalBinary()
		var t rlwe.Scale
		err := t.UnmarshalBinary(b)
		fmt.Println("D10  Scale.UnmarshalBinary: err =", err, "got", t.Float64(), "want", s.Float64())
	})
	try("D11", func() {
		s := rlwe.NewScale(5)
		b, _ := s.MarshalJSON()
		t := rlwe.NewScaleModT(3, 65537)
		json.Unmarshal(b, &t)
		fmt.Println("D11  Scale without Mod decoded into a Scale with Mod: Mod =", t.Mod)
	})
	try("D12", func() {
		s := rlwe.NewScale(new(big.Int).Lsh(big.NewInt(1), 400))
		b, _ := s.MarshalBinary()
		fmt.Println("D12  Scale 2^400: BinarySize =", s.BinarySize(), "len(MarshalBinary) =", len(b))
		ct := rlwe.NewCiphertext(p, 1, 1)
		ct.Scale = s
		cb, _ := ct.MarshalBinary()
		fmt.Println("D12  ciphertext with that scale:", new(rlwe.Ciphertext).UnmarshalBinary(cb))
	})
	try("D13", func() {
		a := rlwe.CiphertextMetaData{IsNTT: false}
		b, _ := a.MarshalBinary()
		c := rlwe.CiphertextMetaData{IsNTT: true, IsMontgomery: true}
		c.UnmarshalBinary(b)
		fmt.Println("D13  decoded IsNTT=false into used receiver:", c)
	})
	try("D14", func() {
		src := rlwe.NewCiphertext(p, 1, 1)
		src.MetaData = nil
		b, _ := src.MarshalBinary()
		dst := rlwe.NewCiphertext(p, 1, 1)
		dst.IsBatched = true
		dst.UnmarshalBinary(b)
		fmt.Println("D14  ciphertext without metadata decoded into used receiver: MetaData =", dst.MetaData != nil)
	})
	kgen := rlwe.NewKeyGenerator(p)
	sk := kgen.GenSecretKeyNew()
	try("D15", func() {
		c := kgen.GenRelinearizationKeyNew(sk, rlwe.EvaluationKeyParameters{Compressed: true})
		u := kgen.GenRelinearizationKeyNew(sk)
		b, _ := u.MarshalBinary()
		c.UnmarshalBinary(b)
		b2, _ := c.MarshalBinary()
		fmt.Println("D15  uncompressed key decoded into a receiver that held a compressed one: Seed kept:", c.Seed != nil, "BinarySize", c.BinarySize(), "vs", len(b), "re-marshal equal:", bytes.Equal(b, b2))
		e := kgen.GenEvaluationKeyNew(sk, sk, rlwe.EvaluationKeyParameters{Compressed: true})
		e.Expand(p, nil)
		var w bytes.Buffer
		n, _ := e.WriteTo(&w)
		fmt.Println("D15  expanded key: BinarySize", e.BinarySize(), "WriteTo wrote", n)
	})
	try("D16", func() {
		full := rlwe.NewMemEvaluationKeySet(kgen.GenRelinearizationKeyNew(sk))
		empty := rlwe.NewMemEvaluationKeySet(nil)
		b, _ := empty.MarshalBinary()
		full.UnmarshalBinary(b)
		fmt.Println("D16  key set without rlk decoded into one with rlk: rlk kept:", full.RelinearizationKey != nil)
		g5 := rlwe.NewMemEvaluationKeySet(nil, kgen.GenGaloisKeyNew(5, sk))
		g3 := rlwe.NewMemEvaluationKeySet(nil, kgen.GenGaloisKeyNew(3, sk))
		b, _ = g3.MarshalBinary()
		g5.UnmarshalBinary(b)
		fmt.Println("D17  key set {3} decoded into key set {5}: keys now", g5.GetGaloisKeysList())
	})
	try("D18", func() {
		m := structs.Map[uint64, rlwe.GaloisKey]{}
		var w bytes.Buffer
		n, err := m.WriteTo(&w)
		fmt.Println("D18  empty Map.WriteTo(bytes.Buffer): n =", n, "err =", err, "bytes arrived:", w.Len())
	})
	try("D19", func() {
		lit := rlwe.ParametersLiteral{LogN: 4, LogNthRoot: 7, LogQ: []int{30}}
		b, _ := json.Marshal(lit)
		var l2 rlwe.ParametersLiteral
		json.Unmarshal(b, &l2)
		fmt.Println("D19  ParametersLiteral LogNthRoot 7 ->", l2.LogNthRoot, string(b))
		l3 := rlwe.ParametersLiteral{Xs: ring.Ternary{H: 4}}
		b, _ = json.Marshal(rlwe.ParametersLiteral{LogN: 4, LogQ: []int{30}})
		json.Unmarshal(b, &l3)
		fmt.Println("D19  literal without Xs decoded into one with Xs: Xs =", l3.Xs)
	})
	try("D20", func() {
		bp, err := bgv.NewParametersFromLiteral(bgv.ParametersLiteral{LogN: 4, Q: []uint64{0x3ffffe81, 0x3ffffb41}, PlaintextModulus: 97})
		if err != nil {
			panic(err)
		}
		mb, _ := bp.MarshalBinary()
		var w bytes.Buffer
		n, _ := bp.WriteTo(&w)
		var q bgv.Parameters
		_, err = q.ReadFrom(&w)
		fmt.Println("D20  bgv.Parameters: len(MarshalBinary) =", len(mb), "WriteTo n =", n, "BinarySize =", bp.BinarySize(), "ReadFrom err =", err, "T after ReadFrom =", func() (t uint64) { defer func() { recover() }(); return q.PlaintextModulus() }())
	})
	try("D21", func() {
		ct := rlwe.NewCiphertext(p, 1, 1)
		b, err := json.Marshal(ct)
		fmt.Println("D21  json.Marshal(ciphertext):", len(b), "bytes", err, string(b[:40]))
		json.Unmarshal(b, new(rlwe.Ciphertext))
	})
	try("D22", func() {
		l := bootstrapping.ParametersLiteral{Xs: ring.Ternary{H: 192}}
		b, _ := l.MarshalBinary()
		var l2 bootstrapping.ParametersLiteral
		fmt.Println("D22 ", l2.UnmarshalBinary(b))
	})
	try("D23", func() {
		c := kgen.GenRelinearizationKeyNew(sk, rlwe.EvaluationKeyParameters{Compressed: true})
		b, _ := c.MarshalBinary()
		_, err := new(rlwe.RelinearizationKey).ReadFrom(bufio.NewReaderSize(bytes.NewReader(b), 16))
		fmt.Println("D23  compressed key through bufio.NewReaderSize(r,16):", err)
	})
}
