package main

// E4 fault environments: in-memory io.Reader / io.Writer implementations whose behaviour is fixed by a
// few integers (so that a leaf = one environment and replays exactly).

import (
	"errors"
	"fmt"
	"io"
	"runtime"
	"strings"

	"github.com/tuneinsight/lattigo/v6/utils/buffer"
)

// watchReader behaves exactly like the *buffer.Buffer it wraps (same Size/Peek/Discard/Read results) and
// trips when the decoder keeps calling it without ever obtaining or consuming a byte: that is a decoder
// looping/recursing forever on exhausted input. With a real buffer.Buffer (UnmarshalBinary builds one
// internally) such a loop ends in "fatal error: stack overflow", which no harness can survive or attribute;
// the tripwire turns it into an ordinary observation. 256 consecutive empty calls are far beyond anything a
// terminating decoder does (each field read obtains or discards at least one byte).
type watchReader struct {
	b    *buffer.Buffer
	idle int
}

type noProgress struct{}

func (noProgress) String() string {
	return "decoder made 256 consecutive reader calls that neither returned nor consumed a byte (unbounded loop/recursion on exhausted input)"
}

func (w *watchReader) note(n int) {
	if n > 0 {
		w.idle = 0
		return
	}
	if w.idle++; w.idle > 256 {
		panic(noProgress{})
	}
}

func (w *watchReader) Read(p []byte) (int, error) { n, err := w.b.Read(p); w.note(n); return n, err }
func (w *watchReader) Size() int                  { return w.b.Size() }
func (w *watchReader) Peek(n int) ([]byte, error) {
	s, err := w.b.Peek(n)
	w.note(len(s))
	return s, err
}
func (w *watchReader) Discard(n int) (int, error) { k, err := w.b.Discard(n); w.note(k); return k, err }

// traceReader also behaves exactly like the buffer.Reader it wraps and attributes what happens to the decoder
// function that is consuming the stream at that moment - deterministically, from the call stack of the reader
// calls themselves (nothing here depends on garbage collection, profiles or timing):
//   - owners: which library function (innermost frame outside utils/buffer) consumed each byte range;
//   - allocation jumps: when more than `limit` bytes were allocated between two consecutive reader calls, the
//     function that consumed the preceding bytes (i.e. read the length) is the one that made the allocation;
//     the reader then stops the decode by panicking with an allocEvent.
type traceReader struct {
	r      buffer.Reader
	pos    int
	limit  uint64 // 0: no allocation watch
	mark   uint64
	last   string
	record bool
	segs   []ownerSeg
	idle   int
}

type ownerSeg struct {
	Lo, Hi int // byte range [Lo,Hi) of the encoding
	Fn     string
}

type allocEvent struct {
	site  string
	bytes uint64
}

func (e allocEvent) String() string {
	return fmt.Sprintf("%d MiB allocated by %s between two reads of the stream", e.bytes>>20, e.site)
}

func newTraceReader(r buffer.Reader, limit uint64, record bool) *traceReader {
	t := &traceReader{r: r, limit: limit, record: record}
	if limit > 0 {
		t.mark = heapAllocs()
	}
	return t
}

// decoderFrame: innermost frame of the library outside utils/buffer (whose functions are the primitives every
// decoder reads its fields with).
func decoderFrame() string {
	pcs := make([]uintptr, 48)
	n := runtime.Callers(3, pcs)
	frames := runtime.CallersFrames(pcs[:n])
	for {
		f, more := frames.Next()
		if strings.Contains(f.Function, "tuneinsight/lattigo") && !strings.Contains(f.Function, "/utils/buffer.") {
			return normFunc(f.Function)
		}
		if !more {
			return ""
		}
	}
}

func (t *traceReader) before() {
	if t.limit == 0 {
		return
	}
	if cur := heapAllocs(); cur-t.mark > t.limit {
		panic(allocEvent{site: t.last, bytes: cur - t.mark})
	}
}

func (t *traceReader) after(consumed, got int) {
	if consumed > 0 {
		fn := decoderFrame()
		t.last = fn
		if t.record {
			t.segs = append(t.segs, ownerSeg{t.pos, t.pos + consumed, fn})
		}
		t.pos += consumed
	}
	if got > 0 {
		t.idle = 0
	} else if t.idle++; t.idle > 256 {
		panic(noProgress{})
	}
	if t.limit > 0 {
		t.mark = heapAllocs()
	}
}

func (t *traceReader) Read(p []byte) (int, error) {
	t.before()
	n, err := t.r.Read(p)
	t.after(n, n)
	return n, err
}
func (t *traceReader) Size() int { return t.r.Size() }
func (t *traceReader) Peek(n int) ([]byte, error) {
	t.before()
	s, err := t.r.Peek(n)
	t.after(0, len(s))
	return s, err
}
func (t *traceReader) Discard(n int) (int, error) {
	t.before()
	k, err := t.r.Discard(n)
	t.after(k, k)
	return k, err
}

// ---------------------------------------------------------------------------------------------
// readers

// chunking says how an underlying transport hands out bytes.
type chunking struct {
	name        string
	size        int    // >0: at most `size` bytes per Read; 0: as much as asked
	halves      bool   // first Read returns ceil(len/2) bytes at most, afterwards unrestricted
	eofWithData bool   // the Read that delivers the last byte also returns io.EOF (allowed by io.Reader)
	zeroAt      int    // >=0: one (0,nil) Read is injected when the cursor is at this offset; -1: never
	splitAt     int    // >0: the transport delivers [0,splitAt) first (however much is asked), the rest afterwards
	rnd         uint64 // !=0: chunk sizes 1..17 from a fixed pseudo-random sequence with this seed
}

func (c chunking) class() string {
	switch {
	case c.zeroAt >= 0:
		return "zero-nil-read"
	case c.splitAt > 0:
		return "two-chunks"
	case c.eofWithData && c.size == 0 && !c.halves:
		return "eof-with-data"
	case c.size == 0 && !c.halves:
		return "full"
	default:
		return "short-reads"
	}
}

// chunkReader is a plain io.Reader (it deliberately has no Peek/Discard/Size).
type chunkReader struct {
	data     []byte
	off      int
	ch       chunking
	zeroDone bool
	nReads   int
}

func newChunkReader(data []byte, ch chunking) *chunkReader { return &chunkReader{data: data, ch: ch} }

func (r *chunkReader) Read(p []byte) (int, error) {
	r.nReads++
	if len(p) == 0 {
		return 0, nil
	}
	if r.ch.zeroAt >= 0 && r.off == r.ch.zeroAt && !r.zeroDone {
		r.zeroDone = true
		return 0, nil
	}
	rem := len(r.data) - r.off
	if rem == 0 {
		return 0, io.EOF
	}
	n := len(p)
	if r.ch.size > 0 && n > r.ch.size {
		n = r.ch.size
	}
	if r.ch.splitAt > 0 && r.off < r.ch.splitAt && n > r.ch.splitAt-r.off {
		n = r.ch.splitAt - r.off
	}
	if r.ch.rnd != 0 {
		r.ch.rnd = r.ch.rnd*6364136223846793005 + 1442695040888963407
		if k := int(r.ch.rnd>>59)%17 + 1; n > k {
			n = k
		}
	}
	if r.ch.halves && r.off == 0 {
		if h := (len(r.data) + 1) / 2; n > h {
			n = h
		}
	}
	if n > rem {
		n = rem
	}
	copy(p, r.data[r.off:r.off+n])
	r.off += n
	if r.ch.eofWithData && r.off == len(r.data) {
		return n, io.EOF
	}
	return n, nil
}

// ---------------------------------------------------------------------------------------------
// writers

var errInjected = errors.New("c08: injected write failure")

// plainWriter is an io.Writer and nothing else (no Flush/Available): the library must wrap it and flush.
type plainWriter struct {
	buf    []byte
	failAt int // <0: never fails; else: accepts bytes up to this total, then (partial count, errInjected)
	calls  int
}

func (w *plainWriter) Write(p []byte) (int, error) {
	w.calls++
	if w.failAt < 0 {
		w.buf = append(w.buf, p...)
		return len(p), nil
	}
	room := w.failAt - len(w.buf)
	if room < 0 {
		room = 0
	}
	if len(p) <= room {
		w.buf = append(w.buf, p...)
		return len(p), nil
	}
	w.buf = append(w.buf, p[:room]...)
	return room, errInjected
}
