package main

// E4 fault environments: in-memory io.Reader / io.Writer implementations whose behaviour is fixed by a
// few integers (so that a leaf = one environment and replays exactly).

import (
	"errors"
	"io"

	"github.com/tuneinsight/lattigo/v6/utils/buffer"
)

// watchReader behaves exactly like the *buffer.Buffer it wraps (same Size/Peek/Discard/Read results) and
// trips when the decoder keeps calling it without ever obtaining or consuming a byte: that is a decoder
// looping/recursing forever on exhausted input. With a real buffer.Buffer (UnmarshalBinary builds one
// internally) such a loop ends in "fatal error: stack overflow", which no harness can survive or attribute;
// the tripwire turns it into an ordinary observation. 256 consecutive empty calls are far beyond anything a
// terminating decoder does (each field read obtains or discards at least one byte).
type watchReader struct {
	b    *buffer.Buffer
	idle int
}

type noProgress struct{}

func (noProgress) String() string {
	return "decoder made 256 consecutive reader calls that neither returned nor consumed a byte (unbounded loop/recursion on exhausted input)"
}

func (w *watchReader) note(n int) {
	if n > 0 {
		w.idle = 0
		return
	}
	if w.idle++; w.idle > 256 {
		panic(noProgress{})
	}
}

func (w *watchReader) Read(p []byte) (int, error) { n, err := w.b.Read(p); w.note(n); return n, err }
func (w *watchReader) Size() int                  { return w.b.Size() }
func (w *watchReader) Peek(n int) ([]byte, error) {
	s, err := w.b.Peek(n)
	w.note(len(s))
	return s, err
}
func (w *watchReader) Discard(n int) (int, error) { k, err := w.b.Discard(n); w.note(k); return k, err }

// ---------------------------------------------------------------------------------------------
// readers

// chunking says how an underlying transport hands out bytes.
type chunking struct {
	name        string
	size        int  // >0: at most `size` bytes per Read; 0: as much as asked
	halves      bool // first Read returns ceil(len/2) bytes at most, afterwards unrestricted
	eofWithData bool // the Read that delivers the last byte also returns io.EOF (allowed by io.Reader)
	zeroAt      int  // >=0: one (0,nil) Read is injected when the cursor is at this offset; -1: never
}

func (c chunking) class() string {
	switch {
	case c.zeroAt >= 0:
		return "zero-nil-read"
	case c.eofWithData && c.size == 0 && !c.halves:
		return "eof-with-data"
	case c.size == 0 && !c.halves:
		return "full"
	default:
		return "short-reads"
	}
}

// chunkReader is a plain io.Reader (it deliberately has no Peek/Discard/Size).
type chunkReader struct {
	data     []byte
	off      int
	ch       chunking
	zeroDone bool
	nReads   int
}

func newChunkReader(data []byte, ch chunking) *chunkReader { return &chunkReader{data: data, ch: ch} }

func (r *chunkReader) Read(p []byte) (int, error) {
	r.nReads++
	if len(p) == 0 {
		return 0, nil
	}
	if r.ch.zeroAt >= 0 && r.off == r.ch.zeroAt && !r.zeroDone {
		r.zeroDone = true
		return 0, nil
	}
	rem := len(r.data) - r.off
	if rem == 0 {
		return 0, io.EOF
	}
	n := len(p)
	if r.ch.size > 0 && n > r.ch.size {
		n = r.ch.size
	}
	if r.ch.halves && r.off == 0 {
		if h := (len(r.data) + 1) / 2; n > h {
			n = h
		}
	}
	if n > rem {
		n = rem
	}
	copy(p, r.data[r.off:r.off+n])
	r.off += n
	if r.ch.eofWithData && r.off == len(r.data) {
		return n, io.EOF
	}
	return n, nil
}

// ---------------------------------------------------------------------------------------------
// writers

var errInjected = errors.New("c08: injected write failure")

// plainWriter is an io.Writer and nothing else (no Flush/Available): the library must wrap it and flush.
type plainWriter struct {
	buf    []byte
	failAt int // <0: never fails; else: accepts bytes up to this total, then (partial count, errInjected)
	calls  int
}

func (w *plainWriter) Write(p []byte) (int, error) {
	w.calls++
	if w.failAt < 0 {
		w.buf = append(w.buf, p...)
		return len(p), nil
	}
	room := w.failAt - len(w.buf)
	if room < 0 {
		room = 0
	}
	if len(p) <= room {
		w.buf = append(w.buf, p...)
		return len(p), nil
	}
	w.buf = append(w.buf, p[:room]...)
	return room, errInjected
}
