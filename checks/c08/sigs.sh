#!/bin/sh
# usage: checks/c08/sigs.sh <run-output>   — distinct violation signatures with leaf counts
grep -o 'sig=[^ ]*' "$1" | sort | uniq -c | sort -k2
