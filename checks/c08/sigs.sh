#!/bin/sh
# usage: checks/c08/sigs.sh <run-output> [-m]  — distinct violation signatures (with -m: one example message each)
if [ "$2" = "-m" ]; then
  grep '^  sig=' "$1" | sort -u -t' ' -k3,3 | cut -c1-${COLS:-420}
else
  grep -o 'sig=[^ ]*' "$1" | sort | uniq -c | sort -k2
fi
