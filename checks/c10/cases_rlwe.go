package main

import (
	"fmt"
	"runtime"
	"strings"

	"github.com/tuneinsight/lattigo/v6/core/rlwe"
	"github.com/tuneinsight/lattigo/v6/ring"
	"github.com/tuneinsight/lattigo/v6/ring/ringqp"

	"verif/uni"
)

func try(f func() []byte) (out []byte) {
	defer func() {
		if r := recover(); r != nil {
			out = []byte(fmt.Sprintf("PANIC: %v @ %s", r, panicSite()))
		}
	}()
	return f()
}

func panicSite() string {
	pcs := make([]uintptr, 48)
	n := runtime.Callers(3, pcs)
	fr := runtime.CallersFrames(pcs[:n])
	for {
		f, more := fr.Next()
		if strings.Contains(f.Function, "lattigo") {
			return fmt.Sprintf("%s:%d", f.Function[strings.LastIndex(f.Function, "/")+1:], f.Line)
		}
		if !more {
			return "?"
		}
	}
}

// --- rlwe.Evaluator ---------------------------------------------------------------------------

func rlweEvalOps() []op {
	ev := func(o interface{}) *rlwe.Evaluator { return o.(*rlwe.Evaluator) }
	return []op{
		{"Relinearize", func(e *env, o interface{}) []byte {
			ct := e.testCt("relin", 2, e.p.MaxLevel())
			out := rlwe.NewCiphertext(e.p, 1, e.p.MaxLevel())
			err := ev(o).Relinearize(ct, out)
			return cat(errBytes(err), ctBytes(out))
		}},
		{"Automorphism", func(e *env, o interface{}) []byte {
			ct := e.testCt("auto", 1, e.p.MaxLevel())
			out := rlwe.NewCiphertext(e.p, 1, e.p.MaxLevel())
			err := ev(o).Automorphism(ct, e.galEls[1], out)
			return cat(errBytes(err), ctBytes(out))
		}},
		{"AutomorphismHoisted", func(e *env, o interface{}) []byte {
			if e.p.PCount() == 0 {
				return []byte("n/a without P")
			}
			return try(func() []byte {
				ct := e.testCt("autoh", 1, e.p.MaxLevel()-1)
				out := rlwe.NewCiphertext(e.p, 1, ct.Level())
				evl := ev(o)
				buf := evl.GetBuffDecompQP()
				evl.DecomposeNTT(ct.Level(), e.p.MaxLevelP(), e.p.PCount(), ct.Value[1], ct.IsNTT, buf)
				err := evl.AutomorphismHoisted(ct.Level(), ct, buf, e.galEls[0], out)
				return cat(errBytes(err), ctBytes(out))
			})
		}},
		{"ApplyEvaluationKey", func(e *env, o interface{}) []byte {
			ct := e.testCt("aek", 1, e.p.MaxLevel())
			out := rlwe.NewCiphertext(e.p, 1, e.p.MaxLevel())
			gk, _ := e.evk.GetGaloisKey(e.galEls[0])
			err := ev(o).ApplyEvaluationKey(ct, &gk.EvaluationKey, out)
			return cat(errBytes(err), ctBytes(out))
		}},
		{"InnerSum", func(e *env, o interface{}) []byte {
			if e.p.PCount() == 0 {
				return []byte("n/a without P (hoisted rotations)")
			}
			return try(func() []byte {
				ct := e.testCt("isum", 1, 1)
				out := rlwe.NewCiphertext(e.p, 1, 1)
				err := ev(o).PartialTracesSum(ct, 1, 2, out)
				return cat(errBytes(err), ctBytes(out))
			})
		}},
	}
}

// addGaloisKeys puts every Galois key of the environment into ks (a key set that gains its keys after an
// evaluator was built over it).
func addGaloisKeys(e *env, ks *rlwe.MemEvaluationKeySet) {
	for _, g := range e.galEls {
		gk, _ := e.evk.GetGaloisKey(g)
		ks.GaloisKeys[g] = gk
	}
}

func rlweCases() []copyCase {
	buildEval := func(e *env, cfg string) interface{} {
		switch cfg {
		case "nokeys":
			return rlwe.NewEvaluator(e.p, nil)
		case "latekey":
			// a key set that gains a Galois key after the evaluator was created: the one path that
			// populates the shared automorphism-index map lazily
			ks := rlwe.NewMemEvaluationKeySet(e.evk.RelinearizationKey)
			g0, _ := e.evk.GetGaloisKey(e.galEls[0])
			ks.GaloisKeys[e.galEls[0]] = g0
			ev := rlwe.NewEvaluator(e.p, ks)
			for _, g := range e.galEls[1:] {
				gk, _ := e.evk.GetGaloisKey(g)
				ks.GaloisKeys[g] = gk
			}
			return ev
		case "latekey-from-empty":
			// no Galois key at all when the evaluator is created (its index map exists but is empty), all added afterwards
			ks := rlwe.NewMemEvaluationKeySet(e.evk.RelinearizationKey)
			ev := rlwe.NewEvaluator(e.p, ks)
			addGaloisKeys(e, ks)
			return ev
		}
		return rlwe.NewEvaluator(e.p, e.evk)
	}
	cases := []copyCase{
		{name: "rlwe.Evaluator.ShallowCopy", envKind: "rlwe", kind: shallow, concurrent: true,
			configs: []string{"evk", "nokeys", "latekey", "latekey-from-empty"}, build: buildEval,
			copy: func(e *env, o interface{}) interface{} { return o.(*rlwe.Evaluator).ShallowCopy() },
			ops:  rlweEvalOps()},
		{name: "rlwe.Evaluator.WithKey", envKind: "rlwe", kind: rebind,
			configs: []string{"evk"}, build: buildEval,
			copy:      func(e *env, o interface{}) interface{} { return o.(*rlwe.Evaluator).WithKey(e.evk2) },
			reference: func(e *env, cfg string) interface{} { return rlwe.NewEvaluator(e.p, e.evk2) },
			ops:       rlweEvalOps()},
	}

	// --- Encryptor
	encOps := []op{
		{"EncryptNew", func(e *env, o interface{}) []byte {
			pt := e.ptPoly("enc", e.p.MaxLevel())
			ct, err := o.(*rlwe.Encryptor).EncryptNew(pt)
			if err != nil {
				return errBytes(err)
			}
			md, _ := ct.MetaData.MarshalBinary()
			return cat(e.noiseOK(ct, pt, e.sk), md)
		}},
		{"EncryptZeroNew", func(e *env, o interface{}) []byte {
			ct := o.(*rlwe.Encryptor).EncryptZeroNew(1)
			pt := rlwe.NewPlaintext(e.p, 1)
			return cat(e.noiseOK(ct, pt, e.sk), []byte(fmt.Sprint(ct.Level(), ct.Degree(), ct.IsNTT)))
		}},
	}
	buildEnc := func(e *env, cfg string) interface{} {
		if cfg == "pk" {
			return rlwe.NewEncryptor(e.p, e.pk)
		}
		return rlwe.NewEncryptor(e.p, e.sk)
	}
	cases = append(cases,
		copyCase{name: "rlwe.Encryptor.ShallowCopy", envKind: "rlwe", kind: shallow, concurrent: true,
			configs: []string{"sk", "pk"}, build: buildEnc,
			copy: func(e *env, o interface{}) interface{} { return o.(*rlwe.Encryptor).ShallowCopy() }, ops: encOps},
		copyCase{name: "rlwe.Encryptor.WithKey", envKind: "rlwe", kind: rebind,
			configs: []string{"sk", "pk"}, build: buildEnc,
			// rebinding an encryptor to the *same* logical key material of the other kind
			copy: func(e *env, o interface{}) interface{} {
				return o.(*rlwe.Encryptor).WithKey(e.pk)
			},
			reference: func(e *env, cfg string) interface{} { return rlwe.NewEncryptor(e.p, e.pk) }, ops: encOps},
		copyCase{name: "rlwe.Encryptor.WithPRNG", envKind: "rlwe", kind: rebind,
			configs: []string{"sk", "pk"}, build: buildEnc,
			copy: func(e *env, o interface{}) interface{} {
				return o.(*rlwe.Encryptor).WithPRNG(uni.KeyedPRNG("c10-withprng"))
			},
			reference: func(e *env, cfg string) interface{} {
				// the documented effect: same encryptor with the uniform sampler fed by prng
				return buildEnc(e, cfg).(*rlwe.Encryptor).WithPRNG(uni.KeyedPRNG("c10-withprng"))
			}, ops: encOps},
	)

	// --- Decryptor
	decOps := []op{
		{"DecryptNew", func(e *env, o interface{}) []byte {
			pt := e.ptPoly("dec", e.p.MaxLevel())
			enc := rlwe.NewTestEncryptorWithPRNG(e.p, e.sk, uni.KeyedPRNG("c10-dec"))
			ct, err := enc.EncryptNew(pt)
			if err != nil {
				return errBytes(err)
			}
			return ptBytes(o.(*rlwe.Decryptor).DecryptNew(ct))
		}},
		{"Decrypt-lowlevel", func(e *env, o interface{}) []byte {
			pt := e.ptPoly("dec2", 1)
			enc := rlwe.NewTestEncryptorWithPRNG(e.p, e.sk, uni.KeyedPRNG("c10-dec2"))
			ct, err := enc.EncryptNew(pt)
			if err != nil {
				return errBytes(err)
			}
			out := rlwe.NewPlaintext(e.p, e.p.MaxLevel())
			o.(*rlwe.Decryptor).Decrypt(ct, out)
			return ptBytes(out)
		}},
	}
	cases = append(cases,
		copyCase{name: "rlwe.Decryptor.ShallowCopy", envKind: "rlwe", kind: shallow, concurrent: true, configs: []string{"sk"},
			build: func(e *env, cfg string) interface{} { return rlwe.NewDecryptor(e.p, e.sk) },
			copy:  func(e *env, o interface{}) interface{} { return o.(*rlwe.Decryptor).ShallowCopy() }, ops: decOps},
		copyCase{name: "rlwe.Decryptor.WithKey", envKind: "rlwe", kind: rebind, concurrent: true, configs: []string{"sk"},
			build:     func(e *env, cfg string) interface{} { return rlwe.NewDecryptor(e.p, e.sk) },
			copy:      func(e *env, o interface{}) interface{} { return o.(*rlwe.Decryptor).WithKey(e.sk2) },
			reference: func(e *env, cfg string) interface{} { return rlwe.NewDecryptor(e.p, e.sk2) }, ops: decOps},
	)

	// --- MemEvaluationKeySet.ShallowCopy: used through an evaluator
	cases = append(cases, copyCase{name: "rlwe.MemEvaluationKeySet.ShallowCopy", envKind: "rlwe", kind: shallow, concurrent: true, configs: []string{"full", "norlk"},
		sameObjectOK: true, // read-only key set: ShallowCopy returns the receiver by design ("thread-safe copy")
		build: func(e *env, cfg string) interface{} {
			if cfg == "norlk" {
				var gks []*rlwe.GaloisKey
				for _, g := range e.galEls {
					gk, _ := e.evk.GetGaloisKey(g)
					gks = append(gks, gk)
				}
				return rlwe.NewMemEvaluationKeySet(nil, gks...)
			}
			return e.evk
		},
		copy: func(e *env, o interface{}) interface{} { return o.(*rlwe.MemEvaluationKeySet).ShallowCopy() },
		ops: []op{
			{"GetGaloisKeysList+use", func(e *env, o interface{}) []byte {
				ks := o.(rlwe.EvaluationKeySet)
				out := []byte(fmt.Sprint(sortedU64(ks.GetGaloisKeysList())))
				ev := rlwe.NewEvaluator(e.p, ks)
				ct := e.testCt("ks", 1, e.p.MaxLevel())
				res := rlwe.NewCiphertext(e.p, 1, e.p.MaxLevel())
				err := ev.Automorphism(ct, e.galEls[2], res)
				ct2 := e.testCt("ks2", 2, e.p.MaxLevel())
				res2 := rlwe.NewCiphertext(e.p, 1, e.p.MaxLevel())
				err2 := ev.Relinearize(ct2, res2)
				return cat(out, errBytes(err), ctBytes(res), errBytes(err2), ctBytes(res2))
			}},
		}})

	// --- ring.BasisExtender.ShallowCopy (needs P)
	cases = append(cases, copyCase{name: "ring.BasisExtender.ShallowCopy", envKind: "rlwe", needP: true, kind: shallow, concurrent: true, configs: []string{"qp"},
		build: func(e *env, cfg string) interface{} { return ring.NewBasisExtender(e.p.RingQ(), e.p.RingP()) },
		copy:  func(e *env, o interface{}) interface{} { return o.(*ring.BasisExtender).ShallowCopy() },
		ops: []op{
			{"ModUpQtoP", func(e *env, o interface{}) []byte {
				lq, lp := e.p.MaxLevel(), e.p.MaxLevelP()
				ct := e.testCt("be", 1, lq)
				pp := e.p.RingP().NewPoly()
				o.(*ring.BasisExtender).ModUpQtoP(lq, lp, ct.Value[0], pp)
				b, _ := pp.MarshalBinary()
				return b
			}},
			{"ModDownQPtoQ", func(e *env, o interface{}) []byte {
				lq, lp := e.p.MaxLevel()-1, e.p.MaxLevelP()
				ct := e.testCt("be2", 1, e.p.MaxLevel())
				pp := e.p.RingP().NewPoly()
				for i := range pp.Coeffs {
					for j := range pp.Coeffs[i] {
						pp.Coeffs[i][j] = uint64(j*7919+i) % e.p.P()[i]
					}
				}
				out := e.p.RingQ().NewPoly()
				o.(*ring.BasisExtender).ModDownQPtoQ(lq, lp, ct.Value[0], pp, out)
				out.Resize(lq)
				b, _ := out.MarshalBinary()
				return b
			}},
		}})

	// --- ring.Ring.AtLevel / ringqp.Ring.AtLevel views (documented: safe to use concurrently)
	ringOps := []op{
		{"NTT@1", func(e *env, o interface{}) []byte {
			r := o.(*ring.Ring).AtLevel(1)
			ct := e.testCt("rg", 1, 1)
			out := r.NewPoly()
			r.NTT(ct.Value[0], out)
			r.MulCoeffsBarrett(out, ct.Value[1], out)
			b, _ := out.MarshalBinary()
			return b
		}},
		{"INTT@max", func(e *env, o interface{}) []byte {
			r := o.(*ring.Ring)
			ct := e.testCt("rg2", 1, r.Level())
			out := r.NewPoly()
			r.INTT(ct.Value[0], out)
			b, _ := out.MarshalBinary()
			return b
		}},
	}
	cases = append(cases, copyCase{name: "ring.Ring.AtLevel", envKind: "rlwe", kind: shallow, concurrent: true, configs: []string{"max"},
		build: func(e *env, cfg string) interface{} {
			r, err := ring.NewRing(e.p.N(), e.p.Q())
			if err != nil {
				panic(err)
			}
			return r
		},
		copy: func(e *env, o interface{}) interface{} { r := o.(*ring.Ring); return r.AtLevel(r.MaxLevel()) },
		ops:  ringOps})
	cases = append(cases, copyCase{name: "ringqp.Ring.AtLevel", envKind: "rlwe", needP: true, kind: shallow, concurrent: true, configs: []string{"max"},
		build: func(e *env, cfg string) interface{} { r := *e.p.RingQP(); return &r },
		copy: func(e *env, o interface{}) interface{} {
			r := o.(*ringqp.Ring)
			v := r.AtLevel(r.RingQ.MaxLevel(), r.RingP.MaxLevel())
			return &v
		},
		ops: []op{{"MulCoeffsMontgomery", func(e *env, o interface{}) []byte {
			r := o.(*ringqp.Ring)
			a := r.NewPoly()
			ct := e.testCt("rqp", 1, e.p.MaxLevel())
			a.Q.Copy(ct.Value[0])
			for i := range a.P.Coeffs {
				for j := range a.P.Coeffs[i] {
					a.P.Coeffs[i][j] = uint64(j*31 + i)
				}
			}
			out := r.NewPoly()
			r.MulCoeffsMontgomery(a, a, out)
			b, _ := out.MarshalBinary()
			return b
		}}}})
	return cases
}

func sortedU64(x []uint64) []uint64 {
	y := append([]uint64{}, x...)
	for i := range y {
		for j := i + 1; j < len(y); j++ {
			if y[j] < y[i] {
				y[i], y[j] = y[j], y[i]
			}
		}
	}
	return y
}
