package main

import (
	"bytes"
	"fmt"
	"reflect"
	"regexp"
	"strings"

	"verif/engine"
	"verif/snap"
	"verif/uni"
)

type copyKind int

const (
	shallow copyKind = iota // fresh buffers, shared read-only tables; documented as concurrently usable unless noted
	rebind                  // WithKey / WithPRNG: new key or randomness, buffers shared by design
	deep                    // CopyNew / Copy: nothing shared
)

type op struct {
	name string
	run  func(e *env, obj interface{}) []byte // deterministic given (env, obj state, uni.Seed)
}

type copyCase struct {
	name       string // "rlwe.Evaluator.ShallowCopy"
	envKind    string
	needP      bool // only meaningful with an auxiliary modulus
	kind       copyKind
	concurrent bool // the documentation says original and copy can be used concurrently
	configs    []string
	build      func(e *env, cfg string) interface{}
	copy       func(e *env, orig interface{}) interface{}
	// reference, for rebind copies: the equivalent object built from scratch with the new key
	reference func(e *env, cfg string) interface{}
	ops       []op
	// structural exemptions: regexp on leaf paths that may legitimately differ (documented)
	exempt *regexp.Regexp
	// sameObjectOK: the type is read-only and documents that its "copy" is the object itself
	sameObjectOK bool
}

// PRNG state is expected to differ between an object and its copy (fresh randomness).
var snapOpt = snap.Options{SkipTypes: []string{"*sampling.KeyedPRNG", "sampling.KeyedPRNG", "blake2b.XOF", "*blake2b.xof"}}

func take(name string, obj interface{}) *snap.Snapshot { return snap.Take(snapOpt, name, obj) }

var idxRe = regexp.MustCompile(`\[\d+\]|\{[^}]*\}`)

// normPath makes a leaf path a stable signature component (indices dropped).
func normPath(p string) string {
	p = idxRe.ReplaceAllString(p, "[]")
	if i := strings.Index(p, " ("); i >= 0 {
		p = p[:i] + p[i:]
	}
	if len(p) > 120 {
		p = p[:120]
	}
	return strings.ReplaceAll(p, " ", "_")
}

func filter(paths []string, exempt *regexp.Regexp) []string {
	if exempt == nil {
		return paths
	}
	var r []string
	for _, p := range paths {
		if !exempt.MatchString(p) {
			r = append(r, p)
		}
	}
	return r
}

// scratch memory that an object is documented to own privately is allowed to change when that
// object is used; what must NOT change is memory reachable from *another* object.
func seqScenario(cc copyCase, cfg string, withP bool) engine.Scenario {
	name := fmt.Sprintf("seq/%s/%s/P=%v", cc.name, cfg, withP)
	return engine.Scenario{Name: name, Bound: -1, Fn: func(c *engine.Chooser) {
		nops := len(cc.ops)
		if nops == 0 {
			nops = 1
		}
		oi := c.ChooseFree(nops, "op")
		sig := "C10/" + cc.name + "/"
		e := newEnv(cc.envKind, withP)

		// --- original A: reference behaviour
		uni.Seed(c, name, "build")
		oa := cc.build(e, cfg)
		var rA []byte
		if len(cc.ops) > 0 {
			uni.Seed(c, name, "op")
			rA = cc.ops[oi].run(e, oa)
		}

		if bytes.HasPrefix(rA, []byte("PANIC")) || (cfg != "nokeys" && bytes.HasPrefix(rA, []byte("error:"))) {
			// an admissible operation failing on the ORIGINAL: either a defect or a harness error, never silent
			c.Fail(sig+cc.ops[oi].name+"/fails-on-original", "%s on the original (config %s): %s", cc.ops[oi].name, cfg, short(rA))
			return
		}
		// --- original B and its copy
		uni.Seed(c, name, "build")
		ob := cc.build(e, cfg)
		s0 := take("x", ob)
		cp := cc.copy(e, ob)
		if sameObject(cp, ob) && !cc.sameObjectOK {
			c.Fail(sig+"copy-is-the-receiver-itself", "the copy constructor returned the receiver itself, not a copy")
			return
		}
		s1 := take("x", ob)
		if d := s0.Diff(s1); len(d) > 0 {
			c.Fail(sig+"copying-mutates-original", "taking the copy changed the original at %s", d[0])
			return
		}
		c.Cover("case", cc.name)
		c.Cover("kind", fmt.Sprint(cc.kind))

		// --- structure
		sc := take("x", cp)
		var sd snap.StructDiffResult
		if cc.kind == rebind && cc.reference != nil {
			uni.Seed(c, name, "build")
			ref := cc.reference(e, cfg)
			sd = snap.StructDiff(take("x", ref), sc, "x", "x")
		} else {
			sd = snap.StructDiff(s1, sc, "x", "x")
		}
		if sh := filter(sd.Shape, cc.exempt); len(sh) > 0 {
			c.Fail(sig+"structure"+normPath(sh[0]), "copy differs from original in configuration/shape: %s (%d differences)", strings.Join(first(sh, 4), "; "), len(sh))
		}
		if cc.kind == deep {
			if ct := filter(sd.Content, cc.exempt); len(ct) > 0 {
				c.Fail(sig+"deep-copy-content"+normPath(ct[0]), "deep copy content differs at %s", strings.Join(first(ct, 4), "; "))
			}
			// rlwe.Scale (big.Float mantissa, *big.Int modulus) is treated as an immutable value throughout the
			// library (metadata is copied by struct assignment everywhere): not judged here, see DESIGN §6 C10.
			notScale := func(p string) bool { return !strings.Contains(p, ".Scale.") }
			var ov [][2]string
			for _, o := range s1.Overlaps(sc) {
				if notScale(o[0]) {
					ov = append(ov, o)
				}
			}
			if len(ov) > 0 {
				c.Fail(sig+"deep-copy-aliases"+normPath(ov[0][0]), "deep copy shares memory with the original: %s <-> %s", ov[0][0], ov[0][1])
			}
			// mutate the copy everywhere: the original must not move
			snap.FillSlices(cp, notScale, func(i int) uint64 { return 0xA5A5A5A5A5A5A5A5 ^ uint64(i) })
			if d := s1.Diff(take("x", ob)); len(d) > 0 {
				c.Fail(sig+"deep-copy-mutation-leaks"+normPath(d[0]), "mutating the deep copy changed the original at %s", d[0])
			}
			c.Outcome(name, sd.Shape, sd.Content)
			return
		}
		if len(cc.ops) == 0 {
			c.Outcome(name, sd.Shape)
			return
		}
		o := cc.ops[oi]
		c.Cover("op", cc.name+":"+o.name)

		// --- behaviour of the copy == behaviour of the original
		sOrigBefore := take("x", ob)
		uni.Seed(c, name, "op")
		rC := o.run(e, cp)
		if cc.kind == rebind {
			// compare with the equivalent fresh construction
			uni.Seed(c, name, "build")
			ref := cc.reference(e, cfg)
			uni.Seed(c, name, "op")
			rR := o.run(e, ref)
			if !bytes.Equal(rR, rC) {
				c.Fail(sig+o.name+"/rebound-copy-behaves-differently", "result of %s on the copy differs from the same object built from scratch: %s vs %s", o.name, short(rC), short(rR))
			}
		} else if !bytes.Equal(rA, rC) {
			c.Fail(sig+o.name+"/copy-behaves-differently", "result of %s on the copy differs from the original's: %s vs %s", o.name, short(rC), short(rA))
		}
		// --- using the copy must not touch the original
		if cc.kind == shallow || cc.concurrent {
			// (also for a rebinding copy whose documentation promises reallocated buffers and concurrent use)
			if d := sOrigBefore.Diff(take("x", ob)); len(d) > 0 {
				c.Fail(sig+o.name+"/use-of-copy-writes-original"+normPath(d[0]), "running %s on the copy wrote memory reachable from the original: %s", o.name, strings.Join(first(d, 3), "; "))
			}
			// and symmetrically
			sCopyBefore := take("x", cp)
			uni.Seed(c, name, "op")
			rO := o.run(e, ob)
			if d := sCopyBefore.Diff(take("x", cp)); len(d) > 0 {
				c.Fail(sig+o.name+"/use-of-original-writes-copy"+normPath(d[0]), "running %s on the original wrote memory reachable from the copy: %s", o.name, strings.Join(first(d, 3), "; "))
			}
			if !bytes.Equal(rO, rA) {
				c.Fail(sig+o.name+"/original-changed-by-copy", "the original's result of %s changed after the copy was used: %s vs %s", o.name, short(rO), short(rA))
			}
		} else {
			uni.Seed(c, name, "op")
			rO := o.run(e, ob)
			if !bytes.Equal(rO, rA) {
				c.Fail(sig+o.name+"/original-changed-by-copy", "the original's result of %s changed after the copy was used: %s vs %s", o.name, short(rO), short(rA))
			}
		}
		c.Outcome(name, o.name, rA)
	}}
}

// sameObject: both are pointers to the same object.
func sameObject(a, b interface{}) bool {
	va, vb := reflect.ValueOf(a), reflect.ValueOf(b)
	return va.Kind() == reflect.Ptr && vb.Kind() == reflect.Ptr && va.Pointer() == vb.Pointer()
}

func first(s []string, n int) []string {
	if len(s) > n {
		return s[:n]
	}
	return s
}

func short(b []byte) string {
	if len(b) < 240 && isPrintable(b) {
		return string(b)
	}
	return fmt.Sprintf("%d bytes #%016x", len(b), engine.Hash(b))
}

func isPrintable(b []byte) bool {
	for _, x := range b {
		if x < 32 || x > 126 {
			return false
		}
	}
	return true
}

// concScenario: k threads, thread 0 owns the original, thread t>0 its own copy; each runs a program of
// `plen` operations; EVERY interleaving of whole operations is explored. Oracles: (a) footprint isolation —
// an operation never changes memory reachable from another thread's object (which includes everything
// shared: keys, parameters, rings, tables); (b) every thread's results equal those of its solo run.
// By the reduction lemma of DESIGN §2/E3 (no synchronisation, no inter-thread communication in the
// library) isolation of every operation in every op-granular interleaving implies that all fine-grained
// interleavings are race-free and equivalent to an explored one.
func concScenario(cc copyCase, cfg string, withP bool, threads, plen int) engine.Scenario {
	name := fmt.Sprintf("conc/%s/%s/P=%v/T=%d/L=%d", cc.name, cfg, withP, threads, plen)
	return engine.Scenario{Name: name, Bound: -1, Fn: func(c *engine.Chooser) {
		sig := "C10/" + cc.name + "/schedule/"
		// programs
		prog := make([][]int, threads)
		for t := range prog {
			prog[t] = make([]int, plen)
			for k := range prog[t] {
				prog[t][k] = c.ChooseFree(len(cc.ops), fmt.Sprintf("t%d.op%d", t, k))
			}
		}
		mk := func() (*env, []interface{}) {
			e := newEnv(cc.envKind, withP)
			uni.Seed(c, name, "build")
			objs := make([]interface{}, threads)
			objs[0] = cc.build(e, cfg)
			for t := 1; t < threads; t++ {
				objs[t] = cc.copy(e, objs[0])
			}
			return e, objs
		}
		// solo reference runs
		solo := make([][][]byte, threads)
		for t := 0; t < threads; t++ {
			e, objs := mk()
			for k, oi := range prog[t] {
				uni.Seed(c, name, "op", t, k)
				solo[t] = append(solo[t], cc.ops[oi].run(e, objs[t]))
			}
		}
		// interleaved run
		e, objs := mk()
		pc := make([]int, threads)
		results := make([][][]byte, threads)
		sched := ""
		for {
			var enabled []int
			for t := 0; t < threads; t++ {
				if pc[t] < plen {
					enabled = append(enabled, t)
				}
			}
			if len(enabled) == 0 {
				break
			}
			t := enabled[c.Choose(len(enabled), "sched")]
			sched += fmt.Sprint(t)
			before := make([]*snap.Snapshot, threads)
			for j := 0; j < threads; j++ {
				if j != t {
					before[j] = take("x", objs[j])
				}
			}
			oi := prog[t][pc[t]]
			uni.Seed(c, name, "op", t, pc[t])
			r := cc.ops[oi].run(e, objs[t])
			results[t] = append(results[t], r)
			pc[t]++
			c.State(name, sched)
			for j := 0; j < threads; j++ {
				if j == t {
					continue
				}
				if d := before[j].Diff(take("x", objs[j])); len(d) > 0 {
					c.Fail(sig+cc.ops[oi].name+"/footprint"+normPath(d[0]), "schedule %s: %s by thread %d changed memory reachable from thread %d's object: %s", sched, cc.ops[oi].name, t, j, strings.Join(first(d, 3), "; "))
					return
				}
			}
		}
		for t := 0; t < threads; t++ {
			for k := range results[t] {
				if !bytes.Equal(results[t][k], solo[t][k]) {
					c.Fail(sig+cc.ops[prog[t][k]].name+"/result-differs-from-sequential", "schedule %s: thread %d op %d (%s) gave %s, alone it gives %s", sched, t, k, cc.ops[prog[t][k]].name, short(results[t][k]), short(solo[t][k]))
					return
				}
			}
		}
		c.Cover("conc", cc.name)
		c.Outcome(name, sched)
	}}
}
