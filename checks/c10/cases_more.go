package main

import (
	"fmt"
	"math/big"

	"github.com/tuneinsight/lattigo/v6/core/rlwe"
	"github.com/tuneinsight/lattigo/v6/ring"
	"github.com/tuneinsight/lattigo/v6/ring/ringqp"
	"github.com/tuneinsight/lattigo/v6/utils/bignum"
	"github.com/tuneinsight/lattigo/v6/utils/structs"

	"verif/engine"
	"verif/uni"
)

// moreCases: the remaining copy constructors of the tree (generic containers, arbitrary-precision values,
// samplers rebound to another randomness source).
func engineHash(b []byte) uint64 { return engine.Hash(b) }

func moreCases() []copyCase {
	kgen := func(e *env) *rlwe.KeyGenerator { return rlwe.NewKeyGenerator(e.p) }
	polyBytes := func(p ring.Poly) []byte {
		b, err := p.MarshalBinary()
		if err != nil {
			return errBytes(err)
		}
		return b
	}
	var cs []copyCase
	cs = append(cs,
		copyCase{name: "structs.Matrix[VectorQP].CopyNew", envKind: "rlwe", kind: deep, configs: []string{"default", "pow2"},
			build: func(e *env, cfg string) interface{} {
				p := rlwe.EvaluationKeyParameters{}
				if cfg == "pow2" {
					b := 7
					p.BaseTwoDecomposition = &b
				}
				k := kgen(e).GenEvaluationKeyNew(e.sk, e.sk2, p)
				m := k.Value
				return &m
			},
			copy: func(e *env, o interface{}) interface{} {
				m := o.(*structs.Matrix[rlwe.VectorQP]).CopyNew()
				return &m
			}},
		copyCase{name: "structs.Matrix[uint64].CopyNew", envKind: "rlwe", kind: deep, configs: []string{"ragged"},
			build: func(e *env, cfg string) interface{} {
				m := structs.Matrix[uint64]{{1, 2, 3}, {}, {4}, nil, {5, 6}}
				return &m
			},
			copy: func(e *env, o interface{}) interface{} {
				m := o.(*structs.Matrix[uint64]).CopyNew()
				return &m
			}},
		copyCase{name: "structs.Vector[ring.Poly].CopyNew", envKind: "rlwe", kind: deep, configs: []string{"levels"},
			build: func(e *env, cfg string) interface{} {
				v := structs.Vector[ring.Poly]{e.testCt("v0", 1, e.p.MaxLevel()).Value[0], e.testCt("v1", 1, 0).Value[1], e.testCt("v2", 1, 1).Value[0]}
				return &v
			},
			copy: func(e *env, o interface{}) interface{} {
				v := o.(*structs.Vector[ring.Poly]).CopyNew()
				return &v
			}},
		copyCase{name: "structs.Map[uint64,GaloisKey].CopyNew", envKind: "rlwe", kind: deep, configs: []string{"two", "empty"},
			build: func(e *env, cfg string) interface{} {
				m := structs.Map[uint64, rlwe.GaloisKey]{}
				if cfg == "two" {
					for _, g := range e.galEls[:2] {
						m[g] = kgen(e).GenGaloisKeyNew(g, e.sk)
					}
				}
				return &m
			},
			copy: func(e *env, o interface{}) interface{} { return o.(*structs.Map[uint64, rlwe.GaloisKey]).CopyNew() }},
		copyCase{name: "bignum.Complex.Clone", envKind: "rlwe", kind: deep, configs: []string{"prec53", "prec256", "zero-imag"},
			build: func(e *env, cfg string) interface{} {
				prec := uint(53)
				if cfg == "prec256" {
					prec = 256
				}
				c := &bignum.Complex{new(big.Float).SetPrec(prec).SetFloat64(1.0 / 3), new(big.Float).SetPrec(prec).SetFloat64(-2.75)}
				if cfg == "zero-imag" {
					c[1] = new(big.Float).SetPrec(prec)
				}
				return c
			},
			copy: func(e *env, o interface{}) interface{} { return o.(*bignum.Complex).Clone() }},
		copyCase{name: "bignum.Polynomial.Clone", envKind: "rlwe", kind: deep, configs: []string{"monomial", "chebyshev-odd-sparse"},
			build: func(e *env, cfg string) interface{} {
				if cfg == "monomial" {
					p := bignum.NewPolynomial(bignum.Monomial, []float64{1, -2, 0.5, 3}, nil)
					return &p
				}
				// nil coefficients, interval, odd/even flags set
				p := bignum.NewPolynomial(bignum.Chebyshev, []complex128{0, 1.5, 0, complex(-0.25, 2), 0, 1e-3}, [2]float64{-8, 8})
				p.IsOdd, p.IsEven = true, false
				return &p
			},
			copy: func(e *env, o interface{}) interface{} { p := o.(*bignum.Polynomial).Clone(); return &p }},
	)

	// --- samplers rebound to another source of randomness: WithPRNG must give the sampler one would build from
	// scratch on the same ring with that source, and must leave the receiver (and its stream) alone.
	readQ := []op{
		{"ReadNew", func(e *env, o interface{}) []byte { return polyBytes(o.(*ring.UniformSampler).ReadNew()) }},
		{"Read-twice-lowlevel", func(e *env, o interface{}) []byte {
			s := o.(*ring.UniformSampler)
			p := e.p.RingQ().NewPoly()
			s.AtLevel(0).Read(p)
			a := polyBytes(p)
			s.Read(p)
			return append(a, polyBytes(p)...)
		}},
	}
	qRing := func(e *env, cfg string) *ring.Ring {
		switch cfg {
		case "lowered-ring":
			return e.p.RingQ().AtLevel(1)
		case "N4096":
			r, err := ring.NewRing(4096, uni.Primes(12, 50, 2))
			if err != nil {
				panic(err)
			}
			return r
		}
		return e.p.RingQ()
	}
	cs = append(cs, copyCase{name: "ring.UniformSampler.WithPRNG", envKind: "rlwe", kind: rebind, configs: []string{"full", "lowered-ring", "N4096"},
		build: func(e *env, cfg string) interface{} {
			return ring.NewUniformSampler(uni.KeyedPRNG("c10-us"), qRing(e, cfg))
		},
		copy: func(e *env, o interface{}) interface{} {
			return o.(*ring.UniformSampler).WithPRNG(uni.KeyedPRNG("c10-us-rebound"))
		},
		reference: func(e *env, cfg string) interface{} {
			return ring.NewUniformSampler(uni.KeyedPRNG("c10-us-rebound"), qRing(e, cfg))
		},
		ops: []op{readQ[0]}})
	_ = readQ[1]
	// the rebound sampler must also agree with a constructed one on rings whose rows are larger than the samplers'
	// refill buffers (1024 bytes): Q and P halves draw alternately from one source, so the refill size is observable
	qpRing := func(e *env, cfg string) ringqp.Ring {
		if cfg == "qp" {
			return *e.p.RingQP()
		}
		logN := map[string]int{"qp-N256": 8, "qp-N2048": 11, "qp-N8192": 13}[cfg]
		rq, err := ring.NewRing(1<<logN, uni.Primes(logN, 50, 2))
		if err != nil {
			panic(err)
		}
		rp, err := ring.NewRing(1<<logN, uni.PrimesSkip(logN, 50, 2, 2))
		if err != nil {
			panic(err)
		}
		return ringqp.Ring{RingQ: rq, RingP: rp}
	}
	cs = append(cs, copyCase{name: "ringqp.UniformSampler.WithPRNG", envKind: "rlwe", kind: rebind, configs: []string{"qp", "qp-N256", "qp-N2048", "qp-N8192"},
		build: func(e *env, cfg string) interface{} {
			s := ringqp.NewUniformSampler(uni.KeyedPRNG("c10-usqp"), qpRing(e, cfg))
			return &s
		},
		copy: func(e *env, o interface{}) interface{} {
			s := o.(*ringqp.UniformSampler).WithPRNG(uni.KeyedPRNG("c10-usqp-rebound"))
			return &s
		},
		reference: func(e *env, cfg string) interface{} {
			s := ringqp.NewUniformSampler(uni.KeyedPRNG("c10-usqp-rebound"), qpRing(e, cfg))
			return &s
		},
		ops: []op{{"ReadNew x3", func(e *env, o interface{}) []byte {
			var out []byte
			for k := 0; k < 3; k++ {
				p := o.(*ringqp.UniformSampler).ReadNew()
				b, err := p.MarshalBinary()
				if err != nil {
					return errBytes(err)
				}
				out = append(out, []byte(fmt.Sprintf("Q%d P%d:%016x;", p.LevelQ(), p.LevelP(), engineHash(b)))...)
			}
			return out
		}}}})
	return cs
}
