package main

import (
	"github.com/tuneinsight/lattigo/v6/core/rgsw"
	"github.com/tuneinsight/lattigo/v6/core/rlwe"
	"github.com/tuneinsight/lattigo/v6/ring/ringqp"
	"github.com/tuneinsight/lattigo/v6/utils/structs"

	"verif/uni"
)

// deepCases: CopyNew / Copy of ciphertexts, plaintexts, keys, shares... Each original is built in every
// configuration of its optional fields (compressed keys carry a seed, metadata flags set...).
func deepCases() []copyCase {
	kgen := func(e *env) *rlwe.KeyGenerator { return rlwe.NewKeyGenerator(e.p) }
	evkParams := func(e *env, cfg string) rlwe.EvaluationKeyParameters {
		p := rlwe.EvaluationKeyParameters{}
		switch cfg {
		case "compressed":
			p.Compressed = true
		case "lowlevel":
			lq, lp := 1, 0
			p.LevelQ, p.LevelP = &lq, &lp
		case "pow2":
			b := 7
			p.BaseTwoDecomposition = &b
		}
		return p
	}
	var cs []copyCase
	cs = append(cs,
		copyCase{name: "rlwe.Ciphertext.CopyNew", envKind: "rlwe", kind: deep, configs: []string{"deg1", "deg2-flags"},
			build: func(e *env, cfg string) interface{} {
				if cfg == "deg2-flags" {
					ct := e.testCt("d2", 2, 1)
					ct.IsMontgomery, ct.IsBatched = true, true
					ct.LogDimensions.Rows, ct.LogDimensions.Cols = 1, 3
					ct.Scale = rlwe.NewScale(12345.678)
					return ct
				}
				return e.testCt("d1", 1, e.p.MaxLevel())
			},
			copy: func(e *env, o interface{}) interface{} { return o.(*rlwe.Ciphertext).CopyNew() }},
		copyCase{name: "rlwe.Ciphertext.Copy", envKind: "rlwe", kind: deep, configs: []string{"deg1", "deg2-flags"},
			build: func(e *env, cfg string) interface{} {
				if cfg == "deg2-flags" {
					ct := e.testCt("d2", 2, 1)
					ct.IsMontgomery, ct.IsBatched = true, true
					ct.LogDimensions.Rows, ct.LogDimensions.Cols = 1, 3
					ct.Scale = rlwe.NewScale(12345.678)
					return ct
				}
				return e.testCt("d1", 1, e.p.MaxLevel())
			},
			copy: func(e *env, o interface{}) interface{} {
				src := o.(*rlwe.Ciphertext)
				// a receiver that previously held something else of larger shape
				dst := e.testCt("junk", 2, e.p.MaxLevel())
				dst.Resize(src.Degree(), src.Level())
				dst.Copy(src)
				return dst
			}},
		copyCase{name: "rlwe.Plaintext.CopyNew", envKind: "rlwe", kind: deep, configs: []string{"max", "low"},
			build: func(e *env, cfg string) interface{} {
				l := e.p.MaxLevel()
				if cfg == "low" {
					l = 0
				}
				pt := e.ptPoly("ptc", l)
				pt.IsBatched = true
				pt.Scale = rlwe.NewScale(77)
				return pt
			},
			copy: func(e *env, o interface{}) interface{} { return o.(*rlwe.Plaintext).CopyNew() }},
		copyCase{name: "rlwe.SecretKey.CopyNew", envKind: "rlwe", kind: deep, configs: []string{"sk"},
			build: func(e *env, cfg string) interface{} { return kgen(e).GenSecretKeyNew() },
			copy:  func(e *env, o interface{}) interface{} { return o.(*rlwe.SecretKey).CopyNew() }},
		copyCase{name: "rlwe.PublicKey.CopyNew", envKind: "rlwe", kind: deep, configs: []string{"pk"},
			build: func(e *env, cfg string) interface{} { return kgen(e).GenPublicKeyNew(e.sk) },
			copy:  func(e *env, o interface{}) interface{} { return o.(*rlwe.PublicKey).CopyNew() }},
		copyCase{name: "rlwe.EvaluationKey.CopyNew", envKind: "rlwe", kind: deep, configs: []string{"default", "compressed", "lowlevel", "pow2"},
			build: func(e *env, cfg string) interface{} { return kgen(e).GenEvaluationKeyNew(e.sk, e.sk2, evkParams(e, cfg)) },
			copy:  func(e *env, o interface{}) interface{} { return o.(*rlwe.EvaluationKey).CopyNew() }},
		copyCase{name: "rlwe.RelinearizationKey.CopyNew", envKind: "rlwe", kind: deep, configs: []string{"default", "compressed", "lowlevel", "pow2"},
			build: func(e *env, cfg string) interface{} { return kgen(e).GenRelinearizationKeyNew(e.sk, evkParams(e, cfg)) },
			copy:  func(e *env, o interface{}) interface{} { return o.(*rlwe.RelinearizationKey).CopyNew() }},
		copyCase{name: "rlwe.GaloisKey.CopyNew", envKind: "rlwe", kind: deep, configs: []string{"default", "compressed", "lowlevel", "pow2"},
			build: func(e *env, cfg string) interface{} { return kgen(e).GenGaloisKeyNew(e.galEls[1], e.sk, evkParams(e, cfg)) },
			copy:  func(e *env, o interface{}) interface{} { return o.(*rlwe.GaloisKey).CopyNew() }},
		copyCase{name: "rlwe.GadgetCiphertext.CopyNew", envKind: "rlwe", kind: deep, configs: []string{"default", "pow2"},
			build: func(e *env, cfg string) interface{} {
				k := kgen(e).GenEvaluationKeyNew(e.sk, e.sk2, evkParams(e, cfg))
				return &k.GadgetCiphertext
			},
			copy: func(e *env, o interface{}) interface{} { return o.(*rlwe.GadgetCiphertext).CopyNew() }},
		copyCase{name: "rlwe.VectorQP.CopyNew", envKind: "rlwe", kind: deep, configs: []string{"pk"},
			build: func(e *env, cfg string) interface{} { v := kgen(e).GenPublicKeyNew(e.sk).Value; return &v },
			copy:  func(e *env, o interface{}) interface{} { return o.(*rlwe.VectorQP).CopyNew() }},
		copyCase{name: "rlwe.MetaData.CopyNew", envKind: "rlwe", kind: deep, configs: []string{"flags"},
			build: func(e *env, cfg string) interface{} {
				m := &rlwe.MetaData{}
				m.IsNTT, m.IsMontgomery, m.IsBatched = true, true, true
				m.Scale = rlwe.NewScale(3.25)
				m.LogDimensions.Rows, m.LogDimensions.Cols = 1, 2
				return m
			},
			copy: func(e *env, o interface{}) interface{} { return o.(*rlwe.MetaData).CopyNew() }},
		copyCase{name: "ringqp.Poly.CopyNew", envKind: "rlwe", kind: deep, configs: []string{"qp"},
			build: func(e *env, cfg string) interface{} {
				p := e.p.RingQP().NewPoly()
				s := ringqp.NewUniformSampler(uni.KeyedPRNG("qp"), *e.p.RingQP())
				s.Read(p)
				return &p
			},
			copy: func(e *env, o interface{}) interface{} { return o.(*ringqp.Poly).CopyNew() }},
		copyCase{name: "ring.Poly.CopyNew", envKind: "rlwe", kind: deep, configs: []string{"q"},
			build: func(e *env, cfg string) interface{} { p := e.testCt("rp", 1, 2).Value[0]; return &p },
			copy:  func(e *env, o interface{}) interface{} { ct := e.testCt("rp", 1, 2).Value[0]; _ = ct; return o.(interface{ CopyNew() interface{} }) }},
		copyCase{name: "rgsw.Ciphertext(Vector CopyNew)", envKind: "rlwe", kind: deep, configs: []string{"default"},
			build: func(e *env, cfg string) interface{} {
				ct := rgsw.NewCiphertext(e.p, e.p.MaxLevel(), e.p.MaxLevelP(), 0)
				enc := rgsw.NewEncryptor(e.p, e.sk)
				if err := enc.EncryptZero(ct); err != nil {
					panic(err)
				}
				v := structs.Vector[rlwe.GadgetCiphertext](ct.Value[:])
				return &v
			},
			copy: func(e *env, o interface{}) interface{} {
				v := o.(*structs.Vector[rlwe.GadgetCiphertext]).CopyNew()
				return &v
			}},
	)
	// ring.Poly.CopyNew has a concrete signature; fix the placeholder above
	for i := range cs {
		if cs[i].name == "ring.Poly.CopyNew" {
			cs[i].copy = func(e *env, o interface{}) interface{} { return ringPolyCopyNew(o) }
		}
	}
	return cs
}
