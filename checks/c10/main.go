// C10 — copies are complete, independent and safe to use concurrently.
package main

import (
	"os"
	"strings"
	"time"

	"github.com/tuneinsight/lattigo/v6/ring"

	"verif/engine"
)

func ringPolyCopyNew(o interface{}) interface{} { return o.(*ring.Poly).CopyNew() }

func allCases() []copyCase {
	var cs []copyCase
	cs = append(cs, rlweCases()...)
	for _, cc := range rlweCases() {
		if strings.HasPrefix(cc.name, "rlwe.Decryptor") || strings.HasPrefix(cc.name, "rlwe.Encryptor") || strings.HasPrefix(cc.name, "rlwe.Evaluator") {
			cc.name += "@coef"
			cc.envKind = "rlwe-coef"
			cs = append(cs, cc)
		}
	}
	for _, cc := range schemeCases() {
		if strings.HasPrefix(cc.name, "bgv.") {
			cc.name += "@gap2"
			cc.envKind = "bgv-gap2"
			cs = append(cs, cc)
		}
	}
	cs = append(cs, deepCases()...)
	cs = append(cs, schemeCases()...)
	cs = append(cs, mpCases()...)
	cs = append(cs, btpCases()...)
	cs = append(cs, rpCases()...)
	cs = append(cs, moreCases()...)
	return cs
}

func scenarios(tier string) []engine.Scenario {
	var scs []engine.Scenario
	for _, cc := range allCases() {
		for _, cfg := range cc.configs {
			for _, withP := range []bool{true, false} {
				if cc.needP && !withP {
					continue
				}
				scs = append(scs, seqScenario(cc, cfg, withP))
				if cc.concurrent && cc.kind != deep && len(cc.ops) > 0 {
					scs = append(scs, concScenario(cc, cfg, withP, 2, 1))
					if len(cc.ops) <= 2 || tier == "thorough" {
						scs = append(scs, concScenario(cc, cfg, withP, 2, 2)) // programs of two operations per thread
						scs = append(scs, concScenario(cc, cfg, withP, 3, 1))
					}
					if tier == "thorough" && len(cc.ops) <= 3 {
						scs = append(scs, concScenario(cc, cfg, withP, 3, 2))
					}
				}
			}
		}
	}
	scs = append(scs, racePassScenario())
	return scs
}

func main() {
	if os.Getenv("C10_RACE_CHILD") == "1" {
		raceChildMain()
		return
	}
	engine.Main(engine.Check{
		ID:    "C10",
		Level: "model_checking",
		Rule: "seq/*: one leaf per (copy constructor, configuration of the original, with/without P, operation): structural comparison original vs copy by reflective deep walk, " +
			"behavioural equality under the same seed, independence by snapshot diff. conc/*: k threads (original + copies) × programs × EVERY interleaving of whole operations, " +
			"with the footprint-isolation oracle (no operation changes memory reachable from another thread's object) and equality with solo runs. " +
			"distinct_nontrivial counts distinct (scenario, operation/schedule, result) classes.",
		Assumptions: []string{
			"reduction lemma (DESIGN §2 E3): the library has no synchronisation and no inter-goroutine communication, so footprint isolation of every operation in every op-granular interleaving implies race freedom of all fine-grained interleavings",
			"writes that restore the previous value are invisible to snapshot diffs",
			"WithKey/WithPRNG style copies documented as sharing buffers are excluded from the concurrency and footprint oracles; those documented as concurrently usable (rlwe.Decryptor.WithKey) are judged like shallow copies",
		},
		Scenarios:      scenarios,
		QuickBudget:    150 * time.Second,
		ThoroughBudget: 30 * time.Minute,
	})
}
