package main

import (
	"bytes"
	"fmt"
	"os"
	"os/exec"
	"strconv"
	"strings"
	"sync"

	"verif/engine"
	"verif/uni"
)

// Free-running race-detector pass (supporting evidence, DESIGN §2 E3): the SAME harness bodies as the
// schedule scenarios, but with real goroutines and no scheduler, in a binary built with -race. A cooperative
// exploration cannot see unsynchronised accesses that leave no trace in memory (a scratch word written and
// restored); the race detector can, for the interleavings that happen to occur. A race report is a violation
// (the detector has no false positives); silence proves nothing and is reported as such.

// raceChildMain runs inside the -race binary: for every concurrently usable copy case, `threads` goroutines
// (original + copies) run every operation `reps` times at once.
func raceChildMain() {
	sel := os.Getenv("C10_RACE_ONLY")
	for _, cc := range allCases() {
		if !(cc.concurrent && cc.kind != deep && len(cc.ops) > 0) {
			continue
		}
		if sel != "" && !strings.Contains(cc.name, sel) {
			continue
		}
		for _, cfg := range cc.configs {
			for _, withP := range []bool{true, false} {
				if cc.needP && !withP {
					continue
				}
				fmt.Printf("@case %s/%s/P=%v\n", cc.name, cfg, withP)
				e := newEnv(cc.envKind, withP)
				threads := 4
				if n, _ := strconv.Atoi(os.Getenv("C10_RACE_THREADS")); n > 0 {
					threads = n
				}
				objs := make([]interface{}, threads)
				objs[0] = cc.build(e, cfg)
				for t := 1; t < threads; t++ {
					objs[t] = cc.copy(e, objs[0])
				}
				var wg sync.WaitGroup
				for t := 0; t < threads; t++ {
					wg.Add(1)
					go func(t int) {
						defer wg.Done()
						for r := 0; r < 3; r++ {
							for _, o := range cc.ops {
								_ = o.run(e, objs[t])
							}
						}
					}(t)
				}
				wg.Wait()
			}
		}
	}
	fmt.Println("@done")
}

func racePassScenario() engine.Scenario {
	return engine.Scenario{Name: "racepass/free-running-race-detector", Bound: -1, Fn: func(c *engine.Chooser) {
		uni.Seed(c, "racepass")
		bin := "/verif/bin/c10.race"
		if d := os.Getenv("VERIF_EVIDENCE_DIR"); d != "" {
			bin = d + "/c10.race" // scratch-copy (mutation) runs keep their own binary
			_ = os.MkdirAll(d, 0o755)
		}
		modfile := os.Getenv("VERIF_MODFILE")
		args := []string{"build", "-race", "-tags", "verif", "-o", bin}
		if modfile != "" {
			args = append(args, "-modfile="+modfile)
		}
		args = append(args, "./checks/c10")
		b := exec.Command("go", args...)
		b.Dir = "/verif"
		b.Env = append(os.Environ(), "GOFLAGS=-mod=mod", "GOPROXY=off", "GOSUMDB=off", "GOTOOLCHAIN=local")
		if out, err := b.CombinedOutput(); err != nil {
			c.Skip("race build unavailable: " + firstLine(string(out)))
			return
		}
		r := exec.Command(bin)
		threads := 4
		if c.Tier == "thorough" {
			threads = 16 // the upper end of the property's quantifier (2..16 goroutines)
		}
		r.Env = append(os.Environ(), "C10_RACE_CHILD=1", "GORACE=halt_on_error=0 exitcode=66", "GOMAXPROCS=16", fmt.Sprint("C10_RACE_THREADS=", threads))
		var out bytes.Buffer
		r.Stdout, r.Stderr = &out, &out
		err := r.Run()
		s := out.String()
		cases := strings.Count(s, "@case ")
		c.Count(cases)
		c.Cover("racepass", "ran")
		c.Note("%d (case, config, P) combinations x %d goroutines x 3 repetitions of every operation; supporting evidence only (sampling of schedules)", cases, threads)
		if strings.Contains(s, "WARNING: DATA RACE") {
			// attribute to the case being run when the first report appeared
			idx := strings.Index(s, "WARNING: DATA RACE")
			last := ""
			for _, l := range strings.Split(s[:idx], "\n") {
				if strings.HasPrefix(l, "@case ") {
					last = strings.TrimPrefix(l, "@case ")
				}
			}
			name := last
			if i := strings.Index(name, "/"); i >= 0 {
				name = name[:i]
			}
			rep := s[idx:]
			if len(rep) > 1500 {
				rep = rep[:1500]
			}
			c.Fail("C10/"+name+"/race-detector", "data race reported by the Go race detector while %s was used from %d goroutines (each on its own copy):\n%s", last, threads, rep)
			return
		}
		if err != nil || !strings.Contains(s, "@done") {
			t := s
			if len(t) > 800 {
				t = t[len(t)-800:]
			}
			c.Fail("C10/racepass/child-failed", "race pass did not complete: %v\n%s", err, t)
			return
		}
		c.Outcome("racepass", cases)
	}}
}

func firstLine(s string) string {
	if i := strings.Index(s, "\n"); i >= 0 {
		return s[:i]
	}
	return s
}
