package main

import (
	"fmt"
	"math"

	"github.com/tuneinsight/lattigo/v6/circuits/ckks/bootstrapping"
	"github.com/tuneinsight/lattigo/v6/core/rlwe"
	"github.com/tuneinsight/lattigo/v6/schemes/ckks"
	"github.com/tuneinsight/lattigo/v6/utils"

	"verif/uni"
)

// btpObj bundles a bootstrapping evaluator with what is needed to use it (the evaluator is the object
// under test; the rest is read-only context).
type btpObj struct {
	Eval   *bootstrapping.Evaluator
	params ckks.Parameters
	sk     *rlwe.SecretKey
}

func buildBtp(cfg string) *btpObj {
	lit := ckks.ParametersLiteral{LogN: 8, LogQ: []int{60, 40}, LogP: []int{61}, LogDefaultScale: 40}
	params, err := ckks.NewParametersFromLiteral(lit)
	if err != nil {
		panic(err)
	}
	bl := bootstrapping.ParametersLiteral{LogN: utils.Pointy(params.LogN())}
	if cfg == "dense-noencaps" {
		bl.EphemeralSecretWeight = utils.Pointy(0)
	}
	bp, err := bootstrapping.NewParametersFromLiteral(params, bl)
	if err != nil {
		panic(err)
	}
	// the test suite's size reduction recipe
	bp.SlotsToCoeffsParameters.LogSlots = bp.BootstrappingParameters.LogN() - 1
	bp.CoeffsToSlotsParameters.LogSlots = bp.BootstrappingParameters.LogN() - 1
	bp.Mod1ParametersLiteral.LogMessageRatio += 16 - params.LogN()
	sk := rlwe.NewKeyGenerator(bp.BootstrappingParameters).GenSecretKeyNew()
	keys, _, err := bp.GenEvaluationKeys(sk)
	if err != nil {
		panic(err)
	}
	ev, err := bootstrapping.NewEvaluator(bp, keys)
	if err != nil {
		panic(err)
	}
	return &btpObj{Eval: ev, params: params, sk: sk}
}

func btpCases() []copyCase {
	return []copyCase{{name: "bootstrapping.Evaluator.ShallowCopy", envKind: "rlwe", needP: true, kind: shallow, concurrent: true,
		configs: []string{"sparse-encaps", "dense-noencaps"},
		build:   func(e *env, cfg string) interface{} { return buildBtp(cfg) },
		copy: func(e *env, o interface{}) interface{} {
			b := o.(*btpObj)
			return &btpObj{Eval: b.Eval.ShallowCopy(), params: b.params, sk: b.sk}
		},
		// the key bundle and parameters are shared read-only by design; compare structure below the evaluator only
		ops: []op{{"Bootstrap", func(e *env, o interface{}) []byte {
			return try(func() []byte {
				b := o.(*btpObj)
				ecd := ckks.NewEncoder(b.params)
				v := make([]float64, b.params.MaxSlots())
				for i := range v {
					v[i] = float64(i%16)/16 - 0.5
				}
				pt := ckks.NewPlaintext(b.params, 0)
				if err := ecd.Encode(v, pt); err != nil {
					return errBytes(err)
				}
				ct, err := rlwe.NewTestEncryptorWithPRNG(b.params, b.sk, uni.KeyedPRNG("btp")).EncryptNew(pt)
				if err != nil {
					return errBytes(err)
				}
				out, err := b.Eval.Bootstrap(ct)
				if err != nil {
					return errBytes(err)
				}
				res := make([]float64, b.params.MaxSlots())
				if err := ecd.Decode(rlwe.NewDecryptor(b.params, b.sk).DecryptNew(out), res); err != nil {
					return errBytes(err)
				}
				s := fmt.Sprint("level=", out.Level(), " scale=2^", int(out.Scale.Log2()+0.5), " ")
				for _, x := range res[:16] {
					s += fmt.Sprintf("%v/16 ", math.Round(x*16)) // inputs are multiples of 1/16, precision is ~2^-20
				}
				return []byte(s)
			})
		}}}}}
}

// --- rlwe.RingPackingEvaluator.ShallowCopy -----------------------------------------------------

type rpObj struct {
	Eval   *rlwe.RingPackingEvaluator
	params rlwe.Parameters
}

func rpCases() []copyCase {
	build := func(e *env, cfg string) interface{} {
		p := uni.RLWE(rlwe.ParametersLiteral{LogN: 6, Q: uni.Primes(6, 50, 1), P: uni.PrimesSkip(6, 50, 1, 1), NTTFlag: cfg == "ntt"})
		sk := rlwe.NewKeyGenerator(p).GenSecretKeyNew()
		evkParams := rlwe.EvaluationKeyParameters{LevelQ: utils.Pointy(p.MaxLevelQ()), LevelP: utils.Pointy(p.MaxLevelP())}
		evk := rlwe.RingPackingEvaluationKey{}
		ski, err := evk.GenRingSwitchingKeys(p, sk, 4, evkParams)
		if err != nil {
			panic(err)
		}
		evk.GenRepackEvaluationKeys(evk.Parameters[4], ski[4], evkParams)
		evk.GenRepackEvaluationKeys(evk.Parameters[p.LogN()], ski[p.LogN()], evkParams)
		evk.GenExtractEvaluationKeys(evk.Parameters[4], ski[4], evkParams)
		return &rpObj{Eval: rlwe.NewRingPackingEvaluator(&evk), params: p}
	}
	ct := func(o *rpObj, tag string) *rlwe.Ciphertext {
		c := rlwe.NewCiphertextRandom(uni.KeyedPRNG("rp", tag), o.params, 1, o.params.MaxLevel())
		// Split / Merge only accept NTT-domain operands (coefficient-domain ones are refused with an error since
		// /repo b71926d); the "coef" configuration keeps parameters with NTTFlag=false.
		c.IsNTT = true
		return c
	}
	return []copyCase{{name: "rlwe.RingPackingEvaluator.ShallowCopy", envKind: "rlwe", needP: true, kind: shallow, concurrent: true,
		configs: []string{"ntt", "coef"}, build: build,
		copy: func(e *env, o interface{}) interface{} {
			r := o.(*rpObj)
			return &rpObj{Eval: r.Eval.ShallowCopy(), params: r.params}
		},
		ops: []op{
			{"SplitNew", func(e *env, o interface{}) []byte {
				return try(func() []byte {
					r := o.(*rpObj)
					a, b, err := r.Eval.SplitNew(ct(r, "split"))
					return cat(errBytes(err), ctBytes(a), ctBytes(b))
				})
			}},
			{"SplitNew+MergeNew", func(e *env, o interface{}) []byte {
				return try(func() []byte {
					r := o.(*rpObj)
					a, b, err := r.Eval.SplitNew(ct(r, "split2"))
					if err != nil {
						return errBytes(err)
					}
					m, err := r.Eval.MergeNew(a, b)
					return cat(errBytes(err), ctBytes(m))
				})
			}},
		}}}
}
