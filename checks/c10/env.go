package main

import (
	"bytes"
	"fmt"
	"math/big"

	"github.com/tuneinsight/lattigo/v6/core/rlwe"
	"github.com/tuneinsight/lattigo/v6/ring"
	"github.com/tuneinsight/lattigo/v6/schemes/bgv"
	"github.com/tuneinsight/lattigo/v6/schemes/ckks"
	"github.com/tuneinsight/lattigo/v6/utils/sampling"

	"verif/uni"
)

// env is one tiny context shared by the copy cases of a scenario. It is rebuilt (deterministically)
// for every leaf: live objects are never cloned.
type env struct {
	withP  bool
	p      rlwe.Parameters
	sk     *rlwe.SecretKey
	sk2    *rlwe.SecretKey
	pk     *rlwe.PublicKey
	evk    *rlwe.MemEvaluationKeySet
	evk2   *rlwe.MemEvaluationKeySet // keys for sk2 (rebinding target)
	galEls []uint64

	bgvP bgv.Parameters
	ckkP ckks.Parameters
}

const envSeed = 0xC10C10

// newEnv builds the context under a fixed seed (independent of the leaf's own seed).
func newEnv(kind string, withP bool) *env {
	sampling.VerifSeed(envSeed)
	e := &env{withP: withP}
	logN := 4
	q := uni.Primes(logN, 45, 4)
	var p []uint64
	if withP {
		p = uni.PrimesSkip(logN, 45, 1, 4)
	}
	switch kind {
	case "rlwe":
		e.p = uni.RLWE(rlwe.ParametersLiteral{LogN: logN, Q: q, P: p, NTTFlag: true})
	case "rlwe-coef": // ciphertexts kept in the coefficient domain: exercises the non-NTT branches and their buffers
		e.p = uni.RLWE(rlwe.ParametersLiteral{LogN: logN, Q: q, P: p, NTTFlag: false})
	case "bgv", "bgv-gap2":
		t := uint64(97) // ≡ 1 mod 2N: plaintext ring = ciphertext ring
		if kind == "bgv-gap2" {
			t = 17 // ≡ 1 mod N only: plaintext ring of half the degree (gap 2), the bufB path of the encoder
		}
		bp, err := bgv.NewParametersFromLiteral(bgv.ParametersLiteral{LogN: logN, Q: q, P: p, PlaintextModulus: t})
		if err != nil {
			panic(err)
		}
		e.bgvP = bp
		e.p = bp.Parameters
	case "ckks":
		cp, err := ckks.NewParametersFromLiteral(ckks.ParametersLiteral{LogN: logN, Q: q, P: p, LogDefaultScale: 40})
		if err != nil {
			panic(err)
		}
		e.ckkP = cp
		e.p = cp.Parameters
	case "ckks-ci":
		cp, err := ckks.NewParametersFromLiteral(ckks.ParametersLiteral{LogN: logN, Q: q, P: p, LogDefaultScale: 40, RingType: ring.ConjugateInvariant})
		if err != nil {
			panic(err)
		}
		e.ckkP = cp
		e.p = cp.Parameters
	default:
		panic("env kind " + kind)
	}
	kg := rlwe.NewKeyGenerator(e.p)
	e.sk = kg.GenSecretKeyNew()
	e.sk2 = kg.GenSecretKeyNew()
	e.pk = kg.GenPublicKeyNew(e.sk)
	e.galEls = []uint64{e.p.GaloisElement(1), e.p.GaloisElement(3), e.p.GaloisElement(2)}
	if e.p.RingType() == ring.Standard {
		e.galEls[2] = e.p.GaloisElementOrderTwoOrthogonalSubgroup()
	}
	e.evk = rlwe.NewMemEvaluationKeySet(kg.GenRelinearizationKeyNew(e.sk), kg.GenGaloisKeysNew(e.galEls, e.sk)...)
	e.evk2 = rlwe.NewMemEvaluationKeySet(kg.GenRelinearizationKeyNew(e.sk2), kg.GenGaloisKeysNew(e.galEls, e.sk2)...)
	return e
}

// testCt returns a deterministic degree-`deg` ciphertext (uniform polys; evaluator ops are
// deterministic functions of their input, the content need not be a valid encryption).
func (e *env) testCt(tag string, deg, level int) *rlwe.Ciphertext {
	ct := rlwe.NewCiphertextRandom(uni.KeyedPRNG("c10ct", tag), e.p, deg, level)
	ct.IsNTT = e.p.NTTFlag()
	ct.Scale = e.p.DefaultScale()
	return ct
}

// encOf encrypts a fixed plaintext polynomial under e.sk with a private keyed PRNG.
func (e *env) ptPoly(tag string, level int) *rlwe.Plaintext {
	pt := rlwe.NewPlaintext(e.p, level)
	r := e.p.RingQ().AtLevel(level)
	for i := range pt.Value.Coeffs[:level+1] {
		for j := 0; j < e.p.N(); j++ {
			pt.Value.Coeffs[i][j] = uint64(1000*(j+1)) + uint64(len(tag))
		}
	}
	if pt.IsNTT {
		r.NTT(pt.Value, pt.Value)
	}
	return pt
}

func ctBytes(ct *rlwe.Ciphertext) []byte {
	if ct == nil {
		return []byte("nil")
	}
	b, err := ct.MarshalBinary()
	if err != nil {
		return []byte("marshal-error:" + err.Error())
	}
	return b
}

func ptBytes(pt *rlwe.Plaintext) []byte {
	if pt == nil {
		return []byte("nil")
	}
	b, err := pt.MarshalBinary()
	if err != nil {
		return []byte("marshal-error:" + err.Error())
	}
	return b
}

func cat(parts ...[]byte) []byte { return bytes.Join(parts, []byte{0xfe, 0xfe}) }

func errBytes(err error) []byte {
	if err == nil {
		return []byte("ok")
	}
	return []byte("error:" + err.Error())
}

// noiseOK decrypts ct independently under sk and reports whether it is a valid encryption of pt
// (small noise), as a stable byte string.
func (e *env) noiseOK(ct *rlwe.Ciphertext, pt *rlwe.Plaintext, sk *rlwe.SecretKey) []byte {
	ph := uni.Phase(e.p, ct.El(), sk)
	m := uni.PolyCoeffs(e.p.RingQ(), pt.Value, ct.Level(), pt.IsNTT, pt.IsMontgomery)
	d := uni.SubCentered(ph, m, uni.QAtLevel(e.p, ct.Level()))
	// a valid encryption has noise far below Q (how far depends on the key-switch decomposition in play:
	// without P the RNS digits are as large as a prime); garbage has noise of the size of Q
	Q := uni.QAtLevel(e.p, ct.Level())
	worst := 0
	for _, x := range d {
		if b := new(big.Int).Abs(x).BitLen(); b > worst {
			worst = b
		}
	}
	if worst > Q.BitLen()-40 {
		return []byte(fmt.Sprintf("NOT a valid encryption: noise of %d bits, Q has %d", worst, Q.BitLen()))
	}
	return []byte("valid encryption (noise at least 40 bits below Q)")
}

func bitlen(v int64) int {
	n := 0
	for v > 0 {
		v >>= 1
		n++
	}
	return n
}
