package main

import (
	"fmt"
	"math"
	"sync"

	"github.com/tuneinsight/lattigo/v6/core/rlwe"
	"github.com/tuneinsight/lattigo/v6/multiparty"
	"github.com/tuneinsight/lattigo/v6/multiparty/mpbgv"
	"github.com/tuneinsight/lattigo/v6/multiparty/mpckks"
	"github.com/tuneinsight/lattigo/v6/ring"
	"github.com/tuneinsight/lattigo/v6/schemes/bgv"
	"github.com/tuneinsight/lattigo/v6/schemes/ckks"

	"verif/uni"
)

// skSum returns the ideal secret sk+sk2.
func (e *env) skSum() *rlwe.SecretKey {
	s := rlwe.NewSecretKey(e.p)
	rqp := e.p.RingQP()
	rqp.Add(e.sk.Value, e.sk2.Value, s.Value)
	return s
}

func crs(tag string) multiparty.CRS { return uni.KeyedPRNG("crs", tag) }

// smallPt: plaintext X (one coefficient), NTT form as the parameters dictate.
func (e *env) monomialPt(k int, level int) *rlwe.Plaintext {
	pt := rlwe.NewPlaintext(e.p, level)
	for i := range pt.Value.Coeffs {
		pt.Value.Coeffs[i][k] = 1
	}
	if pt.IsNTT {
		e.p.RingQ().AtLevel(level).NTT(pt.Value, pt.Value)
	}
	return pt
}

func (e *env) encUnder(sk *rlwe.SecretKey, pt *rlwe.Plaintext, tag string) *rlwe.Ciphertext {
	ct, err := rlwe.NewTestEncryptorWithPRNG(e.p, sk, uni.KeyedPRNG("mpenc", tag)).EncryptNew(pt)
	if err != nil {
		panic(err)
	}
	return ct
}

// In every protocol op below, party 0 runs the object under test (original or copy) and party 1 runs
// an independent fresh instance; the result is judged functionally under the ideal secret sk+sk2.
func mpCases() []copyCase {
	var cs []copyCase
	// deliberately NOT the parameters' default error distribution: a copy that rebuilds its sampler from params.Xe() must differ
	noise := ring.DiscreteGaussian{Sigma: 6.4, Bound: 38.4}

	cs = append(cs, copyCase{name: "multiparty.PublicKeyGenProtocol.ShallowCopy", envKind: "rlwe", kind: shallow, concurrent: true, configs: []string{"default"},
		build: func(e *env, cfg string) interface{} { p := multiparty.NewPublicKeyGenProtocol(e.p); return &p },
		copy: func(e *env, o interface{}) interface{} {
			p := o.(*multiparty.PublicKeyGenProtocol).ShallowCopy()
			return &p
		},
		ops: []op{{"2-party CPK", func(e *env, o interface{}) []byte {
			return try(func() []byte {
				p0 := o.(*multiparty.PublicKeyGenProtocol)
				p1 := multiparty.NewPublicKeyGenProtocol(e.p)
				crp := p0.SampleCRP(crs("cpk"))
				s0, s1 := p0.AllocateShare(), p1.AllocateShare()
				p0.GenShare(e.sk, crp, &s0)
				p1.GenShare(e.sk2, crp, &s1)
				p0.AggregateShares(s0, s1, &s0)
				pk := rlwe.NewPublicKey(e.p)
				p0.GenPublicKey(s0, crp, pk)
				pt := e.ptPoly("cpk", e.p.MaxLevel())
				ct, err := rlwe.NewTestEncryptorWithPRNG(e.p, pk, uni.KeyedPRNG("cpkenc")).EncryptNew(pt)
				if err != nil {
					return errBytes(err)
				}
				return e.noiseOK(ct, pt, e.skSum())
			})
		}}}})

	cs = append(cs, copyCase{name: "multiparty.GaloisKeyGenProtocol.ShallowCopy", envKind: "rlwe", kind: shallow, concurrent: true, configs: []string{"default"},
		build: func(e *env, cfg string) interface{} { p := multiparty.NewGaloisKeyGenProtocol(e.p); return &p },
		copy: func(e *env, o interface{}) interface{} {
			p := o.(*multiparty.GaloisKeyGenProtocol).ShallowCopy()
			return &p
		},
		ops: []op{{"2-party GKG + rotate", func(e *env, o interface{}) []byte {
			return try(func() []byte {
				p0 := o.(*multiparty.GaloisKeyGenProtocol)
				p1 := multiparty.NewGaloisKeyGenProtocol(e.p)
				crp := p0.SampleCRP(crs("gkg"))
				s0, s1 := p0.AllocateShare(), p1.AllocateShare()
				g := e.galEls[1]
				if err := p0.GenShare(e.sk, g, crp, &s0); err != nil {
					return errBytes(err)
				}
				if err := p1.GenShare(e.sk2, g, crp, &s1); err != nil {
					return errBytes(err)
				}
				if err := p0.AggregateShares(s0, s1, &s0); err != nil {
					return errBytes(err)
				}
				gk := rlwe.NewGaloisKey(e.p)
				if err := p0.GenGaloisKey(s0, crp, gk); err != nil {
					return errBytes(err)
				}
				pt := e.monomialPt(1, e.p.MaxLevel())
				ct := e.encUnder(e.skSum(), pt, "gkg")
				out := rlwe.NewCiphertext(e.p, 1, e.p.MaxLevel())
				if err := rlwe.NewEvaluator(e.p, rlwe.NewMemEvaluationKeySet(nil, gk)).Automorphism(ct, g, out); err != nil {
					return errBytes(err)
				}
				want := rlwe.NewPlaintext(e.p, e.p.MaxLevel())
				e.p.RingQ().AutomorphismNTT(pt.Value, g, want.Value)
				return e.noiseOK(out, want, e.skSum())
			})
		}}}})

	cs = append(cs, copyCase{name: "multiparty.RelinearizationKeyGenProtocol.ShallowCopy", envKind: "rlwe", kind: shallow, concurrent: true, configs: []string{"default"},
		build: func(e *env, cfg string) interface{} { p := multiparty.NewRelinearizationKeyGenProtocol(e.p); return &p },
		copy: func(e *env, o interface{}) interface{} {
			p := o.(*multiparty.RelinearizationKeyGenProtocol).ShallowCopy()
			return &p
		},
		ops: []op{{"2-party RKG + relinearize", func(e *env, o interface{}) []byte {
			return try(func() []byte {
				p0 := o.(*multiparty.RelinearizationKeyGenProtocol)
				p1 := multiparty.NewRelinearizationKeyGenProtocol(e.p)
				crp := p0.SampleCRP(crs("rkg"))
				e0, r10, r20 := p0.AllocateShare()
				e1, r11, r21 := p1.AllocateShare()
				p0.GenShareRoundOne(e.sk, crp, e0, &r10)
				p1.GenShareRoundOne(e.sk2, crp, e1, &r11)
				p0.AggregateShares(r10, r11, &r10)
				p0.GenShareRoundTwo(e0, e.sk, r10, &r20)
				p1.GenShareRoundTwo(e1, e.sk2, r10, &r21)
				p0.AggregateShares(r20, r21, &r20)
				rlk := rlwe.NewRelinearizationKey(e.p)
				p0.GenRelinearizationKey(r10, r20, rlk)
				// degree-2 ciphertext = tensor of encryptions of X and X^2 under sk+sk2
				s := e.skSum()
				a := e.encUnder(s, e.monomialPt(1, e.p.MaxLevel()), "rkga")
				b := e.encUnder(s, e.monomialPt(2, e.p.MaxLevel()), "rkgb")
				r := e.p.RingQ()
				ct2 := rlwe.NewCiphertext(e.p, 2, e.p.MaxLevel())
				ct2.IsNTT = true
				r.MulCoeffsBarrett(a.Value[0], b.Value[0], ct2.Value[0])
				r.MulCoeffsBarrett(a.Value[0], b.Value[1], ct2.Value[1])
				r.MulCoeffsBarrettThenAdd(a.Value[1], b.Value[0], ct2.Value[1])
				r.MulCoeffsBarrett(a.Value[1], b.Value[1], ct2.Value[2])
				out := rlwe.NewCiphertext(e.p, 1, e.p.MaxLevel())
				if err := rlwe.NewEvaluator(e.p, rlwe.NewMemEvaluationKeySet(rlk)).Relinearize(ct2, out); err != nil {
					return errBytes(err)
				}
				return e.noiseOK(out, e.monomialPt(3, e.p.MaxLevel()), s)
			})
		}}}})

	cs = append(cs, copyCase{name: "multiparty.EvaluationKeyGenProtocol.ShallowCopy", envKind: "rlwe", kind: shallow, concurrent: true, configs: []string{"default"},
		build: func(e *env, cfg string) interface{} { p := multiparty.NewEvaluationKeyGenProtocol(e.p); return &p },
		copy: func(e *env, o interface{}) interface{} {
			p := o.(*multiparty.EvaluationKeyGenProtocol).ShallowCopy()
			return &p
		},
		ops: []op{{"2-party EVK + apply", func(e *env, o interface{}) []byte {
			return try(func() []byte {
				p0 := o.(*multiparty.EvaluationKeyGenProtocol)
				p1 := multiparty.NewEvaluationKeyGenProtocol(e.p)
				crp := p0.SampleCRP(crs("evk"))
				s0, s1 := p0.AllocateShare(), p1.AllocateShare()
				// input key: ideal secret sk+sk2 shared as (sk, sk2); output key: (sk2, sk) -> same ideal secret,
				// re-encryption must preserve the message
				if err := p0.GenShare(e.sk, e.sk2, crp, &s0); err != nil {
					return errBytes(err)
				}
				if err := p1.GenShare(e.sk2, e.sk, crp, &s1); err != nil {
					return errBytes(err)
				}
				if err := p0.AggregateShares(s0, s1, &s0); err != nil {
					return errBytes(err)
				}
				evk := rlwe.NewEvaluationKey(e.p)
				if err := p0.GenEvaluationKey(s0, crp, evk); err != nil {
					return errBytes(err)
				}
				pt := e.monomialPt(1, e.p.MaxLevel())
				ct := e.encUnder(e.skSum(), pt, "evk")
				out := rlwe.NewCiphertext(e.p, 1, e.p.MaxLevel())
				if err := rlwe.NewEvaluator(e.p, nil).ApplyEvaluationKey(ct, evk, out); err != nil {
					return errBytes(err)
				}
				return e.noiseOK(out, pt, e.skSum())
			})
		}}}})

	cs = append(cs, copyCase{name: "multiparty.KeySwitchProtocol.ShallowCopy", envKind: "rlwe", kind: shallow, concurrent: true, configs: []string{"default"},
		build: func(e *env, cfg string) interface{} {
			p, err := multiparty.NewKeySwitchProtocol(e.p, noise)
			if err != nil {
				panic(err)
			}
			return &p
		},
		copy: func(e *env, o interface{}) interface{} {
			p := o.(*multiparty.KeySwitchProtocol).ShallowCopy()
			return &p
		},
		ops: []op{{"2-party decrypt (switch to zero key)", func(e *env, o interface{}) []byte {
			return try(func() []byte {
				p0 := o.(*multiparty.KeySwitchProtocol)
				p1, _ := multiparty.NewKeySwitchProtocol(e.p, noise)
				pt := e.ptPoly("cks", 1)
				ct := e.encUnder(e.skSum(), pt, "cks")
				zero := rlwe.NewSecretKey(e.p)
				s0, s1 := p0.AllocateShare(ct.Level()), p1.AllocateShare(ct.Level())
				p0.GenShare(e.sk, zero, ct, &s0)
				p1.GenShare(e.sk2, zero, ct, &s1)
				if err := p0.AggregateShares(s0, s1, &s0); err != nil {
					return errBytes(err)
				}
				out := rlwe.NewCiphertext(e.p, 1, ct.Level())
				p0.KeySwitch(ct, s0, out)
				return e.noiseOK(out, pt, zero)
			})
		}}}})

	cs = append(cs, copyCase{name: "multiparty.PublicKeySwitchProtocol.ShallowCopy", envKind: "rlwe", kind: shallow, concurrent: true, configs: []string{"default"},
		build: func(e *env, cfg string) interface{} {
			p, err := multiparty.NewPublicKeySwitchProtocol(e.p, noise)
			if err != nil {
				panic(err)
			}
			return &p
		},
		copy: func(e *env, o interface{}) interface{} {
			p := o.(*multiparty.PublicKeySwitchProtocol).ShallowCopy()
			return &p
		},
		ops: []op{{"2-party PCKS to pk", func(e *env, o interface{}) []byte {
			return try(func() []byte {
				p0 := o.(*multiparty.PublicKeySwitchProtocol)
				p1, _ := multiparty.NewPublicKeySwitchProtocol(e.p, noise)
				pt := e.ptPoly("pcks", 1)
				ct := e.encUnder(e.skSum(), pt, "pcks")
				// target: e.pk (secret e.sk)
				s0, s1 := p0.AllocateShare(ct.Level()), p1.AllocateShare(ct.Level())
				p0.GenShare(e.sk, e.pk, ct, &s0)
				p1.GenShare(e.sk2, e.pk, ct, &s1)
				if err := p0.AggregateShares(s0, s1, &s0); err != nil {
					return errBytes(err)
				}
				out := rlwe.NewCiphertext(e.p, 1, ct.Level())
				p0.KeySwitch(ct, s0, out)
				return e.noiseOK(out, pt, e.sk)
			})
		}}}})

	// --- mpbgv: refresh / enc-to-share / share-to-enc / masked transform, judged by decoding
	bgvVec := func(e *env) []uint64 {
		v := make([]uint64, e.bgvP.MaxSlots())
		for i := range v {
			v[i] = uint64(5*i+2) % 97
		}
		return v
	}
	bgvEnc := func(e *env, level int) *rlwe.Ciphertext {
		pt := bgv.NewPlaintext(e.bgvP, level)
		if err := bgv.NewEncoder(e.bgvP).Encode(bgvVec(e), pt); err != nil {
			panic(err)
		}
		return e.encUnder(e.skSum(), pt, "mpbgv")
	}
	bgvDec := func(e *env, ct *rlwe.Ciphertext) []byte {
		out := make([]uint64, e.bgvP.MaxSlots())
		if err := bgv.NewEncoder(e.bgvP).Decode(rlwe.NewDecryptor(e.p, e.skSum()).DecryptNew(ct), out); err != nil {
			return errBytes(err)
		}
		return []byte(fmt.Sprint("level=", ct.Level(), " ", out, " want ", bgvVec(e)))
	}
	cs = append(cs, copyCase{name: "mpbgv.RefreshProtocol.ShallowCopy", envKind: "bgv", kind: shallow, concurrent: true, configs: []string{"default"},
		build: func(e *env, cfg string) interface{} {
			p, err := mpbgv.NewRefreshProtocol(e.bgvP, noise)
			if err != nil {
				panic(err)
			}
			return &p
		},
		copy: func(e *env, o interface{}) interface{} { p := o.(*mpbgv.RefreshProtocol).ShallowCopy(); return &p },
		ops: []op{{"2-party refresh", func(e *env, o interface{}) []byte {
			return try(func() []byte {
				p0 := o.(*mpbgv.RefreshProtocol)
				p1, _ := mpbgv.NewRefreshProtocol(e.bgvP, noise)
				ct := bgvEnc(e, 0)
				max := e.p.MaxLevel()
				crp := p0.SampleCRP(max, crs("bgvrefresh"))
				s0, s1 := p0.AllocateShare(0, max), p1.AllocateShare(0, max)
				if err := p0.GenShare(e.sk, ct, crp, &s0); err != nil {
					return errBytes(err)
				}
				if err := p1.GenShare(e.sk2, ct, crp, &s1); err != nil {
					return errBytes(err)
				}
				if err := p0.AggregateShares(s0, s1, &s0); err != nil {
					return errBytes(err)
				}
				out := rlwe.NewCiphertext(e.p, 1, max)
				if err := p0.Finalize(ct, crp, s0, out); err != nil {
					return errBytes(err)
				}
				return bgvDec(e, out)
			})
		}}}})
	cs = append(cs, copyCase{name: "mpbgv.EncToShareProtocol.ShallowCopy", envKind: "bgv", kind: shallow, concurrent: true, configs: []string{"default"},
		build: func(e *env, cfg string) interface{} {
			p, err := mpbgv.NewEncToShareProtocol(e.bgvP, noise)
			if err != nil {
				panic(err)
			}
			return &p
		},
		copy: func(e *env, o interface{}) interface{} { p := o.(*mpbgv.EncToShareProtocol).ShallowCopy(); return &p },
		ops: []op{{"2-party enc-to-share-to-enc", func(e *env, o interface{}) []byte {
			return try(func() []byte {
				p0 := o.(*mpbgv.EncToShareProtocol)
				p1, _ := mpbgv.NewEncToShareProtocol(e.bgvP, noise)
				q0, _ := mpbgv.NewShareToEncProtocol(e.bgvP, noise)
				q1, _ := mpbgv.NewShareToEncProtocol(e.bgvP, noise)
				ct := bgvEnc(e, 1)
				pub0, pub1 := p0.AllocateShare(1), p1.AllocateShare(1)
				sec0, sec1 := mpbgv.NewAdditiveShare(e.bgvP), mpbgv.NewAdditiveShare(e.bgvP)
				p0.GenShare(e.sk, ct, &sec0, &pub0)
				p1.GenShare(e.sk2, ct, &sec1, &pub1)
				if err := p0.AggregateShares(pub0, pub1, &pub0); err != nil {
					return errBytes(err)
				}
				p0.GetShare(&sec0, pub0, ct, &sec0)
				// back
				max := e.p.MaxLevel()
				crp := q0.SampleCRP(max, crs("bgvs2e"))
				c0, c1 := q0.AllocateShare(max), q1.AllocateShare(max)
				if err := q0.GenShare(e.sk, crp, sec0, &c0); err != nil {
					return errBytes(err)
				}
				if err := q1.GenShare(e.sk2, crp, sec1, &c1); err != nil {
					return errBytes(err)
				}
				if err := q0.AggregateShares(c0, c1, &c0); err != nil {
					return errBytes(err)
				}
				out := rlwe.NewCiphertext(e.p, 1, max)
				if err := q0.GetEncryption(c0, crp, out); err != nil {
					return errBytes(err)
				}
				return bgvDec(e, out)
			})
		}}}})
	cs = append(cs, copyCase{name: "mpbgv.ShareToEncProtocol.ShallowCopy", envKind: "bgv", kind: shallow, concurrent: true, configs: []string{"default"},
		build: func(e *env, cfg string) interface{} {
			p, err := mpbgv.NewShareToEncProtocol(e.bgvP, noise)
			if err != nil {
				panic(err)
			}
			return &p
		},
		copy: func(e *env, o interface{}) interface{} { p := o.(*mpbgv.ShareToEncProtocol).ShallowCopy(); return &p },
		ops: []op{{"2-party share-to-enc", func(e *env, o interface{}) []byte {
			return try(func() []byte {
				q0 := o.(*mpbgv.ShareToEncProtocol)
				q1, _ := mpbgv.NewShareToEncProtocol(e.bgvP, noise)
				// additive shares of the message in the plaintext ring: sec0 = m - r, sec1 = r
				sec0, sec1 := mpbgv.NewAdditiveShare(e.bgvP), mpbgv.NewAdditiveShare(e.bgvP)
				ecd := bgv.NewEncoder(e.bgvP)
				if err := ecd.EncodeRingT(bgvVec(e), e.bgvP.DefaultScale(), sec0.Value); err != nil {
					return errBytes(err)
				}
				rT := e.bgvP.RingT()
				for j := range sec1.Value.Coeffs[0] {
					sec1.Value.Coeffs[0][j] = uint64(j*13+5) % 97
				}
				rT.Sub(sec0.Value, sec1.Value, sec0.Value)
				max := e.p.MaxLevel()
				crp := q0.SampleCRP(max, crs("bgvs2e2"))
				c0, c1 := q0.AllocateShare(max), q1.AllocateShare(max)
				if err := q0.GenShare(e.sk, crp, sec0, &c0); err != nil {
					return errBytes(err)
				}
				if err := q1.GenShare(e.sk2, crp, sec1, &c1); err != nil {
					return errBytes(err)
				}
				if err := q0.AggregateShares(c0, c1, &c0); err != nil {
					return errBytes(err)
				}
				out := rlwe.NewCiphertext(e.p, 1, max)
				if err := q0.GetEncryption(c0, crp, out); err != nil {
					return errBytes(err)
				}
				return bgvDec(e, out)
			})
		}}}})
	cs = append(cs, copyCase{name: "mpbgv.MaskedTransformProtocol.ShallowCopy", envKind: "bgv", kind: shallow, concurrent: true, configs: []string{"default"},
		build: func(e *env, cfg string) interface{} {
			p, err := mpbgv.NewMaskedTransformProtocol(e.bgvP, e.bgvP, noise)
			if err != nil {
				panic(err)
			}
			return &p
		},
		copy: func(e *env, o interface{}) interface{} {
			p := o.(*mpbgv.MaskedTransformProtocol).ShallowCopy()
			return &p
		},
		ops: []op{{"2-party masked transform (x -> 2x+1)", func(e *env, o interface{}) []byte {
			return try(func() []byte {
				p0 := o.(*mpbgv.MaskedTransformProtocol)
				p1, _ := mpbgv.NewMaskedTransformProtocol(e.bgvP, e.bgvP, noise)
				ct := bgvEnc(e, 0)
				max := e.p.MaxLevel()
				crp := p0.SampleCRP(max, crs("bgvmt"))
				tr := &mpbgv.MaskedTransformFunc{Decode: true, Encode: true, Func: func(c []uint64) {
					for i := range c {
						c[i] = (2*c[i] + 1) % 97
					}
				}}
				s0, s1 := p0.AllocateShare(0, max), p1.AllocateShare(0, max)
				if err := p0.GenShare(e.sk, e.sk, ct, crp, tr, &s0); err != nil {
					return errBytes(err)
				}
				if err := p1.GenShare(e.sk2, e.sk2, ct, crp, tr, &s1); err != nil {
					return errBytes(err)
				}
				if err := p0.AggregateShares(s0, s1, &s0); err != nil {
					return errBytes(err)
				}
				out := rlwe.NewCiphertext(e.p, 1, max)
				if err := p0.Transform(ct, tr, crp, s0, out); err != nil {
					return errBytes(err)
				}
				return bgvDec(e, out)
			})
		}}}})

	// --- mpckks refresh / sharing / transform
	ckVec := func(e *env) []float64 {
		v := make([]float64, e.ckkP.MaxSlots())
		for i := range v {
			v[i] = float64(i+1) / 16
		}
		return v
	}
	ckEnc := func(e *env, level int) *rlwe.Ciphertext {
		pt := ckks.NewPlaintext(e.ckkP, level)
		if err := ckks.NewEncoder(e.ckkP).Encode(ckVec(e), pt); err != nil {
			panic(err)
		}
		return e.encUnder(e.skSum(), pt, "mpckks")
	}
	ckDec := func(e *env, ct *rlwe.Ciphertext) []byte {
		out := make([]float64, e.ckkP.MaxSlots())
		if err := ckks.NewEncoder(e.ckkP).Decode(rlwe.NewDecryptor(e.p, e.skSum()).DecryptNew(ct), out); err != nil {
			return errBytes(err)
		}
		// judged to 2^-12: comfortably above noise, far below the message
		s := fmt.Sprint("level=", ct.Level(), " scale=2^", int(ct.Scale.Log2()+0.5), " ")
		for _, x := range out {
			s += fmt.Sprintf("%v/64 ", math.Round(x*64)) // inputs are multiples of 1/16; noise is ~2^-20
		}
		return []byte(s)
	}
	cs = append(cs, copyCase{name: "mpckks.RefreshProtocol.ShallowCopy", envKind: "ckks", kind: shallow, concurrent: true, configs: []string{"default"},
		build: func(e *env, cfg string) interface{} {
			p, err := mpckks.NewRefreshProtocol(e.ckkP, 128, noise)
			if err != nil {
				panic(err)
			}
			return &p
		},
		copy: func(e *env, o interface{}) interface{} { p := o.(*mpckks.RefreshProtocol).ShallowCopy(); return &p },
		ops: []op{{"2-party refresh", func(e *env, o interface{}) []byte {
			return try(func() []byte {
				p0 := o.(*mpckks.RefreshProtocol)
				p1, _ := mpckks.NewRefreshProtocol(e.ckkP, 128, noise)
				minLevel, logBound, ok := mpckks.GetMinimumLevelForRefresh(128, e.ckkP.DefaultScale(), 2, e.ckkP.Q())
				if !ok {
					return []byte("n/a: not enough levels for refresh")
				}
				ct := ckEnc(e, minLevel)
				max := e.p.MaxLevel()
				crp := p0.SampleCRP(max, crs("ckrefresh"))
				s0, s1 := p0.AllocateShare(minLevel, max), p1.AllocateShare(minLevel, max)
				if err := p0.GenShare(e.sk, logBound, ct, crp, &s0); err != nil {
					return errBytes(err)
				}
				if err := p1.GenShare(e.sk2, logBound, ct, crp, &s1); err != nil {
					return errBytes(err)
				}
				if err := p0.AggregateShares(&s0, &s1, &s0); err != nil {
					return errBytes(err)
				}
				out := rlwe.NewCiphertext(e.p, 1, max)
				if err := p0.Finalize(ct, crp, s0, out); err != nil {
					return errBytes(err)
				}
				return ckDec(e, out)
			})
		}}}})
	// full 2-party enc-to-share-to-enc round with party 0 using the given protocol objects (nil = fresh ones)
	ckE2S2E := func(e *env, p0 *mpckks.EncToShareProtocol, q0 *mpckks.ShareToEncProtocol) []byte {
		return try(func() []byte {
			if p0 == nil {
				p, _ := mpckks.NewEncToShareProtocol(e.ckkP, noise)
				p0 = &p
			}
			if q0 == nil {
				q, _ := mpckks.NewShareToEncProtocol(e.ckkP, noise)
				q0 = &q
			}
			p1, _ := mpckks.NewEncToShareProtocol(e.ckkP, noise)
			q1, _ := mpckks.NewShareToEncProtocol(e.ckkP, noise)
			minLevel, logBound, ok := mpckks.GetMinimumLevelForRefresh(128, e.ckkP.DefaultScale(), 2, e.ckkP.Q())
			if !ok {
				return []byte("n/a: not enough levels")
			}
			ct := ckEnc(e, minLevel)
			ls := e.ckkP.LogMaxSlots()
			pub0, pub1 := p0.AllocateShare(minLevel), p1.AllocateShare(minLevel)
			sec0, sec1 := mpckks.NewAdditiveShare(e.ckkP, ls), mpckks.NewAdditiveShare(e.ckkP, ls)
			if err := p0.GenShare(e.sk, logBound, ct, &sec0, &pub0); err != nil {
				return errBytes(err)
			}
			if err := p1.GenShare(e.sk2, logBound, ct, &sec1, &pub1); err != nil {
				return errBytes(err)
			}
			if err := p0.AggregateShares(pub0, pub1, &pub0); err != nil {
				return errBytes(err)
			}
			p0.GetShare(&sec0, pub0, ct, &sec0)
			max := e.p.MaxLevel()
			crp := q0.SampleCRP(max, crs("cks2e"))
			c0, c1 := q0.AllocateShare(max), q1.AllocateShare(max)
			if err := q0.GenShare(e.sk, crp, ct.MetaData, sec0, &c0); err != nil {
				return errBytes(err)
			}
			if err := q1.GenShare(e.sk2, crp, ct.MetaData, sec1, &c1); err != nil {
				return errBytes(err)
			}
			if err := q0.AggregateShares(c0, c1, &c0); err != nil {
				return errBytes(err)
			}
			out := rlwe.NewCiphertext(e.p, 1, max)
			*out.MetaData = *ct.MetaData
			if err := q0.GetEncryption(c0, crp, out); err != nil {
				return errBytes(err)
			}
			return ckDec(e, out)
		})
	}
	cs = append(cs, copyCase{name: "mpckks.EncToShareProtocol.ShallowCopy", envKind: "ckks", kind: shallow, concurrent: true, configs: []string{"default"},
		build: func(e *env, cfg string) interface{} {
			p, err := mpckks.NewEncToShareProtocol(e.ckkP, noise)
			if err != nil {
				panic(err)
			}
			return &p
		},
		copy: func(e *env, o interface{}) interface{} { p := o.(*mpckks.EncToShareProtocol).ShallowCopy(); return &p },
		ops: []op{{"2-party enc-to-share-to-enc", func(e *env, o interface{}) []byte {
			return ckE2S2E(e, o.(*mpckks.EncToShareProtocol), nil)
		}}}})
	cs = append(cs, copyCase{name: "mpckks.ShareToEncProtocol.ShallowCopy", envKind: "ckks", kind: shallow, concurrent: true, configs: []string{"default"},
		build: func(e *env, cfg string) interface{} {
			p, err := mpckks.NewShareToEncProtocol(e.ckkP, noise)
			if err != nil {
				panic(err)
			}
			return &p
		},
		copy: func(e *env, o interface{}) interface{} { p := o.(*mpckks.ShareToEncProtocol).ShallowCopy(); return &p },
		ops: []op{{"2-party enc-to-share-to-enc", func(e *env, o interface{}) []byte {
			return ckE2S2E(e, nil, o.(*mpckks.ShareToEncProtocol))
		}}}})
	// ckOut: the OUTPUT parameters of the masked-transformation protocols. Config "outscale": same ring and chain, another
	// default scale (2^34 instead of 2^40), so that a copy that derives its scale from the input parameters differs.
	ckOut := func(e *env, cfg string) ckks.Parameters {
		if cfg != "outscale" {
			return e.ckkP
		}
		po, err := ckks.NewParametersFromLiteral(ckks.ParametersLiteral{LogN: e.ckkP.LogN(), Q: e.ckkP.Q(), P: e.ckkP.P(), LogDefaultScale: 34})
		if err != nil {
			panic(err)
		}
		return po
	}
	ckDecWith := func(e *env, po ckks.Parameters, ct *rlwe.Ciphertext) []byte {
		out := make([]float64, po.MaxSlots())
		if err := ckks.NewEncoder(po).Decode(rlwe.NewDecryptor(po.Parameters, e.skSum()).DecryptNew(ct), out); err != nil {
			return errBytes(err)
		}
		s := fmt.Sprint("level=", ct.Level(), " scale=2^", int(ct.Scale.Log2()+0.5), " ")
		for _, x := range out {
			s += fmt.Sprintf("%v/64 ", math.Round(x*64))
		}
		return []byte(s)
	}
	// object -> config it was built with (harness bookkeeping only; guarded: the race pass builds copies in goroutines)
	var mltMu sync.Mutex
	mltMap := map[*mpckks.MaskedLinearTransformationProtocol]string{}
	mltSet := func(p *mpckks.MaskedLinearTransformationProtocol, cfg string) {
		mltMu.Lock()
		mltMap[p] = cfg
		mltMu.Unlock()
	}
	mltGet := func(p *mpckks.MaskedLinearTransformationProtocol) string {
		mltMu.Lock()
		defer mltMu.Unlock()
		return mltMap[p]
	}
	cs = append(cs, copyCase{name: "mpckks.MaskedLinearTransformationProtocol.ShallowCopy", envKind: "ckks", kind: shallow, concurrent: true, configs: []string{"default", "outscale"},
		build: func(e *env, cfg string) interface{} {
			p, err := mpckks.NewMaskedLinearTransformationProtocol(e.ckkP, ckOut(e, cfg), 128, noise)
			if err != nil {
				panic(err)
			}
			mltSet(&p, cfg)
			return &p
		},
		copy: func(e *env, o interface{}) interface{} {
			p := o.(*mpckks.MaskedLinearTransformationProtocol).ShallowCopy()
			mltSet(&p, mltGet(o.(*mpckks.MaskedLinearTransformationProtocol)))
			return &p
		},
		ops: []op{{"2-party masked transform (identity)", func(e *env, o interface{}) []byte {
			return try(func() []byte {
				p0 := o.(*mpckks.MaskedLinearTransformationProtocol)
				po := ckOut(e, mltGet(p0))
				p1, _ := mpckks.NewMaskedLinearTransformationProtocol(e.ckkP, po, 128, noise)
				minLevel, logBound, ok := mpckks.GetMinimumLevelForRefresh(128, e.ckkP.DefaultScale(), 2, e.ckkP.Q())
				if !ok {
					return []byte("n/a: not enough levels")
				}
				ct := ckEnc(e, minLevel)
				max := e.p.MaxLevel()
				crp := p0.SampleCRP(max, uni.KeyedPRNG("ckmt"))
				s0, s1 := p0.AllocateShare(minLevel, max), p1.AllocateShare(minLevel, max)
				if err := p0.GenShare(e.sk, e.sk, logBound, ct, crp, nil, &s0); err != nil {
					return errBytes(err)
				}
				if err := p1.GenShare(e.sk2, e.sk2, logBound, ct, crp, nil, &s1); err != nil {
					return errBytes(err)
				}
				if err := p0.AggregateShares(&s0, &s1, &s0); err != nil {
					return errBytes(err)
				}
				out := rlwe.NewCiphertext(e.p, 1, max)
				if err := p0.Transform(ct, nil, crp, s0, out); err != nil {
					return errBytes(err)
				}
				return ckDecWith(e, po, out)
			})
		}}, {"WithParams then 2-party transform", func(e *env, o interface{}) []byte {
			return try(func() []byte {
				p0 := o.(*mpckks.MaskedLinearTransformationProtocol).WithParams(e.ckkP)
				p1, _ := mpckks.NewMaskedLinearTransformationProtocol(e.ckkP, e.ckkP, 128, noise)
				minLevel, logBound, ok := mpckks.GetMinimumLevelForRefresh(128, e.ckkP.DefaultScale(), 2, e.ckkP.Q())
				if !ok {
					return []byte("n/a: not enough levels")
				}
				ct := ckEnc(e, minLevel)
				max := e.p.MaxLevel()
				crp := p0.SampleCRP(max, uni.KeyedPRNG("ckmt2"))
				s0, s1 := p0.AllocateShare(minLevel, max), p1.AllocateShare(minLevel, max)
				if err := p0.GenShare(e.sk, e.sk, logBound, ct, crp, nil, &s0); err != nil {
					return errBytes(err)
				}
				if err := p1.GenShare(e.sk2, e.sk2, logBound, ct, crp, nil, &s1); err != nil {
					return errBytes(err)
				}
				if err := p0.AggregateShares(&s0, &s1, &s0); err != nil {
					return errBytes(err)
				}
				out := rlwe.NewCiphertext(e.p, 1, max)
				if err := p0.Transform(ct, nil, crp, s0, out); err != nil {
					return errBytes(err)
				}
				return ckDec(e, out)
			})
		}}}})
	return cs
}
