package main

import (
	"fmt"

	"github.com/tuneinsight/lattigo/v6/core/rgsw"
	"github.com/tuneinsight/lattigo/v6/core/rlwe"
	"github.com/tuneinsight/lattigo/v6/ring"
	"github.com/tuneinsight/lattigo/v6/schemes/bgv"
	"github.com/tuneinsight/lattigo/v6/schemes/ckks"

	"verif/uni"
)

// ciphertexts for scheme evaluators are genuine encryptions of distinct slot vectors (so that
// relinearisation, rescaling and rotations act on meaningful data); encryption uses a private keyed PRNG.
func (e *env) bgvCt(tag string, level int) *rlwe.Ciphertext {
	ecd := bgv.NewEncoder(e.bgvP)
	pt := bgv.NewPlaintext(e.bgvP, level)
	v := make([]uint64, e.bgvP.MaxSlots())
	for i := range v {
		v[i] = uint64(3*i+len(tag)+1) % e.bgvP.PlaintextModulus()
	}
	if err := ecd.Encode(v, pt); err != nil {
		panic(err)
	}
	ct, err := rlwe.NewTestEncryptorWithPRNG(e.p, e.sk, uni.KeyedPRNG("bgvct", tag)).EncryptNew(pt)
	if err != nil {
		panic(err)
	}
	return ct
}

func (e *env) ckksCt(tag string, level int) *rlwe.Ciphertext {
	ecd := ckks.NewEncoder(e.ckkP)
	pt := ckks.NewPlaintext(e.ckkP, level)
	v := make([]float64, e.ckkP.MaxSlots())
	for i := range v {
		v[i] = float64(i+1)/8 + float64(len(tag))
	}
	if err := ecd.Encode(v, pt); err != nil {
		panic(err)
	}
	ct, err := rlwe.NewTestEncryptorWithPRNG(e.p, e.sk, uni.KeyedPRNG("ckksct", tag)).EncryptNew(pt)
	if err != nil {
		panic(err)
	}
	return ct
}

func resBytes(ct *rlwe.Ciphertext, err error) []byte { return cat(errBytes(err), ctBytes(ct)) }

func bgvEvalOps() []op {
	ev := func(o interface{}) *bgv.Evaluator { return o.(*bgv.Evaluator) }
	return []op{
		{"MulRelinNew+Rescale", func(e *env, o interface{}) []byte {
			return try(func() []byte {
				a, b := e.bgvCt("a", e.p.MaxLevel()), e.bgvCt("bb", e.p.MaxLevel())
				r, err := ev(o).MulRelinNew(a, b)
				if err != nil {
					return errBytes(err)
				}
				err = ev(o).Rescale(r, r)
				return cat(resBytes(r, err), []byte(fmt.Sprint("scaleInvariant=", ev(o).ScaleInvariant)))
			})
		}},
		{"AddNew(ct,vector)", func(e *env, o interface{}) []byte {
			return try(func() []byte {
				a := e.bgvCt("a", 1)
				return resBytes(ev(o).AddNew(a, []uint64{1, 2, 3, 96, 97, 98}))
			})
		}},
		{"MulNew(ct,pt)", func(e *env, o interface{}) []byte {
			return try(func() []byte {
				a := e.bgvCt("a", 2)
				pt := bgv.NewPlaintext(e.bgvP, 2)
				_ = bgv.NewEncoder(e.bgvP).Encode([]uint64{5, 6, 7, 8}, pt)
				return resBytes(ev(o).MulNew(a, pt))
			})
		}},
		{"RotateColumnsNew", func(e *env, o interface{}) []byte {
			return try(func() []byte { return resBytes(ev(o).RotateColumnsNew(e.bgvCt("r", e.p.MaxLevel()), 3)) })
		}},
		{"RotateRowsNew", func(e *env, o interface{}) []byte {
			return try(func() []byte { return resBytes(ev(o).RotateRowsNew(e.bgvCt("rr", 1))) })
		}},
	}
}

func ckksEvalOps() []op {
	ev := func(o interface{}) *ckks.Evaluator { return o.(*ckks.Evaluator) }
	return []op{
		{"MulRelinNew+Rescale", func(e *env, o interface{}) []byte {
			return try(func() []byte {
				a, b := e.ckksCt("a", e.p.MaxLevel()), e.ckksCt("bb", e.p.MaxLevel())
				r, err := ev(o).MulRelinNew(a, b)
				if err != nil {
					return errBytes(err)
				}
				err = ev(o).Rescale(r, r)
				return resBytes(r, err)
			})
		}},
		{"AddNew(ct,complex)", func(e *env, o interface{}) []byte {
			return try(func() []byte { return resBytes(ev(o).AddNew(e.ckksCt("a", 1), complex(1.5, -2.25))) })
		}},
		{"MulNew(ct,vector)", func(e *env, o interface{}) []byte {
			return try(func() []byte { return resBytes(ev(o).MulNew(e.ckksCt("a", 2), []float64{1, 2, 3, 4.5})) })
		}},
		{"RotateNew", func(e *env, o interface{}) []byte {
			return try(func() []byte { return resBytes(ev(o).RotateNew(e.ckksCt("r", e.p.MaxLevel()), 3)) })
		}},
		{"ConjugateNew", func(e *env, o interface{}) []byte {
			if e.p.RingType() != ring.Standard {
				return []byte("n/a in the conjugate-invariant ring")
			}
			return try(func() []byte { return resBytes(ev(o).ConjugateNew(e.ckksCt("c", 1))) })
		}},
	}
}

func schemeCases() []copyCase {
	var cs []copyCase
	buildBgv := func(e *env, cfg string) interface{} {
		if cfg == "latekeys" {
			// Galois keys added to the key set after the evaluator was created (none present at creation)
			ks := rlwe.NewMemEvaluationKeySet(e.evk.RelinearizationKey)
			ev := bgv.NewEvaluator(e.bgvP, ks, false)
			addGaloisKeys(e, ks)
			return ev
		}
		return bgv.NewEvaluator(e.bgvP, e.evk, cfg == "scale-invariant")
	}
	cs = append(cs,
		copyCase{name: "bgv.Evaluator.ShallowCopy", envKind: "bgv", kind: shallow, concurrent: true,
			configs: []string{"bgv", "scale-invariant", "latekeys"}, build: buildBgv,
			copy: func(e *env, o interface{}) interface{} { return o.(*bgv.Evaluator).ShallowCopy() }, ops: bgvEvalOps()},
		copyCase{name: "bgv.Evaluator.WithKey", envKind: "bgv", kind: rebind,
			configs: []string{"bgv", "scale-invariant"}, build: buildBgv,
			// rebinding to the same key set: must behave exactly like the original
			copy:      func(e *env, o interface{}) interface{} { return o.(*bgv.Evaluator).WithKey(e.evk) },
			reference: func(e *env, cfg string) interface{} { return buildBgv(e, cfg) }, ops: bgvEvalOps()},
		copyCase{name: "bgv.Encoder.ShallowCopy", envKind: "bgv", kind: shallow, concurrent: true, configs: []string{"default"},
			build: func(e *env, cfg string) interface{} { return bgv.NewEncoder(e.bgvP) },
			copy:  func(e *env, o interface{}) interface{} { return o.(*bgv.Encoder).ShallowCopy() },
			ops: []op{
				{"Encode+Decode", func(e *env, o interface{}) []byte {
					return try(func() []byte {
						ecd := o.(*bgv.Encoder)
						pt := bgv.NewPlaintext(e.bgvP, 1)
						v := []int64{-1, 2, -3, 48, -48, 96, 1 << 40}
						if err := ecd.Encode(v, pt); err != nil {
							return errBytes(err)
						}
						out := make([]uint64, e.bgvP.MaxSlots())
						err := ecd.Decode(pt, out)
						return cat(ptBytes(pt), errBytes(err), []byte(fmt.Sprint(out)))
					})
				}},
				{"Encode-coeffs", func(e *env, o interface{}) []byte {
					return try(func() []byte {
						ecd := o.(*bgv.Encoder)
						pt := bgv.NewPlaintext(e.bgvP, 2)
						pt.IsBatched = false
						if err := ecd.Encode([]uint64{1, 2, 3, 4, 5}, pt); err != nil {
							return errBytes(err)
						}
						out := make([]int64, e.bgvP.N())
						err := ecd.Decode(pt, out)
						return cat(ptBytes(pt), errBytes(err), []byte(fmt.Sprint(out)))
					})
				}},
			}},
	)
	for _, kind := range []string{"ckks", "ckks-ci"} {
		kind := kind
		buildCk := func(e *env, cfg string) interface{} {
			if cfg == "latekeys" {
				ks := rlwe.NewMemEvaluationKeySet(e.evk.RelinearizationKey)
				ev := ckks.NewEvaluator(e.ckkP, ks)
				addGaloisKeys(e, ks)
				return ev
			}
			return ckks.NewEvaluator(e.ckkP, e.evk)
		}
		cs = append(cs,
			copyCase{name: kind + ".Evaluator.ShallowCopy", envKind: kind, kind: shallow, concurrent: true,
				configs: []string{"default", "latekeys"}, build: buildCk,
				copy: func(e *env, o interface{}) interface{} { return o.(*ckks.Evaluator).ShallowCopy() }, ops: ckksEvalOps()},
			copyCase{name: kind + ".Evaluator.WithKey", envKind: kind, kind: rebind,
				configs: []string{"default"}, build: buildCk,
				copy:      func(e *env, o interface{}) interface{} { return o.(*ckks.Evaluator).WithKey(e.evk) },
				reference: func(e *env, cfg string) interface{} { return buildCk(e, cfg) }, ops: ckksEvalOps()},
			copyCase{name: kind + ".Encoder.ShallowCopy", envKind: kind, kind: shallow, concurrent: true, configs: []string{"prec53", "prec128"},
				build: func(e *env, cfg string) interface{} {
					if cfg == "prec128" {
						return ckks.NewEncoder(e.ckkP, 128)
					}
					return ckks.NewEncoder(e.ckkP)
				},
				copy: func(e *env, o interface{}) interface{} { return o.(*ckks.Encoder).ShallowCopy() },
				ops: []op{
					{"Encode+Decode", func(e *env, o interface{}) []byte {
						return try(func() []byte {
							ecd := o.(*ckks.Encoder)
							pt := ckks.NewPlaintext(e.ckkP, 1)
							v := []float64{0.5, -1.25, 3, 1e-3}
							if err := ecd.Encode(v, pt); err != nil {
								return errBytes(err)
							}
							out := make([]float64, e.ckkP.MaxSlots())
							err := ecd.Decode(pt, out)
							return cat(ptBytes(pt), errBytes(err), []byte(fmt.Sprintf("%.6f prec=%d", out, ecd.Prec())))
						})
					}},
					{"Encode-sparse", func(e *env, o interface{}) []byte {
						return try(func() []byte {
							ecd := o.(*ckks.Encoder)
							pt := ckks.NewPlaintext(e.ckkP, 2)
							pt.LogDimensions.Cols = 1
							if err := ecd.Encode([]float64{7, -9}, pt); err != nil {
								return errBytes(err)
							}
							out := make([]float64, 2)
							err := ecd.Decode(pt, out)
							return cat(ptBytes(pt), errBytes(err), []byte(fmt.Sprintf("%.6f", out)))
						})
					}},
				}},
		)
	}
	// --- rgsw
	rgswOps := []op{
		{"ExternalProduct", func(e *env, o interface{}) []byte {
			return try(func() []byte {
				g := rgsw.NewCiphertext(e.p, e.p.MaxLevel(), e.p.MaxLevelP(), 0)
				enc := rgsw.NewEncryptor(e.p, e.sk)
				pt := e.ptPoly("g", e.p.MaxLevel())
				// deterministic RGSW encryption
				enc.Encryptor = rlwe.NewTestEncryptorWithPRNG(e.p, e.sk, uni.KeyedPRNG("rgsw"))
				if err := enc.Encrypt(pt, g); err != nil {
					return errBytes(err)
				}
				ct := e.testCt("xp", 1, e.p.MaxLevel())
				out := rlwe.NewCiphertext(e.p, 1, e.p.MaxLevel())
				o.(*rgsw.Evaluator).ExternalProduct(ct, g, out)
				return ctBytes(out)
			})
		}},
		{"Automorphism", func(e *env, o interface{}) []byte {
			return try(func() []byte {
				ct := e.testCt("ra", 1, e.p.MaxLevel())
				out := rlwe.NewCiphertext(e.p, 1, e.p.MaxLevel())
				err := o.(*rgsw.Evaluator).Automorphism(ct, e.galEls[0], out)
				return resBytes(out, err)
			})
		}},
	}
	cs = append(cs,
		copyCase{name: "rgsw.Evaluator.ShallowCopy", envKind: "rlwe", kind: shallow, concurrent: true, configs: []string{"evk"},
			build: func(e *env, cfg string) interface{} { return rgsw.NewEvaluator(e.p, e.evk) },
			copy:  func(e *env, o interface{}) interface{} { return o.(*rgsw.Evaluator).ShallowCopy() }, ops: rgswOps},
		copyCase{name: "rgsw.Evaluator.WithKey", envKind: "rlwe", kind: rebind, configs: []string{"evk"},
			build:     func(e *env, cfg string) interface{} { return rgsw.NewEvaluator(e.p, e.evk) },
			copy:      func(e *env, o interface{}) interface{} { return o.(*rgsw.Evaluator).WithKey(e.evk2) },
			reference: func(e *env, cfg string) interface{} { return rgsw.NewEvaluator(e.p, e.evk2) }, ops: rgswOps},
		copyCase{name: "rgsw.Encryptor.ShallowCopy", envKind: "rlwe", kind: shallow, concurrent: true, configs: []string{"sk", "pk"},
			build: func(e *env, cfg string) interface{} {
				if cfg == "pk" {
					return rgsw.NewEncryptor(e.p, e.pk)
				}
				return rgsw.NewEncryptor(e.p, e.sk)
			},
			copy: func(e *env, o interface{}) interface{} { return o.(*rgsw.Encryptor).ShallowCopy() },
			ops: []op{{"Encrypt+ExternalProduct", func(e *env, o interface{}) []byte {
				return try(func() []byte {
					g := rgsw.NewCiphertext(e.p, e.p.MaxLevel(), e.p.MaxLevelP(), 0)
					// RGSW plaintext: the monomial X (so that the product is a visible shift)
					pt := rlwe.NewPlaintext(e.p, e.p.MaxLevel())
					for i := range pt.Value.Coeffs {
						pt.Value.Coeffs[i][1] = 1
					}
					e.p.RingQ().NTT(pt.Value, pt.Value)
					if err := o.(*rgsw.Encryptor).Encrypt(pt, g); err != nil {
						return errBytes(err)
					}
					// use it: external product with a fresh encryption of a known message must decrypt to X·m
					m := e.ptPoly("m", e.p.MaxLevel())
					ct, err := rlwe.NewTestEncryptorWithPRNG(e.p, e.sk, uni.KeyedPRNG("rgswm")).EncryptNew(m)
					if err != nil {
						return errBytes(err)
					}
					out := rlwe.NewCiphertext(e.p, 1, e.p.MaxLevel())
					rgsw.NewEvaluator(e.p, nil).ExternalProduct(ct, g, out)
					want := rlwe.NewPlaintext(e.p, e.p.MaxLevel())
					r := e.p.RingQ()
					tmp := r.NewPoly()
					r.INTT(m.Value, tmp)
					r.MultByMonomial(tmp, 1, want.Value)
					r.NTT(want.Value, want.Value)
					return e.noiseOK(out, want, e.sk)
				})
			}}}},
	)
	return cs
}
