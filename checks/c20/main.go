// C20 — RGSW external products and blind rotations compute the encrypted look-up.
//
// Files: rgswref.go (reference decryption of gadget rows, worst-case noise bound), extprod.go (external
// product over chain shapes × decompositions × levels × messages), rgswalg.go (RGSW add / (X^a−1) multiply,
// plaintext-side encodings, NoiseRGSWCiphertext), blindrot.go + brkeys.go (blind rotation over every grid
// point, recording key set).
package main

import (
	"time"

	"verif/engine"
)

func scenarios(tier string) []engine.Scenario {
	var scs []engine.Scenario
	scs = append(scs, extProdScenarios(tier)...)
	scs = append(scs, rgswAlgScenarios(tier)...)
	scs = append(scs, brScenarios(tier)...)
	return scs
}

func main() {
	engine.Main(engine.Check{
		ID:    "C20",
		Level: "exploration",
		Rule:  "TODO",
		Assumptions: []string{
			"TODO",
		},
		Scenarios:      scenarios,
		QuickBudget:    150 * time.Second,
		ThoroughBudget: 25 * time.Minute,
		Expect: func(tier string) []string {
			return []string{"path=32bit", "path=noP", "path=singleP", "path=multipleP"}
		},
	})
}
