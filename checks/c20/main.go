// C20 — RGSW external products and blind rotations compute the encrypted look-up.
//
// Files: rgswref.go (reference decryption of gadget rows, worst-case noise bound, harness-side RGSW builder),
// extprod.go (external product over chain shapes × decompositions × levels × messages), rgswalg.go (RGSW
// encryption rows, NoiseRGSWCiphertext, RGSW add / (X^a−1) multiply), blindrot.go + brkeys.go (blind rotation
// over every grid point, slot subsets, recording key set, key generation).
package main

import (
	"time"

	"verif/engine"
)

func scenarios(tier string) []engine.Scenario {
	var scs []engine.Scenario
	// interleave the families so that the round-robin distribution gives every worker a similar mix
	fam := [][]engine.Scenario{brScenarios(tier), extProdScenarios(tier), rgswAlgScenarios(tier), rgswPtScenarios(tier)}
	for i := 0; ; i++ {
		any := false
		for _, f := range fam {
			if i < len(f) {
				scs = append(scs, f[i])
				any = true
			}
		}
		if !any {
			break
		}
	}
	return scs
}

func main() {
	engine.Main(engine.Check{
		ID:    "C20",
		Level: "exploration",
		Rule: "extprod/: one scenario per (Q-chain shape, #P, levelQ, levelP, base-two decomposition, NTT flag), one leaf per class of RGSW plaintext g " +
			"(0, 1, −1, every X^a, every X^a−1, ternary); a leaf multiplies every RLWE message (0, every X^i, every ⌊Q/4⌋X^i, ramp) by every g of the class, out of place and in place, " +
			"and compares the independently computed phase with phase(in)·g under a worst-case noise bound derived from the decomposition. " +
			"rgswenc/ and rgswalg/: every row of RGSW ciphertexts (fresh, summed, multiplied by X^a−1 for all 2N exponents) is decrypted against the gadget definition; NoiseRGSWCiphertext is compared with that decryption. " +
			"blindrot/: one scenario per (LWE ring, BR ring, key/path variant, Hamming weight, interval, slot pattern); full-slot patterns walk the whole 2N-point circle three times so that every grid point meets sign, identity and a fixed table; " +
			"the subsets pattern requests every subset of size ≤ 2 of four slot indices. Each rotation is judged on the constant coefficient (property), on being a rotation of the look-up (mechanism) and on the exponent prescribed by the documented modulus switch. " +
			"Phase 2: extprod/*-p61 chains with 8–12 primes and up to 3 auxiliary primes at every (levelQ, levelP) (digit counts on both sides of the lazy-accumulation margins); " +
			"extlevels/: RLWE ciphertext above the RGSW level, output in place / fresh at either level, result read at the RGSW level; exthistory/: one evaluator through a sequence of products of different levels, #P and decompositions, bit-compared with a fresh evaluator; " +
			"blindrot/ additionally: equal ring degrees, asymmetric intervals with f(a) ≠ −f(b), non-prefix slot triples, LWE samples with two moduli at both levels, keys generated below the top level, every Evaluate of the subsets pattern replayed on a fresh evaluator and bit-compared; " +
			"size thresholds: single LWE moduli of 55 and 60 bits (x·2N_BR beyond 64 bits) against N_BR = 32..512, judged by the documented modulus switch computed with big integers; thorough: N_BR up to 2048 and LWE dimension up to 1024 (slot patterns 'spread' = 4·N_LWE grid points spread over the circle, 'mini' = three small slot sets). " +
			"rgswpt/: rgsw.NewPlaintext / rlwe.NewGadgetPlaintext for every operand kind (uint64, int64, *ring.Poly, ring.Poly by value; other kinds must be refused with an error) × base two × (levelQ, levelP): operand intact, the same operand used for a second plaintext at another decomposition, no memory shared, each plaintext judged through RGSW(0)+pt (rows and product); rgswenc-rlwe/: the rlwe-ciphertext branch of rgsw.Encryptor.Encrypt / EncryptZero. " +
			"brhistory/: every ordered sequence of 2 (thorough: 3) calls from an alphabet of call shapes (LWE level of a 2- or 3-modulus chain, slot map and test-polynomial set, key set generated at the top / middle / bottom level, and refused calls: missing Galois key, test polynomial with too few moduli, sample above the ring) on one blindrot.Evaluator, each call bit-compared at the key level with a fresh evaluator; exthistory/ also interleaves calls the rgsw.Evaluator cannot serve. " +
			"brgrow/: evaluation with exactly the Galois keys a reference run requested, then with a key set that gained the remaining keys on the same evaluator. " +
			"distinct_nontrivial counts (path, plaintext class, noise magnitude) resp. (variant, function, inside/outside, exact-hit) classes.",
		Assumptions: []string{
			"RLWE ciphertext, RGSW ciphertext and output are at the same level; RGSW plaintexts are small (ternary or X^a−1); P primes are at least as large as Q primes",
			"noise bounds use the truncation bound of the declared error distribution (rows of fresh keys) and the digit ranges of the decomposition; configurations whose worst-case bound exceeds Q/4 (resp. scale/8 for blind rotations) are counted as out of scope, not judged",
			"where the library's own RGSW encryption is malformed (no auxiliary modulus: finding C20/rgsw/Encrypt/row-noise/levelP=-1) evaluators are judged on textbook RGSW ciphertexts built by the harness; the malformed encryption is judged in rgswenc/ and brkeys/",
			"coefficient-domain RLWE inputs: the documentation is silent on the domain of the result, both readings are accepted",
			"blind rotation: inputs x are encoded as k·Q_LWE/2N_BR for grid index k (|k| ≤ N_BR/2 ↔ [a,b]); at the upper end point b both f(b) and the negacyclic value −f(a) are accepted; " +
				"the drift window is 1/2 + 3h/2 grid steps (rounding of b, rounding and odd-forcing of the h mask coefficients that meet a non-zero secret coefficient) plus one discretisation step; " +
				"within that window of a or b the negacyclic continuation of the look-up is accepted (InitTestPolynomial: the interval should take the drift into account)",
			"RLWE ciphertext above the RGSW level: ExternalProduct works at the RGSW level and does not resize its output; the result is read on the first levelQ+1 moduli. A ciphertext below the RGSW level is not supported by the code (panics): recorded, not judged. Likewise blind-rotation results are read at the level of the keys",
			"the algorithm's window is w=10: the expected Galois key set is {5^1..5^10, −5}",
		},
		Scenarios:      scenarios,
		QuickBudget:    150 * time.Second,
		ThoroughBudget: 25 * time.Minute,
		Expect: func(tier string) []string {
			e := []string{
				"path=32bit", "path=noP", "path=singleP", "path=multipleP",
				"g=zero", "g=one", "g=minus-one", "g=monomial", "g=monomial-minus-one", "g=ternary",
				"shape=q28lo", "shape=q28hi", "shape=q56lo", "shape=q56hi", "shape=q3mix", "shape=q29lo",
				"pw2=0", "pw2=7", "pw2=16", "nP=0", "nP=1", "nP=2", "ntt=true", "ntt=false",
				"rgsw-source=library",
				"rgswenc=levelP=-1", "rgswenc=levelP>=0",
				"pt-encoding=coeff", "pt-encoding=ntt", "pt-encoding=ntt+mont", "pt-encoding=coeff+mont", "pt-encoding=nil",
				"rgswalg=AddLazy(ct)", "rgswalg=AddLazy(pt)", "rgswalg=MulByXPowAlphaMinusOneLazy", "rgswalg=MulByXPowAlphaMinusOneThenAddLazy",
				"br-variant=singleP", "br-variant=32bit", "br-variant=noP", "br-variant=multipleP",
				"br-pair=16,32", "br-pair=16,64", "br-pair=32,128",
				"br-h=1", "br-h=2", "br-h=N/4", "br-h=N/2",
				"br-interval=[-1,1]", "br-interval=[-4,4]",
				"br-slots=full", "br-slots=subs",
				"br-rotation=uniquely-identified",
				"x=inside", "x=outside", "x=a", "x=b", "x=0",
				"brkeys=singleP", "brkeys=32bit", "brkeys=noP", "brkeys=multipleP",
				// phase 2 axes
				"shape=q10x30-p61", "shape=q12x45-p61", "shape=q8x61-p61", "shape=q12x61-p61", "nP=3", "pw2=1",
				"extlevels=noP/inplace", "extlevels=singleP/inplace", "extlevels=multipleP/inplace",
				"extlevels=noP/fresh@ctLevel", "extlevels=singleP/fresh@ctLevel", "extlevels=noP/fresh@rgswLevel", "extlevels=singleP/fresh@rgswLevel",
				"exthistory=q3mix", "exthistory=q28lo", "exthistory=q8x61-p61", "exthistory=q10x30-p61",
				"br-pair=16,16", "br-pair=32,32", "br-interval=[-1,3]", "br-history=reused-vs-fresh",
				"br-variant=multipleP-lwe2@1", "br-variant=multipleP-lwe2@0", "br-variant=multipleP-lowkeys", "br-variant=singleP-lowkeys",
				"br-variant=singleP-flip", "br-variant=32bit-flip", "br-variant=noP-flip", "br-variant=multipleP-flip", "br-variant=singleP-pw2=16",
				"brgrow=singleP", "brgrow=32bit", "brgrow=noP", "brgrow=multipleP", "brgrow=multipleP-lowkeys", "brgrow=multipleP-lwe2@1",
			}
			e = append(e, "br-variant=singleP-lwe60", "br-variant=singleP-lwe55", "br-variant=multipleP-lwe60", "br-pair=16,512",
				"br-slots=spre", "br-slots=mini", "modswitch-product=x*2N>=2^64")
			e = append(e, "rgswpt-kind=uint64", "rgswpt-kind=int64", "rgswpt-kind=*ring.Poly", "rgswpt-kind=ring.Poly", "rgswpt-kind=refused-kinds",
				"rgswpt=32bit", "rgswpt=noP", "rgswpt=singleP", "rgswpt=multipleP", "rgswenc-rlwe=EncryptZero", "rgswenc-rlwe=Encrypt")
			e = append(e, "brhistory=lwe2-br2", "brhistory=lwe3-br3", "brhistory=lwe3-br2", "brhistory-refused=error", "brhistory-refused=panic",
				"exthistory-refused=panic", "br-variant=multipleP3-lwe3@0", "br-variant=multipleP3-lwe3@1", "br-variant=multipleP3-lwe3@2")
			if tier == "thorough" {
				e = append(e, "br-pair=16,1024", "br-pair=16,2048", "br-pair=256,512", "br-pair=1024,1024", "br-pair=1024,2048")
				e = append(e, "br-interval=[0,2]")
			}
			return e
		},
	})
}
