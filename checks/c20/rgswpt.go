// rgsw.NewPlaintext / rlwe.NewGadgetPlaintext over every operand kind × decomposition × (levelQ, levelP):
// operand left intact, the same operand used twice, no memory shared between operand and plaintext, refused kinds
// refused, every plaintext judged by the product oracle (RGSW(0) + pt multiplies like g). Also the non-RGSW branch of
// rgsw.Encryptor.EncryptZero / Encrypt.
package main

import (
	"fmt"
	"math/big"

	"github.com/tuneinsight/lattigo/v6/core/rgsw"
	"github.com/tuneinsight/lattigo/v6/core/rlwe"
	"github.com/tuneinsight/lattigo/v6/ring"

	"verif/engine"
	"verif/ref"
	"verif/uni"
)

var ptKinds = []string{"uint64", "int64", "*ring.Poly", "ring.Poly", "refused-kinds"}

func polyEqual(a, b ring.Poly, level int) bool {
	for i := 0; i <= level; i++ {
		for j := range a.Coeffs[i] {
			if a.Coeffs[i][j] != b.Coeffs[i][j] {
				return false
			}
		}
	}
	return true
}

func rgswPtScenario(e epConfig) engine.Scenario {
	name := "rgswpt" + e.name()[len("extprod"):]
	return engine.Scenario{Name: name, Bound: -1, Fn: func(c *engine.Chooser) {
		params := e.sh.params(e.np, e.ntt)
		n := params.N()
		kind := c.Choose(len(ptKinds), "operand-kind")
		uni.Seed(c, name, kind)
		sk := rlwe.NewKeyGenerator(params).GenSecretKeyNew()
		s, sNorm1 := secretInts(params, sk)
		rqp := params.RingQP().AtLevel(e.levelQ, e.levelP)
		Be := big.NewInt(int64(params.NoiseBound()))
		Q := uni.QAtLevel(params, e.levelQ)
		enc := rlwe.NewEncryptor(params, sk)
		eval := rgsw.NewEvaluator(params, nil)
		c.Cover("rgswpt-kind", ptKinds[kind])

		if ptKinds[kind] == "refused-kinds" {
			// operand kinds outside the documented list must be refused with an error (not a panic, not a plaintext)
			for _, bad := range []interface{}{int(3), int32(3), []uint64{1, 2}, "1", nil, 1.5} {
				err, pan := uni.Try(func() error {
					pt, err := rgsw.NewPlaintext(params, bad, e.levelQ, e.levelP, e.pw2)
					if err == nil && pt != nil {
						return nil
					}
					if err == nil {
						return fmt.Errorf("nil plaintext without error")
					}
					return err
				})
				switch {
				case pan != nil:
					c.Fail("C20/rgsw/NewPlaintext/unsupported-kind/panic", "%s value of type %T: %v", name, bad, pan)
				case err == nil:
					c.Fail("C20/rgsw/NewPlaintext/unsupported-kind/accepted", "%s value of type %T was accepted", name, bad)
				default:
					c.Cover("rejected", fmt.Sprintf("NewPlaintext(%T)", bad))
				}
			}
			c.Count(6)
			return
		}

		// judge: RGSW(0) + pt must have rows decrypting to want, and multiply like want
		short := digitsShort(params, e.levelQ, e.levelP, 0)
		judge := func(what string, pt *rgsw.Plaintext, pw2 int, want []int64) {
			zero, _ := wellFormedRGSW(params, sk, s, e.levelQ, e.levelP, pw2, make([]int64, n), c.Seed^uint64(len(what)))
			rgsw.AddLazy(pt, rqp, zero)
			rgsw.Reduce(zero, rqp, zero)
			if _, rowMax := rgswErrs(params, zero, s, want); rowMax.Cmp(Be) > 0 {
				c.Fail("C20/rgsw/NewPlaintext/"+ptKinds[kind]+"/rows", "%s %s: RGSW(0)+plaintext has a row off by 2^%d: the plaintext is not the gadget image of the operand", name, what, rowMax.BitLen())
				return
			}
			bound := extProdBound(params, zero, Be, sNorm1)
			if short || digitsShort(params, e.levelQ, e.levelP, pw2) || new(big.Int).Lsh(bound, 2).Cmp(Q) >= 0 {
				return
			}
			m := make([]*big.Int, n)
			for i := range m {
				m[i] = big.NewInt(int64(i+1) * 7654321)
			}
			m[2].Rsh(Q, 2)
			ct := rlwe.NewCiphertext(params, 1, e.levelQ)
			if err := enc.Encrypt(newPlaintext(params, e.levelQ, m), ct); err != nil {
				panic(err)
			}
			phIn := uni.Phase(params, &ct.Element, sk)
			eval.ExternalProduct(ct, zero, ct)
			diff := uni.SubCentered(uni.Phase(params, &ct.Element, sk), centerAll(mulBigSmall(phIn, want), Q), Q)
			if nz := ref.InfNorm(diff); nz.Cmp(bound) > 0 {
				c.Fail("C20/rgsw/NewPlaintext/"+ptKinds[kind]+"/product", "%s %s: (RGSW(0)+plaintext) ⊡ ct is off by 2^%d (bound 2^%d)", name, what, nz.BitLen(), bound.BitLen())
			}
		}

		all := rgswMsgs(n)
		g := all[len(all)-2].g // dense ternary
		pw2a, pw2b := e.pw2, 7
		if e.pw2 == 7 {
			pw2b = 0
		}
		if e.levelP > 0 {
			pw2b = e.pw2 // base two is ignored with several auxiliary primes: the second use differs by the level only
		}
		lqB := e.levelQ
		var operand ring.Poly
		var arg interface{}
		want := g
		switch ptKinds[kind] {
		case "uint64":
			arg, want = uint64(5), constPoly(n, 5)
		case "int64":
			arg, want = int64(-3), constPoly(n, -3)
		case "*ring.Poly":
			operand = smallPoly(params, e.levelQ, g)
			arg = &operand
		case "ring.Poly":
			operand = smallPoly(params, e.levelQ, g)
			arg = operand
		}
		isPoly := operand.Coeffs != nil
		var before ring.Poly
		if isPoly {
			before = *operand.CopyNew()
		}
		intact := func(when string) bool {
			if isPoly && !polyEqual(operand, before, e.levelQ) {
				// (a) the operand is an input
				c.Fail("C20/rgsw/NewPlaintext/"+ptKinds[kind]+"/operand-modified", "%s: the polynomial passed to NewPlaintext was modified (%s)", name, when)
				return false
			}
			return true
		}

		// first plaintext (through rgsw.NewPlaintext), second from the same operand at another decomposition (through
		// rlwe.NewGadgetPlaintext, the function behind it)
		pt1, err := rgsw.NewPlaintext(params, arg, e.levelQ, e.levelP, pw2a)
		if err != nil || pt1 == nil {
			c.Fail("C20/rgsw/NewPlaintext/"+ptKinds[kind]+"/error", "%s: documented operand kind refused: %v", name, err)
			return
		}
		ok := intact("after the first plaintext")
		gp2, err := rlwe.NewGadgetPlaintext(params, arg, lqB, e.levelP, pw2b)
		if err != nil || gp2 == nil {
			c.Fail("C20/rgsw/NewPlaintext/"+ptKinds[kind]+"/error", "%s: second use of the operand refused: %v", name, err)
			return
		}
		pt2 := &rgsw.Plaintext{Value: gp2.Value}
		ok = intact("after the second plaintext") && ok

		// (c) no memory shared: scribbling over the operand must not change the plaintexts, and vice versa
		if isPoly && ok {
			for i := range operand.Coeffs {
				for j := range operand.Coeffs[i] {
					operand.Coeffs[i][j] = 0x0BAD + uint64(j)
				}
			}
		}
		// (b) each plaintext judged by the product oracle
		judge(fmt.Sprintf("first plaintext (pw2=%d)", pw2a), pt1, pw2a, want)
		judge(fmt.Sprintf("second plaintext from the same operand (pw2=%d)", pw2b), pt2, pw2b, want)
		if isPoly && ok {
			scribbled := *operand.CopyNew()
			for _, p := range pt1.Value {
				for i := range p.Coeffs {
					for j := range p.Coeffs[i] {
						p.Coeffs[i][j] = 1
					}
				}
			}
			if !polyEqual(operand, scribbled, e.levelQ) {
				c.Fail("C20/rgsw/NewPlaintext/"+ptKinds[kind]+"/shares-memory-with-operand", "%s: writing to the plaintext changed the operand", name)
			}
		}
		c.Count(4)
		c.Cover("rgswpt", path(params, e.levelQ, e.levelP))
		c.Outcome(name, kind)
	}}
}

// rgswEncryptorRLWEScenario: rgsw.Encryptor documents that Encrypt / EncryptZero also accept the rlwe ciphertext
// types ("which can be a rgsw.Ciphertext or any of the rlwe ciphertext types"): an *rlwe.Ciphertext must come back as
// an encryption of the plaintext / of zero.
func rgswEncryptorRLWEScenario(e epConfig) engine.Scenario {
	name := "rgswenc-rlwe" + e.name()[len("extprod"):]
	return engine.Scenario{Name: name, Bound: -1, Fn: func(c *engine.Chooser) {
		params := e.sh.params(e.np, e.ntt)
		n := params.N()
		which := c.Choose(2, "method")
		uni.Seed(c, name, which)
		sk := rlwe.NewKeyGenerator(params).GenSecretKeyNew()
		enc := rgsw.NewEncryptor(params, sk)
		Q := uni.QAtLevel(params, e.levelQ)
		Be := big.NewInt(int64(params.NoiseBound()))
		ct := rlwe.NewCiphertext(params, 1, e.levelQ)
		m := make([]*big.Int, n)
		for i := range m {
			m[i] = new(big.Int)
		}
		var err error
		var pan interface{}
		method := [2]string{"EncryptZero", "Encrypt"}[which]
		if which == 0 {
			err, pan = uni.Try(func() error { return enc.EncryptZero(ct) })
		} else {
			m[1].Rsh(Q, 2)
			m[3].SetInt64(-7)
			pt := newPlaintext(params, e.levelQ, m)
			err, pan = uni.Try(func() error { return enc.Encrypt(pt, ct) })
		}
		switch {
		case pan != nil:
			c.Fail("C20/rgsw/Encryptor."+method+"(*rlwe.Ciphertext)/panic", "%s: %v", name, pan)
		case err != nil:
			c.Fail("C20/rgsw/Encryptor."+method+"(*rlwe.Ciphertext)/error", "%s: a documented ciphertext type is refused: %v", name, err)
		default:
			ph := uni.Phase(params, &ct.Element, sk)
			if nz := ref.InfNorm(uni.SubCentered(ph, m, Q)); nz.Cmp(Be) > 0 {
				c.Fail("C20/rgsw/Encryptor."+method+"(*rlwe.Ciphertext)/value", "%s: decrypts 2^%d away from the plaintext", name, nz.BitLen())
			}
		}
		c.Count(1)
		c.Cover("rgswenc-rlwe", method)
		c.Outcome(name, which, err == nil)
	}}
}

func rgswPtScenarios(tier string) []engine.Scenario {
	var scs []engine.Scenario
	for _, sh := range shapes(4) {
		for np := 0; np <= 2; np++ {
			for lq := 0; lq < len(sh.q); lq++ {
				for lp := -1; lp < np; lp++ {
					for _, pw2 := range []int{0, 7, 16} {
						if tier != "thorough" && (pw2 == 16 || (len(sh.q) == 1 && sh.name != "q28lo" && sh.name != "q56lo")) {
							continue // quick: the two "lo" single-prime shapes and the three-prime chain, base two 0 and 7
						}
						scs = append(scs, rgswPtScenario(epConfig{sh, np, lq, lp, pw2, true, false}))
					}
				}
			}
		}
	}
	mix := shapes(4)[4]
	scs = append(scs, rgswEncryptorRLWEScenario(epConfig{mix, 1, 2, 0, 0, true, false}),
		rgswEncryptorRLWEScenario(epConfig{mix, 0, 1, -1, 0, true, false}),
		rgswEncryptorRLWEScenario(epConfig{shapes(4)[0], 2, 0, 1, 0, false, false}))
	return scs
}
