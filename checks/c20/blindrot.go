// Blind rotation scenarios: every point of the 2N-point grid, slot subsets, three functions, two
// intervals, secrets of prescribed Hamming weight, recording key set.
package main

import (
	"fmt"
	"math"
	"math/big"
	"math/bits"
	"sort"

	"github.com/tuneinsight/lattigo/v6/core/rgsw"
	"github.com/tuneinsight/lattigo/v6/core/rgsw/blindrot"
	"github.com/tuneinsight/lattigo/v6/core/rlwe"
	"github.com/tuneinsight/lattigo/v6/ring"
	"github.com/tuneinsight/lattigo/v6/utils"

	"verif/engine"
	"verif/ref"
	"verif/uni"
)

// ---------------------------------------------------------------------------------------------
// functions and the look-up they define

type brFunc struct {
	name string
	mk   func(a, b float64, n int) func(float64) float64 // n = blind-rotation ring degree
	max  func(a, b float64) float64                      // max |f| on [a,b]
}

func signF(x float64) float64 {
	switch {
	case x > 0:
		return 1
	case x < 0:
		return -1
	}
	return 0
}

// tableValue is a fixed pseudo-random table with values in {−8/8..8/8}, indexed by grid position.
func tableValue(k int) float64 {
	z := uint64(k+1000) * 0x9E3779B97F4A7C15
	z ^= z >> 29
	z *= 0xBF58476D1CE4E5B9
	z ^= z >> 32
	return float64(int(z%17)-8) / 8
}

var brFuncs = []brFunc{
	{"sign", func(a, b float64, n int) func(float64) float64 { return signF }, func(a, b float64) float64 { return 1 }},
	{"identity", func(a, b float64, n int) func(float64) float64 { return func(x float64) float64 { return x } },
		func(a, b float64) float64 { return math.Max(math.Abs(a), math.Abs(b)) }},
	{"table", func(a, b float64, n int) func(float64) float64 {
		return func(x float64) float64 {
			// recover the grid index of x: x = a + (b−a)·(k+n/2)/n
			k := int(math.Round((2*x - a - b) / (b - a) * float64(n) / 2))
			return tableValue(k)
		}
	}, func(a, b float64) float64 { return 1 }},
}

// gridX is the real input represented by grid index k (k = −n/2 ↔ a, k = n/2 ↔ b): the inverse of the
// normalisation (2x−a−b)/(b−a) announced by InitTestPolynomial, at the normalised abscissa 2k/n.
func gridX(k, n int, a, b float64) float64 {
	return (2*float64(k)/float64(n)*(b-a) + b + a) / 2
}

// lut is the look-up a negacyclic test polynomial for f can realise: for a rotation by k (mod 2n) the
// constant coefficient of F·X^k is f(x_k) for −n/2 ≤ k < n/2, and the ring relation X^n = −1 forces
// lut(k ± n) = −lut(k). In particular lut(n/2) = −f(a): the upper end point b is representable only when
// f(b) = −f(a) (InitTestPolynomial documents its upper half as the open interval ]0,1[).
func lut(f func(float64) float64, k, n int, a, b float64) float64 {
	k = ((k % (2 * n)) + 2*n) % (2 * n)
	if k >= n {
		k -= 2 * n
	} // k in [−n, n)
	switch {
	case k >= n/2:
		return -f(gridX(k-n, n, a, b))
	case k < -n/2:
		return -f(gridX(k+n, n, a, b))
	}
	return f(gridX(k, n, a, b))
}

func roundScaled(v float64, scale *big.Float) *big.Int {
	x := new(big.Float).SetPrec(200).SetFloat64(v)
	x.Mul(x, scale)
	half := big.NewFloat(0.5)
	if x.Sign() < 0 {
		x.Sub(x, half)
	} else {
		x.Add(x, half)
	}
	i, _ := x.Int(nil) // truncation towards zero after ±1/2 = round half away from zero
	return i
}

// ---------------------------------------------------------------------------------------------
// configurations

type brVariant struct {
	name     string
	q, p     func(logN int) []uint64
	pw2      int
	nttBR    bool
	nttLWE   bool
	qLWE     func(logN int) []uint64 // LWE modulus chain
	lweLevel int                     // level of the LWE ciphertext (its modulus is the product of the first lweLevel+1 primes)
	keyLevel int                     // levelQ of the blind rotation keys; -1: maximum
}

func one(f func(l int) uint64) func(l int) []uint64 {
	return func(l int) []uint64 { return []uint64{f(l)} }
}

var brVariants = []brVariant{
	{name: "singleP", q: one(func(l int) uint64 { return nttPrime(l, 1<<55, true, 0) }), p: one(func(l int) uint64 { return nttPrime(l, 1<<58, true, 0) }),
		pw2: 0, nttBR: true, nttLWE: true, qLWE: one(func(l int) uint64 { return nttPrime(l, 1<<20, true, 0) }), keyLevel: -1},
	{name: "32bit", q: one(func(l int) uint64 { return nttPrime(l, 1<<28, true, 0) }),
		pw2: 2, nttBR: true, nttLWE: false, qLWE: one(func(l int) uint64 { return 12289 }), keyLevel: -1},
	{name: "noP", q: one(func(l int) uint64 { return nttPrime(l, 1<<55, true, 0) }),
		pw2: 8, nttBR: false, nttLWE: true, qLWE: one(func(l int) uint64 { return nttPrime(l, 1<<20, true, 0) }), keyLevel: -1},
	{name: "multipleP", q: func(l int) []uint64 { return []uint64{nttPrime(l, 1<<40, true, 0), nttPrime(l, 1<<40, true, 1)} },
		p:   func(l int) []uint64 { return []uint64{nttPrime(l, 1<<58, true, 0), nttPrime(l, 1<<58, true, 1)} },
		pw2: 0, nttBR: false, nttLWE: false, qLWE: one(func(l int) uint64 { return nttPrime(l, 1<<16, false, 0) }), keyLevel: -1},
}

// brDeepVariants: the level an object is used at against the level it was built at.
//   - lwe2@1 / lwe2@0: LWE parameters with two primes, sample at the top level resp. one level down (modulus q0 only);
//     singleP-lwe2@1 pairs the two-prime sample with a one-prime blind-rotation ring;
//   - lowkeys: blind rotation keys generated at levelQ=0 of a two-prime ring (the accumulator lives at the top level,
//     Evaluate works at the level of the keys); the result is read at the level of the keys.
var brDeepVariants = func() []brVariant {
	two := func(l int) []uint64 { return []uint64{nttPrime(l, 1<<16, false, 0), nttPrime(l, 1<<16, false, 1)} }
	a := brVariants[3]
	a.name, a.qLWE, a.lweLevel = "multipleP-lwe2@1", two, 1
	e := brVariants[0] // LWE sample with more moduli than the blind-rotation ring has (isolated: see evaluate())
	e.name, e.qLWE, e.lweLevel = "singleP-lwe2@1", two, 1
	b := brVariants[3]
	b.name, b.qLWE, b.lweLevel = "multipleP-lwe2@0", two, 0
	c := brVariants[3]
	c.name, c.keyLevel = "multipleP-lowkeys", 0
	d := brVariants[0]
	d.name, d.q, d.keyLevel = "singleP-lowkeys", func(l int) []uint64 { return []uint64{nttPrime(l, 1<<55, true, 0), nttPrime(l, 1<<45, true, 0)} }, 0
	return []brVariant{a, b, c, d, e}
}()

// brLargeQVariants: single-modulus LWE samples with a 55-bit and a 60-bit modulus (the first prime of a CKKS/BGV chain:
// the scheme-switching use case). x·2N_BR no longer fits 64 bits once Q_LWE·2N_BR > 2^64 (60 bits: every ring here;
// 55 bits: N_BR ≥ 512); the documented switch round(x·2N/Q) is computed by the harness with big integers.
var brLargeQVariants = func() []brVariant {
	a := brVariants[0]
	a.name, a.qLWE = "singleP-lwe60", one(func(l int) uint64 { return nttPrime(l, 1<<60, true, 0) })
	b := brVariants[0]
	b.name, b.qLWE = "singleP-lwe55", one(func(l int) uint64 { return nttPrime(l, 1<<55, true, 0) })
	c := brVariants[3]
	c.name, c.qLWE = "multipleP-lwe60", one(func(l int) uint64 { return nttPrime(l, 1<<60, true, 1) })
	return []brVariant{a, b, c}
}()

type brConfig struct {
	logNLWE, logNBR int
	v               brVariant
	h               int
	a, b            float64
	leaf            int  // index into the leaf list
	big             bool // leaf list of the size-threshold scenarios (brBigLeaves) instead of brLeaves
}

func (cf brConfig) leaves() []brLeaf {
	if cf.big {
		return brBigLeaves(1<<cf.logNLWE, 1<<cf.logNBR)
	}
	return brLeaves(1<<cf.logNLWE, 1<<cf.logNBR)
}

func (cf brConfig) name() string {
	return fmt.Sprintf("blindrot/%s/NLWE=%d/NBR=%d/h=%d/[%g,%g]/%s", cf.v.name, 1<<cf.logNLWE, 1<<cf.logNBR, cf.h, cf.a, cf.b,
		cf.leaves()[cf.leaf].name)
}

func (cf brConfig) keyLevelQ(br rlwe.Parameters) int {
	if cf.v.keyLevel >= 0 {
		return cf.v.keyLevel
	}
	return br.MaxLevelQ()
}

func (cf brConfig) evkParams() rlwe.EvaluationKeyParameters {
	e := rlwe.EvaluationKeyParameters{BaseTwoDecomposition: utils.Pointy(cf.v.pw2)}
	if cf.v.keyLevel >= 0 {
		e.LevelQ = utils.Pointy(cf.v.keyLevel)
	}
	return e
}

func (cf brConfig) params() (lwe, br rlwe.Parameters) {
	lwe = cachedParams(fmt.Sprintf("lwe/%d/%s/h%d", cf.logNLWE, cf.v.name, cf.h), rlwe.ParametersLiteral{
		LogN: cf.logNLWE, Q: cf.v.qLWE(cf.logNLWE), NTTFlag: cf.v.nttLWE, Xs: ring.Ternary{H: cf.h}})
	lit := rlwe.ParametersLiteral{LogN: cf.logNBR, Q: cf.v.q(cf.logNBR), NTTFlag: cf.v.nttBR}
	if cf.v.p != nil {
		lit.P = cf.v.p(cf.logNBR)
	}
	br = cachedParams(fmt.Sprintf("br/%d/%s", cf.logNBR, cf.v.name), lit)
	return
}

// one Evaluate call: which slots are requested and which grid index each slot of the LWE ciphertext holds
type brCall struct {
	slots []int // requested slot indices (test-polynomial map keys)
	k     []int // grid index held by every slot of the ciphertext (len = N_LWE)
	fnOff int   // slot i uses function (i+fnOff) mod 3
}

type brLeaf struct {
	name  string
	calls []brCall
}

// leaves: (1) the full slot set over the whole 2N-point circle, three passes so that every grid point meets
// every function; (2) every subset of size ≤ 2 of a pool of slot indices, all triples of the pool and two more
// triples, holding end points and the neighbourhood of 0. The subsets leaf also replays every call on a fresh
// evaluator (history insensitivity of the reused one).
func brLeaves(nLWE, nBR int) []brLeaf {
	var ls []brLeaf
	full := make([]int, nLWE)
	for i := range full {
		full[i] = i
	}
	grid := make([]int, 0, 2*nBR+1)
	for k := -nBR; k < nBR; k++ {
		grid = append(grid, k)
	}
	for off := 0; off < 3; off++ {
		l := brLeaf{name: fmt.Sprintf("full/pass%d", off)}
		for start := 0; start < len(grid); start += nLWE {
			ks := make([]int, nLWE)
			for i := range ks {
				ks[i] = grid[(start+i)%len(grid)]
			}
			l.calls = append(l.calls, brCall{slots: full, k: ks, fnOff: off})
		}
		ls = append(ls, l)
	}
	pool := []int{0, 1, nLWE / 2, nLWE - 1}
	special := []int{-nBR / 2, nBR / 2, 0, -1, 1, nBR/2 - 1, -nBR/2 + 1, nBR / 4}
	ks := make([]int, nLWE)
	for i := range ks {
		ks[i] = special[i%len(special)]
	}
	var subsets [][]int
	subsets = append(subsets, []int{})
	for i := range pool {
		subsets = append(subsets, []int{pool[i]})
	}
	for i := range pool {
		for j := i + 1; j < len(pool); j++ {
			subsets = append(subsets, []int{pool[i], pool[j]})
		}
	}
	// size 3: every triple of the pool and two triples away from it; none is a prefix 0,1,2 of the slot range
	for i := range pool {
		var t []int
		for j := range pool {
			if j != i {
				t = append(t, pool[j])
			}
		}
		subsets = append(subsets, t)
	}
	subsets = append(subsets, []int{2, 3, 7}, []int{5, nLWE/2 + 1, nLWE - 2})
	l := brLeaf{name: "subsets"}
	for si, s := range subsets {
		// rotate the assignment so that the pool slots see different special points in different calls
		kk := make([]int, nLWE)
		for i := range kk {
			kk[i] = ks[(i+si)%nLWE]
		}
		l.calls = append(l.calls, brCall{slots: s, k: kk, fnOff: si})
	}
	ls = append(ls, l)
	return ls
}

// brBigLeaves: for rings where a walk over the whole circle is too expensive. "spread": four full-slot calls whose
// 4·N_LWE grid points are spread evenly over the 2N-point circle (plus both end points and 0); "mini": three calls with
// the slot sets {0}, {1, N−1}, {2, N/2, N−3} on special points, each replayed on a fresh evaluator.
func brBigLeaves(nLWE, nBR int) []brLeaf {
	full := make([]int, nLWE)
	for i := range full {
		full[i] = i
	}
	spread := brLeaf{name: "spread"}
	calls := 4
	if nLWE > 64 {
		calls = 1
	}
	total := calls * nLWE
	for cI := 0; cI < calls; cI++ {
		ks := make([]int, nLWE)
		for i := range ks {
			ks[i] = -nBR + ((cI*nLWE+i)*2*nBR)/total
		}
		ks[0] = []int{-nBR / 2, nBR / 2, 0}[cI%3]
		spread.calls = append(spread.calls, brCall{slots: full, k: ks, fnOff: cI})
	}
	special := []int{-nBR / 2, nBR / 2, 0, -1, 1, nBR/2 - 1, -nBR/2 + 1, nBR / 4, -nBR + 1, nBR - 1}
	mini := brLeaf{name: "mini"}
	for si, sl := range [][]int{{0}, {1, nLWE - 1}, {2, nLWE / 2, nLWE - 3}} {
		ks := make([]int, nLWE)
		for i := range ks {
			ks[i] = special[(i+3*si)%len(special)]
		}
		mini.calls = append(mini.calls, brCall{slots: sl, k: ks, fnOff: si})
	}
	return []brLeaf{spread, mini}
}

// ---------------------------------------------------------------------------------------------
// model of the LWE → Z_2N switch, from the documentation of modSwitchRLWETo2NLvl:
// "applies round(x * 2N / Q)"; "makeOdd ensures that output coefficients are odd by xoring with 1 (if not already zero)".
// Q is an odd prime and x < Q, so x·2N/Q is never a half-integer: the rounding is unambiguous.

func modSwitch(x, Q uint64, twoN int, makeOdd bool) int {
	num := new(big.Int).Mul(new(big.Int).SetUint64(x), big.NewInt(int64(2*twoN)))
	num.Add(num, new(big.Int).SetUint64(Q))
	num.Quo(num, new(big.Int).SetUint64(2*Q)) // floor(x·2N/Q + 1/2)
	r := int(num.Int64()) & (twoN - 1)
	if makeOdd && r&1 == 0 && r != 0 {
		r ^= 1
	}
	return r
}

// rotationModel returns the exponent b' + Σ_j a'_{idx,j}·s_j (mod 2N) the documented switch leads to for slot
// idx, and the list of secret coefficients whose mask coefficient switched to exactly 0 (for those the
// documentation says "zero stays zero", i.e. no contribution; see acceptZero in the caller).
func rotationModel(c0, c1 []uint64, Q uint64, s []int64, idx, twoN int) (k int, zeros []int64, minusOnes []int64) {
	n := len(c0)
	k = modSwitch(c0[idx], Q, twoN, false)
	for j, sj := range s {
		if sj == 0 {
			continue
		}
		// coefficient idx of c1·s in Z[X]/(X^n+1): Σ_j s_j·c1[idx−j], with a sign flip when idx−j wraps
		src, sgn := idx-j, 1
		if src < 0 {
			src, sgn = src+n, -1
		}
		a := modSwitch(c1[src], Q, twoN, true)
		if a == 0 {
			zeros = append(zeros, sj)
			continue
		}
		a = (sgn*a + 2*twoN) % twoN
		if a == twoN-1 {
			minusOnes = append(minusOnes, sj)
		}
		k += a * int(sj)
	}
	k = ((k % twoN) + twoN) % twoN
	return
}

// subsetSums returns {base + Σ_{i∈S} w_i·v_i : S ⊆ [len(v)]} mod m.
func subsetSums(base int, v []int64, w int, m int) map[int]bool {
	out := map[int]bool{((base % m) + m) % m: true}
	for _, x := range v {
		next := map[int]bool{}
		for b := range out {
			next[b] = true
			next[(((b+w*int(x))%m)+m)%m] = true
		}
		out = next
	}
	return out
}

// ---------------------------------------------------------------------------------------------

// phaseSmall is c0 + c1·s over Z_Q (centred) for a degree-1 element and a small secret.
func phaseSmall(params rlwe.Parameters, el *rlwe.Element[ring.Poly], s []int64) []*big.Int {
	level := el.Level()
	Q := uni.QAtLevel(params, level)
	c0 := uni.PolyCoeffs(params.RingQ(), el.Value[0], level, el.IsNTT, el.IsMontgomery)
	c1 := uni.PolyCoeffs(params.RingQ(), el.Value[1], level, el.IsNTT, el.IsMontgomery)
	pr := mulBigSmall(c1, s)
	for i := range pr {
		pr[i].Add(pr[i], c0[i])
	}
	return centerAll(pr, Q)
}

func monomialSmall(n, e int) []int64 {
	v := make([]int64, n)
	e = ((e % (2 * n)) + 2*n) % (2 * n)
	if e < n {
		v[e] = 1
	} else {
		v[e-n] = -1
	}
	return v
}

// brKeys generates the blind rotation keys with the library and checks that the RGSW keys encrypt X^{s_i}
// with well-formed rows (two of them here; all of them in the brkeys/ scenarios). When they do not, the RGSW
// keys are rebuilt by the harness so that the evaluator is judged on well-formed keys.
func brKeys(c *engine.Chooser, cf brConfig, lwe, br rlwe.Parameters, skLWE, skBR *rlwe.SecretKey, sLWE, sBR []int64) (*recKeySet, string) {
	evkParams := cf.evkParams()
	lib := blindrot.GenEvaluationKeyNew(br, skBR, lwe, skLWE, evkParams)
	Be := big.NewInt(int64(br.NoiseBound()))
	src := "library"
	probe := []int{0}
	for i, v := range sLWE {
		if v != 0 {
			probe = append(probe, i)
			break
		}
	}
	for _, i := range probe {
		if i >= len(lib.BlindRotationKeys) {
			continue
		}
		if _, rowMax := rgswErrs(br, lib.BlindRotationKeys[i], sBR, monomialSmall(br.N(), int(sLWE[i]))); rowMax.Cmp(Be) > 0 {
			src = "harness"
		}
	}
	keys := lib.BlindRotationKeys
	levelQ, levelP := cf.keyLevelQ(br), br.MaxLevelP()
	if src == "harness" {
		keys = make([]*rgsw.Ciphertext, lwe.N())
		for i := range keys {
			keys[i] = rgsw.NewCiphertext(br, levelQ, levelP, cf.v.pw2)
			buildRGSW(br, keys[i], sBR, monomialSmall(br.N(), int(sLWE[i])), c.Seed^uint64(7919*(i+1)))
		}
	}
	return newRecKeySet(keys, lib.AutomorphismKeys), src
}

// evaluate calls Evaluate and turns a panic into a violation. One panic is classified on its own: an LWE sample
// with more moduli than the blind-rotation ring (Evaluate uses its accumulator, shaped like a blind-rotation
// ciphertext, as scratch space for the sample's polynomials).
func evaluate(c *engine.Chooser, cf brConfig, name string, eval *blindrot.Evaluator, ct *rlwe.Ciphertext, tpm map[int]*ring.Poly, ks blindrot.BlindRotationEvaluationKeySet, br rlwe.Parameters) (res map[int]*rlwe.Ciphertext, err error, stop bool) {
	_, pan := uni.Try(func() error { res, err = eval.Evaluate(ct, tpm, ks); return nil })
	if pan == nil {
		if err != nil && ct.Level() > br.MaxLevel() {
			// documented refusal (fix b05fd3c): a sample with more moduli than the blind-rotation ring is rejected
			// with an error; nothing to judge on this call.
			c.Cover("br-rejected", "lwe-level-above-br-ring")
			return nil, nil, true
		}
		return res, err, false
	}
	if ct.Level() > br.MaxLevel() {
		c.Fail("C20/blindrot/Evaluate/panic/LWE-sample-with-more-moduli-than-the-BR-ring", "%s: LWE ciphertext at level %d, blind-rotation ring with %d moduli: %v", name, ct.Level(), br.MaxLevel()+1, pan)
	} else {
		c.Fail("C20/blindrot/Evaluate/panic", "%s: %v", name, pan)
	}
	return nil, nil, true
}

func brScenario(cf brConfig) engine.Scenario {
	name := cf.name()
	return engine.Scenario{Name: name, Bound: -1, Fn: func(c *engine.Chooser) {
		lwe, br := cf.params()
		nLWE, nBR := lwe.N(), br.N()
		twoN := 2 * nBR
		leaf := cf.leaves()[cf.leaf]
		uni.Seed(c, name)

		skLWE := rlwe.NewKeyGenerator(lwe).GenSecretKeyNew()
		skBR := rlwe.NewKeyGenerator(br).GenSecretKeyNew()
		sLWE, hw := secretInts(lwe, skLWE)
		sBR, sBRNorm1 := secretInts(br, skBR)
		if int(hw) != cf.h {
			c.Fail("C20/blindrot/precondition/hamming-weight", "%s: secret of weight %d instead of %d", name, hw, cf.h)
			return
		}
		rec, src := brKeys(c, cf, lwe, br, skLWE, skBR, sLWE, sBR)
		c.Cover("brk-source", src+"/"+cf.v.name)

		// scale: the largest power of two with max|f|·scale ≤ Q/8
		kl := cf.keyLevelQ(br) // Evaluate works at the level of the keys; results are read there
		QBR := uni.QAtLevel(br, kl)
		maxF := 1.0
		for _, f := range brFuncs {
			maxF = math.Max(maxF, f.max(cf.a, cf.b))
		}
		scaleLog := QBR.BitLen() - 1 - 3 - int(math.Ceil(math.Log2(maxF)))
		scaleF := math.Ldexp(1, scaleLog)
		scaleBig := new(big.Float).SetPrec(200).SetFloat64(scaleF)

		// test polynomials from the library; look-up tables from the definition
		polys := make([]ring.Poly, len(brFuncs))
		luts := make([][]*big.Int, len(brFuncs)) // luts[f][k], k in [0,2N)
		fns := make([]func(float64) float64, len(brFuncs))
		for fi, f := range brFuncs {
			fns[fi] = f.mk(cf.a, cf.b, nBR)
			polys[fi] = blindrot.InitTestPolynomial(fns[fi], rlwe.NewScale(scaleF), br.RingQ().AtLevel(kl), cf.a, cf.b)
			luts[fi] = make([]*big.Int, twoN)
			for k := 0; k < twoN; k++ {
				luts[fi][k] = roundScaled(lut(fns[fi], k, nBR, cf.a, cf.b), scaleBig)
			}
		}

		// noise of one gadget step (external product or key switch) with rows of noise ≤ Be
		// (library keys: truncation bound of the error distribution; harness-built RGSW keys: ‖e‖∞ ≤ 3 by construction,
		// the Galois keys are the library's in both cases)
		Be := big.NewInt(int64(br.NoiseBound()))
		stepBound := extProdBound(br, rec.brk[0], Be, sBRNorm1)
		epBound := stepBound
		if src == "harness" {
			epBound = extProdBound(br, rec.brk[0], big.NewInt(3), sBRNorm1)
		}

		eval := blindrot.NewEvaluator(br, lwe)
		enc := rlwe.NewEncryptor(lwe, skLWE)
		lvl := cf.v.lweLevel
		qLWE := uni.QAtLevel(lwe, lvl).Uint64() // < 2^61 in every variant
		evals := 0
		unique, ambiguous, vacuous := 0, 0, 0
		for ci, call := range leaf.calls {
			// LWE plaintext: slot i holds round(k_i·Q/2N)
			pt := rlwe.NewPlaintext(lwe, lvl)
			for i, k := range call.k {
				v := new(big.Int).Mul(big.NewInt(int64(k)), new(big.Int).SetUint64(qLWE))
				v = ref.RoundDivHalfUp(v, big.NewInt(int64(twoN)))
				for j, qj := range lwe.Q()[:lvl+1] {
					pt.Value.Coeffs[j][i] = ref.ModU(v, qj)
				}
			}
			if pt.IsNTT {
				lwe.RingQ().AtLevel(lvl).NTT(pt.Value, pt.Value)
			}
			ct := rlwe.NewCiphertext(lwe, 1, lvl)
			if err := enc.Encrypt(pt, ct); err != nil {
				panic(err)
			}
			ctBefore := ct.CopyNew()
			phLWE := uni.Phase(lwe, &ct.Element, skLWE)
			c0 := polyU64(uni.PolyCoeffs(lwe.RingQ(), ct.Value[0], lvl, ct.IsNTT, false))
			c1 := polyU64(uni.PolyCoeffs(lwe.RingQ(), ct.Value[1], lvl, ct.IsNTT, false))

			for _, x := range append(append([]uint64{}, c0...), c1...) {
				if hi, _ := bits.Mul64(x, uint64(twoN)); hi != 0 {
					c.Cover("modswitch-product", "x*2N>=2^64") // the size class a 64-bit shortcut of the switch gets wrong
					break
				}
			}
			tpm := map[int]*ring.Poly{}
			fnOf := map[int]int{}
			for _, sl := range call.slots {
				fi := (sl + call.fnOff) % len(brFuncs)
				fnOf[sl] = fi
				tpm[sl] = &polys[fi]
			}
			segStart := len(rec.segments)
			rec.beginCall()
			res, err, stop := evaluate(c, cf, name, eval, ct, tpm, rec, br)
			if stop {
				return
			}
			if len(rec.missing) > 0 {
				c.Fail("C20/blindrot/keys/requested-key-not-generated", "%s %s call %d: the evaluator asked for %v, which GenEvaluationKeyNew did not generate", name, leaf.name, ci, rec.missing)
				return
			}
			if err != nil {
				c.Fail("C20/blindrot/Evaluate/error", "%s %s call %d: %v", name, leaf.name, ci, err)
				return
			}
			if !ct.Equal(ctBefore) {
				c.Fail("C20/blindrot/Evaluate/input-modified", "%s %s call %d: the LWE ciphertext was modified", name, leaf.name, ci)
			}
			if len(res) != len(call.slots) {
				c.Fail("C20/blindrot/Evaluate/result-slots", "%s %s call %d: %d results for %d requested slots", name, leaf.name, ci, len(res), len(call.slots))
				return
			}
			if leaf.name == "subsets" || leaf.name == "mini" {
				// the evaluator above has served every previous call of this leaf; a fresh one must return the same bits
				res2, err2 := blindrot.NewEvaluator(br, lwe).Evaluate(ct, tpm, newRecKeySet(rec.brk, rec.gkList))
				same := err2 == nil && len(res2) == len(res)
				for sl, r := range res {
					if same && (res2[sl] == nil || !r.Equal(res2[sl])) {
						same = false
					}
				}
				if !same {
					c.Fail("C20/blindrot/history/"+cf.v.name, "%s call %d (slots %v): an evaluator reused across Evaluate calls and a fresh one return different ciphertexts (err %v)", name, ci, call.slots, err2)
				}
				c.Cover("br-history", "reused-vs-fresh")
			}
			slots := append([]int{}, call.slots...)
			sort.Ints(slots) // the evaluator walks the slots in increasing order: segment t belongs to slots[t]
			segs := rec.segments[segStart:]
			if len(segs) != len(slots) {
				c.Fail("C20/blindrot/Evaluate/rotations", "%s %s call %d: %d blind rotations for %d requested slots", name, leaf.name, ci, len(segs), len(slots))
				return
			}
			for t, sl := range slots {
				r, ok := res[sl]
				if !ok || r == nil {
					c.Fail("C20/blindrot/Evaluate/result-slots", "%s %s call %d: no result for slot %d", name, leaf.name, ci, sl)
					continue
				}
				evals++
				fi := fnOf[sl]
				k := call.k[sl]
				seg := segs[t]
				// noise: every external product and every key switch adds at most stepBound; monomial products
				// and automorphisms permute the noise already present.
				tol := new(big.Int).Mul(epBound, big.NewInt(int64(seg.extProducts)))
				tol.Add(tol, new(big.Int).Mul(stepBound, big.NewInt(int64(seg.keySwitches))))
				tol.Add(tol, big.NewInt(4)) // float rounding of scale·f(x) in the test polynomial
				if new(big.Int).Lsh(tol, 3).Cmp(new(big.Int).Lsh(big.NewInt(1), uint(scaleLog))) > 0 {
					// worst-case noise above scale/8: grid values cannot be told apart, nothing to judge
					c.Cover("vacuous-config", "blindrot/"+cf.v.name)
					vacuous++
					continue
				}
				if r.IsNTT != br.NTTFlag() {
					c.Fail("C20/blindrot/Evaluate/result-domain", "%s: result IsNTT=%v with NTTFlag=%v", name, r.IsNTT, br.NTTFlag())
				}
				R := phaseSmall(br, truncated(&r.Element, kl), sBR)

				// (B1) the result is a rotation of the test polynomial: R[j] ≈ scale·lut(k*−j) for all j
				var matches []int
				for kk := 0; kk < twoN; kk++ {
					if rotationMatches(R, luts[fi], kk, tol) {
						matches = append(matches, kk)
					}
				}
				in := k >= -nBR/2 && k <= nBR/2
				where := "inside"
				if !in {
					where = "outside"
				}
				c.Cover("x", where)
				switch {
				case k == -nBR/2:
					c.Cover("x", "a")
				case k == nBR/2:
					c.Cover("x", "b")
				case k == 0:
					c.Cover("x", "0")
				}
				tag := fmt.Sprintf("%s %s call %d slot %d f=%s k=%d x=%g", name, leaf.name, ci, sl, brFuncs[fi].name, k, gridX(k, nBR, cf.a, cf.b))

				// (A) property: for x in [a,b] the constant coefficient is scale·f(x') for a grid point x' within the
				// drift of x. Drift (in grid steps) of the implementation's exponent against the exact k_real =
				// phase·2N/Q of the LWE sample: ≤ 1/2 for rounding b, and for every non-zero secret coefficient ≤ 1/2
				// for rounding a_j plus ≤ 1 for forcing it odd: D = 1/2 + 3h/2. One more step is granted for the
				// discretisation itself ("up to the discretisation step"). Near a and b the window reaches beyond the interval, where
				// the look-up continues negacyclically (InitTestPolynomial: "[a, b] should take into account the drift").
				valueOK := true
				if in {
					okA := false
					T := new(big.Int).Mul(big.NewInt(int64(twoN)), new(big.Int).SetUint64(qLWE))
					lim := new(big.Int).Mul(big.NewInt(int64(1+3*cf.h+2)), new(big.Int).SetUint64(qLWE)) // 2·(D+1)·Q
					for kk := 0; kk < twoN && !okA; kk++ {
						d := new(big.Int).Mul(big.NewInt(int64(kk)), new(big.Int).SetUint64(qLWE))
						d.Sub(d, new(big.Int).Mul(phLWE[sl], big.NewInt(int64(twoN))))
						d = ref.Center(d, T)
						d.Abs(d).Lsh(d, 1)
						if d.Cmp(lim) > 0 {
							continue
						}
						if within(R[0], luts[fi][kk], tol) {
							okA = true
						}
						// upper end point: the statement's value f(b) is accepted next to the negacyclic −f(a)
						kc := kk
						if kc >= nBR {
							kc -= twoN
						}
						if kc == nBR/2 && within(R[0], roundScaled(fns[fi](cf.b), scaleBig), tol) {
							okA = true
						}
					}
					valueOK = okA
				}

				valueMsg := fmt.Sprintf("%s: decrypted constant coefficient %v (= %.4f·scale) is not f(x') for any grid point x' within the drift window (h=%d), tolerance %v",
					tag, R[0], ratio(R[0], scaleF), cf.h, tol)
				if len(matches) == 0 {
					if !valueOK {
						c.Fail("C20/blindrot/value/"+cf.v.name, "%s", valueMsg)
					}
					c.Fail("C20/blindrot/not-a-rotation-of-the-test-polynomial/"+cf.v.name, "%s: the decrypted polynomial matches no X^k·F within the noise bound %v", tag, tol)
					continue
				}
				if len(matches) == 1 {
					unique++
				} else {
					ambiguous++
				}
				// (B2) the rotation is the one the documented modulus switch prescribes
				kDoc, zeros, minusOnes := rotationModel(c0, c1, qLWE, sLWE, sl, twoN)
				model := subsetSums(kDoc, zeros, 1, twoN) // a mask coefficient that switches to 0: no rotation (doc) or rotation by s_j (treated as 1)
				// classification of one known deviation: mask coefficients ≡ −1 (mod 2N) rotated by +s_j instead of −s_j
				flipped := map[int]bool{}
				for b := range model {
					for v := range subsetSums(b, minusOnes, 2, twoN) {
						if !model[v] {
							flipped[v] = true
						}
					}
				}
				okB, isFlip := false, false
				for _, m := range matches {
					if model[m] {
						okB = true
						if len(zeros) > 0 && m != kDoc {
							c.Cover("mask-zero", "treated-as-one")
						}
					}
					if flipped[m] {
						isFlip = true
					}
				}
				if len(zeros) > 0 {
					c.Cover("mask-zero", "seen")
				}
				if len(minusOnes) > 0 {
					c.Cover("mask-minus-one", "seen")
				}
				switch {
				case okB && valueOK:
				case !okB && isFlip:
					// one defect, one signature: covers both the wrong rotation and, when the extra 2 steps leave the window, the wrong value
					c.Fail("C20/blindrot/mask-coefficient-minus-one-rotates-by-plus-s", "%s: result is F·X^%v; with the documented switch the exponent is %d; it is explained by treating the mask coefficient(s) ≡ −1 mod 2N (secret coefficients %v) as +1 (value within window: %v)",
						tag, matches, kDoc, minusOnes, valueOK)
				default:
					if !valueOK {
						c.Fail("C20/blindrot/value/"+cf.v.name, "%s", valueMsg)
					}
					if !okB {
						c.Fail("C20/blindrot/rotation-differs-from-documented-modswitch/"+cf.v.name, "%s: result is F·X^%v, the documented switch round(x·2N/Q) (mask forced odd) gives X^%d", tag, matches, kDoc)
					}
				}
				c.Outcome(cf.v.name, brFuncs[fi].name, where, matches[0] == ((k%twoN)+twoN)%twoN)
			}
		}
		if evals > 0 && vacuous == evals && !c.Failed() {
			c.Skip("worst-case noise bound > scale/8")
			return
		}
		c.Count(evals)
		c.Cover("br-variant", cf.v.name)
		c.Cover("br-pair", fmt.Sprintf("%d,%d", nLWE, nBR))
		c.Cover("br-h", hName(cf.h, nLWE))
		c.Cover("br-interval", fmt.Sprintf("[%g,%g]", cf.a, cf.b))
		c.Cover("br-slots", leaf.name[:4])
		if unique > 0 {
			c.Cover("br-rotation", "uniquely-identified")
		}
		var un []string
		for _, g := range rec.galList {
			if rec.reqGal[g] > 0 {
				c.Cover("galois-requested", fmt.Sprintf("dlog%d", br.SolveDiscreteLogGaloisElement(g)))
			}
		}
		un = rec.unused()
		c.Note("%s: %d rotations (%d uniquely identified, %d ambiguous); RGSW keys from %s; generated keys never requested in this leaf: %v", leaf.name, evals, unique, ambiguous, src, un)
	}}
}

func hName(h, n int) string {
	switch h {
	case 1, 2:
		return fmt.Sprint(h)
	case n / 4:
		return "N/4"
	case n / 2:
		return "N/2"
	}
	return fmt.Sprint(h)
}

func polyU64(b []*big.Int) []uint64 {
	r := make([]uint64, len(b))
	for i := range b {
		r[i] = b[i].Uint64()
	}
	return r
}

func within(x, y, tol *big.Int) bool {
	d := new(big.Int).Sub(x, y)
	return d.Abs(d).Cmp(tol) <= 0
}

func ratio(x *big.Int, scale float64) float64 {
	f, _ := new(big.Float).SetInt(x).Float64()
	return f / scale
}

// rotationMatches: R[j] ≈ lut[(k−j) mod 2N] for every j.
func rotationMatches(R []*big.Int, lut []*big.Int, k int, tol *big.Int) bool {
	m := len(lut)
	for j := range R {
		if !within(R[j], lut[(((k-j)%m)+m)%m], tol) {
			return false
		}
	}
	return true
}

func brScenarios(tier string) []engine.Scenario {
	var scs []engine.Scenario
	pairs := [][2]int{{4, 4}, {4, 5}, {4, 6}, {5, 5}, {5, 7}}
	variants := append(append([]brVariant{}, brVariants...), brDeepVariants...)
	nBase := len(brVariants)
	variants = append(variants, brMultiLevelVariants...) // after the boundary nBase+len(brDeepVariants): unequal pairs only in quick
	// the four paths with the NTT flags of both parameter sets flipped, and a digit-decomposed single-P key
	for _, v := range brVariants {
		w := v
		w.name, w.nttBR, w.nttLWE = v.name+"-flip", !v.nttBR, !v.nttLWE
		variants = append(variants, w)
	}
	w := brVariants[0]
	w.name, w.pw2 = "singleP-pw2=16", 16
	variants = append(variants, w)
	thorough := tier == "thorough"
	for _, pr := range pairs {
		n := 1 << pr[0]
		small := pr[1] <= 5 // N_BR ≤ 32: cheap
		for vi, v := range variants {
			extra := vi >= nBase // deep / flipped / digit variants
			if len(v.name) >= 5 && v.name[:5] == "32bit" && pr[1] > 6 {
				continue // q < 2^29 leaves no room for the worst-case noise of 32 products at N=128: nothing could be judged
			}
			if !thorough && extra && !(pr == [2]int{4, 5} || (pr == [2]int{5, 5} && vi < nBase+len(brDeepVariants))) {
				continue // quick: the extra variants on the smallest unequal pair; the level variants also on the equal pair
			}
			hs := []int{1, 2, n / 4, n / 2}
			if v.name == "singleP-lwe2@1" {
				// known to panic (sample with more moduli than the BR ring): one scenario, kept apart
				if pr == [2]int{4, 5} {
					leaves := brLeaves(n, 1<<pr[1])
					scs = append(scs, brScenario(brConfig{pr[0], pr[1], v, 1, -1, 1, len(leaves) - 1, false}))
				}
				continue
			}
			for _, h := range hs {
				if !thorough && (extra || pr[1] == 7 || pr[0] == pr[1]) && (h == 2 || h == n/4) {
					continue // quick: extreme weights only for the extra variants, the largest pair and the equal pairs
				}
				if thorough && extra && pr[1] == 7 && (h == 2 || h == n/4) {
					continue // thorough: the extra variants on the largest pair with the extreme weights
				}
				leaves := brLeaves(n, 1<<pr[1])
				scs = append(scs, brKeyScenario(brConfig{pr[0], pr[1], v, h, -1, 1, 0, false}))
				if h == 1 || h == n/2 {
					scs = append(scs, brGrowScenario(brConfig{pr[0], pr[1], v, h, -1, 1, 0, false}))
				}
				ivs := [][2]float64{{-1, 1}, {-4, 4}, {-1, 3}, {0, 2}}
				for ii, iv := range ivs {
					if !thorough && (ii == 3 || (ii >= 1 && (extra || pr[0] == pr[1])) || (ii == 2 && !small)) {
						continue // quick: [0,2] never; extra variants and equal pairs on [-1,1] only; [-1,3] on small rings
					}
					if thorough && extra && pr[1] == 7 && (ii == 1 || ii == 3) {
						continue // thorough: the extra variants on the largest pair with [-1,1] and [-1,3]
					}
					for li := range leaves {
						if !thorough && ii == 2 && li != 0 && li != len(leaves)-1 {
							continue // quick: asymmetric interval with one full pass and the subsets
						}
						scs = append(scs, brScenario(brConfig{pr[0], pr[1], v, h, iv[0], iv[1], li, false}))
					}
				}
			}
		}
	}
	scs = append(scs, brSizeScenarios(tier)...)
	scs = append(scs, brHistoryScenarios(tier)...)
	return scs
}

// brSizeScenarios: size thresholds. Large single LWE moduli against N_BR = 32..512 (products x·2N_BR beyond 64 bits),
// and, in thorough, blind-rotation rings up to N = 2048 and LWE dimensions up to 1024.
func brSizeScenarios(tier string) []engine.Scenario {
	var scs []engine.Scenario
	thorough := tier == "thorough"
	seen := map[string]bool{}
	add := func(lLWE, lBR int, v brVariant, hs []int, big bool, leaves []int) {
		for _, h := range hs {
			for _, li := range leaves {
				cf := brConfig{lLWE, lBR, v, h, -1, 1, li, big}
				if !seen[cf.name()] {
					seen[cf.name()] = true
					scs = append(scs, brScenario(cf))
				}
			}
		}
	}
	lq := brLargeQVariants
	all4, two := []int{0, 1, 2, 3}, []int{0, 1}
	// 60 bits: Q·2N > 2^64 on every ring; whole circle on the small rings
	add(4, 5, lq[0], []int{1, 8}, false, all4)
	add(4, 6, lq[0], []int{1, 8}, false, []int{0, 3})
	add(4, 5, lq[2], []int{8}, false, []int{0, 3})
	// 55 bits: below the bound on N_BR = 32 (bit-identical region), above it on N_BR = 512
	add(4, 5, lq[1], []int{1, 8}, false, []int{0, 3})
	add(4, 9, lq[1], []int{1, 8}, true, two)
	if thorough {
		for _, lBR := range []int{6, 7, 8, 9} {
			for _, v := range lq {
				add(4, lBR, v, []int{1, 2, 8}, true, two)
				add(5, lBR, v, []int{16}, true, two)
			}
		}
		// ring sizes: N_BR up to 2048, LWE dimension up to 1024
		add(4, 10, brVariants[0], []int{1, 8}, true, two)
		add(4, 11, brVariants[0], []int{1, 8}, true, two)
		add(4, 11, brVariants[3], []int{8}, true, []int{1})
		add(8, 9, brVariants[0], []int{1, 128}, true, two)
		add(8, 9, lq[1], []int{128}, true, []int{1})
		add(10, 10, brVariants[0], []int{1}, true, []int{1})
		add(10, 11, brVariants[0], []int{512}, true, []int{1})
	}
	return scs
}

// brKeyScenario judges blindrot.GenEvaluationKeyNew on its own: one RGSW key per LWE secret coefficient, each an
// RGSW encryption of X^{s_i} with well-formed rows, and the Galois keys for 5^1..5^w (w = 10, the window of the
// algorithm) and for −5.
func brKeyScenario(cf brConfig) engine.Scenario {
	name := fmt.Sprintf("brkeys/%s/NLWE=%d/NBR=%d/h=%d", cf.v.name, 1<<cf.logNLWE, 1<<cf.logNBR, cf.h)
	return engine.Scenario{Name: name, Bound: -1, Fn: func(c *engine.Chooser) {
		lwe, br := cf.params()
		uni.Seed(c, name)
		skLWE := rlwe.NewKeyGenerator(lwe).GenSecretKeyNew()
		skBR := rlwe.NewKeyGenerator(br).GenSecretKeyNew()
		sLWE, _ := secretInts(lwe, skLWE)
		sBR, _ := secretInts(br, skBR)
		evkParams := cf.evkParams()
		keys := blindrot.GenEvaluationKeyNew(br, skBR, lwe, skLWE, evkParams)
		if len(keys.BlindRotationKeys) != lwe.N() {
			c.Fail("C20/blindrot/GenEvaluationKeyNew/rgsw-key-count", "%s: %d RGSW keys for %d secret coefficients", name, len(keys.BlindRotationKeys), lwe.N())
			return
		}
		Be := big.NewInt(int64(br.NoiseBound()))
		for i, k := range keys.BlindRotationKeys {
			if k.LevelQ() != cf.keyLevelQ(br) || k.LevelP() != br.MaxLevelP() || k.Value[0].BaseTwoDecomposition != cf.v.pw2 {
				c.Fail("C20/blindrot/GenEvaluationKeyNew/rgsw-key-shape", "%s: key %d at levels (%d,%d), base-two %d", name, i, k.LevelQ(), k.LevelP(), k.Value[0].BaseTwoDecomposition)
				continue
			}
			if _, rowMax := rgswErrs(br, k, sBR, monomialSmall(br.N(), int(sLWE[i]))); rowMax.Cmp(Be) > 0 {
				sig := "C20/blindrot/GenEvaluationKeyNew/rgsw-key-is-not-RGSW(X^s_i)"
				if br.MaxLevelP() < 0 {
					sig = "C20/rgsw/Encrypt/row-noise/levelP=-1" // same defect as in the rgswenc/ scenarios: one signature
				}
				c.Fail(sig, "%s: RGSW key %d (s_i=%d) has a row that decrypts X^{s_i} with error 2^%d, noise bound %v", name, i, sLWE[i], rowMax.BitLen(), Be)
			}
		}
		want := map[uint64]bool{br.RingQ().NthRoot() - ring.GaloisGen: true}
		for v := 1; v <= 10; v++ {
			want[br.GaloisElement(v)] = true
		}
		got := map[uint64]bool{}
		for _, gk := range keys.AutomorphismKeys {
			got[gk.GaloisElement] = true
		}
		for g := range want {
			if !got[g] {
				c.Fail("C20/blindrot/GenEvaluationKeyNew/galois-key-missing", "%s: no Galois key for element %d", name, g)
			}
		}
		for g := range got {
			if !want[g] {
				c.Fail("C20/blindrot/GenEvaluationKeyNew/galois-key-superfluous", "%s: Galois key for element %d is never used by the algorithm", name, g)
			}
		}
		c.Count(lwe.N() + len(keys.AutomorphismKeys))
		c.Cover("brkeys", cf.v.name)
		c.Outcome(name, len(keys.AutomorphismKeys))
	}}
}

// brGrowScenario: "the generated keys contain exactly the keys the algorithm requests", read from the other side, and
// a key set that gains keys while an evaluator is alive.
//  1. a reference run with every key records which Galois keys the first sample needs;
//  2. a new evaluator gets a key set holding the RGSW keys and only those Galois keys (its list is truthful): the
//     evaluation must succeed and return the same bits;
//  3. the remaining Galois keys are added to that key set and a second sample is evaluated on the same evaluator: same
//     bits as a fresh evaluator with the complete set;
//  4. the same evaluator is then given the key set of a different blind-rotation secret.
func brGrowScenario(cf brConfig) engine.Scenario {
	name := fmt.Sprintf("brgrow/%s/NLWE=%d/NBR=%d/h=%d", cf.v.name, 1<<cf.logNLWE, 1<<cf.logNBR, cf.h)
	return engine.Scenario{Name: name, Bound: -1, Fn: func(c *engine.Chooser) {
		lwe, br := cf.params()
		nLWE, nBR := lwe.N(), br.N()
		which := c.Choose(3, "slots")
		slotSets := [][]int{{0}, {1, nLWE - 1}, {2, nLWE / 2, nLWE - 3}}
		slots := slotSets[which]
		uni.Seed(c, name, which)
		skLWE := rlwe.NewKeyGenerator(lwe).GenSecretKeyNew()
		skBR := rlwe.NewKeyGenerator(br).GenSecretKeyNew()
		sLWE, _ := secretInts(lwe, skLWE)
		sBR, _ := secretInts(br, skBR)
		full, src := brKeys(c, cf, lwe, br, skLWE, skBR, sLWE, sBR)
		c.Cover("brk-source", src+"/"+cf.v.name)
		kl := cf.keyLevelQ(br)
		poly := blindrot.InitTestPolynomial(func(x float64) float64 { return x }, rlwe.NewScale(math.Ldexp(1, uni.QAtLevel(br, kl).BitLen()-5)), br.RingQ().AtLevel(kl), -1, 1)
		tpm := map[int]*ring.Poly{}
		for _, sl := range slots {
			tpm[sl] = &poly
		}
		enc := rlwe.NewEncryptor(lwe, skLWE)
		sample := func(shift int) *rlwe.Ciphertext {
			lvl := cf.v.lweLevel
			q := uni.QAtLevel(lwe, lvl)
			pt := rlwe.NewPlaintext(lwe, lvl)
			for i := 0; i < nLWE; i++ {
				v := ref.RoundDivHalfUp(new(big.Int).Mul(big.NewInt(int64((i+shift)%nBR-nBR/2)), q), big.NewInt(int64(2*nBR)))
				for j, qj := range lwe.Q()[:lvl+1] {
					pt.Value.Coeffs[j][i] = ref.ModU(v, qj)
				}
			}
			if pt.IsNTT {
				lwe.RingQ().AtLevel(lvl).NTT(pt.Value, pt.Value)
			}
			ct := rlwe.NewCiphertext(lwe, 1, lvl)
			if err := enc.Encrypt(pt, ct); err != nil {
				panic(err)
			}
			return ct
		}
		equal := func(a, b map[int]*rlwe.Ciphertext) bool {
			if len(a) != len(b) {
				return false
			}
			for _, sl := range slots {
				if a[sl] == nil || b[sl] == nil || !a[sl].Equal(b[sl]) {
					return false
				}
			}
			return true
		}
		ct1, ct2 := sample(0), sample(5)
		ref1, err, stop := evaluate(c, cf, name, blindrot.NewEvaluator(br, lwe), ct1, tpm, full, br)
		if stop {
			return
		}
		if err != nil || len(full.missing) > 0 {
			c.Fail("C20/blindrot/keys/requested-key-not-generated", "%s: reference run: %v %v", name, err, full.missing)
			return
		}
		var needed []*rlwe.GaloisKey
		var later []*rlwe.GaloisKey
		for _, gk := range full.gkList {
			if full.reqGal[gk.GaloisElement] > 0 {
				needed = append(needed, gk)
			} else {
				later = append(later, gk)
			}
		}
		growing := newRecKeySet(full.brk, needed)
		eval := blindrot.NewEvaluator(br, lwe)
		got1, err := eval.Evaluate(ct1, tpm, growing)
		if err != nil || !equal(got1, ref1) {
			c.Fail("C20/blindrot/keyset/minimal-set/"+cf.v.name, "%s slots %v: with exactly the %d Galois keys the reference run requested (of %d generated) the evaluation fails or differs: err=%v missing=%v",
				name, slots, len(needed), len(full.gkList), err, growing.missing)
			return
		}
		for _, gk := range later { // the key set gains keys after the evaluator has been used
			growing.gks[gk.GaloisElement] = gk
			growing.galList = append(growing.galList, gk.GaloisElement)
			growing.gkList = append(growing.gkList, gk)
		}
		got2, err2 := eval.Evaluate(ct2, tpm, growing)
		ref2, err3 := blindrot.NewEvaluator(br, lwe).Evaluate(ct2, tpm, newRecKeySet(full.brk, full.gkList))
		if err2 != nil || err3 != nil || !equal(got2, ref2) {
			c.Fail("C20/blindrot/keyset/grown-set/"+cf.v.name, "%s slots %v: after %d Galois keys were added to the key set of a used evaluator the evaluation fails or differs from a fresh evaluator: err=%v/%v missing=%v",
				name, slots, len(later), err2, err3, growing.missing)
		}
		// 4. the same evaluator is handed a different key set: keys of a second blind-rotation secret. Nothing of the
		// first set may survive inside the evaluator: same bits as a fresh evaluator with the second set.
		skBR2 := rlwe.NewKeyGenerator(br).GenSecretKeyNew()
		sBR2, _ := secretInts(br, skBR2)
		second, _ := brKeys(c, cf, lwe, br, skLWE, skBR2, sLWE, sBR2)
		got3, err4 := eval.Evaluate(ct1, tpm, second)
		ref3, err5 := blindrot.NewEvaluator(br, lwe).Evaluate(ct1, tpm, newRecKeySet(second.brk, second.gkList))
		if err4 != nil || err5 != nil || !equal(got3, ref3) {
			c.Fail("C20/blindrot/keyset/switched-set/"+cf.v.name, "%s slots %v: a used evaluator given the key set of another secret fails or differs from a fresh evaluator: err=%v/%v missing=%v",
				name, slots, err4, err5, second.missing)
		}
		c.Count(6 * len(slots))
		c.Cover("brgrow", cf.v.name)
		c.Outcome(name, len(needed), len(later))
		c.Note("slots %v: %d Galois keys needed by the first sample, %d added later", slots, len(needed), len(later))
	}}
}
