// Recording key set for the blind rotation: wraps the generated keys behind the
// blindrot.BlindRotationEvaluationKeySet / rlwe.EvaluationKeySet interfaces, refuses keys that were not
// generated and logs every request, segmented per blind rotation (BlindRotateCore starts by calling
// GetEvaluationKeySet).
package main

import (
	"fmt"

	"github.com/tuneinsight/lattigo/v6/core/rgsw"
	"github.com/tuneinsight/lattigo/v6/core/rlwe"
)

type segment struct {
	extProducts int // GetBlindRotationKey calls (one external product each)
	keySwitches int // GetGaloisKey calls (one automorphism each)
}

type recKeySet struct {
	brk      []*rgsw.Ciphertext
	gks      map[uint64]*rlwe.GaloisKey
	galList  []uint64 // in generation order
	gkList   []*rlwe.GaloisKey
	reqBRK   map[int]int
	reqGal   map[uint64]int
	missing  []string
	segments []segment
	pre      segment
	inPre    bool
}

func newRecKeySet(brk []*rgsw.Ciphertext, gks []*rlwe.GaloisKey) *recKeySet {
	r := &recKeySet{brk: brk, gks: map[uint64]*rlwe.GaloisKey{}, reqBRK: map[int]int{}, reqGal: map[uint64]int{}}
	r.gkList = gks
	for _, gk := range gks {
		r.gks[gk.GaloisElement] = gk
		r.galList = append(r.galList, gk.GaloisElement)
	}
	return r
}

// beginCall is called by the harness before every Evaluate: requests made before the first
// GetEvaluationKeySet of the call (the level look-up on RGSW key 0) are booked on `pre`.
func (r *recKeySet) beginCall() { r.inPre = true }

func (r *recKeySet) cur() *segment {
	if r.inPre || len(r.segments) == 0 {
		return &r.pre
	}
	return &r.segments[len(r.segments)-1]
}

// GetBlindRotationKey implements blindrot.BlindRotationEvaluationKeySet.
func (r *recKeySet) GetBlindRotationKey(i int) (*rgsw.Ciphertext, error) {
	if i < 0 || i >= len(r.brk) || r.brk[i] == nil {
		r.missing = append(r.missing, fmt.Sprintf("RGSW key %d", i))
		return nil, fmt.Errorf("recKeySet: RGSW key %d was not generated", i)
	}
	r.reqBRK[i]++
	r.cur().extProducts++
	return r.brk[i], nil
}

// GetEvaluationKeySet implements blindrot.BlindRotationEvaluationKeySet.
func (r *recKeySet) GetEvaluationKeySet() (rlwe.EvaluationKeySet, error) {
	r.inPre = false
	r.segments = append(r.segments, segment{})
	return recEvk{r}, nil
}

type recEvk struct{ r *recKeySet }

func (e recEvk) GetGaloisKey(galEl uint64) (*rlwe.GaloisKey, error) {
	gk, ok := e.r.gks[galEl]
	if !ok {
		e.r.missing = append(e.r.missing, fmt.Sprintf("Galois key %d", galEl))
		return nil, fmt.Errorf("recKeySet: Galois key for element %d was not generated", galEl)
	}
	e.r.reqGal[galEl]++
	e.r.cur().keySwitches++
	return gk, nil
}

func (e recEvk) GetGaloisKeysList() []uint64 { return append([]uint64{}, e.r.galList...) }

func (e recEvk) GetRelinearizationKey() (*rlwe.RelinearizationKey, error) {
	e.r.missing = append(e.r.missing, "relinearization key")
	return nil, fmt.Errorf("recKeySet: no relinearization key")
}

func (e recEvk) ShallowCopy() rlwe.EvaluationKeySet { return e }

// unused lists the generated keys that no request touched.
func (r *recKeySet) unused() (s []string) {
	for i := range r.brk {
		if r.reqBRK[i] == 0 {
			s = append(s, fmt.Sprintf("RGSW[%d]", i))
		}
	}
	for _, g := range r.galList {
		if r.reqGal[g] == 0 {
			s = append(s, fmt.Sprintf("Galois[%d]", g))
		}
	}
	return
}
