// History of one long-lived blindrot.Evaluator: sequences of calls of different shape (LWE level, slot map and
// test-polynomial set, level of the key set, refused calls) on the same evaluator, every call bit-compared with
// the same call on a fresh evaluator (Evaluate draws no randomness, so equality of the ciphertexts — hence of the
// rotation index and of the phase — is exact, not a noise margin).
package main

import (
	"fmt"
	"math"
	"math/big"

	"github.com/tuneinsight/lattigo/v6/core/rgsw/blindrot"
	"github.com/tuneinsight/lattigo/v6/core/rlwe"
	"github.com/tuneinsight/lattigo/v6/ring"

	"verif/engine"
	"verif/ref"
	"verif/uni"
)

// LWE chains with 2 and 3 small moduli, blind-rotation rings with 2 and 3 moduli in Q (two auxiliary primes).
func lweChain(n int) func(l int) []uint64 {
	return func(l int) []uint64 {
		var q []uint64
		for i := 0; i < n; i++ {
			q = append(q, nttPrime(l, 1<<16, false, i))
		}
		return q
	}
}

func brChain(n int) func(l int) []uint64 {
	return func(l int) []uint64 {
		var q []uint64
		for i := 0; i < n; i++ {
			q = append(q, nttPrime(l, 1<<40, true, i))
		}
		return q
	}
}

// brMultiLevelVariants: LWE parameters with 3 moduli, the sample at every level, against a three-prime ring (regular
// blindrot/ scenarios with the exact rotation oracle; the two-moduli case is multipleP-lwe2@0/@1).
var brMultiLevelVariants = func() []brVariant {
	var vs []brVariant
	for lvl := 0; lvl < 3; lvl++ {
		v := brVariants[3]
		v.name, v.q, v.qLWE, v.lweLevel = fmt.Sprintf("multipleP3-lwe3@%d", lvl), brChain(3), lweChain(3), lvl
		vs = append(vs, v)
	}
	return vs
}()

type histConfig struct {
	name         string
	nLWEQ, nBRQ  int // number of moduli of the LWE chain and of the blind-rotation ring
	logLWE, logN int
	h            int
	depth        int // calls per sequence
}

// one call shape
type histCall struct {
	name     string
	lweLevel int
	slots    []int
	fnOff    int
	keyLevel int    // levelQ of the key set used; the test polynomials are built at that level
	refuse   string // "", "missing-galois-key", "short-test-polynomial" (lweLevel above the ring is refused by itself)
}

func (hc histConfig) variant() brVariant {
	v := brVariants[3]
	v.name, v.q, v.qLWE = hc.name, brChain(hc.nBRQ), lweChain(hc.nLWEQ)
	return v
}

func (hc histConfig) calls(nLWE int) []histCall {
	top := hc.nLWEQ - 1
	legalTop := top
	if legalTop > hc.nBRQ-1 {
		legalTop = hc.nBRQ - 1
	}
	cs := []histCall{
		{"lvl0/slot0/topkeys", 0, []int{0}, 0, hc.nBRQ - 1, ""},
		{fmt.Sprintf("lvl%d/slots1,N-1/topkeys", legalTop), legalTop, []int{1, nLWE - 1}, 1, hc.nBRQ - 1, ""},
		{"lvl0/slots2,N/2,N-3/lowkeys", 0, []int{2, nLWE / 2, nLWE - 3}, 2, 0, ""},
		{fmt.Sprintf("lvl%d/slots0,1/midkeys", legalTop), legalTop, []int{0, 1}, 0, (hc.nBRQ - 1) / 2, ""},
		{"lvl0/slot5/topkeys/missing-galois-key", 0, []int{5}, 1, hc.nBRQ - 1, "missing-galois-key"},
		{"lvl0/slot3/topkeys/short-test-polynomial", 0, []int{3}, 2, hc.nBRQ - 1, "short-test-polynomial"},
	}
	if legalTop >= 2 {
		cs = append(cs, histCall{"lvl1/slots0,7/topkeys", 1, []int{0, 7}, 2, hc.nBRQ - 1, ""})
	}
	if top > hc.nBRQ-1 {
		// a sample with more moduli than the ring has: refused with an error (fix b05fd3c)
		cs = append(cs, histCall{fmt.Sprintf("lvl%d/slot0/above-the-ring", top), top, []int{0}, 0, hc.nBRQ - 1, ""})
	}
	return cs
}

type histOutcome struct {
	panicked interface{}
	err      error
	res      map[int]*rlwe.Ciphertext
}

func (o histOutcome) class() string {
	switch {
	case o.panicked != nil:
		return "panic"
	case o.err != nil:
		return "error"
	}
	return "ok"
}

// sameOutcome compares two outcomes at the level of the keys (Evaluate works there; the moduli of the result above
// that level are whatever the accumulator held and carry no meaning).
func sameOutcome(a, b histOutcome, level int) bool {
	if a.class() != b.class() || len(a.res) != len(b.res) {
		return false
	}
	for sl, r := range a.res {
		if b.res[sl] == nil || r.IsNTT != b.res[sl].IsNTT || !truncated(&r.Element, level).Equal(truncated(&b.res[sl].Element, level)) {
			return false
		}
	}
	return true
}

func lweSample(lwe rlwe.Parameters, enc *rlwe.Encryptor, lvl, nBR, shift int) *rlwe.Ciphertext {
	q := uni.QAtLevel(lwe, lvl)
	pt := rlwe.NewPlaintext(lwe, lvl)
	for i := 0; i < lwe.N(); i++ {
		v := ref.RoundDivHalfUp(new(big.Int).Mul(big.NewInt(int64((i*3+shift)%nBR-nBR/2)), q), big.NewInt(int64(2*nBR)))
		for j, qj := range lwe.Q()[:lvl+1] {
			pt.Value.Coeffs[j][i] = ref.ModU(v, qj)
		}
	}
	if pt.IsNTT {
		lwe.RingQ().AtLevel(lvl).NTT(pt.Value, pt.Value)
	}
	ct := rlwe.NewCiphertext(lwe, 1, lvl)
	if err := enc.Encrypt(pt, ct); err != nil {
		panic(err)
	}
	return ct
}

func brHistoryScenario(hc histConfig) engine.Scenario {
	name := fmt.Sprintf("brhistory/%s/NLWE=%d/NBR=%d/h=%d/depth=%d", hc.name, 1<<hc.logLWE, 1<<hc.logN, hc.h, hc.depth)
	return engine.Scenario{Name: name, Bound: -1, Fn: func(c *engine.Chooser) {
		cf := brConfig{logNLWE: hc.logLWE, logNBR: hc.logN, v: hc.variant(), h: hc.h, a: -1, b: 1}
		lwe, br := cf.params()
		nLWE, nBR := lwe.N(), br.N()
		calls := hc.calls(nLWE)
		seq := make([]int, hc.depth)
		for i := range seq {
			seq[i] = c.Choose(len(calls), fmt.Sprintf("call%d", i))
		}
		uni.Seed(c, name)
		skLWE := rlwe.NewKeyGenerator(lwe).GenSecretKeyNew()
		skBR := rlwe.NewKeyGenerator(br).GenSecretKeyNew()
		sLWE, _ := secretInts(lwe, skLWE)
		sBR, _ := secretInts(br, skBR)
		enc := rlwe.NewEncryptor(lwe, skLWE)

		// key sets and test polynomials per key level, built on demand
		type material struct {
			keys  *recKeySet
			polys []ring.Poly
		}
		mat := map[int]*material{}
		get := func(kl int) *material {
			if m, ok := mat[kl]; ok {
				return m
			}
			kcf := cf
			kcf.v.keyLevel = kl
			keys, _ := brKeys(c, kcf, lwe, br, skLWE, skBR, sLWE, sBR)
			m := &material{keys: keys}
			scale := rlwe.NewScale(math.Ldexp(1, uni.QAtLevel(br, kl).BitLen()-6))
			for _, f := range brFuncs {
				m.polys = append(m.polys, blindrot.InitTestPolynomial(f.mk(-1, 1, nBR), scale, br.RingQ().AtLevel(kl), -1, 1))
			}
			mat[kl] = m
			return m
		}

		run := func(eval *blindrot.Evaluator, hcall histCall, ct *rlwe.Ciphertext) histOutcome {
			m := get(hcall.keyLevel)
			ks := newRecKeySet(m.keys.brk, m.keys.gkList)
			tpm := map[int]*ring.Poly{}
			for _, sl := range hcall.slots {
				tpm[sl] = &m.polys[(sl+hcall.fnOff)%len(brFuncs)]
			}
			switch hcall.refuse {
			case "missing-galois-key":
				ks = newRecKeySet(m.keys.brk, nil) // RGSW keys only: the first automorphism cannot be served
			case "short-test-polynomial":
				// a test polynomial with fewer moduli than the keys: built for level 0 while the keys sit at the top
				low := get(0)
				for _, sl := range hcall.slots {
					tpm[sl] = &low.polys[0]
				}
			}
			var o histOutcome
			_, o.panicked = uni.Try(func() error { o.res, o.err = eval.Evaluate(ct, tpm, ks); return nil })
			return o
		}

		used := blindrot.NewEvaluator(br, lwe)
		desc := ""
		for step, ci := range seq {
			hcall := calls[ci]
			ct := lweSample(lwe, enc, hcall.lweLevel, nBR, 7*step+ci)
			want := run(blindrot.NewEvaluator(br, lwe), hcall, ct)
			got := run(used, hcall, ct)
			desc += fmt.Sprintf("[%s → %s]", hcall.name, want.class())
			c.Cover("brhistory-call", fmt.Sprintf("%d-moduli/%s:%s", hc.nLWEQ, hcall.name[:4], want.class()))
			if want.class() != "ok" {
				c.Cover("brhistory-refused", want.class())
			}
			if step > 0 && !sameOutcome(got, want, hcall.keyLevel) {
				prev := calls[seq[step-1]]
				c.Fail("C20/blindrot/history/sequence/"+hc.name, "%s: call %d %s on an evaluator that has served %s returns %s, a fresh evaluator returns %s (different ciphertexts or different refusal); previous call: lwe level %d, key level %d, refuse=%q",
					name, step, hcall.name, desc, got.class(), want.class(), prev.lweLevel, prev.keyLevel, prev.refuse)
				break
			}
		}
		c.Count(2 * len(seq))
		c.Cover("brhistory", hc.name)
		c.Outcome(name, desc)
		c.Note("%s", desc)
	}}
}

func brHistoryScenarios(tier string) []engine.Scenario {
	var scs []engine.Scenario
	cfgs := []histConfig{
		{"lwe2-br2", 2, 2, 4, 5, 8, 2},
		{"lwe3-br3", 3, 3, 4, 5, 8, 2},
		{"lwe3-br2", 3, 2, 4, 5, 1, 2}, // level-2 samples are refused: history after a refusal
	}
	if tier == "thorough" {
		for _, c := range cfgs {
			c.depth = 3
			cfgs = append(cfgs, c)
		}
		cfgs = append(cfgs, histConfig{"lwe3-br3", 3, 3, 5, 6, 16, 2})
	}
	for _, c := range cfgs {
		scs = append(scs, brHistoryScenario(c))
	}
	return scs
}
