// RGSW encryption rows, NoiseRGSWCiphertext, and the RGSW-side algebra (AddLazy + Reduce,
// MulByXPowAlphaMinusOneLazy, MulByXPowAlphaMinusOneThenAddLazy) against plaintext algebra.
package main

import (
	"fmt"
	"math"
	"math/big"

	"github.com/tuneinsight/lattigo/v6/core/rgsw"
	"github.com/tuneinsight/lattigo/v6/core/rlwe"
	"github.com/tuneinsight/lattigo/v6/ring"
	"github.com/tuneinsight/lattigo/v6/ring/ringqp"

	"verif/engine"
	"verif/ref"
	"verif/uni"
)

// ---------------------------------------------------------------------------------------------
// encryption

// log2Std reproduces the statistic NoiseGadgetCiphertext documents: log2 of the (N−1)-normalised standard
// deviation of the summed error polynomial, maximised over the base-two digits, floored at 0.
func log2Std(errs [][][]*big.Int, QP *big.Int) float64 {
	minDigits := len(errs[0])
	for _, e := range errs {
		if len(e) < minDigits {
			minDigits = len(e)
		}
	}
	best := 0.0
	for j := 0; j < minDigits; j++ {
		n := len(errs[0][j])
		sum := make([]*big.Float, n)
		for t := range sum {
			acc := new(big.Int)
			for i := range errs {
				acc.Add(acc, errs[i][j][t])
			}
			sum[t] = new(big.Float).SetPrec(256).SetInt(ref.Center(acc, QP)) // the library sums the rows in R_QP
		}
		mean := new(big.Float).SetPrec(256)
		for _, v := range sum {
			mean.Add(mean, v)
		}
		mean.Quo(mean, new(big.Float).SetPrec(256).SetInt64(int64(n)))
		vr := new(big.Float).SetPrec(256)
		for _, v := range sum {
			d := new(big.Float).SetPrec(256).Sub(v, mean)
			vr.Add(vr, d.Mul(d, d))
		}
		vr.Quo(vr, new(big.Float).SetPrec(256).SetInt64(int64(n-1)))
		vr.Sqrt(vr)
		f, _ := vr.Float64()
		if l := math.Log2(f); l > best {
			best = l
		}
	}
	return best
}

var ptEncodings = []struct {
	name      string
	ntt, mont bool
	nilPt     bool
}{
	{"coeff", false, false, false},
	{"ntt", true, false, false},
	{"ntt+mont", true, true, false},
	{"coeff+mont", false, true, false},
	{"nil", false, false, true},
}

func rgswEncScenario(e epConfig) engine.Scenario {
	name := "rgswenc" + e.name()[len("extprod"):]
	return engine.Scenario{Name: name, Bound: -1, Fn: func(c *engine.Chooser) {
		params := e.sh.params(e.np, e.ntt)
		n := params.N()
		encI := c.Choose(len(ptEncodings), "plaintext-encoding")
		encoding := ptEncodings[encI]
		all := rgswMsgs(n)
		cand := []rgswMsg{all[1], all[2+n/2], all[len(all)-2], all[n+5]} // 1, a monomial, dense ternary, X^a−1
		uni.Seed(c, name, encI)
		sk := rlwe.NewKeyGenerator(params).GenSecretKeyNew()
		s, _ := secretInts(params, sk)
		rQ := params.RingQ().AtLevel(e.levelQ)

		for _, gm := range cand {
			// plaintext in the announced domain
			pt := rlwe.NewPlaintext(params, e.levelQ)
			for k, q := range rQ.ModuliChain()[:e.levelQ+1] {
				copy(pt.Value.Coeffs[k], resPoly(gm.g, q))
			}
			if encoding.ntt {
				rQ.NTT(pt.Value, pt.Value)
			}
			if encoding.mont {
				rQ.MForm(pt.Value, pt.Value)
			}
			pt.IsNTT, pt.IsMontgomery = encoding.ntt, encoding.mont
			g := gm.g
			var ptArg *rlwe.Plaintext = pt
			if encoding.nilPt {
				ptArg, g = nil, make([]int64, n)
			}
			ct := rgsw.NewCiphertext(params, e.levelQ, e.levelP, e.pw2)
			ptBefore := pt.Value.CopyNew()
			if err := rgsw.NewEncryptor(params, sk).Encrypt(ptArg, ct); err != nil {
				c.Fail("C20/rgsw/Encrypt/error", "%s: %v", name, err)
				continue
			}
			c.Cover("pt-encoding", encoding.name)
			if !pt.Value.Equal(ptBefore) {
				// the plaintext argument is an input; when it is overwritten the ciphertext does not encrypt it either
				c.Fail("C20/rgsw/Encrypt/plaintext-overwritten/"+encoding.name, "%s pt=%s g=%s: rgsw.Encryptor.Encrypt modified its plaintext argument", name, encoding.name, gm.name)
				continue
			}
			QP := uni.QAtLevel(params, e.levelQ)
			if e.levelP >= 0 {
				QP.Mul(QP, ref.Prod(params.RingP().ModuliChain()[:e.levelP+1]))
			}
			errs, rowMax := rgswErrs(params, ct, s, g)
			Be := big.NewInt(int64(params.NoiseBound()))
			lp := "levelP>=0"
			if e.levelP < 0 {
				lp = "levelP=-1"
			}
			if rowMax.Cmp(Be) > 0 {
				// RGSW encryption = two gadget encryptions of g and g·s: every row must decrypt to its gadget plaintext
				// with an error within the truncation bound of the declared error distribution.
				c.Fail("C20/rgsw/Encrypt/row-noise/"+lp, "%s pt=%s g=%s: a row of rgsw.Encryptor.Encrypt decrypts with error 2^%d, declared noise bound %v",
					name, encoding.name, gm.name, rowMax.BitLen(), Be)
			}
			c.Cover("rgswenc", lp)

			// NoiseRGSWCiphertext (pt in the NTT and Montgomery domains, as its doc asks) against our own decryption.
			ptNM := rQ.NewPoly()
			for k, q := range rQ.ModuliChain()[:e.levelQ+1] {
				copy(ptNM.Coeffs[k], resPoly(g, q))
			}
			rQ.NTT(ptNM, ptNM)
			rQ.MForm(ptNM, ptNM)
			var l, r float64
			_, pan := uni.Try(func() error { l, r = rgsw.NoiseRGSWCiphertext(ct, ptNM, sk, params); return nil })
			if pan != nil {
				c.Fail("C20/rgsw/NoiseRGSWCiphertext/panic", "%s: %v", name, pan)
			} else {
				wl, wr := log2Std(errs[0], QP), log2Std(errs[1], QP)
				if math.Abs(l-wl) > 1e-6 || math.Abs(r-wr) > 1e-6 {
					c.Fail("C20/rgsw/NoiseRGSWCiphertext/value", "%s pt=%s g=%s: NoiseRGSWCiphertext = (%.6f, %.6f), independent decryption gives (%.6f, %.6f)",
						name, encoding.name, gm.name, l, r, wl, wr)
				}
				c.Outcome("noise", int(l), int(r))
			}
		}
		c.Count(2 * len(cand))
	}}
}

// ---------------------------------------------------------------------------------------------
// algebra

// monomialMinusOne returns X^a − 1 (a taken modulo 2N, X^N = −1) as a small polynomial.
func monomialMinusOne(n, a int) []int64 {
	v := make([]int64, n)
	a = ((a % (2 * n)) + 2*n) % (2 * n)
	if a < n {
		v[a]++
	} else {
		v[a-n]--
	}
	v[0]--
	return v
}

func addSmall(a, b []int64) []int64 {
	r := make([]int64, len(a))
	for i := range a {
		r[i] = a[i] + b[i]
	}
	return r
}

// qpFromSmall returns v in R_QP in the NTT and Montgomery domains.
func qpFromSmall(params rlwe.Parameters, levelQ, levelP int, v []int64) ringqp.Poly {
	rqp := params.RingQP().AtLevel(levelQ, levelP)
	p := rqp.NewPoly()
	for k, q := range rqp.RingQ.ModuliChain()[:levelQ+1] {
		copy(p.Q.Coeffs[k], resPoly(v, q))
	}
	if levelP >= 0 {
		for k, q := range rqp.RingP.ModuliChain()[:levelP+1] {
			copy(p.P.Coeffs[k], resPoly(v, q))
		}
	}
	rqp.NTT(p, p)
	rqp.MForm(p, p)
	return p
}

var algOps = []string{"AddLazy(ct)", "AddLazy(pt)", "MulByXPowAlphaMinusOneLazy", "MulByXPowAlphaMinusOneThenAddLazy"}

func rgswAlgScenario(e epConfig) engine.Scenario {
	name := "rgswalg" + e.name()[len("extprod"):]
	return engine.Scenario{Name: name, Bound: -1, Fn: func(c *engine.Chooser) {
		params := e.sh.params(e.np, e.ntt)
		n := params.N()
		op := c.Choose(len(algOps), "op")
		uni.Seed(c, name, op)
		sk := rlwe.NewKeyGenerator(params).GenSecretKeyNew()
		s, sNorm1 := secretInts(params, sk)
		rqp := params.RingQP().AtLevel(e.levelQ, e.levelP)
		Be := big.NewInt(int64(params.NoiseBound()))
		Q := uni.QAtLevel(params, e.levelQ)
		all := rgswMsgs(n)
		g1 := all[len(all)-2].g // dense ternary
		g2 := all[len(all)-1].g // sparse ternary
		enc := rlwe.NewEncryptor(params, sk)
		eval := rgsw.NewEvaluator(params, nil)
		short := digitsShort(params, e.levelQ, e.levelP, e.pw2)

		// judge: rows of `res` decrypt to `want` within `rows`·Be, and res used in an external product multiplies by `want`.
		judge := func(what string, res *rgsw.Ciphertext, want []int64, rows int64) {
			rb := new(big.Int).Mul(Be, big.NewInt(rows))
			_, rowMax := rgswErrs(params, res, s, want)
			if rowMax.Cmp(rb) > 0 {
				c.Fail("C20/rgsw/"+algOps[op]+"/rows", "%s %s: a row of the result decrypts with error 2^%d > %d·noise bound; plaintext algebra not followed",
					name, what, rowMax.BitLen(), rows)
				return
			}
			bound := extProdBound(params, res, rb, sNorm1)
			if short || new(big.Int).Lsh(bound, 2).Cmp(Q) >= 0 {
				return // rows judged; product not judgeable for this decomposition
			}
			m := make([]*big.Int, n)
			for i := range m {
				m[i] = big.NewInt(int64(i+1) * 1234577)
			}
			m[3].Rsh(Q, 2)
			ct := rlwe.NewCiphertext(params, 1, e.levelQ)
			if err := enc.Encrypt(newPlaintext(params, e.levelQ, m), ct); err != nil {
				panic(err)
			}
			phIn := uni.Phase(params, &ct.Element, sk)
			eval.ExternalProduct(ct, res, ct)
			diff := uni.SubCentered(uni.Phase(params, &ct.Element, sk), centerAll(mulBigSmall(phIn, want), Q), Q)
			if nz := ref.InfNorm(diff); nz.Cmp(bound) > 0 {
				c.Fail("C20/rgsw/"+algOps[op]+"/product", "%s %s: external product with the result is off by 2^%d (bound 2^%d)", name, what, nz.BitLen(), bound.BitLen())
			}
		}

		evals := 0
		switch op {
		case 0: // ct + ct
			a, srcA := wellFormedRGSW(params, sk, s, e.levelQ, e.levelP, e.pw2, g1, c.Seed^11)
			b, _ := wellFormedRGSW(params, sk, s, e.levelQ, e.levelP, e.pw2, g2, c.Seed^12)
			c.Cover("rgsw-source", srcA)
			bCopy := copyRGSW(params, b)
			rgsw.AddLazy(b, rqp, a)
			rgsw.Reduce(a, rqp, a)
			if !equalRGSW(b, bCopy) {
				c.Fail("C20/rgsw/AddLazy(ct)/operand-modified", "%s: the added operand changed", name)
			}
			judge("g1+g2", a, addSmall(g1, g2), 2)
			evals++
		case 1: // ct + plaintext gadget
			vals := []struct {
				name string
				arg  interface{}
				g    []int64
			}{
				{"uint64(3)", uint64(3), constPoly(n, 3)},
				{"int64(-2)", int64(-2), constPoly(n, -2)},
				{"ring.Poly", smallPoly(params, e.levelQ, g2), g2},
			}
			for _, v := range vals {
				a, _ := wellFormedRGSW(params, sk, s, e.levelQ, e.levelP, e.pw2, g1, c.Seed^21)
				pt, err := rgsw.NewPlaintext(params, v.arg, e.levelQ, e.levelP, e.pw2)
				if err != nil {
					c.Fail("C20/rgsw/NewPlaintext/error", "%s value=%s: %v", name, v.name, err)
					continue
				}
				rgsw.AddLazy(pt, rqp, a)
				rgsw.Reduce(a, rqp, a)
				judge("g1+"+v.name, a, addSmall(g1, v.g), 1)
				evals++
			}
			// documented as accepted: *ring.Poly
			p := smallPoly(params, e.levelQ, g2)
			if err, pan := uni.Try(func() error { _, err := rgsw.NewPlaintext(params, &p, e.levelQ, e.levelP, e.pw2); return err }); pan != nil {
				c.Fail("C20/rgsw/NewPlaintext(*ring.Poly)/panic", "%s: the documentation lists *ring.Poly as an accepted value; the call panics: %v", name, pan)
			} else if err != nil {
				c.Cover("rejected", "NewPlaintext(*ring.Poly)")
			}
		case 2, 3: // (X^a − 1)·ct  [+ acc]
			for a := 0; a < 2*n; a++ {
				in, _ := wellFormedRGSW(params, sk, s, e.levelQ, e.levelP, e.pw2, g1, c.Seed^uint64(31+a))
				inCopy := copyRGSW(params, in)
				xa := monomialMinusOne(n, a)
				pw := qpFromSmall(params, e.levelQ, e.levelP, xa)
				want := mulSmallInt(g1, xa)
				var out *rgsw.Ciphertext
				rows := int64(2)
				if op == 2 {
					out = rgsw.NewCiphertext(params, e.levelQ, e.levelP, e.pw2)
					rgsw.MulByXPowAlphaMinusOneLazy(in, pw, rqp, out)
				} else {
					out, _ = wellFormedRGSW(params, sk, s, e.levelQ, e.levelP, e.pw2, g2, c.Seed^uint64(131+a))
					rgsw.MulByXPowAlphaMinusOneThenAddLazy(in, pw, rqp, out)
					want = addSmall(want, g2)
					rows = 3
				}
				rgsw.Reduce(out, rqp, out)
				if !equalRGSW(in, inCopy) {
					c.Fail("C20/rgsw/"+algOps[op]+"/operand-modified", "%s a=%d: input changed", name, a)
				}
				judge(fmt.Sprintf("a=%d", a), out, want, rows)
				evals++
			}
		}
		c.Count(evals)
		c.Cover("rgswalg", algOps[op])
		c.Outcome(name, op)
	}}
}

func constPoly(n int, v int64) []int64 {
	r := make([]int64, n)
	r[0] = v
	return r
}

func smallPoly(params rlwe.Parameters, level int, v []int64) ring.Poly {
	rQ := params.RingQ().AtLevel(level)
	p := rQ.NewPoly()
	for k, q := range rQ.ModuliChain()[:level+1] {
		copy(p.Coeffs[k], resPoly(v, q))
	}
	return p
}

func copyRGSW(params rlwe.Parameters, ct *rgsw.Ciphertext) *rgsw.Ciphertext {
	return &rgsw.Ciphertext{Value: [2]rlwe.GadgetCiphertext{*ct.Value[0].CopyNew(), *ct.Value[1].CopyNew()}}
}

func equalRGSW(a, b *rgsw.Ciphertext) bool {
	return a.Value[0].Equal(&b.Value[0]) && a.Value[1].Equal(&b.Value[1])
}

func rgswAlgScenarios(tier string) []engine.Scenario {
	var scs []engine.Scenario
	for _, sh := range shapes(4) {
		for np := 0; np <= 2; np++ {
			for lq := 0; lq < len(sh.q); lq++ {
				for lp := -1; lp < np; lp++ {
					for _, pw2 := range []int{0, 7, 16} {
						e := epConfig{sh, np, lq, lp, pw2, true, false}
						scs = append(scs, rgswEncScenario(e))
						if lq == len(sh.q)-1 && (lp == np-1 || tier == "thorough") && pw2 != 16 {
							scs = append(scs, rgswAlgScenario(e))
						}
					}
				}
			}
		}
	}
	// a chain whose first prime has fewer base-two digits than the second (NoiseGadgetCiphertext sums rows into digit row 0)
	inc := shape{"q2inc", 4, []uint64{nttPrime(4, 1<<30, true, 0), nttPrime(4, 1<<45, true, 0)}, shapes(4)[0].p}
	for _, pw2 := range []int{0, 7} {
		scs = append(scs, rgswEncScenario(epConfig{inc, 1, 1, 0, pw2, true, false}))
		scs = append(scs, rgswEncScenario(epConfig{inc, 0, 1, -1, pw2, true, false}))
	}
	return scs
}
