// Reference model for RGSW / gadget ciphertext rows and the worst-case noise of an external product.
// Everything here works on integers (math/big) or on residues with schoolbook products from verif/ref;
// nothing calls rlwe.Decryptor or the rgsw evaluator.
package main

import (
	"math/big"
	"sync"

	"github.com/tuneinsight/lattigo/v6/core/rgsw"
	"github.com/tuneinsight/lattigo/v6/core/rlwe"
	"github.com/tuneinsight/lattigo/v6/ring"
	"github.com/tuneinsight/lattigo/v6/ring/ringqp"

	"verif/ref"
	"verif/uni"
)

// ---------------------------------------------------------------------------------------------
// parameter cache (construction factors q-1; deterministic, so sharing between leaves is harmless)

var (
	paramMu    sync.Mutex
	paramCache = map[string]rlwe.Parameters{}
)

func cachedParams(key string, lit rlwe.ParametersLiteral) rlwe.Parameters {
	paramMu.Lock()
	defer paramMu.Unlock()
	if p, ok := paramCache[key]; ok {
		return p
	}
	p := uni.RLWE(lit)
	paramCache[key] = p
	return p
}

// ---------------------------------------------------------------------------------------------
// small integer polynomials

// secretInts returns the secret as centred machine integers (ternary in every scenario here).
func secretInts(params rlwe.Parameters, sk *rlwe.SecretKey) (s []int64, norm1 int64) {
	b := uni.SecretCoeffs(params, sk)
	s = make([]int64, len(b))
	for i := range b {
		s[i] = b[i].Int64()
		if s[i] < 0 {
			norm1 -= s[i]
		} else {
			norm1 += s[i]
		}
	}
	return
}

// resPoly reduces a small signed polynomial modulo q.
func resPoly(a []int64, q uint64) []uint64 {
	r := make([]uint64, len(a))
	for i, v := range a {
		if v >= 0 {
			r[i] = uint64(v) % q
		} else {
			r[i] = ref.NegMod(uint64(-v)%q, q)
		}
	}
	return r
}

// mulSmallInt returns a*g in Z[X]/(X^N+1) for small signed polynomials (used for g*s).
func mulSmallInt(a, g []int64) []int64 {
	n := len(a)
	c := make([]int64, n)
	for i, gi := range g {
		if gi == 0 {
			continue
		}
		for j, aj := range a {
			k := i + j
			if k >= n {
				c[k-n] -= gi * aj
			} else {
				c[k] += gi * aj
			}
		}
	}
	return c
}

// mulBigSmall returns a*g in Z[X]/(X^N+1), a arbitrary integers, g small signed (sparse) polynomial.
func mulBigSmall(a []*big.Int, g []int64) []*big.Int {
	n := len(a)
	c := make([]*big.Int, n)
	for i := range c {
		c[i] = new(big.Int)
	}
	t := new(big.Int)
	for i, gi := range g {
		if gi == 0 {
			continue
		}
		bg := big.NewInt(gi)
		for j := 0; j < n; j++ {
			t.Mul(a[j], bg)
			k := i + j
			if k >= n {
				c[k-n].Sub(c[k-n], t)
			} else {
				c[k].Add(c[k], t)
			}
		}
	}
	return c
}

func centerAll(a []*big.Int, Q *big.Int) []*big.Int {
	r := make([]*big.Int, len(a))
	for i := range a {
		r[i] = ref.Center(a[i], Q)
	}
	return r
}

// ---------------------------------------------------------------------------------------------
// gadget rows

// groupOf tells whether Q-prime index k belongs to RNS digit i of a gadget ciphertext with the
// given levelP: digit i covers the primes [i*alpha, (i+1)*alpha) with alpha = #P (1 without P).
func inGroup(k, i, levelP int) bool {
	alpha := levelP + 1
	if alpha < 1 {
		alpha = 1
	}
	return k >= i*alpha && k < (i+1)*alpha
}

// rowErr decrypts one gadget row (c0,c1) over Z_{Q_l P_l}[X]/(X^N+1) and subtracts the plaintext the
// gadget definition prescribes for RNS digit i, base-two digit j:
//
//	P * 2^(j*pw2) * G   modulo the Q-primes of digit i,     0 modulo every other prime of Q and P
//
// (rlwe.AddPolyTimesGadgetVectorToGadgetCiphertext: "(pt*P*w^2j)*(q_star*q_tild) = pt*P*w^2j mod q[i*#Pi+j], else 0").
// The result is the centred error polynomial. G is a small signed polynomial.
func rowErr(params rlwe.Parameters, levelQ, levelP, pw2, i, j int, row []ringqp.Poly, s, G []int64) []*big.Int {
	rQ := params.RingQ()
	n := params.N()
	var moduli []uint64
	var res [][]uint64
	var pmod *big.Int = big.NewInt(1)
	if levelP >= 0 {
		pmod = ref.Prod(params.RingP().ModuliChain()[:levelP+1])
	}
	do := func(sub *ring.SubRing, c0, c1 []uint64, want []uint64) {
		q := sub.Modulus
		a0 := make([]uint64, n)
		a1 := make([]uint64, n)
		sub.INTT(c0, a0)
		sub.IMForm(a0, a0)
		sub.INTT(c1, a1)
		sub.IMForm(a1, a1)
		pr := ref.NegacyclicMul(a1, resPoly(s, q), q)
		e := make([]uint64, n)
		for t := 0; t < n; t++ {
			v := ref.AddMod(a0[t]%q, pr[t], q)
			if want != nil {
				v = ref.SubMod(v, want[t], q)
			}
			e[t] = v
		}
		moduli = append(moduli, q)
		res = append(res, e)
	}
	for k := 0; k <= levelQ; k++ {
		sub := rQ.SubRings[k]
		q := sub.Modulus
		var want []uint64
		if inGroup(k, i, levelP) {
			f := ref.MulMod(ref.ModU(pmod, q), ref.PowMod(2, uint64(j*pw2), q), q)
			want = resPoly(G, q)
			for t := range want {
				want[t] = ref.MulMod(want[t], f, q)
			}
		}
		do(sub, row[0].Q.Coeffs[k], row[1].Q.Coeffs[k], want)
	}
	for k := 0; k <= levelP; k++ {
		do(params.RingP().SubRings[k], row[0].P.Coeffs[k], row[1].P.Coeffs[k], nil)
	}
	QP := ref.Prod(moduli)
	return centerAll(ref.PolyCRT(res, moduli), QP)
}

// rgswErrs decrypts every row of both halves of an RGSW ciphertext against the plaintext g:
// half 0 rows carry g, half 1 rows carry g*s. Returned as errs[half][i][j] (centred polynomials).
func rgswErrs(params rlwe.Parameters, ct *rgsw.Ciphertext, s, g []int64) (errs [2][][][]*big.Int, max *big.Int) {
	levelQ, levelP := ct.LevelQ(), ct.LevelP()
	pw2 := ct.Value[0].BaseTwoDecomposition
	gs := mulSmallInt(s, g)
	max = new(big.Int)
	for u := 0; u < 2; u++ {
		G := g
		if u == 1 {
			G = gs
		}
		errs[u] = make([][][]*big.Int, len(ct.Value[u].Value))
		for i := range ct.Value[u].Value {
			errs[u][i] = make([][]*big.Int, len(ct.Value[u].Value[i]))
			for j := range ct.Value[u].Value[i] {
				e := rowErr(params, levelQ, levelP, pw2, i, j, ct.Value[u].Value[i][j], s, G)
				errs[u][i][j] = e
				if m := ref.InfNorm(e); m.Cmp(max) > 0 {
					max = m
				}
			}
		}
	}
	return
}

// ---------------------------------------------------------------------------------------------
// worst-case noise of an external product

// extProdBound returns a sound upper bound on ‖phase(out) − phase(in)·g‖∞ for out = in ⊡ RGSW(g), given
// that every RGSW row has noise ‖e_row‖∞ ≤ rowNoise.
//
// Derivation. Each half u of the RGSW ciphertext is a gadget ciphertext; the evaluator decomposes the
// polynomial c_u of the input into digits d_{u,i,j} with  Σ_{i,j} d_{u,i,j}·w_{i,j} ≡ c_u (mod Q) and
// returns Σ_u Σ_{i,j} d_{u,i,j}·row_{u,i,j}, divided by P when an auxiliary modulus is present. Taking
// phases: Σ d·(P·w·G_u + e) = P·g·(c_0 + c_1 s) + Σ d·e, so the additive noise before the division is
// Σ_{u,i,j} d_{u,i,j} ⊛ e_{u,i,j} (negacyclic products), each coefficient of one product being at most
// N·‖d‖∞·‖e‖∞. Digit magnitudes:
//   - base-two decomposition pw2>0 (only honoured when levelP ≤ 0): digits are the unsigned pw2-bit
//     windows of the residue in [0,q_i), so ‖d‖∞ ≤ 2^pw2 − 1;
//   - pw2 = 0, levelP ≤ 0: the digit is the residue itself, ‖d‖∞ ≤ q_i − 1;
//   - levelP ≥ 1: the digit is the residue modulo the group product G_i = Π_{k in group i} q_k, lifted to
//     the basis QP by a fast base conversion; we allow ‖d‖∞ ≤ 2·G_i (exact lift ≤ G_i, one multiple slack).
//
// Division by P (ModDownQPtoQNTT): floor/round of each of the two output polynomials with an approximate
// base conversion costs at most (#P+1) units per coefficient of c_0 and of c_1; the latter is multiplied by
// s, hence (levelP+2)·(1+‖s‖_1) in the phase.
func extProdBound(params rlwe.Parameters, ct *rgsw.Ciphertext, rowNoise *big.Int, sNorm1 int64) *big.Int {
	levelQ, levelP := ct.LevelQ(), ct.LevelP()
	pw2 := ct.Value[0].BaseTwoDecomposition
	N := big.NewInt(int64(params.N()))
	Qs := params.RingQ().ModuliChain()
	sum := new(big.Int)
	for i := range ct.Value[0].Value {
		var d *big.Int
		switch {
		case levelP >= 1:
			d = big.NewInt(2)
			for k := 0; k <= levelQ; k++ {
				if inGroup(k, i, levelP) {
					d.Mul(d, new(big.Int).SetUint64(Qs[k]))
				}
			}
		case pw2 > 0:
			d = new(big.Int).Lsh(big.NewInt(1), uint(pw2))
			d.Sub(d, big.NewInt(1))
		default:
			d = new(big.Int).SetUint64(Qs[i] - 1)
		}
		t := new(big.Int).Mul(N, d)
		t.Mul(t, rowNoise)
		t.Mul(t, big.NewInt(int64(len(ct.Value[0].Value[i]))))
		sum.Add(sum, t)
	}
	sum.Lsh(sum, 1) // two halves
	if levelP >= 0 {
		P := ref.Prod(params.RingP().ModuliChain()[:levelP+1])
		sum.Add(sum, new(big.Int).Sub(P, big.NewInt(1)))
		sum.Quo(sum, P) // ceil
		sum.Add(sum, big.NewInt(int64(levelP+2)*(1+sNorm1)))
	}
	return sum
}

// log2Bucket is a coarse outcome class for a noise magnitude.
func log2Bucket(x *big.Int) int { return x.BitLen() }

// ---------------------------------------------------------------------------------------------
// harness-side RGSW encryption (used only where the library's own encryption is known to be off, so
// that the evaluator can still be judged on well-formed inputs)

// detRand is a small deterministic generator (splitmix64) for harness-built ciphertexts.
type detRand struct{ x uint64 }

func (d *detRand) next() uint64 {
	d.x += 0x9E3779B97F4A7C15
	z := d.x
	z = (z ^ (z >> 30)) * 0xBF58476D1CE4E5B9
	z = (z ^ (z >> 27)) * 0x94D049BB133111EB
	return z ^ (z >> 31)
}

// buildRGSW writes a textbook RGSW encryption of g under s into ct (allocated by rgsw.NewCiphertext):
//
//	half 0, row (i,j): ( −a·s + e + P·w_ij·g , a )        half 1, row (i,j): ( −a·s + e , a + P·w_ij·g )
//
// with w_ij = 2^(j·pw2) on the Q-primes of RNS digit i and 0 elsewhere, a uniform, ‖e‖∞ ≤ 3, everything
// stored in the NTT and Montgomery domains like the library does.
func buildRGSW(params rlwe.Parameters, ct *rgsw.Ciphertext, s, g []int64, seed uint64) {
	levelQ, levelP := ct.LevelQ(), ct.LevelP()
	pw2 := ct.Value[0].BaseTwoDecomposition
	n := params.N()
	rnd := &detRand{seed}
	pmod := big.NewInt(1)
	if levelP >= 0 {
		pmod = ref.Prod(params.RingP().ModuliChain()[:levelP+1])
	}
	type prime struct {
		sub *ring.SubRing
		isQ bool
		k   int
	}
	var primes []prime
	for k := 0; k <= levelQ; k++ {
		primes = append(primes, prime{params.RingQ().SubRings[k], true, k})
	}
	for k := 0; k <= levelP; k++ {
		primes = append(primes, prime{params.RingP().SubRings[k], false, k})
	}
	for u := 0; u < 2; u++ {
		for i := range ct.Value[u].Value {
			for j := range ct.Value[u].Value[i] {
				row := ct.Value[u].Value[i][j]
				// a: independent uniform residues are a uniform element of R_QP; e: one small integer polynomial
				e := make([]int64, n)
				for t := range e {
					e[t] = int64(rnd.next()%7) - 3
				}
				for _, p := range primes {
					q := p.sub.Modulus
					a := make([]uint64, n)
					for t := range a {
						a[t] = rnd.next() % q
					}
					c0 := ref.NegacyclicMul(a, resPoly(s, q), q)
					er := resPoly(e, q)
					for t := range c0 {
						c0[t] = ref.AddMod(ref.NegMod(c0[t], q), er[t], q)
					}
					c1 := a
					if p.isQ && inGroup(p.k, i, levelP) {
						f := ref.MulMod(ref.ModU(pmod, q), ref.PowMod(2, uint64(j*pw2), q), q)
						gr := resPoly(g, q)
						tgt := c0
						if u == 1 {
							tgt = c1
						}
						for t := range tgt {
							tgt[t] = ref.AddMod(tgt[t], ref.MulMod(gr[t], f, q), q)
						}
					}
					var d0, d1 []uint64
					if p.isQ {
						d0, d1 = row[0].Q.Coeffs[p.k], row[1].Q.Coeffs[p.k]
					} else {
						d0, d1 = row[0].P.Coeffs[p.k], row[1].P.Coeffs[p.k]
					}
					p.sub.NTT(c0, d0)
					p.sub.MForm(d0, d0)
					p.sub.NTT(c1, d1)
					p.sub.MForm(d1, d1)
				}
			}
		}
	}
}
