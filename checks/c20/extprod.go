// External product scenarios: one scenario per (chain shape, #P, levelQ, levelP, base-two decomposition,
// NTT flag); one leaf per RGSW plaintext g; inside a leaf every RLWE message m × {out fresh, out==in}.
package main

import (
	"fmt"
	"math/big"
	"math/bits"

	"github.com/tuneinsight/lattigo/v6/core/rgsw"
	"github.com/tuneinsight/lattigo/v6/core/rlwe"
	"github.com/tuneinsight/lattigo/v6/ring"

	"verif/engine"
	"verif/ref"
	"verif/uni"
)

// ---------------------------------------------------------------------------------------------
// shapes

type shape struct {
	name string
	logN int
	q    []uint64
	p    []uint64 // full P chain (up to 2 primes); scenarios use prefixes
}

func nttPrime(logN int, around uint64, down bool, skip int) uint64 {
	m := uint64(1) << (logN + 2)
	return ref.PrimesNear(around, m, skip+1, down)[skip]
}

// shapes returns the Q chains. "lo" primes sit just below a power of two, "hi" primes just above:
// rlwe.Parameters.LogQi rounds log2(q), so the number of base-two digits differs between the two.
func shapes(logN int) []shape {
	p := []uint64{nttPrime(logN, 1<<58, true, 0), nttPrime(logN, 1<<58, true, 1)}
	return []shape{
		{"q28lo", logN, []uint64{nttPrime(logN, 1<<28, true, 0)}, p},  // q>>29==0: 32-bit path without P
		{"q28hi", logN, []uint64{nttPrime(logN, 5<<26, false, 0)}, p}, // idem, 29 significant bits but log2(q)=28.3
		{"q56lo", logN, []uint64{nttPrime(logN, 1<<56, true, 0)}, p},  // single big prime
		{"q56hi", logN, []uint64{nttPrime(logN, 5<<54, false, 0)}, p}, // 57 significant bits but log2(q)=56.3
		{"q3mix", logN, []uint64{nttPrime(logN, 1<<45, true, 0), nttPrime(logN, 5<<30, false, 0), nttPrime(logN, 1<<40, true, 0)}, p},
	}
}

func (s shape) params(np int, ntt bool) rlwe.Parameters {
	lit := rlwe.ParametersLiteral{LogN: s.logN, Q: s.q, NTTFlag: ntt}
	if np > 0 {
		lit.P = s.p[:np]
	}
	return cachedParams(fmt.Sprintf("%s/N%d/P%d/ntt%v", s.name, s.logN, np, ntt), lit)
}

// ---------------------------------------------------------------------------------------------
// alphabets

type rlweMsg struct {
	name string
	big  bool    // coefficient of magnitude ⌊Q/4⌋ (filled per level)
	pos  int     // monomial position (big / unit messages)
	vals []int64 // small messages
}

// rlweMsgs: m ∈ {0, 1, X^i for all i, ⌊Q/4⌋·X^i for all i, ramp}
func rlweMsgs(n int) []rlweMsg {
	ms := []rlweMsg{{name: "0", vals: make([]int64, n)}}
	for i := 0; i < n; i++ {
		v := make([]int64, n)
		v[i] = 1
		ms = append(ms, rlweMsg{name: fmt.Sprintf("X^%d", i), vals: v})
	}
	for i := 0; i < n; i++ {
		ms = append(ms, rlweMsg{name: fmt.Sprintf("Q/4*X^%d", i), big: true, pos: i})
	}
	r := make([]int64, n)
	for i := range r {
		r[i] = int64(i+1) * 1000003 * int64(1-2*(i&1)) // distinct, alternating signs
	}
	ms = append(ms, rlweMsg{name: "ramp", vals: r})
	return ms
}

func (m rlweMsg) coeffs(n int, Q *big.Int) []*big.Int {
	out := make([]*big.Int, n)
	for i := range out {
		out[i] = new(big.Int)
	}
	if m.big {
		out[m.pos].Rsh(Q, 2)
		return out
	}
	for i, v := range m.vals {
		out[i].SetInt64(v)
	}
	return out
}

var rgswClasses = []string{"zero", "one", "minus-one", "monomial", "monomial-minus-one", "ternary"}

type rgswMsg struct {
	name string
	cls  string
	g    []int64
}

// rgswMsgs: g ∈ {0, 1, −1, X^a for all a, X^a − 1 for all a≥1, two small ternary polynomials}
func rgswMsgs(n int) []rgswMsg {
	z := func() []int64 { return make([]int64, n) }
	gs := []rgswMsg{{"0", "zero", z()}}
	one := z()
	one[0] = 1
	gs = append(gs, rgswMsg{"1", "one", one})
	m1 := z()
	m1[0] = -1
	gs = append(gs, rgswMsg{"-1", "minus-one", m1})
	for a := 1; a < n; a++ {
		v := z()
		v[a] = 1
		gs = append(gs, rgswMsg{fmt.Sprintf("X^%d", a), "monomial", v})
	}
	for a := 1; a < n; a++ {
		v := z()
		v[a] = 1
		v[0] = -1
		gs = append(gs, rgswMsg{fmt.Sprintf("X^%d-1", a), "monomial-minus-one", v})
	}
	t1, t2 := z(), z()
	for i := 0; i < n; i++ {
		t1[i] = int64((i*7+3)%3) - 1 // dense ternary
		if i%5 == 0 {
			t2[i] = int64(1 - 2*((i/5)&1)) // sparse ternary
		}
	}
	gs = append(gs, rgswMsg{"ternary-dense", "ternary", t1}, rgswMsg{"ternary-sparse", "ternary", t2})
	return gs
}

// ---------------------------------------------------------------------------------------------
// helpers around the library API (set-up only, no oracle)

func newPlaintext(params rlwe.Parameters, level int, coeffs []*big.Int) *rlwe.Plaintext {
	pt := rlwe.NewPlaintext(params, level)
	rQ := params.RingQ().AtLevel(level)
	for k, q := range rQ.ModuliChain()[:level+1] {
		for j, v := range coeffs {
			pt.Value.Coeffs[k][j] = ref.ModU(v, q)
		}
	}
	if pt.IsNTT {
		rQ.NTT(pt.Value, pt.Value)
	}
	return pt
}

func smallToBig(g []int64) []*big.Int {
	r := make([]*big.Int, len(g))
	for i, v := range g {
		r[i] = big.NewInt(v)
	}
	return r
}

func encryptRGSW(params rlwe.Parameters, sk *rlwe.SecretKey, levelQ, levelP, pw2 int, g []int64) *rgsw.Ciphertext {
	ct := rgsw.NewCiphertext(params, levelQ, levelP, pw2)
	pt := newPlaintext(params, levelQ, smallToBig(g))
	if err := rgsw.NewEncryptor(params, sk).Encrypt(pt, ct); err != nil {
		panic(err)
	}
	return ct
}

// wellFormedRGSW returns the library's RGSW encryption of g if every row decrypts to its gadget plaintext
// within the declared noise bound, and a harness-built one otherwise.
func wellFormedRGSW(params rlwe.Parameters, sk *rlwe.SecretKey, s []int64, levelQ, levelP, pw2 int, g []int64, seed uint64) (*rgsw.Ciphertext, string) {
	ct := encryptRGSW(params, sk, levelQ, levelP, pw2, g)
	if _, rowMax := rgswErrs(params, ct, s, g); rowMax.Cmp(big.NewInt(int64(params.NoiseBound()))) <= 0 {
		return ct, "library"
	}
	ct = rgsw.NewCiphertext(params, levelQ, levelP, pw2)
	buildRGSW(params, ct, s, g, seed)
	return ct, "harness"
}

// digitsShort reports whether, for some prime of the chain, the base-two digits allocated by the library
// (rlwe.Parameters.BaseTwoDecompositionVectorSize) cover fewer bits than the prime has, in which case the
// decomposition drops the top bits of large residues and no noise bound can hold.
func digitsShort(params rlwe.Parameters, levelQ, levelP, pw2 int) bool {
	if pw2 == 0 || levelP > 0 {
		return false
	}
	sizes := params.BaseTwoDecompositionVectorSize(levelQ, levelP, pw2)
	for i, q := range params.Q()[:levelQ+1] {
		if sizes[i]*pw2 < bits.Len64(q) {
			return true
		}
	}
	return false
}

// accCanOverflow: the 32-bit path sums, without any reduction, one product row·digit per base-two digit and per
// half into a uint64; rows are < q and the digits go through NTTLazy, documented to return values in [0, 6q−2].
// True when that worst case does not fit 64 bits.
func accCanOverflow(params rlwe.Parameters, ct *rgsw.Ciphertext) bool {
	q := new(big.Int).SetUint64(params.Q()[0])
	w := new(big.Int).Mul(new(big.Int).Sub(q, big.NewInt(1)), new(big.Int).Sub(new(big.Int).Mul(q, big.NewInt(6)), big.NewInt(2)))
	w.Mul(w, big.NewInt(int64(2*len(ct.Value[0].Value[0]))))
	return w.BitLen() > 64
}

func path(params rlwe.Parameters, levelQ, levelP int) string {
	switch {
	case levelP >= 1:
		return "multipleP"
	case levelQ == 0 && levelP == -1 && params.Q()[0]>>29 == 0:
		return "32bit"
	case levelP == 0:
		return "singleP"
	default:
		return "noP"
	}
}

// ---------------------------------------------------------------------------------------------

type epConfig struct {
	sh             shape
	np             int
	levelQ, levelP int
	pw2            int
	ntt            bool
	lite           bool // four messages instead of all (shapes whose interest is the digit count, not the message)
}

func (e epConfig) name() string {
	return fmt.Sprintf("extprod/%s/N=%d/P=%d/lQ=%d/lP=%d/pw2=%d/ntt=%v", e.sh.name, 1<<e.sh.logN, e.np, e.levelQ, e.levelP, e.pw2, e.ntt)
}

func extProdScenario(e epConfig) engine.Scenario {
	name := e.name()
	return engine.Scenario{Name: name, Bound: -1, Fn: func(c *engine.Chooser) {
		params := e.sh.params(e.np, e.ntt)
		n := params.N()
		classes := rgswClasses
		ci := c.Choose(len(classes), "g-class")
		cls := classes[ci]
		uni.Seed(c, name, ci)

		kgen := rlwe.NewKeyGenerator(params)
		sk := kgen.GenSecretKeyNew()
		s, sNorm1 := secretInts(params, sk)
		pth := path(params, e.levelQ, e.levelP)
		Be := big.NewInt(int64(params.NoiseBound()))
		Q := uni.QAtLevel(params, e.levelQ)
		short := digitsShort(params, e.levelQ, e.levelP, e.pw2)
		if short {
			c.Cover("digits", "shorter-than-modulus")
		}
		enc := rlwe.NewEncryptor(params, sk)
		eval := rgsw.NewEvaluator(params, nil)

		// fresh encryptions of every message, with their exact phases m+e
		msgs := rlweMsgs(n)
		if e.lite {
			msgs = []rlweMsg{msgs[0], msgs[2], msgs[n+4], msgs[len(msgs)-1]}
		}
		cts := make([]*rlwe.Ciphertext, len(msgs))
		phases := make([][]*big.Int, len(msgs))
		for i, m := range msgs {
			cts[i] = rlwe.NewCiphertext(params, 1, e.levelQ)
			if err := enc.Encrypt(newPlaintext(params, e.levelQ, m.coeffs(n, Q)), cts[i]); err != nil {
				panic(err)
			}
			phases[i] = uni.Phase(params, &cts[i].Element, sk)
		}

		worst := new(big.Int)
		var bound *big.Int
		evals := 0
		for gi, gm := range rgswMsgs(n) {
			if gm.cls != cls {
				continue
			}
			// RGSW(g) from the library's encryptor when its rows are well formed (judged in the rgswenc/ scenarios),
			// otherwise a textbook encryption built by the harness, so that the evaluator is judged on its own.
			ctG, src := wellFormedRGSW(params, sk, s, e.levelQ, e.levelP, e.pw2, gm.g, c.Seed^uint64(gi+1))
			c.Cover("rgsw-source", src)
			bound = extProdBound(params, ctG, Be, sNorm1)
			if new(big.Int).Lsh(bound, 2).Cmp(Q) >= 0 {
				// decomposition too coarse for this modulus: the bound says nothing (e.g. one big prime, no P, no digits)
				c.Cover("vacuous-config", pth)
				c.Skip("worst-case noise bound >= Q/4")
				return
			}
			for mi, m := range msgs {
				ct := cts[mi]
				want := centerAll(mulBigSmall(phases[mi], gm.g), Q)
				for mode := 0; mode < 2; mode++ {
					var out *rlwe.Ciphertext
					in := ct.CopyNew()
					if mode == 0 {
						out = rlwe.NewCiphertext(params, 1, e.levelQ)
						for k := range out.Value {
							for a := range out.Value[k].Coeffs {
								for b := range out.Value[k].Coeffs[a] {
									out.Value[k].Coeffs[a][b] = 0x5EED + uint64(b) // stale content must not leak
								}
							}
						}
					} else {
						out = in
					}
					eval.ExternalProduct(in, ctG, out)
					evals++
					modeName := [2]string{"fresh", "inplace"}[mode]
					if mode == 0 && !in.Equal(ct) {
						c.Fail("C20/extprod/input-modified/"+pth, "%s g=%s m=%s: input ciphertext changed by an out-of-place product", name, gm.name, m.name)
					}
					// The result is read in the domain announced by out.IsNTT. For a coefficient-domain input the
					// documentation does not say in which domain the result comes back (the RGSW operand is always in
					// the NTT domain), so there the NTT reading is accepted as well.
					got := uni.Phase(params, &out.Element, sk)
					nz := ref.InfNorm(uni.SubCentered(got, want, Q))
					if !e.ntt && nz.Cmp(bound) > 0 {
						md := *out.MetaData
						md.IsNTT = true
						alt := rlwe.Element[ring.Poly]{MetaData: &md, Value: out.Value}
						if nz2 := ref.InfNorm(uni.SubCentered(uni.Phase(params, &alt, sk), want, Q)); nz2.Cmp(bound) <= 0 {
							nz = nz2
							c.Cover("nonNTT-result", "NTT-domain-with-IsNTT=false/"+pth)
						}
					}
					if nz.Cmp(worst) > 0 {
						worst = nz
					}
					if nz.Cmp(bound) > 0 {
						sig := "C20/extprod/" + pth + "/" + modeName + "/noise"
						switch {
						case short:
							sig = "C20/extprod/base2-digits-shorter-than-modulus"
						case pth == "32bit" && accCanOverflow(params, ctG):
							sig = "C20/extprod/32bit/lazy-accumulator-overflow"
						case pth == "multipleP" && mode == 0:
						case !e.ntt && pth != "multipleP":
							// The 32-bit and single-P paths treat a coefficient-domain input as if it were in the NTT
							// domain. Neither the property nor the doc comments define ExternalProduct for IsNTT=false
							// inputs (RGSW is used in the NTT domain throughout the library), so this is counted as
							// out of scope, not judged (coordinator's decision; observed behaviour kept in FINDINGS.md F6).
							c.Cover("not-judged", "extprod-nonNTT-input-on-"+pth)
							continue
						case !e.ntt:
							sig = "C20/extprod/nonNTT-input/" + pth + "/" + modeName
						}
						c.Fail(sig, "%s g=%s m=%s out=%s: ‖phase(out) − phase(in)·g‖∞ = %v (2^%d) > worst-case bound %v (2^%d), Q≈2^%d",
							name, gm.name, m.name, modeName, nz, nz.BitLen(), bound, bound.BitLen(), Q.BitLen())
					}
				}
			}
		}
		c.Count(evals)
		c.Cover("path", pth)
		c.Cover("g", cls)
		c.Cover("shape", e.sh.name)
		c.Cover("pw2", fmt.Sprint(e.pw2))
		c.Cover("nP", fmt.Sprint(e.np))
		c.Cover("ntt", fmt.Sprint(e.ntt))
		c.Outcome(pth, cls, log2Bucket(worst))
		c.Note("g-class=%s: %d products, worst noise 2^%d, bound 2^%d, Q 2^%d", cls, evals, worst.BitLen(), bound.BitLen(), Q.BitLen())
	}}
}

func extProdScenarios(tier string) []engine.Scenario {
	var scs []engine.Scenario
	logNs := []int{4}
	if tier == "thorough" {
		logNs = []int{4, 5}
	}
	for _, logN := range logNs {
		for _, sh := range shapes(logN) {
			for np := 0; np <= 2; np++ {
				for lq := 0; lq < len(sh.q); lq++ {
					for lp := -1; lp < np; lp++ {
						pw2s := []int{0, 7, 16}
						if tier == "thorough" {
							pw2s = []int{0, 1, 7, 11, 16}
						}
						for _, pw2 := range pw2s {
							scs = append(scs, extProdScenario(epConfig{sh, np, lq, lp, pw2, true, false}))
						}
					}
				}
			}
		}
	}
	// 32-bit path near its admission limit (q < 2^29) with many digits: the lazy accumulator sums 2·#digits products
	q29 := shape{"q29lo", 4, []uint64{nttPrime(4, 1<<29, true, 0)}, shapes(4)[0].p}
	for _, pw2 := range []int{1, 2, 3, 4, 5} {
		scs = append(scs, extProdScenario(epConfig{q29, 0, 0, -1, pw2, true, false}))
	}
	if tier != "thorough" {
		// promoted from thorough: binary decomposition (pw2=1, the most digits a prime can have) at the top level of
		// the "lo" shapes, and one ring of degree 32
		sh := shapes(4)
		for _, s := range []shape{sh[0], sh[2], sh[4]} {
			for np := 0; np <= 1; np++ {
				scs = append(scs, extProdScenario(epConfig{s, np, len(s.q) - 1, np - 1, 1, true, true}))
			}
		}
		s5 := shapes(5)[4]
		for np := 0; np <= 2; np++ {
			scs = append(scs, extProdScenario(epConfig{s5, np, 2, np - 1, 7, true, true}))
		}
	}
	scs = append(scs, marginScenarios(tier)...)
	scs = append(scs, levelMismatchScenarios(tier)...)
	scs = append(scs, historyScenarios(tier)...)
	// coefficient-domain input ciphertexts (parameters with NTTFlag=false): a few configurations per code path
	sh := shapes(4)
	for _, e := range []epConfig{
		{sh[0], 0, 0, -1, 7, false, false},  // 32bit
		{sh[2], 0, 0, -1, 16, false, false}, // noP
		{sh[4], 1, 2, 0, 0, false, false},   // singleP
		{sh[2], 1, 0, 0, 16, false, false},  // singleP with digits
		{sh[4], 2, 2, 1, 0, false, false},   // multipleP
		{sh[2], 2, 0, 1, 0, false, false},   // multipleP, one Q prime
	} {
		scs = append(scs, extProdScenario(e))
	}
	return scs
}
