// Deeper external-product axes: chains with many RNS digits on both sides of the lazy-accumulation margins at every
// (levelQ, levelP); RLWE / RGSW / output at different levels; one evaluator used for a sequence of products
// (history insensitivity).
package main

import (
	"fmt"
	"math/big"

	"github.com/tuneinsight/lattigo/v6/core/rgsw"
	"github.com/tuneinsight/lattigo/v6/core/rlwe"
	"github.com/tuneinsight/lattigo/v6/ring"

	"verif/engine"
	"verif/ref"
	"verif/uni"
)

// marginShapes: the P and Q accumulators of externalProductInPlaceMultipleP are reduced every (overflow margin)/2
// digits — 4 for 61-bit primes, practically never for 30/45-bit primes. Chains with many RNS digits and 61-bit primes on
// one side only put the digit count below / at / above each margin; up to three auxiliary primes.
func marginShapes() []shape {
	manyQ := func(bits, n int) []uint64 { return ref.PrimesNear(uint64(1)<<bits, 1<<6, n, true) }
	p61 := ref.PrimesNear(uint64(1)<<61, 1<<6, 19, true)
	return []shape{
		{"q16x61-p61", 4, p61[3:19], p61[:3]}, // 8 digits with two auxiliary primes: the full (not halved) margin of 61-bit primes
		{"q10x30-p61", 4, manyQ(30, 10), p61[:3]},
		{"q12x45-p61", 4, manyQ(45, 12), p61[:3]},
		{"q8x61-p61", 4, p61[3:11], p61[:3]},
		{"q12x61-p61", 4, p61[3:15], p61[:3]},
	}
}

func marginScenarios(tier string) []engine.Scenario {
	var scs []engine.Scenario
	for _, m := range marginShapes() {
		top := len(m.q) - 1
		for np := 1; np <= 3; np++ {
			for lp := -1; lp < np; lp++ {
				for lq := 0; lq <= top; lq++ {
					// quick: top level at every levelP of every shape; every levelQ on the multiple-P path of the
					// all-61-bit chain (digit counts 1..12 against the margin of 4). thorough: everything.
					full := lq == top && lp == np-1
					if tier != "thorough" && !(full || (m.name == "q12x61-p61" && lp == np-1 && np >= 2) || (lq == top && np == 3)) {
						continue
					}
					if m.name == "q16x61-p61" && !(np == 2 && lp == 1 && lq >= top-3) {
						continue // 16 primes: only the 7- and 8-digit configurations of the multiple-P path
					}
					scs = append(scs, extProdScenario(epConfig{m, np, lq, lp, 0, true, !(full && np == 2) || len(m.q) > 12}))
				}
			}
		}
	}
	return scs
}

// truncated returns a view of el restricted to the first level+1 moduli.
func truncated(el *rlwe.Element[ring.Poly], level int) *rlwe.Element[ring.Poly] {
	md := *el.MetaData
	v := make([]ring.Poly, len(el.Value))
	for i := range v {
		v[i] = ring.Poly{Coeffs: el.Value[i].Coeffs[:level+1]}
	}
	return &rlwe.Element[ring.Poly]{MetaData: &md, Value: v}
}

func fillStale(ct *rlwe.Ciphertext) {
	for k := range ct.Value {
		for a := range ct.Value[k].Coeffs {
			for b := range ct.Value[k].Coeffs[a] {
				ct.Value[k].Coeffs[a][b] = 0x5EED + uint64(b)
			}
		}
	}
}

// levelMismatchScenario: the RLWE ciphertext sits at ctLevel > levelQ of the RGSW ciphertext (keys are often kept at
// a lower level than data, and the blind rotation itself multiplies a max-level accumulator by lower-level keys).
// ExternalProduct works at the RGSW level and does not resize its output; the statement only fixes the value, so the
// oracle reads the result at the RGSW level (first levelQ+1 moduli of the output, whatever its nominal level):
// it must decrypt to (phase(in) mod Q_levelQ)·g within the bound.
func levelMismatchScenario(e epConfig, ctLevel int) engine.Scenario {
	name := fmt.Sprintf("extlevels/%s/N=%d/P=%d/lQ=%d/lP=%d/pw2=%d/ctLevel=%d", e.sh.name, 1<<e.sh.logN, e.np, e.levelQ, e.levelP, e.pw2, ctLevel)
	outModes := []string{"inplace", "fresh@ctLevel", "fresh@rgswLevel"}
	return engine.Scenario{Name: name, Bound: -1, Fn: func(c *engine.Chooser) {
		params := e.sh.params(e.np, true)
		n := params.N()
		mode := c.Choose(len(outModes), "out")
		uni.Seed(c, name, mode)
		sk := rlwe.NewKeyGenerator(params).GenSecretKeyNew()
		s, sNorm1 := secretInts(params, sk)
		pth := path(params, e.levelQ, e.levelP)
		Be := big.NewInt(int64(params.NoiseBound()))
		Ql := uni.QAtLevel(params, e.levelQ)
		Qct := uni.QAtLevel(params, ctLevel)
		short := digitsShort(params, e.levelQ, e.levelP, e.pw2)
		enc := rlwe.NewEncryptor(params, sk)
		eval := rgsw.NewEvaluator(params, nil)
		all := rgswMsgs(n)
		gs := []rgswMsg{all[1], all[3], all[n+5], all[len(all)-2]}
		msgs := rlweMsgs(n)
		msgs = []rlweMsg{msgs[2], msgs[n+4], msgs[len(msgs)-1]}
		evals := 0
		for gi, gm := range gs {
			ctG, src := wellFormedRGSW(params, sk, s, e.levelQ, e.levelP, e.pw2, gm.g, c.Seed^uint64(gi+77))
			c.Cover("rgsw-source", src)
			bound := extProdBound(params, ctG, Be, sNorm1)
			if new(big.Int).Lsh(bound, 2).Cmp(Ql) >= 0 {
				c.Skip("worst-case noise bound >= Q/4")
				return
			}
			for _, m := range msgs {
				in := rlwe.NewCiphertext(params, 1, ctLevel)
				if err := enc.Encrypt(newPlaintext(params, ctLevel, m.coeffs(n, Qct)), in); err != nil {
					panic(err)
				}
				want := centerAll(mulBigSmall(uni.Phase(params, truncated(&in.Element, e.levelQ), sk), gm.g), Ql)
				var out *rlwe.Ciphertext
				switch mode {
				case 0:
					out = in
				case 1:
					out = rlwe.NewCiphertext(params, 1, ctLevel)
					fillStale(out)
				case 2:
					out = rlwe.NewCiphertext(params, 1, e.levelQ)
					fillStale(out)
				}
				if _, pan := uni.Try(func() error { eval.ExternalProduct(in, ctG, out); return nil }); pan != nil {
					c.Fail("C20/extprod/levels/panic/"+pth+"/"+outModes[mode], "%s g=%s m=%s: %v", name, gm.name, m.name, pan)
					return
				}
				evals++
				got := uni.Phase(params, truncated(&out.Element, e.levelQ), sk)
				if nz := ref.InfNorm(uni.SubCentered(got, want, Ql)); nz.Cmp(bound) > 0 {
					sig := "C20/extprod/levels/" + pth + "/" + outModes[mode]
					switch {
					case short:
						sig = "C20/extprod/base2-digits-shorter-than-modulus"
					case pth == "multipleP" && mode != 0:
						sig = "C20/extprod/multipleP/fresh/noise" // known: output distinct from the input with >= 2 P primes
					}
					c.Fail(sig, "%s g=%s m=%s out=%s: read at the RGSW level, ‖phase(out) − phase(in)·g‖∞ = 2^%d > bound 2^%d (Q_l≈2^%d)",
						name, gm.name, m.name, outModes[mode], nz.BitLen(), bound.BitLen(), Ql.BitLen())
				}
			}
		}
		// the opposite order (ciphertext below the RGSW level) is outside what the code supports: recorded, not judged
		if mode == 0 && e.levelQ > 0 {
			ctG, _ := wellFormedRGSW(params, sk, s, e.levelQ, e.levelP, e.pw2, gs[0].g, c.Seed^991)
			low := rlwe.NewCiphertext(params, 1, e.levelQ-1)
			if _, pan := uni.Try(func() error { eval.ExternalProduct(low, ctG, low); return nil }); pan != nil {
				c.Cover("not-judged", "ciphertext-below-RGSW-level:panics")
			} else {
				c.Cover("not-judged", "ciphertext-below-RGSW-level:returns")
			}
		}
		c.Count(evals)
		c.Cover("extlevels", pth+"/"+outModes[mode])
		c.Outcome(name, mode, evals)
	}}
}

func levelMismatchScenarios(tier string) []engine.Scenario {
	var scs []engine.Scenario
	mix := shapes(4)[4]
	ms := marginShapes()
	type cfg struct {
		sh             shape
		np, lq, lp, pw int
		ct             int
	}
	var cfgs []cfg
	for np := 0; np <= 2; np++ {
		for lp := -1; lp < np; lp++ {
			if tier != "thorough" && lp != np-1 {
				continue
			}
			for _, pw2 := range []int{0, 7} {
				cfgs = append(cfgs, cfg{mix, np, 0, lp, pw2, 1}, cfg{mix, np, 0, lp, pw2, 2}, cfg{mix, np, 1, lp, pw2, 2})
			}
		}
	}
	for _, m := range ms[3:] { // 61-bit chains: digit counts at the RGSW level against the margin, data above
		for np := 2; np <= 3; np++ {
			cfgs = append(cfgs, cfg{m, np, 3, np - 1, 0, len(m.q) - 1}, cfg{m, np, len(m.q) - 2, np - 1, 0, len(m.q) - 1})
		}
	}
	for _, f := range cfgs {
		scs = append(scs, levelMismatchScenario(epConfig{f.sh, f.np, f.lq, f.lp, f.pw, true, false}, f.ct))
	}
	return scs
}

// historyScenario: one rgsw.Evaluator performs a sequence of products with RGSW ciphertexts of different levels,
// auxiliary-modulus counts and decompositions (its scratch buffers keep whatever the previous product left); every
// result must be bit-identical to the one a fresh evaluator returns for the same operands.
func historyScenario(sh shape, np int) engine.Scenario {
	name := fmt.Sprintf("exthistory/%s/N=%d/P=%d", sh.name, 1<<sh.logN, np)
	return engine.Scenario{Name: name, Bound: -1, Fn: func(c *engine.Chooser) {
		params := sh.params(np, true)
		n := params.N()
		order := c.Choose(3, "order")
		uni.Seed(c, name)
		sk := rlwe.NewKeyGenerator(params).GenSecretKeyNew()
		s, _ := secretInts(params, sk)
		type step struct{ lq, lp, pw2 int }
		var steps []step
		top := len(sh.q) - 1
		for lp := -1; lp < np; lp++ {
			for _, lq := range []int{top, 0, top / 2} {
				for _, pw2 := range []int{0, 7} {
					steps = append(steps, step{lq, lp, pw2})
				}
			}
		}
		switch order {
		case 1: // reversed
			for i, j := 0, len(steps)-1; i < j; i, j = i+1, j-1 {
				steps[i], steps[j] = steps[j], steps[i]
			}
		case 2: // interleaved from both ends
			var t []step
			for i, j := 0, len(steps)-1; i <= j; i, j = i+1, j-1 {
				t = append(t, steps[i])
				if i != j {
					t = append(t, steps[j])
				}
			}
			steps = t
		}
		enc := rlwe.NewEncryptor(params, sk)
		used := rgsw.NewEvaluator(params, nil)
		g := rgswMsgs(n)[n+5].g
		evals := 0
		for si, st := range steps {
			ctG, _ := wellFormedRGSW(params, sk, s, st.lq, st.lp, st.pw2, g, c.Seed^uint64(si+5))
			in := rlwe.NewCiphertext(params, 1, st.lq)
			if err := enc.Encrypt(newPlaintext(params, st.lq, rlweMsgs(n)[n+3].coeffs(n, uni.QAtLevel(params, st.lq))), in); err != nil {
				panic(err)
			}
			if st.lq > 0 {
				// a call the evaluator cannot serve (ciphertext below the RGSW level: it panics half-way through its
				// scratch buffers); the legal calls that follow must not be affected
				low := rlwe.NewCiphertext(params, 1, st.lq-1)
				if _, pan := uni.Try(func() error { used.ExternalProduct(low, ctG, low); return nil }); pan != nil {
					c.Cover("exthistory-refused", "panic")
				} else {
					c.Cover("exthistory-refused", "returns")
				}
			}
			for mode := 0; mode < 2; mode++ {
				a, b := in.CopyNew(), in.CopyNew()
				oa, ob := a, b
				if mode == 1 {
					oa, ob = rlwe.NewCiphertext(params, 1, st.lq), rlwe.NewCiphertext(params, 1, st.lq)
				}
				used.ExternalProduct(a, ctG, oa)
				rgsw.NewEvaluator(params, nil).ExternalProduct(b, ctG, ob)
				evals++
				if !oa.Equal(ob) {
					c.Fail("C20/extprod/history/"+path(params, st.lq, st.lp), "%s order %d step %d (lQ=%d lP=%d pw2=%d, out %s): a used evaluator and a fresh one return different ciphertexts",
						name, order, si, st.lq, st.lp, st.pw2, [2]string{"in place", "fresh"}[mode])
				}
			}
		}
		c.Count(evals)
		c.Cover("exthistory", sh.name)
		c.Outcome(name, order)
	}}
}

func historyScenarios(tier string) []engine.Scenario {
	var scs []engine.Scenario
	sh := shapes(4)
	ms := marginShapes()
	for np := 0; np <= 2; np++ {
		scs = append(scs, historyScenario(sh[4], np), historyScenario(sh[0], np))
	}
	scs = append(scs, historyScenario(ms[3], 3), historyScenario(ms[1], 2))
	return scs
}
