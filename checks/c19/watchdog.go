package main

import (
	"fmt"
	"os"
	"runtime/debug"
	"strings"
	"sync"
	"time"
)

// watchdogLimit is the wall-clock horizon after which a library call counts as a hang. Generous on purpose: every
// guarded call of this check works on rings of degree <= 2^12 and needs at most a few tens of milliseconds on an idle
// core (the LogN=15/16 shipped sets are instantiated outside the watchdog), so 12 s is > 100x even on a loaded or
// 3x slower machine; VERIF_C19_WATCHDOG=30s overrides it. A hang is a *verdict* only for calls that legitimately need milliseconds.
var watchdogLimit = func() time.Duration {
	if v, err := time.ParseDuration(os.Getenv("VERIF_C19_WATCHDOG")); err == nil && v > 0 {
		return v
	}
	return 12 * time.Second
}()

type callResult struct {
	err      error
	panicked interface{}
	hung     bool
}

// hungMemo remembers calls that already hit the watchdog in this process. The engine re-runs every violating leaf
// twice (determinism gate); a call that spun for 20 s is still spinning in its leaked goroutine, so the re-run
// reports the same verdict without paying the horizon again (and without leaking further goroutines).
var (
	hungMu   sync.Mutex
	hungMemo = map[string]bool{}
)

// guarded runs f in its own goroutine: error, panic and hang (no return within watchdogLimit) are all observations.
// key identifies the call (scenario + literal) for the memo.
func guarded(key string, f func() error) (r callResult) {
	hungMu.Lock()
	if hungMemo[key] {
		hungMu.Unlock()
		return callResult{hung: true}
	}
	hungMu.Unlock()
	ch := make(chan callResult, 1)
	go func() {
		var res callResult
		defer func() {
			if p := recover(); p != nil {
				// keep the innermost library frames with the panic value (message only, never part of a signature)
				var fr []string
				for _, l := range strings.Split(string(debug.Stack()), "\n") {
					if strings.Contains(l, ".go:") && !strings.Contains(l, "/verif/") && !strings.Contains(l, "/go-1.") && !strings.Contains(l, "/usr/lib/go") {
						fr = append(fr, strings.TrimSpace(strings.SplitN(strings.TrimSpace(l), " ", 2)[0]))
					}
				}
				if len(fr) > 4 {
					fr = fr[:4]
				}
				res.panicked = fmt.Sprintf("%v [at %s]", p, strings.Join(fr, " < "))
			}
			ch <- res
		}()
		res.err = f()
	}()
	select {
	case r = <-ch:
		return r
	case <-time.After(watchdogLimit):
		hungMu.Lock()
		hungMemo[key] = true
		hungMu.Unlock()
		return callResult{hung: true}
	}
}

func (r callResult) String() string {
	switch {
	case r.hung:
		return fmt.Sprintf("no return within %v", watchdogLimit)
	case r.panicked != nil:
		return fmt.Sprintf("panic: %v", r.panicked)
	case r.err != nil:
		return "error: " + r.err.Error()
	}
	return "ok"
}
