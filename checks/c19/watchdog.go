package main

import (
	"fmt"
	"sync"
	"time"
)

// watchdogLimit is the wall-clock horizon after which a library call counts as a hang. Generous on purpose: the
// slowest legitimate call of this check (a LogN=16 parameter set with ~30 primes) takes ~2 s on an idle core, and the
// machine may be heavily loaded. A hang is a *verdict* only for calls that legitimately need milliseconds.
const watchdogLimit = 20 * time.Second

type callResult struct {
	err      error
	panicked interface{}
	hung     bool
}

// hungMemo remembers calls that already hit the watchdog in this process. The engine re-runs every violating leaf
// twice (determinism gate); a call that spun for 20 s is still spinning in its leaked goroutine, so the re-run
// reports the same verdict without paying the horizon again (and without leaking further goroutines).
var (
	hungMu   sync.Mutex
	hungMemo = map[string]bool{}
)

// guarded runs f in its own goroutine: error, panic and hang (no return within watchdogLimit) are all observations.
// key identifies the call (scenario + literal) for the memo.
func guarded(key string, f func() error) (r callResult) {
	hungMu.Lock()
	if hungMemo[key] {
		hungMu.Unlock()
		return callResult{hung: true}
	}
	hungMu.Unlock()
	ch := make(chan callResult, 1)
	go func() {
		var res callResult
		defer func() {
			if p := recover(); p != nil {
				res.panicked = p
			}
			ch <- res
		}()
		res.err = f()
	}()
	select {
	case r = <-ch:
		return r
	case <-time.After(watchdogLimit):
		hungMu.Lock()
		hungMemo[key] = true
		hungMu.Unlock()
		return callResult{hung: true}
	}
}

func (r callResult) String() string {
	switch {
	case r.hung:
		return fmt.Sprintf("no return within %v", watchdogLimit)
	case r.panicked != nil:
		return fmt.Sprintf("panic: %v", r.panicked)
	case r.err != nil:
		return "error: " + r.err.Error()
	}
	return "ok"
}
