package main

import (
	"fmt"
	"math"
	"math/big"

	"github.com/tuneinsight/lattigo/v6/core/rlwe"
	"github.com/tuneinsight/lattigo/v6/ring"
	"github.com/tuneinsight/lattigo/v6/schemes/bgv"
	"github.com/tuneinsight/lattigo/v6/schemes/ckks"

	"verif/engine"
	"verif/ref"
	"verif/uni"
)

// "Accepted ⇒ arithmetic correct": the oracles applied to every context a constructor returned without error.
// They are generic (they know nothing about which literal was accepted); the only input-class knowledge is the
// classifier sigFor, which gives failures on moduli with 6q >= 2^64 the signature of the CheckModuli defect.

// lazyNTTLimit: the lazy butterflies keep values in [0, 6q) (ring/ntt.go), so q must satisfy 6q < 2^64.
const lazyNTTLimit = uint64(math.MaxUint64 / 6)

// supportedLimit: the largest modulus size the library documents and generates itself: MaxModuliSize = 60 bits for
// LogQ requests (primes up to 2^60.5) and 61 bits for LogP (downstream of 2^61), i.e. every modulus is < 2^61.
const supportedLimit = uint64(1) << 61

// sigModulusTooLarge is the one signature of the defect "CheckModuli accepts Q primes up to 62 and P primes up to 63
// bits although the arithmetic (lazy NTT needs 6q < 2^64, the rescaling even less) only supports moduli below 2^61".
const sigModulusTooLarge = "C19/accept/CheckModuli-accepts-modulus>=2^61"

// sigFor returns the signature for a failed arithmetic oracle `what` in the context (area, moduli): the known
// defect's signature when a modulus of the context is in its input class, the generic one otherwise.
func sigFor(area, what string, moduli []uint64) string {
	for _, q := range moduli {
		if q >= supportedLimit {
			return sigModulusTooLarge
		}
	}
	return "C19/" + area + "/" + what
}

// structure: what the statement says acceptance implies about the moduli (distinct NTT-friendly primes).
func checkStructure(c *engine.Chooser, area, tag string, p rlwe.Parameters) bool {
	nth := p.RingQ().NthRoot()
	seen := map[uint64]bool{}
	ok := true
	for _, q := range p.QP() {
		switch {
		case !ref.IsPrime(q):
			c.Fail("C19/"+area+"/composite-modulus-accepted", "%s: modulus %d accepted, not a prime", tag, q)
			ok = false
		case q%nth != 1:
			c.Fail("C19/"+area+"/non-NTT-friendly-modulus-accepted", "%s: modulus %d accepted, != 1 mod NthRoot=%d", tag, q, nth)
			ok = false
		case seen[q]:
			// duplicates inside Q or inside P are refused by ring.NewRing; what gets through is a modulus shared by Q and P
			c.Fail("C19/accept/Q-and-P-share-a-modulus-accepted", "%s: modulus %d is in Q and in P (the basis extension Q<->P and the division by P need coprime Q and P)", tag, q)
			ok = false
		}
		seen[q] = true
	}
	return ok
}

// testVectors: all-(q-1), a ramp reaching q-1, and a sparse two-term polynomial.
func testVectors(n int, q uint64) [][]uint64 {
	a := make([]uint64, n)
	b := make([]uint64, n)
	for j := range a {
		a[j] = q - 1
		// ramp over the whole range, ending exactly at q-1
		b[j] = uint64((new(big.Int).Div(new(big.Int).Mul(new(big.Int).SetUint64(q-1), big.NewInt(int64(j+1))), big.NewInt(int64(n)))).Uint64())
	}
	return [][]uint64{a, b}
}

// checkNTT: INTT(NTT(a)) == a on every modulus, and NTT-domain products equal negacyclic products (standard ring):
// schoolbook for N <= 64, against the closed form of a·(X^k·(q-1) + 1) above that.
func checkNTT(c *engine.Chooser, area, tag string, r *ring.Ring) {
	if r == nil {
		return
	}
	n := r.N()
	for _, s := range r.SubRings {
		q := s.Modulus
		mod := []uint64{q}
		vecs := testVectors(n, q)
		for vi, a := range vecs {
			t1, t2 := make([]uint64, n), make([]uint64, n)
			s.NTT(a, t1)
			s.INTT(t1, t2)
			for j := range a {
				if t2[j] != a[j] {
					c.Fail(sigFor(area, "ntt-round-trip", mod), "%s: q=%d (%.3f bits) vector %d: INTT(NTT(a))[%d]=%d, a=%d", tag, q, math.Log2(float64(q)), vi, j, t2[j], a[j])
					return
				}
			}
		}
		a, b := vecs[0], vecs[1]
		var want []uint64
		if r.Type() == ring.ConjugateInvariant {
			// Z[X+X^-1]/(X^2N+1): the N stored coefficients a_0..a_{N-1} stand for a_0 + sum a_i (X^i + X^-i) with
			// X^-i = -X^(2N-i); products are taken in the standard ring of degree 2N and stay symmetric
			if n > 64 {
				continue
			}
			embed := func(v []uint64) []uint64 {
				e := make([]uint64, 2*n)
				e[0] = v[0]
				for i := 1; i < n; i++ {
					e[i] = v[i]
					e[2*n-i] = ref.NegMod(v[i], q)
				}
				return e
			}
			full := ref.NegacyclicMul(embed(a), embed(b), q)
			want = full[:n]
			for i := 1; i < n; i++ {
				if full[2*n-i] != ref.NegMod(full[i], q) || full[n] != 0 {
					panic("harness: product of symmetric polynomials is not symmetric")
				}
			}
		} else if n <= 64 {
			want = ref.NegacyclicMul(a, b, q)
		} else {
			// b := (q-1)·X^k + 1, k = n/2+1: a·b = a - X^k·a (negacyclic shift)
			k := n/2 + 1
			b = make([]uint64, n)
			b[0], b[k] = 1, q-1
			sh := ref.MonomialMul(a, k, q)
			want = make([]uint64, n)
			for j := range want {
				want[j] = ref.SubMod(a[j], sh[j], q)
			}
		}
		ta, tb, tc := make([]uint64, n), make([]uint64, n), make([]uint64, n)
		s.NTT(a, ta)
		s.NTT(b, tb)
		s.MulCoeffsBarrett(ta, tb, tc)
		s.INTT(tc, tc)
		for j := range want {
			if tc[j] != want[j] {
				c.Fail(sigFor(area, "ntt-product", mod), "%s: q=%d: INTT(NTT(a)·NTT(b))[%d]=%d, negacyclic product %d", tag, q, j, tc[j], want[j])
				return
			}
		}
		c.Count(2)
	}
}

// checkRescale: DivRoundByLastModulusNTT on boundary integers equals round(x/q_L) modulo Q_{L-1} (q_L odd: no ties).
func checkRescale(c *engine.Chooser, area, tag string, p rlwe.Parameters) {
	if p.QCount() < 2 {
		return
	}
	// coefficient-wise operation: the same definition holds in the conjugate-invariant ring
	r := p.RingQ()
	L := r.MaxLevel()
	moduli := r.ModuliChain()
	Q := ref.Prod(moduli)
	qL := new(big.Int).SetUint64(moduli[L])
	Qlow := ref.Prod(moduli[:L])
	half := new(big.Int).Rsh(qL, 1)
	var xs []*big.Int
	add := func(x *big.Int) {
		for d := int64(-1); d <= 1; d++ {
			v := new(big.Int).Add(x, big.NewInt(d))
			xs = append(xs, v.Mod(v, Q))
		}
	}
	add(big.NewInt(0))
	add(half)
	add(qL)
	add(new(big.Int).Rsh(Q, 1))
	add(new(big.Int).Rsh(Q, 2))
	add(new(big.Int).Add(new(big.Int).Mul(qL, big.NewInt(12345)), half))
	add(new(big.Int).Sub(Q, half))
	n := r.N()
	coeffs := make([]*big.Int, n)
	for j := range coeffs {
		coeffs[j] = xs[j%len(xs)]
	}
	p0, buff := r.NewPoly(), r.NewPoly()
	r.SetCoefficientsBigint(coeffs, p0)
	r.NTT(p0, p0)
	p1 := r.AtLevel(L - 1).NewPoly()
	r.DivRoundByLastModulusNTT(p0, buff, p1)
	r.AtLevel(L-1).INTT(p1, p1)
	got := ref.PolyCRT(p1.Coeffs[:L], moduli[:L])
	for j := range coeffs {
		want := ref.RoundDivHalfUp(coeffs[j], qL)
		want.Mod(want, Qlow)
		if got[j].Cmp(want) != 0 {
			c.Fail(sigFor(area, "rescale", moduli), "%s: DivRoundByLastModulusNTT(x=%v) = %v, round(x/%v) mod Q' = %v", tag, coeffs[j], got[j], qL, want)
			return
		}
	}
	c.Count(1)
}

// checkEncDec: secret-key encryption of a known plaintext; the phase minus the plaintext is the fresh error, whose
// infinity norm is bounded by the truncation bound of the declared error distribution (hard bound, no statistics).
func checkEncDec(c *engine.Chooser, area, tag string, p rlwe.Parameters) {
	moduli := p.QP()
	kgen := rlwe.NewKeyGenerator(p)
	sk := kgen.GenSecretKeyNew()
	level := p.MaxLevel()
	rQ := p.RingQ().AtLevel(level)
	Q := uni.QAtLevel(p, level)
	n := p.N()
	pt := rlwe.NewPlaintext(p, level)
	m := make([]*big.Int, n)
	step := new(big.Int).Div(Q, big.NewInt(int64(n+1)))
	for j := range m {
		m[j] = new(big.Int).Mul(step, big.NewInt(int64(j+1)))
	}
	rQ.SetCoefficientsBigint(m, pt.Value)
	if pt.IsNTT {
		rQ.NTT(pt.Value, pt.Value)
	}
	ct, err := rlwe.NewEncryptor(p, sk).EncryptNew(pt)
	if err != nil {
		c.Fail("C19/"+area+"/encrypt-error", "%s: %v", tag, err)
		return
	}
	bound := new(big.Int).SetInt64(int64(math.Ceil(p.NoiseBound())) + 1)
	var diff []*big.Int
	if n <= 256 && p.RingType() == ring.Standard {
		// independent of rlwe.Decryptor: CRT + integer schoolbook with the secret lifted to Z
		diff = uni.SubCentered(uni.Phase(p, ct.El(), sk), m, Q)
	} else {
		dpt := rlwe.NewDecryptor(p, sk).DecryptNew(ct)
		diff = uni.SubCentered(uni.PolyCoeffs(p.RingQ(), dpt.Value, level, dpt.IsNTT, false), m, Q)
	}
	if e := ref.InfNorm(diff); e.Cmp(bound) > 0 {
		c.Fail(sigFor(area, "encrypt-decrypt", moduli), "%s: |phase - plaintext|_inf = %v > truncation bound %v of the error distribution", tag, e, bound)
		return
	}
	// the secret must have the declared shape: ternary (with the declared weight where one is declared), or within the
	// declared truncation bound of a Gaussian
	coeffs := uni.SecretCoeffs(p, sk)
	switch t := p.Xs().(type) {
	case ring.Ternary:
		w := 0
		for _, s := range coeffs {
			if s.Sign() != 0 {
				w++
				if s.CmpAbs(big.NewInt(1)) != 0 {
					c.Fail(sigFor(area, "secret-not-ternary", moduli), "%s: secret coefficient %v", tag, s)
					return
				}
			}
		}
		if t.H > 0 && w != t.H {
			c.Fail(sigFor(area, "secret-weight", moduli), "%s: declared H=%d, sampled secret has weight %d", tag, t.H, w)
		}
	case ring.DiscreteGaussian:
		if e := ref.InfNorm(coeffs); e.Cmp(big.NewInt(int64(math.Ceil(math.Abs(t.Bound)))+1)) > 0 {
			c.Fail(sigFor(area, "secret-exceeds-declared-bound", moduli), "%s: |s|_inf = %v, declared bound %v", tag, e, t.Bound)
		}
	}
	c.Count(1)
}

// smokeRLWE applies the generic oracles to an accepted rlwe context.
func smokeRLWE(c *engine.Chooser, area, tag string, p rlwe.Parameters) {
	if !checkStructure(c, area, tag, p) {
		return
	}
	checkNTT(c, area, tag, p.RingQ())
	checkNTT(c, area, tag, p.RingP())
	if c.Failed() {
		return // later oracles would only repeat the same defect
	}
	checkRescale(c, area, tag, p)
	checkEncDec(c, area, tag, p)
}

// sigTAboveHalfQ0 is the one signature of the defect "bgv.NewParameters only refuses t > Q[0], but a plaintext at
// level 0 (modulus q0) needs t < q0/2: the decoder computes round(t·x/q0), which wraps for residues above q0/2".
const sigTAboveHalfQ0 = "C19/accept/bgv-accepts-t-above-q0/2"

// smokeBGV: encode -> encrypt -> decrypt -> decode is the identity on Z_t^n.
func smokeBGV(c *engine.Chooser, area, tag string, p bgv.Parameters) {
	smokeRLWE(c, area, tag, p.Parameters)
	if c.Failed() {
		return
	}
	t := p.PlaintextModulus()
	sigFor := func(a, what string, moduli []uint64) string {
		if t > p.Q()[0]/2 {
			return sigTAboveHalfQ0
		}
		return sigFor(a, what, moduli)
	}
	// structure the statement names for the plaintext modulus: coprime to Q, compatible with the ring
	for _, q := range p.Q() {
		if q%t == 0 || (t > 1 && t%q == 0) {
			c.Fail("C19/"+area+"/plaintext-modulus-not-coprime-to-Q", "%s: t=%d, q=%d", tag, t, q)
			return
		}
	}
	ecd := bgv.NewEncoder(p)
	n := p.MaxSlots()
	vals := make([]uint64, n)
	for j := range vals {
		vals[j] = (uint64(j)*0x9E3779B97F4A7C15 + 1) % t // distinct-ish residues incl. large ones
	}
	vals[0] = t - 1
	got := make([]uint64, n)
	// plaintexts exist at every level: the top one and level 0 (modulus q0 alone) are the two extremes
	var pt *rlwe.Plaintext
	for _, lvl := range []int{0, p.MaxLevel()} {
		pt = bgv.NewPlaintext(p, lvl)
		if err := ecd.Encode(vals, pt); err != nil {
			c.Fail("C19/"+area+"/bgv-encode-error", "%s: level %d: %v", tag, lvl, err)
			return
		}
		if err := ecd.Decode(pt, got); err != nil {
			c.Fail("C19/"+area+"/bgv-decode-error", "%s: level %d: %v", tag, lvl, err)
			return
		}
		for j := range vals {
			if got[j] != vals[j] {
				c.Fail(sigFor(area, "bgv-encode-decode", append(p.QP(), t)), "%s: t=%d q0=%d level %d slot %d: Decode(Encode(v)) = %d, v = %d (no encryption involved)", tag, t, p.Q()[0], lvl, j, got[j], vals[j])
				return
			}
		}
		// coefficient (non-batched) encoding puts the boundary residues t-1, t/2, t/2+1 directly into the polynomial
		cpt := bgv.NewPlaintext(p, lvl)
		cpt.IsBatched = false
		coef := make([]uint64, n)
		for j := range coef {
			coef[j] = []uint64{t - 1, 1, t / 2, t/2 + 1, 0, t - 2}[j%6]
		}
		if err := ecd.Encode(coef, cpt); err != nil {
			c.Fail("C19/"+area+"/bgv-encode-error", "%s: level %d (coefficients): %v", tag, lvl, err)
			return
		}
		if err := ecd.Decode(cpt, got); err != nil {
			c.Fail("C19/"+area+"/bgv-decode-error", "%s: level %d (coefficients): %v", tag, lvl, err)
			return
		}
		for j := range coef {
			if got[j] != coef[j] {
				c.Fail(sigFor(area, "bgv-encode-decode", append(p.QP(), t)), "%s: t=%d q0=%d level %d coefficient %d: Decode(Encode(v)) = %d, v = %d (no encryption involved)", tag, t, p.Q()[0], lvl, j, got[j], coef[j])
				return
			}
		}
	}
	// a fresh secret-key encryption is m + t·e with |e| <= B: it decrypts when t·(B + 1) < Q/2 (noise budget
	// precondition; tiny Q with a comparatively large t is accepted by the constructor but has no budget at all)
	budget := new(big.Int).Mul(new(big.Int).SetUint64(t), big.NewInt(int64(math.Ceil(p.NoiseBound()))+2))
	if budget.Lsh(budget, 1).Cmp(p.QBigInt()) >= 0 {
		c.Cover("bgv", "no-noise-budget")
		return
	}
	sk := rlwe.NewKeyGenerator(p).GenSecretKeyNew()
	ct, err := rlwe.NewEncryptor(p, sk).EncryptNew(pt)
	if err != nil {
		c.Fail("C19/"+area+"/encrypt-error", "%s: %v", tag, err)
		return
	}
	if err := ecd.Decode(rlwe.NewDecryptor(p, sk).DecryptNew(ct), got); err != nil {
		c.Fail("C19/"+area+"/bgv-decode-error", "%s: %v", tag, err)
		return
	}
	for j := range vals {
		if got[j] != vals[j] {
			c.Fail(sigFor(area, "bgv-encrypt-decrypt", append(p.QP(), t)), "%s: t=%d slot %d: decrypted %d, encrypted %d (fresh ciphertext at the top level)", tag, t, j, got[j], vals[j])
			return
		}
	}
	c.Count(2)
	// One multiplication with relinearisation: exercises the auxiliary basis QMul, the gadget decomposition and the
	// division by P in the accepted context. Hard noise precondition: the tensor of two fresh ciphertexts m + t·e
	// (|m| <= t/2, |e| <= B) has coefficients below N·t²(B+1)²; the key switch of its degree-2 part adds at most
	// #digits·N·q_max·(B+1)·t/P (+ N·t of rounding); a factor 4 of slack on the sum, all below Q/2.
	N := big.NewInt(int64(p.N()))
	B := big.NewInt(int64(math.Ceil(p.NoiseBound())) + 1)
	tb := new(big.Int).SetUint64(t)
	tensor := new(big.Int).Mul(N, new(big.Int).Mul(new(big.Int).Mul(tb, tb), new(big.Int).Mul(B, B)))
	qmax := uint64(0)
	for _, q := range p.Q() {
		if q > qmax {
			qmax = q
		}
	}
	digits := int64(p.BaseRNSDecompositionVectorSize(p.MaxLevelQ(), p.MaxLevelP()))
	ks := new(big.Int).Mul(big.NewInt(digits), new(big.Int).Mul(N, new(big.Int).Mul(new(big.Int).SetUint64(qmax), new(big.Int).Mul(B, tb))))
	if p.PCount() > 0 {
		ks.Div(ks, p.PBigInt())
	}
	ks.Add(ks, new(big.Int).Mul(N, tb))
	need := new(big.Int).Lsh(new(big.Int).Add(tensor, ks), 3) // x4 slack, x2 for Q/2
	if need.Cmp(p.QBigInt()) >= 0 {
		c.Cover("bgv", "no-budget-for-a-multiplication")
		return
	}
	kgen := rlwe.NewKeyGenerator(p)
	eval := bgv.NewEvaluator(p, rlwe.NewMemEvaluationKeySet(kgen.GenRelinearizationKeyNew(sk)))
	prod, err := eval.MulRelinNew(ct, ct)
	if err != nil {
		c.Fail("C19/"+area+"/bgv-mulrelin-error", "%s: %v", tag, err)
		return
	}
	if err := ecd.Decode(rlwe.NewDecryptor(p, sk).DecryptNew(prod), got); err != nil {
		c.Fail("C19/"+area+"/bgv-decode-error", "%s: %v", tag, err)
		return
	}
	for j := range vals {
		if want := ref.MulMod(vals[j], vals[j], t); got[j] != want {
			c.Fail(sigFor(area, "bgv-mulrelin", append(p.QP(), t)), "%s: t=%d slot %d: Dec(MulRelin(ct,ct)) = %d, v² mod t = %d (v=%d; noise budget %d bits of %d)", tag, t, j, got[j], want, vals[j], need.BitLen(), p.QBigInt().BitLen())
			return
		}
	}
	c.Cover("bgv", "mulrelin-checked")
	c.Count(1)
}

// smokeCKKS: encode/decode round trip within the rounding error the scale implies.
func smokeCKKS(c *engine.Chooser, area, tag string, p ckks.Parameters) {
	smokeRLWE(c, area, tag, p.Parameters)
	if c.Failed() {
		return
	}
	n := p.MaxSlots()
	N := float64(p.N())
	scale := p.DefaultScale().Float64()
	// largest message whose encoding surely fits Q at the top level: |coefficients| <= max|v|·scale, keep a factor 8
	logQ := p.LogQ()
	amp := math.Exp2(math.Min(20, logQ-3-math.Log2(scale)))
	if amp < math.Exp2(-30) {
		c.Cover("ckks-encode", "scale-exceeds-modulus")
		return
	}
	ecd := ckks.NewEncoder(p)
	pt := ckks.NewPlaintext(p, p.MaxLevel())
	if p.RingType() == ring.ConjugateInvariant {
		vals := make([]float64, n)
		for j := range vals {
			vals[j] = amp * (2*float64(j+1)/float64(n+1) - 1)
		}
		got := make([]float64, n)
		if err := ecd.Encode(vals, pt); err != nil {
			c.Fail("C19/"+area+"/ckks-encode-error", "%s: %v", tag, err)
			return
		}
		if err := ecd.Decode(pt, got); err != nil {
			c.Fail("C19/"+area+"/ckks-decode-error", "%s: %v", tag, err)
			return
		}
		tol := (N+1)/scale + amp*N*math.Exp2(-44)
		for j := range vals {
			if d := math.Abs(got[j] - vals[j]); d > tol || math.IsNaN(d) {
				c.Fail(sigFor(area, "ckks-encode-decode", p.QP()), "%s: slot %d: |decoded-encoded| = %g > %g (scale 2^%.1f)", tag, j, d, tol, math.Log2(scale))
				return
			}
		}
	} else {
		vals := make([]complex128, n)
		for j := range vals {
			vals[j] = complex(amp*(2*float64(j+1)/float64(n+1)-1), amp*(1-2*float64(j+1)/float64(n+2)))
		}
		got := make([]complex128, n)
		if err := ecd.Encode(vals, pt); err != nil {
			c.Fail("C19/"+area+"/ckks-encode-error", "%s: %v", tag, err)
			return
		}
		if err := ecd.Decode(pt, got); err != nil {
			c.Fail("C19/"+area+"/ckks-decode-error", "%s: %v", tag, err)
			return
		}
		// each of the N coefficients is rounded by at most 1/2 and contributes with a root of unity of modulus 1:
		// |error| <= N/(2·scale) per real/imaginary part (a factor 2 of slack), plus float64 round-off of the FFT
		tol := (N+1)/scale + amp*N*math.Exp2(-44)
		for j := range vals {
			d := math.Max(math.Abs(real(got[j])-real(vals[j])), math.Abs(imag(got[j])-imag(vals[j])))
			if d > tol || math.IsNaN(d) {
				c.Fail(sigFor(area, "ckks-encode-decode", p.QP()), "%s: slot %d: |decoded-encoded| = %g > %g (scale 2^%.1f)", tag, j, d, tol, math.Log2(scale))
				return
			}
		}
	}
	c.Cover("ckks-encode", "checked")
	c.Count(1)
}

func fmtU64s(v []uint64) string { return fmt.Sprint(v) }
