// C19 — accepted parameters are sound; shipped sets meet their 128-bit security claim.
//
//	accept.go    item 1: literal families through the rlwe/bgv/ckks constructors (watchdog.go), smoke.go = "accepted ⇒ arithmetic correct"
//	gen.go       item 2: GenModuli and the three modes of NTTFriendlyPrimesGenerator
//	roundtrip.go item 3: Parameters <-> literal <-> JSON <-> binary, derived quantities from their definitions
//	security.go  item 4: every exported literal: exact log2(QP) vs identifier/doc and vs security128.json
package main

import (
	"time"

	"verif/engine"
)

func scenarios(tier string) []engine.Scenario {
	var scs []engine.Scenario
	acc, slowA := acceptScenarios(tier)
	gen, slowG := genScenarios(tier)
	scs = append(scs, securityScenarios(tier)...) // the LogN=16 sets are the longest single leaves: start them first
	scs = append(scs, acc...)
	scs = append(scs, btpScenarios(tier)...)
	scs = append(scs, gen...)
	scs = append(scs, roundTripScenarios(tier)...)
	scs = append(scs, jsonScenarios(tier)...)
	scs = append(scs, retainedScenarios(tier)...)
	// scenarios that may sit in the watchdog horizon go last, one per worker slot
	scs = append(scs, slowA...)
	scs = append(scs, slowG...)
	return scs
}

func main() {
	engine.Main(engine.Check{
		ID:    "C19",
		Level: "exploration",
		Rule:  "One leaf = one parameter literal (or one generator request, one shipped set). Item 1: families LogN x ring type, prime catalogue (NTT-friendly primes of every bit length, first/last of 58..64 bits, around 2^64/6, non-NTT-friendly, composites, Carmichael, strong pseudoprimes, 0, 1) x position in Q/P, duplicate/overlapping lists, LogQ/LogP of every size -1..65, LogNthRoot, every secret/error distribution kind, BGV t residue classes, CKKS LogDefaultScale -1..130; each through the public constructor under recover + watchdog; accepted contexts go through NTT round trip/product, rescale on boundary integers, secret-key encryption with the phase recomputed over Z, scheme encode/decode. Item 2: every (LogNthRoot, size, count) through GenModuli and the generator modes. Item 3: catalogue of parameter sets through literal/JSON/binary and derived quantities. Item 4: every exported literal (source scan == direct references). Retained objects (retained.go): after every constructor (rlwe/ckks/bgv from literal with explicit and generated chains, rlwe.NewParameters, bgv.NewParameters, ring.NewRing, the decoders, bootstrapping.NewParametersFromLiteral) one leaf per input the caller may legally write to afterwards (each slice, pointer field, scale, byte buffer) and per value a getter handed out: fingerprint of every getter/encoding unchanged, Q()/P() coherent with RingQ()/RingP(), Equal to a fresh construction, codec round trip unchanged. distinct_nontrivial counts (family, accepted/rejected, literal) classes.",
		Assumptions: []string{
			"checks/c19/security128.json is the trusted base of the security clause: HE.org 2018 Table 1 (uniform ternary, 128-bit classical) for LogN 10..15; for LogN=16 and the sparse classes only bounds stated in the repository (cited per row) or, where none exists, the largest shipped value as a regression guard (kind=largest-shipped vouches for nothing)",
			"fixed-weight ternary secrets with H >= N/4 and probabilistic ternary secrets are judged against the standard's uniform-ternary column; the conjugate-invariant ring of degree N is judged as dimension N",
			"a constructor or generator call that has not returned after 12 s of wall time (VERIF_C19_WATCHDOG) is a hang (legitimate calls of this check need milliseconds; the LogN=15/16 shipped sets are instantiated without a watchdog verdict)",
			"requirements taken from the doc comments: LogQ in ]0,60], LogP in ]0,61], MinLogN <= LogN <= MaxLogN, Ternary with exactly one of H (<= N) and P (in ]0,1]) set, Gaussian sigma > 0 and bound >= 0, BGV t an NTT-friendly prime of the plaintext ring (order >= 16) not dividing Q and <= Q[0], CKKS 0 <= LogDefaultScale <= 128",
			"generator promise (ring/primes.go): prime, = 1 mod NthRoot, |log2(p) - BitSize| < 0.5, distinct, and an error once the candidates are exhausted",
			"rings above LogN=12 are never built in item 1 (accept/reject of an invalid modulus only)",
		},
		Scenarios:      scenarios,
		QuickBudget:    150 * time.Second,
		ThoroughBudget: 25 * time.Minute,
		MemLimitMB:     6144,
		Expect: func(tier string) []string {
			return []string{"accepted=accept/logN", "rejected=accept/logN", "logN=out-of-range", "logN=4", "logN=12",
				"accepted=accept/primes", "rejected=accept/primes", "prime=ntt61bit-last", "prime=ntt-above-2^64/6", "prime=carmichael-1729", "prime=value-0",
				"list=duplicate-in-Q", "list=Q-and-P-share-a-modulus", "size=60@0", "size=61@1", "size=64@0", "nthroot=6", "nthroot=62",
				"dist=Xs=ternary-H=N", "dist=Xe=gaussian-3.2", "dist-invalid=Xs=ternary-H=N+1", "dist-invalid=Xe=gaussian-sigma<0", "bgv-t=t=q0", "bgv-t=t-just-above-q0/2", "bgv-t=17(order16)", "bgv-big-t=61", "ckks-scale=0", "ckks-scale=128", "ckks-scale=129",
				"ckks-encode=checked", "bgv=mulrelin-checked", "btp=ordinary", "btp=S2C-depth=LogSlots", "btp-defaults=SlotsToCoeffs=min(3,LogSlots)x39", "btp-defaults=all-of-the-above", "long-chain=M=33", "long-chain=M=64", "long-chain=P-last=Q-first", "long-chain=valid", "json=own-encoding", "json=own-encoding-into-used-receiver", "json=unknown-field", "json=Xs-unknown-type", "accepted=accept/btp", "rejected=accept/btp", "gen=generated", "derived=mixed-sizes", "derived=largest-P-not-last", "retained=literal.Q", "retained=literal.P", "retained=literal.LogQ", "retained=returned-Q()", "retained=literal.CoeffsToSlots", "retained=json-buffer", "gen-literal=ci-own+4", "gen-literal=std-own+4", "gen-literal=ci-unset", "generator=upstream", "generator=downstream", "generator=alternating", "generator=exhausted-with-error",
				"exhausted=NextUpstreamPrime", "exhausted=NextDownstreamPrime", "exhausted=NextAlternatingPrime",
				"roundtrip=rlwe", "roundtrip=NTTFlag=false", "roundtrip=StandardParameters-of-conjugate-invariant", "roundtrip=bgv", "roundtrip=ckks", "security=catalogue", "security=claim-checked", "security=kind=standard", "security=kind=repo-statement", "security=class=H32"}
		},
	})
}
