package main

import (
	"encoding/json"
	"fmt"
	"math/big"
	"reflect"
	"strings"

	"github.com/tuneinsight/lattigo/v6/circuits/ckks/bootstrapping"
	"github.com/tuneinsight/lattigo/v6/circuits/ckks/dft"
	"github.com/tuneinsight/lattigo/v6/circuits/ckks/mod1"
	"github.com/tuneinsight/lattigo/v6/core/rlwe"
	"github.com/tuneinsight/lattigo/v6/ring"
	"github.com/tuneinsight/lattigo/v6/schemes/bgv"
	"github.com/tuneinsight/lattigo/v6/schemes/ckks"
	"github.com/tuneinsight/lattigo/v6/utils"

	"verif/engine"
)

// Item 3 continued — every *.ParametersLiteral through encoding/json with well-formed, redundant and malformed input.
//
//   - own encoding: Unmarshal(Marshal(l)) must reproduce l (reflect.DeepEqual on the literal) for literals with every
//     optional field set;
//   - redundant input (an unknown field, a field given twice with the same value): either an error or the same literal;
//   - malformed input (wrong JSON types, unknown distribution names, truncated text, ...): an error or any literal, but
//     never a panic or a hang, and a literal that was produced must go through its constructor without panic.

type jsonTarget struct {
	name string
	// sample returns a literal with the optional fields set, as a pointer
	sample func() interface{}
	fresh  func() interface{}
	// others returns literals of the same type with OTHER optional fields set than sample: receivers "that have been
	// used" (decoding must not keep anything of what the receiver held before)
	others func() []interface{}
	// construct feeds a decoded literal to its constructor (nil: the literal has none of its own)
	construct func(interface{}) error
}

func jsonTargets() []jsonTarget {
	q := []uint64{0x3fffffa8001, 0x3fffff38001} // 42-bit primes = 1 mod 2^15
	p := []uint64{0x7fffffd8001}
	return []jsonTarget{
		{"rlwe.ParametersLiteral",
			func() interface{} {
				return &rlwe.ParametersLiteral{LogN: 5, Q: q, P: p, Xs: ring.Ternary{H: 8}, Xe: ring.DiscreteGaussian{Sigma: 3.2, Bound: 19.2},
					RingType: ring.ConjugateInvariant, DefaultScale: rlwe.NewScale(1 << 20), NTTFlag: true}
			},
			func() interface{} { return &rlwe.ParametersLiteral{} },
			func() []interface{} {
				return []interface{}{
					&rlwe.ParametersLiteral{LogN: 6, LogNthRoot: 9, LogQ: []int{40, 30}, LogP: []int{41, 41}, Xs: ring.Ternary{P: 0.5}, DefaultScale: rlwe.NewScale(3), NTTFlag: false},
					&rlwe.ParametersLiteral{LogN: 4, Q: []uint64{97}, Xe: ring.Ternary{H: 2}, RingType: ring.Standard},
				}
			},
			func(l interface{}) error {
				_, err := rlwe.NewParametersFromLiteral(*l.(*rlwe.ParametersLiteral))
				return err
			}},
		{"bgv.ParametersLiteral",
			func() interface{} {
				return &bgv.ParametersLiteral{LogN: 5, Q: q, P: p, Xs: ring.Ternary{P: 0.5}, Xe: ring.DiscreteGaussian{Sigma: 3.2, Bound: 19.2}, PlaintextModulus: 65537}
			},
			func() interface{} { return &bgv.ParametersLiteral{} },
			func() []interface{} {
				return []interface{}{
					&bgv.ParametersLiteral{LogN: 6, LogNthRoot: 9, LogQ: []int{40, 30}, LogP: []int{41}, Xs: ring.Ternary{H: 4}, PlaintextModulus: 257},
					&bgv.ParametersLiteral{LogN: 4, Q: []uint64{0x3fffffa8001}, Xe: ring.Ternary{P: 0.5}, PlaintextModulus: 17},
				}
			},
			func(l interface{}) error {
				_, err := bgv.NewParametersFromLiteral(*l.(*bgv.ParametersLiteral))
				return err
			}},
		{"ckks.ParametersLiteral",
			func() interface{} {
				return &ckks.ParametersLiteral{LogN: 5, LogQ: []int{40, 30}, LogP: []int{41}, LogNthRoot: 8, Xs: ring.Ternary{H: 8}, Xe: ring.DiscreteGaussian{Sigma: 3.2, Bound: 19.2},
					RingType: ring.ConjugateInvariant, LogDefaultScale: 30}
			},
			func() interface{} { return &ckks.ParametersLiteral{} },
			func() []interface{} {
				return []interface{}{
					&ckks.ParametersLiteral{LogN: 6, Q: q, P: p, Xs: ring.Ternary{P: 0.5}, RingType: ring.Standard, LogDefaultScale: 20},
					&ckks.ParametersLiteral{LogN: 4, LogQ: []int{50}, Xe: ring.Ternary{H: 2}, LogNthRoot: 12, RingType: ring.ConjugateInvariant, LogDefaultScale: 45},
				}
			},
			func(l interface{}) error {
				_, err := ckks.NewParametersFromLiteral(*l.(*ckks.ParametersLiteral))
				return err
			}},
		{"bootstrapping.ParametersLiteral",
			func() interface{} {
				return &bootstrapping.ParametersLiteral{LogN: utils.Pointy(8), LogP: []int{61}, LogSlots: utils.Pointy(3),
					CoeffsToSlotsFactorizationDepthAndLogScales: [][]int{{56}, {56}}, SlotsToCoeffsFactorizationDepthAndLogScales: [][]int{{39}},
					EvalModLogScale: utils.Pointy(59), EphemeralSecretWeight: utils.Pointy(16),
					IterationsParameters: &bootstrapping.IterationsParameters{BootstrappingPrecision: []float64{20, 20}, ReservedPrimeBitSize: 20},
					Mod1Type:             mod1.CosContinuous, LogMessageRatio: utils.Pointy(12), K: utils.Pointy(12), Mod1Degree: utils.Pointy(40), DoubleAngle: utils.Pointy(2), Mod1InvDegree: utils.Pointy(5)}
			},
			func() interface{} { return &bootstrapping.ParametersLiteral{} },
			func() []interface{} {
				return []interface{}{
					&bootstrapping.ParametersLiteral{Xs: ring.Ternary{H: 64}, Xe: ring.DiscreteGaussian{Sigma: 1, Bound: 6}, LogP: []int{55, 55}, K: utils.Pointy(20)},
					&bootstrapping.ParametersLiteral{LogN: utils.Pointy(10), IterationsParameters: &bootstrapping.IterationsParameters{BootstrappingPrecision: []float64{7}}, Mod1Type: mod1.SinContinuous},
				}
			}, nil},
		{"bootstrapping.ParametersLiteral+Xs",
			func() interface{} {
				return &bootstrapping.ParametersLiteral{LogN: utils.Pointy(8), Xs: ring.Ternary{H: 32}, Xe: ring.DiscreteGaussian{Sigma: 3.2, Bound: 19.2}}
			},
			func() interface{} { return &bootstrapping.ParametersLiteral{} },
			func() []interface{} {
				return []interface{}{
					&bootstrapping.ParametersLiteral{LogSlots: utils.Pointy(4), Xs: ring.Ternary{P: 0.5}, LogP: []int{61}, Mod1Type: mod1.CosContinuous,
						IterationsParameters: &bootstrapping.IterationsParameters{BootstrappingPrecision: []float64{9, 9}, ReservedPrimeBitSize: 30}},
				}
			}, nil},
		{"mod1.ParametersLiteral",
			func() interface{} {
				return &mod1.ParametersLiteral{LevelQ: 9, LogScale: 60, Mod1Type: mod1.SinContinuous, Scaling: 0.5, LogMessageRatio: 8, K: 12, Mod1Degree: 63, DoubleAngle: 1, Mod1InvDegree: 7}
			},
			func() interface{} { return &mod1.ParametersLiteral{} },
			func() []interface{} {
				return []interface{}{&mod1.ParametersLiteral{LevelQ: 3, LogScale: 55, Mod1Type: mod1.CosContinuous, LogMessageRatio: 4, K: 325, Mod1Degree: 177, DoubleAngle: 4}}
			}, nil},
		{"dft.MatrixLiteral",
			func() interface{} {
				return &dft.MatrixLiteral{Type: dft.HomomorphicDecode, LogSlots: 5, LevelQ: 7, LevelP: 1, Levels: []int{1, 2}, Format: dft.RepackImagAsReal, BitReversed: true, LogBSGSRatio: 2}
			},
			func() interface{} { return &dft.MatrixLiteral{} },
			func() []interface{} {
				return []interface{}{&dft.MatrixLiteral{Type: dft.HomomorphicEncode, LogSlots: 9, LevelQ: 12, LevelP: 2, Levels: []int{1, 1, 1, 1}, Format: dft.SplitRealAndImag,
					Scaling: new(big.Float).SetFloat64(0.5), LogBSGSRatio: 1}}
			}, nil},
	}
}

type jsonMutation struct {
	name      string
	redundant bool // well-formed: must decode to the same literal or be refused
	apply     func(text string) string
}

func jsonMutations() []jsonMutation {
	insert := func(extra string) func(string) string {
		return func(t string) string { return "{" + extra + "," + strings.TrimPrefix(t, "{") }
	}
	firstKV := func(t string) string { // the first "key":value pair of the object (values of the samples' first fields are scalars)
		end := strings.IndexAny(t[1:], ",}") + 1
		return t[1:end]
	}
	sub := func(old, new string) func(string) string {
		return func(t string) string { return strings.Replace(t, old, new, 1) }
	}
	return []jsonMutation{
		{"unknown-field", true, insert(`"NoSuchField":{"a":[1,2,{"b":null}]}`)},
		{"first-field-twice-same-value", true, func(t string) string { return "{" + firstKV(t) + "," + t[1:] }},
		{"first-field-twice-other-value", false, func(t string) string {
			return strings.TrimSuffix(t, "}") + "," + strings.SplitN(firstKV(t), ":", 2)[0] + ":3}"
		}},
		{"whitespace-and-newlines", true, func(t string) string { return strings.ReplaceAll(strings.ReplaceAll(t, ",", " ,\n\t"), ":", " : ") }},
		{"empty-object", false, func(string) string { return "{}" }},
		{"null", false, func(string) string { return "null" }},
		{"array", false, func(string) string { return "[]" }},
		{"number", false, func(string) string { return "7" }},
		{"truncated", false, func(t string) string { return t[:len(t)/2] }},
		{"trailing-garbage", false, func(t string) string { return t + "]" }},
		{"LogN-as-string", false, sub(`"LogN":`, `"LogN":"x",`+`"_":`)},
		{"LogN-fraction", false, sub(`"LogN":`, `"LogN":5.5,"_":`)},
		{"LogN-huge", false, sub(`"LogN":`, `"LogN":1e30,"_":`)},
		{"LogN-negative", false, sub(`"LogN":`, `"LogN":-3,"_":`)},
		{"Q-negative-entry", false, sub(`"Q":[`, `"Q":[-1,`)},
		{"Q-string-entry", false, sub(`"Q":[`, `"Q":["97",`)},
		{"Q-object", false, sub(`"Q":[`, `"Q":{},"_":[`)},
		{"Xs-unknown-type", false, sub(`"Type":"Ternary"`, `"Type":"Banana"`)},
		{"Xs-type-not-string", false, sub(`"Type":"Ternary"`, `"Type":7`)},
		{"Xs-no-type", false, sub(`"Type":"Ternary"`, `"Typ":"Ternary"`)},
		{"Xs-H-as-string", false, sub(`"H":`, `"H":"eight","_":`)},
		{"Xs-H-fraction", false, sub(`"H":`, `"H":4.5,"_":`)},
		{"Xs-H-and-P", false, sub(`"Type":"Ternary"`, `"Type":"Ternary","H":4,"P":0.5,"x":1`)},
		{"Xs-number", false, sub(`"Xs":{`, `"Xs":5,"_":{`)},
		{"Xs-null", false, sub(`"Xs":{`, `"Xs":null,"_":{`)},
		{"Xe-sigma-string", false, sub(`"Sigma":`, `"Sigma":"3.2","_":`)},
		{"Xe-missing-bound", false, sub(`"Bound":`, `"Bnd":`)},
		{"RingType-unknown", false, sub(`"RingType":"ConjugateInvariant"`, `"RingType":"Moebius"`)},
		{"RingType-number", false, sub(`"RingType":"ConjugateInvariant"`, `"RingType":1`)},
		{"DefaultScale-string", false, sub(`"DefaultScale":{`, `"DefaultScale":"big","_":{`)},
		{"DefaultScale-bad-value", false, sub(`"Value":"`, `"Value":"zz`)},
		{"pointer-field-null", false, sub(`"LogSlots":3`, `"LogSlots":null`)},
		{"Levels-nested", false, sub(`"Levels":[`, `"Levels":[[1],`)},
	}
}

func jsonScenario(t jsonTarget) engine.Scenario {
	name := "json/" + t.name
	muts := jsonMutations()
	return engine.Scenario{Name: name, Bound: -1, Fn: func(c *engine.Chooser) {
		mi := c.Choose(len(muts)+1, "input") - 1
		orig := t.sample()
		text, err := json.Marshal(orig)
		if err != nil {
			c.Fail("C19/json/"+t.name+"/marshal-error", "%v", err)
			return
		}
		decode := func(key, in string) (interface{}, callResult) {
			out := t.fresh()
			r := guarded(name+"|"+key, func() error { return json.Unmarshal([]byte(in), out) })
			return out, r
		}
		if mi < 0 {
			// the own encoding of every catalogue literal of the type, into a fresh receiver (0) and into receivers that
			// hold each of the other catalogue literals
			all := append([]interface{}{t.sample()}, t.others()...)
			si := c.Choose(len(all), "source")
			ri := c.Choose(1+len(all), "receiver")
			c.Cover("json", "own-encoding")
			if si > 0 || ri > 0 {
				if ri-1 == si {
					c.Skip("receiver equals source")
					return
				}
				src := all[si]
				stext, err := json.Marshal(src)
				if err != nil {
					c.Fail("C19/json/"+t.name+"/marshal-error", "%v", err)
					return
				}
				out, kind := t.fresh(), "fresh receiver"
				if ri > 0 {
					c.Cover("json", "own-encoding-into-used-receiver")
					out = append([]interface{}{t.sample()}, t.others()...)[ri-1]
					kind = fmt.Sprintf("receiver that held %+v", out)
				}
				r := guarded(fmt.Sprint(name, "|used|", si, ri), func() error { return json.Unmarshal(stext, out) })
				// equality of literals = equality of their encodings (reflect.DeepEqual would also compare the working
				// precision of big.Float fields, which the text encoding legitimately does not carry)
				same := func() bool {
					again, err := json.Marshal(out)
					return err == nil && string(again) == string(stext)
				}
				switch {
				case r.hung || r.panicked != nil:
					c.Fail("C19/json/"+t.name+"/own-encoding-panic-or-hang", "into a %s: %s: %v", kind, stext, r)
				case r.err != nil:
					c.Fail("C19/json/"+t.name+"/own-encoding-not-decodable", "into a %s: %v\n%s", kind, r.err, stext)
				case ri > 0 && !same():
					c.Fail("C19/json/"+t.name+"/decoding-keeps-fields-of-the-receiver", "Unmarshal(Marshal(l)) into a %s gives %+v, want %+v (json %s)", kind, out, src, stext)
				case !same():
					c.Fail("C19/json/"+t.name+"/own-encoding-differs", "Unmarshal(Marshal(l)) != l:\n have %+v\n want %+v\n json %s", out, src, stext)
				}
				c.Outcome(name, "own", si, ri, r.String())
				return
			}
			out, r := decode("own", string(text))
			switch {
			case r.hung || r.panicked != nil:
				c.Fail("C19/json/"+t.name+"/own-encoding-panic-or-hang", "%s: %v", text, r)
			case r.err != nil:
				c.Fail("C19/json/"+t.name+"/own-encoding-not-decodable", "Unmarshal(Marshal(l)): %v\n%s", r.err, text)
			case !reflect.DeepEqual(orig, out):
				c.Fail("C19/json/"+t.name+"/own-encoding-differs", "Unmarshal(Marshal(l)) != l:\n have %+v\n want %+v\n json %s", out, orig, text)
			}
			c.Outcome(name, "own", r.String())
			return
		}
		m := muts[mi]
		in := m.apply(string(text))
		if in == string(text) {
			c.Skip("mutation does not apply to this literal")
			return
		}
		c.Cover("json", m.name)
		out, r := decode(m.name, in)
		switch {
		case r.hung:
			c.Fail("C19/json/"+t.name+"/hang@"+m.name, "%s: %v", in, r)
			return
		case r.panicked != nil:
			c.Fail("C19/json/"+t.name+"/panic@"+m.name, "%s: %v", in, r)
			return
		}
		c.Outcome(name, m.name, r.err == nil)
		if r.err != nil {
			return
		}
		if m.redundant {
			// own-encoding defects are reported by the first leaf; here the reference is what the own encoding decodes to
			ref, rr := decode("own", string(text))
			if rr.err == nil && rr.panicked == nil && !rr.hung && !reflect.DeepEqual(ref, out) {
				c.Fail("C19/json/"+t.name+"/redundant-input-changes-literal@"+m.name, "%s decodes to %+v, the plain encoding to %+v", in, out, ref)
			}
		}
		if t.construct != nil {
			cr := guarded(name+"|construct|"+m.name, func() error { _ = t.construct(out); return nil })
			if cr.hung || cr.panicked != nil {
				c.Fail("C19/json/"+t.name+"/constructor-panic-or-hang@"+m.name, "%s decoded to %+v: %v", in, out, cr)
			}
		}
	}}
}

func jsonScenarios(tier string) []engine.Scenario {
	var scs []engine.Scenario
	for _, t := range jsonTargets() {
		scs = append(scs, jsonScenario(t))
	}
	return scs
}

var _ = fmt.Sprint
