package main

import (
	"fmt"
	"math"
	"reflect"
	"strings"

	"github.com/tuneinsight/lattigo/v6/core/rlwe"
	"github.com/tuneinsight/lattigo/v6/ring"
	"github.com/tuneinsight/lattigo/v6/schemes/bgv"
	"github.com/tuneinsight/lattigo/v6/schemes/ckks"

	"verif/engine"
	"verif/ref"
	"verif/uni"
)

// Item 1 — acceptance boundary with arithmetic afterwards.

type scheme int

const (
	sRLWE scheme = iota
	sBGV
	sCKKS
)

func (s scheme) String() string { return [...]string{"rlwe", "bgv", "ckks"}[s] }

// lit is one literal of any of the three schemes.
type lit struct {
	sch      scheme
	rl       rlwe.ParametersLiteral // LogN, Q/P/LogQ/LogP, LogNthRoot, RingType, Xs, Xe (NTTFlag/DefaultScale are scheme-set)
	t        uint64                 // bgv plaintext modulus
	logScale int                    // ckks
	noNTT    bool                   // rlwe only: NTTFlag=false (elements are kept out of the NTT domain by default)
}

// construct calls the scheme's public constructor.
func (l lit) construct() (interface{}, error) {
	switch l.sch {
	case sBGV:
		p, err := bgv.NewParametersFromLiteral(bgv.ParametersLiteral{LogN: l.rl.LogN, LogNthRoot: l.rl.LogNthRoot, Q: l.rl.Q, P: l.rl.P,
			LogQ: l.rl.LogQ, LogP: l.rl.LogP, Xe: l.rl.Xe, Xs: l.rl.Xs, PlaintextModulus: l.t})
		return p, err
	case sCKKS:
		p, err := ckks.NewParametersFromLiteral(ckks.ParametersLiteral{LogN: l.rl.LogN, LogNthRoot: l.rl.LogNthRoot, Q: l.rl.Q, P: l.rl.P,
			LogQ: l.rl.LogQ, LogP: l.rl.LogP, Xe: l.rl.Xe, Xs: l.rl.Xs, RingType: l.rl.RingType, LogDefaultScale: l.logScale})
		return p, err
	}
	r := l.rl
	r.NTTFlag = !l.noNTT
	p, err := rlwe.NewParametersFromLiteral(r)
	return p, err
}

// judge runs one literal through its constructor and, if accepted, through the arithmetic oracles.
//
//	area  — sig prefix ("accept/<family>"), class — the input class inside the family that becomes part of the sig of a
//	        constructor panic/hang (stable, no run-specific numbers), tag — human-readable literal.
//	mustReject — the literal violates a documented requirement: acceptance itself is a violation.
//	instantiate=false — do not run the arithmetic (ring too large to afford).
func judge(c *engine.Chooser, area, class, tag string, l lit, mustReject, instantiate bool) (accepted bool) {
	var out interface{}
	r := guarded(area+"|"+tag, func() (err error) {
		out, err = l.construct()
		return
	})
	c.Logf("%s %s -> %v", l.sch, tag, r)
	switch {
	case r.hung:
		c.Fail("C19/"+area+"/constructor-hang@"+class, "%s %s: %v", l.sch, tag, r)
		return
	case r.panicked != nil:
		c.Fail("C19/"+area+"/constructor-panic@"+class, "%s %s: %v", l.sch, tag, r)
		return
	case r.err != nil:
		c.Cover("rejected", area)
		c.Outcome(area, "rejected")
		return
	}
	c.Cover("accepted", area)
	c.Outcome(area, "accepted", tag)
	if mustReject {
		c.Fail("C19/"+area+"/accepted@"+class, "%s %s: accepted although it violates a documented requirement", l.sch, tag)
		return true
	}
	if !instantiate {
		return true
	}
	// oracle failures after acceptance carry the input class: <area>@<class>/<oracle> (the known >=2^61 defect keeps
	// its single signature, see sigFor)
	sub := area + "@" + class
	s := guarded(area+"|smoke|"+tag, func() error {
		switch p := out.(type) {
		case bgv.Parameters:
			smokeBGV(c, sub, tag, p)
		case ckks.Parameters:
			smokeCKKS(c, sub, tag, p)
		case rlwe.Parameters:
			smokeRLWE(c, sub, tag, p)
		}
		return nil
	})
	switch {
	case s.hung:
		c.Fail("C19/"+area+"/hang-after-acceptance@"+class, "%s %s: accepted, then key generation / arithmetic did not return: %v", l.sch, tag, s)
	case s.panicked != nil:
		c.Fail("C19/"+area+"/panic-after-acceptance@"+class, "%s %s: accepted, then %v", l.sch, tag, s)
	}
	return true
}

// ---------------------------------------------------------------------------------------------
// prime catalogue

type primeClass struct {
	name string
	q    uint64
	bad  bool // violates "NTT-friendly prime" for the ring it is used in
}

// lastPrimeBelow2to64 is the largest prime ≡ 1 mod m below 2^64.
func lastPrimeBelow2to64(m uint64) uint64 {
	x := uint64(math.MaxUint64)
	x -= x % m
	x++ // ≡ 1 mod m, may have wrapped
	if x < m {
		x -= m
	}
	for !ref.IsPrime(x) {
		x -= m
	}
	return x
}

// primeCatalogue for NthRoot m: NTT-friendly primes of every reachable bit-length (first and last of the length for
// 58..64 bits, the pair around 2^64/6, one per length below), plus the inadmissible values.
func primeCatalogue(m uint64) []primeClass {
	var r []primeClass
	minBits := 0
	for x := m + 1; ; x += m {
		if ref.IsPrime(x) {
			minBits = bitLen(x)
			break
		}
	}
	for b := minBits; b <= 57; b++ {
		if p := ref.PrimesNear(uint64(1)<<b, m, 1, true); len(p) == 1 && bitLen(p[0]) == b {
			r = append(r, primeClass{fmt.Sprintf("ntt%dbit-last", b), p[0], false})
		}
	}
	for b := 58; b <= 63; b++ {
		r = append(r, primeClass{fmt.Sprintf("ntt%dbit-first", b), ref.PrimesNear(uint64(1)<<(b-1), m, 1, false)[0], false})
		r = append(r, primeClass{fmt.Sprintf("ntt%dbit-last", b), ref.PrimesNear(uint64(1)<<b, m, 1, true)[0], false})
	}
	r = append(r, primeClass{"ntt64bit-first", ref.PrimesNear(uint64(1)<<63, m, 1, false)[0], false})
	r = append(r, primeClass{"ntt64bit-last", lastPrimeBelow2to64(m), false})
	r = append(r, primeClass{"ntt-below-2^64/6", ref.PrimesNear(lazyNTTLimit, m, 1, true)[0], false})
	r = append(r, primeClass{"ntt-above-2^64/6", ref.PrimesNear(lazyNTTLimit, m, 1, false)[0], false})
	// mid-length values between 2^61.415 and 2^62 / 2^63 (where the lazy NTT breaks but CheckModuli still accepts)
	r = append(r, primeClass{"ntt-2^61.6", ref.PrimesNear(uint64(math.Exp2(61.6)), m, 1, false)[0], false})
	r = append(r, primeClass{"ntt-2^61.8", ref.PrimesNear(uint64(math.Exp2(61.8)), m, 1, false)[0], false})
	r = append(r, primeClass{"ntt-2^62.5", ref.PrimesNear(uint64(math.Exp2(62.5)), m, 1, false)[0], false})
	r = append(r, primeClass{"ntt-2^61.2", ref.PrimesNear(uint64(math.Exp2(61.2)), m, 1, false)[0], false})
	r = append(r, primeClass{"ntt-2^60.7", ref.PrimesNear(uint64(math.Exp2(60.7)), m, 1, false)[0], false})

	// inadmissible: 0, 1, even, small primes that are not ≡ 1 mod m, big primes that are not ≡ 1 mod m, composites
	for _, v := range []uint64{0, 1, 2, 3, 7, 8, 65537, 1<<61 - 1, 4294967291} {
		bad := !(ref.IsPrime(v) && v%m == 1)
		r = append(r, primeClass{fmt.Sprintf("value-%d", v), v, bad})
	}
	p1 := ref.SmallestPrimes(m, 2)
	r = append(r, primeClass{"square-of-ntt-prime", p1[0] * p1[0], true})   // ≡ 1 mod m, composite
	r = append(r, primeClass{"product-of-ntt-primes", p1[0] * p1[1], true}) // ≡ 1 mod m, composite
	// Carmichael numbers (pass every Fermat test), the first ones ≡ 1 mod 32: 1729 = 7·13·19, and a larger one found by search
	for _, cm := range []uint64{561, 1729, 41041, 825265, 321197185, 5394826801, 232250619601, 9746347772161} {
		r = append(r, primeClass{fmt.Sprintf("carmichael-%d", cm), cm, true})
	}
	// strong pseudoprime to bases 2,3,5,7 (3215031751) and to the first 9 primes (3825123056546413051)
	r = append(r, primeClass{"strong-pseudoprime-3215031751", 3215031751, true})
	r = append(r, primeClass{"strong-pseudoprime-3825123056546413051", 3825123056546413051, true})
	return r
}

func bitLen(x uint64) int {
	n := 0
	for ; x != 0; x >>= 1 {
		n++
	}
	return n
}

// ---------------------------------------------------------------------------------------------
// families (one scenario per family x scheme x ring type; one leaf per literal)

func goodQ(logN int, rt ring.Type) []uint64 {
	if rt == ring.ConjugateInvariant {
		return ref.PrimesNear(1<<30, 1<<(logN+2), 2, true)
	}
	return ref.PrimesNear(1<<30, 1<<(logN+1), 2, true)
}

func goodP(logN int, rt ring.Type) []uint64 {
	return ref.PrimesNear(1<<31, 1<<(logN+2), 1, false)
}

func defaults(l *lit) {
	if l.sch == sBGV && l.t == 0 {
		l.t = 65537
	}
	if l.sch == sCKKS && l.logScale == 0 {
		l.logScale = 20
	}
}

func rtName(rt ring.Type) string {
	if rt == ring.ConjugateInvariant {
		return "ci"
	}
	return "std"
}

func ringTypes(s scheme) []ring.Type {
	if s == sBGV {
		return []ring.Type{ring.Standard}
	}
	return []ring.Type{ring.Standard, ring.ConjugateInvariant}
}

// familyLogN: LogN over [MinLogN-1, MaxLogN+1] ∪ {-1, 0, 63}, explicit primes. Rings above LogN 12 are never built:
// there the literal carries a modulus that is plainly invalid (13 is not ≡ 1 mod 2N), so only accept/reject is seen.
func familyLogN(s scheme, rt ring.Type) engine.Scenario {
	name := fmt.Sprintf("accept/logN/%s/%s", s, rtName(rt))
	logNs := []int{-1, 0, rlwe.MinLogN - 1}
	for n := rlwe.MinLogN; n <= rlwe.MaxLogN+1; n++ {
		logNs = append(logNs, n)
	}
	logNs = append(logNs, 63)
	return engine.Scenario{Name: name, Bound: -1, Fn: func(c *engine.Chooser) {
		logN := logNs[c.Choose(len(logNs), "logN")]
		uni.Seed(c, name, logN)
		l := lit{sch: s}
		l.rl.LogN, l.rl.RingType = logN, rt
		inRange := logN >= rlwe.MinLogN && logN <= rlwe.MaxLogN
		build := inRange && logN <= 12
		switch {
		case build:
			l.rl.Q, l.rl.P = goodQ(logN, rt), goodP(logN, rt)
		case !inRange && logN >= 1 && logN <= rlwe.MaxLogN+1:
			// just outside the range: moduli that would be perfectly valid for that degree, so that the degree is the
			// only reason to refuse (N=8 is a ring the ring package itself supports)
			l.rl.Q, l.rl.P = goodQ(logN, rt), nil
		case !inRange:
			l.rl.Q, l.rl.P = []uint64{97}, nil
		default:
			l.rl.Q, l.rl.P = []uint64{13}, nil
		}
		defaults(&l)
		class := "LogN-out-of-range"
		if inRange {
			class = "LogN-in-range"
			c.Cover("logN", fmt.Sprint(logN))
		} else {
			c.Cover("logN", "out-of-range")
		}
		// out of range: must be rejected; in range but > 12: rejected because of the modulus (never built)
		judge(c, "accept/logN", class, fmt.Sprintf("LogN=%d %s Q=%v", logN, rtName(rt), l.rl.Q), l, !build, build)
	}}
}

// familyLogNGen: the same LogN sweep with LogQ/LogP requests: the constructor generates primes *before* it validates
// LogN, so absurd degrees reach the prime generator. Each absurd value is its own scenario (a hang costs the watchdog horizon).
func familyLogNGen(s scheme, logN int) engine.Scenario {
	name := fmt.Sprintf("accept/logN-gen/%s/LogN=%d", s, logN)
	return engine.Scenario{Name: name, Bound: -1, Fn: func(c *engine.Chooser) {
		uni.Seed(c, name)
		l := lit{sch: s}
		l.rl.LogN = logN
		l.rl.LogQ, l.rl.LogP = []int{30, 30}, []int{31}
		defaults(&l)
		inRange := logN >= rlwe.MinLogN && logN <= rlwe.MaxLogN
		c.Cover("logN-gen", fmt.Sprint(logN))
		judge(c, "accept/logN-gen", fmt.Sprintf("LogN=%d", logN), fmt.Sprintf("LogN=%d LogQ=[30 30] LogP=[31]", logN), l, !inRange, inRange && logN <= 12)
	}}
}

// familyPrimes: every catalogue value as the only Q modulus, as second Q modulus, and as P modulus.
func familyPrimes(s scheme, rt ring.Type, logN int) engine.Scenario {
	name := fmt.Sprintf("accept/primes/%s/%s/N%d", s, rtName(rt), logN)
	m := uint64(1) << (logN + 1)
	if rt == ring.ConjugateInvariant {
		m <<= 1
	}
	cat := primeCatalogue(m)
	return engine.Scenario{Name: name, Bound: -1, Fn: func(c *engine.Chooser) {
		pc := cat[c.Choose(len(cat), "prime")]
		pos := c.Choose(3, "position")
		uni.Seed(c, name, pc.name, pos)
		l := lit{sch: s}
		l.rl.LogN, l.rl.RingType = logN, rt
		g := goodQ(logN, rt)
		switch pos {
		case 0:
			l.rl.Q, l.rl.P = []uint64{pc.q}, goodP(logN, rt)
		case 1:
			l.rl.Q, l.rl.P = []uint64{g[0], pc.q}, goodP(logN, rt)
		case 2:
			l.rl.Q, l.rl.P = g, []uint64{pc.q}
		}
		defaults(&l)
		if l.sch == sBGV {
			l.t = 257 // below every admissible q of the catalogue that matters (t > q0 is its own family)
			if pos == 0 && pc.q <= 257 {
				l.t = 17
			}
		}
		if l.sch == sCKKS {
			l.logScale = 10
		}
		c.Cover("prime", pc.name)
		judge(c, "accept/primes", pc.name, fmt.Sprintf("N=2^%d %s Q=%v P=%v", logN, rtName(rt), l.rl.Q, l.rl.P), l, pc.bad, true)
	}}
}

// familyLists: duplicates and overlaps of otherwise valid primes.
func familyLists(s scheme, rt ring.Type) engine.Scenario {
	name := fmt.Sprintf("accept/lists/%s/%s", s, rtName(rt))
	logN := 5
	g := ref.PrimesNear(1<<30, 1<<(logN+2), 4, true)
	type lc struct {
		name string
		q, p []uint64
		bad  bool
	}
	cases := []lc{
		{"distinct", g[:2], g[2:3], false},
		{"no-P", g[:3], nil, false},
		{"empty-P", g[:3], []uint64{}, false},
		{"many-P", g[:1], g[1:4], false},
		{"empty-Q", []uint64{}, g[:1], true},
		{"duplicate-in-Q", []uint64{g[0], g[1], g[0]}, g[2:3], true},
		{"duplicate-in-P", g[:2], []uint64{g[2], g[2]}, true},
		// not "must reject" here: the structure oracle of smoke.go reports a shared modulus under its own signature
		{"Q-and-P-share-a-modulus", g[:2], []uint64{g[1]}, false},
		{"Q-and-P-identical", g[:1], g[:1], false},
	}
	return engine.Scenario{Name: name, Bound: -1, Fn: func(c *engine.Chooser) {
		k := cases[c.Choose(len(cases), "list")]
		uni.Seed(c, name, k.name)
		l := lit{sch: s}
		l.rl.LogN, l.rl.RingType, l.rl.Q, l.rl.P = logN, rt, k.q, k.p
		defaults(&l)
		c.Cover("list", k.name)
		judge(c, "accept/lists", k.name, fmt.Sprintf("Q=%v P=%v", k.q, k.p), l, k.bad, true)
	}}
}

// familySizes: LogQ / LogP requests of every size 1..64 (and 0, -1).
func familySizes(s scheme, rt ring.Type, logN int) engine.Scenario {
	name := fmt.Sprintf("accept/sizes/%s/%s/N%d", s, rtName(rt), logN)
	return engine.Scenario{Name: name, Bound: -1, Fn: func(c *engine.Chooser) {
		b := c.Choose(67, "bits") - 1 // -1..65
		where := c.Choose(2, "where")
		uni.Seed(c, name, b, where)
		l := lit{sch: s}
		l.rl.LogN, l.rl.RingType = logN, rt
		if where == 0 {
			l.rl.LogQ, l.rl.LogP = []int{b, b}, []int{31}
		} else {
			l.rl.LogQ, l.rl.LogP = []int{30, 30}, []int{b}
		}
		defaults(&l)
		if l.sch == sBGV {
			l.t = 17
		}
		if l.sch == sCKKS {
			l.logScale = 8
		}
		// documented range (checkModuliLogSize): LogQ in ]0,60], LogP in ]0,61]
		lim := rlwe.MaxModuliSize
		if where == 1 {
			lim++
		}
		bad := b <= 0 || b > lim
		c.Cover("size", fmt.Sprintf("%d@%d", b, where))
		accepted := judge(c, "accept/sizes", fmt.Sprintf("bits-%s", map[bool]string{true: "out-of-range", false: "in-range"}[bad]),
			fmt.Sprintf("N=2^%d %s LogQ=%v LogP=%v", logN, rtName(rt), l.rl.LogQ, l.rl.LogP), l, bad, true)
		if !accepted && !bad && !c.Failed() {
			// in-range sizes for which no NTT-friendly prime exists are legitimately refused (tiny sizes); counted
			c.Cover("size-in-range", "rejected")
		}
	}}
}

// familyNthRoot: custom LogNthRoot with generated moduli.
func familyNthRoot(s scheme, rt ring.Type) engine.Scenario {
	name := fmt.Sprintf("accept/nthroot/%s/%s", s, rtName(rt))
	logN := 5
	roots := []int{-64, -1, 0, 1, logN - 1, logN, logN + 1, logN + 2, logN + 3, logN + 8, 28, 40, 58, 61, 62}
	return engine.Scenario{Name: name, Bound: -1, Fn: func(c *engine.Chooser) {
		lr := roots[c.Choose(len(roots), "logNthRoot")]
		uni.Seed(c, name, lr)
		l := lit{sch: s}
		l.rl.LogN, l.rl.RingType, l.rl.LogNthRoot = logN, rt, lr
		l.rl.LogQ, l.rl.LogP = []int{45, 45}, []int{46}
		defaults(&l)
		c.Cover("nthroot", fmt.Sprint(lr))
		// every value is admissible: the doc only says the larger of LogNthRoot and the ring's own root order is used;
		// root orders for which no prime of the requested size exists are refused with an error
		judge(c, "accept/nthroot", "LogNthRoot", fmt.Sprintf("LogN=%d %s LogNthRoot=%d LogQ=[45 45] LogP=[46]", logN, rtName(rt), lr), l, false, true)
	}}
}

// familyNthRootHuge: root orders at and beyond the word size, one scenario each (watchdog cost).
func familyNthRootHuge(s scheme, lr int) engine.Scenario {
	name := fmt.Sprintf("accept/nthroot-huge/%s/LogNthRoot=%d", s, lr)
	return engine.Scenario{Name: name, Bound: -1, Fn: func(c *engine.Chooser) {
		uni.Seed(c, name)
		l := lit{sch: s}
		l.rl.LogN, l.rl.LogNthRoot = 5, lr
		l.rl.LogQ, l.rl.LogP = []int{45, 45}, []int{46}
		defaults(&l)
		c.Cover("nthroot-huge", fmt.Sprint(lr))
		// 2^lr does not fit a machine word: no such root of unity can exist for 64-bit moduli
		judge(c, "accept/nthroot-huge", fmt.Sprintf("LogNthRoot=%d", lr), fmt.Sprintf("LogN=5 LogNthRoot=%d LogQ=[45 45] LogP=[46]", lr), l, true, false)
	}}
}

type distCase struct {
	name  string
	d     ring.DistributionParameters
	bad   bool
	group string // root-cause class used in signatures (Xs and Xe share the samplers); "" = name
}

func (d distCase) class() string {
	if d.group != "" {
		return d.group
	}
	return d.name
}

func distCases(N int) []distCase {
	return []distCase{
		{"default", nil, false, ""},
		{"ternary-H=1", ring.Ternary{H: 1}, false, ""},
		{"ternary-H=N/2", ring.Ternary{H: N / 2}, false, ""},
		{"ternary-H=N", ring.Ternary{H: N}, false, ""},
		{"ternary-P=0.5", ring.Ternary{P: 0.5}, false, ""},
		{"ternary-P=2/3", ring.Ternary{P: 2.0 / 3}, false, ""},
		{"ternary-P=1", ring.Ternary{P: 1}, false, ""},
		{"gaussian-3.2", ring.DiscreteGaussian{Sigma: 3.2, Bound: 19.2}, false, ""},
		{"gaussian-0.5", ring.DiscreteGaussian{Sigma: 0.5, Bound: 3}, false, ""},
		// outside the documented domain (ring/sampler.go: exactly one of H, P non-zero; P a probability; H a weight <= N;
		// sigma a standard deviation; bound the truncation of its support)
		{"ternary-H=N+1", ring.Ternary{H: N + 1}, true, "ternary-H-not-a-weight"},
		{"ternary-H=-1", ring.Ternary{H: -1}, true, "ternary-H-not-a-weight"},
		{"ternary-P=1.5", ring.Ternary{P: 1.5}, true, "ternary-P-not-a-probability"},
		{"ternary-P=-0.1", ring.Ternary{P: -0.1}, true, "ternary-P-not-a-probability"},
		{"ternary-P=NaN", ring.Ternary{P: math.NaN()}, true, "ternary-P-not-a-probability"},
		{"ternary-H-and-P", ring.Ternary{H: 4, P: 0.5}, true, ""},
		{"ternary-zero", ring.Ternary{}, true, ""},
		{"gaussian-sigma=0", ring.DiscreteGaussian{Sigma: 0, Bound: 19.2}, true, ""},
		{"gaussian-sigma<0", ring.DiscreteGaussian{Sigma: -3.2, Bound: 19.2}, true, ""},
		{"gaussian-bound=0", ring.DiscreteGaussian{Sigma: 3.2, Bound: 0}, true, "gaussian-degenerate"},
		{"gaussian-bound<0", ring.DiscreteGaussian{Sigma: 3.2, Bound: -1}, true, "gaussian-degenerate"},
		{"gaussian-sigma=NaN", ring.DiscreteGaussian{Sigma: math.NaN(), Bound: 19.2}, true, "gaussian-degenerate"},
		{"gaussian-sigma=Inf", ring.DiscreteGaussian{Sigma: math.Inf(1), Bound: 19.2}, true, "gaussian-degenerate"},
		{"uniform", ring.Uniform{}, true, ""},
	}
}

// distLiteral builds the literal of one (scheme, field, distribution) case.
func distLiteral(s scheme, which int, d distCase) lit {
	logN := 5
	l := lit{sch: s}
	l.rl.LogN = logN
	l.rl.Q, l.rl.P = goodQ(logN, ring.Standard), goodP(logN, ring.Standard)
	if which == 0 {
		l.rl.Xs = d.d
	} else {
		l.rl.Xe = d.d
	}
	defaults(&l)
	return l
}

// familyDist: the admissible secret / error distributions of every kind (one leaf each).
func familyDist(s scheme) engine.Scenario {
	name := fmt.Sprintf("accept/dist/%s", s)
	var xs []distCase
	for _, d := range distCases(32) {
		if !d.bad {
			xs = append(xs, d)
		}
	}
	return engine.Scenario{Name: name, Bound: -1, Fn: func(c *engine.Chooser) {
		which := c.Choose(2, "field") // 0: Xs, 1: Xe
		d := xs[c.Choose(len(xs), "dist")]
		uni.Seed(c, name, which, d.name)
		fld := []string{"Xs", "Xe"}[which]
		c.Cover("dist", fld+"="+d.name)
		judge(c, "accept/dist", d.class(), fmt.Sprintf("%s=%s(%+v)", fld, reflect.TypeOf(d.d), d.d), distLiteral(s, which, d), false, true)
	}}
}

// familyDistInvalid: one out-of-domain distribution per scenario. Distributions are not among the requirements the
// statement lists for acceptance, so an odd one may be accepted — but then it must not panic, hang, kill the process or
// produce keys / errors outside its declared support. Such literals can end in a Go fatal error (unbounded recursion),
// which no recover() catches: the leaf runs in a child process (supervise.go).
func familyDistInvalid(s scheme, which int, d distCase) engine.Scenario {
	fld := []string{"Xs", "Xe"}[which]
	name := fmt.Sprintf("accept/dist-invalid/%s/%s=%s", s, fld, d.name)
	return engine.Scenario{Name: name, Bound: -1, Fn: func(c *engine.Chooser) {
		c.Cover("dist-invalid", fld+"="+d.name)
		tag := fmt.Sprintf("%s=%s(%+v)", fld, reflect.TypeOf(d.d), d.d)
		if !inChild() {
			supervise(c, name, nil, nil, "C19/accept/dist/fatal-error-after-acceptance@"+d.class(), fmt.Sprintf("%s %s", s, tag))
			c.Outcome(name, c.Failed())
			return
		}
		uni.Seed(c, name)
		judge(c, "accept/dist", d.class(), tag, distLiteral(s, which, d), false, true)
	}}
}

// familyT: BGV plaintext modulus over residue classes.
func familyT() engine.Scenario {
	name := "accept/bgv-t"
	logN := 5
	N := uint64(1) << logN
	q := ref.PrimesNear(1<<40, 2*N, 2, true)
	p := ref.PrimesNear(1<<41, 2*N, 1, false)
	type tc struct {
		name string
		t    uint64
		bad  bool
	}
	ts := []tc{
		{"0", 0, true}, {"1", 1, true}, {"2", 2, true}, {"3", 3, true},
		{"17(order16)", 17, false},        // ≡ 1 mod 16 only: plaintext ring of degree 8
		{"97(order32)", 97, false},        // ≡ 1 mod 32: degree 16
		{"193(order64=2N)", 193, false},   // ≡ 1 mod 2N: full batching
		{"65537", 65537, false},           // ≡ 1 mod 2^16 > 2N
		{"13(order<16)", 13, true},        // cyclotomic order below 16
		{"41(order8)", 41, true},          // ≡ 1 mod 8 only
		{"composite-289=17^2", 289, true}, // ≡ 1 mod 32, not prime
		{"composite-1729", 1729, true},    // Carmichael, ≡ 1 mod 64
		{"even-65536", 65536, true},
		{"t=q0", q[0], true},
		{"t=q1", q[1], true},
		{"t=p0", p[0], true},
		{"t>q0", ref.PrimesNear(1<<42, 2*N, 1, false)[0], true},
		{"t-just-below-q0", ref.PrimesNear(q[0], 2*N, 1, true)[0], false},
		{"t-just-above-q0/2", ref.PrimesNear(q[0]/2, 2*N, 1, false)[0], false},
		{"t-just-below-q0/2", ref.PrimesNear(q[0]/2, 2*N, 1, true)[0], false},
		{"t-just-below-q0/4", ref.PrimesNear(q[0]/4, 2*N, 1, true)[0], false},
		{"t-2^61", ref.PrimesNear(1<<61, 2*N, 1, true)[0], true}, // > q0
		{"t-2^63", ref.PrimesNear(1<<63, 2*N, 1, false)[0], true},
		{"t-max", lastPrimeBelow2to64(2 * N), true},
	}
	return engine.Scenario{Name: name, Bound: -1, Fn: func(c *engine.Chooser) {
		k := ts[c.Choose(len(ts), "t")]
		uni.Seed(c, name, k.name)
		l := lit{sch: sBGV, t: k.t}
		l.rl.LogN, l.rl.Q, l.rl.P = logN, q, p
		c.Cover("bgv-t", k.name)
		judge(c, "accept/bgv-t", k.name, fmt.Sprintf("t=%d Q=%v P=%v", k.t, q, p), l, k.bad, true)
	}}
}

// familyBigT: large plaintext moduli with a large q0 (t up to the size the arithmetic supports).
func familyBigT() engine.Scenario {
	name := "accept/bgv-big-t"
	logN := 4
	N := uint64(1) << logN
	return engine.Scenario{Name: name, Bound: -1, Fn: func(c *engine.Chooser) {
		b := 20 + c.Choose(43, "tbits") // 20..62
		uni.Seed(c, name, b)
		t := ref.PrimesNear(uint64(1)<<b, 2*N, 1, true)[0]
		l := lit{sch: sBGV, t: t}
		l.rl.LogN = logN
		// q0 is the largest modulus of supported size (below 2^61)
		l.rl.Q = []uint64{ref.PrimesNear(supportedLimit, 2*N, 1, true)[0], ref.PrimesNear(1<<50, 2*N, 1, true)[0]}
		l.rl.P = ref.PrimesNear(1<<51, 2*N, 1, false)
		c.Cover("bgv-big-t", fmt.Sprint(b))
		judge(c, "accept/bgv-big-t", "t-by-bit-size", fmt.Sprintf("t=%d (%d bits) q0=%d", t, b, l.rl.Q[0]), l, t > l.rl.Q[0], true)
	}}
}

// familyScale: CKKS LogDefaultScale 0..130 (and -1).
func familyScale(rt ring.Type) engine.Scenario {
	name := "accept/ckks-scale/" + rtName(rt)
	logN := 5
	return engine.Scenario{Name: name, Bound: -1, Fn: func(c *engine.Chooser) {
		ls := c.Choose(132, "logScale") - 1
		uni.Seed(c, name, ls)
		l := lit{sch: sCKKS, logScale: ls}
		l.rl.LogN, l.rl.RingType = logN, rt
		l.rl.LogQ, l.rl.LogP = []int{55, 45, 45}, []int{56}
		c.Cover("ckks-scale", fmt.Sprint(ls))
		// documented: rejected above 128 (and, per the error message, below 0)
		class := "LogDefaultScale-in-range"
		if ls < 0 {
			class = "LogDefaultScale<0"
		} else if ls > 128 {
			class = "LogDefaultScale>128"
		}
		judge(c, "accept/ckks-scale", class,
			fmt.Sprintf("LogDefaultScale=%d %s", ls, rtName(rt)), l, ls < 0 || ls > 128, true)
	}}
}

func acceptScenarios(tier string) (scs, slow []engine.Scenario) {
	for _, s := range []scheme{sRLWE, sBGV, sCKKS} {
		for _, rt := range ringTypes(s) {
			scs = append(scs, familyLogN(s, rt), familyLists(s, rt), familyNthRoot(s, rt))
			logNs := []int{4}
			if tier == "thorough" {
				logNs = []int{4, 5, 7, 10}
			}
			for _, n := range logNs {
				scs = append(scs, familyPrimes(s, rt, n))
			}
			sizeN := []int{5}
			if tier == "thorough" {
				sizeN = []int{4, 5, 10}
			}
			for _, n := range sizeN {
				scs = append(scs, familySizes(s, rt, n))
			}
		}
		scs = append(scs, familyDist(s), familyLongChains(s))
		for _, n := range []int{-5, -1, 0, 3, 4, 12, 20, 21, 31, 62} {
			scs = append(scs, familyLogNGen(s, n))
		}
	}
	scs = append(scs, familyT(), familyBigT(), familyScale(ring.Standard), familyScale(ring.ConjugateInvariant))
	// Hang-prone literals last, each in its own scenario. First the out-of-domain distributions (they run in child
	// processes: a hanging child costs the parent one horizon and leaves nothing behind), then — at the very end of the
	// scenario list, so that each is the last scenario of a different worker — the calls that spin inside the worker
	// itself (the leaked goroutine keeps burning that worker's only CPU).
	for _, s := range []scheme{sRLWE, sBGV, sCKKS} {
		if s == sRLWE || tier == "thorough" { // bgv and ckks hand Xs/Xe to the same rlwe code
			for _, d := range distCases(32) {
				if d.bad {
					slow = append(slow, familyDistInvalid(s, 0, d), familyDistInvalid(s, 1, d))
				}
			}
		}
	}
	for _, s := range []scheme{sRLWE, sBGV, sCKKS} {
		slow = append(slow, familyLogNGen(s, 63))
		if s == sRLWE || tier == "thorough" {
			slow = append(slow, familyNthRootHuge(s, 63), familyNthRootHuge(s, 64), familyNthRootHuge(s, 127))
		}
	}
	return
}

// familyLongChains: every per-literal requirement on moduli chains longer than any fixed-size table could hold
// (Q‖P of 31, 32, 33, 40, 64 moduli, several Q/P splits), with the offending element at every position class.
func familyLongChains(s scheme) engine.Scenario {
	name := fmt.Sprintf("accept/long-chains/%s", s)
	logN := 4
	m := uint64(1) << (logN + 2)
	pool := ref.PrimesNear(1<<30, m, 70, true) // 70 distinct 30-bit primes = 1 mod 4N
	lengths := []int{31, 32, 33, 40, 64}
	type split struct {
		name string
		np   func(M int) int
	}
	splits := []split{{"P=1", func(int) int { return 1 }}, {"P=3", func(int) int { return 3 }}, {"P=M/2", func(M int) int { return M / 2 }}, {"Q=8", func(M int) int { return M - 8 }}, {"P=0", func(int) int { return 0 }}}
	kinds := []string{"valid", "dup-in-Q-first-last", "dup-in-Q-adjacent-at-end", "dup-in-P-first-last", "P-last=Q-first", "P-last=Q-last", "P-first=Q-last", "P-first=Q-first",
		"composite-last-in-Q", "composite-last-in-P", "non-ntt-friendly-last-in-Q", "non-ntt-friendly-last-in-P", "zero-last-in-P"}
	return engine.Scenario{Name: name, Bound: -1, Fn: func(c *engine.Chooser) {
		M := lengths[c.Choose(len(lengths), "length")]
		sp := splits[c.Choose(len(splits), "split")]
		kind := kinds[c.Choose(len(kinds), "kind")]
		np := sp.np(M)
		nq := M - np
		uni.Seed(c, name, M, sp.name, kind)
		q := append([]uint64{}, pool[:nq]...)
		p := append([]uint64{}, pool[nq:M]...)
		needP := strings.Contains(kind, "P")
		if needP && np == 0 || strings.HasPrefix(kind, "dup-in-P") && np < 2 {
			c.Skip("kind needs (more) P moduli")
			return
		}
		bad := kind != "valid"
		comp := pool[68] * pool[69] // 60-bit composite = 1 mod 4N
		switch kind {
		case "dup-in-Q-first-last":
			q[nq-1] = q[0]
		case "dup-in-Q-adjacent-at-end":
			q[nq-1] = q[nq-2]
		case "dup-in-P-first-last":
			p[np-1] = p[0]
		case "P-last=Q-first":
			p[np-1] = q[0]
		case "P-last=Q-last":
			p[np-1] = q[nq-1]
		case "P-first=Q-last":
			p[0] = q[nq-1]
		case "P-first=Q-first":
			p[0] = q[0]
		case "composite-last-in-Q":
			q[nq-1] = comp
		case "composite-last-in-P":
			p[np-1] = comp
		case "non-ntt-friendly-last-in-Q":
			q[nq-1] = 1073741827 // prime, = 3 mod 64
		case "non-ntt-friendly-last-in-P":
			p[np-1] = 1073741827
		case "zero-last-in-P":
			p[np-1] = 0
		}
		l := lit{sch: s}
		l.rl.LogN, l.rl.Q, l.rl.P = logN, q, p
		if np == 0 {
			l.rl.P = nil
		}
		defaults(&l)
		if l.sch == sBGV {
			l.t = 257
		}
		if l.sch == sCKKS {
			l.logScale = 20
		}
		c.Cover("long-chain", fmt.Sprintf("M=%d", M))
		c.Cover("long-chain", kind)
		pos := "position<32"
		if M > 32 {
			pos = "position>=32"
		}
		c.Cover("long-chain", pos)
		// the structure oracle of smoke.go reports a modulus shared by Q and P under its own signature; every other
		// kind must be refused
		must := bad && !strings.Contains(kind, "=Q-")
		class := kind
		if nq > 32 || np > 32 {
			class += "-basis>32" // input class of the fixed [32]uint64 tables in ring/basis_extension.go (FINDINGS 13)
		}
		judge(c, "accept/long-chains", class, fmt.Sprintf("#Q=%d #P=%d (%s) %s", nq, np, sp.name, kind), l, must, true)
	}}
}
