package main

import (
	"context"
	"encoding/json"
	"fmt"
	"os"
	"os/exec"
	"regexp"
	"strings"

	"verif/engine"
)

// Some accepted literals end in a Go *fatal error* (unbounded recursion → stack overflow), which no recover() can
// catch and which would take the whole worker down. Such leaves are executed in a child process: the check binary
// re-executes itself on a replay artefact of the very same leaf (engine's -replay mode) and the parent turns the
// child's verdict into ordinary signatures. inChild reports whether this process is such a child.
func inChild() bool { return os.Getenv("VERIF_C19_CHILD") != "" }

var childMemo = map[string][][2]string{}

var sigLine = regexp.MustCompile(`(?m)^\s*sig=(\S+) :: (.*)$`)

// supervise re-runs the current leaf (scenario + the choices made so far) in a child process and reports its
// verdict. crashSig is used when the child dies from a fatal error or does not finish.
func supervise(c *engine.Chooser, scenario string, choices []int, labels []string, crashSig, tag string) {
	// the engine re-runs violating leaves (determinism gate); the child's verdict is remembered so that a child that
	// sat in the watchdog horizon is not paid for three times
	memoKey := fmt.Sprint(scenario, choices, c.Seed)
	if v, ok := childMemo[memoKey]; ok {
		for _, x := range v {
			c.Fail(x[0], "%s", x[1])
		}
		return
	}
	var verdict [][2]string
	fail := func(sig, format string, args ...interface{}) {
		verdict = append(verdict, [2]string{sig, fmt.Sprintf(format, args...)})
		c.Fail(sig, format, args...)
	}
	defer func() { childMemo[memoKey] = verdict }()
	art := map[string]interface{}{"tier": c.Tier, "seed": c.Seed, "scenario": scenario, "choices": choices, "labels": labels}
	b, _ := json.Marshal(art)
	f, err := os.CreateTemp("", "c19-child-*.json")
	if err != nil {
		panic("harness: " + err.Error())
	}
	defer os.Remove(f.Name())
	f.Write(b)
	f.Close()
	self, _ := os.Executable()
	ctx, cancel := context.WithTimeout(context.Background(), 3*watchdogLimit)
	defer cancel()
	cmd := exec.CommandContext(ctx, self, "-tier", c.Tier, "-replay", f.Name())
	cmd.Env = append(os.Environ(), "VERIF_C19_CHILD=1", "GOMAXPROCS=1")
	out, runErr := cmd.CombinedOutput()
	s := string(out)
	switch {
	case ctx.Err() != nil:
		fail(crashSig, "%s: child process did not finish within %v", tag, 3*watchdogLimit)
	case strings.Contains(s, "fatal error:") || strings.Contains(s, "goroutine stack exceeds"):
		first := s
		if i := strings.Index(s, "fatal error:"); i >= 0 {
			first = s[i:]
		}
		if i := strings.Index(first, "\n"); i >= 0 {
			first = first[:i]
		}
		site := ""
		if m := regexp.MustCompile(`(?m)^(github.com/tuneinsight/lattigo/v6/\S+?)\(`).FindStringSubmatch(s); m != nil {
			site = " in " + m[1]
		}
		fail(crashSig, "%s: accepted, then the process died: %s%s (not recoverable by the caller)", tag, first, site)
	default:
		ms := sigLine.FindAllStringSubmatch(s, -1)
		for _, m := range ms {
			sig := m[1]
			// an unbounded recursion is seen as a hang until the 1 GB stack is exhausted: on a slow machine the child's
			// watchdog fires first. Same defect, same signature as the fatal error.
			if i := strings.Index(crashSig, "@"); i >= 0 && sig == "C19/accept/dist/hang-after-acceptance"+crashSig[i:] && strings.Contains(crashSig, "ternary-P-not-a-probability") {
				sig = crashSig
			}
			fail(sig, "%s", m[2])
		}
		if len(ms) == 0 && runErr != nil && !strings.Contains(s, "no violation on replay") {
			panic(fmt.Sprintf("harness: child failed without verdict: %v\n%s", runErr, s))
		}
	}
}
