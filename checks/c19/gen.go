package main

import (
	"fmt"
	"math"

	"github.com/tuneinsight/lattigo/v6/core/rlwe"
	"github.com/tuneinsight/lattigo/v6/ring"
	"github.com/tuneinsight/lattigo/v6/schemes/bgv"
	"github.com/tuneinsight/lattigo/v6/schemes/ckks"

	"verif/engine"
	"verif/ref"
	"verif/uni"
)

// Item 2 — generated moduli.
//
// Promise (ring/primes.go): primes "of the form 2^{BitSize} ± k·NthRoot + 1"; the generators stop "if the next prime
// would overlap with primes of the next/previous bit-size", i.e. |log2(p) − BitSize| < 0.5. So: prime, ≡ 1 mod
// NthRoot, round(log2 p) == BitSize, pairwise distinct within one generator, upstream ones > 2^BitSize and increasing,
// downstream ones <= 2^BitSize − NthRoot + 1 and decreasing. GenModuli adds: the i-th entry has the i-th requested size.

// sizeClass separates the input class "requested size below the root order" (2^bits < NthRoot: no prime of that size
// can be ≡ 1 mod NthRoot, the only correct answer is an error) from the ordinary one in signatures.
func sizeClass(bits, logNthRoot int) string {
	if bits < logNthRoot {
		return "@size-below-root-order"
	}
	return ""
}

func checkPrime(c *engine.Chooser, sigPrefix, tag string, p, nth uint64, bits int, seen map[uint64]bool) bool {
	switch {
	case !ref.IsPrime(p):
		c.Fail(sigPrefix+"/not-prime", "%s: %d is not prime", tag, p)
	case p%nth != 1:
		c.Fail(sigPrefix+"/not-1-mod-NthRoot", "%s: %d != 1 mod %d", tag, p, nth)
	case math.Abs(math.Log2(float64(p))-float64(bits)) >= 0.5:
		c.Fail(sigPrefix+"/wrong-size", "%s: %d has log2 = %.3f, requested %d bits", tag, p, math.Log2(float64(p)), bits)
	case seen[p]:
		c.Fail(sigPrefix+"/duplicate", "%s: %d generated twice", tag, p)
	default:
		seen[p] = true
		return true
	}
	return false
}

// genModuliScenario: every (bit-size for Q, bit-size for P, counts) at one LogNthRoot through rlwe.GenModuli.
func genModuliScenario(logNthRoot int) engine.Scenario {
	name := fmt.Sprintf("gen/GenModuli/LogNthRoot=%d", logNthRoot)
	return engine.Scenario{Name: name, Bound: -1, Fn: func(c *engine.Chooser) {
		bq := 1 + c.Choose(61, "logQ")     // 1..61
		nq := 1 + c.Choose(3, "countQ")*2  // 1,3,5
		samePSize := c.Choose(2, "P-size") // 0: LogP = 61 (downstream-only path), 1: LogP = LogQ size (shared generator)
		nth := uint64(1) << logNthRoot
		logQ := make([]int, nq)
		for i := range logQ {
			logQ[i] = bq
		}
		bp := 61
		if samePSize == 1 {
			bp = bq
		}
		logP := []int{bp}
		tag := fmt.Sprintf("GenModuli(%d, %v, %v)", logNthRoot, logQ, logP)
		var q, p []uint64
		r := guarded(name+tag, func() (err error) {
			q, p, err = rlwe.GenModuli(logNthRoot, logQ, logP)
			return
		})
		switch {
		case r.hung:
			c.Fail("C19/gen/GenModuli-hang", "%s: %v", tag, r)
			return
		case r.panicked != nil:
			c.Fail("C19/gen/GenModuli-panic", "%s: %v", tag, r)
			return
		case r.err != nil:
			// sizes for which no (or too few) NTT-friendly primes exist, or outside ]0,60] / ]0,61]
			if bq > rlwe.MaxModuliSize {
				c.Cover("gen", "rejected-out-of-range")
			} else {
				c.Cover("gen", "rejected-exhausted")
			}
			c.Outcome("gen", "rejected", bq > rlwe.MaxModuliSize)
			return
		}
		if bq > rlwe.MaxModuliSize {
			c.Fail("C19/gen/GenModuli-accepts-size-out-of-range", "%s: LogQ=%d > MaxModuliSize=%d accepted", tag, bq, rlwe.MaxModuliSize)
			return
		}
		if len(q) != len(logQ) || len(p) != len(logP) {
			c.Fail("C19/gen/GenModuli-count", "%s: %d Q primes for %d requests, %d P primes for %d", tag, len(q), len(logQ), len(p), len(logP))
			return
		}
		seen := map[uint64]bool{}
		for i, x := range q {
			if !checkPrime(c, "C19/gen/GenModuli"+sizeClass(logQ[i], logNthRoot), fmt.Sprintf("%s Q[%d]", tag, i), x, nth, logQ[i], seen) {
				return
			}
		}
		for i, x := range p {
			if !checkPrime(c, "C19/gen/GenModuli"+sizeClass(logP[i], logNthRoot), fmt.Sprintf("%s P[%d]", tag, i), x, nth, logP[i], seen) {
				return
			}
		}
		c.Cover("gen", "generated")
		c.Count(len(q) + len(p))
		c.Outcome("gen", q, p)
	}}
}

// generatorScenario: the three modes of NTTFriendlyPrimesGenerator for one NthRoot, every bit size 2..63, counts 1..6
// taken one at a time (so that "the generator is exhausted" is met and must come back as an error, never as a hang —
// a hanging call is run once per scenario in its own leaf).
func generatorScenario(logNthRoot int) engine.Scenario {
	name := fmt.Sprintf("gen/generator/LogNthRoot=%d", logNthRoot)
	modes := []string{"upstream", "downstream", "alternating"}
	return engine.Scenario{Name: name, Bound: -1, Fn: func(c *engine.Chooser) {
		bits := 2 + c.Choose(62, "bits") // 2..63
		mode := c.Choose(3, "mode")
		nth := uint64(1) << logNthRoot
		tag := fmt.Sprintf("NewNTTFriendlyPrimesGenerator(%d, 2^%d).%s", bits, logNthRoot, modes[mode])
		if bits < logNthRoot {
			c.Cover("generator", "size-below-root-order")
			if mode == 1 {
				// 2^bits + 1 < NthRoot: the generator is born exhausted on the downstream side and its first call is the
				// spin checked once in gen/exhausted/NextDownstreamPrime-born-exhausted
				c.Skip("downstream generator born exhausted (checked in gen/exhausted)")
				return
			}
		}
		g := ring.NewNTTFriendlyPrimesGenerator(uint64(bits), nth)
		next := func() (uint64, error) {
			switch mode {
			case 0:
				return g.NextUpstreamPrime()
			case 1:
				return g.NextDownstreamPrime()
			}
			return g.NextAlternatingPrime()
		}
		seen := map[uint64]bool{}
		var lastUp, lastDown uint64
		for i := 0; i < 6; i++ {
			var p uint64
			var err error
			// Calls on a fresh generator are cheap and cannot spin unless the generator starts exhausted; after an
			// error the generator is exhausted and the *next* call is the known spin (checked in exhaustedScenario).
			r := guarded(fmt.Sprintf("%s#%d", name+tag, i), func() (e error) {
				p, e = next()
				err = e
				return
			})
			if r.hung {
				c.Fail("C19/gen/generator-hang-before-exhaustion", "%s call %d: %v", tag, i, r)
				return
			}
			if r.panicked != nil {
				c.Fail("C19/gen/generator-panic", "%s call %d: %v", tag, i, r)
				return
			}
			if err != nil {
				c.Cover("generator", "exhausted-with-error")
				c.Outcome("generator", mode, "exhausted", i)
				return
			}
			if !checkPrime(c, "C19/gen/generator"+sizeClass(bits, logNthRoot), fmt.Sprintf("%s call %d", tag, i), p, nth, bits, seen) {
				return
			}
			// stated form: upstream 2^bits + k·NthRoot + 1 (k >= 0, increasing), downstream 2^bits - k·NthRoot + 1 (k >= 1)
			base := uint64(1) << bits
			if p > base {
				if mode == 1 || p <= lastUp && lastUp != 0 {
					c.Fail("C19/gen/generator-order", "%s call %d: %d (upstream side) after %d", tag, i, p, lastUp)
					return
				}
				lastUp = p
			} else {
				if mode == 0 || p >= lastDown && lastDown != 0 {
					c.Fail("C19/gen/generator-order", "%s call %d: %d (downstream side) after %d", tag, i, p, lastDown)
					return
				}
				lastDown = p
			}
		}
		c.Cover("generator", modes[mode])
		c.Count(6)
		c.Outcome("generator", mode, lastUp, lastDown)
	}}
}

// exhaustedScenario: one call *after* the generator reported exhaustion (documented to return an error:
// "prime list ... is exhausted"). One leaf per mode, own scenario: a spin costs the watchdog horizon once.
func exhaustedScenario(mode int) engine.Scenario {
	modes := []string{"NextUpstreamPrime", "NextDownstreamPrime", "NextAlternatingPrime"}
	name := "gen/exhausted/" + modes[mode]
	return engine.Scenario{Name: name, Bound: -1, Fn: func(c *engine.Chooser) {
		// 8-bit primes ≡ 1 mod 32: 193 (down) and 257, 353 (up; 449 is beyond 2^8.5): exhausted after <= 2 calls
		g := ring.NewNTTFriendlyPrimesGenerator(8, 32)
		next := func() (uint64, error) {
			switch mode {
			case 0:
				return g.NextUpstreamPrime()
			case 1:
				return g.NextDownstreamPrime()
			}
			return g.NextAlternatingPrime()
		}
		calls := 0
		for ; calls < 10; calls++ {
			if _, err := next(); err != nil {
				break
			}
		}
		if calls == 10 {
			c.Fail("C19/gen/generator-never-exhausted", "%s: 10 eight-bit primes ≡ 1 mod 32", modes[mode])
			return
		}
		var err error
		r := guarded(name, func() error {
			_, err = next()
			return nil
		})
		c.Cover("exhausted", modes[mode])
		switch {
		case r.hung:
			c.Fail("C19/gen/"+modes[mode]+"-spins-after-exhaustion", "%s called once more after it returned its 'exhausted' error: %v", modes[mode], r)
		case r.panicked != nil:
			c.Fail("C19/gen/"+modes[mode]+"-panics-after-exhaustion", "%v", r)
		case err == nil:
			c.Fail("C19/gen/"+modes[mode]+"-returns-prime-after-exhaustion", "no error on the call after exhaustion")
		}
		c.Outcome(name, r.String())
	}}
}

// bornExhaustedScenario: NewNTTFriendlyPrimesGenerator(4, 32) has no downstream candidate at all (2^4 + 1 < 32).
func bornExhaustedScenario() engine.Scenario {
	name := "gen/exhausted/NextDownstreamPrime-born-exhausted"
	return engine.Scenario{Name: name, Bound: -1, Fn: func(c *engine.Chooser) {
		g := ring.NewNTTFriendlyPrimesGenerator(4, 32)
		var err error
		var p uint64
		r := guarded(name, func() error {
			p, err = g.NextDownstreamPrime()
			return nil
		})
		c.Cover("exhausted", "born-exhausted")
		switch {
		case r.hung:
			c.Fail("C19/gen/NextDownstreamPrime-spins-after-exhaustion", "NewNTTFriendlyPrimesGenerator(4, 32).NextDownstreamPrime(): %v", r)
		case r.panicked != nil:
			c.Fail("C19/gen/NextDownstreamPrime-panics-after-exhaustion", "%v", r)
		case err == nil:
			c.Fail("C19/gen/generator@size-below-root-order/not-1-mod-NthRoot", "returned %d", p)
		}
		c.Outcome(name, r.String())
	}}
}

// genLiteralScenario: moduli generated by the parameter constructors (rlwe / ckks / bgv NewParametersFromLiteral with
// LogQ/LogP) for ring type x LogN x LogNthRoot in {unset, the ring's own root order (2N standard, 4N conjugate
// invariant), +1, +2, +4} x (LogQ, LogP) shapes. The literal's doc: LogNthRoot is "the log2 of the root order the
// generated moduli must enable" -- the larger of the request and the ring's own order is what the primes must be 1
// modulo. Oracle: accepted; as many primes as requested; every prime is prime, = 1 mod 2^max(own, requested), of the
// requested size, pairwise distinct over Q and P; the parameters' own ring getters still describe the ring of degree N
// (NthRoot() is documented as "the NthRoot of the ring": 2N / 4N); the chain is usable in the larger ring the root
// order was requested for: ring.NewRing(2^(LogNthRoot-1), Q) and (…, P) succeed and an NTT round trip there is exact.
func genLiteralScenario(s scheme, rt ring.Type, logN int) engine.Scenario {
	name := fmt.Sprintf("gen/literal/%s/%s/LogN=%d", s, rtName(rt), logN)
	own := logN + 1
	if rt == ring.ConjugateInvariant {
		own = logN + 2
	}
	offsets := []int{-1, 0, 1, 2, 4} // -1: unset
	shapes := []struct{ q, p []int }{
		{[]int{45, 45}, []int{46}},
		{[]int{30, 30, 30}, []int{31, 31}},
		{[]int{55}, nil},
		{[]int{40, 40}, []int{40}}, // Q and P of one size: one generator serves both
		{[]int{60, 50, 40, 50}, []int{61}},
		{[]int{36, 25, 25}, []int{36, 36}},
	}
	return engine.Scenario{Name: name, Bound: -1, Fn: func(c *engine.Chooser) {
		off := offsets[c.Choose(len(offsets), "LogNthRoot")]
		sh := shapes[c.Choose(len(shapes), "shape")]
		seed := uni.Seed(c, name, off, fmt.Sprint(sh.q, sh.p))
		l := lit{sch: s}
		l.rl.LogN, l.rl.RingType = logN, rt
		l.rl.LogQ, l.rl.LogP = sh.q, sh.p
		want := own
		offName := "unset"
		if off >= 0 {
			l.rl.LogNthRoot = own + off
			want = own + off
			offName = fmt.Sprintf("own+%d", off)
		}
		defaults(&l)
		if s == sBGV {
			l.t = 65537 // = 1 mod 2^16: order 2^16 >= 2N for every LogN used here
		}
		tag := fmt.Sprintf("%s %s LogN=%d LogNthRoot=%d(%s) LogQ=%v LogP=%v", s, rtName(rt), logN, l.rl.LogNthRoot, offName, sh.q, sh.p)
		class := "@" + rtName(rt) + "-LogNthRoot-" + offName
		var out interface{}
		r := guarded(name+tag, func() (err error) { out, err = l.construct(); return })
		switch {
		case r.hung || r.panicked != nil:
			c.Fail("C19/gen/literal/constructor-panic-or-hang"+class, "%s: %v", tag, r)
			return
		case r.err != nil:
			c.Fail("C19/gen/literal/legal-request-refused"+class, "%s: %v", tag, r.err)
			return
		}
		var p rlwe.Parameters
		switch v := out.(type) {
		case rlwe.Parameters:
			p = v
		case ckks.Parameters:
			p = v.Parameters
		case bgv.Parameters:
			p = v.Parameters
		}
		q, pp := p.Q(), p.P()
		if len(q) != len(sh.q) || len(pp) != len(sh.p) {
			c.Fail("C19/gen/literal/count"+class, "%s: %d Q primes for %d requests, %d P primes for %d", tag, len(q), len(sh.q), len(pp), len(sh.p))
			return
		}
		nth := uint64(1) << want
		seen := map[uint64]bool{}
		for i, x := range q {
			if !checkPrime(c, "C19/gen/literal"+class, fmt.Sprintf("%s Q[%d]", tag, i), x, nth, sh.q[i], seen) {
				return
			}
		}
		for i, x := range pp {
			if !checkPrime(c, "C19/gen/literal"+class, fmt.Sprintf("%s P[%d]", tag, i), x, nth, sh.p[i], seen) {
				return
			}
		}
		// the parameters' ring is the one of degree N of the requested type
		if p.N() != 1<<logN || p.RingType() != rt || p.NthRoot() != 1<<own || p.LogNthRoot() != own || int(p.RingQ().NthRoot()) != 1<<own {
			c.Fail("C19/gen/literal/ring-getters"+class, "%s: N=%d RingType=%v NthRoot()=%d LogNthRoot()=%d RingQ().NthRoot()=%d, expected N=2^%d, root order 2^%d",
				tag, p.N(), p.RingType(), p.NthRoot(), p.LogNthRoot(), p.RingQ().NthRoot(), logN, own)
			return
		}
		// the literal handed back regenerates the same parameters (explicit Q/P: no LogNthRoot needed)
		if back, err := rlwe.NewParametersFromLiteral(p.ParametersLiteral()); err != nil || !back.Equal(&p) {
			c.Fail("C19/gen/literal/ParametersLiteral-roundtrip"+class, "%s: err=%v", tag, err)
			return
		}
		// the chain in the ring the root order was asked for
		for _, ch := range []struct {
			n string
			m []uint64
		}{{"Q", q}, {"P", pp}} {
			if len(ch.m) == 0 {
				continue
			}
			var big *ring.Ring
			g := guarded(name+tag+ch.n+"big", func() (err error) {
				big, err = ring.NewRing(1<<(want-1), ch.m)
				if err != nil {
					return
				}
				pol := big.NewPoly()
				for j := range pol.Coeffs {
					for k := range pol.Coeffs[j] {
						seed = seed*6364136223846793005 + 1442695040888963407
						pol.Coeffs[j][k] = (seed >> 3) % ch.m[j]
					}
				}
				cp := *pol.CopyNew()
				big.NTT(pol, pol)
				big.INTT(pol, pol)
				if !pol.Equal(&cp) {
					return fmt.Errorf("NTT round trip in the degree-2^%d ring is not the identity", want-1)
				}
				return
			})
			if g.hung || g.panicked != nil || g.err != nil {
				c.Fail("C19/gen/literal/chain-unusable-in-requested-ring"+class, "%s: ring.NewRing(2^%d, %s=%v): %v", tag, want-1, ch.n, ch.m, g)
				return
			}
		}
		c.Cover("gen-literal", rtName(rt)+"-"+offName)
		c.Count(len(q) + len(pp))
		c.Outcome(name, offName, q, pp)
	}}
}

func genScenarios(tier string) (scs, slow []engine.Scenario) {
	roots := []int{5, 6, 11, 13, 17}
	if tier == "thorough" {
		roots = []int{5, 6, 7, 8, 9, 10, 11, 12, 13, 14, 15, 16, 17}
	}
	for _, r := range roots {
		scs = append(scs, genModuliScenario(r), generatorScenario(r))
	}
	logNs := []int{5}
	if tier == "thorough" {
		logNs = []int{4, 5, 7, 10}
	}
	for _, n := range logNs {
		for _, rt := range []ring.Type{ring.Standard, ring.ConjugateInvariant} {
			scs = append(scs, genLiteralScenario(sRLWE, rt, n), genLiteralScenario(sCKKS, rt, n))
		}
		scs = append(scs, genLiteralScenario(sBGV, ring.Standard, n))
	}
	scs = append(scs, exhaustedScenario(2))
	slow = append(slow, exhaustedScenario(0), exhaustedScenario(1), bornExhaustedScenario())
	return
}
