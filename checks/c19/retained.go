package main

import (
	"encoding/json"
	"fmt"
	"math/big"
	"strings"

	"github.com/tuneinsight/lattigo/v6/circuits/ckks/bootstrapping"
	"github.com/tuneinsight/lattigo/v6/core/rlwe"
	"github.com/tuneinsight/lattigo/v6/ring"
	"github.com/tuneinsight/lattigo/v6/schemes/bgv"
	"github.com/tuneinsight/lattigo/v6/schemes/ckks"
	"github.com/tuneinsight/lattigo/v6/utils"

	"verif/engine"
	"verif/ref"
	"verif/uni"
)

// The retained object is independent of its inputs (and of what it hands out).
//
// A parameter object is long-lived and documented as immutable ("Its fields are private and immutable"). After every
// constructor of this check's surface the caller does something perfectly legal with what it passed in -- overwrites
// the slices of the literal in place to derive a sibling set, changes the value behind a pointer field, recycles the
// byte buffer it decoded from -- or with what a getter returned, and the FIRST object must be unchanged:
//
//   - its fingerprint (every getter, both encodings, the literal it hands back, the moduli of its rings) is the one
//     taken right after construction;
//   - it is coherent: Q()/P() are the moduli of RingQ()/RingP();
//   - it is Equal (both directions) to a fresh construction from a pristine copy of the literal;
//   - it survives its own encodings as an Equal object with the same fingerprint.
//
// One leaf per (constructor, input written to), so that an alias is reported with the field that carries it.

type retObj struct {
	fp    func() string            // everything observable
	coh   func() string            // "" or what is incoherent
	equal func(o interface{}) bool // both directions
	codec func() (string, error)   // fingerprint of decode(encode(obj)), both encodings, "" if they differ from each other
}

func fpRLWE(p rlwe.Parameters) string {
	s := fmt.Sprintf("LogN=%d N=%d type=%v ntt=%v Q=%v P=%v QBig=%v PBig=%v LogQi=%v LogPi=%v", p.LogN(), p.N(), p.RingType(), p.NTTFlag(), p.Q(), p.P(), p.QBigInt(), p.PBigInt(), p.LogQi(), p.LogPi())
	s += fmt.Sprintf(" ringQ=%v", p.RingQ().ModuliChain())
	if p.RingP() != nil {
		s += fmt.Sprintf(" ringP=%v", p.RingP().ModuliChain())
	}
	sc := p.DefaultScale()
	s += fmt.Sprintf(" Xs=%v Xe=%v scale=%s mod=%v levels=%d/%d", p.Xs(), p.Xe(), sc.Value.Text('g', 40), sc.Mod, p.MaxLevelQ(), p.MaxLevelP())
	s += fmt.Sprintf(" LogQ=%.6f LogP=%.6f", p.LogQ(), p.LogP())
	lit, _ := json.Marshal(p.ParametersLiteral())
	j, _ := p.MarshalJSON()
	b, _ := p.MarshalBinary()
	return s + fmt.Sprintf(" literal=%s json=%s bin=%x", lit, j, b)
}

func cohRLWE(p rlwe.Parameters) string {
	if fmt.Sprint(p.Q()) != fmt.Sprint(p.RingQ().ModuliChain()) {
		return fmt.Sprintf("Q()=%v, RingQ() has %v", p.Q(), p.RingQ().ModuliChain())
	}
	if p.RingP() != nil && fmt.Sprint(p.P()) != fmt.Sprint(p.RingP().ModuliChain()) {
		return fmt.Sprintf("P()=%v, RingP() has %v", p.P(), p.RingP().ModuliChain())
	}
	if p.QBigInt().Cmp(ref.Prod(p.RingQ().ModuliChain())) != 0 {
		return fmt.Sprintf("QBigInt()=%v is not the modulus of RingQ()", p.QBigInt())
	}
	return ""
}

func objRLWE(p rlwe.Parameters) retObj {
	return retObj{
		fp:  func() string { return fpRLWE(p) },
		coh: func() string { return cohRLWE(p) },
		equal: func(o interface{}) bool {
			q, ok := o.(rlwe.Parameters)
			return ok && p.Equal(&q) && q.Equal(&p)
		},
		codec: func() (string, error) {
			var a, b rlwe.Parameters
			j, err := p.MarshalJSON()
			if err == nil {
				err = a.UnmarshalJSON(j)
			}
			if err != nil {
				return "", err
			}
			d, err := p.MarshalBinary()
			if err == nil {
				err = b.UnmarshalBinary(d)
			}
			if err != nil {
				return "", err
			}
			if fpRLWE(a) != fpRLWE(b) || !a.Equal(&p) || !p.Equal(&b) {
				return "", nil
			}
			return fpRLWE(a), nil
		},
	}
}

func fpCKKS(p ckks.Parameters) string {
	lit, _ := json.Marshal(p.ParametersLiteral())
	j, _ := p.MarshalJSON()
	return fpRLWE(p.Parameters) + fmt.Sprintf(" ckks: logscale=%d prec=%v slots=%d literal=%s json=%s", p.LogDefaultScale(), p.PrecisionMode(), p.LogMaxSlots(), lit, j)
}

func objCKKS(p ckks.Parameters) retObj {
	return retObj{
		fp:  func() string { return fpCKKS(p) },
		coh: func() string { return cohRLWE(p.Parameters) },
		equal: func(o interface{}) bool {
			q, ok := o.(ckks.Parameters)
			return ok && p.Equal(&q) && q.Equal(&p)
		},
		codec: func() (string, error) {
			var a, b ckks.Parameters
			j, err := p.MarshalJSON()
			if err == nil {
				err = a.UnmarshalJSON(j)
			}
			if err != nil {
				return "", err
			}
			d, err := p.MarshalBinary()
			if err == nil {
				err = b.UnmarshalBinary(d)
			}
			if err != nil {
				return "", err
			}
			if fpCKKS(a) != fpCKKS(b) || !a.Equal(&p) || !p.Equal(&b) {
				return "", nil
			}
			return fpCKKS(a), nil
		},
	}
}

func fpBGV(p bgv.Parameters) string {
	lit, _ := json.Marshal(p.ParametersLiteral())
	j, _ := p.MarshalJSON()
	s := fpRLWE(p.Parameters) + fmt.Sprintf(" bgv: t=%d ringT=%v literal=%s json=%s", p.PlaintextModulus(), p.RingT().ModuliChain(), lit, j)
	if p.RingQMul() != nil {
		s += fmt.Sprintf(" qmul=%v", p.RingQMul().ModuliChain())
	}
	return s
}

func objBGV(p bgv.Parameters) retObj {
	return retObj{
		fp:  func() string { return fpBGV(p) },
		coh: func() string { return cohRLWE(p.Parameters) },
		equal: func(o interface{}) bool {
			q, ok := o.(bgv.Parameters)
			return ok && p.Equal(&q) && q.Equal(&p)
		},
		codec: func() (string, error) {
			var a, b bgv.Parameters
			j, err := p.MarshalJSON()
			if err == nil {
				err = a.UnmarshalJSON(j)
			}
			if err != nil {
				return "", err
			}
			d, err := p.MarshalBinary()
			if err == nil {
				err = b.UnmarshalBinary(d)
			}
			if err != nil {
				return "", err
			}
			if fpBGV(a) != fpBGV(b) || !a.Equal(&p) || !p.Equal(&b) {
				return "", nil
			}
			return fpBGV(a), nil
		},
	}
}

func fpBTP(p bootstrapping.Parameters) string {
	j, _ := p.MarshalJSON()
	it := "nil"
	if p.IterationsParameters != nil {
		it = fmt.Sprintf("%+v", *p.IterationsParameters)
	}
	return fmt.Sprintf("res={%s} btp={%s} s2c=%+v c2s=%+v mod1=%+v it=%s h=%d json=%s", fpCKKS(p.ResidualParameters), fpCKKS(p.BootstrappingParameters),
		p.SlotsToCoeffsParameters, p.CoeffsToSlotsParameters, p.Mod1ParametersLiteral, it, p.EphemeralSecretWeight, j)
}

func objBTP(p bootstrapping.Parameters) retObj {
	return retObj{
		fp: func() string { return fpBTP(p) },
		coh: func() string {
			if s := cohRLWE(p.ResidualParameters.Parameters); s != "" {
				return "residual: " + s
			}
			return cohRLWE(p.BootstrappingParameters.Parameters)
		},
		equal: func(o interface{}) bool {
			q, ok := o.(bootstrapping.Parameters)
			return ok && p.Equal(&q) && q.Equal(&p)
		},
		codec: func() (string, error) {
			var a, b bootstrapping.Parameters
			j, err := p.MarshalJSON()
			if err == nil {
				err = a.UnmarshalJSON(j)
			}
			if err != nil {
				return "", err
			}
			d, err := p.MarshalBinary()
			if err == nil {
				err = b.UnmarshalBinary(d)
			}
			if err != nil {
				return "", err
			}
			if fpBTP(a) != fpBTP(b) || !a.Equal(&p) || !p.Equal(&b) {
				return "", nil
			}
			return fpBTP(a), nil
		},
	}
}

func objRing(r *ring.Ring) retObj {
	fp := func(r *ring.Ring) string {
		b, _ := r.MarshalBinary()
		return fmt.Sprintf("N=%d nth=%d moduli=%v modulus=%v level=%d bin=%x", r.N(), r.NthRoot(), r.ModuliChain(), r.ModulusAtLevel[r.MaxLevel()], r.MaxLevel(), b)
	}
	return retObj{
		fp: func() string { return fp(r) },
		coh: func() string {
			for i, s := range r.SubRings {
				if s.Modulus != r.ModuliChain()[i] {
					return fmt.Sprintf("SubRings[%d].Modulus=%d, ModuliChain()[%d]=%d", i, s.Modulus, i, r.ModuliChain()[i])
				}
			}
			if r.ModulusAtLevel[r.MaxLevel()].Cmp(ref.Prod(r.ModuliChain())) != 0 {
				return "ModulusAtLevel[max] is not the product of the moduli"
			}
			return ""
		},
		equal: func(o interface{}) bool {
			q, ok := o.(*ring.Ring)
			return ok && fp(q) == fp(r)
		},
		codec: func() (string, error) {
			b, err := r.MarshalBinary()
			if err != nil {
				return "", err
			}
			var a ring.Ring
			if err = a.UnmarshalBinary(b); err != nil {
				return "", err
			}
			return fp(&a), nil
		},
	}
}

// retCase: make() returns a freshly built object together with the edits the caller may perform afterwards, each
// named after the input it writes to. Everything is rebuilt from scratch on every call (pristine inputs).
type retCase struct {
	name string
	make func() (retObj, map[string]func(), error)
}

func scribbleU64(v []uint64) {
	for i := range v {
		v[i] = v[i]*3 + 7
	}
}

func scribbleInt(v []int) {
	for i := range v {
		v[i] = v[i]/2 + 3
	}
}

func retCatalogue() []retCase {
	const logN = 5
	m := uint64(1) << (logN + 2)
	qs := func() []uint64 { return ref.PrimesNear(1<<45, m, 3, true) }
	ps := func() []uint64 { return ref.PrimesNear(1<<50, m, 2, false) }
	// a slice with spare capacity: append-style clones of it write into the caller's array
	roomy := func(v []uint64) []uint64 {
		r := make([]uint64, len(v), len(v)+4)
		copy(r, v)
		return r
	}
	var r []retCase

	for _, rt := range []ring.Type{ring.Standard, ring.ConjugateInvariant} {
		rt := rt
		// explicit chains, every scheme constructor
		r = append(r, retCase{"rlwe.NewParametersFromLiteral/" + rtName(rt) + "/explicit", func() (retObj, map[string]func(), error) {
			l := rlwe.ParametersLiteral{LogN: logN, RingType: rt, Q: roomy(qs()), P: roomy(ps()), NTTFlag: true, DefaultScale: rlwe.NewScaleModT(3, 65537)}
			p, err := rlwe.NewParametersFromLiteral(l)
			if err != nil {
				return retObj{}, nil, err
			}
			got := p.DefaultScale()
			return objRLWE(p), map[string]func(){
				"literal.Q":                  func() { scribbleU64(l.Q) },
				"literal.P":                  func() { scribbleU64(l.P) },
				"literal.Q-append":           func() { _ = append(l.Q[:0], 11, 13, 17) },
				"literal.DefaultScale.Value": func() { l.DefaultScale.Value.SetFloat64(12345) },
				"literal.DefaultScale.Mod":   func() { l.DefaultScale.Mod.SetUint64(97) },
				"returned-Q()":               func() { scribbleU64(p.Q()) },
				"returned-P()":               func() { scribbleU64(p.P()) },
				"returned-ParametersLiteral()": func() {
					b := p.ParametersLiteral()
					scribbleU64(b.Q)
					scribbleU64(b.P)
				},
				"returned-QBigInt()":          func() { p.QBigInt().SetUint64(5); p.PBigInt().SetUint64(5) },
				"returned-DefaultScale().Mod": func() { got.Mod.SetUint64(97) },
				"returned-LogQi()":            func() { scribbleInt(p.LogQi()); scribbleInt(p.LogPi()) },
				"returned-ParametersLiteral().DefaultScale": func() {
					b := p.ParametersLiteral()
					b.DefaultScale.Mod.SetUint64(97)
					b.DefaultScale.Value.SetFloat64(12345)
				},
				"returned-NewScale().Mod-DefaultScale": func() { p.NewScale(5).Mod.SetUint64(97) },
			}, nil
		}})
		r = append(r, retCase{"rlwe.NewParameters/" + rtName(rt), func() (retObj, map[string]func(), error) {
			q, pp := roomy(qs()), roomy(ps())
			sc := rlwe.NewScale(1 << 20)
			p, err := rlwe.NewParameters(logN, q, pp, rlwe.DefaultXs, rlwe.DefaultXe, rt, sc, true)
			if err != nil {
				return retObj{}, nil, err
			}
			return objRLWE(p), map[string]func(){
				"q":                  func() { scribbleU64(q) },
				"p":                  func() { scribbleU64(pp) },
				"defaultScale.Value": func() { sc.Value.SetFloat64(12345) },
			}, nil
		}})
		r = append(r, retCase{"rlwe.NewParametersFromLiteral/" + rtName(rt) + "/generated", func() (retObj, map[string]func(), error) {
			l := rlwe.ParametersLiteral{LogN: logN, RingType: rt, LogQ: []int{45, 45, 30}, LogP: []int{50, 50}, NTTFlag: true}
			p, err := rlwe.NewParametersFromLiteral(l)
			if err != nil {
				return retObj{}, nil, err
			}
			return objRLWE(p), map[string]func(){
				"literal.LogQ": func() { scribbleInt(l.LogQ) },
				"literal.LogP": func() { scribbleInt(l.LogP) },
			}, nil
		}})
		r = append(r, retCase{"ckks.NewParametersFromLiteral/" + rtName(rt), func() (retObj, map[string]func(), error) {
			l := ckks.ParametersLiteral{LogN: logN, RingType: rt, Q: roomy(qs()), P: roomy(ps()), LogDefaultScale: 30}
			p, err := ckks.NewParametersFromLiteral(l)
			if err != nil {
				return retObj{}, nil, err
			}
			return objCKKS(p), map[string]func(){
				"literal.Q":    func() { scribbleU64(l.Q) },
				"literal.P":    func() { scribbleU64(l.P) },
				"returned-Q()": func() { scribbleU64(p.Q()); scribbleU64(p.P()) },
				"returned-ParametersLiteral()": func() {
					b := p.ParametersLiteral()
					scribbleU64(b.Q)
					scribbleU64(b.P)
				},
				"returned-DefaultScale().Value": func() { s := p.DefaultScale(); s.Value.SetFloat64(12345) },
			}, nil
		}})
		r = append(r, retCase{"ckks.NewParametersFromLiteral/" + rtName(rt) + "/generated", func() (retObj, map[string]func(), error) {
			l := ckks.ParametersLiteral{LogN: logN, RingType: rt, LogQ: []int{45, 45, 30}, LogP: []int{50}, LogDefaultScale: 30}
			p, err := ckks.NewParametersFromLiteral(l)
			if err != nil {
				return retObj{}, nil, err
			}
			return objCKKS(p), map[string]func(){
				"literal.LogQ": func() { scribbleInt(l.LogQ) },
				"literal.LogP": func() { scribbleInt(l.LogP) },
			}, nil
		}})
	}
	r = append(r, retCase{"bgv.NewParametersFromLiteral", func() (retObj, map[string]func(), error) {
		l := bgv.ParametersLiteral{LogN: logN, Q: roomy(qs()), P: roomy(ps()), PlaintextModulus: 65537}
		p, err := bgv.NewParametersFromLiteral(l)
		if err != nil {
			return retObj{}, nil, err
		}
		return objBGV(p), map[string]func(){
			"literal.Q":    func() { scribbleU64(l.Q) },
			"literal.P":    func() { scribbleU64(l.P) },
			"returned-Q()": func() { scribbleU64(p.Q()); scribbleU64(p.P()) },
			"returned-ParametersLiteral()": func() {
				b := p.ParametersLiteral()
				scribbleU64(b.Q)
				scribbleU64(b.P)
			},
			"returned-DefaultScale().Mod": func() { s := p.DefaultScale(); s.Mod.SetUint64(97) },
		}, nil
	}})
	r = append(r, retCase{"bgv.NewParametersFromLiteral/generated", func() (retObj, map[string]func(), error) {
		l := bgv.ParametersLiteral{LogN: logN, LogQ: []int{45, 45, 30}, LogP: []int{50}, PlaintextModulus: 65537}
		p, err := bgv.NewParametersFromLiteral(l)
		if err != nil {
			return retObj{}, nil, err
		}
		return objBGV(p), map[string]func(){
			"literal.LogQ": func() { scribbleInt(l.LogQ) },
			"literal.LogP": func() { scribbleInt(l.LogP) },
		}, nil
	}})
	r = append(r, retCase{"bgv.NewParameters(rlwe.Parameters)", func() (retObj, map[string]func(), error) {
		q, pp := roomy(qs()), roomy(ps())
		rp, err := rlwe.NewParameters(logN, q, pp, rlwe.DefaultXs, rlwe.DefaultXe, ring.Standard, rlwe.NewScaleModT(1, 65537), true)
		if err != nil {
			return retObj{}, nil, err
		}
		p, err := bgv.NewParameters(rp, 65537)
		if err != nil {
			return retObj{}, nil, err
		}
		return objBGV(p), map[string]func(){
			"q": func() { scribbleU64(q) },
			"rlwe.Parameters-re-decoded": func() {
				// the caller recycles its rlwe.Parameters variable for another set
				other, _ := rlwe.NewParametersFromLiteral(rlwe.ParametersLiteral{LogN: logN + 1, LogQ: []int{40}, NTTFlag: true})
				b, _ := other.MarshalBinary()
				_ = rp.UnmarshalBinary(b)
			},
		}, nil
	}})
	// decoders: the byte buffer is recycled after the call
	r = append(r, retCase{"rlwe.Parameters.Unmarshal", func() (retObj, map[string]func(), error) {
		src, err := rlwe.NewParametersFromLiteral(rlwe.ParametersLiteral{LogN: logN, Q: qs(), P: ps(), NTTFlag: true})
		if err != nil {
			return retObj{}, nil, err
		}
		j, _ := src.MarshalJSON()
		b, _ := src.MarshalBinary()
		var pj, pb rlwe.Parameters
		if err = pj.UnmarshalJSON(j); err != nil {
			return retObj{}, nil, err
		}
		if err = pb.UnmarshalBinary(b); err != nil {
			return retObj{}, nil, err
		}
		oj, ob := objRLWE(pj), objRLWE(pb)
		both := retObj{
			fp:    func() string { return oj.fp() + "|" + ob.fp() },
			coh:   func() string { return oj.coh() + ob.coh() },
			equal: func(o interface{}) bool { return true },
			codec: oj.codec,
		}
		return both, map[string]func(){
			"json-buffer": func() {
				for i := range j {
					j[i] = 'x'
				}
			},
			"binary-buffer": func() {
				for i := range b {
					b[i] = 0xAA
				}
			},
		}, nil
	}})
	r = append(r, retCase{"ring.NewRing", func() (retObj, map[string]func(), error) {
		q := roomy(qs())
		rg, err := ring.NewRing(1<<logN, q)
		if err != nil {
			return retObj{}, nil, err
		}
		return objRing(rg), map[string]func(){
			"moduli":                 func() { scribbleU64(q) },
			"returned-ModuliChain()": func() { scribbleU64(rg.ModuliChain()) },
		}, nil
	}})
	r = append(r, retCase{"ring.NewRingFromType/ci", func() (retObj, map[string]func(), error) {
		q := roomy(qs())
		rg, err := ring.NewRingFromType(1<<logN, q, ring.ConjugateInvariant)
		if err != nil {
			return retObj{}, nil, err
		}
		return objRing(rg), map[string]func(){"moduli": func() { scribbleU64(q) }}, nil
	}})
	// bootstrapping parameters: slices, slices of slices, pointer fields, the residual parameters
	r = append(r, retCase{"bootstrapping.NewParametersFromLiteral", func() (retObj, map[string]func(), error) {
		P := utils.Pointy[int]
		res, err := ckks.NewParametersFromLiteral(ckks.ParametersLiteral{LogN: 7, LogNthRoot: 9, LogQ: []int{60, 40}, LogP: []int{61}, LogDefaultScale: 40, Xs: ring.Ternary{H: 32}})
		if err != nil {
			return retObj{}, nil, err
		}
		l := bootstrapping.ParametersLiteral{
			LogN: P(8), LogSlots: P(3), LogP: []int{61, 61},
			CoeffsToSlotsFactorizationDepthAndLogScales: [][]int{{56}, {56}},
			SlotsToCoeffsFactorizationDepthAndLogScales: [][]int{{39}, {39}},
			IterationsParameters:                        &bootstrapping.IterationsParameters{BootstrappingPrecision: []float64{20, 20}, ReservedPrimeBitSize: 28},
			K:                                           P(12), Mod1Degree: P(40), DoubleAngle: P(2), Mod1InvDegree: P(5), EvalModLogScale: P(59), LogMessageRatio: P(10), EphemeralSecretWeight: P(16),
		}
		p, err := bootstrapping.NewParametersFromLiteral(res, l)
		if err != nil {
			return retObj{}, nil, err
		}
		return objBTP(p), map[string]func(){
			"literal.LogP": func() { scribbleInt(l.LogP) },
			"literal.CoeffsToSlots": func() {
				for _, v := range l.CoeffsToSlotsFactorizationDepthAndLogScales {
					scribbleInt(v)
				}
				l.CoeffsToSlotsFactorizationDepthAndLogScales[0] = nil
			},
			"literal.SlotsToCoeffs": func() {
				for _, v := range l.SlotsToCoeffsFactorizationDepthAndLogScales {
					scribbleInt(v)
				}
				l.SlotsToCoeffsFactorizationDepthAndLogScales[1] = []int{1, 2, 3}
			},
			"literal.IterationsParameters": func() {
				l.IterationsParameters.BootstrappingPrecision[0] = 1
				l.IterationsParameters.BootstrappingPrecision[1] = 2
				l.IterationsParameters.ReservedPrimeBitSize = 3
			},
			"literal.pointer-fields": func() {
				for _, q := range []*int{l.LogN, l.LogSlots, l.K, l.Mod1Degree, l.DoubleAngle, l.Mod1InvDegree, l.EvalModLogScale, l.LogMessageRatio, l.EphemeralSecretWeight} {
					*q = 1
				}
			},
			"residual-parameters-re-decoded": func() {
				other, _ := ckks.NewParametersFromLiteral(ckks.ParametersLiteral{LogN: 6, LogQ: []int{40}, LogDefaultScale: 20})
				b, _ := other.MarshalBinary()
				_ = res.UnmarshalBinary(b)
			},
			"returned-GaloisElements()": func() { scribbleU64(p.GaloisElements(p.BootstrappingParameters)) },
			"returned-fields": func() {
				// the exported matrix literals are values: editing a copy's slices must not reach the object
				m := p.CoeffsToSlotsParameters
				scribbleInt(m.Levels)
				it := *p.IterationsParameters
				it.BootstrappingPrecision[0] = 99
			},
		}, nil
	}})
	return r
}

// documentedShared: what the object exposes on purpose. bootstrapping.Parameters has exported fields: the slices
// reached through a copy of an exported field are the object's own storage by construction of the type, not through a
// getter that promises a copy.
var retDocumentedShared = map[string]bool{"bootstrapping.NewParametersFromLiteral@returned-fields": true}

const sigScaleShared = "C19/retained/default-scale-shares-storage-with-the-caller"

func retainedScenarios(tier string) []engine.Scenario {
	var scs []engine.Scenario
	for _, k := range retCatalogue() {
		k := k
		name := "retained/" + k.name
		// the edits are enumerated from a first construction (names only)
		_, edits, err := k.make()
		if err != nil {
			panic("harness: " + name + ": " + err.Error())
		}
		var names []string
		for n := range edits {
			names = append(names, n)
		}
		sortStrings(names)
		scs = append(scs, engine.Scenario{Name: name, Bound: -1, Fn: func(c *engine.Chooser) {
			n := names[c.Choose(len(names), "edit")]
			uni.Seed(c, name, n)
			class := k.name + "@" + n
			var o retObj
			var before, cod0 string
			r := guarded(name+n, func() error {
				obj, ed, err := k.make()
				if err != nil {
					return err
				}
				o = obj
				before = o.fp()
				if s := o.coh(); s != "" {
					return fmt.Errorf("incoherent right after construction: %s", s)
				}
				if cod0, err = o.codec(); err != nil {
					return err
				}
				ed[n]()
				return nil
			})
			if r.hung || r.panicked != nil || r.err != nil {
				c.Fail("C19/retained/construction-or-edit-fails@"+class, "%s: %v", class, r)
				return
			}
			if retDocumentedShared[class] {
				c.Cover("retained", "documented-shared")
				c.Outcome(name, n, "shared-by-type")
				return
			}
			c.Cover("retained", n)
			g := guarded(name+n+"after", func() error {
				after := o.fp()
				if after != before {
					sig := "C19/retained/object-changes-with-its-input@" + class
					if strings.Contains(n, "efaultScale") {
						// rlwe.Scale is an immutable VALUE type by library convention (it is copied by struct assignment
						// everywhere, its methods return new values and nothing in the library writes to one in place): a
						// caller that writes into the big.Float mantissa / *big.Int modulus of a Scale it passed in or was
						// handed breaks that convention itself. Not judged (same assumption as C10 and C16, DESIGN §8);
						// FINDINGS.md 15 keeps the observation and checks/c19/fixes/F10.diff a possible hardening.
						c.Cover("retained-not-judged", "rlwe.Scale-storage-shared-by-convention")
						return nil
					}
					c.Fail(sig, "%s: the object built earlier changed after the caller wrote to %s: %s", k.name, n, firstDiff(before, after))
					return nil
				}
				if s := o.coh(); s != "" {
					c.Fail("C19/retained/object-incoherent-after-input-edit@"+class, "%s: after the caller wrote to %s: %s", k.name, n, s)
					return nil
				}
				fresh, _, err := k.make()
				if err != nil {
					return err
				}
				if fresh.fp() != before {
					c.Fail("C19/retained/not-equal-to-a-fresh-construction@"+class, "%s: %s", k.name, firstDiff(before, fresh.fp()))
					return nil
				}
				cod1, err := o.codec()
				if err != nil {
					c.Fail("C19/retained/codec-error-after-input-edit@"+class, "%s: %v", k.name, err)
					return nil
				}
				if cod1 == "" || cod1 != cod0 {
					c.Fail("C19/retained/codec-differs-after-input-edit@"+class, "%s: decode(encode(object)) after the edit: %s", k.name, firstDiff(cod0, cod1))
				}
				return nil
			})
			if g.hung || g.panicked != nil || g.err != nil {
				c.Fail("C19/retained/object-unusable-after-input-edit@"+class, "%s: %v", class, g)
			}
			c.Outcome(name, n, "independent")
		}})
	}
	return scs
}

func sortStrings(v []string) {
	for i := 1; i < len(v); i++ {
		for j := i; j > 0 && v[j] < v[j-1]; j-- {
			v[j], v[j-1] = v[j-1], v[j]
		}
	}
}

// firstDiff shows the neighbourhood of the first difference of two fingerprints.
func firstDiff(a, b string) string {
	i := 0
	for i < len(a) && i < len(b) && a[i] == b[i] {
		i++
	}
	lo := i - 60
	if lo < 0 {
		lo = 0
	}
	cut := func(s string) string {
		hi := i + 60
		if hi > len(s) {
			hi = len(s)
		}
		if lo > len(s) {
			return ""
		}
		return s[lo:hi]
	}
	return fmt.Sprintf("before …%s… / after …%s…", cut(a), cut(b))
}

var _ = big.NewInt
