package main

import (
	"bytes"
	"encoding/json"
	"fmt"
	"math"
	"math/big"

	"github.com/tuneinsight/lattigo/v6/core/rlwe"
	"github.com/tuneinsight/lattigo/v6/ring"
	"github.com/tuneinsight/lattigo/v6/schemes/bgv"
	"github.com/tuneinsight/lattigo/v6/schemes/ckks"

	"verif/engine"
	"verif/ref"
	"verif/uni"
)

// Item 3 — Parameters <-> ParametersLiteral <-> JSON <-> binary, and derived quantities against their definitions.

type rtCase struct {
	name string
	l    lit
}

func rtCatalogue(tier string) []rtCase {
	var r []rtCase
	logNs := []int{4, 5, 6} // 5: odd log N (the conjugate-invariant ring then lives in an even-log standard ring and vice versa)
	if tier == "thorough" {
		logNs = []int{4, 5, 6, 7, 9}
	}
	dists := []struct {
		name   string
		xs, xe ring.DistributionParameters
	}{
		{"default", nil, nil},
		{"H8-sigma1.5", ring.Ternary{H: 8}, ring.DiscreteGaussian{Sigma: 1.5, Bound: 9}},
		{"P0.5-ternaryXe", ring.Ternary{P: 0.5}, ring.Ternary{P: 0.25}},
		{"gaussianXs", ring.DiscreteGaussian{Sigma: 3.2, Bound: 19.2}, nil},
	}
	for _, logN := range logNs {
		for _, rt := range []ring.Type{ring.Standard, ring.ConjugateInvariant} {
			m := uint64(1) << (logN + 2)
			all := append(ref.PrimesNear(1<<45, m, 3, true), ref.PrimesNear(1<<30, m, 2, false)...) // mixed sizes: 45,45,45,31,31 bits
			ps := ref.PrimesNear(1<<50, m, 3, false)
			for _, shape := range [][2]int{{1, 0}, {2, 1}, {4, 2}, {5, 3}, {3, 1}} {
				for di, d := range dists {
					if di != 0 && !(shape == [2]int{2, 1}) {
						continue // distributions vary on one chain shape only
					}
					base := rlwe.ParametersLiteral{LogN: logN, RingType: rt, Q: all[:shape[0]], P: ps[:shape[1]], Xs: d.xs, Xe: d.xe}
					if shape[1] == 0 {
						base.P = nil
					}
					tag := fmt.Sprintf("N%d/%s/q%dp%d/%s", logN, rtName(rt), shape[0], shape[1], d.name)
					r = append(r, rtCase{"rlwe/" + tag, lit{sch: sRLWE, rl: base}})
					if di == 0 {
						r = append(r, rtCase{"rlwe-nontt/" + tag, lit{sch: sRLWE, rl: base, noNTT: true}})
					}
					r = append(r, rtCase{"ckks20/" + tag, lit{sch: sCKKS, rl: base, logScale: 20}})
					if shape[0] >= 2 {
						r = append(r, rtCase{"ckks80/" + tag, lit{sch: sCKKS, rl: base, logScale: 80}})
					}
					if rt == ring.Standard {
						for _, t := range []uint64{17, 65537} {
							r = append(r, rtCase{fmt.Sprintf("bgv-t%d/%s", t, tag), lit{sch: sBGV, rl: base, t: t}})
						}
					}
				}
			}
			// ascending prime sizes (31,31,45,45,45 bits): per-level quantities such as QiOverflowMargin(level) depend on
			// the largest prime *up to and including* that level, which only shows when Q[level] is the largest so far
			asc := append([]uint64{}, all...)
			for i, j := 0, len(asc)-1; i < j; i, j = i+1, j-1 {
				asc[i], asc[j] = asc[j], asc[i]
			}
			ascLit := rlwe.ParametersLiteral{LogN: logN, RingType: rt, Q: asc, P: ps[:2]}
			r = append(r, rtCase{fmt.Sprintf("rlwe/N%d/%s/ascending-q5p2", logN, rtName(rt)), lit{sch: sRLWE, rl: ascLit}})
			// generated moduli with a custom root order (the literal, not the parameters, carries LogNthRoot)
			gen := rlwe.ParametersLiteral{LogN: logN, RingType: rt, LogQ: []int{40, 30, 30}, LogP: []int{41}, LogNthRoot: logN + 4}
			tag := fmt.Sprintf("N%d/%s/LogQ-LogNthRoot%d", logN, rtName(rt), logN+4)
			r = append(r, rtCase{"rlwe/" + tag, lit{sch: sRLWE, rl: gen}})
			r = append(r, rtCase{"ckks20/" + tag, lit{sch: sCKKS, rl: gen, logScale: 20}})
			if rt == ring.Standard {
				r = append(r, rtCase{"bgv-t97/" + tag, lit{sch: sBGV, rl: gen, t: 97}})
			}
		}
	}
	return r
}

func roundTripScenario(k rtCase) engine.Scenario {
	name := "roundtrip/" + k.name
	return engine.Scenario{Name: name, Bound: -1, Fn: func(c *engine.Chooser) {
		out, err := k.l.construct()
		if err != nil {
			panic("harness: catalogue literal rejected: " + err.Error())
		}
		c.Cover("roundtrip", k.l.sch.String())
		if k.l.noNTT {
			c.Cover("roundtrip", "NTTFlag=false")
		}
		// the catalogue's chain shapes (no P, #P not dividing #Q, mixed prime sizes, odd log N, NTTFlag=false) also go
		// through the arithmetic oracles of smoke.go
		switch p := out.(type) {
		case rlwe.Parameters:
			rtRLWE(c, name, k.l, p)
			derivedRLWE(c, name, p)
			smokeRLWE(c, "roundtrip-smoke", name, p)
			codecOfDerived(c, name, p)
		case bgv.Parameters:
			rtBGV(c, name, k.l, p)
			derivedRLWE(c, name, p.Parameters)
			derivedBGV(c, name, p)
			smokeBGV(c, "roundtrip-smoke", name, p)
		case ckks.Parameters:
			rtCKKS(c, name, k.l, p)
			derivedRLWE(c, name, p.Parameters)
			derivedCKKS(c, name, p)
			smokeCKKS(c, "roundtrip-smoke", name, p)
			codecOfDerived(c, name, p.Parameters)
		}
		c.Outcome(name)
	}}
}

// The three schemes expose the same four conversions; generic code over a tiny interface keeps them in lock-step.
type codec struct {
	scheme      string
	equal       func(other interface{}) bool
	fromLiteral func() (interface{}, error) // Parameters -> ParametersLiteral -> Parameters
	marshalJSON func() ([]byte, error)
	fromJSON    func([]byte) (interface{}, error)
	marshalBin  func() ([]byte, error)
	fromBin     func([]byte) (interface{}, error)
	litJSON     func() (interface{}, error) // user literal -> json -> literal -> Parameters
}

func runCodec(c *engine.Chooser, tag string, k codec) {
	fail := func(what, format string, args ...interface{}) {
		c.Fail("C19/roundtrip/"+k.scheme+"/"+what, tag+": "+format, args...)
	}
	if q, err := k.fromLiteral(); err != nil {
		fail("literal", "NewParametersFromLiteral(p.ParametersLiteral()): %v", err)
	} else if !k.equal(q) {
		fail("literal", "NewParametersFromLiteral(p.ParametersLiteral()) is not Equal to p")
	}
	if b, err := k.marshalJSON(); err != nil {
		fail("json", "MarshalJSON: %v", err)
	} else if q, err := k.fromJSON(b); err != nil {
		fail("json", "UnmarshalJSON(MarshalJSON(p)): %v (%s)", err, b)
	} else if !k.equal(q) {
		fail("json", "UnmarshalJSON(MarshalJSON(p)) is not Equal to p (%s)", b)
	}
	if b, err := k.marshalBin(); err != nil {
		fail("binary", "MarshalBinary: %v", err)
	} else if q, err := k.fromBin(b); err != nil {
		fail("binary", "UnmarshalBinary(MarshalBinary(p)): %v", err)
	} else if !k.equal(q) {
		fail("binary", "UnmarshalBinary(MarshalBinary(p)) is not Equal to p")
	}
	if q, err := k.litJSON(); err != nil {
		fail("literal-json", "literal -> json -> literal -> parameters: %v", err)
	} else if !k.equal(q) {
		fail("literal-json", "the user's literal, sent through encoding/json, yields parameters that are not Equal to the original ones")
	}
	c.Count(4)
}

// codecOfDerived: parameter objects that were not built by a constructor but derived from another object
// (StandardParameters of a conjugate-invariant set, the copy behind GetRLWEParameters) must encode like any other:
// BinarySize() == len(MarshalBinary()) == bytes written by WriteTo, and decoding gives an Equal object.
func codecOfDerived(c *engine.Chooser, tag string, p rlwe.Parameters) {
	objs := map[string]rlwe.Parameters{"GetRLWEParameters": *p.GetRLWEParameters()}
	if std, err := p.StandardParameters(); err == nil {
		objs["StandardParameters"] = std
	} else {
		c.Fail("C19/roundtrip/StandardParameters-error", "%s: %v", tag, err)
	}
	for _, how := range []string{"GetRLWEParameters", "StandardParameters"} {
		d, ok := objs[how]
		if !ok {
			continue
		}
		b, err := d.MarshalBinary()
		if err != nil {
			c.Fail("C19/roundtrip/derived/"+how+"/marshal-error", "%s: %v", tag, err)
			continue
		}
		var buf bytes.Buffer
		n, werr := d.WriteTo(&buf)
		if d.BinarySize() != len(b) || werr != nil || int(n) != len(b) || !bytes.Equal(buf.Bytes(), b) {
			c.Fail("C19/roundtrip/derived/"+how+"/binarysize", "%s: BinarySize()=%d, MarshalBinary gives %d bytes, WriteTo wrote %d (err %v)", tag, d.BinarySize(), len(b), n, werr)
		}
		var back rlwe.Parameters
		if err := back.UnmarshalBinary(b); err != nil || !back.Equal(&d) || !d.Equal(&back) {
			c.Fail("C19/roundtrip/derived/"+how+"/not-equal", "%s: UnmarshalBinary(MarshalBinary(p)): err=%v", tag, err)
		}
		if how == "StandardParameters" && p.RingType() == ring.ConjugateInvariant {
			c.Cover("roundtrip", "StandardParameters-of-conjugate-invariant")
			if d.RingType() != ring.Standard || d.LogN() != p.LogN()+1 || d.RingQ().N() != 2*p.N() {
				c.Fail("C19/derived/StandardParameters", "%s: ring type %v LogN %d ring degree %d", tag, d.RingType(), d.LogN(), d.RingQ().N())
			}
		}
		// a derived object is a parameter set like any other: BOTH rings are the rings of its own degree, ring type and
		// root order, its getters agree with them, and it equals the set built from its own literal (its twin)
		for _, rr := range []struct {
			n string
			r *ring.Ring
			m []uint64
		}{{"RingQ", d.RingQ(), d.Q()}, {"RingP", d.RingP(), d.P()}} {
			if rr.r == nil {
				if len(rr.m) != 0 {
					c.Fail("C19/derived/"+how+"/ring-incoherent", "%s: %s() is nil but the chain has %d moduli", tag, rr.n, len(rr.m))
				}
				continue
			}
			if rr.r.N() != d.N() || rr.r.Type() != d.RingType() || int(rr.r.NthRoot()) != d.NthRoot() || fmt.Sprint(rr.r.ModuliChain()) != fmt.Sprint(rr.m) {
				c.Fail("C19/derived/"+how+"/ring-incoherent", "%s: %s(): degree %d type %v root order %d moduli %v; parameters: N %d type %v root order %d moduli %v",
					tag, rr.n, rr.r.N(), rr.r.Type(), rr.r.NthRoot(), rr.r.ModuliChain(), d.N(), d.RingType(), d.NthRoot(), rr.m)
			}
		}
		if s := cohRLWE(d); s != "" {
			c.Fail("C19/derived/"+how+"/getters-incoherent", "%s: %s", tag, s)
		}
		if twin, err := rlwe.NewParametersFromLiteral(d.ParametersLiteral()); err != nil {
			c.Fail("C19/derived/"+how+"/own-literal-refused", "%s: %v", tag, err)
		} else if !twin.Equal(&d) || fpRLWE(twin) != fpRLWE(d) {
			c.Fail("C19/derived/"+how+"/differs-from-the-set-built-from-its-literal", "%s", tag)
		} else if twin.RingP() != nil && d.RingP() != nil && (twin.RingP().N() != d.RingP().N() || twin.RingP().Type() != d.RingP().Type()) {
			c.Fail("C19/derived/"+how+"/ring-incoherent", "%s: RingP() differs from the literal-built twin's", tag)
		}
		// and it works: a public-key encryption of zero (which runs through RingP when there is one) decrypts to small noise
		if err, pan := uni.Try(func() error {
			kg := rlwe.NewKeyGenerator(d)
			sk, pk := kg.GenKeyPairNew()
			ct := rlwe.NewEncryptor(d, pk).EncryptZeroNew(d.MaxLevel())
			pt := rlwe.NewDecryptor(d, sk).DecryptNew(ct)
			rq := d.RingQ().AtLevel(ct.Level())
			if pt.IsNTT {
				rq.INTT(pt.Value, pt.Value)
			}
			if lb := rq.Log2OfStandardDeviation(pt.Value); lb > 20 {
				return fmt.Errorf("fresh public-key encryption of zero decrypts with noise 2^%.1f", lb)
			}
			return nil
		}); err != nil || pan != nil {
			c.Fail("C19/derived/"+how+"/unusable", "%s: err=%v panic=%v", tag, err, pan)
		}
	}
}

func rtRLWE(c *engine.Chooser, tag string, l lit, p rlwe.Parameters) {
	user := l.rl
	user.NTTFlag = !l.noNTT
	sch := "rlwe"
	if user.LogNthRoot != 0 {
		// input class of the defect "rlwe.ParametersLiteral.UnmarshalJSON has no LogNthRoot field" (FINDINGS.md)
		sch = "rlwe@literal-with-LogNthRoot"
	}
	runCodec(c, tag, codec{
		scheme:      sch,
		equal:       func(o interface{}) bool { q := o.(rlwe.Parameters); return p.Equal(&q) && q.Equal(&p) },
		fromLiteral: func() (interface{}, error) { return rlwe.NewParametersFromLiteral(p.ParametersLiteral()) },
		marshalJSON: func() ([]byte, error) { return p.MarshalJSON() },
		fromJSON: func(b []byte) (interface{}, error) {
			var q rlwe.Parameters
			err := q.UnmarshalJSON(b)
			return q, err
		},
		marshalBin: func() ([]byte, error) { return p.MarshalBinary() },
		fromBin: func(b []byte) (interface{}, error) {
			var q rlwe.Parameters
			if err := q.UnmarshalBinary(b); err != nil {
				return q, err
			}
			// the stream interface must agree with the slice interface
			var buf bytes.Buffer
			if n, err := p.WriteTo(&buf); err != nil || int(n) != p.BinarySize() || buf.Len() != p.BinarySize() {
				return q, fmt.Errorf("WriteTo wrote %d bytes (err %v), BinarySize()=%d", n, err, p.BinarySize())
			}
			if !bytes.Equal(buf.Bytes(), b) {
				return q, fmt.Errorf("WriteTo and MarshalBinary disagree")
			}
			return q, nil
		},
		litJSON: func() (interface{}, error) {
			b, err := json.Marshal(user)
			if err != nil {
				return nil, err
			}
			var u rlwe.ParametersLiteral
			if err := json.Unmarshal(b, &u); err != nil {
				return nil, err
			}
			return rlwe.NewParametersFromLiteral(u)
		},
	})
}

func rtBGV(c *engine.Chooser, tag string, l lit, p bgv.Parameters) {
	user := bgv.ParametersLiteral{LogN: l.rl.LogN, LogNthRoot: l.rl.LogNthRoot, Q: l.rl.Q, P: l.rl.P, LogQ: l.rl.LogQ, LogP: l.rl.LogP,
		Xe: l.rl.Xe, Xs: l.rl.Xs, PlaintextModulus: l.t}
	runCodec(c, tag, codec{
		scheme:      "bgv",
		equal:       func(o interface{}) bool { q := o.(bgv.Parameters); return p.Equal(&q) && q.Equal(&p) },
		fromLiteral: func() (interface{}, error) { return bgv.NewParametersFromLiteral(p.ParametersLiteral()) },
		marshalJSON: func() ([]byte, error) { return p.MarshalJSON() },
		fromJSON: func(b []byte) (interface{}, error) {
			var q bgv.Parameters
			err := q.UnmarshalJSON(b)
			return q, err
		},
		marshalBin: func() ([]byte, error) { return p.MarshalBinary() },
		fromBin: func(b []byte) (interface{}, error) {
			var q bgv.Parameters
			err := q.UnmarshalBinary(b)
			return q, err
		},
		litJSON: func() (interface{}, error) {
			b, err := json.Marshal(user)
			if err != nil {
				return nil, err
			}
			var u bgv.ParametersLiteral
			if err := json.Unmarshal(b, &u); err != nil {
				return nil, err
			}
			return bgv.NewParametersFromLiteral(u)
		},
	})
}

func rtCKKS(c *engine.Chooser, tag string, l lit, p ckks.Parameters) {
	user := ckks.ParametersLiteral{LogN: l.rl.LogN, LogNthRoot: l.rl.LogNthRoot, Q: l.rl.Q, P: l.rl.P, LogQ: l.rl.LogQ, LogP: l.rl.LogP,
		Xe: l.rl.Xe, Xs: l.rl.Xs, RingType: l.rl.RingType, LogDefaultScale: l.logScale}
	runCodec(c, tag, codec{
		scheme:      "ckks",
		equal:       func(o interface{}) bool { q := o.(ckks.Parameters); return p.Equal(&q) && q.Equal(&p) },
		fromLiteral: func() (interface{}, error) { return ckks.NewParametersFromLiteral(p.ParametersLiteral()) },
		marshalJSON: func() ([]byte, error) { return p.MarshalJSON() },
		fromJSON: func(b []byte) (interface{}, error) {
			var q ckks.Parameters
			err := q.UnmarshalJSON(b)
			return q, err
		},
		marshalBin: func() ([]byte, error) { return p.MarshalBinary() },
		fromBin: func(b []byte) (interface{}, error) {
			var q ckks.Parameters
			err := q.UnmarshalBinary(b)
			return q, err
		},
		litJSON: func() (interface{}, error) {
			b, err := json.Marshal(user)
			if err != nil {
				return nil, err
			}
			var u ckks.ParametersLiteral
			if err := json.Unmarshal(b, &u); err != nil {
				return nil, err
			}
			return ckks.NewParametersFromLiteral(u)
		},
	})
}

// ---------------------------------------------------------------------------------------------
// derived quantities

func log2Big(x *big.Int) float64 {
	f := new(big.Float).SetInt(x)
	mant := new(big.Float)
	exp := f.MantExp(mant)
	m, _ := mant.Float64()
	return float64(exp) + math.Log2(m)
}

func derivedRLWE(c *engine.Chooser, tag string, p rlwe.Parameters) {
	fail := func(what, format string, args ...interface{}) {
		c.Fail("C19/derived/"+what, tag+": "+format, args...)
	}
	q, pp := p.Q(), p.P()
	if p.N() != 1<<p.LogN() {
		fail("N", "N=%d LogN=%d", p.N(), p.LogN())
	}
	if p.MaxLevel() != len(q)-1 || p.MaxLevelQ() != len(q)-1 || p.MaxLevelP() != len(pp)-1 || p.QCount() != len(q) || p.PCount() != len(pp) || p.QPCount() != len(q)+len(pp) {
		fail("levels", "MaxLevel=%d MaxLevelQ=%d MaxLevelP=%d for #Q=%d #P=%d", p.MaxLevel(), p.MaxLevelQ(), p.MaxLevelP(), len(q), len(pp))
	}
	lq, lp := log2Big(ref.Prod(q)), 0.0
	if len(pp) > 0 {
		lp = log2Big(ref.Prod(pp))
	}
	if math.Abs(p.LogQ()-lq) > 1e-6 || math.Abs(p.LogP()-lp) > 1e-6 || math.Abs(p.LogQP()-lq-lp) > 1e-6 {
		fail("LogQP", "LogQ=%v LogP=%v LogQP=%v, exact %v %v", p.LogQ(), p.LogP(), p.LogQP(), lq, lp)
	}
	if p.QBigInt().Cmp(ref.Prod(q)) != 0 || p.PBigInt().Cmp(ref.Prod(pp)) != 0 || p.QPBigInt().Cmp(ref.Prod(append(append([]uint64{}, q...), pp...))) != 0 {
		fail("QPBigInt", "QBigInt/PBigInt/QPBigInt do not equal the products")
	}
	wantRoot := uint64(2) << p.LogN()
	if p.RingType() == ring.ConjugateInvariant {
		wantRoot <<= 1
	}
	if uint64(p.NthRoot()) != wantRoot || p.LogNthRoot() != bitLen(wantRoot)-1 {
		// the ring's root order is 2N (4N for the conjugate-invariant ring), whatever LogNthRoot the literal asked the primes to support
		fail("NthRoot", "NthRoot=%d LogNthRoot=%d, ring needs %d", p.NthRoot(), p.LogNthRoot(), wantRoot)
	}
	// digit counts
	for lvlQ := 0; lvlQ < len(q); lvlQ++ {
		for lvlP := -1; lvlP < len(pp); lvlP++ {
			want := lvlQ + 1
			if lvlP >= 0 {
				want = (lvlQ + 1 + lvlP) / (lvlP + 1) // ceil((levelQ+1)/(levelP+1))
			}
			if got := p.BaseRNSDecompositionVectorSize(lvlQ, lvlP); got != want {
				fail("BaseRNSDecompositionVectorSize", "(%d,%d) = %d, ceil(#Q/#P) = %d", lvlQ, lvlP, got, want)
			}
		}
	}
	for _, w := range []int{0, 1, 7, 15, 16, 30, 45, 60} {
		for _, lvlP := range []int{-1, 0, 1} {
			if lvlP >= len(pp) {
				continue
			}
			got := p.BaseTwoDecompositionVectorSize(len(q)-1, lvlP, w)
			if len(got) != len(q) {
				fail("BaseTwoDecompositionVectorSize-length", "w=%d: %d entries for %d moduli", w, len(got), len(q))
				continue
			}
			for i, qi := range q {
				// definition: number of base-2^w digits needed to write every residue of q_i (1 when the power-of-two
				// decomposition is off or several P primes are used, as documented)
				want := 1
				if w != 0 && lvlP <= 0 {
					want = (bitLen(qi-1) + w - 1) / w
				}
				if got[i] < want {
					fail("BaseTwoDecompositionVectorSize-does-not-cover-modulus", "w=%d levelP=%d q=%d (%d bits): %d digits, %d needed", w, lvlP, qi, bitLen(qi-1), got[i], want)
				} else if got[i] > want {
					c.Cover("derived", "BaseTwoDecompositionVectorSize-larger-than-needed")
				}
			}
		}
	}
	for lvl := 0; lvl < len(q); lvl++ {
		max := uint64(0)
		for _, x := range q[:lvl+1] {
			if x > max {
				max = x
			}
		}
		want := new(big.Int).Div(new(big.Int).Lsh(big.NewInt(1), 64), new(big.Int).SetUint64(max))
		// the library computes the quotient in float64: exact up to 2^53, a relative 2^-50 beyond (tiny moduli)
		got := big.NewInt(int64(p.QiOverflowMargin(lvl)))
		diff := new(big.Int).Abs(new(big.Int).Sub(got, want))
		if diff.Cmp(new(big.Int).Rsh(want, 50)) > 0 {
			fail("QiOverflowMargin", "level %d: %v, floor(2^64/%d) = %v", lvl, got, max, want)
		}
	}
	// PiOverflowMargin: floor(2^64 / max(P[:level+1])) at every level, -1 without P or below level 0
	if got := p.PiOverflowMargin(-1); got != -1 {
		fail("PiOverflowMargin", "level -1: %d, documented -1", got)
	}
	if len(pp) == 0 {
		if got := p.PiOverflowMargin(0); got != -1 {
			fail("PiOverflowMargin", "no P: %d, documented -1", got)
		}
	}
	for lvl := 0; lvl < len(pp); lvl++ {
		max := uint64(0)
		for _, x := range pp[:lvl+1] {
			if x > max {
				max = x
			}
		}
		want := new(big.Int).Div(new(big.Int).Lsh(big.NewInt(1), 64), new(big.Int).SetUint64(max))
		got := big.NewInt(int64(p.PiOverflowMargin(lvl)))
		if diff := new(big.Int).Abs(new(big.Int).Sub(got, want)); diff.Cmp(new(big.Int).Rsh(want, 50)) > 0 {
			fail("PiOverflowMargin", "level %d: %v, floor(2^64/max(P[:%d])) = floor(2^64/%d) = %v (P=%v)", lvl, got, lvl+1, max, want, pp)
		}
	}
	// MaxBit: the largest bit length over Q[:levelQ+1] and P[:levelP+1], at every level pair
	for lvlQ := 0; lvlQ < len(q); lvlQ++ {
		for lvlP := -1; lvlP < len(pp); lvlP++ {
			want := 0
			for _, x := range q[:lvlQ+1] {
				if b := bitLen(x); b > want {
					want = b
				}
			}
			for _, x := range pp[:lvlP+1] {
				if b := bitLen(x); b > want {
					want = b
				}
			}
			if got := p.MaxBit(lvlQ, lvlP); got != want {
				fail("MaxBit", "MaxBit(%d,%d) = %d, largest bit length over Q[:%d]=%v and P[:%d]=%v is %d", lvlQ, lvlP, got, lvlQ+1, q[:lvlQ+1], lvlP+1, pp[:lvlP+1], want)
			}
		}
	}
	// LogQi / LogPi: round(log2) of each prime, computed on the integer (2^(b-1) <= x < 2^b: b-1 or b according to x^2 vs 2^(2b-1))
	roundLog2 := func(x uint64) int {
		b := bitLen(x)
		sq := new(big.Int).Mul(new(big.Int).SetUint64(x), new(big.Int).SetUint64(x))
		if sq.Cmp(new(big.Int).Lsh(big.NewInt(1), uint(2*b-1))) >= 0 {
			return b
		}
		return b - 1
	}
	for i, v := range p.LogQi() {
		if i >= len(q) || v != roundLog2(q[i]) {
			fail("LogQi", "LogQi()=%v for Q=%v", p.LogQi(), q)
			break
		}
	}
	if len(p.LogQi()) != len(q) || len(p.LogPi()) != len(pp) {
		fail("LogQi", "LogQi has %d entries for %d primes, LogPi %d for %d", len(p.LogQi()), len(q), len(p.LogPi()), len(pp))
	}
	for i, v := range p.LogPi() {
		if i >= len(pp) || v != roundLog2(pp[i]) {
			fail("LogPi", "LogPi()=%v for P=%v", p.LogPi(), pp)
			break
		}
	}
	// BaseTwoDecompositionVectorSize, exactly, at every (levelQ, levelP, base): ceil(bitlen(q_i)/w); 1 when w = 0 or levelP > 0
	for lvlQ := 0; lvlQ < len(q); lvlQ++ {
		for lvlP := -1; lvlP < len(pp); lvlP++ {
			for _, w := range []int{0, 1, 2, 7, 15, 16, 29, 30, 31, 45, 60, 61} {
				got := p.BaseTwoDecompositionVectorSize(lvlQ, lvlP, w)
				for i := range got {
					want := 1
					if w != 0 && lvlP <= 0 {
						want = (bitLen(q[i]) + w - 1) / w
					}
					if i < len(q) && got[i] != want {
						fail("BaseTwoDecompositionVectorSize", "(%d,%d,%d)[%d] = %d for q=%d (%d bits), documented ceil(bits/base) = %d", lvlQ, lvlP, w, i, got[i], q[i], bitLen(q[i]), want)
					}
				}
			}
		}
	}
	// noise figures: the truncation bound and the standard deviation of Xe; fresh public-key encryption noise as the
	// source states it (sqrt((h+1)/12) with an auxiliary modulus -- the rounding of the division by P dominates --,
	// sigma*sqrt(h+1) without; twice the variance in the conjugate-invariant ring)
	h := -1
	switch xs := p.Xs().(type) {
	case ring.Ternary:
		if xs.H != 0 {
			h = xs.H
		} else {
			h = int(math.Ceil(float64(p.N()) * xs.P))
		}
	case ring.DiscreteGaussian:
		h = int(math.Ceil(float64(p.N()) * xs.Sigma * math.Sqrt(2/math.Pi)))
	}
	if h >= 0 && p.XsHammingWeight() != h {
		fail("XsHammingWeight", "%d for Xs=%v, N=%d: expected %d", p.XsHammingWeight(), p.Xs(), p.N(), h)
	}
	var sigma, bound float64
	switch xe := p.Xe().(type) {
	case ring.DiscreteGaussian:
		sigma, bound = xe.Sigma, xe.Bound
	case ring.Ternary:
		bound = 1
		pr := xe.P
		if xe.H != 0 {
			pr = float64(xe.H) / float64(p.N())
		}
		sigma = math.Sqrt(pr)
	}
	if math.Abs(p.NoiseBound()-bound) > 1e-9*(1+bound) {
		fail("NoiseBound", "NoiseBound()=%v for Xe=%v: bound %v", p.NoiseBound(), p.Xe(), bound)
	}
	if math.Abs(p.NoiseFreshSK()-sigma) > 1e-9*(1+sigma) {
		what := "NoiseFreshSK"
		if xe, ok := p.Xe().(ring.Ternary); ok && xe.P != 0 {
			what = "NoiseFreshSK@ternary-P" // FINDINGS.md 17: sqrt(1-P) instead of sqrt(P)
		}
		fail(what, "NoiseFreshSK()=%v for Xe=%v: the standard deviation of that distribution is %v (ring.Ternary: -1, 0, 1 with probabilities P/2, 1-P, P/2)", p.NoiseFreshSK(), p.Xe(), sigma)
	}
	if xe, ok := p.Xe().(ring.Ternary); ok && xe.P != 0 && len(pp) == 0 {
		h = -1 // NoiseFreshPK without P is a multiple of NoiseFreshSK: one defect (ternary-P), one signature
	}
	if h >= 0 {
		v := float64(h + 1)
		if len(pp) > 0 {
			v /= 12
		} else {
			v *= sigma * sigma
		}
		if p.RingType() == ring.ConjugateInvariant {
			v *= 2
		}
		if want := math.Sqrt(v); math.Abs(p.NoiseFreshPK()-want) > 1e-9*(1+want) {
			fail("NoiseFreshPK", "%v for h=%d sigma=%v #P=%d %v: %v", p.NoiseFreshPK(), h, sigma, len(pp), p.RingType(), want)
		}
	}
	// Galois elements: 5^k mod NthRoot, inverse, discrete log, conjugation
	nth := uint64(p.NthRoot())
	for _, k := range []int{0, 1, 2, 3, p.N()/2 - 1, p.N() / 2, p.N() - 1, p.N(), -1, -2, -p.N() / 2} {
		e := uint64(k) & (nth - 1) // the exponent is taken modulo the group order (documented: implicit reduction)
		want := ref.PowMod(5, e, nth)
		got := p.GaloisElement(k)
		if got != want {
			fail("GaloisElement", "GaloisElement(%d) = %d, 5^%d mod %d = %d", k, got, k, nth, want)
			continue
		}
		if inv := p.ModInvGaloisElement(got); ref.MulMod(inv, got, nth) != 1 {
			fail("ModInvGaloisElement", "%d·%d != 1 mod %d", inv, got, nth)
		}
		if dl := p.SolveDiscreteLogGaloisElement(got); ref.PowMod(5, uint64(dl), nth) != got {
			fail("SolveDiscreteLogGaloisElement", "5^%d != %d mod %d", dl, got, nth)
		}
	}
	if p.RingType() == ring.Standard {
		if g := p.GaloisElementOrderTwoOrthogonalSubgroup(); g != nth-1 {
			fail("GaloisElementOrderTwoOrthogonalSubgroup", "%d, want NthRoot-1 = %d", g, nth-1)
		}
	}
	c.Count(1)
}

func derivedBGV(c *engine.Chooser, tag string, p bgv.Parameters) {
	t := p.PlaintextModulus()
	// slots: the largest power-of-two cyclotomic the plaintext modulus splits, capped by the ring degree
	order := uint64(2)
	for (t-1)%(order<<1) == 0 && order<<1 <= uint64(2*p.N()) {
		order <<= 1
	}
	want := int(order / 2)
	if p.MaxSlots() != want || 1<<p.LogMaxSlots() != want || p.RingT().N() != want {
		c.Fail("C19/derived/bgv-MaxSlots", "%s: t=%d N=%d: MaxSlots=%d LogMaxSlots=%d RingT.N=%d, want %d", tag, t, p.N(), p.MaxSlots(), p.LogMaxSlots(), p.RingT().N(), want)
	}
	if math.Abs(p.LogT()-math.Log2(float64(t))) > 1e-9 {
		c.Fail("C19/derived/bgv-LogT", "%s: LogT=%v", tag, p.LogT())
	}
	// the auxiliary multiplication basis must hold the tensor product: QMul·Q > N·Q² ⇒ QMul > N·Q
	if qm := p.RingQMul(); qm != nil {
		lhs := ref.Prod(qm.ModuliChain())
		rhs := new(big.Int).Mul(p.QBigInt(), big.NewInt(int64(p.N())))
		if lhs.Cmp(rhs) <= 0 {
			c.Fail("C19/derived/bgv-QMul-too-small", "%s: QMul has %d bits, N·Q has %d", tag, lhs.BitLen(), rhs.BitLen())
		}
		for _, x := range qm.ModuliChain() {
			for _, y := range p.Q() {
				if x == y {
					c.Fail("C19/derived/bgv-QMul-shares-modulus-with-Q", "%s: %d", tag, x)
				}
			}
		}
	}
}

func derivedCKKS(c *engine.Chooser, tag string, p ckks.Parameters) {
	want := p.N() / 2
	if p.RingType() == ring.ConjugateInvariant {
		want = p.N()
	}
	if p.MaxSlots() != want || 1<<p.LogMaxSlots() != want {
		c.Fail("C19/derived/ckks-MaxSlots", "%s: MaxSlots=%d LogMaxSlots=%d, want %d", tag, p.MaxSlots(), p.LogMaxSlots(), want)
	}
	ls := p.LogDefaultScale()
	if math.Abs(p.DefaultScale().Log2()-float64(ls)) > 1e-9 {
		c.Fail("C19/derived/ckks-LogDefaultScale", "%s: LogDefaultScale=%d, DefaultScale=2^%v", tag, ls, p.DefaultScale().Log2())
	}
	// documented: the number of primes consumed per rescaling is 1 in PREC64 and 2 in PREC128 mode
	mode, per := p.PrecisionMode(), p.LevelsConsumedPerRescaling()
	if (mode == ckks.PREC64 && per != 1) || (mode == ckks.PREC128 && per != 2) {
		c.Fail("C19/derived/ckks-LevelsConsumedPerRescaling", "%s: mode %v, %d", tag, mode, per)
	}
	if p.MaxDepth() != p.MaxLevel()/per {
		c.Fail("C19/derived/ckks-MaxDepth", "%s: MaxDepth=%d, MaxLevel=%d, %d per rescaling", tag, p.MaxDepth(), p.MaxLevel(), per)
	}
}

// mixedSizesScenario: the derived getters are functions of *prefixes* of the chains (max over Q[:l+1], P[:l+1], digit
// counts per prime): chains whose primes all have one size, or are sorted, cannot tell a maximum from a last element.
// Every order of three distinct sizes for Q x every order of three (and two, and no) sizes for P, explicit and generated
// (LogP {61,40} as shipped hybrid sets have), through the three constructors.
func mixedSizesScenario(s scheme, rt ring.Type, generated bool) engine.Scenario {
	name := fmt.Sprintf("derived/mixed-sizes/%s/%s/explicit", s, rtName(rt))
	if generated {
		name = fmt.Sprintf("derived/mixed-sizes/%s/%s/generated", s, rtName(rt))
	}
	perms3 := [][]int{{0, 1, 2}, {0, 2, 1}, {1, 0, 2}, {1, 2, 0}, {2, 0, 1}, {2, 1, 0}}
	qSizes := []int{55, 30, 45}
	pShapes := [][]int{nil, {61}, {61, 40}, {40, 61}, {50, 61, 40}, {50, 40, 61}, {61, 50, 40}, {61, 40, 50}, {40, 61, 50}, {40, 50, 61}}
	const logN = 5
	return engine.Scenario{Name: name, Bound: -1, Fn: func(c *engine.Chooser) {
		pq := perms3[c.Choose(len(perms3), "Q-order")]
		ps := pShapes[c.Choose(len(pShapes), "P-sizes")]
		uni.Seed(c, name, fmt.Sprint(pq, ps))
		logQ := []int{qSizes[pq[0]], qSizes[pq[1]], qSizes[pq[2]]}
		l := lit{sch: s}
		l.rl.LogN, l.rl.RingType = logN, rt
		if generated {
			l.rl.LogQ, l.rl.LogP = logQ, ps
		} else {
			m := uint64(1) << (logN + 2)
			for _, b := range logQ {
				l.rl.Q = append(l.rl.Q, ref.PrimesNear(1<<uint(b), m, 1, false)[0])
			}
			for i, b := range ps {
				// explicit P primes stay below 2^61 (CheckModuli's documented range): the 61-bit request becomes 60 bits
				if b == 61 {
					b = 60
				}
				l.rl.P = append(l.rl.P, ref.PrimesNear(1<<uint(b), m, 3, true)[i])
			}
		}
		defaults(&l)
		if s == sBGV {
			l.t = 65537
		}
		tag := fmt.Sprintf("%s LogQ=%v LogP=%v", name, logQ, ps)
		out, err := l.construct()
		if err != nil {
			c.Fail("C19/derived/mixed-sizes/legal-chain-refused", "%s: %v", tag, err)
			return
		}
		var p rlwe.Parameters
		switch v := out.(type) {
		case rlwe.Parameters:
			p = v
		case ckks.Parameters:
			p = v.Parameters
		case bgv.Parameters:
			p = v.Parameters
		}
		// the chain is in the requested order (sizes), otherwise "every order" is not what is being looked at
		for i, b := range p.LogQi() {
			if b != logQ[i] {
				c.Fail("C19/derived/mixed-sizes/chain-order", "%s: Q has sizes %v", tag, p.LogQi())
				return
			}
		}
		c.Cover("derived", "mixed-sizes")
		if len(ps) > 1 && ps[len(ps)-1] != 61 {
			c.Cover("derived", "largest-P-not-last")
		}
		derivedRLWE(c, tag, p)
		c.Outcome(name, fmt.Sprint(logQ, ps))
	}}
}

func roundTripScenarios(tier string) []engine.Scenario {
	var scs []engine.Scenario
	for _, gen := range []bool{false, true} {
		for _, rt := range []ring.Type{ring.Standard, ring.ConjugateInvariant} {
			scs = append(scs, mixedSizesScenario(sRLWE, rt, gen), mixedSizesScenario(sCKKS, rt, gen))
		}
		scs = append(scs, mixedSizesScenario(sBGV, ring.Standard, gen))
	}
	for _, k := range rtCatalogue(tier) {
		scs = append(scs, roundTripScenario(k))
	}
	return scs
}
