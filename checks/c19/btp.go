package main

import (
	"fmt"
	"math"
	"reflect"
	"strings"

	"github.com/tuneinsight/lattigo/v6/circuits/ckks/bootstrapping"
	"github.com/tuneinsight/lattigo/v6/circuits/ckks/mod1"
	"github.com/tuneinsight/lattigo/v6/core/rlwe"
	"github.com/tuneinsight/lattigo/v6/ring"
	"github.com/tuneinsight/lattigo/v6/schemes/ckks"
	"github.com/tuneinsight/lattigo/v6/utils"

	"verif/engine"
	"verif/uni"
)

// Item 1 continued — bootstrapping literals across their acceptance boundary. One leaf = the ordinary reduced literal
// (LogN 8 over a LogN 7 residual ring, LogSlots 3) with ONE field moved to a boundary / out-of-domain value.
// Oracle: bootstrapping.NewParametersFromLiteral under recover + watchdog; values the getters document as invalid must
// be refused with an error; an accepted literal must get through GenEvaluationKeys and NewEvaluator without panic or
// hang (an error from NewEvaluator is a clean refusal too), and the ordinary literal must actually bootstrap.

type btpCase struct {
	name string // may end in "#class": several cases of one root cause share the class in signatures
	mut  func(res *ckks.ParametersLiteral, b *bootstrapping.ParametersLiteral)
	bad  bool // documented as invalid (parameters_literal.go getters, NewParametersFromLiteral doc)
}

// bootLevel: what is demanded of an accepted case beyond "keys and evaluator without panic": 1 = one bootstrap at the
// announced level and scale, 2 = in addition the message within 2^-10 (nearest legal neighbours of a documented
// constraint that are sensible circuits). Cases not listed: 0.
// refusalAlsoFine: accepted => must bootstrap (bootLevel), but a clean refusal is an equally documented answer
// (no auxiliary prime at all: the documentation promises neither).
var refusalAlsoFine = map[string]bool{"LogP-empty-noencaps": true}

var bootLevel = map[string]int{
	"ordinary": 2, "LogN=residual": 2, "LogSlots=1": 2, "LogSlots=LogN-1": 2, "LogSlots=nil": 2,
	"C2S-depth=LogSlots": 2, "S2C-depth=LogSlots": 2, "S2C-depth=LogSlots-shared-prime": 1, "C2S-depth=1": 2, "S2C-depth=1": 2,
	"EphemeralSecretWeight=0": 2, "EphemeralSecretWeight=1": 2, "EphemeralSecretWeight=N": 1,
	"EvalModLogScale=60": 2, "EvalModLogScale=0": 0, "LogMessageRatio=63": 0, "LogMessageRatio=0": 1,
	"K=1": 1, "DoubleAngle=0": 1, "DoubleAngle=3": 2, "Mod1InvDegree=0": 2, "Mod1InvDegree=1": 1,
	"LogP-empty-noencaps": 1, "LogP-three": 2, "ci-residual-LogN=residual+1": 1,
}

func btpCases() []btpCase {
	P := utils.Pointy[int]
	it := func(prec []float64, reserved int) *bootstrapping.IterationsParameters {
		return &bootstrapping.IterationsParameters{BootstrappingPrecision: prec, ReservedPrimeBitSize: reserved}
	}
	type B = bootstrapping.ParametersLiteral
	type R = ckks.ParametersLiteral
	return []btpCase{
		{"ordinary", func(r *R, b *B) {}, false},
		// every optional part of the parameter object set at once (codec: the object must survive its own encoding)
		{"all-options-iterations-reserved", func(r *R, b *B) {
			b.IterationsParameters = it([]float64{20, 20}, 28)
			b.EphemeralSecretWeight = P(0)
			b.CoeffsToSlotsFactorizationDepthAndLogScales = [][]int{{56}, {56}}
			b.SlotsToCoeffsFactorizationDepthAndLogScales = [][]int{{39}}
			b.Mod1Type, b.K, b.Mod1Degree, b.DoubleAngle, b.Mod1InvDegree, b.EvalModLogScale = mod1.CosContinuous, P(12), P(40), P(2), P(5), P(59)
			r.LogDefaultScale = 80
		}, false},
		{"all-options-iterations-no-reserved", func(r *R, b *B) {
			b.IterationsParameters = it([]float64{15}, 0)
			b.EphemeralSecretWeight = P(8)
			b.SlotsToCoeffsFactorizationDepthAndLogScales = [][]int{{39}, {39}, {39}}
			b.Mod1Type, b.Mod1Degree, b.Mod1InvDegree = mod1.SinContinuous, P(63), P(7)
			r.LogDefaultScale = 80
		}, false},
		{"all-options-conjugate-invariant", func(r *R, b *B) {
			r.RingType = ring.ConjugateInvariant
			b.EphemeralSecretWeight = P(0)
			b.CoeffsToSlotsFactorizationDepthAndLogScales = [][]int{{56}, {56}, {56}}
			b.Mod1Type, b.K, b.DoubleAngle = mod1.CosContinuous, P(20), P(1)
			b.LogP = []int{61, 61}
		}, false},
		// LogN
		{"LogN=residual", func(r *R, b *B) { b.LogN = P(7); b.LogSlots = P(3) }, false},
		{"LogN<residual", func(r *R, b *B) { b.LogN = P(6) }, true},
		{"LogN=residual+2(moduli-not-1-mod-NthRoot)", func(r *R, b *B) { b.LogN = P(9) }, true},
		{"LogN=nil(default16)", func(r *R, b *B) { b.LogN = nil }, true},
		{"LogN=-1", func(r *R, b *B) { b.LogN = P(-1) }, true},
		{"LogN=0", func(r *R, b *B) { b.LogN = P(0) }, true},
		{"LogN=62", func(r *R, b *B) { b.LogN = P(62) }, true},
		{"LogN=63", func(r *R, b *B) { b.LogN = P(63) }, true},
		{"ci-residual-LogN=residual+1", func(r *R, b *B) { r.RingType = ring.ConjugateInvariant }, false},
		{"ci-residual-LogN=residual", func(r *R, b *B) { r.RingType = ring.ConjugateInvariant; b.LogN = P(7) }, true},
		{"ci-residual-LogN=residual+2", func(r *R, b *B) { r.RingType = ring.ConjugateInvariant; b.LogN = P(9) }, true},
		// LogSlots
		{"LogSlots=-1", func(r *R, b *B) { b.LogSlots = P(-1) }, true},
		{"LogSlots=0", func(r *R, b *B) { b.LogSlots = P(0) }, true},
		{"LogSlots=1", func(r *R, b *B) { b.LogSlots = P(1) }, false},
		{"LogSlots=LogN-1", func(r *R, b *B) { b.LogSlots = P(7) }, false},
		{"LogSlots=LogN", func(r *R, b *B) { b.LogSlots = P(8) }, true},
		{"LogSlots=64", func(r *R, b *B) { b.LogSlots = P(64) }, true},
		{"LogSlots=nil", func(r *R, b *B) { b.LogSlots = nil }, false},
		// ephemeral secret
		{"EphemeralSecretWeight=-1", func(r *R, b *B) { b.EphemeralSecretWeight = P(-1) }, true},
		{"EphemeralSecretWeight=0", func(r *R, b *B) { b.EphemeralSecretWeight = P(0) }, false},
		{"EphemeralSecretWeight=1", func(r *R, b *B) { b.EphemeralSecretWeight = P(1) }, false},
		{"EphemeralSecretWeight=N", func(r *R, b *B) { b.EphemeralSecretWeight = P(256) }, false},
		{"EphemeralSecretWeight=N+1", func(r *R, b *B) { b.EphemeralSecretWeight = P(257) }, false},
		// iterations
		{"Iterations-empty-list", func(r *R, b *B) { b.IterationsParameters = it(nil, 0) }, true},
		{"Iterations-precision-0", func(r *R, b *B) { b.IterationsParameters = it([]float64{0}, 28) }, true},
		{"Iterations-precision-negative", func(r *R, b *B) { b.IterationsParameters = it([]float64{-5}, 28) }, false},
		{"Iterations-precision-NaN", func(r *R, b *B) { b.IterationsParameters = it([]float64{math.NaN()}, 28) }, false},
		{"Iterations-precision-1000", func(r *R, b *B) { b.IterationsParameters = it([]float64{1000}, 28) }, false},
		{"Iterations-reserved=61", func(r *R, b *B) { b.IterationsParameters = it([]float64{20}, 61) }, false},
		{"Iterations-reserved=62", func(r *R, b *B) { b.IterationsParameters = it([]float64{20}, 62) }, true},
		{"Iterations-reserved=-1", func(r *R, b *B) { b.IterationsParameters = it([]float64{20}, -1) }, false},
		{"Iterations-reserved=1", func(r *R, b *B) { b.IterationsParameters = it([]float64{20}, 1) }, false},
		// mod1 fields
		{"EvalModLogScale=-1", func(r *R, b *B) { b.EvalModLogScale = P(-1) }, true},
		{"EvalModLogScale=0", func(r *R, b *B) { b.EvalModLogScale = P(0) }, false},
		{"EvalModLogScale=61", func(r *R, b *B) { b.EvalModLogScale = P(61) }, true},
		{"LogMessageRatio=-1", func(r *R, b *B) { b.LogMessageRatio = P(-1) }, true},
		{"LogMessageRatio=0", func(r *R, b *B) { b.LogMessageRatio = P(0) }, false},
		{"LogMessageRatio=63", func(r *R, b *B) { b.LogMessageRatio = P(63) }, false},
		{"LogMessageRatio=64#LogMessageRatio>=64", func(r *R, b *B) { b.LogMessageRatio = P(64) }, true},
		{"LogMessageRatio=70#LogMessageRatio>=64", func(r *R, b *B) { b.LogMessageRatio = P(70) }, true},
		{"K=-1", func(r *R, b *B) { b.K = P(-1) }, true},
		{"K=0", func(r *R, b *B) { b.K = P(0) }, true},
		{"K=1", func(r *R, b *B) { b.K = P(1) }, false},
		{"K=1000(degree-too-small)", func(r *R, b *B) { b.K = P(1000) }, false},
		{"Mod1Degree=-1", func(r *R, b *B) { b.Mod1Degree = P(-1) }, true},
		{"Mod1Degree=0", func(r *R, b *B) { b.Mod1Degree = P(0) }, false},
		{"Mod1Degree=1", func(r *R, b *B) { b.Mod1Degree = P(1); b.Mod1Type = mod1.SinContinuous }, false},
		{"DoubleAngle=-1", func(r *R, b *B) { b.DoubleAngle = P(-1) }, true},
		{"DoubleAngle=8", func(r *R, b *B) { b.DoubleAngle = P(8) }, false},
		{"DoubleAngle-with-Sin", func(r *R, b *B) { b.DoubleAngle = P(2); b.Mod1Type = mod1.SinContinuous }, false},
		{"Mod1InvDegree=-1", func(r *R, b *B) { b.Mod1InvDegree = P(-1) }, true},
		{"Mod1InvDegree=1", func(r *R, b *B) { b.Mod1InvDegree = P(1) }, false},
		{"Mod1InvDegree=2(even)", func(r *R, b *B) { b.Mod1InvDegree = P(2) }, false},
		{"Mod1Type=7", func(r *R, b *B) { b.Mod1Type = mod1.Type(7) }, false},
		// DFT splits
		// both sides of "depth > LogSlots" (matrices, not levels, are counted), for both transforms
		{"C2S-depth=LogSlots", func(r *R, b *B) { b.CoeffsToSlotsFactorizationDepthAndLogScales = [][]int{{56}, {56}, {56}} }, false},
		{"S2C-depth=LogSlots", func(r *R, b *B) { b.SlotsToCoeffsFactorizationDepthAndLogScales = [][]int{{39}, {39}, {39}} }, false},
		{"S2C-depth=LogSlots-shared-prime", func(r *R, b *B) { b.SlotsToCoeffsFactorizationDepthAndLogScales = [][]int{{30}, {30, 30}} }, false},
		{"C2S-depth=LogSlots-shared-prime", func(r *R, b *B) { b.CoeffsToSlotsFactorizationDepthAndLogScales = [][]int{{56}, {28, 28}} }, false},
		{"S2C-depth=LogSlots+1-shared-prime", func(r *R, b *B) { b.SlotsToCoeffsFactorizationDepthAndLogScales = [][]int{{30, 30}, {30, 30}} }, true},
		{"C2S-depth=LogSlots+1-shared-prime", func(r *R, b *B) { b.CoeffsToSlotsFactorizationDepthAndLogScales = [][]int{{28, 28}, {28, 28}} }, true},
		{"C2S-depth=1", func(r *R, b *B) { b.CoeffsToSlotsFactorizationDepthAndLogScales = [][]int{{56}} }, false},
		{"S2C-depth=1", func(r *R, b *B) { b.SlotsToCoeffsFactorizationDepthAndLogScales = [][]int{{39}} }, false},
		{"EvalModLogScale=60", func(r *R, b *B) { b.EvalModLogScale = P(60) }, false},
		{"DoubleAngle=0", func(r *R, b *B) { b.DoubleAngle = P(0) }, false},
		{"DoubleAngle=3", func(r *R, b *B) { b.DoubleAngle = P(3) }, false},
		{"Mod1InvDegree=0", func(r *R, b *B) { b.Mod1InvDegree = P(0) }, false},
		{"C2S-depth>LogSlots", func(r *R, b *B) { b.CoeffsToSlotsFactorizationDepthAndLogScales = [][]int{{56}, {56}, {56}, {56}} }, true},
		{"S2C-depth>LogSlots", func(r *R, b *B) { b.SlotsToCoeffsFactorizationDepthAndLogScales = [][]int{{39}, {39}, {39}, {39}} }, true},
		{"S2C-empty", func(r *R, b *B) { b.SlotsToCoeffsFactorizationDepthAndLogScales = [][]int{} }, false},
		{"S2C-empty-level", func(r *R, b *B) { b.SlotsToCoeffsFactorizationDepthAndLogScales = [][]int{{}, {39}} }, false},
		{"S2C-scale-0", func(r *R, b *B) { b.SlotsToCoeffsFactorizationDepthAndLogScales = [][]int{{0}} }, false},
		{"C2S-empty", func(r *R, b *B) { b.CoeffsToSlotsFactorizationDepthAndLogScales = [][]int{} }, true},
		{"C2S-empty-level", func(r *R, b *B) { b.CoeffsToSlotsFactorizationDepthAndLogScales = [][]int{{}, {56}} }, false},
		{"C2S-scale-0", func(r *R, b *B) { b.CoeffsToSlotsFactorizationDepthAndLogScales = [][]int{{0}} }, false},
		{"C2S-scale-62", func(r *R, b *B) { b.CoeffsToSlotsFactorizationDepthAndLogScales = [][]int{{62}} }, false},
		{"C2S-scale-negative", func(r *R, b *B) { b.CoeffsToSlotsFactorizationDepthAndLogScales = [][]int{{-5}} }, false},
		// auxiliary primes
		{"LogP-empty", func(r *R, b *B) { b.LogP = []int{} }, true},
		{"LogP-empty-noencaps", func(r *R, b *B) { b.LogP = []int{}; b.EphemeralSecretWeight = P(0) }, false},
		{"LogP-nil(default)", func(r *R, b *B) { b.LogP = nil }, false},
		{"LogP-0", func(r *R, b *B) { b.LogP = []int{0} }, false},
		{"LogP-62", func(r *R, b *B) { b.LogP = []int{62} }, false},
		{"LogP-three", func(r *R, b *B) { b.LogP = []int{61, 61, 61} }, false},
		// distributions of the bootstrapping ring (used for the fresh secret of a ring-degree switch)
		{"Xs-H=N+1", func(r *R, b *B) { b.Xs = ring.Ternary{H: 257} }, false},
		{"Xs-uniform", func(r *R, b *B) { b.Xs = ring.Uniform{} }, false},
	}
}

func btpScenario(k btpCase) engine.Scenario {
	class := k.name
	if i := strings.Index(k.name, "#"); i >= 0 {
		k.name, class = k.name[:i], k.name[i+1:]
	}
	name := "accept/btp/" + k.name
	return engine.Scenario{Name: name, Bound: -1, Fn: func(c *engine.Chooser) {
		uni.Seed(c, name)
		resLit := ckks.ParametersLiteral{LogN: 7, LogNthRoot: 9, LogQ: []int{60, 40}, LogP: []int{61}, LogDefaultScale: 40, Xs: ring.Ternary{H: 32}}
		b := bootstrapping.ParametersLiteral{LogN: utils.Pointy(8), LogSlots: utils.Pointy(3), LogP: []int{61}, LogMessageRatio: utils.Pointy(16), Xs: ring.Ternary{H: 32}}
		k.mut(&resLit, &b)
		res, err := ckks.NewParametersFromLiteral(resLit)
		if err != nil {
			panic("harness: residual literal rejected: " + err.Error())
		}
		c.Cover("btp", k.name)
		tag := fmt.Sprintf("%s: %s", k.name, describeBtp(b))
		var bp bootstrapping.Parameters
		r := guarded(name, func() (err error) {
			bp, err = bootstrapping.NewParametersFromLiteral(res, b)
			return
		})
		c.Logf("%s -> %v", tag, r)
		switch {
		case r.hung:
			c.Fail("C19/accept/btp/constructor-hang@"+class, "%s: %v", tag, r)
			return
		case r.panicked != nil:
			c.Fail("C19/accept/btp/constructor-panic@"+class, "%s: %v", tag, r)
			return
		case r.err != nil:
			c.Cover("rejected", "accept/btp")
			c.Outcome(name, "rejected")
			if bootLevel[k.name] > 0 && !refusalAlsoFine[k.name] {
				c.Fail("C19/accept/btp/legal-literal-refused@"+class, "%s: %v", tag, r.err)
			}
			return
		}
		c.Cover("accepted", "accept/btp")
		if k.bad {
			c.Fail("C19/accept/btp/accepted@"+class, "%s: accepted although the literal's documentation declares the value invalid", tag)
			return
		}
		// an accepted parameter object must survive its own encoding (MarshalBinary is JSON) as an Equal object
		rt := guarded(name+"|codec", func() error {
			data, err := bp.MarshalBinary()
			if err != nil {
				return fmt.Errorf("MarshalBinary: %w", err)
			}
			var back bootstrapping.Parameters
			if err := back.UnmarshalBinary(data); err != nil {
				return fmt.Errorf("UnmarshalBinary(MarshalBinary(p)): %w", err)
			}
			if !bp.Equal(&back) || !back.Equal(&bp) {
				return fmt.Errorf("UnmarshalBinary(MarshalBinary(p)) is not Equal to p")
			}
			return nil
		})
		if strings.Contains(class, "NaN") {
			rt = callResult{} // NaN has no JSON representation: nothing to demand of the codec
		}
		if rt.hung || rt.panicked != nil || rt.err != nil {
			c.Fail("C19/roundtrip/bootstrapping.Parameters@"+class, "%s: %v", tag, rt)
		}
		var outcome string
		s := guarded(name+"|keys", func() error {
			sk := rlwe.NewKeyGenerator(res).GenSecretKeyNew()
			evk, _, err := bp.GenEvaluationKeys(sk)
			if err != nil {
				outcome = "keys: " + err.Error()
				return nil
			}
			eval, err := bootstrapping.NewEvaluator(bp, evk)
			if err != nil {
				outcome = "evaluator refused: " + err.Error()
				if bootLevel[k.name] > 0 {
					return fmt.Errorf("NewEvaluator refuses a legal literal: %w", err)
				}
				return nil
			}
			outcome = "evaluator built"
			boot := bootLevel[k.name]
			if boot == 0 {
				return nil
			}
			// nearest legal neighbours of the documented constraints must work end to end
			logSlots := bp.LogMaxSlots()
			if m := res.LogMaxSlots(); logSlots > m {
				logSlots = m
			}
			ecd := ckks.NewEncoder(res)
			pt := ckks.NewPlaintext(res, 0)
			pt.LogDimensions.Cols = logSlots
			n := 1 << logSlots
			v := make([]complex128, n)
			for i := range v {
				v[i] = complex(1-2*float64(i+1)/float64(n+1), 0)
				if res.RingType() == ring.Standard {
					v[i] += complex(0, float64(i%7)/8-0.375)
				}
			}
			if res.RingType() == ring.ConjugateInvariant {
				re := make([]float64, n)
				for i := range re {
					re[i] = real(v[i])
				}
				err = ecd.Encode(re, pt)
			} else {
				err = ecd.Encode(v, pt)
			}
			if err != nil {
				return err
			}
			ct, err := rlwe.NewEncryptor(res, sk).EncryptNew(pt)
			if err != nil {
				return err
			}
			outs, err := eval.BootstrapMany([]rlwe.Ciphertext{*ct})
			if err != nil {
				return fmt.Errorf("bootstrap: %w", err)
			}
			out := &outs[0]
			if out.Level() != eval.OutputLevel() || !out.Scale.Equal(res.DefaultScale()) {
				return fmt.Errorf("output at level %d (announced %d), scale 2^%.3f (default 2^%.3f)", out.Level(), eval.OutputLevel(), out.Scale.Log2(), res.DefaultScale().Log2())
			}
			outcome = "bootstrapped (level and scale as announced)"
			if boot < 2 {
				return nil
			}
			got := make([]complex128, n)
			if res.RingType() == ring.ConjugateInvariant {
				re := make([]float64, n)
				if err := ecd.Decode(rlwe.NewDecryptor(res, sk).DecryptNew(out), re); err != nil {
					return err
				}
				for i := range re {
					got[i] = complex(re[i], 0)
				}
			} else if err := ecd.Decode(rlwe.NewDecryptor(res, sk).DecryptNew(out), got); err != nil {
				return err
			}
			for i := range v {
				if d := math.Max(math.Abs(real(got[i])-real(v[i])), math.Abs(imag(got[i])-imag(v[i]))); d > 1.0/1024 {
					return fmt.Errorf("slot %d: %v, want %v", i, got[i], v[i])
				}
			}
			outcome = "bootstrapped"
			return nil
		})
		switch {
		case s.hung:
			c.Fail("C19/accept/btp/hang-after-acceptance@"+class, "%s: accepted, then key generation / evaluator construction did not return: %v", tag, s)
		case s.panicked != nil:
			c.Fail("C19/accept/btp/panic-after-acceptance@"+class, "%s: accepted, then %v", tag, s)
		case s.err != nil:
			c.Fail("C19/accept/btp/legal-literal-does-not-bootstrap@"+class, "%s: %v", tag, s.err)
		}
		c.Outcome(name, "accepted", outcome)
		c.Note("%s: %s", tag, outcome)
	}}
}

func describeBtp(b bootstrapping.ParametersLiteral) string {
	v := reflect.ValueOf(b)
	s := ""
	for i := 0; i < v.NumField(); i++ {
		f := v.Field(i)
		if f.Kind() == reflect.Ptr || f.Kind() == reflect.Slice || f.Kind() == reflect.Interface {
			if f.IsNil() {
				continue
			}
		}
		val := f.Interface()
		if f.Kind() == reflect.Ptr {
			val = f.Elem().Interface()
		}
		s += fmt.Sprintf("%s=%v ", v.Type().Field(i).Name, val)
	}
	return s
}

func btpScenarios(tier string) []engine.Scenario {
	var scs []engine.Scenario
	for _, k := range btpCases() {
		scs = append(scs, btpScenario(k))
	}
	for _, ls := range []int{1, 2, 3, 7} {
		scs = append(scs, btpDefaultsScenario(ls))
	}
	return scs
}

// Defaults: an optional field set explicitly to the value the documentation gives as its default must yield parameters
// Equal to the ones obtained with the field left nil (and must not be refused), for several LogSlots (the DFT defaults
// depend on it: min(4, LogSlots) x 56 bits and min(3, LogSlots) x 39 bits).
func btpDefaultsScenario(logSlots int) engine.Scenario {
	name := fmt.Sprintf("accept/btp-defaults/s%d", logSlots)
	P := utils.Pointy[int]
	rep := func(n, v int) (r [][]int) {
		for i := 0; i < n; i++ {
			r = append(r, []int{v})
		}
		return
	}
	type B = bootstrapping.ParametersLiteral
	fields := []struct {
		name string
		set  func(b *B, nilParams bootstrapping.Parameters)
	}{
		{"LogSlots=LogN-1(when-unset)", nil}, // handled below: only meaningful for the LogN-1 base
		{"CoeffsToSlots=min(4,LogSlots)x56", func(b *B, _ bootstrapping.Parameters) {
			b.CoeffsToSlotsFactorizationDepthAndLogScales = rep(utils.Min(bootstrapping.DefaultCoeffsToSlotsFactorizationDepth, logSlots), bootstrapping.DefaultCoeffsToSlotsLogScale)
		}},
		{"SlotsToCoeffs=min(3,LogSlots)x39", func(b *B, _ bootstrapping.Parameters) {
			b.SlotsToCoeffsFactorizationDepthAndLogScales = rep(utils.Min(bootstrapping.DefaultSlotsToCoeffsFactorizationDepth, logSlots), bootstrapping.DefaultSlotsToCoeffsLogScale)
		}},
		{"EvalModLogScale=60", func(b *B, _ bootstrapping.Parameters) { b.EvalModLogScale = P(bootstrapping.DefaultEvalModLogScale) }},
		{"EphemeralSecretWeight=32", func(b *B, _ bootstrapping.Parameters) {
			b.EphemeralSecretWeight = P(bootstrapping.DefaultEphemeralSecretWeight)
		}},
		{"LogMessageRatio=8", func(b *B, _ bootstrapping.Parameters) { b.LogMessageRatio = P(bootstrapping.DefaultLogMessageRatio) }},
		{"K=16", func(b *B, _ bootstrapping.Parameters) { b.K = P(bootstrapping.DefaultK) }},
		{"Mod1Degree=30", func(b *B, _ bootstrapping.Parameters) { b.Mod1Degree = P(bootstrapping.DefaultMod1Degree) }},
		{"DoubleAngle=3", func(b *B, _ bootstrapping.Parameters) { b.DoubleAngle = P(bootstrapping.DefaultDoubleAngle) }},
		{"Mod1InvDegree=0", func(b *B, _ bootstrapping.Parameters) { b.Mod1InvDegree = P(bootstrapping.DefaultMod1InvDegree) }},
		{"Mod1Type=CosDiscrete", func(b *B, _ bootstrapping.Parameters) { b.Mod1Type = bootstrapping.DefaultMod1Type }},
		{"Xs=DefaultXs", func(b *B, _ bootstrapping.Parameters) { b.Xs = bootstrapping.DefaultXs }},
		{"Xe=DefaultXe", func(b *B, _ bootstrapping.Parameters) { b.Xe = bootstrapping.DefaultXe }},
		{"LogP=61xfloor(sqrt(#Q))", func(b *B, p0 bootstrapping.Parameters) {
			n := utils.Max(1, int(math.Sqrt(float64(p0.BootstrappingParameters.QCount()))))
			b.LogP = make([]int, n)
			for i := range b.LogP {
				b.LogP[i] = 61
			}
		}},
		{"all-of-the-above", nil},
	}
	return engine.Scenario{Name: name, Bound: -1, Fn: func(c *engine.Chooser) {
		fi := c.Choose(len(fields), "field")
		f := fields[fi]
		uni.Seed(c, name, f.name)
		res, err := ckks.NewParametersFromLiteral(ckks.ParametersLiteral{LogN: 7, LogNthRoot: 9, LogQ: []int{60, 40}, LogP: []int{61}, LogDefaultScale: 40, Xs: ring.Ternary{H: 32}})
		if err != nil {
			panic("harness: " + err.Error())
		}
		base := B{LogN: P(8), LogSlots: P(logSlots)}
		if fi == 0 {
			if logSlots != 7 {
				c.Skip("LogSlots default is LogN-1")
				return
			}
			base.LogSlots = nil
		}
		p0, err := bootstrapping.NewParametersFromLiteral(res, base)
		if err != nil {
			c.Fail("C19/accept/btp-defaults/all-default-literal-refused", "LogSlots=%d: %v", logSlots, err)
			return
		}
		explicit := base
		switch {
		case fi == 0:
			explicit.LogSlots = P(7)
		case f.set == nil: // all
			for _, g := range fields {
				if g.set != nil {
					g.set(&explicit, p0)
				}
			}
		default:
			f.set(&explicit, p0)
		}
		c.Cover("btp-defaults", f.name)
		var p1 bootstrapping.Parameters
		r := guarded(name+f.name, func() (e error) { p1, e = bootstrapping.NewParametersFromLiteral(res, explicit); return })
		switch {
		case r.hung || r.panicked != nil:
			c.Fail("C19/accept/btp-defaults/panic-or-hang@"+f.name, "LogSlots=%d %s: %v", logSlots, describeBtp(explicit), r)
		case r.err != nil:
			c.Fail("C19/accept/btp-defaults/documented-default-refused@"+f.name, "LogSlots=%d %s: %v", logSlots, describeBtp(explicit), r.err)
		case !p0.Equal(&p1) || !p1.Equal(&p0):
			c.Fail("C19/accept/btp-defaults/explicit-default-differs-from-nil@"+f.name, "LogSlots=%d: %s gives parameters that are not Equal to the nil-field ones", logSlots, describeBtp(explicit))
		default:
			// BitConsumption is documented on the literal: same answer for both spellings
			a, ea := base.BitConsumption(logSlots)
			b, eb := explicit.BitConsumption(logSlots)
			if (ea == nil) != (eb == nil) || a != b {
				c.Fail("C19/accept/btp-defaults/BitConsumption-differs@"+f.name, "LogSlots=%d: nil-field %d (%v), explicit %d (%v)", logSlots, a, ea, b, eb)
			}
		}
		c.Outcome(name, f.name, r.String())
	}}
}
