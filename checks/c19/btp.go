package main

import (
	"fmt"
	"math"
	"reflect"
	"strings"

	"github.com/tuneinsight/lattigo/v6/circuits/ckks/bootstrapping"
	"github.com/tuneinsight/lattigo/v6/circuits/ckks/mod1"
	"github.com/tuneinsight/lattigo/v6/core/rlwe"
	"github.com/tuneinsight/lattigo/v6/ring"
	"github.com/tuneinsight/lattigo/v6/schemes/ckks"
	"github.com/tuneinsight/lattigo/v6/utils"

	"verif/engine"
	"verif/uni"
)

// Item 1 continued — bootstrapping literals across their acceptance boundary. One leaf = the ordinary reduced literal
// (LogN 8 over a LogN 7 residual ring, LogSlots 3) with ONE field moved to a boundary / out-of-domain value.
// Oracle: bootstrapping.NewParametersFromLiteral under recover + watchdog; values the getters document as invalid must
// be refused with an error; an accepted literal must get through GenEvaluationKeys and NewEvaluator without panic or
// hang (an error from NewEvaluator is a clean refusal too), and the ordinary literal must actually bootstrap.

type btpCase struct {
	name string // may end in "#class": several cases of one root cause share the class in signatures
	mut  func(res *ckks.ParametersLiteral, b *bootstrapping.ParametersLiteral)
	bad  bool // documented as invalid (parameters_literal.go getters, NewParametersFromLiteral doc)
}

func btpCases() []btpCase {
	P := utils.Pointy[int]
	it := func(prec []float64, reserved int) *bootstrapping.IterationsParameters {
		return &bootstrapping.IterationsParameters{BootstrappingPrecision: prec, ReservedPrimeBitSize: reserved}
	}
	type B = bootstrapping.ParametersLiteral
	type R = ckks.ParametersLiteral
	return []btpCase{
		{"ordinary", func(r *R, b *B) {}, false},
		// every optional part of the parameter object set at once (codec: the object must survive its own encoding)
		{"all-options-iterations-reserved", func(r *R, b *B) {
			b.IterationsParameters = it([]float64{20, 20}, 28)
			b.EphemeralSecretWeight = P(0)
			b.CoeffsToSlotsFactorizationDepthAndLogScales = [][]int{{56}, {56}}
			b.SlotsToCoeffsFactorizationDepthAndLogScales = [][]int{{39}}
			b.Mod1Type, b.K, b.Mod1Degree, b.DoubleAngle, b.Mod1InvDegree, b.EvalModLogScale = mod1.CosContinuous, P(12), P(40), P(2), P(5), P(59)
			r.LogDefaultScale = 80
		}, false},
		{"all-options-iterations-no-reserved", func(r *R, b *B) {
			b.IterationsParameters = it([]float64{15}, 0)
			b.EphemeralSecretWeight = P(8)
			b.SlotsToCoeffsFactorizationDepthAndLogScales = [][]int{{39}, {39}, {39}}
			b.Mod1Type, b.Mod1Degree, b.Mod1InvDegree = mod1.SinContinuous, P(63), P(7)
			r.LogDefaultScale = 80
		}, false},
		{"all-options-conjugate-invariant", func(r *R, b *B) {
			r.RingType = ring.ConjugateInvariant
			b.EphemeralSecretWeight = P(0)
			b.CoeffsToSlotsFactorizationDepthAndLogScales = [][]int{{56}, {56}, {56}}
			b.Mod1Type, b.K, b.DoubleAngle = mod1.CosContinuous, P(20), P(1)
			b.LogP = []int{61, 61}
		}, false},
		// LogN
		{"LogN=residual", func(r *R, b *B) { b.LogN = P(7); b.LogSlots = P(3) }, false},
		{"LogN<residual", func(r *R, b *B) { b.LogN = P(6) }, true},
		{"LogN=residual+2(moduli-not-1-mod-NthRoot)", func(r *R, b *B) { b.LogN = P(9) }, true},
		{"LogN=nil(default16)", func(r *R, b *B) { b.LogN = nil }, true},
		{"LogN=-1", func(r *R, b *B) { b.LogN = P(-1) }, true},
		{"LogN=0", func(r *R, b *B) { b.LogN = P(0) }, true},
		{"LogN=62", func(r *R, b *B) { b.LogN = P(62) }, true},
		{"LogN=63", func(r *R, b *B) { b.LogN = P(63) }, true},
		{"ci-residual-LogN=residual+1", func(r *R, b *B) { r.RingType = ring.ConjugateInvariant }, false},
		{"ci-residual-LogN=residual", func(r *R, b *B) { r.RingType = ring.ConjugateInvariant; b.LogN = P(7) }, true},
		{"ci-residual-LogN=residual+2", func(r *R, b *B) { r.RingType = ring.ConjugateInvariant; b.LogN = P(9) }, true},
		// LogSlots
		{"LogSlots=-1", func(r *R, b *B) { b.LogSlots = P(-1) }, true},
		{"LogSlots=0", func(r *R, b *B) { b.LogSlots = P(0) }, true},
		{"LogSlots=1", func(r *R, b *B) { b.LogSlots = P(1) }, false},
		{"LogSlots=LogN-1", func(r *R, b *B) { b.LogSlots = P(7) }, false},
		{"LogSlots=LogN", func(r *R, b *B) { b.LogSlots = P(8) }, true},
		{"LogSlots=64", func(r *R, b *B) { b.LogSlots = P(64) }, true},
		{"LogSlots=nil", func(r *R, b *B) { b.LogSlots = nil }, false},
		// ephemeral secret
		{"EphemeralSecretWeight=-1", func(r *R, b *B) { b.EphemeralSecretWeight = P(-1) }, true},
		{"EphemeralSecretWeight=0", func(r *R, b *B) { b.EphemeralSecretWeight = P(0) }, false},
		{"EphemeralSecretWeight=1", func(r *R, b *B) { b.EphemeralSecretWeight = P(1) }, false},
		{"EphemeralSecretWeight=N", func(r *R, b *B) { b.EphemeralSecretWeight = P(256) }, false},
		{"EphemeralSecretWeight=N+1", func(r *R, b *B) { b.EphemeralSecretWeight = P(257) }, false},
		// iterations
		{"Iterations-empty-list", func(r *R, b *B) { b.IterationsParameters = it(nil, 0) }, true},
		{"Iterations-precision-0", func(r *R, b *B) { b.IterationsParameters = it([]float64{0}, 28) }, true},
		{"Iterations-precision-negative", func(r *R, b *B) { b.IterationsParameters = it([]float64{-5}, 28) }, false},
		{"Iterations-precision-NaN", func(r *R, b *B) { b.IterationsParameters = it([]float64{math.NaN()}, 28) }, false},
		{"Iterations-precision-1000", func(r *R, b *B) { b.IterationsParameters = it([]float64{1000}, 28) }, false},
		{"Iterations-reserved=61", func(r *R, b *B) { b.IterationsParameters = it([]float64{20}, 61) }, false},
		{"Iterations-reserved=62", func(r *R, b *B) { b.IterationsParameters = it([]float64{20}, 62) }, true},
		{"Iterations-reserved=-1", func(r *R, b *B) { b.IterationsParameters = it([]float64{20}, -1) }, false},
		{"Iterations-reserved=1", func(r *R, b *B) { b.IterationsParameters = it([]float64{20}, 1) }, false},
		// mod1 fields
		{"EvalModLogScale=-1", func(r *R, b *B) { b.EvalModLogScale = P(-1) }, true},
		{"EvalModLogScale=0", func(r *R, b *B) { b.EvalModLogScale = P(0) }, false},
		{"EvalModLogScale=61", func(r *R, b *B) { b.EvalModLogScale = P(61) }, true},
		{"LogMessageRatio=-1", func(r *R, b *B) { b.LogMessageRatio = P(-1) }, true},
		{"LogMessageRatio=0", func(r *R, b *B) { b.LogMessageRatio = P(0) }, false},
		{"LogMessageRatio=64#LogMessageRatio>=64", func(r *R, b *B) { b.LogMessageRatio = P(64) }, false},
		{"LogMessageRatio=70#LogMessageRatio>=64", func(r *R, b *B) { b.LogMessageRatio = P(70) }, false},
		{"K=-1", func(r *R, b *B) { b.K = P(-1) }, true},
		{"K=0", func(r *R, b *B) { b.K = P(0) }, false},
		{"K=1", func(r *R, b *B) { b.K = P(1) }, false},
		{"K=1000(degree-too-small)", func(r *R, b *B) { b.K = P(1000) }, false},
		{"Mod1Degree=-1", func(r *R, b *B) { b.Mod1Degree = P(-1) }, true},
		{"Mod1Degree=0", func(r *R, b *B) { b.Mod1Degree = P(0) }, false},
		{"Mod1Degree=1", func(r *R, b *B) { b.Mod1Degree = P(1); b.Mod1Type = mod1.SinContinuous }, false},
		{"DoubleAngle=-1", func(r *R, b *B) { b.DoubleAngle = P(-1) }, true},
		{"DoubleAngle=8", func(r *R, b *B) { b.DoubleAngle = P(8) }, false},
		{"DoubleAngle-with-Sin", func(r *R, b *B) { b.DoubleAngle = P(2); b.Mod1Type = mod1.SinContinuous }, false},
		{"Mod1InvDegree=-1", func(r *R, b *B) { b.Mod1InvDegree = P(-1) }, true},
		{"Mod1InvDegree=1", func(r *R, b *B) { b.Mod1InvDegree = P(1) }, false},
		{"Mod1InvDegree=2(even)", func(r *R, b *B) { b.Mod1InvDegree = P(2) }, false},
		{"Mod1Type=7", func(r *R, b *B) { b.Mod1Type = mod1.Type(7) }, false},
		// DFT splits
		{"C2S-depth>LogSlots", func(r *R, b *B) { b.CoeffsToSlotsFactorizationDepthAndLogScales = [][]int{{56}, {56}, {56}, {56}} }, true},
		{"S2C-depth>LogSlots", func(r *R, b *B) { b.SlotsToCoeffsFactorizationDepthAndLogScales = [][]int{{39}, {39}, {39}, {39}} }, true},
		{"S2C-empty", func(r *R, b *B) { b.SlotsToCoeffsFactorizationDepthAndLogScales = [][]int{} }, false},
		{"S2C-empty-level", func(r *R, b *B) { b.SlotsToCoeffsFactorizationDepthAndLogScales = [][]int{{}, {39}} }, false},
		{"S2C-scale-0", func(r *R, b *B) { b.SlotsToCoeffsFactorizationDepthAndLogScales = [][]int{{0}} }, false},
		{"C2S-empty", func(r *R, b *B) { b.CoeffsToSlotsFactorizationDepthAndLogScales = [][]int{} }, false},
		{"C2S-empty-level", func(r *R, b *B) { b.CoeffsToSlotsFactorizationDepthAndLogScales = [][]int{{}, {56}} }, false},
		{"C2S-scale-0", func(r *R, b *B) { b.CoeffsToSlotsFactorizationDepthAndLogScales = [][]int{{0}} }, false},
		{"C2S-scale-62", func(r *R, b *B) { b.CoeffsToSlotsFactorizationDepthAndLogScales = [][]int{{62}} }, false},
		{"C2S-scale-negative", func(r *R, b *B) { b.CoeffsToSlotsFactorizationDepthAndLogScales = [][]int{{-5}} }, false},
		// auxiliary primes
		{"LogP-empty", func(r *R, b *B) { b.LogP = []int{} }, false},
		{"LogP-nil(default)", func(r *R, b *B) { b.LogP = nil }, false},
		{"LogP-0", func(r *R, b *B) { b.LogP = []int{0} }, false},
		{"LogP-62", func(r *R, b *B) { b.LogP = []int{62} }, false},
		{"LogP-three", func(r *R, b *B) { b.LogP = []int{61, 61, 61} }, false},
		// distributions of the bootstrapping ring (used for the fresh secret of a ring-degree switch)
		{"Xs-H=N+1", func(r *R, b *B) { b.Xs = ring.Ternary{H: 257} }, false},
		{"Xs-uniform", func(r *R, b *B) { b.Xs = ring.Uniform{} }, false},
	}
}

func btpScenario(k btpCase) engine.Scenario {
	class := k.name
	if i := strings.Index(k.name, "#"); i >= 0 {
		k.name, class = k.name[:i], k.name[i+1:]
	}
	name := "accept/btp/" + k.name
	return engine.Scenario{Name: name, Bound: -1, Fn: func(c *engine.Chooser) {
		uni.Seed(c, name)
		resLit := ckks.ParametersLiteral{LogN: 7, LogNthRoot: 9, LogQ: []int{60, 40}, LogP: []int{61}, LogDefaultScale: 40, Xs: ring.Ternary{H: 32}}
		b := bootstrapping.ParametersLiteral{LogN: utils.Pointy(8), LogSlots: utils.Pointy(3), LogP: []int{61}, LogMessageRatio: utils.Pointy(16), Xs: ring.Ternary{H: 32}}
		k.mut(&resLit, &b)
		res, err := ckks.NewParametersFromLiteral(resLit)
		if err != nil {
			panic("harness: residual literal rejected: " + err.Error())
		}
		c.Cover("btp", k.name)
		tag := fmt.Sprintf("%s: %s", k.name, describeBtp(b))
		var bp bootstrapping.Parameters
		r := guarded(name, func() (err error) {
			bp, err = bootstrapping.NewParametersFromLiteral(res, b)
			return
		})
		c.Logf("%s -> %v", tag, r)
		switch {
		case r.hung:
			c.Fail("C19/accept/btp/constructor-hang@"+class, "%s: %v", tag, r)
			return
		case r.panicked != nil:
			c.Fail("C19/accept/btp/constructor-panic@"+class, "%s: %v", tag, r)
			return
		case r.err != nil:
			c.Cover("rejected", "accept/btp")
			c.Outcome(name, "rejected")
			return
		}
		c.Cover("accepted", "accept/btp")
		if k.bad {
			c.Fail("C19/accept/btp/accepted@"+class, "%s: accepted although the literal's documentation declares the value invalid", tag)
			return
		}
		// an accepted parameter object must survive its own encoding (MarshalBinary is JSON) as an Equal object
		rt := guarded(name+"|codec", func() error {
			data, err := bp.MarshalBinary()
			if err != nil {
				return fmt.Errorf("MarshalBinary: %w", err)
			}
			var back bootstrapping.Parameters
			if err := back.UnmarshalBinary(data); err != nil {
				return fmt.Errorf("UnmarshalBinary(MarshalBinary(p)): %w", err)
			}
			if !bp.Equal(&back) || !back.Equal(&bp) {
				return fmt.Errorf("UnmarshalBinary(MarshalBinary(p)) is not Equal to p")
			}
			return nil
		})
		if strings.Contains(class, "NaN") {
			rt = callResult{} // NaN has no JSON representation: nothing to demand of the codec
		}
		if rt.hung || rt.panicked != nil || rt.err != nil {
			c.Fail("C19/roundtrip/bootstrapping.Parameters@"+class, "%s: %v", tag, rt)
		}
		var outcome string
		s := guarded(name+"|keys", func() error {
			sk := rlwe.NewKeyGenerator(res).GenSecretKeyNew()
			evk, _, err := bp.GenEvaluationKeys(sk)
			if err != nil {
				outcome = "keys: " + err.Error()
				return nil
			}
			eval, err := bootstrapping.NewEvaluator(bp, evk)
			if err != nil {
				outcome = "evaluator refused: " + err.Error()
				return nil
			}
			outcome = "evaluator built"
			if k.name != "ordinary" {
				return nil
			}
			// the ordinary literal must work end to end (sanity of the family itself)
			ecd := ckks.NewEncoder(res)
			pt := ckks.NewPlaintext(res, 0)
			pt.LogDimensions.Cols = 3
			v := []complex128{0.5, -0.25i, 0.75 - 0.5i, -1, 1i, 0.125, -0.375 + 0.25i, 0.9}
			if err := ecd.Encode(v, pt); err != nil {
				return err
			}
			ct, err := rlwe.NewEncryptor(res, sk).EncryptNew(pt)
			if err != nil {
				return err
			}
			out, err := eval.Bootstrap(ct)
			if err != nil {
				return err
			}
			got := make([]complex128, 8)
			if err := ecd.Decode(rlwe.NewDecryptor(res, sk).DecryptNew(out), got); err != nil {
				return err
			}
			for i := range v {
				if d := math.Max(math.Abs(real(got[i])-real(v[i])), math.Abs(imag(got[i])-imag(v[i]))); d > 1.0/1024 {
					return fmt.Errorf("slot %d: %v, want %v", i, got[i], v[i])
				}
			}
			outcome = "bootstrapped"
			return nil
		})
		switch {
		case s.hung:
			c.Fail("C19/accept/btp/hang-after-acceptance@"+class, "%s: accepted, then key generation / evaluator construction did not return: %v", tag, s)
		case s.panicked != nil:
			c.Fail("C19/accept/btp/panic-after-acceptance@"+class, "%s: accepted, then %v", tag, s)
		case s.err != nil:
			c.Fail("C19/accept/btp/ordinary-literal-does-not-bootstrap", "%s: %v", tag, s.err)
		}
		c.Outcome(name, "accepted", outcome)
		c.Note("%s: %s", tag, outcome)
	}}
}

func describeBtp(b bootstrapping.ParametersLiteral) string {
	v := reflect.ValueOf(b)
	s := ""
	for i := 0; i < v.NumField(); i++ {
		f := v.Field(i)
		if f.Kind() == reflect.Ptr || f.Kind() == reflect.Slice || f.Kind() == reflect.Interface {
			if f.IsNil() {
				continue
			}
		}
		val := f.Interface()
		if f.Kind() == reflect.Ptr {
			val = f.Elem().Interface()
		}
		s += fmt.Sprintf("%s=%v ", v.Type().Field(i).Name, val)
	}
	return s
}

func btpScenarios(tier string) []engine.Scenario {
	var scs []engine.Scenario
	for _, k := range btpCases() {
		scs = append(scs, btpScenario(k))
	}
	return scs
}
