package main

import (
	_ "embed"
	"encoding/json"
	"fmt"
	"math"
	"os"
	"path/filepath"
	"regexp"
	"sort"
	"strconv"
	"strings"

	"github.com/tuneinsight/lattigo/v6/circuits/ckks/bootstrapping"
	"github.com/tuneinsight/lattigo/v6/core/rlwe"
	"github.com/tuneinsight/lattigo/v6/examples"
	"github.com/tuneinsight/lattigo/v6/ring"
	"github.com/tuneinsight/lattigo/v6/schemes/bgv"
	"github.com/tuneinsight/lattigo/v6/schemes/ckks"
	"github.com/tuneinsight/lattigo/v6/utils"

	"verif/engine"
	"verif/ref"
)

// Item 4 — every exported example / default parameter literal against the 128-bit table.

//go:embed security128.json
var security128JSON []byte

type secRow struct {
	LogN     int     `json:"logN"`
	Class    string  `json:"class"`    // "ternary" (uniform/dense ternary, the HE-standard class), "H192", "H32"
	MaxLogQP float64 `json:"maxLogQP"` // largest log2(QP) for 128-bit security
	Source   string  `json:"source"`
	Kind     string  `json:"kind"` // "standard" | "repo-statement" | "largest-shipped" (regression guard only, no independent bound available)
}

var secTable = func() []secRow {
	var t struct {
		Rows []secRow `json:"rows"`
	}
	if err := json.Unmarshal(security128JSON, &t); err != nil {
		panic("security128.json: " + err.Error())
	}
	return t.Rows
}()

func secLookup(logN int, class string) (secRow, bool) {
	for _, r := range secTable {
		if r.LogN == logN && r.Class == class {
			return r, true
		}
	}
	return secRow{}, false
}

// secretClass maps a secret distribution to a table class. A fixed-weight ternary secret of weight >= N/4 and the
// probabilistic ternary secrets count as the standard's "ternary" class (uniform ternary has density 2/3; Lattigo's
// default is N/2 non-zero coefficients).
func secretClass(xs ring.DistributionParameters, logN int) string {
	switch x := xs.(type) {
	case nil:
		return "ternary"
	case ring.Ternary:
		switch {
		case x.H == 0:
			return "ternary"
		case x.H >= 1<<(logN-2):
			return "ternary"
		default:
			return fmt.Sprintf("H%d", x.H)
		}
	}
	return "other"
}

// shipped is one exported parameter literal, reached by direct reference.
type shipped struct {
	name string // <package>.<identifier>
	file string // source file, relative to the repository root
	sch  scheme
	rl   rlwe.ParametersLiteral
	btp  *bootstrapping.ParametersLiteral // non-nil for bootstrapping default sets: QP is that of the bootstrapping parameters
	res  ckks.ParametersLiteral
	doc  []float64 // numbers claimed in the doc comment (collected by the source scan)
}

func fromCKKS(l ckks.ParametersLiteral) rlwe.ParametersLiteral {
	return rlwe.ParametersLiteral{LogN: l.LogN, LogNthRoot: l.LogNthRoot, Q: l.Q, P: l.P, LogQ: l.LogQ, LogP: l.LogP, Xs: l.Xs, Xe: l.Xe, RingType: l.RingType}
}

func fromBGV(l bgv.ParametersLiteral) rlwe.ParametersLiteral {
	return rlwe.ParametersLiteral{LogN: l.LogN, LogNthRoot: l.LogNthRoot, Q: l.Q, P: l.P, LogQ: l.LogQ, LogP: l.LogP, Xs: l.Xs, Xe: l.Xe}
}

// directReferences: the compiled values of every exported literal. The source scan below fails the check when the
// repository exports a literal that is missing here, so a newly added set cannot go unjudged.
func directReferences() []shipped {
	r := []shipped{
		{name: "rlwe.ExampleParametersLogN14LogQP438", file: "core/rlwe/example_parameters.go", sch: sRLWE, rl: rlwe.ExampleParametersLogN14LogQP438},
		{name: "bgv.ExampleParameters128BitLogN14LogQP438", file: "schemes/bgv/examples_parameters.go", sch: sBGV, rl: fromBGV(bgv.ExampleParameters128BitLogN14LogQP438)},
		{name: "ckks.ExampleParameters128BitLogN14LogQP438", file: "schemes/ckks/example_parameters.go", sch: sCKKS, rl: fromCKKS(ckks.ExampleParameters128BitLogN14LogQP438)},
	}
	ex := "examples/params.go"
	for n, l := range map[string]bgv.ParametersLiteral{
		"BGVParamsN12QP109": examples.BGVParamsN12QP109, "BGVParamsN13QP218": examples.BGVParamsN13QP218,
		"BGVParamsN14QP438": examples.BGVParamsN14QP438, "BGVParamsN15QP880": examples.BGVParamsN15QP880,
		"BGVScaleInvariantParamsN12QP109": examples.BGVScaleInvariantParamsN12QP109, "BGVScaleInvariantParamsN13QP218": examples.BGVScaleInvariantParamsN13QP218,
		"BGVScaleInvariantParamsN14QP438": examples.BGVScaleInvariantParamsN14QP438, "BGVScaleInvariantParamsN15QP880": examples.BGVScaleInvariantParamsN15QP880,
	} {
		r = append(r, shipped{name: "examples." + n, file: ex, sch: sBGV, rl: fromBGV(l)})
	}
	for n, l := range map[string]ckks.ParametersLiteral{
		"CKKSComplexParamsN12QP109": examples.CKKSComplexParamsN12QP109, "CKKSComplexParamsN13QP218": examples.CKKSComplexParamsN13QP218,
		"CKKSComplexParamsN14QP438": examples.CKKSComplexParamsN14QP438, "CKKSComplexParamsN15QP881": examples.CKKSComplexParamsN15QP881,
		"CKKSComplexParamsPN16QP1761": examples.CKKSComplexParamsPN16QP1761,
		"CKKSRealParamsN12QP109":      examples.CKKSRealParamsN12QP109, "CKKSRealParamsN13QP218": examples.CKKSRealParamsN13QP218,
		"CKKSRealParamsN14QP438": examples.CKKSRealParamsN14QP438, "CKKSRealParamsN15QP881": examples.CKKSRealParamsN15QP881,
		"CKKSRealParamsPN16QP1761": examples.CKKSRealParamsPN16QP1761,
	} {
		r = append(r, shipped{name: "examples." + n, file: ex, sch: sCKKS, rl: fromCKKS(l)})
	}
	bf := "circuits/ckks/bootstrapping/default_parameters.go"
	add := func(n string, s ckks.ParametersLiteral, b bootstrapping.ParametersLiteral) {
		r = append(r, shipped{name: "bootstrapping." + n, file: bf, sch: sCKKS, rl: fromCKKS(s), btp: &b, res: s})
	}
	add("N16QP1546H192H32", bootstrapping.N16QP1546H192H32.SchemeParams, bootstrapping.N16QP1546H192H32.BootstrappingParams)
	add("N16QP1547H192H32", bootstrapping.N16QP1547H192H32.SchemeParams, bootstrapping.N16QP1547H192H32.BootstrappingParams)
	add("N16QP1553H192H32", bootstrapping.N16QP1553H192H32.SchemeParams, bootstrapping.N16QP1553H192H32.BootstrappingParams)
	add("N15QP768H192H32", bootstrapping.N15QP768H192H32.SchemeParams, bootstrapping.N15QP768H192H32.BootstrappingParams)
	add("N16QP1767H32768H32", bootstrapping.N16QP1767H32768H32.SchemeParams, bootstrapping.N16QP1767H32768H32.BootstrappingParams)
	add("N16QP1788H32768H32", bootstrapping.N16QP1788H32768H32.SchemeParams, bootstrapping.N16QP1788H32768H32.BootstrappingParams)
	add("N16QP1793H32768H32", bootstrapping.N16QP1793H32768H32.SchemeParams, bootstrapping.N16QP1793H32768H32.BootstrappingParams)
	add("N15QP880H16384H32", bootstrapping.N15QP880H16384H32.SchemeParams, bootstrapping.N15QP880H16384H32.BootstrappingParams)
	sort.Slice(r, func(i, j int) bool { return r[i].name < r[j].name })
	return r
}

func repoRoot() string {
	if d := os.Getenv("VERIF_REPO"); d != "" {
		return d
	}
	return "/repo"
}

// the files that export parameter literals (anchors of the property); a literal exported from another non-test file of
// these packages is found by the directory scan below as well
var scanDirs = []string{"core/rlwe", "schemes/bgv", "schemes/ckks", "circuits/ckks/bootstrapping", "examples"}

var declRE = regexp.MustCompile(`(?m)^\s*([A-Z]\w*)\s*=\s*(?:\w+\.)?(ParametersLiteral|defaultParametersLiteral)\s*\{`)

// scanExported returns package.identifier -> doc comment of every exported parameter literal found in the sources.
func scanExported() (map[string]string, error) {
	found := map[string]string{}
	for _, d := range scanDirs {
		files, err := filepath.Glob(filepath.Join(repoRoot(), d, "*.go"))
		if err != nil {
			return nil, err
		}
		for _, f := range files {
			if strings.HasSuffix(f, "_test.go") {
				continue
			}
			b, err := os.ReadFile(f)
			if err != nil {
				return nil, err
			}
			src := string(b)
			pkg := regexp.MustCompile(`(?m)^package (\w+)`).FindStringSubmatch(src)
			if pkg == nil || pkg[1] == "main" {
				continue
			}
			for _, m := range declRE.FindAllStringSubmatchIndex(src, -1) {
				name := src[m[2]:m[3]]
				// doc comment: the // lines immediately above the declaration
				lines := strings.Split(src[:m[0]], "\n")
				var doc []string
				for i := len(lines) - 1; i >= 0; i-- {
					l := strings.TrimSpace(lines[i])
					if l == "" && len(doc) == 0 {
						continue
					}
					if !strings.HasPrefix(l, "//") {
						break
					}
					doc = append([]string{l}, doc...)
				}
				found[pkg[1]+"."+name] = strings.Join(doc, "\n")
			}
		}
	}
	return found, nil
}

var (
	identQP = regexp.MustCompile(`(?:LogQP|QP)(\d{2,4})`)
	docQP   = regexp.MustCompile(`(?i)logQP\s*=?\s*~?\s*(\d{2,4})`)
)

// exactLogQP computes log2(QP) with math/big from the literal: explicit primes as given, bit-size requests through
// the library's own prime generation (GenModuli; no ring is built).
func exactLogQP(l rlwe.ParametersLiteral) (float64, []uint64, error) {
	q, p := l.Q, l.P
	if l.LogQ != nil || l.LogP != nil {
		root := utils.Max(l.LogN+1, l.LogNthRoot)
		if l.RingType == ring.ConjugateInvariant {
			root = utils.Max(l.LogN+2, l.LogNthRoot)
		}
		gq, gp, err := rlwe.GenModuli(root, l.LogQ, l.LogP)
		if err != nil {
			return 0, nil, err
		}
		if gq != nil {
			q = gq
		}
		if gp != nil {
			p = gp
		}
	}
	all := append(append([]uint64{}, q...), p...)
	return log2Big(ref.Prod(all)), all, nil
}

func securityScenario(s shipped, docs map[string]string) engine.Scenario {
	name := "security/" + s.name
	return engine.Scenario{Name: name, Bound: -1, Fn: func(c *engine.Chooser) {
		c.Cover("security", "set")
		logN := s.rl.LogN
		xs := s.rl.Xs
		var logQP float64
		var moduli []uint64
		var err error
		if s.btp != nil {
			// bootstrapping default sets: the identifier's QP is that of the *bootstrapping* parameters (residual
			// chain + circuit primes + auxiliary primes), instantiated at the real ring degree
			// The shipped literals leave BootstrappingParams.LogN unset (default 16) also for the N15 sets; they are
			// instantiated the way the library's own tests do it: bootstrapping ring = the scheme literal's ring.
			// The secret class is that of the scheme literal: with equal ring degrees GenEvaluationKeys extends the
			// user's secret to the bootstrapping modulus (the literal's own Xs only matters for a ring-degree switch).
			var res ckks.Parameters
			if res, err = ckks.NewParametersFromLiteral(s.res); err == nil {
				var bp bootstrapping.Parameters
				bl := *s.btp
				if bl.LogN == nil {
					bl.LogN = utils.Pointy(s.res.LogN)
				}
				if bp, err = bootstrapping.NewParametersFromLiteral(res, bl); err == nil {
					moduli = bp.BootstrappingParameters.QP()
					logQP = log2Big(ref.Prod(moduli))
					logN = bp.BootstrappingParameters.LogN()
					// the encapsulation key lives modulo Q[0]·P[0] under the ephemeral secret
					if bp.EphemeralSecretWeight > 0 {
						ql := bp.BootstrappingParameters.Q()
						pl := bp.BootstrappingParameters.P()
						eph := log2Big(ref.Prod([]uint64{ql[0], pl[0]}))
						cls := fmt.Sprintf("H%d", bp.EphemeralSecretWeight)
						if row, ok := secLookup(logN, cls); ok {
							c.Cover("security", "class="+cls)
							if eph > row.MaxLogQP+0.5 {
								c.Fail("C19/security/ephemeral-key-modulus-above-128-bit-bound", "%s: log2(Q0·P0) = %.2f > %.0f for LogN=%d %s (%s)", s.name, eph, row.MaxLogQP, logN, cls, row.Source)
							}
						} else {
							c.Cover("security", "no-bound-for-class")
							c.Note("%s: ephemeral key modulus 2^%.2f at LogN=%d, class %s: no bound in security128.json", s.name, eph, logN, cls)
						}
					}
				}
			}
		} else {
			logQP, moduli, err = exactLogQP(s.rl)
		}
		if err != nil {
			c.Fail("C19/security/shipped-literal-rejected", "%s: %v", s.name, err)
			return
		}
		_ = moduli
		c.Note("%s: LogN=%d log2(QP)=%.3f secret=%s", s.name, logN, logQP, secretClass(xs, logN))
		c.Outcome(s.name, int(logQP))

		// (a) the number embedded in the identifier / stated in the doc comment
		var claims []float64
		for _, m := range identQP.FindAllStringSubmatch(s.name, -1) {
			v, _ := strconv.ParseFloat(m[1], 64)
			claims = append(claims, v)
		}
		for _, m := range docQP.FindAllStringSubmatch(docs[s.name], -1) {
			v, _ := strconv.ParseFloat(m[1], 64)
			claims = append(claims, v)
		}
		if len(claims) == 0 {
			c.Cover("security", "no-claim-in-name-or-doc")
		} else {
			c.Cover("security", "claim-checked")
			okClaim := false
			for _, v := range claims {
				if math.Abs(v-logQP) <= 1.0 {
					okClaim = true
				}
			}
			if !okClaim {
				c.Fail("C19/security/logQP-differs-from-name-and-doc@"+s.name, "%s: exact log2(QP) = %.2f, identifier/doc say %v (more than 1 bit off)", s.name, logQP, claims)
			}
		}

		// (b) the table
		cls := secretClass(xs, logN)
		row, ok := secLookup(logN, cls)
		if !ok {
			c.Cover("security", "no-bound-for-class")
			c.Note("%s: no bound for (LogN=%d, %s) in security128.json: not judged", s.name, logN, cls)
			return
		}
		c.Cover("security", "kind="+row.Kind)
		// the table entries are integers obtained by rounding; a set is within the bound when its exact log2(QP),
		// rounded to the nearest integer, does not exceed it
		if math.Round(logQP) > row.MaxLogQP {
			c.Fail("C19/security/logQP-above-128-bit-bound@"+s.name, "%s: log2(QP) = %.2f > %.0f, the bound for LogN=%d / %s secret (%s)", s.name, logQP, row.MaxLogQP, logN, cls, row.Source)
		}
	}}
}

// catalogueScenario: the source scan and the direct references must list the same literals.
func catalogueScenario(refs []shipped, docs map[string]string, scanErr error) engine.Scenario {
	return engine.Scenario{Name: "security/catalogue-complete", Bound: -1, Fn: func(c *engine.Chooser) {
		if scanErr != nil {
			panic("harness: source scan: " + scanErr.Error())
		}
		have := map[string]bool{}
		for _, s := range refs {
			have[s.name] = true
			if _, ok := docs[s.name]; !ok {
				c.Fail("C19/security/referenced-literal-not-found-in-sources", "%s is referenced by the check but the scan of %v did not find its declaration", s.name, scanDirs)
			}
		}
		var names []string
		for n := range docs {
			names = append(names, n)
		}
		sort.Strings(names)
		for _, n := range names {
			if !have[n] {
				c.Fail("C19/security/exported-literal-not-judged", "%s is an exported parameter literal of the repository that checks/c19/security.go does not reference: add it to directReferences()", n)
			}
		}
		c.Cover("security", "catalogue")
		c.Count(len(names))
		c.Outcome("catalogue", len(names))
	}}
}

func securityScenarios(tier string) []engine.Scenario {
	refs := directReferences()
	docs, err := scanExported()
	scs := []engine.Scenario{catalogueScenario(refs, docs, err)}
	for _, s := range refs {
		scs = append(scs, securityScenario(s, docs))
	}
	return scs
}
