package main

import "verif/engine"

func ckksScenarios(tier string) []engine.Scenario { return nil }

func expect(tier string) []string { return nil }
