package main

import (
	"fmt"
	"math"
	"math/big"

	"github.com/tuneinsight/lattigo/v6/core/rlwe"
	"github.com/tuneinsight/lattigo/v6/ring"
	"github.com/tuneinsight/lattigo/v6/ring/ringqp"
	"github.com/tuneinsight/lattigo/v6/schemes/ckks"
	"github.com/tuneinsight/lattigo/v6/utils/bignum"

	"verif/engine"
	"verif/ref"
	"verif/uni"
)

// ---------------------------------------------------------------------------------------------
// CKKS approximate encoder
//
// Error budget (derived, then multiplied by the safety factor 16):
//
//	encode: the encoder computes u = IFFT(v) in its working precision (float64: p = 53, else p = Prec()) and rounds
//	scale*u coefficient-wise to the nearest integer. A coefficient error e_k contributes at most sum_k |e_k| to a slot
//	(|zeta| = 1; 2n coefficients in the standard ring, weights 1,2,..,2 in the conjugate-invariant one), so
//	    rounding      <= 2n * (1/2) / scale = n/scale
//	    floating point: a radix-2 (I)FFT on n points has forward error <= 4*eps*log2(n)*max|v| per coefficient
//	                    (eps = 2^-p); we allow 8*(log2 n + 2) + 4 ulps per coefficient (twiddle errors, the
//	                    float conversion of scale and of the product), i.e. 2n*(8(log n+2)+4)*2^-p*max|v| per slot.
//	decode: d = FFT(a/scale): error <= (8(log n+2)+4)*2^-p * sum_k|a_k|/scale per slot, plus half an ulp of the output
//	type (2^-52 |z| for float64 / complex128 outputs).
//	DecodePublic(logprec): additionally |d - Decode| <= 2^-logprec / 2 and d * 2^logprec is an integer (up to 2^-p
//	relative, since the arbitrary-precision path computes 2^logprec with exp/log).
const safety = 16

type ckksConf struct {
	name     string
	logN     int
	rt       ring.Type
	logQ     []int
	logP     []int
	logScale int
	prec     uint // 0: the parameters' EncodingPrecision()
	extra    bool // secondary precision variant: one step shallower in the quick tier
}

func (cf ckksConf) String() string { return cf.name }

func ckksConfigs(tier string) []ckksConf {
	var r []ckksConf
	logNs := []int{4, 5, 6}
	if tier == "thorough" {
		logNs = append(logNs, 7) // n = 64 / 128 slots: the reference embedding is O(n^2) big.Float products
	}
	for _, logN := range logNs {
		for _, rt := range []ring.Type{ring.Standard, ring.ConjugateInvariant} {
			rn := map[ring.Type]string{ring.Standard: "std", ring.ConjugateInvariant: "ci"}[rt]
			add := func(tag string, logQ, logP []int, ls int, prec uint) {
				r = append(r, ckksConf{name: fmt.Sprintf("logn%d-%s-%s", logN, rn, tag), logN: logN, rt: rt, logQ: logQ, logP: logP, logScale: ls, prec: prec})
			}
			add("s45-prec53", []int{55, 45, 45}, []int{55}, 45, 0)
			add("s45-prec128", []int{55, 45, 45}, []int{55}, 45, 128)
			add("s80-prec80", []int{60, 60, 60, 60}, []int{60, 60}, 80, 0)
			add("s80-prec256", []int{60, 60, 60, 60}, []int{60, 60}, 80, 256)
			add("s80-prec53", []int{60, 60, 60, 60}, []int{60, 60}, 80, 53)
			r[len(r)-1].extra = true
			add("s45-prec64", []int{55, 45, 45}, []int{55}, 45, 64)
			r[len(r)-1].extra = true
		}
	}
	return r
}

type ckksWorld struct {
	cf   ckksConf
	p    ckks.Parameters
	ecd  *ckks.Encoder
	prec uint // working precision of the encoder
	N    int
	maxL int // max LogDimensions.Cols
	L    int

	poisonPt *rlwe.Plaintext
	poisonV  []complex128
	noPoison bool // obtained-scenario: the encoder under test is used exactly as it was obtained
}

var ckksWorlds = map[string]*ckksWorld{}

func getCkksWorld(cf ckksConf) *ckksWorld {
	if w, ok := ckksWorlds[cf.name]; ok {
		return w
	}
	p, err := ckks.NewParametersFromLiteral(ckks.ParametersLiteral{LogN: cf.logN, LogQ: cf.logQ, LogP: cf.logP, LogDefaultScale: cf.logScale, RingType: cf.rt})
	if err != nil {
		panic(fmt.Sprintf("ckks params %s: %v", cf.name, err))
	}
	w := &ckksWorld{cf: cf, p: p, N: p.N(), maxL: p.LogMaxDimensions().Cols, L: p.MaxLevel()}
	if cf.prec == 0 {
		w.ecd = ckks.NewEncoder(p)
	} else {
		w.ecd = ckks.NewEncoder(p, cf.prec)
	}
	w.prec = w.ecd.Prec()
	ckksWorlds[cf.name] = w
	return w
}

// poison puts the encoder's internal scratch buffers into a fixed, non-trivial state (the result of encoding a
// full vector of large distinct values on a scratch plaintext). The encoder is a stateful object; every leaf
// must be a function of its choice vector only (replays run in a fresh process), and an encoder that lets stale
// buffer content leak into a result then fails deterministically instead of depending on the exploration order.
func (w *ckksWorld) poison() {
	if w.noPoison {
		return
	}
	if w.poisonPt == nil {
		w.poisonPt = ckks.NewPlaintext(w.p, w.L)
		n := 1 << w.maxL
		w.poisonV = make([]complex128, n)
		for j := range w.poisonV {
			w.poisonV[j] = complex(float64(j+1)*3.25, -float64(j+2)*1.5)
		}
	}
	if err := w.ecd.Encode(w.poisonV, w.poisonPt); err != nil {
		panic(err)
	}
}

func (w *ckksWorld) precEff() int {
	if w.prec <= 53 {
		return 53
	}
	return int(w.prec)
}

func (w *ckksWorld) path() string {
	if w.prec <= 53 {
		return "float64"
	}
	return "arbitrary"
}

// element types
const (
	tyC128 = iota
	tyF64
	tyBigF
	tyBigC
)

var tyNames = []string{"[]complex128", "[]float64", "[]*big.Float", "[]*bignum.Complex"}

func isRealType(ty int) bool { return ty == tyF64 || ty == tyBigF }

// value families
const (
	famMixed = iota
	famUnits
	famZero
	famTiny
	famLarge
	famThreshold
)

var famNames = []string{"mixed", "units", "zero", "tiny", "large", "thresholds"}

// thresholds returns the magnitudes v for which v*scale sits just below and just above the sizes at which the
// fixed-point conversions change representation (2^31, 2^32 machine half-words, 2^53 float64 mantissa, 2^63 int64,
// 2^64 uint64: SingleFloat64ToFixedPointCRT switches to big.Float at 2^64, decoders may take single-word fast
// paths), plus one value just below Q/(2*scale), the top of the message space. Entries whose fixed-point image
// would not fit below Q/2 are left out. Every value is an exact float64.
func thresholds(scale *big.Float, Q *big.Int) (vals []float64, tags []string) {
	sf, _ := scale.Float64()
	top := new(big.Float).SetInt(Q)
	top.Quo(top, scale)
	topF, _ := top.Float64()
	topF *= 0.49
	for _, e := range []int{31, 32, 53, 63, 64} {
		for _, side := range []int{-1, 1} {
			x := (math.Exp2(float64(e)) + float64(side)*math.Exp2(float64(e-8))) / sf
			if x < topF && !math.IsInf(x, 0) {
				vals = append(vals, x)
				tags = append(tags, fmt.Sprintf("2^%d%+d", e, side))
			}
		}
	}
	if !math.IsInf(topF, 0) && topF > 0 {
		vals = append(vals, topF)
		tags = append(tags, "0.49*Q/scale")
	}
	return
}

// family returns ln exact values (as float64 pairs, hence representable in every element type).
func family(fam, ln int, scale *big.Float, Q *big.Int) ([]complex128, bool) {
	v := make([]complex128, ln)
	sf, _ := scale.Float64()
	switch fam {
	case famMixed:
		for j := range v {
			s := 1.0
			if j%2 == 1 {
				s = -1
			}
			v[j] = complex(s*float64(j+1)/8, float64(j+2)/16)
		}
	case famUnits:
		u := []complex128{1, -1, 1i, -1i, 0}
		for j := range v {
			v[j] = u[j%len(u)]
		}
	case famZero:
	case famTiny:
		for j := range v {
			s := 1.0
			if j%2 == 1 {
				s = -1
			}
			v[j] = complex(s*(0.4+float64(j))/sf, 0.6/sf)
		}
	case famThreshold:
		// one threshold magnitude per entry, signs alternating (exact per coefficient in the coefficient domain)
		th, _ := thresholds(scale, Q)
		if len(th) == 0 {
			return nil, false
		}
		for j := range v {
			s := 1.0
			if j%2 == 1 {
				s = -1
			}
			v[j] = complex(s*th[j%len(th)], 0)
		}
	case famLarge:
		// largest magnitude: Q/(4*scale) (coefficients of scale*IFFT(v) then stay below Q/4 in absolute value)
		m := new(big.Float).SetInt(Q)
		m.Quo(m, scale)
		mf, _ := m.Float64()
		mf *= 0.249
		if math.IsInf(mf, 0) || mf < 4 {
			return nil, false
		}
		u := []complex128{1, -1, 1i, -1i, complex(0.5, 0.5)}
		for j := range v {
			v[j] = u[j%len(u)] * complex(mf*float64(j%3+1)/3, 0)
		}
	}
	return v, true
}

func typedInput(ty int, v []complex128) interface{} {
	switch ty {
	case tyC128:
		return append([]complex128(nil), v...)
	case tyF64:
		r := make([]float64, len(v))
		for i := range v {
			r[i] = real(v[i])
		}
		return r
	case tyBigF:
		r := make([]*big.Float, len(v))
		for i := range v {
			r[i] = new(big.Float).SetPrec(256).SetFloat64(real(v[i]))
		}
		return r
	default:
		r := make([]*bignum.Complex, len(v))
		for i := range v {
			r[i] = &bignum.Complex{new(big.Float).SetPrec(256).SetFloat64(real(v[i])), new(big.Float).SetPrec(256).SetFloat64(imag(v[i]))}
		}
		return r
	}
}

// expectedSlots: what the n slots must hold: the values (real part only for real element types and for the
// conjugate-invariant ring, whose doc says the imaginary part is discarded), zero beyond len(v).
func expectedSlots(v []complex128, n, ty int, rt ring.Type) []cplx {
	out := make([]cplx, n)
	for j := range out {
		out[j] = cNew()
		if j < len(v) {
			out[j].re.SetFloat64(real(v[j]))
			if !isRealType(ty) && rt == ring.Standard {
				out[j].im.SetFloat64(imag(v[j]))
			}
		}
	}
	return out
}

// slotsOf returns the exact slot values of a plaintext polynomial (coefficients recovered from the RNS residues
// by CRT, centred), divided by scale; offGrid reports non-zero coefficients outside Z[X^gap]; sumAbs = sum |a_k|/scale.
func (w *ckksWorld) slotsOf(poly ring.Poly, level int, isNTT, isMont bool, logSlots int, scale *big.Float) (z []cplx, offGrid bool, sumAbs *big.Float) {
	n := 1 << logSlots
	cs := uni.PolyCoeffs(w.p.RingQ(), poly, level, isNTT, isMont)
	Q := uni.QAtLevel(w.p.Parameters, level)
	nc := 2 * n
	if w.cf.rt == ring.ConjugateInvariant {
		nc = n
	}
	gap := w.N / nc
	a := make([]*big.Float, nc)
	sumAbs = newF()
	for k, c := range cs {
		v := ref.Center(c, Q)
		if k%gap != 0 {
			if v.Sign() != 0 {
				offGrid = true
			}
			continue
		}
		f := newF().SetInt(v)
		f.Quo(f, scale)
		a[k/gap] = f
		sumAbs.Add(sumAbs, newF().Abs(f))
	}
	if w.cf.rt == ring.ConjugateInvariant {
		// weights 1,2,...,2 of the basis 1, Y^k+Y^-k
		sumAbs.Mul(sumAbs, newF().SetInt64(2))
		return embedConjInv(a, n), offGrid, sumAbs
	}
	return embedStandard(a, n), offGrid, sumAbs
}

func (w *ckksWorld) ulps(logSlots int) *big.Float {
	// (8(log n + 2) + 4) * 2^-p
	u := newF().SetInt64(int64(8*(logSlots+2) + 4))
	return u.Mul(u, pow2(-w.precEff()))
}

// encTol: 16 * (n/scale + 2n * ulps * max|v|)
func (w *ckksWorld) encTol(logSlots int, scale, maxv *big.Float) *big.Float {
	n := newF().SetInt64(int64(1) << logSlots)
	a := newF().Quo(n, scale)
	b := newF().Mul(w.ulps(logSlots), maxv)
	b.Mul(b, n).Mul(b, newF().SetInt64(2))
	a.Add(a, b)
	return a.Mul(a, newF().SetInt64(safety))
}

// decTol: 16 * (ulps * sum|a_k|/scale + 2^-52 |z| for float outputs)
func (w *ckksWorld) decTol(logSlots int, sumAbs, absZ *big.Float, floatOut bool) *big.Float {
	a := newF().Mul(w.ulps(logSlots), sumAbs)
	if floatOut || w.prec <= 53 {
		a.Add(a, newF().Mul(absZ, pow2(-52)))
	}
	return a.Mul(a, newF().SetInt64(safety))
}

// readOutput converts a decoded slice to exact pairs.
func readOutput(out interface{}, n int) ([]cplx, string) {
	r := make([]cplx, n)
	switch o := out.(type) {
	case []complex128:
		for j := 0; j < n; j++ {
			if math.IsNaN(real(o[j])) || math.IsNaN(imag(o[j])) || math.IsInf(real(o[j]), 0) || math.IsInf(imag(o[j]), 0) {
				return nil, fmt.Sprintf("slot %d is %v", j, o[j])
			}
			r[j] = cplx{fFrom(real(o[j])), fFrom(imag(o[j]))}
		}
	case []float64:
		for j := 0; j < n; j++ {
			if math.IsNaN(o[j]) || math.IsInf(o[j], 0) {
				return nil, fmt.Sprintf("slot %d is %v", j, o[j])
			}
			r[j] = cplx{fFrom(o[j]), newF()}
		}
	case []*big.Float:
		for j := 0; j < n; j++ {
			if o[j] == nil {
				return nil, fmt.Sprintf("slot %d is nil", j)
			}
			r[j] = cplx{newF().Set(o[j]), newF()}
		}
	case []*bignum.Complex:
		for j := 0; j < n; j++ {
			if o[j] == nil || o[j][0] == nil {
				return nil, fmt.Sprintf("slot %d is nil", j)
			}
			// the coefficient-domain decoder leaves the imaginary part nil: read as zero (noted in FINDINGS.md as an
			// observation, not judged: the statement speaks about values)
			r[j] = cplx{newF().Set(o[j][0]), newF()}
			if o[j][1] != nil {
				r[j].im.Set(o[j][1])
			}
		}
	}
	return r, ""
}

func newOutput(ty, n int) interface{} {
	switch ty {
	case tyC128:
		return make([]complex128, n)
	case tyF64:
		return make([]float64, n)
	case tyBigF:
		return make([]*big.Float, n)
	default:
		return make([]*bignum.Complex, n)
	}
}

type ckksSpec struct {
	logSlots int
	level    int
	scale    *big.Float
	scaleTag string
	ntt      bool
	inTy     int
	fam      int
	ln       int
	thr      int        // famThreshold in the slot domain: index into thresholds()
	thrDir   complex128 // ... and the direction (1, -1, i, -i) of the constant vector
	nilEvery int        // > 0: entries j with j % nilEvery == 1 of a []*big.Float / []*bignum.Complex input are nil (read as zero)
}

func (s ckksSpec) String() string {
	return fmt.Sprintf("logSlots=%d level=%d scale=%s ntt=%v in=%s values=%s len=%d", s.logSlots, s.level, s.scaleTag, s.ntt, tyNames[s.inTy], famNames[s.fam], s.ln)
}

func dirty(p ring.Poly, qs []uint64) {
	for i := range p.Coeffs {
		for j := range p.Coeffs[i] {
			p.Coeffs[i][j] = uint64(12345+7*i+3*j) % qs[i]
		}
	}
}

// knownClass maps configurations on which a triaged finding sits to that finding's own signature, so that it
// neither hides other violations of the same scenario nor gets confused with them.
func (w *ckksWorld) knownClass(s ckksSpec) string {
	// The five classes that carried findings (sparse packing with IsNTT=false, single slot in the conjugate-invariant
	// ring, arbitrary precision with IsNTT=false, arbitrary-precision decoding in the conjugate-invariant ring,
	// coefficient domain with IsNTT=false) were repaired in /repo (checks/c07/fixes F3-F8): no class is masked any more.
	return ""
}

// roundTrip runs encode -> exact embedding -> decode (all output types, plain and public) for one spec.
func (w *ckksWorld) roundTrip(c *engine.Chooser, s ckksSpec) bool {
	n := 1 << s.logSlots
	Q := uni.QAtLevel(w.p.Parameters, s.level)
	v, ok := family(s.fam, s.ln, s.scale, Q)
	if s.fam == famThreshold {
		// slot domain: the constant vector c*(1,...,1) has the single non-zero coefficient c*scale (at X^0 for a real
		// c, in the imaginary half for c*i), so the threshold is met exactly by one coefficient of the plaintext
		th, _ := thresholds(s.scale, Q)
		if ok = s.thr < len(th); ok {
			for j := range v {
				v[j] = complex(th[s.thr], 0) * s.thrDir
			}
		}
	}
	if !ok {
		c.Skip("scale too large for this level")
		return false
	}
	// precondition: scale * max|v| (times the 2n terms of a slot->coefficient sum bounded by max|v| itself) < Q/4
	maxv := newF()
	for _, x := range v {
		maxv = fMax(maxv, newF().SetFloat64(math.Abs(real(x))+math.Abs(imag(x))))
	}
	lim := newF().SetInt(Q)
	lim.Quo(lim, newF().SetInt64(4))
	if s.fam == famThreshold {
		lim.Mul(lim, newF().SetFloat64(1.99)) // a single coefficient: the whole range below Q/2 is admissible
	}
	if newF().Mul(maxv, s.scale).Cmp(lim) > 0 {
		c.Skip("scale too large for this level")
		return false
	}
	// one defect, one signature: on a configuration class that carries a triaged finding every failure of the
	// leaf is reported under that finding's signature; elsewhere the signature names the path and the oracle.
	cls := w.knownClass(s)
	mk := func(what string) string {
		if cls != "" {
			return cls
		}
		return "C07/ckks/" + w.path() + "/" + what
	}
	pt := ckks.NewPlaintext(w.p, s.level)
	pt.LogDimensions.Cols = s.logSlots
	pt.Scale = rlwe.NewScale(s.scale)
	pt.IsNTT = s.ntt
	dirty(pt.Value, w.p.Q())
	w.poison()
	in := typedInput(s.inTy, v)
	if s.nilEvery > 0 {
		// documented: nil entries of the big types are read as zero
		for j := range v {
			if j%s.nilEvery == 1 {
				v[j] = 0
				switch x := in.(type) {
				case []*big.Float:
					x[j] = nil
				case []*bignum.Complex:
					x[j] = nil
				}
			}
		}
		if _, big := in.([]*big.Float); !big {
			if _, bigc := in.([]*bignum.Complex); !bigc {
				in = typedInput(s.inTy, v)
			}
		}
	}
	err, pan := uni.Try(func() error { return w.ecd.Encode(in, pt) })
	if pan != nil {
		failD(c, mk("encode-panic"), "%v: Encode panicked: %v", s, pan)
		return false
	}
	if err != nil {
		failD(c, mk("encode-error"), "%v: Encode: %v", s, err)
		return false
	}
	want := expectedSlots(v, n, s.inTy, w.cf.rt)
	z, off, sumAbs := w.slotsOf(pt.Value, s.level, s.ntt, false, s.logSlots, s.scale)
	if off {
		failD(c, mk("outside-subring"), "%v: the encoded polynomial has non-zero coefficients outside Z[X^(N/%d)]", s, len(z))
		return false
	}
	et := w.encTol(s.logSlots, s.scale, maxv)
	for j := range want {
		d := cMaxComp(cSub(z[j], want[j]))
		if d.Cmp(et) > 0 { // per component: |re diff|, |im diff| <= |diff| <= budget
			what := "encode-value"
			if j >= len(v) {
				what = "unspecified-slot-not-zero"
			}
			failD(c, mk(what), "%v: slot %d of the encoded polynomial is (%s, %s), want (%s, %s); |diff| = %s > budget %s",
				s, j, z[j].re.Text('g', 20), z[j].im.Text('g', 20), want[j].re.Text('g', 20), want[j].im.Text('g', 20), d.Text('g', 6), et.Text('g', 6))
			return false
		}
	}
	// decode into every element type, plain and public
	for outTy := 0; outTy < 4; outTy++ {
		for _, logprec := range []float64{0, 10, 25} {
			if logprec == 25 && isRealType(outTy) {
				continue // the finest public precision with the complex output types only
			}
			out := newOutput(outTy, n)
			w.poison()
			err, pan := uni.Try(func() error {
				if logprec == 0 {
					return w.ecd.Decode(pt, out)
				}
				return w.ecd.DecodePublic(pt, out, logprec)
			})
			tag := fmt.Sprintf("out=%s logprec=%v", tyNames[outTy], logprec)
			if pan != nil {
				failD(c, mk("decode-panic"), "%v %s: Decode panicked: %v", s, tag, pan)
				return false
			}
			if err != nil {
				failD(c, mk("decode-error"), "%v %s: Decode: %v", s, tag, err)
				return false
			}
			got, bad := readOutput(out, n)
			if bad != "" {
				failD(c, mk("decode-value"), "%v %s: %s", s, tag, bad)
				return false
			}
			floatOut := outTy == tyC128 || outTy == tyF64
			for j := range z {
				exp := z[j]
				if isRealType(outTy) {
					exp = cplx{z[j].re, newF()}
				}
				tol := w.decTol(s.logSlots, sumAbs, cAbsUpper(z[j]), floatOut)
				if logprec != 0 {
					tol.Add(tol, pow2(-int(logprec)-1)) // rounding to the nearest multiple: half a unit per component
				}
				d := cMaxComp(cSub(got[j], exp))
				if d.Cmp(tol) > 0 {
					what := "decode-value"
					if logprec != 0 {
						what = "decode-public-value"
					}
					failD(c, mk(what), "%v %s: slot %d decodes to (%s, %s), exact embedding (%s, %s); |diff| = %s > budget %s", s, tag, j,
						got[j].re.Text('g', 20), got[j].im.Text('g', 20), exp.re.Text('g', 20), exp.im.Text('g', 20), d.Text('g', 6), tol.Text('g', 6))
					return false
				}
				if logprec != 0 {
					// multiples of 2^-logprec (relative slack 2^-(p-4): the arbitrary path computes 2^logprec by exp/log)
					for _, comp := range []*big.Float{got[j].re, got[j].im} {
						x := newF().Mul(comp, pow2(int(logprec)))
						r := newF().Add(x, newF().SetFloat64(0.5))
						ri, _ := r.Int(nil)
						if r.Sign() < 0 && !r.IsInt() {
							ri.Sub(ri, big.NewInt(1)) // floor for negatives
						}
						diff := newF().Sub(x, newF().SetInt(ri))
						diff.Abs(diff)
						slack := newF().Mul(newF().Abs(x), pow2(-w.precEff()+4))
						if diff.Cmp(slack) > 0 {
							failD(c, mk("decode-public-not-a-multiple"), "%v %s: slot %d component %s is not a multiple of 2^-%v", s, tag, j, comp.Text('g', 25), logprec)
							return false
						}
					}
				}
			}
		}
	}
	return true
}

func (w *ckksWorld) scaleOptions() ([]*big.Float, []string) {
	odd := newF().SetFloat64(math.Exp2(40) + 12345.678)
	return []*big.Float{pow2(w.cf.logScale), pow2(20), pow2(80), pow2(120), odd}, []string{"default", "2^20", "2^80", "2^120", "2^40+12345.678"}
}

func (w *ckksWorld) cover(c *engine.Chooser, s ckksSpec) {
	c.Cover("ckks-logn", fmt.Sprint(w.cf.logN))
	c.Cover("ckks-ring", map[ring.Type]string{ring.Standard: "standard", ring.ConjugateInvariant: "conjugate-invariant"}[w.cf.rt])
	c.Cover("ckks-path", w.path())
	c.Cover("ckks-prec", fmt.Sprint(w.prec))
	c.Cover("ckks-in", tyNames[s.inTy])
	c.Cover("ckks-values", famNames[s.fam])
	c.Cover("ckks-scale", s.scaleTag)
	c.Cover("ckks-ntt", fmt.Sprint(s.ntt))
	if s.logSlots == w.maxL {
		c.Cover("ckks-slots", "full")
	} else if s.logSlots == 0 {
		c.Cover("ckks-slots", "1")
	} else {
		c.Cover("ckks-slots", "sparse")
	}
	if s.level == 0 {
		c.Cover("ckks-level", "0")
	} else {
		c.Cover("ckks-level", ">0")
	}
}

// shapeScenario: LogDimensions x level x NTT flag x input type x length, default scale, mixed values.
// depth 0: default scale, mixed values. depth 1: the value family is enumerated as well. depth 2: the complete
// product, one scenario per scale (scaleIdx) so that the work spreads over the workers.
func ckksShapeScenario(cf ckksConf, depth, scaleIdx int) engine.Scenario {
	name := "ckks/" + cf.name + "/shape"
	if depth == 2 {
		name += fmt.Sprintf("/scale%d", scaleIdx)
	}
	if depth == 1 {
		name += fmt.Sprintf("/values%d", scaleIdx) // depth 1: the second index is the value family (spreads the work)
	}
	return engine.Scenario{Name: name, Bound: -1, Fn: func(c *engine.Chooser) {
		w := getCkksWorld(cf)
		s := ckksSpec{scale: pow2(cf.logScale), scaleTag: "default", fam: famMixed}
		if depth == 2 {
			scs, tags := w.scaleOptions()
			s.scale, s.scaleTag = scs[scaleIdx], tags[scaleIdx]
		}
		if depth == 2 {
			s.fam = c.Choose(5, "values")
		}
		if depth == 1 {
			s.fam = scaleIdx
		}
		s.logSlots = w.maxL - c.Choose(w.maxL+1, "logSlots") // choice 0 = full packing
		s.level = w.L - c.Choose(w.L+1, "level")
		s.ntt = c.Choose(2, "ntt") == 0
		s.inTy = c.Choose(4, "inType")
		n := 1 << s.logSlots
		s.ln = []int{n, 1, maxI(n-1, 1)}[c.Choose(3, "len")]
		w.cover(c, s)
		if w.roundTrip(c, s) {
			c.Outcome(name, s.String())
		}
		c.Count(13)
	}}
}

// valueScenario: scale x value family x level, full and 2-slot packing, every input type.
func ckksValueScenario(cf ckksConf) engine.Scenario {
	name := "ckks/" + cf.name + "/values"
	return engine.Scenario{Name: name, Bound: -1, Fn: func(c *engine.Chooser) {
		w := getCkksWorld(cf)
		scs, tags := w.scaleOptions()
		si := c.Choose(len(scs), "scale")
		s := ckksSpec{scale: scs[si], scaleTag: tags[si], ntt: true}
		s.fam = c.Choose(5, "values")
		s.level = w.L - c.Choose(w.L+1, "level")
		s.logSlots = []int{w.maxL, 1}[c.Choose(2, "logSlots")]
		s.inTy = c.Choose(4, "inType")
		s.ln = 1 << s.logSlots
		w.cover(c, s)
		if w.roundTrip(c, s) {
			c.Outcome(name, s.String())
		}
		c.Count(13)
	}}
}

// obtainedScenario: the way the encoder was OBTAINED. A fresh encoder is built for every leaf and the one under test is
//
//	0 NewEncoder itself            1 ShallowCopy of the fresh encoder      2 ShallowCopy of a ShallowCopy
//	3 ShallowCopy taken after the original has encoded and decoded (dirty buffers in the original)
//	4 a ShallowCopy that has itself been used before (the usual poisoned state of the other scenarios)
//
// and is used exactly as obtained (no poisoning for 0-3: a copy's first operation must already be right). Crossed
// with packing (full, two slots, one slot), level (top, 0), NTT flag, vector length (full, half), every input kind
// including big types with nil entries, and every output type via roundTrip — whose budget is the one the
// parameters' precision implies (Prec() of the encoder: a copy that silently works at 53 bits fails it).
func ckksObtainedScenario(cf ckksConf) engine.Scenario {
	name := "ckks/" + cf.name + "/obtained"
	return engine.Scenario{Name: name, Bound: -1, Fn: func(c *engine.Chooser) {
		w := getCkksWorld(cf)
		how := c.Choose(5, "obtained")
		s := ckksSpec{scale: pow2(cf.logScale), scaleTag: "default", fam: famMixed}
		s.logSlots = []int{w.maxL, 1, 0}[c.Choose(3, "logSlots")]
		s.level = []int{w.L, 0}[c.Choose(2, "level")]
		s.ntt = c.Choose(2, "ntt") == 0
		kind := c.Choose(6, "inType")
		s.inTy = []int{tyC128, tyF64, tyBigF, tyBigC, tyBigF, tyBigC}[kind]
		if kind >= 4 {
			s.nilEvery = 3
		}
		n := 1 << s.logSlots
		s.ln = []int{n, maxI(n/2, 1)}[c.Choose(2, "len")]
		var fresh *ckks.Encoder
		if cf.prec == 0 {
			fresh = ckks.NewEncoder(w.p)
		} else {
			fresh = ckks.NewEncoder(w.p, cf.prec)
		}
		use := func(e *ckks.Encoder) {
			pt := ckks.NewPlaintext(w.p, w.L)
			v := make([]complex128, 1<<w.maxL)
			for j := range v {
				v[j] = complex(float64(j+1)*3.25, -float64(j+2)*1.5)
			}
			if err := e.Encode(v, pt); err != nil {
				panic(err)
			}
			if err := e.Decode(pt, make([]complex128, len(v))); err != nil {
				panic(err)
			}
		}
		var e *ckks.Encoder
		switch how {
		case 0:
			e = fresh
		case 1:
			e = fresh.ShallowCopy()
		case 2:
			e = fresh.ShallowCopy().ShallowCopy()
		case 3:
			use(fresh)
			e = fresh.ShallowCopy()
		default:
			e = fresh.ShallowCopy()
			use(e)
		}
		c.Cover("ckks-obtained", []string{"new", "copy", "copy-of-copy", "copy-of-used", "used-copy"}[how]+"/"+w.path())
		if e.Prec() != w.prec {
			failD(c, "C07/ckks/obtained/precision", "obtained=%d: Prec() = %d, the original has %d", how, e.Prec(), w.prec)
			return
		}
		old, oldNP := w.ecd, w.noPoison
		w.ecd, w.noPoison = e, true
		defer func() { w.ecd, w.noPoison = old, oldNP }()
		w.cover(c, s)
		if w.roundTrip(c, s) {
			c.Outcome(name, how, s.String(), kind)
		}
		c.Count(11)
	}}
}

// serializeScenario (CKKS): encode -> MarshalBinary -> UnmarshalBinary into a pre-allocated plaintext of the other
// encoding domain (ckks.NewPlaintext defaults to IsBatched=true, full packing, default scale, top level) -> decode:
// bit-identical to the decoding of the sender's own plaintext.
func ckksSerializeScenario(cf ckksConf) engine.Scenario {
	name := "ckks/" + cf.name + "/serialize-into-preallocated"
	return engine.Scenario{Name: name, Bound: -1, Fn: func(c *engine.Chooser) {
		w := getCkksWorld(cf)
		batched := c.Choose(2, "sender-domain") == 1
		level := []int{w.L, 0}[c.Choose(2, "level")]
		logSlots := []int{w.maxL, 1}[c.Choose(2, "logSlots")]
		scale := pow2(30)
		c.Cover("serialize", fmt.Sprintf("ckks sender-batched=%v", batched))
		pt := ckks.NewPlaintext(w.p, level)
		pt.IsBatched = batched
		pt.Scale = rlwe.NewScale(scale)
		n := w.N
		if batched {
			pt.LogDimensions.Cols = logSlots
			n = 1 << logSlots
		}
		v := make([]float64, n)
		for j := range v {
			v[j] = float64(j+1)/8 - 1
		}
		w.poison()
		if err := w.ecd.Encode(v, pt); err != nil {
			panic(err)
		}
		want := make([]float64, n)
		w.poison()
		if err := w.ecd.Decode(pt, want); err != nil {
			panic(err)
		}
		data, err := pt.MarshalBinary()
		if err != nil {
			failD(c, "C07/ckks/serialize/marshal-error", "%v", err)
			return
		}
		recv := ckks.NewPlaintext(w.p, w.L)
		recv.IsBatched = !batched
		if batched {
			recv.LogDimensions.Cols = 0
		}
		dirty(recv.Value, w.p.Q())
		if err, pan := uni.Try(func() error { return recv.UnmarshalBinary(data) }); err != nil || pan != nil {
			failD(c, "C07/ckks/serialize/unmarshal-error", "sender batched=%v level=%d: err=%v panic=%v", batched, level, err, pan)
			return
		}
		got := make([]float64, n)
		w.poison()
		if err, pan := uni.Try(func() error { return w.ecd.Decode(recv, got) }); err != nil || pan != nil {
			failD(c, "C07/ckks/serialize/decode-error", "sender batched=%v level=%d: err=%v panic=%v", batched, level, err, pan)
			return
		}
		for j := range want {
			if got[j] != want[j] {
				failD(c, "C07/ckks/serialize/value", "sender batched=%v level=%d logSlots=%d -> receiver pre-allocated with IsBatched=%v: entry %d decodes to %v, the sender's plaintext decodes to %v (receiver after UnmarshalBinary: IsBatched=%v LogDimensions=%v)",
					batched, level, logSlots, !batched, j, got[j], want[j], recv.IsBatched, recv.LogDimensions)
				return
			}
		}
		c.Outcome(name, batched, level, logSlots)
	}}
}

// thresholdScenario: slot domain, constant vectors c*(1,..,1)*dir whose single plaintext coefficient c*scale sits
// on either side of 2^31, 2^32, 2^53, 2^63, 2^64 and just below Q/2, for every (scale, level) that admits them, full
// and single-slot packing, every output type, Decode and DecodePublic (via roundTrip).
func ckksThresholdScenario(cf ckksConf) engine.Scenario {
	name := "ckks/" + cf.name + "/thresholds"
	return engine.Scenario{Name: name, Bound: -1, Fn: func(c *engine.Chooser) {
		w := getCkksWorld(cf)
		scs, tags := w.scaleOptions()
		si := c.Choose(len(scs), "scale")
		s := ckksSpec{scale: scs[si], scaleTag: tags[si], ntt: true, fam: famThreshold}
		s.level = w.L - c.Choose(w.L+1, "level")
		s.thr = c.Choose(11, "threshold")
		s.thrDir = []complex128{1, -1, 1i, -1i}[c.Choose(4, "direction")]
		s.logSlots = []int{w.maxL, 0}[c.Choose(2, "logSlots")]
		s.inTy = []int{tyC128, tyBigC}[c.Choose(2, "inType")]
		s.ln = 1 << s.logSlots
		if cf.rt == ring.ConjugateInvariant && imag(s.thrDir) != 0 {
			c.Skip("imaginary direction in the conjugate-invariant ring")
			return
		}
		_, ttags := thresholds(s.scale, uni.QAtLevel(w.p.Parameters, s.level))
		if s.thr < len(ttags) {
			c.Cover("ckks-threshold", ttags[s.thr])
			c.Note("threshold %s, direction %v", ttags[s.thr], s.thrDir)
		}
		w.cover(c, s)
		if w.roundTrip(c, s) {
			c.Outcome(name, s.String(), s.thr, s.thrDir)
		}
		c.Count(13)
	}}
}

// coeffScenario: coefficient domain (IsBatched=false): coefficient k = round(v_k*scale), decode = coefficient/scale.
func ckksCoeffScenario(cf ckksConf) engine.Scenario {
	name := "ckks/" + cf.name + "/coeff-domain"
	return engine.Scenario{Name: name, Bound: -1, Fn: func(c *engine.Chooser) {
		w := getCkksWorld(cf)
		scs, tags := w.scaleOptions()
		si := c.Choose(len(scs), "scale")
		scale := scs[si]
		fam := c.Choose(6, "values")
		level := w.L - c.Choose(w.L+1, "level")
		ntt := c.Choose(2, "ntt") == 0
		bigIn := c.Bool("bigfloat")
		ln := []int{w.N, 3}[c.Choose(2, "len")]
		Q := uni.QAtLevel(w.p.Parameters, level)
		vc, ok := family(fam, ln, scale, Q)
		if !ok {
			c.Skip("scale too large for this level")
			return
		}
		c.Cover("ckks-domain", "coeff")
		c.Cover("ckks-coeff-in", map[bool]string{true: "[]*big.Float", false: "[]float64"}[bigIn])
		lim := newF().SetInt(Q)
		lim.Quo(lim, newF().SetInt64(4))
		if fam == famThreshold {
			lim.Mul(lim, newF().SetFloat64(1.99))
			c.Cover("ckks-threshold", "coeff-domain")
		}
		for _, x := range vc {
			if newF().Mul(fFrom(math.Abs(real(x))), scale).Cmp(lim) > 0 {
				c.Skip("scale too large for this level")
				return
			}
		}
		desc := fmt.Sprintf("level=%d scale=%s ntt=%v bigfloat=%v values=%s len=%d", level, tags[si], ntt, bigIn, famNames[fam], ln)
		mk := func(what string) string {
			return "C07/ckks/coeff-domain/" + what
		}
		pt := ckks.NewPlaintext(w.p, level)
		pt.IsBatched = false
		pt.IsNTT = ntt
		pt.Scale = rlwe.NewScale(scale)
		dirty(pt.Value, w.p.Q())
		var in interface{}
		if bigIn {
			in = typedInput(tyBigF, vc)
		} else {
			in = typedInput(tyF64, vc)
		}
		err, pan := uni.Try(func() error { return w.ecd.Encode(in, pt) })
		if pan != nil || err != nil {
			failD(c, mk("encode-failed"), "%s: err=%v panic=%v", desc, err, pan)
			return
		}
		cs := uni.PolyCoeffs(w.p.RingQ(), pt.Value, level, ntt, false)
		relIn := pow2(-50)
		if bigIn {
			relIn = pow2(-100)
		}
		exact := make([]*big.Float, w.N)
		for k := 0; k < w.N; k++ {
			got := newF().SetInt(ref.Center(cs[k], Q))
			exact[k] = newF().Quo(got, scale)
			exp := newF()
			if k < ln {
				exp.Mul(fFrom(real(vc[k])), scale)
			}
			tol := newF().Mul(newF().Abs(exp), relIn)
			tol.Add(tol, newF().SetFloat64(0.5001))
			if d := newF().Sub(got, exp); d.Abs(d).Cmp(tol) > 0 {
				s2 := mk("encode-value")
				if k >= ln {
					s2 = mk("unspecified-coefficient-not-zero")
				}
				failD(c, s2, "%s: coefficient %d is %s, want round(%s)", desc, k, got.Text('g', 25), exp.Text('g', 25))
				return
			}
		}
		for outTy := 0; outTy < 4; outTy++ {
			out := newOutput(outTy, w.N)
			// big outputs are pre-allocated with 256 bits: when the decoder allocates them itself it uses
			// new(big.Float).SetInt(..) (64-bit mantissa for these sizes), which would cap the precision of the
			// arbitrary path at 2^-64 (FINDINGS.md, observation); with caller-provided precision the quotient
			// must be accurate to the working precision.
			switch o := out.(type) {
			case []*big.Float:
				for i := range o {
					o[i] = new(big.Float).SetPrec(256)
				}
			case []*bignum.Complex:
				for i := range o {
					o[i] = &bignum.Complex{new(big.Float).SetPrec(256), new(big.Float).SetPrec(256)}
				}
			}
			// DecodePublic in the coefficient domain: the doc comment is silent and the implementation does not round
			// there; what can be judged is that the published value stays within half a unit of 2^-logprec of the
			// plain decoding (true with or without rounding). Every other output goes through plain Decode.
			public := outTy == tyF64 || outTy == tyBigC
			err, pan := uni.Try(func() error {
				if public {
					return w.ecd.DecodePublic(pt, out, 12)
				}
				return w.ecd.Decode(pt, out)
			})
			if pan != nil || err != nil {
				failD(c, mk("decode-failed"), "%s out=%s: err=%v panic=%v", desc, tyNames[outTy], err, pan)
				return
			}
			got, bad := readOutput(out, w.N)
			if bad != "" {
				// []*bignum.Complex outputs: the imaginary part is left nil by the coefficient-domain decoder
				failD(c, mk("decode-value"), "%s out=%s: %s", desc, tyNames[outTy], bad)
				return
			}
			rel := pow2(-49)
			if w.prec > 53 && (outTy == tyBigF || outTy == tyBigC) {
				rel = pow2(-100)
			}
			for k := range exact {
				tol := newF().Mul(newF().Abs(exact[k]), rel)
				if public {
					tol.Add(tol, pow2(-13))
					c.Cover("ckks-coeff-public", "judged-closeness-only")
				}
				if d := newF().Sub(got[k].re, exact[k]); d.Abs(d).Cmp(tol) > 0 || got[k].im.Sign() != 0 {
					failD(c, mk("decode-value"), "%s out=%s: coefficient %d decodes to (%s,%s), exact %s", desc, tyNames[outTy], k, got[k].re.Text('g', 25), got[k].im.Text('g', 5), exact[k].Text('g', 25))
					return
				}
			}
		}
		c.Outcome(name, desc)
		c.Count(5)
	}}
}

// productScenario: the product (in the ring) of two encodings at scale D decodes, at scale D^2, to the slot-wise product.
func ckksProductScenario(cf ckksConf) engine.Scenario {
	name := "ckks/" + cf.name + "/product"
	return engine.Scenario{Name: name, Bound: -1, Fn: func(c *engine.Chooser) {
		w := getCkksWorld(cf)
		logSlots := w.maxL - c.Choose(w.maxL+1, "logSlots")
		famA := []int{famMixed, famUnits}[c.Choose(2, "valuesA")]
		inTy := c.Choose(4, "inType")
		level := w.L
		n := 1 << logSlots
		scale := pow2(cf.logScale)
		c.Cover("ckks-product", fmt.Sprintf("logn%d", cf.logN))
		Q := uni.QAtLevel(w.p.Parameters, level)
		va, _ := family(famA, n, scale, Q)
		vb, _ := family(famMixed, n, scale, Q)
		for j := range vb {
			vb[j] = complex(imag(vb[j])+0.25, -real(vb[j]))
		}
		mk := func(v []complex128) (*rlwe.Plaintext, []cplx, *big.Float) {
			pt := ckks.NewPlaintext(w.p, level)
			pt.LogDimensions.Cols = logSlots
			if err := w.ecd.Encode(typedInput(inTy, v), pt); err != nil {
				panic(err)
			}
			mv := newF()
			for _, x := range v {
				mv = fMax(mv, fFrom(math.Abs(real(x))+math.Abs(imag(x))))
			}
			return pt, expectedSlots(v, n, inTy, cf.rt), mv
		}
		pa, ea, ma := mk(va)
		pb, eb, mb := mk(vb)
		rq := w.p.RingQ().AtLevel(level)
		prod := ckks.NewPlaintext(w.p, level)
		prod.LogDimensions.Cols = logSlots
		rq.MulCoeffsBarrett(pa.Value, pb.Value, prod.Value)
		s2 := newF().Mul(scale, scale)
		prod.Scale = rlwe.NewScale(s2)
		out := make([]*bignum.Complex, n)
		if err := w.ecd.Decode(prod, out); err != nil {
			failD(c, "C07/ckks/product/decode-error", "%v", err)
			return
		}
		got, bad := readOutput(out, n)
		if bad != "" {
			failD(c, "C07/ckks/product/value", "%s", bad)
			return
		}
		ta, tb := w.encTol(logSlots, scale, ma), w.encTol(logSlots, scale, mb)
		// decode budget: sum|a_k|/scale^2 of the product polynomial <= 2n * (2n max|a| max|b|)
		sum := newF().Mul(ma, mb)
		sum.Mul(sum, newF().SetInt64(int64(8*n*n)))
		for j := 0; j < n; j++ {
			exp := cMul(ea[j], eb[j])
			tol := newF().Mul(cAbsUpper(ea[j]), tb)
			tol.Add(tol, newF().Mul(cAbsUpper(eb[j]), ta))
			tol.Add(tol, newF().Mul(ta, tb))
			tol.Add(tol, w.decTol(logSlots, sum, cAbsUpper(exp), false))
			d := cMaxComp(cSub(got[j], exp))
			if d.Cmp(tol) > 0 {
				failD(c, "C07/ckks/product/value", "logSlots=%d in=%s: slot %d of the product decodes to (%s,%s), want (%s,%s), |diff|=%s budget %s", logSlots, tyNames[inTy], j,
					got[j].re.Text('g', 18), got[j].im.Text('g', 18), exp.re.Text('g', 18), exp.im.Text('g', 18), d.Text('g', 6), tol.Text('g', 6))
				return
			}
		}
		c.Outcome(name, logSlots, famA, inTy)
		c.Count(3)
	}}
}

// fftScenario: Encoder.FFT equals the direct evaluation of the embedding, IFFT inverts it.
func ckksFFTScenario(cf ckksConf) engine.Scenario {
	name := "ckks/" + cf.name + "/fft"
	return engine.Scenario{Name: name, Bound: -1, Fn: func(c *engine.Chooser) {
		w := getCkksWorld(cf)
		logn := c.Choose(w.maxL+1, "logn")
		n := 1 << logn
		c.Cover("ckks-fft", w.path())
		if logn < 4 {
			c.Cover("ckks-fft-kernel", "plain")
		} else {
			c.Cover("ckks-fft-kernel", "unrolled8")
		}
		u := make([]complex128, n)
		a := make([]*big.Float, 2*n)
		maxv := newF()
		sum := newF()
		for k := range u {
			u[k] = complex(float64(k+1)/4-1, float64(2*k+1)/8*float64(1-2*(k%2)))
			a[k], a[n+k] = fFrom(real(u[k])), fFrom(imag(u[k]))
			x := fFrom(math.Abs(real(u[k])) + math.Abs(imag(u[k])))
			maxv = fMax(maxv, x)
			sum.Add(sum, x)
		}
		want := embedStandard(a, n)
		mkBuf := func() interface{} {
			if w.prec <= 53 {
				return append([]complex128(nil), u...)
			}
			b := make([]*bignum.Complex, n)
			for k := range b {
				b[k] = &bignum.Complex{new(big.Float).SetPrec(w.prec).SetFloat64(real(u[k])), new(big.Float).SetPrec(w.prec).SetFloat64(imag(u[k]))}
			}
			return b
		}
		buf := mkBuf()
		if err := w.ecd.FFT(buf, logn); err != nil {
			failD(c, "C07/ckks/FFT/error", "%v", err)
			return
		}
		got, bad := readOutput(buf, n)
		if bad != "" {
			failD(c, "C07/ckks/FFT/value", "%s", bad)
			return
		}
		for j := range want {
			tol := w.decTol(logn, sum, cAbsUpper(want[j]), false)
			if d := cMaxComp(cSub(got[j], want[j])); d.Cmp(tol) > 0 {
				failD(c, "C07/ckks/FFT/value", "logn=%d: FFT output %d is (%s,%s), direct evaluation (%s,%s)", logn, j, got[j].re.Text('g', 18), got[j].im.Text('g', 18), want[j].re.Text('g', 18), want[j].im.Text('g', 18))
				return
			}
		}
		// IFFT(FFT(u)) = u
		if err := w.ecd.IFFT(buf, logn); err != nil {
			failD(c, "C07/ckks/IFFT/error", "%v", err)
			return
		}
		back, _ := readOutput(buf, n)
		tol := newF().Mul(w.ulps(logn), newF().Mul(sum, newF().SetInt64(int64(2*safety))))
		for k := range u {
			exp := cplx{fFrom(real(u[k])), fFrom(imag(u[k]))}
			if d := cMaxComp(cSub(back[k], exp)); d.Cmp(tol) > 0 {
				failD(c, "C07/ckks/IFFT/value", "logn=%d: IFFT(FFT(u))[%d] = (%s,%s), want %v", logn, k, back[k].re.Text('g', 18), back[k].im.Text('g', 18), u[k])
				return
			}
		}
		c.Outcome(name, logn)
		c.Count(2)
	}}
}

// embedScenario: Embed into ringqp.Poly (Q part at every level; P part absent, at its top level or at level 0)
// under the NTT and Montgomery flags, at a small and at the default scale: the Q part equals the plain Encode and
// the P part carries the residues of the *same integer polynomial* (the centred lift of the Q part, valid because
// scale*max|v| stays below Q_level/4), prime by prime.
func ckksEmbedScenario(cf ckksConf) engine.Scenario {
	name := "ckks/" + cf.name + "/embed"
	return engine.Scenario{Name: name, Bound: -1, Fn: func(c *engine.Chooser) {
		w := getCkksWorld(cf)
		logSlots := w.maxL - c.Choose(w.maxL+1, "logSlots")
		level := w.L - c.Choose(w.L+1, "level")
		mont := c.Bool("montgomery")
		pMode := c.Choose(3, "P") // 0: P at its top level, 1: no P, 2: P at level 0
		ntt := c.Choose(2, "ntt") == 0
		bigScale := c.Bool("default-scale")
		inTy := c.Choose(4, "inType")
		n := 1 << logSlots
		scale := pow2(30)
		if bigScale {
			scale = pow2(cf.logScale)
		}
		Q := uni.QAtLevel(w.p.Parameters, level)
		v, _ := family(famMixed, n, scale, Q)
		lim := newF().SetInt(Q)
		lim.Quo(lim, newF().SetInt64(4))
		if newF().Mul(newF().SetFloat64(float64(n)/4+2), scale).Cmp(lim) > 0 {
			c.Skip("scale too large for this level")
			return
		}
		levelP := -1
		switch pMode {
		case 0:
			levelP = w.p.MaxLevelP()
		case 2:
			levelP = 0
			if w.p.MaxLevelP() == 0 {
				c.Skip("parameter set has a single auxiliary prime")
				return
			}
		}
		c.Cover("ckks-embed", fmt.Sprintf("mont=%v levelP=%d/%d ntt=%v", mont, levelP, w.p.MaxLevelP(), ntt))
		ref0 := ckks.NewPlaintext(w.p, level)
		ref0.LogDimensions.Cols = logSlots
		ref0.Scale = rlwe.NewScale(scale)
		w.poison()
		if err := w.ecd.Encode(typedInput(inTy, v), ref0); err != nil {
			panic(err)
		}
		want := uni.PolyCoeffs(w.p.RingQ(), ref0.Value, level, true, false)
		md := *ref0.MetaData
		md.IsMontgomery = mont
		md.IsNTT = ntt
		rq := w.p.RingQ().AtLevel(level)
		qp := ringqp.Poly{Q: rq.NewPoly()}
		dirty(qp.Q, w.p.Q())
		if levelP >= 0 {
			qp.P = w.p.RingP().AtLevel(levelP).NewPoly()
			dirty(qp.P, w.p.P())
		}
		desc := fmt.Sprintf("logSlots=%d level=%d mont=%v levelP=%d ntt=%v scale=2^%d in=%s", logSlots, level, mont, levelP, ntt, map[bool]int{false: 30, true: cf.logScale}[bigScale], tyNames[inTy])
		w.poison()
		err, pan := uni.Try(func() error { return w.ecd.Embed(typedInput(inTy, v), &md, qp) })
		if pan != nil || err != nil {
			failD(c, "C07/ckks/Embed/ringqp/error", "%s: err=%v panic=%v", desc, err, pan)
			return
		}
		gotQ := uni.PolyCoeffs(w.p.RingQ(), qp.Q, level, ntt, mont)
		for k := range want {
			if gotQ[k].Cmp(want[k]) != 0 {
				failD(c, "C07/ckks/Embed/ringqp/Q-part", "%s: coefficient %d is %v, Encode gives %v", desc, k, gotQ[k], want[k])
				return
			}
		}
		if levelP >= 0 {
			P := ref.Prod(w.p.P()[:levelP+1])
			gotP := uni.PolyCoeffs(w.p.RingP(), qp.P, levelP, ntt, mont)
			for k := range want {
				exp := new(big.Int).Mod(ref.Center(want[k], Q), P)
				if gotP[k].Cmp(exp) != 0 {
					failD(c, "C07/ckks/Embed/ringqp/P-part", "%s: coefficient %d of the P part is %v mod P, the integer held by the Q part is %v (= %v mod P)", desc, k, gotP[k], ref.Center(want[k], Q), exp)
					return
				}
			}
		}
		c.Outcome(name, desc)
		c.Count(2)
	}}
}

// quick tier: the complete CKKS product (LogDimensions x level x NTT x input type x length x scale x value family,
// every output type, plain and public decoding) up to this ring degree, the product without the scale axis one
// degree above, the shape axes only beyond; thorough: the complete product at every ring degree.
const fullProductLogN = 4

func ckksScenarios(tier string) []engine.Scenario {
	var scs []engine.Scenario
	for _, cf := range ckksConfigs(tier) {
		depth := 0
		switch {
		case tier == "thorough" && cf.logN <= 6:
			depth = 2
		case tier == "thorough":
			depth = 1
		default:
			// quick: complete product at LogN 4, without the scale axis at LogN 5, shape axes only at LogN 6; the
			// secondary precision variants one step shallower
			depth = fullProductLogN + 2 - cf.logN
			if cf.extra {
				depth--
			}
			if depth < 0 {
				depth = 0
			}
		}
		if depth == 2 {
			for si := 0; si < 5; si++ {
				scs = append(scs, ckksShapeScenario(cf, 2, si))
			}
		} else if depth == 1 {
			for f := 0; f < 5; f++ {
				scs = append(scs, ckksShapeScenario(cf, 1, f))
			}
		} else {
			scs = append(scs, ckksShapeScenario(cf, 0, 0))
		}
		if (cf.logN == 4 && !cf.extra) || tier == "thorough" {
			scs = append(scs, ckksThresholdScenario(cf))
		}
		if cf.logN <= 5 || tier == "thorough" {
			scs = append(scs, ckksObtainedScenario(cf))
		}
		if cf.logN == 4 || tier == "thorough" {
			scs = append(scs, ckksSerializeScenario(cf))
		}
		scs = append(scs, ckksValueScenario(cf), ckksCoeffScenario(cf), ckksProductScenario(cf), ckksFFTScenario(cf), ckksEmbedScenario(cf))
	}
	return scs
}

func expect(tier string) []string {
	e := []string{
		"bgv-domain=batched", "bgv-domain=coeff", "bgv-type=int64", "bgv-type=uint64", "bgv-level=0", "bgv-len=0", "bgv-len=1", "bgv-len=full",
		"bgv-scale=1", "bgv-scale=t-1", "bgv-scale=(t+1)/2", "bgv-scale=q1 mod t", "bgv-gap=1", "bgv-gap=2", "bgv-gap=4", "bgv-gap=8", "bgv-every-scale=all-units", "bgv-scale-arithmetic=residues-above-2^32", "bgv-every-scale=spread", "ckks-coeff-public=judged-closeness-only", "serialize=bgv sender-batched=false", "serialize=bgv sender-batched=true", "serialize=ckks sender-batched=false", "serialize=ckks sender-batched=true", "ckks-obtained=new/arbitrary", "ckks-obtained=copy/arbitrary", "ckks-obtained=copy/float64", "ckks-obtained=copy-of-copy/arbitrary", "ckks-obtained=copy-of-used/arbitrary", "ckks-obtained=used-copy/arbitrary", "bgv-obtained=copy", "bgv-obtained=copy-of-copy", "bgv-obtained=copy-of-used", "ckks-threshold=coeff-domain", "ckks-threshold=2^31-1", "ckks-threshold=2^32+1", "ckks-threshold=2^53+1", "ckks-threshold=2^63-1", "ckks-threshold=2^63+1", "ckks-threshold=2^64-1", "ckks-threshold=2^64+1", "ckks-threshold=0.49*Q/scale",
		"bgv-exhaust=single-slot", "bgv-exhaust=alphabet3", "bgv-product=ringT", "bgv-product=ringQ",
		"ckks-logn=4", "ckks-logn=5", "ckks-logn=6", "ckks-ring=standard", "ckks-ring=conjugate-invariant", "ckks-path=float64", "ckks-path=arbitrary",
		"ckks-slots=full", "ckks-slots=1", "ckks-slots=sparse", "ckks-level=0", "ckks-ntt=true", "ckks-ntt=false", "ckks-domain=coeff",
		"ckks-fft-kernel=plain", "ckks-fft-kernel=unrolled8", "ckks-scale=2^20", "ckks-scale=2^120", "ckks-values=tiny", "ckks-values=large",
	}
	for _, n := range tyNames {
		e = append(e, "ckks-in="+n)
	}
	return e
}
