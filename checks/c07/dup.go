package main

import (
	"fmt"

	"verif/engine"
)

// Duplicate guard. The engine keeps at most 200 violating leaves per worker; a triaged finding that sits on a
// whole sub-lattice of configurations (e.g. "sparse packing and IsNTT=false") would fill that list and could push
// out a violation with a *different* signature. So per worker process at most maxLeavesPerSig distinct leaves
// report a given signature; later leaves whose first failure is that same signature are counted as out of scope
// with the explicit reason "duplicate of already reported finding <sig>". Re-runs of a reported leaf (the
// engine's determinism gate) report again.
const maxLeavesPerSig = 2

var reportedBySig = map[string]map[string]bool{}

func failDedup(c *engine.Chooser, leafKey, sig, format string, args ...interface{}) {
	set := reportedBySig[sig]
	if set == nil {
		set = map[string]bool{}
		reportedBySig[sig] = set
	}
	if !set[leafKey] && len(set) >= maxLeavesPerSig {
		c.Skip("duplicate of already reported finding " + sig)
		return
	}
	set[leafKey] = true
	c.Fail(sig, format, args...)
}

// leafKeyOf builds a key from the scenario name and the choices of the leaf.
func leafKeyOf(parts ...interface{}) string { return fmt.Sprint(parts...) }

// failD derives the leaf key from the message arguments (every call site puts the full configuration of the
// leaf in the message), which keeps call sites short.
func failD(c *engine.Chooser, sig, format string, args ...interface{}) {
	failDedup(c, leafKeyOf(sig, fmt.Sprintf(format, args...)), sig, format, args...)
}
