// C07 — encoders are inverse to decoders on the whole message space (BGV integer encoder, CKKS approximate
// encoder), and encoded plaintexts multiply slot-wise.
package main

import (
	"time"

	"verif/engine"
)

func scenarios(tier string) []engine.Scenario {
	scs := bgvScenarios(tier)
	scs = append(scs, ckksScenarios(tier)...)
	return scs
}

func main() {
	engine.Main(engine.Check{
		ID:    "C07",
		Level: "exploration",
		Rule: "BGV: per parameter set (t, ring degree, gap) x domain x element type x level x scale, every vector length 0..slots x a rotating boundary alphabet " +
			"(0,1,t-1,t,t+1,2^63,2^64-1,MinInt64,+-(t-1)/2,+-(t+1)/2,...) is encoded on a dirtied plaintext and decoded ([]uint64 and []int64); for t=17/97 all single-slot vectors over Z_t and all vectors over {0,1,t-1} up to 8 slots; " +
			"the encoded polynomial is recovered without the decoder and evaluated at the observed orbit of roots; products of encodings over Z_t (schoolbook) and in R_Q decode to slot-wise products. " +
			"CKKS: per (LogN, ring type, precision, LogDimensions, level, scale, NTT flag, element type, value family) encode/decode against a big.Float canonical embedding with a derived error budget. " +
			"distinct_nontrivial counts distinct (scenario, configuration) observation classes.",
		Assumptions: []string{
			"scales of BGV plaintexts are units of Z_t; vectors have at most as many entries as slots (coefficients)",
			"CKKS: 1 <= len(values) <= 2^LogDimensions (documented), values finite, |value|*scale <= Q_level/4",
			"CKKS error budget: 16 x (rounding N/scale + floating point N*2^-prec*max|v| terms), derived in checks/c07/ckks.go",
		},
		Scenarios:      scenarios,
		QuickBudget:    150 * time.Second,
		ThoroughBudget: 25 * time.Minute,
		MemLimitMB:     4096,
		Expect:         expect,
	})
}
