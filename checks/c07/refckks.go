package main

import (
	"math/big"
)

// Reference canonical embedding for the CKKS encoder, by direct O(n^2) evaluation in big.Float arithmetic of
// refPrec bits. Nothing here uses the library's FFT, root tables or trigonometric routines: the roots of unity
// are obtained from i by repeated half-angle square roots.

const refPrec = 320

type cplx struct{ re, im *big.Float }

func newF() *big.Float { return new(big.Float).SetPrec(refPrec) }

func fFrom(x float64) *big.Float { return newF().SetFloat64(x) }

func cNew() cplx { return cplx{newF(), newF()} }

func cFrom(re, im *big.Float) cplx { return cplx{newF().Set(re), newF().Set(im)} }

func cAdd(a, b cplx) cplx { return cplx{newF().Add(a.re, b.re), newF().Add(a.im, b.im)} }

func cSub(a, b cplx) cplx { return cplx{newF().Sub(a.re, b.re), newF().Sub(a.im, b.im)} }

func cMul(a, b cplx) cplx {
	rr := newF().Mul(a.re, b.re)
	ii := newF().Mul(a.im, b.im)
	ri := newF().Mul(a.re, b.im)
	ir := newF().Mul(a.im, b.re)
	return cplx{rr.Sub(rr, ii), ri.Add(ri, ir)}
}

// cAbsUpper returns |re| + |im| >= |z|.
func cAbsUpper(a cplx) *big.Float {
	r := newF().Abs(a.re)
	return r.Add(r, newF().Abs(a.im))
}

// cMaxComp returns max(|re|, |im|) <= |z|.
func cMaxComp(a cplx) *big.Float {
	return fMax(newF().Abs(a.re), newF().Abs(a.im))
}

// rootsOfUnity returns exp(2 pi i k / m) for k = 0..m-1, m a power of two >= 4.
var rootCache = map[int][]cplx{}

func rootsOfUnity(m int) []cplx {
	if r, ok := rootCache[m]; ok {
		return r
	}
	// primitive m-th root by half-angle formulas starting from exp(i pi/2) = i (first quadrant: both positive)
	cos, sin := newF(), newF().SetInt64(1)
	one, two := newF().SetInt64(1), newF().SetInt64(2)
	for k := 4; k < m; k *= 2 {
		c2 := newF().Add(one, cos)
		c2.Quo(c2, two)
		s2 := newF().Sub(one, cos)
		s2.Quo(s2, two)
		cos, sin = newF().Sqrt(c2), newF().Sqrt(s2)
	}
	g := cplx{cos, sin}
	r := make([]cplx, m)
	r[0] = cplx{newF().SetInt64(1), newF()}
	for k := 1; k < m; k++ {
		r[k] = cMul(r[k-1], g)
	}
	// exact values on the axes (kills the accumulated rounding where it is most visible)
	r[m/4] = cplx{newF(), newF().SetInt64(1)}
	r[m/2] = cplx{newF().SetInt64(-1), newF()}
	r[3*m/4] = cplx{newF(), newF().SetInt64(-1)}
	rootCache[m] = r
	return r
}

// embedStandard: coefficients a_0..a_{2n-1} of the polynomial in Y = X^(N/2n) -> the n slot values
// z_j = sum_k a_k zeta^(5^j k), zeta = exp(2 pi i / 4n).
func embedStandard(a []*big.Float, n int) []cplx {
	m := 4 * n
	roots := rootsOfUnity(maxI(m, 4))
	step := len(roots) / m
	out := make([]cplx, n)
	pow := 1
	for j := 0; j < n; j++ {
		acc := cNew()
		for k := 0; k < 2*n; k++ {
			w := roots[(pow*k%m)*step]
			acc = cAdd(acc, cplx{newF().Mul(a[k], w.re), newF().Mul(a[k], w.im)})
		}
		out[j] = acc
		pow = pow * 5 % m
	}
	return out
}

// embedConjInv: coefficients b_0..b_{n-1} of the polynomial in the basis 1, Y^k + Y^-k -> the n real slot values
// z_j = b_0 + sum_{k>=1} b_k * 2 cos(2 pi 5^j k / 4n).
func embedConjInv(b []*big.Float, n int) []cplx {
	m := 4 * n
	roots := rootsOfUnity(maxI(m, 4))
	step := len(roots) / m
	out := make([]cplx, n)
	pow := 1
	two := newF().SetInt64(2)
	for j := 0; j < n; j++ {
		acc := newF().Set(b[0])
		for k := 1; k < n; k++ {
			w := roots[(pow*k%m)*step]
			t := newF().Mul(b[k], w.re)
			acc.Add(acc, t.Mul(t, two))
		}
		out[j] = cplx{acc, newF()}
		pow = pow * 5 % m
	}
	return out
}

func maxI(a, b int) int {
	if a > b {
		return a
	}
	return b
}

func fMax(a, b *big.Float) *big.Float {
	if a.Cmp(b) >= 0 {
		return a
	}
	return b
}

// pow2 returns 2^k as a big.Float (k may be negative).
func pow2(k int) *big.Float { return newF().SetMantExp(newF().SetInt64(1), k) }
